import PV.C11.Model
import PV.C11.Spec
import PV.C11.Fragment
/-
  C11 — helper lemmas, part 1: the parsing judgement `Parses`, continuation tokens (`contTok`, `Stop`),
  one lifting lemma per adjacent pair of grammar levels, and the level-indexed parser `parseAt`.
-/
namespace PV.C11
open PV.Expr

/-! ## parsing judgement and continuation tokens -/

/-- `pf` reads `e` off the front of `ts`, leaving `rest`, for every sufficiently large fuel -/
def Parses (pf : Nat → List Tok → PR Expr) (ts : List Tok) (e : Expr) (rest : List Tok) : Prop :=
  ∃ n, ∀ fuel, n ≤ fuel → pf fuel ts = some (e, rest)

def isTrailerStart : Tok → Bool
  | .op .lpar | .op .lsqb | .op .dot => true
  | _ => false

def isCmpStart : Tok → Bool
  | .op .eqeq | .op .ne | .op .lt | .op .le | .op .gt | .op .ge | .kw .in | .kw .not | .kw .is => true
  | _ => false

def binLevelOf : Tok → Option Nat
  | .op o => (binOpOf o).map (·.2)
  | _ => none

/-- token `t` would make the parser function of level `lvl` go on after a complete operand -/
def contTok (lvl : Nat) (t : Tok) : Bool :=
  isTrailerStart t || isStringTok t
  || (decide (lvl ≤ 13) && t == .op .dstar)
  || (decide (lvl ≤ 11) && match binLevelOf t with | some l => decide (lvl ≤ l + 6) | none => false)
  || (decide (lvl ≤ 5) && isCmpStart t)
  || (decide (lvl ≤ 3) && t == .kw .and)
  || (decide (lvl ≤ 2) && t == .kw .or)
  || (decide (lvl ≤ 1) && t == .kw .if)

/-- the rest of the input does not continue an expression read at level `lvl` -/
def Stop (lvl : Nat) (rest : List Tok) : Prop := ∀ t r, rest = t :: r → contTok lvl t = false

theorem contTok_mono {lvl lvl' : Nat} {t : Tok} (h : lvl ≤ lvl') (hc : contTok lvl t = false) :
    contTok lvl' t = false := by
  simp only [contTok, Bool.or_eq_false_iff, Bool.and_eq_false_iff, decide_eq_false_iff_not] at hc ⊢
  obtain ⟨⟨⟨⟨⟨⟨⟨h1, h1'⟩, h2⟩, h3⟩, h4⟩, h5⟩, h6⟩, h7⟩ := hc
  refine ⟨⟨⟨⟨⟨⟨⟨h1, h1'⟩, ?_⟩, ?_⟩, ?_⟩, ?_⟩, ?_⟩, ?_⟩
  · rcases h2 with h2 | h2
    · left; omega
    · right; exact h2
  · rcases h3 with h3 | h3
    · left; omega
    · right
      split at h3 <;> simp_all
      omega
  · rcases h4 with h4 | h4
    · left; omega
    · right; exact h4
  · rcases h5 with h5 | h5
    · left; omega
    · right; exact h5
  · rcases h6 with h6 | h6
    · left; omega
    · right; exact h6
  · rcases h7 with h7 | h7
    · left; omega
    · right; exact h7

theorem Stop.mono {lvl lvl' : Nat} {rest : List Tok} (h : lvl ≤ lvl') (hs : Stop lvl rest) :
    Stop lvl' rest := fun t r hr => contTok_mono h (hs t r hr)

theorem Stop.nil (lvl : Nat) : Stop lvl [] := fun _ _ h => by cases h

theorem Stop.cons {lvl : Nat} {t : Tok} {r : List Tok} (h : contTok lvl t = false) : Stop lvl (t :: r) :=
  fun t' r' h' => by cases h'; exact h

theorem Stop.head {lvl : Nat} {t : Tok} {r : List Tok} (h : Stop lvl (t :: r)) : contTok lvl t = false :=
  h t r rfl

/-! what `Stop` excludes, level by level -/

theorem Stop.not_if {rest} (h : Stop 1 rest) : ∀ r, rest ≠ .kw .if :: r := by
  intro r hr; have := h _ _ hr; simp [contTok, isTrailerStart, isStringTok, binLevelOf, isCmpStart] at this

theorem Stop.not_or {rest} (h : Stop 2 rest) : ∀ r, rest ≠ .kw .or :: r := by
  intro r hr; have := h _ _ hr; simp [contTok, isTrailerStart, isStringTok, binLevelOf, isCmpStart] at this

theorem Stop.not_and {rest} (h : Stop 3 rest) : ∀ r, rest ≠ .kw .and :: r := by
  intro r hr; have := h _ _ hr; simp [contTok, isTrailerStart, isStringTok, binLevelOf, isCmpStart] at this

theorem Stop.not_dstar {rest} (h : Stop 13 rest) : ∀ r, rest ≠ .op .dstar :: r := by
  intro r hr; have := h _ _ hr; simp [contTok, isTrailerStart, isStringTok, binLevelOf, isCmpStart] at this

theorem Stop.cmpOpAt {rest} (h : Stop 5 rest) : cmpOpAt rest = none := by
  unfold PV.C11.cmpOpAt
  split <;> first | rfl | (rename_i hr; have := h _ _ rfl; simp [contTok, isCmpStart] at this)

theorem Stop.binOpAt {k rest} (hk : k ≤ 5) (h : Stop (k + 6) rest) : binOpAt k rest = none := by
  unfold PV.C11.binOpAt
  split
  · rename_i o r
    have := h _ _ rfl
    split
    · rename_i b l hb
      split
      · rename_i hl
        subst hl
        simp [contTok, binLevelOf, hb] at this
        omega
      · rfl
    · rfl
  · rfl

theorem Stop.trailers {rest acc f} (h : Stop 15 rest) : parseTrailers (f + 1) acc rest = some (acc, rest) := by
  unfold parseTrailers
  split <;> first
    | rfl
    | (exfalso; omega)
    | (have := Stop.head h; simp [contTok, isTrailerStart] at this)

/-! ## one lifting lemma per level -/

theorem fuel_succ {n fuel : Nat} (h : n + 1 ≤ fuel) : ∃ f, fuel = f + 1 ∧ n ≤ f := ⟨fuel - 1, by omega, by omega⟩

theorem step_test {ts e rest} (h : Parses parseOrTest ts e rest)
    (ht : ∀ r, ts ≠ .kw .lambda :: r) (hr : ∀ r, rest ≠ .kw .if :: r) :
    Parses parseTest ts e rest := by
  obtain ⟨n, hn⟩ := h
  refine ⟨n + 1, fun fuel hf => ?_⟩
  obtain ⟨f, rfl, hf'⟩ := fuel_succ hf
  rw [parseTest.eq_3 _ _ (by intro r h; exact ht r h), hn f hf']
  split
  · rename_i h1; simp at h1; exact absurd h1.2 (hr _)
  · rfl

theorem step_orTest {ts e rest} (h : Parses parseAndTest ts e rest) (hr : ∀ r, rest ≠ .kw .or :: r) :
    Parses parseOrTest ts e rest := by
  obtain ⟨n, hn⟩ := h
  refine ⟨n + 1, fun fuel hf => ?_⟩
  obtain ⟨f, rfl, hf'⟩ := fuel_succ hf
  rw [parseOrTest, hn f hf']
  split
  · rename_i h1; simp at h1; exact absurd h1.2 (hr _)
  · rfl

theorem step_andTest {ts e rest} (h : Parses parseNotTest ts e rest) (hr : ∀ r, rest ≠ .kw .and :: r) :
    Parses parseAndTest ts e rest := by
  obtain ⟨n, hn⟩ := h
  refine ⟨n + 1, fun fuel hf => ?_⟩
  obtain ⟨f, rfl, hf'⟩ := fuel_succ hf
  rw [parseAndTest, hn f hf']
  split
  · rename_i h1; simp at h1; exact absurd h1.2 (hr _)
  · rfl

theorem step_notTest {ts e rest} (h : Parses parseCmp ts e rest) (ht : ∀ r, ts ≠ .kw .not :: r) :
    Parses parseNotTest ts e rest := by
  obtain ⟨n, hn⟩ := h
  refine ⟨n + 1, fun fuel hf => ?_⟩
  obtain ⟨f, rfl, hf'⟩ := fuel_succ hf
  rw [parseNotTest.eq_3 _ _ (by intro r h; exact ht r h), hn f hf']

theorem step_cmp {ts e rest} (h : Parses (parseBin 0) ts e rest) (hr : cmpOpAt rest = none) :
    Parses parseCmp ts e rest := by
  obtain ⟨n, hn⟩ := h
  refine ⟨n + 1, fun fuel hf => ?_⟩
  obtain ⟨f, rfl, hf'⟩ := fuel_succ hf
  rw [parseCmp, hn f hf']
  simp [hr]

/-- the operand parser of binary level `k` -/
def binOperand (k : Nat) : Nat → List Tok → PR Expr :=
  fun f ts => if k ≥ 5 then parseFactor f ts else parseBin (k + 1) f ts

theorem step_bin {k ts e rest} (h : Parses (binOperand k) ts e rest) (hr : binOpAt k rest = none) :
    Parses (parseBin k) ts e rest := by
  obtain ⟨n, hn⟩ := h
  refine ⟨n + 2, fun fuel hf => ?_⟩
  obtain ⟨f, rfl⟩ : ∃ f, fuel = f + 2 := ⟨fuel - 2, by omega⟩
  have := hn (f + 1) (by omega)
  simp only [binOperand] at this
  rw [parseBin, this]
  simp only
  rw [parseBinLoop, hr]

theorem step_factor {ts e rest} (h : Parses parsePower ts e rest) (ht : unaryOpAt ts = none) :
    Parses parseFactor ts e rest := by
  obtain ⟨n, hn⟩ := h
  refine ⟨n + 1, fun fuel hf => ?_⟩
  obtain ⟨f, rfl, hf'⟩ := fuel_succ hf
  rw [parseFactor, ht, hn f hf']

theorem step_power {ts e rest} (h : Parses parseAtomExpr ts e rest) (hr : ∀ r, rest ≠ .op .dstar :: r) :
    Parses parsePower ts e rest := by
  obtain ⟨n, hn⟩ := h
  refine ⟨n + 1, fun fuel hf => ?_⟩
  obtain ⟨f, rfl, hf'⟩ := fuel_succ hf
  rw [parsePower, hn f hf']
  split
  · rename_i h1; simp at h1; exact absurd h1.2 (hr _)
  · rfl

theorem step_atomExpr {ts e rest} (h : Parses parseAtomExpr2 ts e rest) (ht : ∀ r, ts ≠ .kw .await :: r) :
    Parses parseAtomExpr ts e rest := by
  obtain ⟨n, hn⟩ := h
  refine ⟨n + 1, fun fuel hf => ?_⟩
  obtain ⟨f, rfl, hf'⟩ := fuel_succ hf
  rw [parseAtomExpr.eq_3 _ _ (by intro r h; exact ht r h), hn f hf']

/-- an atom followed by no trailer -/
theorem step_atomExpr2 {ts e rest} (h : Parses parseAtom ts e rest) (hr : Stop 15 rest) :
    Parses parseAtomExpr2 ts e rest := by
  obtain ⟨n, hn⟩ := h
  refine ⟨n + 2, fun fuel hf => ?_⟩
  obtain ⟨f, rfl⟩ : ∃ f, fuel = f + 2 := ⟨fuel - 2, by omega⟩
  rw [parseAtomExpr2, hn (f + 1) (by omega)]
  simp only
  exact hr.trailers

/-! ## the parser function of each level, and lifting across several levels -/

/-- the parser function that reads an operand standing in a slot of precedence level `lvl`
    (`Prec.TEST = 1` … `Prec.ATOM = 15`; level 0 is read like level 1) -/
def parseAt (lvl : Nat) : Nat → List Tok → PR Expr :=
  if lvl ≤ 1 then parseTest
  else if lvl = 2 then parseOrTest
  else if lvl = 3 then parseAndTest
  else if lvl = 4 then parseNotTest
  else if lvl = 5 then parseCmp
  else if lvl ≤ 11 then parseBin (lvl - 6)
  else if lvl = 12 then parseFactor
  else if lvl = 13 then parsePower
  else if lvl = 14 then parseAtomExpr
  else parseAtomExpr2

/-- what the first token of an operand rendered at level `lvl` can be -/
def goodHead (lvl : Nat) : Tok → Bool
  | .name _ | .int _ | .float _ | .imag _ => true
  | .kw .true | .kw .false | .kw .none => true
  | .op .ellipsis | .op .lpar => true
  | .kw .not => decide (lvl ≤ 4)
  | .op .plus | .op .minus | .op .tilde => decide (lvl ≤ 12)
  | _ => false

theorem goodHead_anti {lvl lvl' : Nat} {t : Tok} (h : lvl ≤ lvl') (hg : goodHead lvl' t = true) :
    goodHead lvl t = true := by
  unfold goodHead at *
  split at hg <;> simp_all <;> omega

theorem binOperand_eq_parseAt {k : Nat} (hk : k ≤ 5) : binOperand k = parseAt (k + 7) := by
  funext f ts
  unfold binOperand parseAt
  have : k = 0 ∨ k = 1 ∨ k = 2 ∨ k = 3 ∨ k = 4 ∨ k = 5 := by omega
  rcases this with rfl | rfl | rfl | rfl | rfl | rfl <;> simp

/-- one level up: from `parseAt (lvl+1)` to `parseAt lvl` -/
theorem lift_one {lvl : Nat} {t : Tok} {r : List Tok} {e rest} (h1 : 1 ≤ lvl) (h15 : lvl < 15)
    (h : Parses (parseAt (lvl + 1)) (t :: r) e rest) (hg : goodHead (lvl + 1) t = true)
    (hs : Stop lvl rest) : Parses (parseAt lvl) (t :: r) e rest := by
  have hl : lvl = 1 ∨ lvl = 2 ∨ lvl = 3 ∨ lvl = 4 ∨ lvl = 5 ∨ lvl = 6 ∨ lvl = 7 ∨ lvl = 8 ∨ lvl = 9 ∨
      lvl = 10 ∨ lvl = 11 ∨ lvl = 12 ∨ lvl = 13 ∨ lvl = 14 := by omega
  rcases hl with rfl | rfl | rfl | rfl | rfl | rfl | rfl | rfl | rfl | rfl | rfl | rfl | rfl | rfl
  · exact step_test h (by intro r' h'; cases h'; simp [goodHead] at hg) hs.not_if
  · exact step_orTest h hs.not_or
  · exact step_andTest h hs.not_and
  · exact step_notTest h (by intro r' h'; cases h'; simp [goodHead] at hg)
  · exact step_cmp h hs.cmpOpAt
  · exact step_bin (k := 0) (by rw [binOperand_eq_parseAt (by omega)]; exact h) (Stop.binOpAt (by omega) hs)
  · exact step_bin (k := 1) (by rw [binOperand_eq_parseAt (by omega)]; exact h) (Stop.binOpAt (by omega) hs)
  · exact step_bin (k := 2) (by rw [binOperand_eq_parseAt (by omega)]; exact h) (Stop.binOpAt (by omega) hs)
  · exact step_bin (k := 3) (by rw [binOperand_eq_parseAt (by omega)]; exact h) (Stop.binOpAt (by omega) hs)
  · exact step_bin (k := 4) (by rw [binOperand_eq_parseAt (by omega)]; exact h) (Stop.binOpAt (by omega) hs)
  · exact step_bin (k := 5) (by rw [binOperand_eq_parseAt (by omega)]; exact h) (Stop.binOpAt (by omega) hs)
  · refine step_factor h ?_
    unfold unaryOpAt
    split <;> simp_all [goodHead]
  · exact step_power h hs.not_dstar
  · exact step_atomExpr h (by intro r' h'; cases h'; simp [goodHead] at hg)

theorem lift_aux {t : Tok} {r : List Tok} {e rest} (d : Nat) : ∀ lvl : Nat, 1 ≤ lvl → lvl + d ≤ 15 →
    Parses (parseAt (lvl + d)) (t :: r) e rest → goodHead (lvl + d) t = true → Stop lvl rest →
    Parses (parseAt lvl) (t :: r) e rest := by
  induction d with
  | zero => intro lvl _ _ h _ _; exact h
  | succ d ih =>
    intro lvl h1 h15 h hg hs
    have e1 : lvl + (d + 1) = lvl + 1 + d := by omega
    rw [e1] at h hg
    have h' := ih (lvl + 1) (by omega) (by omega) h hg (hs.mono (by omega))
    exact lift_one h1 (by omega) h' (goodHead_anti (by omega) hg) hs

/-- several levels up -/
theorem lift {lvl lvl' : Nat} {t : Tok} {r : List Tok} {e rest} (h1 : 1 ≤ lvl) (hle : lvl ≤ lvl')
    (h15 : lvl' ≤ 15) (h : Parses (parseAt lvl') (t :: r) e rest) (hg : goodHead lvl' t = true)
    (hs : Stop lvl rest) : Parses (parseAt lvl) (t :: r) e rest := by
  obtain ⟨d, rfl⟩ : ∃ d, lvl' = lvl + d := ⟨lvl' - lvl, by omega⟩
  exact lift_aux d lvl h1 h15 h hg hs

theorem parseAt_zero : parseAt 0 = parseAt 1 := by unfold parseAt; simp

/-! ## token lists of renderings -/

@[simp] theorem toks_nil : toks [] = [] := rfl
@[simp] theorem toks_t (tk : Tok) (r : List Out) : toks (.t tk :: r) = tk :: toks r := rfl
@[simp] theorem toks_sp (r : List Out) : toks (.sp :: r) = toks r := rfl

@[simp] theorem toks_append (a b : List Out) : toks (a ++ b) = toks a ++ toks b := by
  induction a with
  | nil => rfl
  | cons x xs ih => cases x <;> simp [toks, ih]

theorem toks_groupIf (g : Bool) (b : List Out) :
    toks (groupIf g b) = if g then .op .lpar :: (toks b ++ [.op .rpar]) else toks b := by
  cases g <;> simp [groupIf, toks]

/-- the rendering at level `lvl` is the rendering at the node's own level, wrapped in parentheses
    exactly when `lvl` exceeds that level (`group_if!`) -/
theorem unparse_group (p : Nat → Bool) (e : Expr) (lvl prec : Nat)
    (h : kindPrec (kindOf e) = some prec) :
    unparse p e lvl = groupIf (decide (lvl > prec)) (unparse p e prec) := by
  cases e with
  | tuple es =>
    cases es with
    | nil => simp [kindOf, kindPrec] at h
    | cons a as =>
      simp [kindOf, kindPrec] at h; subst h
      simp [unparse, groupIf, Prec.TUPLE]
  | boolOp o vs => simp [kindOf, kindPrec] at h; subst h; simp [unparse, groupIf]
  | binOp l o r => simp [kindOf, kindPrec] at h; subst h; simp [unparse, groupIf]
  | unaryOp o x => simp [kindOf, kindPrec] at h; subst h; simp [unparse, groupIf]
  | compare l ops cs => simp [kindOf, kindPrec] at h; subst h; simp [unparse, groupIf, Prec.CMP]
  | ifExp a b c => simp [kindOf, kindPrec] at h; subst h; simp [unparse, groupIf, Prec.TEST]
  | lambda a b c d e f => simp [kindOf, kindPrec] at h; subst h; simp [unparse, groupIf, Prec.TEST]
  | namedExpr a b => simp [kindOf, kindPrec] at h; subst h; simp [unparse, groupIf, Prec.TUPLE]
  | await a => simp [kindOf, kindPrec] at h; subst h; simp [unparse, groupIf, Prec.AWAIT]
  | _ => simp [kindOf, kindPrec] at h

/-- kinds without a `group_if!` are rendered independently of the level -/
theorem unparse_nogroup (p : Nat → Bool) (e : Expr) (lvl lvl' : Nat)
    (h : kindPrec (kindOf e) = none) : unparse p e lvl = unparse p e lvl' := by
  cases e with
  | tuple es =>
    cases es with
    | nil => simp [unparse]
    | cons a as => simp [kindOf, kindPrec] at h
  | call f as ks =>
    cases as with
    | nil => simp [unparse]
    | cons a as' =>
      cases as' with
      | nil => cases a <;> cases ks <;> simp [unparse]
      | cons b bs => simp [unparse]
  | yield v => cases v <;> simp [unparse]
  | boolOp _ _ | binOp _ _ _ | unaryOp _ _ | compare _ _ _ | ifExp _ _ _ | lambda _ _ _ _ _ _
  | namedExpr _ _ | await _ => simp [kindOf, kindPrec] at h
  | name _ | const _ | dict _ | set _ | listComp _ _ | setComp _ _ | dictComp _ _ _ | genExp _ _
  | yieldFrom _ | formattedValue _ _ _ | joinedStr _ | «attribute» _ _ | subscript _ _ | starred _
  | list _ => simp only [unparse]
  | slice a b c => cases c <;> simp only [unparse]

/-! ## renderings of the fragment, as token lists -/

theorem toks_unparseBool_cons (p : Nat → Bool) (v : Expr) (vs : List Expr) (k : Kw) (lvl : Nat) :
    toks (unparseBool p (v :: vs) k lvl true) =
      toks (unparse p v lvl) ++ toks (unparseBool p vs k lvl false) := by
  simp [unparseBool]

theorem toks_unparseBool_cons' (p : Nat → Bool) (v : Expr) (vs : List Expr) (k : Kw) (lvl : Nat) :
    toks (unparseBool p (v :: vs) k lvl false) =
      .kw k :: (toks (unparse p v lvl) ++ toks (unparseBool p vs k lvl false)) := by
  simp [unparseBool, kw]

def unaryTok : UnaryOp → Tok
  | .invert => .op .tilde
  | .not => .kw .not
  | .uAdd => .op .plus
  | .uSub => .op .minus

theorem toks_unaryOpOuts (o : UnaryOp) : toks (unaryOpOuts o) = [unaryTok o] := by
  cases o <;> rfl

/-- first token of the rendering of a fragment expression -/
theorem firstTok (p : Nat → Bool) : (e : Expr) → inFrag e = true → ∀ lvl : Nat,
    ∃ t r, toks (unparse p e lvl) = t :: r ∧ goodHead lvl t = true
  | .name id, _, lvl => ⟨.name id, [], by simp [unparse], rfl⟩
  | .const c, h, lvl => by
    refine ⟨constTok c, [], by simp [unparse], ?_⟩
    cases c with
    | bool b => cases b <;> rfl
    | str _ _ => simp [inFrag] at h
    | bytes _ => simp [inFrag] at h
    | _ => rfl
  | .unaryOp o x, h, lvl => by
    rw [unparse_group p _ lvl (unaryOpPrec o) rfl, toks_groupIf]
    by_cases hg : lvl > unaryOpPrec o
    · exact ⟨.op .lpar, _, by rw [if_pos (by simpa using hg)], rfl⟩
    · simp only [hg, decide_false, Bool.false_eq_true, if_false]
      refine ⟨unaryTok o, toks (unparse p x (unaryOpPrec o)), by simp [unparse, groupIf, toks_unaryOpOuts], ?_⟩
      cases o <;> simp [goodHead, unaryTok, unaryOpPrec, Prec.FACTOR, Prec.NOT] at hg ⊢ <;> omega
  | .binOp l o r, h, lvl => by
    have hl : inFrag l = true := by simp [inFrag] at h; exact h.1
    rw [unparse_group p _ lvl (binOpPrec o) rfl, toks_groupIf]
    by_cases hg : lvl > binOpPrec o
    · exact ⟨.op .lpar, _, by rw [if_pos (by simpa using hg)], rfl⟩
    · simp only [hg, decide_false, Bool.false_eq_true, if_false]
      obtain ⟨t, r', ht, hgood⟩ := firstTok p l hl (binOpPrec o + (if o = .pow then 1 else 0))
      refine ⟨t, r' ++ (.op (binOpTok o) :: toks (unparse p r (binOpPrec o + if o = .pow then 0 else 1))), ?_,
        goodHead_anti (by omega) hgood⟩
      simp [unparse, groupIf, ht]
  | .boolOp o (v :: vs), h, lvl => by
    have hv : inFrag v = true := by simp [inFrag, inFragList] at h; exact h.2.1
    rw [unparse_group p _ lvl (boolOpPrec o) rfl, toks_groupIf]
    by_cases hg : lvl > boolOpPrec o
    · exact ⟨.op .lpar, _, by rw [if_pos (by simpa using hg)], rfl⟩
    · simp only [hg, decide_false, Bool.false_eq_true, if_false]
      obtain ⟨t, r', ht, hgood⟩ := firstTok p v hv (boolOpPrec o + 1)
      refine ⟨t, r' ++ toks (unparseBool p vs (boolOpKw o) (boolOpPrec o + 1) false), ?_,
        goodHead_anti (by omega) hgood⟩
      simp [unparse, groupIf, toks_unparseBool_cons, ht]
  | .boolOp o [], h, lvl => by simp [inFrag] at h
  | .compare l ops cs, h, lvl => by
    have hl : inFrag l = true := by simp [inFrag] at h; exact h.1.1.1
    rw [unparse_group p _ lvl Prec.CMP rfl, toks_groupIf]
    by_cases hg : lvl > Prec.CMP
    · exact ⟨.op .lpar, _, by rw [if_pos (by simpa using hg)], rfl⟩
    · simp only [hg, decide_false, Bool.false_eq_true, if_false]
      obtain ⟨t, r', ht, hgood⟩ := firstTok p l hl (Prec.CMP + 1)
      refine ⟨t, r' ++ toks (unparseCmps p ops cs), ?_, goodHead_anti (by omega) hgood⟩
      simp [unparse, groupIf, ht]
  | .ifExp t b o, h, lvl => by
    have hb : inFrag b = true := by simp [inFrag] at h; exact h.1.2
    rw [unparse_group p _ lvl Prec.TEST rfl, toks_groupIf]
    by_cases hg : lvl > Prec.TEST
    · exact ⟨.op .lpar, _, by rw [if_pos (by simpa using hg)], rfl⟩
    · simp only [hg, decide_false, Bool.false_eq_true, if_false]
      obtain ⟨t', r', ht, hgood⟩ := firstTok p b hb (Prec.TEST + 1)
      refine ⟨t', r' ++ (.kw .if :: (toks (unparse p t (Prec.TEST + 1)) ++ .kw .else :: toks (unparse p o Prec.TEST))), ?_,
        goodHead_anti (by omega) hgood⟩
      simp [unparse, groupIf, ht, kw]
  | .namedExpr .., h, _ | .lambda .., h, _ | .dict .., h, _ | .set .., h, _ | .listComp .., h, _
  | .setComp .., h, _ | .dictComp .., h, _ | .genExp .., h, _ | .await .., h, _ | .yield .., h, _
  | .yieldFrom .., h, _ | .call .., h, _ | .formattedValue .., h, _ | .joinedStr .., h, _
  | .attribute .., h, _ | .subscript .., h, _ | .starred .., h, _ | .list .., h, _ | .tuple .., h, _
  | .slice .., h, _ => by simp [inFrag] at h

theorem toks_cmpOpOuts_noWalrus (o : CmpOp) : .op .walrus ∉ toks (cmpOpOuts o) := by
  cases o <;> simp [cmpOpOuts, toks, op, kw]

mutual
/-- `:=` never occurs in the rendering of a fragment expression -/
theorem noWalrus (p : Nat → Bool) : (e : Expr) → inFrag e = true → ∀ lvl : Nat,
    Tok.op .walrus ∉ toks (unparse p e lvl)
  | .name id, _, lvl => by simp [unparse]
  | .const c, h, lvl => by
    cases c with
    | bool b => cases b <;> simp [unparse, constTok]
    | _ => simp [unparse, constTok]
  | .unaryOp o x, h, lvl => by
    have hx : inFrag x = true := by simpa [inFrag] using h
    have := noWalrus p x hx (unaryOpPrec o)
    simp only [unparse, toks_groupIf]
    split <;> simp [toks_unaryOpOuts, this] <;> cases o <;> simp [unaryTok]
  | .binOp l o r, h, lvl => by
    have hl : inFrag l = true := by simp [inFrag] at h; exact h.1
    have hr : inFrag r = true := by simp [inFrag] at h; exact h.2
    have h1 := noWalrus p l hl (binOpPrec o + if o = .pow then 1 else 0)
    have h2 := noWalrus p r hr (binOpPrec o + if o = .pow then 0 else 1)
    simp only [unparse, toks_groupIf]
    split <;> simp [h1, h2] <;> cases o <;> simp [binOpTok]
  | .boolOp o vs, h, lvl => by
    have hv : inFragList vs = true := by simp [inFrag] at h; exact h.2
    have := noWalrusBool p vs hv (boolOpKw o) (boolOpPrec o + 1) true
    simp only [unparse, toks_groupIf]
    split <;> simp [this]
  | .compare l ops cs, h, lvl => by
    have hl : inFrag l = true := by simp [inFrag] at h; exact h.1.1.1
    have hc : inFragList cs = true := by simp [inFrag] at h; exact h.2
    have h1 := noWalrus p l hl (Prec.CMP + 1)
    have h2 := noWalrusCmps p cs hc ops
    simp only [unparse, toks_groupIf]
    split <;> simp [h1, h2]
  | .ifExp t b o, h, lvl => by
    have ht : inFrag t = true := by simp [inFrag] at h; exact h.1.1
    have hb : inFrag b = true := by simp [inFrag] at h; exact h.1.2
    have ho : inFrag o = true := by simp [inFrag] at h; exact h.2
    have h1 := noWalrus p t ht (Prec.TEST + 1)
    have h2 := noWalrus p b hb (Prec.TEST + 1)
    have h3 := noWalrus p o ho Prec.TEST
    simp only [unparse, toks_groupIf]
    split <;> simp [h1, h2, h3, kw]
  | .namedExpr .., h, _ | .lambda .., h, _ | .dict .., h, _ | .set .., h, _ | .listComp .., h, _
  | .setComp .., h, _ | .dictComp .., h, _ | .genExp .., h, _ | .await .., h, _ | .yield .., h, _
  | .yieldFrom .., h, _ | .call .., h, _ | .formattedValue .., h, _ | .joinedStr .., h, _
  | .attribute .., h, _ | .subscript .., h, _ | .starred .., h, _ | .list .., h, _ | .tuple .., h, _
  | .slice .., h, _ => by simp [inFrag] at h
theorem noWalrusBool (p : Nat → Bool) : (vs : List Expr) → inFragList vs = true →
    ∀ (k : Kw) (lvl : Nat) (first : Bool), Tok.op .walrus ∉ toks (unparseBool p vs k lvl first)
  | [], _, _, _, _ => by simp [unparseBool]
  | v :: vs, h, k, lvl, first => by
    have hv : inFrag v = true := by simp [inFragList] at h; exact h.1
    have hvs : inFragList vs = true := by simp [inFragList] at h; exact h.2
    have h1 := noWalrus p v hv lvl
    have h2 := noWalrusBool p vs hvs k lvl false
    cases first <;> simp [unparseBool, h1, h2, kw]
theorem noWalrusCmps (p : Nat → Bool) : (cs : List Expr) → inFragList cs = true →
    ∀ (ops : List CmpOp), Tok.op .walrus ∉ toks (unparseCmps p ops cs)
  | [], _, ops => by cases ops <;> simp [unparseCmps]
  | c :: cs, h, [] => by simp [unparseCmps]
  | c :: cs, h, o :: os => by
    have hc : inFrag c = true := by simp [inFragList] at h; exact h.1
    have hcs : inFragList cs = true := by simp [inFragList] at h; exact h.2
    have h1 := noWalrus p c hc (Prec.CMP + 1)
    have h2 := noWalrusCmps p cs hcs os
    simp [unparseCmps, h1, h2, toks_cmpOpOuts_noWalrus]
end

end PV.C11
