import PV.C11.LemmasX
/-
  C11 — helper lemmas, part 3: lambda parameter lists, comprehension targets, comprehension clauses, the four
  comprehension forms, the bare generator argument of a call.
-/
namespace PV.C11
open PV.Expr

/-! ## lambda parameter lists

  The unparser writes the parameter list as comma-separated *items*: parameters (with or without default), the
  `/` marker, `*` or `*name`, `**name`.  `parseParams` is a loop over exactly these items with a phase counter. -/

inductive PItem where
  | par (n : Ident) (d : Option Expr)
  | slash
  | star (v : Option Ident)
  | dstar (k : Ident)

def PItem.toks (p : Nat → Bool) : PItem → List Tok
  | .par n none => [.name n]
  | .par n (some d) => .name n :: .op .assign :: PV.C11.toks (unparse p d 1)
  | .slash => [.op .slash]
  | .star none => [.op .star]
  | .star (some v) => [.op .star, .name v]
  | .dstar k => [.op .dstar, .name k]

/-- the items, separated by commas (`first`: no comma in front of the first one) -/
def itemsToks (p : Nat → Bool) : List PItem → Bool → List Tok
  | [], _ => []
  | i :: is, first => (if first then [] else [.op .comma]) ++ i.toks p ++ itemsToks p is false

/-- what one item does to the collected parameters and the phase (0 before `/`, 1 after it, 2 after `*`, 3 after `**`) -/
def PItem.step : PItem → Params × Nat → Option (Params × Nat)
  | .par n d, (ps, ph) =>
    if ph = 2 then some ({ ps with kwonly := ps.kwonly ++ [.mk n d] }, ph)
    else if ph ≤ 1 then some ({ ps with args := ps.args ++ [.mk n d] }, ph)
    else none
  | .slash, (ps, ph) =>
    if ph = 0 ∧ !ps.args.isEmpty then some ({ ps with posonly := ps.args, args := [] }, 1) else none
  | .star none, (ps, ph) => if ph ≤ 1 then some (ps, 2) else none
  | .star (some v), (ps, ph) => if ph ≤ 1 then some ({ ps with vararg := some v }, 2) else none
  | .dstar k, (ps, ph) => if ph ≤ 2 then some ({ ps with kwarg := some k }, 3) else none

def runItems : List PItem → Params × Nat → Option (Params × Nat)
  | [], s => some s
  | i :: is, s =>
    match i.step s with
    | some s' => runItems is s'
    | none => none

/-- "named arguments must follow bare *" -/
def bareStarOk (q : Params) (ph : Nat) : Bool := !(ph = 2 && q.vararg.isNone && q.kwonly.isEmpty)

/-- what the induction gives for the defaults of an item -/
def PItem.GoodD (p : Nat → Bool) : PItem → Prop
  | .par _ (some d) => GoodP p d
  | _ => True

theorem PItem.head (p : Nat → Bool) (i : PItem) :
    ∃ t r, i.toks p = t :: r ∧ t ≠ .op .colon ∧ t ≠ .op .comma := by
  cases i with
  | par n d => cases d <;> exact ⟨_, _, rfl, by simp, by simp⟩
  | slash => exact ⟨_, _, rfl, by simp, by simp⟩
  | star v => cases v <;> exact ⟨_, _, rfl, by simp, by simp⟩
  | dstar k => exact ⟨_, _, rfl, by simp, by simp⟩

/-- an item followed by `,` and a further item -/
theorem item_more (p : Nat → Bool) (i : PItem) (hd : i.GoodD p) (ps : Params) (ph : Nat) (ps' : Params) (ph' : Nat)
    (hs : i.step (ps, ph) = some (ps', ph')) (K : List Tok) (hK : ∀ r, K ≠ .op .colon :: r) :
    ∃ n, ∀ f, n ≤ f → parseParams (f + 1) (i.toks p ++ .op .comma :: K) ps ph = parseParams f K ps' ph' := by
  cases i with
  | par n d =>
    simp only [PItem.step] at hs
    cases d with
    | none =>
      refine ⟨0, fun f _ => ?_⟩
      simp only [PItem.toks, List.cons_append, List.nil_append]
      by_cases h2 : ph = 2
      · simp [h2] at hs; obtain ⟨rfl, rfl⟩ := hs
        rw [parseParams]
        · simp only [h2, if_true]
        all_goals (intro r h; simp at h)
      · by_cases h1 : ph ≤ 1
        · simp [h2, h1] at hs; obtain ⟨rfl, rfl⟩ := hs
          rw [parseParams]
          · simp only [h2, if_false, h1, if_true]
          all_goals (intro r h; simp at h)
        · simp [h2, h1] at hs
    | some d =>
      have hT := test_then p hd (c := .op .comma) contTok_comma K
      obtain ⟨n0, hn0⟩ := hT
      refine ⟨n0, fun f hf => ?_⟩
      have hT := hn0 f hf
      simp only [PItem.toks, List.cons_append]
      by_cases h2 : ph = 2
      · simp [h2] at hs; obtain ⟨rfl, rfl⟩ := hs
        rw [parseParams]
        simp [h2, hT]
      · by_cases h1 : ph ≤ 1
        · simp [h2, h1] at hs; obtain ⟨rfl, rfl⟩ := hs
          have h3 : ph ≤ 2 := by omega
          rw [parseParams]
          simp [h2, h3, hT]
        · simp [h2, h1] at hs
  | slash =>
    refine ⟨0, fun f _ => ?_⟩
    simp only [PItem.step] at hs
    split at hs
    · rename_i hc
      simp at hs; obtain ⟨rfl, rfl⟩ := hs
      simp only [PItem.toks, List.cons_append, List.nil_append]
      have ha : ps.args ≠ [] := by simpa using hc.2
      rw [parseParams]
      simp [hc.1, ha]
    · simp at hs
  | star v =>
    refine ⟨0, fun f _ => ?_⟩
    cases v with
    | none =>
      simp only [PItem.step] at hs
      split at hs
      · rename_i hc
        simp at hs; obtain ⟨rfl, rfl⟩ := hs
        simp only [PItem.toks, List.cons_append, List.nil_append]
        rw [parseParams]
        · simp [hc]
        all_goals (intro n r h; simp at h)
      · simp at hs
    | some v =>
      simp only [PItem.step] at hs
      split at hs
      · rename_i hc
        simp at hs; obtain ⟨rfl, rfl⟩ := hs
        simp only [PItem.toks, List.cons_append, List.nil_append]
        rw [parseParams]
        simp [hc]
      · simp at hs
  | dstar k =>
    refine ⟨0, fun f _ => ?_⟩
    simp only [PItem.step] at hs
    split at hs
    · rename_i hc
      simp at hs; obtain ⟨rfl, rfl⟩ := hs
      simp only [PItem.toks, List.cons_append, List.nil_append]
      rw [parseParams]
      simp [hc]
    · simp at hs

/-- the last item, followed by the `:` of the lambda -/
theorem item_last (p : Nat → Bool) (i : PItem) (hd : i.GoodD p) (ps : Params) (ph : Nat) (ps' : Params) (ph' : Nat)
    (hs : i.step (ps, ph) = some (ps', ph')) (hb : bareStarOk ps' ph' = true) (rest : List Tok) :
    ∃ n, ∀ f, n ≤ f →
      parseParams (f + 1) (i.toks p ++ .op .colon :: rest) ps ph = some (ps', .op .colon :: rest) := by
  simp only [bareStarOk] at hb
  cases i with
  | par n d =>
    simp only [PItem.step] at hs
    cases d with
    | none =>
      refine ⟨0, fun f _ => ?_⟩
      simp only [PItem.toks, List.cons_append, List.nil_append]
      by_cases h2 : ph = 2
      · simp [h2] at hs; obtain ⟨rfl, rfl⟩ := hs
        rw [parseParams]
        · simp only [h2, if_true]
          simp
        all_goals (intro r h; simp at h)
      · by_cases h1 : ph ≤ 1
        · simp [h2, h1] at hs; obtain ⟨rfl, rfl⟩ := hs
          rw [parseParams]
          · simp only [h2, if_false, h1, if_true]
            simp
          all_goals (intro r h; simp at h)
        · simp [h2, h1] at hs
    | some d =>
      have hT := test_then p hd (c := .op .colon) contTok_colon rest
      obtain ⟨n0, hn0⟩ := hT
      refine ⟨n0, fun f hf => ?_⟩
      have hT := hn0 f hf
      simp only [PItem.toks, List.cons_append]
      by_cases h2 : ph = 2
      · simp [h2] at hs; obtain ⟨rfl, rfl⟩ := hs
        rw [parseParams]
        simp [h2, hT]
      · by_cases h1 : ph ≤ 1
        · simp [h2, h1] at hs; obtain ⟨rfl, rfl⟩ := hs
          have h3 : ph ≤ 2 := by omega
          rw [parseParams]
          simp [h2, h3, hT]
        · simp [h2, h1] at hs
  | slash =>
    refine ⟨0, fun f _ => ?_⟩
    simp only [PItem.step] at hs
    split at hs
    · rename_i hc
      simp at hs; obtain ⟨rfl, rfl⟩ := hs
      simp only [PItem.toks, List.cons_append, List.nil_append]
      have ha : ps.args ≠ [] := by simpa using hc.2
      rw [parseParams]
      simp [hc.1, ha]
    · simp at hs
  | star v =>
    refine ⟨0, fun f _ => ?_⟩
    cases v with
    | none =>
      simp only [PItem.step] at hs
      split at hs
      · rename_i hc
        simp at hs; obtain ⟨rfl, rfl⟩ := hs
        simp only [PItem.toks, List.cons_append, List.nil_append]
        have hb' : ps.vararg = none → ¬ ps.kwonly = [] := by intro hv; simpa [hv] using hb
        rw [parseParams]
        · simp [hc]
          exact hb'
        all_goals (intro n r h; simp at h)
      · simp at hs
    | some v =>
      simp only [PItem.step] at hs
      split at hs
      · rename_i hc
        simp at hs; obtain ⟨rfl, rfl⟩ := hs
        simp only [PItem.toks, List.cons_append, List.nil_append]
        rw [parseParams]
        simp [hc]
      · simp at hs
  | dstar k =>
    refine ⟨0, fun f _ => ?_⟩
    simp only [PItem.step] at hs
    split at hs
    · rename_i hc
      simp at hs; obtain ⟨rfl, rfl⟩ := hs
      simp only [PItem.toks, List.cons_append, List.nil_append]
      rw [parseParams]
      simp [hc]
    · simp at hs

theorem itemsToks_false_cons (p : Nat → Bool) (i : PItem) (is : List PItem) :
    itemsToks p (i :: is) false = .op .comma :: itemsToks p (i :: is) true := by
  simp [itemsToks]

theorem itemsToks_append (p : Nat → Bool) (a b : List PItem) (first : Bool) :
    itemsToks p (a ++ b) first = itemsToks p a first ++ itemsToks p b (first && a.isEmpty) := by
  induction a generalizing first with
  | nil => simp [itemsToks]
  | cons i is ih => simp [itemsToks, ih]

/-- the whole parameter list, up to the `:` -/
theorem paramsRT (p : Nat → Bool) : (its : List PItem) → (∀ i ∈ its, i.GoodD p) → ∀ (ps : Params) (ph : Nat)
    (ps' : Params) (ph' : Nat) (rest : List Tok), its ≠ [] → runItems its (ps, ph) = some (ps', ph') →
    bareStarOk ps' ph' = true → ∃ n, ∀ f, n ≤ f →
      parseParams f (itemsToks p its true ++ .op .colon :: rest) ps ph = some (ps', .op .colon :: rest)
  | [], _, _, _, _, _, _, hne, _, _ => absurd rfl hne
  | [i], hd, ps, ph, ps', ph', rest, _, hr, hb => by
    have hs : i.step (ps, ph) = some (ps', ph') := by
      simp only [runItems] at hr
      split at hr
      · rename_i s' hs'; simp at hr; rw [hs', hr]
      · simp at hr
    obtain ⟨n, hn⟩ := item_last p i (hd i (List.mem_cons_self ..)) ps ph ps' ph' hs hb rest
    refine ⟨n + 1, fun fuel hf => ?_⟩
    obtain ⟨f, rfl⟩ : ∃ f, fuel = f + 1 := ⟨fuel - 1, by omega⟩
    simpa [itemsToks] using hn f (by omega)
  | i :: j :: js, hd, ps, ph, ps', ph', rest, _, hr, hb => by
    simp only [runItems] at hr
    split at hr
    · rename_i s1 hs1
      obtain ⟨ps1, ph1⟩ := s1
      obtain ⟨tj, rj, htj, hcj, _⟩ := j.head p
      obtain ⟨n1, hn1⟩ := item_more p i (hd i (List.mem_cons_self ..)) ps ph ps1 ph1 hs1
        (itemsToks p (j :: js) true ++ .op .colon :: rest) (by
          intro r h
          simp only [itemsToks, if_true, List.nil_append, htj, List.cons_append] at h
          simp at h
          exact hcj h.1)
      obtain ⟨n2, hn2⟩ := paramsRT p (j :: js) (fun k hk => hd k (List.mem_cons_of_mem _ hk)) ps1 ph1 ps' ph' rest
        (by simp) hr hb
      refine ⟨n1 + n2 + 1, fun fuel hf => ?_⟩
      obtain ⟨f, rfl⟩ : ∃ f, fuel = f + 1 := ⟨fuel - 1, by omega⟩
      have e1 : itemsToks p (i :: j :: js) true ++ .op .colon :: rest =
          i.toks p ++ .op .comma :: (itemsToks p (j :: js) true ++ .op .colon :: rest) := by
        rw [show itemsToks p (i :: j :: js) true = i.toks p ++ itemsToks p (j :: js) false by simp [itemsToks],
          itemsToks_false_cons]
        simp
      rw [e1, hn1 f (by omega), hn2 f (by omega)]
    · simp at hr

/-- the items of a lambda's parameter list, in the order `unparse_arguments` writes them -/
def parItem : Param → PItem
  | .mk n d => .par n d

def lambdaItems (po ar : List Param) (va : Option Ident) (ko : List Param) (kw : Option Ident) : List PItem :=
  po.map parItem ++ (if po.isEmpty then [] else [.slash]) ++ ar.map parItem ++
    (if va.isSome || !ko.isEmpty then [.star va] else []) ++ ko.map parItem ++
    (match kw with
     | some k => [.dstar k]
     | none => [])

theorem toks_unparseParam (p : Nat → Bool) (a : Param) : toks (unparseParam p a) = (parItem a).toks p := by
  cases a with
  | mk n d => cases d <;> simp [unparseParam, parItem, PItem.toks, Prec.TEST, op]

/-- positional parameters before the `/` (the marker is written after the last of them) -/
theorem toks_posParams_slash (p : Nat → Bool) : (as : List Param) → (i npos : Nat) → i + as.length = npos → as ≠ [] →
    ∀ first, toks (unparsePosParams p as i npos first) = itemsToks p (as.map parItem ++ [.slash]) first
  | [], _, _, _, hne, _ => absurd rfl hne
  | [a], i, npos, hlen, _, first => by
    have : i + 1 = npos := by simpa using hlen
    cases first <;> simp [unparsePosParams, this, itemsToks, toks_unparseParam, delim, op, PItem.toks]
  | a :: b :: bs, i, npos, hlen, _, first => by
    have hne : ¬ (i + 1 = npos) := by simp at hlen; omega
    have ih := toks_posParams_slash p (b :: bs) (i + 1) npos (by simp at hlen ⊢; omega) (by simp) false
    cases first <;> simp [unparsePosParams, hne, itemsToks, toks_unparseParam, delim, op] at ih ⊢ <;> rw [ih]

/-- positional parameters after the `/` (or when there is none) -/
theorem toks_posParams_plain (p : Nat → Bool) : (as : List Param) → (i npos : Nat) → npos ≤ i →
    ∀ first, toks (unparsePosParams p as i npos first) = itemsToks p (as.map parItem) first
  | [], _, _, _, _ => by simp [unparsePosParams, itemsToks]
  | a :: as, i, npos, hle, first => by
    have hne : ¬ (i + 1 = npos) := by omega
    have ih := toks_posParams_plain p as (i + 1) npos (by omega) false
    cases first <;> simp [unparsePosParams, hne, itemsToks, toks_unparseParam, delim, op, ih]

theorem toks_kwonly (p : Nat → Bool) : (as : List Param) → ∀ first,
    toks (unparseKwonly p as first) = itemsToks p (as.map parItem) first
  | [], _ => by simp [unparseKwonly, itemsToks]
  | a :: as, first => by
    have ih := toks_kwonly p as false
    cases first <;> simp [unparseKwonly, itemsToks, toks_unparseParam, delim, op, ih]

/-- the rendering of a lambda at its own level: `lambda`, the items, `:`, the body -/
theorem toks_lambda (p : Nat → Bool) (po ar : List Param) (va : Option Ident) (ko : List Param) (kw : Option Ident)
    (b : Expr) :
    toks (unparse p (.lambda po ar va ko kw b) 1) =
      .kw .lambda :: (itemsToks p (lambdaItems po ar va ko kw) true ++ .op .colon :: toks (unparse p b 1)) := by
  have hpo : toks (unparsePosParams p po 0 po.length true) =
      itemsToks p (po.map parItem ++ (if po.isEmpty then [] else [.slash])) true := by
    cases po with
    | nil => simp [unparsePosParams, itemsToks]
    | cons a as => simpa using toks_posParams_slash p (a :: as) 0 (a :: as).length (by simp) (by simp) true
  have har := toks_posParams_plain p ar po.length po.length (Nat.le_refl _) po.isEmpty
  have hko := fun first => toks_kwonly p ko first
  simp only [unparse, groupIf, Prec.TEST, lambdaItems]
  have hlam : ∀ (c : Prop) [Decidable c], toks (if c then [PV.C11.kw .lambda, Out.sp] else [PV.C11.kw .lambda]) = [.kw .lambda] := by
    intro c _; split <;> rfl
  simp only [Nat.lt_irrefl, decide_false, Bool.false_eq_true, if_false, toks_append, hlam, hpo, har, hko,
    itemsToks_append, List.cons_append, List.nil_append, List.append_assoc]
  cases po <;> cases ar <;> cases va <;> cases ko <;> cases kw <;>
    simp [itemsToks, PItem.toks, delim, op]

theorem runItems_append (a b : List PItem) (s : Params × Nat) :
    runItems (a ++ b) s = (runItems a s).bind (runItems b) := by
  induction a generalizing s with
  | nil => simp [runItems]
  | cons i is ih =>
    simp only [List.cons_append, runItems]
    cases i.step s with
    | none => simp
    | some s' => simp [ih]

theorem run_pars_args (as : List Param) (ps : Params) (ph : Nat) (h : ph ≤ 1) :
    runItems (as.map parItem) (ps, ph) = some ({ ps with args := ps.args ++ as }, ph) := by
  induction as generalizing ps with
  | nil => simp [runItems]
  | cons a as ih =>
    cases a with
    | mk n d =>
      have h2 : ph ≠ 2 := by omega
      simp [runItems, parItem, PItem.step, h2, h]
      have := ih { ps with args := ps.args ++ [.mk n d] }
      simp at this
      rw [this]

theorem run_pars_kw (as : List Param) (ps : Params) :
    runItems (as.map parItem) (ps, 2) = some ({ ps with kwonly := ps.kwonly ++ as }, 2) := by
  induction as generalizing ps with
  | nil => simp [runItems]
  | cons a as ih =>
    cases a with
    | mk n d =>
      simp [runItems, parItem, PItem.step]
      have := ih { ps with kwonly := ps.kwonly ++ [.mk n d] }
      simp at this
      rw [this]

/-- running the items of a lambda from the empty state gives back its five parameter fields -/
theorem run_lambdaItems (po ar : List Param) (va : Option Ident) (ko : List Param) (kw : Option Ident) :
    ∃ ph, runItems (lambdaItems po ar va ko kw) ({}, 0) =
        some ({ posonly := po, args := ar, vararg := va, kwonly := ko, kwarg := kw }, ph) ∧
      bareStarOk { posonly := po, args := ar, vararg := va, kwonly := ko, kwarg := kw } ph = true := by
  -- positional part
  have h1 : runItems (po.map parItem ++ (if po.isEmpty then [] else [.slash]) ++ ar.map parItem) ({}, 0) =
      some ({ posonly := po, args := ar }, if po.isEmpty then 0 else 1) := by
    cases po with
    | nil =>
      simp only [List.map_nil, List.isEmpty_nil, if_true, List.nil_append, List.append_nil]
      simpa using run_pars_args ar {} 0 (by omega)
    | cons a as =>
      rw [runItems_append, runItems_append, run_pars_args (a :: as) {} 0 (by omega)]
      simp [runItems, PItem.step]
      simpa using run_pars_args ar { posonly := a :: as, args := [] } 1 (by omega)
  have hph : (if po.isEmpty then 0 else 1) ≤ 1 := by split <;> omega
  generalize (if po.isEmpty then 0 else 1) = ph0 at h1 hph
  unfold lambdaItems
  rw [runItems_append, runItems_append, runItems_append, h1]
  simp only [Option.bind_some]
  by_cases hstar : (va.isSome || !ko.isEmpty) = true
  · simp only [hstar, if_true]
    have h2 : runItems [PItem.star va] ({ posonly := po, args := ar }, ph0) =
        some ({ posonly := po, args := ar, vararg := va }, 2) := by
      cases va <;> simp [runItems, PItem.step, hph]
    rw [h2]
    simp only [Option.bind_some]
    rw [run_pars_kw]
    simp only [Option.bind_some, List.nil_append]
    cases kw with
    | none =>
      refine ⟨2, by simp [runItems], ?_⟩
      simp [bareStarOk]
      cases va <;> simp_all
    | some k => exact ⟨3, by simp [runItems, PItem.step], by simp [bareStarOk]⟩
  · have hva : va = none := by cases va <;> simp_all
    have hko : ko = [] := by cases ko <;> simp_all
    subst hva; subst hko
    simp only [Option.isSome_none, List.isEmpty_nil, Bool.not_true, Bool.or_self, Bool.false_eq_true, if_false,
      List.map_nil, runItems, Option.bind_some]
    cases kw with
    | none => exact ⟨ph0, by simp [runItems], by simp [bareStarOk]; omega⟩
    | some k =>
      have : ph0 ≤ 2 := by omega
      exact ⟨3, by simp [runItems, PItem.step, this], by simp [bareStarOk]⟩

/-- what the induction gives for the defaults of a parameter list -/
def GoodPars (p : Nat → Bool) (ps : List Param) : Prop := ∀ n d, Param.mk n (some d) ∈ ps → GoodP p d

theorem goodD_map (p : Nat → Bool) {ps : List Param} (h : GoodPars p ps) : ∀ i ∈ ps.map parItem, i.GoodD p := by
  intro i hi
  obtain ⟨a, ha, rfl⟩ := List.mem_map.mp hi
  cases a with
  | mk n d =>
    cases d with
    | none => trivial
    | some d => exact h n d ha

theorem goodD_lambdaItems (p : Nat → Bool) {po ar ko : List Param} (va kw : Option Ident) (hpo : GoodPars p po)
    (har : GoodPars p ar) (hko : GoodPars p ko) : ∀ i ∈ lambdaItems po ar va ko kw, i.GoodD p := by
  intro i hi
  simp only [lambdaItems, List.mem_append] at hi
  rcases hi with ((((hi | hi) | hi) | hi) | hi) | hi
  · exact goodD_map p hpo i hi
  · split at hi <;> simp at hi; subst hi; trivial
  · exact goodD_map p har i hi
  · split at hi <;> simp at hi; subst hi; trivial
  · exact goodD_map p hko i hi
  · cases kw <;> simp at hi; subst hi; trivial

/-- a lambda at its own level (`Test`) -/
theorem own_lambda (p : Nat → Bool) (po ar : List Param) (va : Option Ident) (ko : List Param) (kw : Option Ident)
    (b : Expr) (hpo : GoodPars p po) (har : GoodPars p ar) (hko : GoodPars p ko)
    (hok : lambdaOk po ar va ko kw = true) (hb : GoodP p b) :
    ∀ rest, Stop 1 rest →
      Parses (parseAt 1) (toks (unparse p (.lambda po ar va ko kw b) 1) ++ rest) (.lambda po ar va ko kw b) rest := by
  intro rest hs
  rw [parseAt_1, toks_lambda]
  have hbody := hb.good.rt 1 rest (Nat.le_refl _) (by omega) hs
  rw [parseAt_1] at hbody
  obtain ⟨nb, hnb⟩ := hbody
  obtain ⟨ph, hrun, hbare⟩ := run_lambdaItems po ar va ko kw
  have hvalid : (validPosParams (po ++ ar) &&
      validParamNames { posonly := po, args := ar, vararg := va, kwonly := ko, kwarg := kw }) = true := hok
  -- the parameter list
  have hparams : ∃ n, ∀ f, n ≤ f →
      parseParams f (itemsToks p (lambdaItems po ar va ko kw) true ++ .op .colon :: (toks (unparse p b 1) ++ rest)) {} 0 =
        some ({ posonly := po, args := ar, vararg := va, kwonly := ko, kwarg := kw },
          .op .colon :: (toks (unparse p b 1) ++ rest)) := by
    by_cases hne : lambdaItems po ar va ko kw = []
    · rw [hne] at hrun ⊢
      simp only [runItems, Option.some.injEq, Prod.mk.injEq] at hrun
      refine ⟨1, fun fuel hf => ?_⟩
      obtain ⟨f, rfl, _⟩ := fuel_succ hf
      simp only [itemsToks, List.nil_append]
      rw [parseParams, hrun.1]
      omega
    · exact paramsRT p _ (goodD_lambdaItems p va kw hpo har hko) {} 0 _ ph _ hne hrun hbare
  obtain ⟨np, hnp⟩ := hparams
  refine ⟨np + nb + 2, fun fuel hf => ?_⟩
  obtain ⟨f, rfl⟩ : ∃ f, fuel = f + 2 := ⟨fuel - 2, by omega⟩
  simp only [List.cons_append, List.append_assoc]
  rw [parseTest, parseLambda, hnp f (by omega)]
  simp only [hvalid, if_true]
  rw [hnb f (by omega)]

theorem plain_lambda (p : Nat → Bool) (po ar : List Param) (va : Option Ident) (ko : List Param) (kw : Option Ident)
    (b : Expr) : Plain p (.lambda po ar va ko kw b) :=
  plain_of_own p (prec := 1) rfl (Nat.le_refl _)
    ⟨.kw .lambda, _, toks_lambda p po ar va ko kw b, rfl⟩
    (by rw [toks_lambda]; exact NoBind.of_head (by intro n; simp)) rfl

theorem good_lambda (p : Nat → Bool) (po ar : List Param) (va : Option Ident) (ko : List Param) (kw : Option Ident)
    (b : Expr) (hpo : GoodPars p po) (har : GoodPars p ar) (hko : GoodPars p ko)
    (hok : lambdaOk po ar va ko kw = true) (hb : GoodP p b) : GoodP p (.lambda po ar va ko kw b) where
  good := good_of_rt p (prec := 1) (plain_lambda p po ar va ko kw b) rfl (Nat.le_refl _) (by omega)
    (rt_of_own p (prec := 1) (plain_lambda p po ar va ko kw b) rfl (Nat.le_refl _) (by omega)
      (own_lambda p po ar va ko kw b hpo har hko hok hb))
    (fun k _ hk => by omega)
  plain := plain_lambda p po ar va ko kw b

/-! ## comprehension targets (`ExpressionList` in front of `in`) -/

/-- what follows a target element: `,` or `in` -/
def tgtNext (c : Tok) : Prop := c = .op .comma ∨ c = .kw .in

theorem contTok_in_6 : contTok 6 (.kw .in) = false := by
  simp [contTok, isTrailerStart, isStringTok, binLevelOf, isCmpStart]

theorem tgtNext.cont6 {c : Tok} (h : tgtNext c) : contTok 6 c = false := by
  rcases h with rfl | rfl
  · exact contTok_comma 6
  · exact contTok_in_6

/-- an element of a bare target tuple: an operand (written at `Expression` level, so parenthesised when its own
    level is lower) or a starred one -/
inductive TargetElemOK (p : Nat → Bool) : Expr → Prop
  | plain {e : Expr} (h : GoodP p e) : TargetElemOK p e
  | star {v : Expr} (h : GoodP p v) : TargetElemOK p (.starred v)

theorem TargetElemOK.head {p : Nat → Bool} {e : Expr} (h : TargetElemOK p e) :
    ∃ t r, toks (unparse p e 6) = t :: r ∧ t ≠ .kw .in := by
  cases h with
  | plain h =>
    obtain ⟨t, r, ht, hg⟩ := h.plain.head 6 (by omega)
    exact ⟨t, r, ht, by rintro rfl; simp [goodHead] at hg⟩
  | star h => exact ⟨.op .star, _, toks_starred p _ 6, by simp⟩

/-- `ExpressionOrStarExpression` -/
theorem targetElem_parse (p : Nat → Bool) {e : Expr} (h : TargetElemOK p e) {c : Tok} (hc : tgtNext c) (rest : List Tok) :
    ∃ n, ∀ f, n ≤ f → parseExprOrStar f (toks (unparse p e 6) ++ c :: rest) = some (e, c :: rest) := by
  cases h with
  | plain h =>
    obtain ⟨t, tr, ht, hg⟩ := h.plain.head 6 (by omega)
    have h0 := h.good.rt 6 (c :: rest) (by omega) (by omega) (Stop.cons hc.cont6)
    rw [parseAt_bin (k := 0) (by omega)] at h0
    obtain ⟨n, hn⟩ := h0
    refine ⟨n + 1, fun fuel hf => ?_⟩
    obtain ⟨f, rfl⟩ : ∃ f, fuel = f + 1 := ⟨fuel - 1, by omega⟩
    have hB := hn f (by omega)
    rw [ht] at hB ⊢
    unfold parseExprOrStar
    split
    · omega
    · rename_i heq; simp at heq; obtain ⟨rfl, _⟩ := heq; simp [goodHead] at hg
    · rename_i f' hfe _
      obtain rfl : f' = f := by omega
      exact hB
  | star h =>
    rename_i v
    have h0 := h.good.rt 6 (c :: rest) (by omega) (by omega) (Stop.cons hc.cont6)
    rw [parseAt_bin (k := 0) (by omega)] at h0
    obtain ⟨n, hn⟩ := h0
    refine ⟨n + 1, fun fuel hf => ?_⟩
    obtain ⟨f, rfl⟩ : ∃ f, fuel = f + 1 := ⟨fuel - 1, by omega⟩
    rw [toks_starred, List.cons_append, parseExprOrStar, hn f (by omega)]

/-- what the induction gives for a comprehension target (written by `unparse_comp_target`) -/
def TargetOK (p : Nat → Bool) (t : Expr) : Prop :=
  ∀ rest, ∃ n, ∀ f, n ≤ f →
    parseTargetList f (toks (unparseTarget p t) ++ .kw .in :: rest) = some (t, .kw .in :: rest)

/-- a target that is not a bare tuple is written by `unparse_expr` at `Expression` level -/
theorem unparseTarget_single (p : Nat → Bool) (t : Expr) (h : ∀ x xs, t ≠ .tuple (x :: xs)) :
    unparseTarget p t = unparse p t 6 := by
  cases t with
  | tuple es =>
    cases es with
    | nil => simp [unparseTarget, Prec.EXPR, Prec.BOR]
    | cons x xs => exact absurd rfl (h x xs)
  | _ => simp [unparseTarget, Prec.EXPR, Prec.BOR]

/-- a bare tuple target: the elements at `Expression` level, a 1-tuple with its comma -/
theorem unparseTarget_tuple (p : Nat → Bool) (x : Expr) (xs : List Expr) :
    unparseTarget p (.tuple (x :: xs)) = unparseSeq p (x :: xs) 6 true ++ (if xs.isEmpty then [op .comma] else []) := by
  cases xs <;> simp [unparseTarget, Prec.EXPR, Prec.BOR]

/-- a target that is a single element (not a bare tuple) -/
theorem targetOK_single (p : Nat → Bool) {t : Expr} (h : TargetElemOK p t) (hnt : ∀ x xs, t ≠ .tuple (x :: xs)) :
    TargetOK p t := by
  intro rest
  obtain ⟨n, hn⟩ := targetElem_parse p h (c := .kw .in) (Or.inr rfl) rest
  refine ⟨n + 1, fun fuel hf => ?_⟩
  obtain ⟨f, rfl⟩ : ∃ f, fuel = f + 1 := ⟨fuel - 1, by omega⟩
  rw [unparseTarget_single p t hnt, parseTargetList, hn f (by omega)]

/-- the elements of a bare target tuple after the first -/
theorem targetRestRT (p : Nat → Bool) : (xs : List Expr) → (∀ x ∈ xs, TargetElemOK p x) → ∀ (x : Expr), TargetElemOK p x →
    ∀ rest, ∃ n, ∀ f, n ≤ f →
      parseTargetRest f (toks (unparse p x 6) ++ (toks (unparseSeq p xs 6 false) ++ .kw .in :: rest)) =
        some (x :: xs, .kw .in :: rest)
  | [], _, x, hx, rest => by
    obtain ⟨n, hn⟩ := targetElem_parse p hx (c := .kw .in) (Or.inr rfl) rest
    obtain ⟨t, tr, ht, hin⟩ := hx.head
    refine ⟨n + 1, fun fuel hf => ?_⟩
    obtain ⟨f, rfl⟩ : ∃ f, fuel = f + 1 := ⟨fuel - 1, by omega⟩
    simp only [unparseSeq, toks_nil, List.nil_append]
    have h1 := hn f (by omega)
    rw [ht] at h1 ⊢
    simp only [List.cons_append] at h1 ⊢
    rw [parseTargetRest]
    · rw [h1]
    · intro r h; simp at h; exact hin h.1
  | y :: ys, hys, x, hx, rest => by
    have hy := hys y (List.mem_cons_self ..)
    obtain ⟨n1, hn1⟩ := targetElem_parse p hx (c := .op .comma) (Or.inl rfl)
      (toks (unparse p y 6) ++ (toks (unparseSeq p ys 6 false) ++ .kw .in :: rest))
    obtain ⟨n2, hn2⟩ := targetRestRT p ys (fun z hz => hys z (List.mem_cons_of_mem _ hz)) y hy rest
    obtain ⟨t, tr, ht, hin⟩ := hx.head
    refine ⟨n1 + n2 + 1, fun fuel hf => ?_⟩
    obtain ⟨f, rfl⟩ : ∃ f, fuel = f + 1 := ⟨fuel - 1, by omega⟩
    rw [toks_unparseSeq_cons', List.cons_append, List.append_assoc]
    have h1 := hn1 f (by omega)
    rw [ht] at h1 ⊢
    simp only [List.cons_append] at h1 ⊢
    rw [parseTargetRest]
    · rw [h1]
      simp only
      rw [hn2 f (by omega)]
    · intro r h; simp at h; exact hin h.1

/-- a bare tuple target -/
theorem targetOK_tuple (p : Nat → Bool) (x : Expr) (xs : List Expr) (hxs : ∀ y ∈ x :: xs, TargetElemOK p y) :
    TargetOK p (.tuple (x :: xs)) := by
  intro rest
  have hx := hxs x (List.mem_cons_self ..)
  cases xs with
  | nil =>
    obtain ⟨n, hn⟩ := targetElem_parse p hx (c := .op .comma) (Or.inl rfl) (.kw .in :: rest)
    have e1 : toks (unparseTarget p (.tuple [x])) ++ .kw .in :: rest =
        toks (unparse p x 6) ++ .op .comma :: .kw .in :: rest := by
      simp [unparseTarget_tuple, unparseSeq, delim, op]
    refine ⟨n + 2, fun fuel hf => ?_⟩
    obtain ⟨f, rfl⟩ : ∃ f, fuel = f + 2 := ⟨fuel - 2, by omega⟩
    rw [e1, parseTargetList, hn (f + 1) (by omega)]
    simp [parseTargetRest]
  | cons y ys =>
    have hy := hxs y (List.mem_cons_of_mem _ (List.mem_cons_self ..))
    obtain ⟨n1, hn1⟩ := targetElem_parse p hx (c := .op .comma) (Or.inl rfl)
      (toks (unparse p y 6) ++ (toks (unparseSeq p ys 6 false) ++ .kw .in :: rest))
    obtain ⟨n2, hn2⟩ := targetRestRT p ys
      (fun z hz => hxs z (List.mem_cons_of_mem _ (List.mem_cons_of_mem _ hz))) y hy rest
    have e1 : toks (unparseTarget p (.tuple (x :: y :: ys))) ++ .kw .in :: rest =
        toks (unparse p x 6) ++ .op .comma :: (toks (unparse p y 6) ++ (toks (unparseSeq p ys 6 false) ++ .kw .in :: rest)) := by
      simp [unparseTarget_tuple, unparseSeq, delim, op]
    refine ⟨n1 + n2 + 1, fun fuel hf => ?_⟩
    obtain ⟨f, rfl⟩ : ∃ f, fuel = f + 1 := ⟨fuel - 1, by omega⟩
    rw [e1, parseTargetList, hn1 f (by omega)]
    simp only
    rw [hn2 f (by omega)]

/-! ## comprehension clauses -/

/-- what follows a comprehension clause: a further `for` / `async for` clause or the closing bracket -/
inductive CompEnd : List Tok → Prop
  | close {o : Op} {r : List Tok} (h : isClose o = true) : CompEnd (.op o :: r)
  | for_ {r : List Tok} : CompEnd (.kw .for :: r)
  | async_ {r : List Tok} : CompEnd (.kw .async :: .kw .for :: r)

theorem CompEnd.stop {K : List Tok} (h : CompEnd K) (lvl : Nat) : Stop lvl K := by
  cases h with
  | close h => exact Stop.cons (contTok_close h lvl)
  | for_ => exact Stop.cons (by simp [contTok, isTrailerStart, isStringTok, binLevelOf, isCmpStart])
  | async_ => exact Stop.cons (by simp [contTok, isTrailerStart, isStringTok, binLevelOf, isCmpStart])

theorem CompEnd.not_if {K : List Tok} (h : CompEnd K) : ∀ r, K ≠ .kw .if :: r := by
  intro r hr; cases h <;> cases hr

theorem toks_ifs_cons (p : Nat → Bool) (c : Expr) (cs : List Expr) :
    toks (unparseIfs p (c :: cs)) = .kw .if :: (toks (unparse p c 2) ++ toks (unparseIfs p cs)) := by
  simp [unparseIfs, Prec.TEST, kw]

theorem contTok_if_ge2 (lvl : Nat) (h : 2 ≤ lvl) : contTok lvl (.kw .if) = false := by
  simp [contTok, isTrailerStart, isStringTok, binLevelOf, isCmpStart]; omega

/-- what follows the iterable or a condition: a further `if`, or the end of the clause -/
theorem stop2_ifs (p : Nat → Bool) (cs : List Expr) {K : List Tok} (hK : CompEnd K) :
    Stop 2 (toks (unparseIfs p cs) ++ K) := by
  cases cs with
  | nil => simpa [unparseIfs] using hK.stop 2
  | cons c cs' => rw [toks_ifs_cons]; exact Stop.cons (contTok_if_ge2 2 (Nat.le_refl _))

/-- `ComprehensionIf*` -/
theorem compIfsRT (p : Nat → Bool) : (cs : List Expr) → (∀ c ∈ cs, GoodP p c) → ∀ (K : List Tok), CompEnd K →
    ∃ n, ∀ f, n ≤ f → parseCompIfs f (toks (unparseIfs p cs) ++ K) = some (cs, K)
  | [], _, K, hK => by
    refine ⟨1, fun fuel hf => ?_⟩
    obtain ⟨f, rfl, _⟩ := fuel_succ hf
    simp only [unparseIfs, toks_nil, List.nil_append]
    rw [parseCompIfs.eq_3 _ _ (by intro r h; exact hK.not_if r h)]
  | c :: cs, hcs, K, hK => by
    have hc := hcs c (List.mem_cons_self ..)
    have h1 := hc.good.rt 2 (toks (unparseIfs p cs) ++ K) (by omega) (by omega) (stop2_ifs p cs hK)
    rw [parseAt_2] at h1
    obtain ⟨n1, hn1⟩ := h1
    obtain ⟨n2, hn2⟩ := compIfsRT p cs (fun x hx => hcs x (List.mem_cons_of_mem _ hx)) K hK
    refine ⟨n1 + n2 + 1, fun fuel hf => ?_⟩
    obtain ⟨f, rfl⟩ : ∃ f, fuel = f + 1 := ⟨fuel - 1, by omega⟩
    rw [toks_ifs_cons, List.cons_append, List.append_assoc, parseCompIfs, hn1 f (by omega)]
    simp only
    rw [hn2 f (by omega)]

/-- what the induction gives for the clauses of a comprehension -/
def GoodComps (p : Nat → Bool) : List Comp → Prop
  | [] => True
  | .mk t i ifs _ :: gs => TargetOK p t ∧ GoodP p i ∧ (∀ c ∈ ifs, GoodP p c) ∧ GoodComps p gs

theorem toks_comp_cons (p : Nat → Bool) (t i : Expr) (ifs : List Expr) (a : Bool) (gs : List Comp) :
    toks (unparseComp p (.mk t i ifs a :: gs)) =
      (if a then [.kw .async, .kw .for] else [.kw .for]) ++
        (toks (unparseTarget p t) ++ .kw .in :: (toks (unparse p i 2) ++ (toks (unparseIfs p ifs) ++ toks (unparseComp p gs)))) := by
  rw [unparseComp_cons]
  cases a <;> simp [Prec.TEST, kw]

/-- the clauses that follow end the current one -/
theorem compEnd_comps (p : Nat → Bool) (gs : List Comp) {o : Op} (ho : isClose o = true) (rest : List Tok) :
    CompEnd (toks (unparseComp p gs) ++ .op o :: rest) := by
  cases gs with
  | nil => simpa [unparseComp] using CompEnd.close (r := rest) ho
  | cons g gs' =>
    cases g with
    | mk t i ifs a =>
      rw [toks_comp_cons]
      cases a
      · exact CompEnd.for_
      · exact CompEnd.async_

theorem atCompFor_compEnd {K : List Tok} (h : CompEnd K) :
    atCompFor K = (match K with | .op _ :: _ => false | _ => true) := by
  cases h with
  | close h => rename_i o r; cases o <;> simp [isClose] at h <;> rfl
  | for_ => rfl
  | async_ => rfl

/-- `CompFor`: one or more clauses, up to the closing bracket -/
theorem compsRT (p : Nat → Bool) : (gs : List Comp) → gs ≠ [] → GoodComps p gs → ∀ (o : Op), isClose o = true →
    ∀ rest, ∃ n, ∀ f, n ≤ f →
      parseCompFor f (toks (unparseComp p gs) ++ .op o :: rest) = some (gs, .op o :: rest)
  | [], hne, _, _, _, _ => absurd rfl hne
  | .mk t i ifs a :: gs, _, hg, o, ho, rest => by
    obtain ⟨ht, hi, hifs, hgs⟩ := hg
    have hK := compEnd_comps p gs ho rest
    obtain ⟨n1, hn1⟩ := ht (toks (unparse p i 2) ++ (toks (unparseIfs p ifs) ++ (toks (unparseComp p gs) ++ .op o :: rest)))
    have h2 := hi.good.rt 2 (toks (unparseIfs p ifs) ++ (toks (unparseComp p gs) ++ .op o :: rest)) (by omega) (by omega)
      (stop2_ifs p ifs hK)
    rw [parseAt_2] at h2
    obtain ⟨n2, hn2⟩ := h2
    obtain ⟨n3, hn3⟩ := compIfsRT p ifs hifs _ hK
    -- the remaining clauses
    have hrest : ∃ n, ∀ f, n ≤ f →
        (if atCompFor (toks (unparseComp p gs) ++ .op o :: rest) = true then
          (match parseCompFor f (toks (unparseComp p gs) ++ .op o :: rest) with
           | some (gs', r4) => some (Comp.mk t i ifs a :: gs', r4)
           | none => none)
         else some ([Comp.mk t i ifs a], toks (unparseComp p gs) ++ .op o :: rest)) =
        some (Comp.mk t i ifs a :: gs, .op o :: rest) := by
      cases gs with
      | nil =>
        refine ⟨0, fun f _ => ?_⟩
        have : atCompFor (.op o :: rest) = false := by cases o <;> simp [isClose] at ho <;> rfl
        simp [unparseComp, this]
      | cons g gs' =>
        obtain ⟨n4, hn4⟩ := compsRT p (g :: gs') (by simp) hgs o ho rest
        refine ⟨n4, fun f hf => ?_⟩
        have hat : atCompFor (toks (unparseComp p (g :: gs')) ++ .op o :: rest) = true := by
          cases g with
          | mk t' i' ifs' a' => rw [toks_comp_cons]; cases a' <;> rfl
        rw [if_pos hat, hn4 f hf]
    obtain ⟨n4, hn4⟩ := hrest
    refine ⟨n1 + n2 + n3 + n4 + 1, fun fuel hf => ?_⟩
    obtain ⟨f, rfl⟩ : ∃ f, fuel = f + 1 := ⟨fuel - 1, by omega⟩
    have e1 : toks (unparseComp p (.mk t i ifs a :: gs)) ++ .op o :: rest =
        (if a then [.kw .async, .kw .for] else [.kw .for]) ++ (toks (unparseTarget p t) ++ .kw .in ::
          (toks (unparse p i 2) ++ (toks (unparseIfs p ifs) ++ (toks (unparseComp p gs) ++ .op o :: rest)))) := by
      rw [toks_comp_cons]; simp
    rw [e1]
    cases a
    · simp only [Bool.false_eq_true, if_false, List.singleton_append]
      rw [parseCompFor]
      rw [hn1 f (by omega)]
      simp only
      rw [hn2 f (by omega)]
      simp only
      rw [hn3 f (by omega)]
      simp only
      exact hn4 f (by omega)
    · simp only [if_true, List.cons_append, List.nil_append]
      rw [parseCompFor]
      rw [hn1 f (by omega)]
      simp only
      rw [hn2 f (by omega)]
      simp only
      rw [hn3 f (by omega)]
      simp only
      exact hn4 f (by omega)

/-! ## the four comprehension forms and the bare generator argument -/

/-- the first token of the clauses -/
theorem comps_head (p : Nat → Bool) (gs : List Comp) (hne : gs ≠ []) (K : List Tok) :
    ∃ c r, toks (unparseComp p gs) ++ K = c :: r ∧ (c = .kw .for ∨ c = .kw .async) ∧ atCompFor (c :: r) = true := by
  cases gs with
  | nil => exact absurd rfl hne
  | cons g gs' =>
    cases g with
    | mk t i ifs a =>
      rw [toks_comp_cons]
      cases a
      · exact ⟨.kw .for, _, rfl, Or.inl rfl, rfl⟩
      · exact ⟨.kw .async, _, rfl, Or.inr rfl, rfl⟩

theorem contTok_for_async {c : Tok} (h : c = .kw .for ∨ c = .kw .async) (lvl : Nat) : contTok lvl c = false := by
  rcases h with rfl | rfl <;> simp [contTok, isTrailerStart, isStringTok, binLevelOf, isCmpStart]

theorem atomRT_listComp (p : Nat → Bool) (e : Expr) (gs : List Comp) (he : ElemOK p e) (hne : gs ≠ [])
    (hgs : GoodComps p gs) : AtomRT p (.listComp e gs) := by
  intro rest _
  obtain ⟨c, r', hcr, hc, hat⟩ := comps_head p gs hne (.op .rsqb :: rest)
  obtain ⟨n1, hn1⟩ := elem_starOrNamed p he (contTok_for_async hc) (by rcases hc with rfl | rfl <;> simp)
    (by rcases hc with rfl | rfl <;> simp) r'
  obtain ⟨n2, hn2⟩ := compsRT p gs hne hgs .rsqb rfl rest
  obtain ⟨t, tr, ht, hg⟩ := he.head
  have e1 : toks (unparse p (.listComp e gs) 15) ++ rest =
      .op .lsqb :: (toks (unparse p e 1) ++ (toks (unparseComp p gs) ++ .op .rsqb :: rest)) := by
    simp [unparse, Prec.TEST, op]
  refine ⟨n1 + n2 + 2, fun fuel hf => ?_⟩
  obtain ⟨f, rfl⟩ : ∃ f, fuel = f + 2 := ⟨fuel - 2, by omega⟩
  have hs := hn1 f (by omega)
  have hcmp := hn2 f (by omega)
  rw [e1, hcr, parseAtom]
  rw [hcr] at hcmp
  unfold parseListAtom
  split
  · omega
  · rename_i heq; rw [ht] at heq; simp at heq; exact absurd heq.1 (elemTok_not_close hg rfl)
  · rename_i f' hfe _
    obtain rfl : f' = f := by omega
    rw [hs]
    simp only [hat, if_true]
    rw [hcmp]

theorem atomRT_genExp (p : Nat → Bool) (e : Expr) (gs : List Comp) (he : GoodP p e) (hne : gs ≠ [])
    (hgs : GoodComps p gs) : AtomRT p (.genExp e gs) := by
  intro rest _
  obtain ⟨c, r', hcr, hc, hat⟩ := comps_head p gs hne (.op .rpar :: rest)
  obtain ⟨n1, hn1⟩ := elem_starOrNamed p (.plain he) (contTok_for_async hc) (by rcases hc with rfl | rfl <;> simp)
    (by rcases hc with rfl | rfl <;> simp) r'
  obtain ⟨n2, hn2⟩ := compsRT p gs hne hgs .rpar rfl rest
  obtain ⟨t, tr, ht, hg⟩ := he.plain.head 1 (by omega)
  have e1 : toks (unparse p (.genExp e gs) 15) ++ rest =
      .op .lpar :: (toks (unparse p e 1) ++ (toks (unparseComp p gs) ++ .op .rpar :: rest)) := by
    simp [unparse, Prec.TEST, op]
  refine ⟨n1 + n2 + 2, fun fuel hf => ?_⟩
  obtain ⟨f, rfl⟩ : ∃ f, fuel = f + 2 := ⟨fuel - 2, by omega⟩
  have hs := hn1 f (by omega)
  have hcmp := hn2 f (by omega)
  rw [e1, hcr, parseAtom]
  rw [hcr] at hcmp
  unfold parseParenAtom
  split
  · omega
  · rename_i heq; rw [ht] at heq; simp at heq; obtain ⟨rfl, _⟩ := heq; simp [goodHead] at hg
  · rename_i heq; rw [ht] at heq; simp at heq; obtain ⟨rfl, _⟩ := heq; simp [goodHead] at hg
  · rename_i f' hfe _ _
    obtain rfl : f' = f := by omega
    rw [hs]
    simp only [hat, if_true, he.plain.ns, Bool.false_eq_true, if_false]
    rw [hcmp]

theorem atomRT_setComp (p : Nat → Bool) (e : Expr) (gs : List Comp) (he : GoodP p e) (hne : gs ≠ [])
    (hgs : GoodComps p gs) : AtomRT p (.setComp e gs) := by
  intro rest _
  obtain ⟨c, r', hcr, hc, hat⟩ := comps_head p gs hne (.op .rbrace :: rest)
  obtain ⟨n1, hn1⟩ := braceFirst_elem p (.plain he) (contTok_for_async hc) (by rcases hc with rfl | rfl <;> simp)
    (by rcases hc with rfl | rfl <;> simp) r'
  obtain ⟨n2, hn2⟩ := compsRT p gs hne hgs .rbrace rfl rest
  obtain ⟨t, tr, ht, hg⟩ := he.plain.head 1 (by omega)
  have e1 : toks (unparse p (.setComp e gs) 15) ++ rest =
      .op .lbrace :: (toks (unparse p e 1) ++ (toks (unparseComp p gs) ++ .op .rbrace :: rest)) := by
    simp [unparse, Prec.TEST, op]
  refine ⟨n1 + n2 + 2, fun fuel hf => ?_⟩
  obtain ⟨f, rfl⟩ : ∃ f, fuel = f + 2 := ⟨fuel - 2, by omega⟩
  obtain ⟨b, hfirst⟩ := hn1 f (by omega)
  have hcmp := hn2 f (by omega)
  rw [e1, hcr, parseAtom]
  rw [hcr] at hcmp
  unfold parseBraceAtom
  split
  · omega
  · rename_i heq; rw [ht] at heq; simp at heq; obtain ⟨rfl, _⟩ := heq; simp [goodHead] at hg
  · rename_i heq; rw [ht] at heq; simp at heq; obtain ⟨rfl, _⟩ := heq; simp [goodHead] at hg
  · rename_i f' hfe _ _
    obtain rfl : f' = f := by omega
    rw [hfirst]
    split
    · rename_i heq3; simp at heq3; obtain ⟨_, _, rfl, _⟩ := heq3; rcases hc with h | h <;> cases h
    · rename_i heq3
      simp at heq3
      obtain ⟨rfl, _, rfl⟩ := heq3
      simp only [hat, if_true, he.plain.ns, Bool.false_eq_true, if_false]
      rw [hcmp]
    · rename_i heq3; simp at heq3

theorem atomRT_dictComp (p : Nat → Bool) (k v : Expr) (gs : List Comp) (hk : GoodP p k) (hv : GoodP p v)
    (hne : gs ≠ []) (hgs : GoodComps p gs) : AtomRT p (.dictComp k v gs) := by
  intro rest _
  obtain ⟨c, r', hcr, hc, hat⟩ := comps_head p gs hne (.op .rbrace :: rest)
  obtain ⟨n1, hn1⟩ := braceFirst_elem p (.plain hk) (c := .op .colon) contTok_colon (by simp) (by simp)
    (toks (unparse p v 1) ++ c :: r')
  obtain ⟨n2, hn2⟩ := test_then p hv (contTok_for_async hc) r'
  obtain ⟨n3, hn3⟩ := compsRT p gs hne hgs .rbrace rfl rest
  obtain ⟨t, tr, ht, hg⟩ := hk.plain.head 1 (by omega)
  have e1 : toks (unparse p (.dictComp k v gs) 15) ++ rest =
      .op .lbrace :: (toks (unparse p k 1) ++ .op .colon :: (toks (unparse p v 1) ++
        (toks (unparseComp p gs) ++ .op .rbrace :: rest))) := by
    simp [unparse, Prec.TEST, op]
  refine ⟨n1 + n2 + n3 + 2, fun fuel hf => ?_⟩
  obtain ⟨f, rfl⟩ : ∃ f, fuel = f + 2 := ⟨fuel - 2, by omega⟩
  obtain ⟨b, hfirst⟩ := hn1 f (by omega)
  have hV := hn2 f (by omega)
  have hcmp := hn3 f (by omega)
  -- the key is read by `Test`, so it may be a dict key
  have hb : b = true := by
    cases b with
    | true => rfl
    | false =>
      exfalso
      rw [ht] at hfirst
      unfold parseBraceFirst at hfirst
      split at hfirst
      · simp at hfirst
      · rename_i heq; simp at heq; obtain ⟨rfl, _⟩ := heq; simp [goodHead] at hg
      · rename_i heq
        have hw := ((hk.plain.nobind 1 (Nat.le_refl _)).append (hk.plain.ne_nil 1 (Nat.le_refl _)) (c := .op .colon) (by simp) (by simp)
          (toks (unparse p v 1) ++ c :: r')).walrus
        rw [ht] at hw
        exact hw _ _ heq
      · split at hfirst <;> simp at hfirst
  subst hb
  rw [e1, hcr, parseAtom]
  rw [hcr] at hcmp
  unfold parseBraceAtom
  split
  · omega
  · rename_i heq; rw [ht] at heq; simp at heq; obtain ⟨rfl, _⟩ := heq; simp [goodHead] at hg
  · rename_i heq; rw [ht] at heq; simp at heq; obtain ⟨rfl, _⟩ := heq; simp [goodHead] at hg
  · rename_i f' hfe _ _
    obtain rfl : f' = f := by omega
    rw [hfirst]
    simp only
    rw [hV]
    simp only [hat, if_true]
    rw [hcmp]

/-- `f(elt for … in …)`: the generator expression is the only argument and borrows the call's parentheses -/
theorem toks_call_gen (p : Nat → Bool) (fn e : Expr) (gs : List Comp) (lvl : Nat) :
    toks (unparse p (.call fn [.genExp e gs] []) lvl) =
      toks (unparse p fn 15) ++ .op .lpar :: (toks (unparse p e 1) ++ (toks (unparseComp p gs) ++ [.op .rpar])) := by
  simp [unparse, Prec.ATOM, Prec.TEST, op]

theorem trailRT_call_gen (p : Nat → Bool) (fn e : Expr) (gs : List Comp) (ihf : TrailRT p fn) (he : GoodP p e)
    (hne : gs ≠ []) (hgs : GoodComps p gs) : TrailRT p (.call fn [.genExp e gs] []) := by
  intro rest _
  obtain ⟨c, r', hcr, hc, hat⟩ := comps_head p gs hne (.op .rpar :: rest)
  obtain ⟨t, tr, ht, hg⟩ := he.plain.head 1 (by omega)
  obtain ⟨n2, hn2⟩ := test_then p he (contTok_for_async hc) r'
  obtain ⟨n3, hn3⟩ := compsRT p gs hne hgs .rpar rfl rest
  have hcw : c ≠ .op .walrus := by rcases hc with rfl | rfl <;> simp
  have hca : c ≠ .op .assign := by rcases hc with rfl | rfl <;> simp
  have hnb := (he.plain.nobind 1 (Nat.le_refl _)).append (he.plain.ne_nil 1 (Nat.le_refl _)) hcw hca r'
  obtain ⟨j, n1, h1⟩ := ihf (.op .lpar :: (toks (unparse p e 1) ++ (toks (unparseComp p gs) ++ .op .rpar :: rest)))
    (by intro t r h; cases h; rfl)
  refine ⟨j + 1, n1 + n2 + n3 + 3, fun fuel hf => ?_⟩
  obtain ⟨f, rfl⟩ : ∃ f, fuel = f + 3 := ⟨fuel - 3, by omega⟩
  rw [toks_call_gen, List.append_assoc, List.cons_append, List.append_assoc, List.append_assoc,
    show f + 3 + (j + 1) = (f + 3 + 1) + j by omega]
  simp only [List.singleton_append]
  rw [h1 (f + 3 + 1) (by omega), parseTrailers, hcr]
  have hT := hn2 f (by omega)
  have hcmp := hn3 (f + 1) (by omega)
  rw [hcr] at hcmp
  rw [ht] at hT hnb ⊢
  have hN : parseNamedTest (f + 1) (t :: tr ++ c :: r') = some (e, c :: r') := namedTest_of_test hT hnb.walrus
  have hA : parseArg (f + 2) (t :: tr ++ c :: r') [] [] false = some ([.genExp e gs], [], false, .op .rpar :: rest) := by
    unfold parseArg
    split
    · omega
    · rename_i heq; exact absurd heq (hnb.assign _ _)
    · rename_i heq; simp at heq; obtain ⟨rfl, _⟩ := heq; simp [goodHead] at hg
    · rename_i heq; simp at heq; obtain ⟨rfl, _⟩ := heq; simp [goodHead] at hg
    · rename_i f' hfe _ _ _
      obtain rfl : f' = f + 1 := by omega
      rw [hN]
      simp only [hat, if_true]
      rw [hcmp]
      simp
  rw [parseArgs_step _ _ _ _ _ (by intro r h; simp at h; obtain ⟨rfl, _⟩ := h; simp [goodHead] at hg), hA]
  simp [argsTail]

end PV.C11
