import PV.Expr.Syntax
/-
  C11 — the finite index sets of the parenthesisation tables:
  `Kind`  = what an expression is at its top node, as finely as the grammar or the unparser
            distinguishes it;
  `Slot`  = a child position of a parent node (which operand of which operator, which field of
            which display, …).
  Shared by the model side (`PV.C11.Model`: `kindPrec`, `slotLevel`) and the grammar side
  (`PV.C11.Spec`: `bareLevel`, `slotNT`, `needsParens`).
-/
namespace PV.C11
open PV.Expr

inductive Kind where
  /-- a non-empty `Tuple` -/
  | tuple
  | namedExpr
  | lambda
  | ifExp
  | boolOp (o : BoolOp)
  | unary (o : UnaryOp)
  | compare
  | binOp (o : BinOp)
  | await
  /-- everything that is written as one token or inside its own brackets: `Name`, `Constant`,
      `Call`, `Attribute`, `Subscript`, `List`, `Dict`, `Set`, the comprehensions, `GeneratorExp`,
      `Yield`, `YieldFrom` (both always written with their own parentheses), `JoinedStr`, `()` -/
  | atom
  | starred
  | slice
deriving DecidableEq, Repr

def kindOf : Expr → Kind
  | .tuple [] => .atom
  | .tuple _ => .tuple
  | .namedExpr .. => .namedExpr
  | .lambda .. => .lambda
  | .ifExp .. => .ifExp
  | .boolOp o _ => .boolOp o
  | .unaryOp o _ => .unary o
  | .compare .. => .compare
  | .binOp _ o _ => .binOp o
  | .await _ => .await
  | .starred _ => .starred
  | .slice .. => .slice
  | _ => .atom

inductive Slot where
  /-- the whole expression (`impl Display for Expr`) -/
  | top
  | boolOperand (o : BoolOp)
  | unaryOperand (o : UnaryOp)
  | cmpLeft
  | cmpRight
  | binLeft (o : BinOp)
  | binRight (o : BinOp)
  | awaitOperand
  | lambdaBody
  | lambdaDefault
  | ifBody
  | ifTest
  | ifOrelse
  | dictKey
  | dictValue
  /-- the operand of `**` inside a dict display -/
  | dictUnpack
  | setElt
  | listElt
  /-- element of a tuple that is not directly a subscript -/
  | tupleElt
  /-- element of the tuple directly under a subscript -/
  | subTupleElt
  | listCompElt
  | setCompElt
  | genExpElt
  | dictCompKey
  | dictCompValue
  /-- the target of a comprehension clause (`ExpressionList` in front of `in`) -/
  | compTarget
  /-- element of the bare tuple that is the target of a comprehension clause -/
  | compTargetElt
  | compIter
  | compIf
  | yieldValue
  | yieldFromValue
  | callFunc
  | callArg
  | callKwValue
  /-- the operand of `**` in a call -/
  | callDstarValue
  | attrValue
  | subValue
  | subSlice
  | sliceLower
  | sliceUpper
  | sliceStep
  /-- the operand of `*` (display element, call argument, subscript element) -/
  | starredValue
  | namedValue
  /-- the expression of an f-string replacement field -/
  | fstringField
deriving DecidableEq, Repr

def allBoolOps : List BoolOp := [.and, .or]
def allUnaryOps : List UnaryOp := [.invert, .not, .uAdd, .uSub]
def allBinOps : List BinOp :=
  [.add, .sub, .mult, .matMult, .div, .mod, .pow, .lShift, .rShift, .bitOr, .bitXor, .bitAnd, .floorDiv]

/-- every kind, in the order of the generated table (tools/props/c11.py `KINDS`) -/
def allKinds : List Kind :=
  [.tuple, .namedExpr, .lambda, .ifExp] ++ allBoolOps.map .boolOp ++ allUnaryOps.map .unary ++
  [.compare] ++ allBinOps.map .binOp ++ [.await, .atom, .starred, .slice]

/-- every slot, in the order of the generated table (tools/props/c11.py `SLOTS`) -/
def allSlots : List Slot :=
  [.top] ++ allBoolOps.map .boolOperand ++ allUnaryOps.map .unaryOperand ++ [.cmpLeft, .cmpRight] ++
  allBinOps.map .binLeft ++ allBinOps.map .binRight ++
  [.awaitOperand, .lambdaBody, .lambdaDefault, .ifBody, .ifTest, .ifOrelse, .dictKey, .dictValue,
   .dictUnpack, .setElt, .listElt, .tupleElt, .subTupleElt, .listCompElt, .setCompElt, .genExpElt,
   .dictCompKey, .dictCompValue, .compTarget, .compTargetElt, .compIter, .compIf, .yieldValue, .yieldFromValue,
   .callFunc, .callArg, .callKwValue, .callDstarValue, .attrValue, .subValue, .subSlice,
   .sliceLower, .sliceUpper, .sliceStep, .starredValue, .namedValue, .fstringField]

theorem allKinds_complete (k : Kind) : k ∈ allKinds := by
  cases k <;> (try rename_i o; cases o) <;> decide

theorem allSlots_complete (s : Slot) : s ∈ allSlots := by
  cases s <;> (try rename_i o; cases o) <;> decide

/-- Which kinds can stand in which slot at all in a parser-built tree: a `Starred` only as element
    of a display / tuple, call argument, subscript element or comprehension target (element); a `Slice` only
    directly under a subscript or in its tuple.  A comprehension target is whatever `ExpressionList` reads — the
    parser does not check that it is an assignment target, so every kind (parenthesised in the source where the
    grammar needs it) can stand there: `[x for (a if b else c), (lambda: d) in y]`. -/
def admissible (s : Slot) (k : Kind) : Bool :=
  match k with
  | .starred =>
    s == .setElt || s == .listElt || s == .tupleElt || s == .subTupleElt || s == .callArg ||
    s == .subSlice || s == .listCompElt || s == .compTarget || s == .compTargetElt
  | .slice => s == .subSlice || s == .subTupleElt
  | _ => true

end PV.C11
