import PV.Expr.Syntax
import PV.C11.Kinds
import PV.C11.Lexer
/-
  C11 — reference parser `parseRef` for the expression fragment, written from the grammar
  `parser/src/python.lalrpop` (one function per nonterminal of the chain
  Test → OrTest → AndTest → NotTest → Comparison → Expression(|) → XorExpression → AndExpression →
  ShiftExpression → ArithmeticExpression → Term → Factor → Power → AtomExpr → AtomExpr2 → Atom,
  plus NamedExpression, LambdaDef with its ParameterList, star expressions, SubscriptList /
  Subscript / slices, comprehensions, call arguments with the checks of `function.rs::parse_args`,
  and the f-string splitting of `string.rs`), NOT from the unparser.

  All functions take a fuel argument that decreases at every call; `none` = syntax error (or out
  of fuel).  The six left-associative binary levels Expression … Term have the same shape
  `X := X op Y | Y` and are one function `parseBin lvl` indexed by the level (0 = `|`, 1 = `^`,
  2 = `&`, 3 = shifts, 4 = `+ -`, 5 = `* / // % @`).

  The second half defines the grammar-derived parenthesisation requirement `needsParens`.
-/
namespace PV.C11
open PV.Expr

abbrev PR (α : Type) := Option (α × List Tok)

/-! ## token classification (lookahead) -/

/-- binary operator tokens of the six left-associative levels -/
def binOpOf : Op → Option (BinOp × Nat)
  | .bar => some (.bitOr, 0)
  | .caret => some (.bitXor, 1)
  | .amp => some (.bitAnd, 2)
  | .lshift => some (.lShift, 3)
  | .rshift => some (.rShift, 3)
  | .plus => some (.add, 4)
  | .minus => some (.sub, 4)
  | .star => some (.mult, 5)
  | .slash => some (.div, 5)
  | .dslash => some (.floorDiv, 5)
  | .percent => some (.mod, 5)
  | .at => some (.matMult, 5)
  | _ => none

/-- a binary operator of exactly level `lvl` at the head of the input -/
def binOpAt (lvl : Nat) : List Tok → Option (BinOp × List Tok)
  | .op o :: r =>
    match binOpOf o with
    | some (b, l) => if l = lvl then some (b, r) else none
    | none => none
  | _ => none

/-- `UnaryOp` of `Factor` -/
def unaryOpAt : List Tok → Option (UnaryOp × List Tok)
  | .op .plus :: r => some (.uAdd, r)
  | .op .minus :: r => some (.uSub, r)
  | .op .tilde :: r => some (.invert, r)
  | _ => none

/-- `CompOp` -/
def cmpOpAt : List Tok → Option (CmpOp × List Tok)
  | .op .eqeq :: r => some (.eq, r)
  | .op .ne :: r => some (.notEq, r)
  | .op .lt :: r => some (.lt, r)
  | .op .le :: r => some (.ltE, r)
  | .op .gt :: r => some (.gt, r)
  | .op .ge :: r => some (.gtE, r)
  | .kw .in :: r => some (.in, r)
  | .kw .not :: .kw .in :: r => some (.notIn, r)
  | .kw .is :: .kw .not :: r => some (.isNot, r)
  | .kw .is :: r => some (.is, r)
  | _ => none

/-- start of a `CompFor` -/
def atCompFor : List Tok → Bool
  | .kw .for :: _ => true
  | .kw .async :: .kw .for :: _ => true
  | _ => false

def isStringTok : Tok → Bool
  | .str .. => true
  | .bytes _ => true
  | .fstr .. => true
  | _ => false

/-! ## f-string field scanner (`parse_formatted_value`, the part before the expression is parsed) -/

structure FieldState where
  expr : List Nat := []          -- `expression` (reversed)
  delims : List Nat := []        -- `delimiters` (top first)
  conv : Conv := 0
  selfDoc : Bool := false
  trailing : List Nat := []      -- `trailing_seq` (reversed)
deriving Repr

inductive FieldStop where
  /-- stopped at a `:` that starts the format spec; the rest follows the colon -/
  | spec
  /-- stopped at the closing `}`; the rest follows it -/
  | close
deriving DecidableEq, Repr

/-- Rust's `char::is_whitespace` (the Unicode `White_Space` property), as `str::trim` uses it -/
def isBlank (c : Nat) : Bool :=
  c = 32 || (9 ≤ c && c ≤ 13) || c = 0x85 || c = 0xA0 || c = 0x1680 || (0x2000 ≤ c && c ≤ 0x200A) ||
  c = 0x2028 || c = 0x2029 || c = 0x202F || c = 0x205F || c = 0x3000

/-- read a quoted run inside a field: everything up to and including the closing quote `q`
    (`need = 1`), or — for a triple-quoted string — up to three `q` in a row (`need = 3`);
    `run` counts the quote characters just seen -/
def scanQuoted (q need : Nat) : Nat → List Nat → List Nat → Option (List Nat × List Nat)
  | _, [], _ => none
  | run, c :: r, acc =>
    if c = q then
      if run + 1 ≥ need then some (c :: acc, r) else scanQuoted q need (run + 1) r (c :: acc)
    else scanQuoted q need 0 r (c :: acc)

/-- The `while let Some(ch) = self.next_char()` loop of `parse_formatted_value` up to the point
    where it either meets the spec colon or the closing brace. -/
def scanField : Nat → FieldState → List Nat → Option (FieldState × FieldStop × List Nat)
  | 0, _, _ => none
  | _, _, [] => none                                     -- UnclosedLbrace
  | fuel + 1, st, ch :: rest =>
    let peek := rest.head?
    if (ch = 33 ∨ ch = 61 ∨ ch = 62 ∨ ch = 60) ∧ peek = some 61 then
      scanField fuel { st with expr := 61 :: ch :: st.expr } (rest.drop 1)
    else if ch = 33 ∧ st.delims.isEmpty then
      -- conversion flag
      if st.expr.all isBlank then none else
      match rest with
      | c :: r2 =>
        if c = 115 ∨ c = 97 ∨ c = 114 then
          (match r2.head? with
           | some 125 => scanField fuel { st with conv := c } r2
           | some 58 => scanField fuel { st with conv := c } r2
           | _ => none)
        else none
      | [] => none
    else if ch = 61 ∧ st.delims.isEmpty then
      scanField fuel { st with selfDoc := true } rest
    else if ch = 58 ∧ st.delims.isEmpty then
      -- `parse_spec` follows, then the closing `}` arm with its EmptyExpression check; nothing is added to
      -- `expression` after this colon, so the check is made here (`f'{:x}'`, `f'{=:x}'` are rejected)
      if st.expr.all isBlank then none else some (st, .spec, rest)
    else if (ch = 40 ∨ ch = 123 ∨ ch = 91) ∧ !st.selfDoc then
      -- after the self-documenting `=` only blanks, `!`, `:` or `}` may follow
      scanField fuel { st with expr := ch :: st.expr, delims := ch :: st.delims } rest
    else if ch = 41 then
      (match st.delims with
       | 40 :: ds => scanField fuel { st with expr := ch :: st.expr, delims := ds } rest
       | _ => none)
    else if ch = 93 then
      (match st.delims with
       | 91 :: ds => scanField fuel { st with expr := ch :: st.expr, delims := ds } rest
       | _ => none)
    else if ch = 125 ∧ !st.delims.isEmpty then
      (match st.delims with
       | 123 :: ds => scanField fuel { st with expr := ch :: st.expr, delims := ds } rest
       | _ => none)
    else if ch = 125 then
      if st.expr.all isBlank then none else some (st, .close, rest)
    else if (ch = 34 ∨ ch = 39) ∧ !st.selfDoc then
      -- a triple-quoted string ends at three quote characters in a row
      (match rest with
       | c1 :: c2 :: r2 =>
         if c1 = ch ∧ c2 = ch then
           (match scanQuoted ch 3 0 r2 (ch :: ch :: ch :: st.expr) with
            | some (acc, r) => scanField fuel { st with expr := acc } r
            | none => none)
         else
           (match scanQuoted ch 1 0 rest (ch :: st.expr) with
            | some (acc, r) => scanField fuel { st with expr := acc } r
            | none => none)
       | _ =>
         (match scanQuoted ch 1 0 rest (ch :: st.expr) with
          | some (acc, r) => scanField fuel { st with expr := acc } r
          | none => none))
    else if (ch = 32 ∨ ch = 9 ∨ ch = 10 ∨ ch = 11 ∨ ch = 12) ∧ st.selfDoc then
      scanField fuel { st with trailing := ch :: st.trailing } rest
    else if ch = 92 then none
    else if st.selfDoc then none
    else scanField fuel { st with expr := ch :: st.expr } rest

/-- `parse_escaped_char` for the literal part of a non-raw f-string: one escape after the
    backslash; returns the produced characters and the rest -/
def fstrEscape : List Nat → Option (List Nat × List Nat)
  | [] => none
  | c :: rest =>
    if c = 92 then some ([92], rest) else if c = 39 then some ([39], rest)
    else if c = 34 then some ([34], rest) else if c = 97 then some ([7], rest)
    else if c = 98 then some ([8], rest) else if c = 102 then some ([12], rest)
    else if c = 110 then some ([10], rest) else if c = 114 then some ([13], rest)
    else if c = 116 then some ([9], rest) else if c = 118 then some ([11], rest)
    else if isOct c then
      (match rest with
       | d1 :: r1 =>
         if isOct d1 then
           (match r1 with
            | d2 :: r2 => if isOct d2 then some ([((c - 48) * 8 + (d1 - 48)) * 8 + (d2 - 48)], r2)
                          else some ([(c - 48) * 8 + (d1 - 48)], r1)
            | [] => some ([(c - 48) * 8 + (d1 - 48)], r1))
         else some ([c - 48], rest)
       | [] => some ([c - 48], rest))
    else if c = 120 then (hexEscape 2 rest 0).map (fun (v, r) => ([v], r))
    else if c = 117 then (hexEscape 4 rest 0).map (fun (v, r) => ([v], r))
    else if c = 85 then (hexEscape 8 rest 0).map (fun (v, r) => ([v], r))
    else if c = 78 then none
    else if c = 10 then some ([], rest)
    else some ([92, c], rest)

/-! ## parameter lists and call arguments: bookkeeping -/

structure Params where
  posonly : List Param := []
  args : List Param := []
  vararg : Option Ident := none
  kwonly : List Param := []
  kwarg : Option Ident := none

def paramName : Param → Ident
  | .mk n _ => n

def paramHasDefault : Param → Bool
  | .mk _ d => d.isSome

/-- `validate_pos_params`: no parameter without default after one with default -/
def validPosParams (ps : List Param) : Bool :=
  ((ps.dropWhile (fun a => !paramHasDefault a)).dropWhile paramHasDefault).isEmpty

def hasDup : List Ident → Bool
  | [] => false
  | x :: xs => xs.contains x || hasDup xs

/-- `validate_arguments`: all parameter names distinct -/
def validParamNames (ps : Params) : Bool :=
  !hasDup ((ps.posonly ++ ps.args ++ ps.kwonly).map paramName ++ ps.vararg.toList ++ ps.kwarg.toList)

/-- adjacent-string concatenation of `parse_strings` once every literal has been turned into
    pieces: `.inl s` a plain string piece (empty ones are dropped), `.inr e` a `FormattedValue` -/
def dedupPieces (u : Bool) : List (List Nat ⊕ Expr) → Option (List Nat) → List Expr
  | [], none => []
  | [], some cur => [.const (.str cur u)]
  | .inl s :: r, none => if s.isEmpty then dedupPieces u r none else dedupPieces u r (some s)
  | .inl s :: r, some cur => dedupPieces u r (some (cur ++ s))
  | .inr e :: r, none => e :: dedupPieces u r none
  | .inr e :: r, some cur => .const (.str cur u) :: e :: dedupPieces u r none

def exprToPiece : Expr → (List Nat ⊕ Expr)
  | .const (.str s _) => .inl s
  | e => .inr e

mutual

/-- `Test<"all">` -/
def parseTest : Nat → List Tok → PR Expr
  | 0, _ => none
  | f + 1, .kw .lambda :: r => parseLambda f r
  | f + 1, ts =>
    match parseOrTest f ts with
    | some (body, .kw .if :: r1) =>
      (match parseOrTest f r1 with
       | some (test, .kw .else :: r2) =>
         (match parseTest f r2 with
          | some (orelse, r3) => some (.ifExp test body orelse, r3)
          | none => none)
       | _ => none)
    | res => res
termination_by structural f => f

/-- `LambdaDef` after the keyword: `ParameterList? ":" Test` -/
def parseLambda : Nat → List Tok → PR Expr
  | 0, _ => none
  | f + 1, ts =>
    match parseParams f ts {} 0 with
    | some (ps, .op .colon :: r) =>
      if validPosParams (ps.posonly ++ ps.args) && validParamNames ps then
        (match parseTest f r with
         | some (body, r') => some (.lambda ps.posonly ps.args ps.vararg ps.kwonly ps.kwarg body, r')
         | none => none)
      else none
    | _ => none
termination_by structural f => f

/-- `ParameterList<UntypedParameter, StarUntypedParameter, StarUntypedParameter>?` as a loop over
    comma-separated items.  `phase`: 0 = before `/`, 1 = after `/`, 2 = after `*`, 3 = after `**`.
    Stops in front of the `:`. -/
def parseParams : Nat → List Tok → Params → Nat → PR Params
  | 0, _, _, _ => none
  | _, .op .colon :: r, ps, _ => some (ps, .op .colon :: r)
  | f + 1, ts, ps, phase =>
    -- one item
    let item : Option (Params × Nat × List Tok) :=
      match ts with
      | .name n :: .op .assign :: r =>
        if phase ≤ 2 then
          (match parseTest f r with
           | some (d, r') =>
             let a := Param.mk n (some d)
             if phase = 2 then some ({ ps with kwonly := ps.kwonly ++ [a] }, phase, r')
             else some ({ ps with args := ps.args ++ [a] }, phase, r')
           | none => none)
        else none
      | .name n :: r =>
        let a := Param.mk n none
        if phase = 2 then some ({ ps with kwonly := ps.kwonly ++ [a] }, phase, r)
        else if phase ≤ 1 then some ({ ps with args := ps.args ++ [a] }, phase, r)
        else none
      | .op .slash :: r =>
        if phase = 0 ∧ !ps.args.isEmpty then some ({ ps with posonly := ps.args, args := [] }, 1, r)
        else none
      | .op .star :: .name n :: r =>
        if phase ≤ 1 then some ({ ps with vararg := some n }, 2, r) else none
      | .op .star :: r =>
        if phase ≤ 1 then some (ps, 2, r) else none
      | .op .dstar :: .name n :: r =>
        if phase ≤ 2 then some ({ ps with kwarg := some n }, 3, r) else none
      | .op .dstar :: r =>
        if phase ≤ 2 then some (ps, 3, r) else none
      | _ => none
    match item with
    | none => none
    | some (ps', phase', r) =>
      -- "named arguments must follow bare *"
      let bareStarOk (q : Params) (ph : Nat) : Bool :=
        !(ph = 2 && q.vararg.isNone && q.kwonly.isEmpty)
      match r with
      | .op .comma :: .op .colon :: r2 =>
        if bareStarOk ps' phase' then some (ps', .op .colon :: r2) else none
      | .op .comma :: r2 => parseParams f r2 ps' phase'
      | .op .colon :: r2 =>
        if bareStarOk ps' phase' then some (ps', .op .colon :: r2) else none
      | _ => none
termination_by structural f => f

/-- `NamedExpressionTest` -/
def parseNamedTest : Nat → List Tok → PR Expr
  | 0, _ => none
  | f + 1, .name n :: .op .walrus :: r =>
    (match parseTest f r with
     | some (v, r') => some (.namedExpr (.name n) v, r')
     | none => none)
  | f + 1, ts => parseTest f ts
termination_by structural f => f

/-- `TestOrStarNamedExpr` -/
def parseStarOrNamed : Nat → List Tok → PR Expr
  | 0, _ => none
  | f + 1, .op .star :: r =>
    (match parseBin 0 f r with
     | some (e, r') => some (.starred e, r')
     | none => none)
  | f + 1, ts => parseNamedTest f ts
termination_by structural f => f

/-- `TestOrStarExpr` -/
def parseTestOrStar : Nat → List Tok → PR Expr
  | 0, _ => none
  | f + 1, .op .star :: r =>
    (match parseBin 0 f r with
     | some (e, r') => some (.starred e, r')
     | none => none)
  | f + 1, ts => parseTest f ts
termination_by structural f => f

/-- `OrTest<"all">` -/
def parseOrTest : Nat → List Tok → PR Expr
  | 0, _ => none
  | f + 1, ts =>
    match parseAndTest f ts with
    | some (e, .kw .or :: r) =>
      (match parseOrRest f r with
       | some (es, r') => some (.boolOp .or (e :: es), r')
       | none => none)
    | res => res
termination_by structural f => f

/-- the remaining operands of an `or` chain -/
def parseOrRest : Nat → List Tok → PR (List Expr)
  | 0, _ => none
  | f + 1, ts =>
    match parseAndTest f ts with
    | some (e, .kw .or :: r) =>
      (match parseOrRest f r with
       | some (es, r') => some (e :: es, r')
       | none => none)
    | some (e, r) => some ([e], r)
    | none => none
termination_by structural f => f

/-- `AndTest<"all">` -/
def parseAndTest : Nat → List Tok → PR Expr
  | 0, _ => none
  | f + 1, ts =>
    match parseNotTest f ts with
    | some (e, .kw .and :: r) =>
      (match parseAndRest f r with
       | some (es, r') => some (.boolOp .and (e :: es), r')
       | none => none)
    | res => res
termination_by structural f => f

def parseAndRest : Nat → List Tok → PR (List Expr)
  | 0, _ => none
  | f + 1, ts =>
    match parseNotTest f ts with
    | some (e, .kw .and :: r) =>
      (match parseAndRest f r with
       | some (es, r') => some (e :: es, r')
       | none => none)
    | some (e, r) => some ([e], r)
    | none => none
termination_by structural f => f

/-- `NotTest<"all">` -/
def parseNotTest : Nat → List Tok → PR Expr
  | 0, _ => none
  | f + 1, .kw .not :: r =>
    (match parseNotTest f r with
     | some (e, r') => some (.unaryOp .not e, r')
     | none => none)
  | f + 1, ts => parseCmp f ts
termination_by structural f => f

/-- `Comparison<"all">` -/
def parseCmp : Nat → List Tok → PR Expr
  | 0, _ => none
  | f + 1, ts =>
    match parseBin 0 f ts with
    | some (l, r) =>
      (match cmpOpAt r with
       | some _ =>
         (match parseCmpRest f r with
          | some ((ops, cs), r') => some (.compare l ops cs, r')
          | none => none)
       | none => some (l, r))
    | none => none
termination_by structural f => f

/-- `(CompOp Expression)*` -/
def parseCmpRest : Nat → List Tok → PR (List CmpOp × List Expr)
  | 0, _ => none
  | f + 1, ts =>
    match cmpOpAt ts with
    | some (o, r) =>
      (match parseBin 0 f r with
       | some (e, r') =>
         (match parseCmpRest f r' with
          | some ((ops, cs), r'') => some ((o :: ops, e :: cs), r'')
          | none => none)
       | none => none)
    | none => some (([], []), ts)
termination_by structural f => f

/-- `Expression`, `XorExpression`, `AndExpression`, `ShiftExpression`, `ArithmeticExpression`,
    `Term` for `lvl = 0 … 5`: an operand of the next level, then the left-associative loop -/
def parseBin : Nat → Nat → List Tok → PR Expr
  | _, 0, _ => none
  | lvl, f + 1, ts =>
    match (if lvl ≥ 5 then parseFactor f ts else parseBin (lvl + 1) f ts) with
    | some (l, r) => parseBinLoop lvl f l r
    | none => none
termination_by structural _ f => f

def parseBinLoop : Nat → Nat → Expr → List Tok → PR Expr
  | _, 0, _, _ => none
  | lvl, f + 1, acc, ts =>
    match binOpAt lvl ts with
    | some (o, r) =>
      (match (if lvl ≥ 5 then parseFactor f r else parseBin (lvl + 1) f r) with
       | some (e, r') => parseBinLoop lvl f (.binOp acc o e) r'
       | none => none)
    | none => some (acc, ts)
termination_by structural _ f => f

/-- `Factor<"all">` -/
def parseFactor : Nat → List Tok → PR Expr
  | 0, _ => none
  | f + 1, ts =>
    match unaryOpAt ts with
    | some (o, r) =>
      (match parseFactor f r with
       | some (e, r') => some (.unaryOp o e, r')
       | none => none)
    | none => parsePower f ts
termination_by structural f => f

/-- `Power<"all">` -/
def parsePower : Nat → List Tok → PR Expr
  | 0, _ => none
  | f + 1, ts =>
    match parseAtomExpr f ts with
    | some (e, .op .dstar :: r) =>
      (match parseFactor f r with
       | some (b, r') => some (.binOp e .pow b, r')
       | none => none)
    | res => res
termination_by structural f => f

/-- `AtomExpr<"all">` -/
def parseAtomExpr : Nat → List Tok → PR Expr
  | 0, _ => none
  | f + 1, .kw .await :: r =>
    (match parseAtomExpr2 f r with
     | some (e, r') => some (.await e, r')
     | none => none)
  | f + 1, ts => parseAtomExpr2 f ts
termination_by structural f => f

/-- `AtomExpr2<"all">`: an atom followed by trailers -/
def parseAtomExpr2 : Nat → List Tok → PR Expr
  | 0, _ => none
  | f + 1, ts =>
    match parseAtom f ts with
    | some (a, r) => parseTrailers f a r
    | none => none
termination_by structural f => f

def parseTrailers : Nat → Expr → List Tok → PR Expr
  | 0, _, _ => none
  | f + 1, acc, .op .lpar :: r =>
    (match parseArgs f r [] [] false with
     | some ((as, ks), r') => parseTrailers f (.call acc as ks) r'
     | none => none)
  | f + 1, acc, .op .lsqb :: r =>
    (match parseSubscriptList f r with
     | some (s, r') => parseTrailers f (.subscript acc s) r'
     | none => none)
  | f + 1, acc, .op .dot :: .name n :: r => parseTrailers f (.attribute acc n) r
  | _ + 1, _, .op .dot :: _ => none
  | _ + 1, acc, ts => some (acc, ts)
termination_by structural f => f

/-- `ArgumentList ")"`: `Comma<FunctionArgument>` with the checks of `parse_args`; the arguments
    collected so far are `as` / `ks` (in order), `dstar` = a `**` argument has been seen.
    Consumes the closing parenthesis. -/
def parseArgs : Nat → List Tok → List Expr → List Keyword → Bool → PR (List Expr × List Keyword)
  | 0, _, _, _, _ => none
  | _ + 1, .op .rpar :: r, as, ks, _ => some ((as, ks), r)
  | f + 1, ts, as, ks, dstar =>
    match parseArg f ts as ks dstar with
    | none => none
    | some (as', ks', dstar', r) =>
      match r with
      | .op .comma :: r2 => parseArgs f r2 as' ks' dstar'
      | .op .rpar :: r2 => some ((as', ks'), r2)
      | _ => none
termination_by structural f => f

/-- one `FunctionArgument`, added to the arguments collected so far (`parse_args` checks included) -/
def parseArg : Nat → List Tok → List Expr → List Keyword → Bool →
    Option (List Expr × List Keyword × Bool × List Tok)
  | 0, _, _, _, _ => none
  | f + 1, .name n :: .op .assign :: r, as, ks, dstar =>
    (match parseTest f r with
     | some (v, r') =>
       if ks.any (fun | .mk (some m) _ => m == n | _ => false) then none
       else some (as, ks ++ [.mk (some n) v], dstar, r')
     | none => none)
  | f + 1, .op .star :: r, as, ks, dstar =>
    (match parseTest f r with
     | some (v, r') => if dstar then none else some (as ++ [.starred v], ks, dstar, r')
     | none => none)
  | f + 1, .op .dstar :: r, as, ks, _ =>
    (match parseTest f r with
     | some (v, r') => some (as, ks ++ [.mk none v], true, r')
     | none => none)
  | f + 1, ts, as, ks, dstar =>
    (match parseNamedTest f ts with
     | some (e, r) =>
       if atCompFor r then
         (match parseCompFor f r with
          | some (gs, r') =>
            if !ks.isEmpty then none else if dstar then none
            else some (as ++ [.genExp e gs], ks, dstar, r')
          | none => none)
       else
         if !ks.isEmpty then none else if dstar then none
         else some (as ++ [e], ks, dstar, r)
     | none => none)
termination_by structural f => f

/-- `SubscriptList "]"` -/
def parseSubscriptList : Nat → List Tok → PR Expr
  | 0, _ => none
  | f + 1, ts =>
    match parseSubscript f ts with
    -- a single starred index is the tuple of one element (`x[*a]` = `x[(*a,)]`; /repo fix of `SubscriptList`)
    | some (s1, .op .rsqb :: r) => if isStarred s1 then some (.tuple [s1], r) else some (s1, r)
    | some (s1, .op .comma :: .op .rsqb :: r) => some (.tuple [s1], r)
    | some (s1, .op .comma :: r) =>
      (match parseSubscripts f r with
       | some (ss, r') => some (.tuple (s1 :: ss), r')
       | none => none)
    | _ => none
termination_by structural f => f

/-- the remaining `Subscript`s of a `TwoOrMore<Subscript, ","> ","? "]"` -/
def parseSubscripts : Nat → List Tok → PR (List Expr)
  | 0, _ => none
  | f + 1, ts =>
    match parseSubscript f ts with
    | some (s, .op .rsqb :: r) => some ([s], r)
    | some (s, .op .comma :: .op .rsqb :: r) => some ([s], r)
    | some (s, .op .comma :: r) =>
      (match parseSubscripts f r with
       | some (ss, r') => some (s :: ss, r')
       | none => none)
    | _ => none
termination_by structural f => f

/-- `Subscript` -/
def parseSubscript : Nat → List Tok → PR Expr
  | 0, _ => none
  | f + 1, .op .colon :: r => parseSliceRest f none (.op .colon :: r)
  | f + 1, .op .star :: r => parseStarOrNamed f (.op .star :: r)
  | f + 1, .name n :: .op .walrus :: r => parseNamedTest f (.name n :: .op .walrus :: r)
  | f + 1, ts =>
    match parseTest f ts with
    | some (e, .op .colon :: r) => parseSliceRest f (some e) (.op .colon :: r)
    | res => res
termination_by structural f => f

/-- `":" Test? SliceOp?` after the optional lower bound -/
def parseSliceRest : Nat → Option Expr → List Tok → PR Expr
  | 0, _, _ => none
  | f + 1, lower, .op .colon :: r =>
    -- upper
    let up : Option (Option Expr × List Tok) :=
      match r with
      | .op .colon :: _ => some (none, r)
      | .op .rsqb :: _ => some (none, r)
      | .op .comma :: _ => some (none, r)
      | _ => (match parseTest f r with
              | some (e, r') => some (some e, r')
              | none => none)
    (match up with
     | none => none
     | some (upper, .op .colon :: r2) =>
       (match r2 with
        | .op .rsqb :: _ => some (.slice lower upper none, r2)
        | .op .comma :: _ => some (.slice lower upper none, r2)
        | _ => (match parseTest f r2 with
                | some (st, r3) => some (.slice lower upper (some st), r3)
                | none => none))
     | some (upper, r2) => some (.slice lower upper none, r2))
  | _ + 1, _, _ => none
termination_by structural f => f

/-- `Atom<"all">` -/
def parseAtom : Nat → List Tok → PR Expr
  | 0, _ => none
  | _ + 1, .name n :: r => some (.name n, r)
  | _ + 1, .int n :: r => some (.const (.int n), r)
  | _ + 1, .float b :: r => some (.const (.float b), r)
  | _ + 1, .imag b :: r => some (.const (.imag b), r)
  | _ + 1, .kw .true :: r => some (.const (.bool true), r)
  | _ + 1, .kw .false :: r => some (.const (.bool false), r)
  | _ + 1, .kw .none :: r => some (.const .none, r)
  | _ + 1, .op .ellipsis :: r => some (.const .ellipsis, r)
  | f + 1, .str s u :: r => parseStrings f (.str s u :: r)
  | f + 1, .bytes b :: r => parseStrings f (.bytes b :: r)
  | f + 1, .fstr q t rw b :: r => parseStrings f (.fstr q t rw b :: r)
  | f + 1, .op .lsqb :: r => parseListAtom f r
  | f + 1, .op .lpar :: r => parseParenAtom f r
  | f + 1, .op .lbrace :: r => parseBraceAtom f r
  | _ + 1, _ => none
termination_by structural f => f

/-- after `[`: list display or list comprehension -/
def parseListAtom : Nat → List Tok → PR Expr
  | 0, _ => none
  | _ + 1, .op .rsqb :: r => some (.list [], r)
  | f + 1, r =>
    (match parseStarOrNamed f r with
     | some (e, r1) =>
       if atCompFor r1 then
         (match parseCompFor f r1 with
          | some (gs, .op .rsqb :: r2) => some (.listComp e gs, r2)
          | _ => none)
       else
         (match parseElems f .rsqb r1 with
          | some ((es, _), r2) => some (.list (e :: es), r2)
          | none => none)
     | none => none)
termination_by structural f => f

/-- after `(`: empty tuple, yield expression, generator expression, parenthesised expression or
    tuple -/
def parseParenAtom : Nat → List Tok → PR Expr
  | 0, _ => none
  | _ + 1, .op .rpar :: r => some (.tuple [], r)
  | f + 1, .kw .yield :: r => parseYieldAtom f r
  | f + 1, r =>
    (match parseStarOrNamed f r with
     | some (e, r1) =>
       if atCompFor r1 then
         if isStarred e then none else
         (match parseCompFor f r1 with
          | some (gs, .op .rpar :: r2) => some (.genExp e gs, r2)
          | _ => none)
       else
         (match parseElems f .rpar r1 with
          | some (([], false), r2) => if isStarred e then none else some (e, r2)
          | some ((es, _), r2) => some (.tuple (e :: es), r2)
          | none => none)
     | none => none)
termination_by structural f => f

/-- after `( yield`: `YieldExpr ")"` -/
def parseYieldAtom : Nat → List Tok → PR Expr
  | 0, _ => none
  | f + 1, .kw .from :: r =>
    (match parseTest f r with
     | some (e, .op .rpar :: r') => some (.yieldFrom e, r')
     | _ => none)
  | _ + 1, .op .rpar :: r => some (.yield none, r)
  | f + 1, r =>
    (match parseTestList f r with
     | some (e, .op .rpar :: r') => some (.yield (some e), r')
     | _ => none)
termination_by structural f => f

/-- after `{`: dict display, dict comprehension, set display or set comprehension -/
def parseBraceAtom : Nat → List Tok → PR Expr
  | 0, _ => none
  | _ + 1, .op .rbrace :: r => some (.dict [], r)
  | f + 1, .op .dstar :: r =>
    (match parseBin 0 f r with
     | some (v, r1) =>
       (match parseDictRest f r1 with
        | some (is, r2) => some (.dict (.mk none v :: is), r2)
        | none => none)
     | none => none)
  | f + 1, r =>
    (match parseBraceFirst f r with
     | some (k, true, .op .colon :: r1) =>
       (match parseTest f r1 with
        | some (v, r2) =>
          if atCompFor r2 then
            (match parseCompFor f r2 with
             | some (gs, .op .rbrace :: r3) => some (.dictComp k v gs, r3)
             | _ => none)
          else
            (match parseDictRest f r2 with
             | some (is, r3) => some (.dict (.mk (some k) v :: is), r3)
             | none => none)
        | none => none)
     | some (e, _, r1) =>
       if atCompFor r1 then
         if isStarred e then none else
         (match parseCompFor f r1 with
          | some (gs, .op .rbrace :: r2) => some (.setComp e gs, r2)
          | _ => none)
       else
         (match parseElems f .rbrace r1 with
          | some ((es, _), r2) => some (.set (e :: es), r2)
          | none => none)
     | none => none)
termination_by structural f => f

/-- the first element after `{`: (element, whether it may be a dict key, rest) -/
def parseBraceFirst : Nat → List Tok → Option (Expr × Bool × List Tok)
  | 0, _ => none
  | f + 1, .op .star :: r =>
    (match parseStarOrNamed f (.op .star :: r) with
     | some (e, r') => some (e, false, r')
     | none => none)
  | f + 1, .name n :: .op .walrus :: r =>
    (match parseNamedTest f (.name n :: .op .walrus :: r) with
     | some (e, r') => some (e, false, r')
     | none => none)
  | f + 1, ts =>
    (match parseTest f ts with
     | some (e, r') => some (e, true, r')
     | none => none)
termination_by structural f => f

/-- after one element of a bracketed display: `("," TestOrStarNamedExpr)* ","? close`.
    Returns the further elements and whether a trailing comma was present; consumes `close`. -/
def parseElems : Nat → Op → List Tok → PR (List Expr × Bool)
  | 0, _, _ => none
  | f + 1, close, .op .comma :: r =>
    (match r with
     | .op o :: r' =>
       if o = close then some (([], true), r')
       else
         (match parseStarOrNamed f r with
          | some (e, r1) =>
            (match parseElems f close r1 with
             | some ((es, _), r2) => some ((e :: es, true), r2)
             | none => none)
          | none => none)
     | _ =>
       (match parseStarOrNamed f r with
        | some (e, r1) =>
          (match parseElems f close r1 with
           | some ((es, _), r2) => some ((e :: es, true), r2)
           | none => none)
        | none => none))
  | _ + 1, close, .op o :: r => if o = close then some (([], false), r) else none
  | _ + 1, _, _ => none
termination_by structural f => f

/-- after one `DictElement`: `("," DictElement)* ","? "}"` -/
def parseDictRest : Nat → List Tok → PR (List DictItem)
  | 0, _ => none
  | _ + 1, .op .rbrace :: r => some ([], r)
  | _ + 1, .op .comma :: .op .rbrace :: r => some ([], r)
  | f + 1, .op .comma :: .op .dstar :: r =>
    (match parseBin 0 f r with
     | some (v, r1) =>
       (match parseDictRest f r1 with
        | some (is, r2) => some (.mk none v :: is, r2)
        | none => none)
     | none => none)
  | f + 1, .op .comma :: r =>
    (match parseTest f r with
     | some (k, .op .colon :: r1) =>
       (match parseTest f r1 with
        | some (v, r2) =>
          (match parseDictRest f r2 with
           | some (is, r3) => some (.mk (some k) v :: is, r3)
           | none => none)
        | none => none)
     | _ => none)
  | _ + 1, _ => none
termination_by structural f => f

/-- `CompFor`: one or more `SingleForComprehension` -/
def parseCompFor : Nat → List Tok → PR (List Comp)
  | 0, _ => none
  | f + 1, ts =>
    let hd : Option (Bool × List Tok) :=
      match ts with
      | .kw .async :: .kw .for :: r => some (true, r)
      | .kw .for :: r => some (false, r)
      | _ => none
    match hd with
    | none => none
    | some (isAsync, r) =>
      match parseTargetList f r with
      | some (target, .kw .in :: r1) =>
        (match parseOrTest f r1 with
         | some (iter, r2) =>
           (match parseCompIfs f r2 with
            | some (ifs, r3) =>
              if atCompFor r3 then
                (match parseCompFor f r3 with
                 | some (gs, r4) => some (.mk target iter ifs isAsync :: gs, r4)
                 | none => none)
              else some ([.mk target iter ifs isAsync], r3)
            | none => none)
         | none => none)
      | _ => none
termination_by structural f => f

/-- `ComprehensionIf*` -/
def parseCompIfs : Nat → List Tok → PR (List Expr)
  | 0, _ => none
  | f + 1, .kw .if :: r =>
    (match parseOrTest f r with
     | some (c, r1) =>
       (match parseCompIfs f r1 with
        | some (cs, r2) => some (c :: cs, r2)
        | none => none)
     | none => none)
  | _ + 1, ts => some ([], ts)
termination_by structural f => f

/-- `ExpressionOrStarExpression` -/
def parseExprOrStar : Nat → List Tok → PR Expr
  | 0, _ => none
  | f + 1, .op .star :: r =>
    (match parseBin 0 f r with
     | some (e, r') => some (.starred e, r')
     | none => none)
  | f + 1, ts => parseBin 0 f ts
termination_by structural f => f

/-- `ExpressionList` = `GenericList<ExpressionOrStarExpression>` in front of `in` -/
def parseTargetList : Nat → List Tok → PR Expr
  | 0, _ => none
  | f + 1, ts =>
    match parseExprOrStar f ts with
    | some (e, .op .comma :: r) =>
      (match parseTargetRest f r with
       | some (es, r') => some (.tuple (e :: es), r')
       | none => none)
    | res => res
termination_by structural f => f

/-- after `elem ","` of a target list: more elements, or the trailing comma case -/
def parseTargetRest : Nat → List Tok → PR (List Expr)
  | 0, _ => none
  | _ + 1, .kw .in :: r => some ([], .kw .in :: r)
  | f + 1, ts =>
    match parseExprOrStar f ts with
    | some (e, .op .comma :: r) =>
      (match parseTargetRest f r with
       | some (es, r') => some (e :: es, r')
       | none => none)
    | some (e, r) => some ([e], r)
    | none => none
termination_by structural f => f

/-- `TestList` = `GenericList<TestOrStarExpr>`; ends in front of `)` or at the end of input -/
def parseTestList : Nat → List Tok → PR Expr
  | 0, _ => none
  | f + 1, ts =>
    match parseTestOrStar f ts with
    | some (e, .op .comma :: r) =>
      (match parseTestListRest f r with
       | some (es, r') => some (.tuple (e :: es), r')
       | none => none)
    | res => res
termination_by structural f => f

def parseTestListRest : Nat → List Tok → PR (List Expr)
  | 0, _ => none
  | _ + 1, [] => some ([], [])
  | _ + 1, .op .rpar :: r => some ([], .op .rpar :: r)
  | f + 1, ts =>
    match parseTestOrStar f ts with
    | some (e, .op .comma :: r) =>
      (match parseTestListRest f r with
       | some (es, r') => some (e :: es, r')
       | none => none)
    | some (e, r) => some ([e], r)
    | none => none
termination_by structural f => f

/-- `(@L string @R)+ =>? parse_strings(s)`: all adjacent string tokens -/
def parseStrings : Nat → List Tok → PR Expr
  | 0, _ => none
  | f + 1, ts =>
    let strs := ts.takeWhile isStringTok
    let rest := ts.dropWhile isStringTok
    let nBytes := (strs.filter (fun | .bytes _ => true | _ => false)).length
    let hasF := strs.any (fun | .fstr .. => true | _ => false)
    let initialU := match strs with | .str _ true :: _ => true | _ => false
    if nBytes > 0 then
      if nBytes < strs.length then none       -- cannot mix bytes and nonbytes literals
      else some (.const (.bytes (strs.flatMap (fun | .bytes b => b | _ => []))), rest)
    else if !hasF then
      some (.const (.str (strs.flatMap (fun | .str s _ => s | _ => [])) initialU), rest)
    else
      match parseStringPieces f strs with
      | some pieces => some (.joinedStr (dedupPieces initialU pieces none), rest)
      | none => none
termination_by structural f => f

/-- every literal of an implicit concatenation turned into its pieces -/
def parseStringPieces : Nat → List Tok → Option (List (List Nat ⊕ Expr))
  | 0, _ => none
  | _ + 1, [] => some []
  | f + 1, .str s _ :: r => (parseStringPieces f r).map (.inl s :: ·)
  | f + 1, .fstr _ _ raw body :: r =>
    (match fstrBody f raw 0 body [] with
     | some (vs, []) => (parseStringPieces f r).map (vs.map exprToPiece ++ ·)
     | _ => none)
  | _ + 1, _ => none
termination_by structural f => f

/-- `parse_fstring(nested)`: `content` is the pending literal text (reversed).
    Returns the pieces and the unconsumed text (non-empty only when `nested > 0`). -/
def fstrBody : Nat → Bool → Nat → List Nat → List Nat → Option (List Expr × List Nat)
  | 0, _, _, _, _ => none
  | _ + 1, _, _, [], content =>
    some ((if content.isEmpty then [] else [.const (.str content.reverse false)]), [])
  | f + 1, raw, nested, ch :: rest, content =>
    if nested ≥ 2 then none else
    if ch = 123 then
      if nested = 0 ∧ rest.head? = some 123 then fstrBody f raw nested (rest.drop 1) (123 :: content)
      else if nested = 0 ∧ rest.isEmpty then none
      else
        (match fstrField f raw nested rest with
         | some (vs, r) =>
           (match fstrBody f raw nested r [] with
            | some (more, r') =>
              some ((if content.isEmpty then [] else [.const (.str content.reverse false)]) ++ vs ++ more, r')
            | none => none)
         | none => none)
    else if ch = 125 then
      if nested > 0 then
        some ((if content.isEmpty then [] else [.const (.str content.reverse false)]), ch :: rest)
      else if rest.head? = some 125 then fstrBody f raw nested (rest.drop 1) (125 :: content)
      else none
    else if ch = 92 ∧ !raw then
      (match rest with
       | 123 :: _ => fstrBody f raw nested rest (92 :: content)
       | 125 :: _ => fstrBody f raw nested rest (92 :: content)
       | _ =>
         (match fstrEscape rest with
          | some (cs, r) => fstrBody f raw nested r (cs.reverse ++ content)
          | none => none))
    else fstrBody f raw nested rest (ch :: content)
termination_by structural f => f

/-- `parse_formatted_value(nested)` after the opening brace -/
def fstrField : Nat → Bool → Nat → List Nat → Option (List Expr × List Nat)
  | 0, _, _, _ => none
  | f + 1, raw, nested, cs =>
    match scanField (cs.length + 1) {} cs with
    | none => none
    | some (st, stop, r) =>
      -- the format spec, if the scan stopped at its colon
      let specRes : Option (Option Expr × List Nat) :=
        match stop with
        | .close => some (none, r)
        | .spec =>
          (match fstrSpec f raw nested r [] with
           | some (vs, 125 :: r') => some (some (.joinedStr vs), r')
           | _ => none)
      match specRes with
      | none => none
      | some (spec, r') =>
        let exprText := st.expr.reverse
        -- `parse_fstring_expr`: the text "(" ++ expression ++ ")" is lexed and parsed in expression mode (a line
        -- break inside the field is therefore inside brackets; a `#` starts a comment that swallows the ")")
        match lex (40 :: (exprText ++ [41])) with
        | none => none
        | some tks =>
          match parseTop f tks with
          | none => none
          | some value =>
            if !st.selfDoc then some ([.formattedValue value st.conv spec], r')
            else
              let conv := if st.conv = 0 ∧ spec.isNone then 114 else st.conv
              some ([.const (.str (exprText ++ [61]) false),
                     .const (.str st.trailing.reverse false),
                     .formattedValue value conv spec], r')
termination_by structural f => f

/-- `parse_spec(nested)`: stops in front of the closing `}` -/
def fstrSpec : Nat → Bool → Nat → List Nat → List Nat → Option (List Expr × List Nat)
  | 0, _, _, _, _ => none
  | _ + 1, _, _, [], piece =>
    some ((if piece.isEmpty then [] else [.const (.str piece.reverse false)]), [])
  | f + 1, raw, nested, ch :: rest, piece =>
    if ch = 123 then
      (match fstrBody f raw (nested + 1) (ch :: rest) [] with
       | some (vs, r) =>
         (match fstrSpec f raw nested r [] with
          | some (more, r') =>
            some ((if piece.isEmpty then [] else [.const (.str piece.reverse false)]) ++ vs ++ more, r')
          | none => none)
       | none => none)
    else if ch = 125 then
      some ((if piece.isEmpty then [] else [.const (.str piece.reverse false)]), ch :: rest)
    else if ch = 92 ∧ !raw then
      (match rest with
       | 123 :: _ => fstrSpec f raw nested rest (92 :: piece)
       | 125 :: _ => fstrSpec f raw nested rest (92 :: piece)
       | _ =>
         (match fstrEscape rest with
          | some (cs, r) => fstrSpec f raw nested r (cs.reverse ++ piece)
          | none => none))
    else fstrSpec f raw nested rest (ch :: piece)
termination_by structural f => f

/-- `Top` in expression mode: a `TestList` and nothing after it -/
def parseTop : Nat → List Tok → Option Expr
  | 0, _ => none
  | f + 1, ts =>
    match parseTestList f ts with
    | some (e, []) => some e
    | _ => none
termination_by structural f => f

end

/-- The reference parser: one `Test` (the nonterminal the unparser's output is read at),
    returning the unconsumed tokens. -/
def parseRef (fuel : Nat) (ts : List Tok) : Option (Expr × List Tok) := parseTest fuel ts

/-- size of a token for the fuel estimate: f-string bodies are scanned character by character -/
def tokWeight : Tok → Nat
  | .fstr _ _ _ body => 1 + body.length
  | _ => 1

/-- fuel that suffices for every token list of this size (used by the driver) -/
def fuelFor (ts : List Tok) : Nat := 24 * (ts.map tokWeight).sum + 64

/-- whole-input parse in expression mode (what `Expr::parse` does) -/
def parseExpression (ts : List Tok) : Option Expr := parseTop (fuelFor ts) ts


/-! ## which children need parentheses, derived from the grammar

  Levels number the nonterminals of the chain:
  1 `Test`, 2 `OrTest`, 3 `AndTest`, 4 `NotTest`, 5 `Comparison`, 6 `Expression`,
  7 `XorExpression`, 8 `AndExpression`, 9 `ShiftExpression`, 10 `ArithmeticExpression`, 11 `Term`,
  12 `Factor`, 13 `Power`, 14 `AtomExpr`, 15 `AtomExpr2` / `Atom`.
  Each nonterminal derives itself-level productions and everything of a higher level. -/

/-- the highest nonterminal of the chain that derives an expression of this kind without
    surrounding parentheses (`none`: not derivable from `Test` at all) -/
def bareLevel : Kind → Option Nat
  | .tuple => none              -- only through `GenericList` / `SubscriptList` / `ExpressionList`
  | .namedExpr => none          -- only through `NamedExpressionTest`
  | .lambda => some 1           -- Test: LambdaDef
  | .ifExp => some 1            -- Test: OrTest "if" OrTest "else" Test
  | .boolOp .or => some 2       -- OrTest
  | .boolOp .and => some 3      -- AndTest
  | .unary .not => some 4       -- NotTest
  | .compare => some 5          -- Comparison
  | .binOp .bitOr => some 6     -- Expression
  | .binOp .bitXor => some 7    -- XorExpression
  | .binOp .bitAnd => some 8    -- AndExpression
  | .binOp .lShift => some 9    -- ShiftExpression
  | .binOp .rShift => some 9
  | .binOp .add => some 10      -- ArithmeticExpression
  | .binOp .sub => some 10
  | .binOp .mult => some 11     -- Term
  | .binOp .matMult => some 11
  | .binOp .div => some 11
  | .binOp .mod => some 11
  | .binOp .floorDiv => some 11
  | .unary _ => some 12         -- Factor: UnaryOp Factor
  | .binOp .pow => some 13      -- Power: AtomExpr "**" Factor
  | .await => some 14           -- AtomExpr: "await" AtomExpr2
  | .atom => some 15
  | .starred => none
  | .slice => none

/-- the nonterminal the grammar has at this child position, as a level of the chain.
    For the operands of a left-recursive production `X := X op Y` the left slot is `X`, the right
    slot `Y` (next level); `Power := AtomExpr "**" Factor`. -/
def slotNT : Slot → Nat
  | .top => 1                           -- TestList: TestOrStarExpr
  | .boolOperand .or => 3               -- (AndTest "or")+ AndTest
  | .boolOperand .and => 4              -- (NotTest "and")+ NotTest
  | .unaryOperand .not => 4             -- "not" NotTest
  | .unaryOperand _ => 12               -- UnaryOp Factor
  | .cmpLeft => 6                       -- Expression (CompOp Expression)+
  | .cmpRight => 6
  | .binLeft o =>
    (match bareLevel (.binOp o) with
     | some 13 => 14                    -- Power: AtomExpr "**" …
     | some l => l
     | none => 15)
  | .binRight o =>
    (match bareLevel (.binOp o) with
     | some 13 => 12                    -- Power: … "**" Factor
     | some l => l + 1
     | none => 15)
  | .awaitOperand => 15                 -- "await" AtomExpr2
  | .lambdaBody => 1                    -- ":" Test
  | .lambdaDefault => 1                 -- ParameterDef: "=" Test
  | .ifBody => 2                        -- OrTest "if" …
  | .ifTest => 2                        -- … "if" OrTest "else" …
  | .ifOrelse => 1                      -- … "else" Test
  | .dictKey => 1                       -- DictEntry: Test ":" Test
  | .dictValue => 1
  | .dictUnpack => 6                    -- DictElement: "**" Expression
  | .setElt => 1                        -- TestOrStarNamedExpr
  | .listElt => 1
  | .tupleElt => 1
  | .subTupleElt => 1                   -- Subscript: TestOrStarNamedExpr | slice
  | .listCompElt => 1                   -- TestOrStarNamedExpr
  | .setCompElt => 1                    -- NamedExpressionTest
  | .genExpElt => 1
  | .dictCompKey => 1                   -- DictEntry
  | .dictCompValue => 1
  | .compTarget => 6                    -- ExpressionList: Expression | StarExpr
  | .compTargetElt => 6                 -- ExpressionList: Expression | StarExpr
  | .compIter => 2                      -- "in" OrTest
  | .compIf => 2                        -- ComprehensionIf: "if" OrTest
  | .yieldValue => 1                    -- "yield" TestList
  | .yieldFromValue => 1                -- "yield" "from" Test
  | .callFunc => 15                     -- AtomExpr2 "(" …
  | .callArg => 1                       -- FunctionArgument: NamedExpressionTest CompFor?
  | .callKwValue => 1                   -- Identifier "=" Test
  | .callDstarValue => 1                -- "**" Test
  | .attrValue => 15                    -- AtomExpr2 "." Identifier
  | .subValue => 15                     -- AtomExpr2 "[" …
  | .subSlice => 1                      -- SubscriptList
  | .sliceLower => 1                    -- Test? ":" Test? SliceOp?
  | .sliceUpper => 1
  | .sliceStep => 1
  | .starredValue => 6                  -- StarExpr: "*" Expression  (a call argument "*" Test is laxer)
  | .namedValue => 1                    -- Identifier ":=" Test
  | .fstringField => 1                  -- the field text is parsed as "(" … ")"

/-- slots whose production accepts a bare comma list (`GenericList`, `SubscriptList`,
    `ExpressionList`) -/
def slotAllowsBareTuple : Slot → Bool
  | .top | .subSlice | .compTarget | .yieldValue | .fstringField => true
  | _ => false

/-- slots whose production is `NamedExpressionTest` (or contains `NamedOrStarExpr`); not the f-string
    field, where the `:` of `:=` would start the format spec -/
def slotAllowsBareNamed : Slot → Bool
  | .setElt | .listElt | .tupleElt | .subTupleElt | .listCompElt | .setCompElt | .genExpElt
  | .callArg | .subSlice => true
  | _ => false

/-- The grammar cannot derive a child of kind `k` in slot `s` unless it is parenthesised. -/
def needsParens (s : Slot) (k : Kind) : Bool :=
  match k with
  | .tuple => !slotAllowsBareTuple s
  | .namedExpr => !slotAllowsBareNamed s
  | .starred => false
  | .slice => false
  | .lambda =>
    -- inside a replacement field a `:` outside brackets starts the format spec (`string.rs`)
    s == .fstringField || decide (1 < slotNT s)
  | k =>
    match bareLevel k with
    | some l => decide (l < slotNT s)
    | none => true

end PV.C11
