import PV.C11.LemmasY
/-
  C11 — the induction over the operator core `InFragment` (`rt_all`, used by `parse_unparse_partial` and by
  PV.C08.Paren / PV.Prog.RenderLemmas).
-/
namespace PV.C11
open PV.Expr

theorem unparse_plainIndex (p : Nat → Bool) (s : Expr) (hf : inFrag s = true) (hp : plainIndex s = true) :
    unparse p s 0 = unparse p s 1 := by
  apply unparse_level_succ
  cases s with
  | tuple es => cases es <;> simp [plainIndex, kindOf, kindPrec] at *
  | namedExpr t v => simp [inFrag] at hf
  | boolOp o _ => cases o <;> simp [kindOf, kindPrec, boolOpPrec, Prec.AND, Prec.OR]
  | unaryOp o _ => cases o <;> simp [kindOf, kindPrec, unaryOpPrec, Prec.NOT, Prec.FACTOR]
  | binOp _ o _ =>
    cases o <;> simp [kindOf, kindPrec, binOpPrec, Prec.ARITH, Prec.TERM, Prec.POWER, Prec.SHIFT, Prec.BOR,
      Prec.BXOR, Prec.BAND]
  | _ => simp [kindOf, kindPrec, Prec.TEST, Prec.CMP, Prec.AWAIT]


mutual
theorem rt_all (p : Nat → Bool) : (e : Expr) → inFrag e = true → Good p e
  | .name id, _ =>
    good_of_trail p rfl ⟨.name id, [], by simp [unparse], rfl⟩
      (trailRT_of_atomRT (fun rest _ => by simpa [unparse] using atom_name id rest))
  | .const c, _ =>
    good_of_trail p rfl ⟨constTok c, [], by simp [unparse], goodHead_constTok c⟩
      (trailRT_of_atomRT (fun rest hr => by simpa [unparse] using atom_const c rest hr))
  | .attribute v n, h => by
    have hv : inFrag v = true := by simpa [inFrag] using h
    have ihv := rt_all p v hv
    refine good_of_trail p rfl ?_ (trailRT_attribute p v n ihv.trail)
    obtain ⟨t, r, ht, hg⟩ := firstTok p (.attribute v n) h 15
    exact ⟨t, r, ht, hg⟩
  | .call fn args [], h => by
    have hfn : inFrag fn = true := by simp [inFrag] at h; exact h.1
    have hargs : inFragList args = true := by simp [inFrag] at h; exact h.2
    have ihf := rt_all p fn hfn
    have ihargs := rt_list p args hargs
    refine good_of_trail p ?_ ?_
      (trailRT_call p fn args [] (by intro e gs hc; obtain ⟨rfl, _⟩ := hc; simp [inFragList, inFrag] at hargs) ihf.trail
        (fun x hx => .plain ⟨(ihargs x hx).1, plain_of_inFrag p (ihargs x hx).2⟩) trivial rfl)
    · cases args <;> rfl
    · obtain ⟨t, r, ht, hg⟩ := firstTok p (.call fn args []) h 15
      exact ⟨t, r, ht, hg⟩
  | .subscript v s, h => by
    have hv : inFrag v = true := by simp [inFrag] at h; exact h.1.1
    have hs : inFrag s = true := by simp [inFrag] at h; exact h.1.2
    have hp : plainIndex s = true := by simp [inFrag] at h; exact h.2
    have ihv := rt_all p v hv
    have ihs := rt_all p s hs
    refine good_of_trail p rfl ?_ (trailRT_subscript p v s ihv.trail
      (subOK_of_elem p (.plain ⟨ihs, plain_of_inFrag p hs⟩) (unparse_plainIndex p s hs hp)
        (by cases s <;> first | rfl | simp [inFrag] at hs)))
    obtain ⟨t, r, ht, hg⟩ := firstTok p (.subscript v s) h 15
    exact ⟨t, r, ht, hg⟩
  | .await v, h => by
    have hv : inFrag v = true := by simpa [inFrag] using h
    exact good_of_rt p (plain_of_inFrag p h) (prec := 14) rfl (by omega) (by omega) (rt_await p v (plain_of_inFrag p h) (rt_all p v hv).rt)
      (fun k _ hk => by omega)
  | .dict items, h => by
    have hi : inFragItems items = true := by simpa [inFrag] using h
    refine good_of_trail p rfl ?_ (trailRT_of_atomRT (atomRT_dict p items (rt_items p items hi)))
    obtain ⟨t, r, ht, hg⟩ := firstTok p (.dict items) h 15
    exact ⟨t, r, ht, hg⟩
  | .yield none, h =>
    good_of_trail p rfl ⟨.op .lpar, [.kw .yield, .op .rpar], by simp [unparse, op, kw], rfl⟩
      (trailRT_of_atomRT (atomRT_yieldNone p))
  | .yield (some v), h => by
    have hv : inFrag v = true := by simpa [inFrag] using h
    refine good_of_trail p rfl ?_ (trailRT_of_atomRT (atomRT_yieldSome p (.plain ⟨rt_all p v hv, plain_of_inFrag p hv⟩)))
    obtain ⟨t, r, ht, hg⟩ := firstTok p (.yield (some v)) h 15
    exact ⟨t, r, ht, hg⟩
  | .yieldFrom v, h => by
    have hv : inFrag v = true := by simpa [inFrag] using h
    refine good_of_trail p rfl ?_ (trailRT_of_atomRT (atomRT_yieldFrom p v (rt_all p v hv).rt))
    obtain ⟨t, r, ht, hg⟩ := firstTok p (.yieldFrom v) h 15
    exact ⟨t, r, ht, hg⟩
  | .list es, h => by
    have hes : inFragList es = true := by simpa [inFrag] using h
    have ihes := rt_list p es hes
    refine good_of_trail p rfl ?_ (trailRT_of_atomRT (atomRT_list p es (fun x hx => .plain ⟨(ihes x hx).1, plain_of_inFrag p (ihes x hx).2⟩)))
    obtain ⟨t, r, ht, hg⟩ := firstTok p (.list es) h 15
    exact ⟨t, r, ht, hg⟩
  | .set [], h => by simp [inFrag] at h
  | .set (x :: xs), h => by
    have hes : inFragList (x :: xs) = true := by simp [inFrag] at h ⊢; simpa [inFragList] using h
    have ihes := rt_list p (x :: xs) hes
    refine good_of_trail p rfl ?_ (trailRT_of_atomRT (atomRT_set p x xs (fun y hy => .plain ⟨(ihes y hy).1, plain_of_inFrag p (ihes y hy).2⟩)))
    obtain ⟨t, r, ht, hg⟩ := firstTok p (.set (x :: xs)) h 15
    exact ⟨t, r, ht, hg⟩
  | .tuple es, h => by
    have hes : inFragList es = true := by simpa [inFrag] using h
    have ihes := rt_list p es hes
    refine good_of_trail' p ?_ ?_ ?_ (trailRT_of_atomRT (atomRT_tuple p es (fun x hx => .plain ⟨(ihes x hx).1, plain_of_inFrag p (ihes x hx).2⟩)))
    · intro lvl h1
      cases es with
      | nil => simp [unparse]
      | cons x xs =>
        rw [unparse_group p _ lvl Prec.TUPLE rfl, unparse_group p _ 15 Prec.TUPLE rfl]
        have : decide (lvl > Prec.TUPLE) = decide (15 > Prec.TUPLE) := by simp [Prec.TUPLE]; omega
        rw [this]
    · intro k
      cases es <;> simp [kindOf, kindPrec, Prec.TUPLE]
    · obtain ⟨t, r, ht, hg⟩ := firstTok p (.tuple es) h 15
      exact ⟨t, r, ht, hg⟩
  | .unaryOp o x, h => by
    have hx : inFrag x = true := by simpa [inFrag] using h
    have ihx := (rt_all p x hx).rt
    by_cases ho : o = .not
    · subst ho
      exact good_of_rt p (plain_of_inFrag p h) (prec := 4) rfl (by omega) (by omega) (rt_not p x (plain_of_inFrag p h) ihx) (fun k _ hk => by omega)
    · have hprec : unaryOpPrec o = 12 := by cases o <;> first | rfl | exact absurd rfl ho
      exact good_of_rt p (plain_of_inFrag p h) (prec := 12) (by simp [kindOf, kindPrec, hprec]) (by omega) (by omega)
        (rt_factor p o ho x (plain_of_inFrag p h) ihx) (fun k _ hk => by omega)
  | .binOp l o r, h => by
    have hl : inFrag l = true := by simp [inFrag] at h; exact h.1
    have hr : inFrag r = true := by simp [inFrag] at h; exact h.2
    have ihl := rt_all p l hl
    have ihr := rt_all p r hr
    by_cases ho : o = .pow
    · subst ho
      exact good_of_rt p (plain_of_inFrag p h) (prec := 13) rfl (by omega) (by omega)
        (rt_pow p l r (plain_of_inFrag p h) (plain_of_inFrag p hr) ihl.rt ihr.rt)
        (fun k _ hk => by omega)
    · obtain ⟨hk5, hprec⟩ := binLevel_le o ho
      refine good_of_rt p (plain_of_inFrag p h) (prec := binLevel o + 6) (by simp [kindOf, kindPrec, hprec]) (by omega) (by omega)
        (rt_bin p l o r ho (plain_of_inFrag p h) (ihl.loop _ hk5) ihr.rt) (fun k _ hk => ?_)
      obtain rfl : k = binLevel o := by omega
      exact loopRT_bin p l o r ho (ihl.loop _ hk5) ihr.rt
  | .boolOp o [], h => by simp [inFrag] at h
  | .boolOp o [_], h => by simp [inFrag] at h
  | .boolOp o (v :: w :: ws), h => by
    have hv : inFrag v = true := by simp [inFrag, inFragList] at h; exact h.1
    have hws : inFragList (w :: ws) = true := by simp [inFrag, inFragList] at h ⊢; exact h.2
    have ihv := (rt_all p v hv).rt
    have ihws := rt_list p (w :: ws) hws
    cases o
    · exact good_of_rt p (plain_of_inFrag p h) (prec := 3) rfl (by omega) (by omega)
        (rt_and p v w ws (plain_of_inFrag p h) ihv (fun x hx => (ihws x hx).1.rt)) (fun k _ hk => by omega)
    · exact good_of_rt p (plain_of_inFrag p h) (prec := 2) rfl (by omega) (by omega)
        (rt_or p v w ws (plain_of_inFrag p h) ihv (fun x hx => (ihws x hx).1.rt)) (fun k _ hk => by omega)
  | .compare l ops cs, h => by
    have hl : inFrag l = true := by simp [inFrag] at h; exact h.1.1.1
    have hc : inFragList cs = true := by simp [inFrag] at h; exact h.2
    have ihl := (rt_all p l hl).rt
    have ihcs := rt_list p cs hc
    exact good_of_rt p (plain_of_inFrag p h) (prec := 5) rfl (by omega) (by omega)
      (rt_compare p l ops cs (plain_of_inFrag p h) (by simp [inFrag] at h; exact h.1.2) (by simp [inFrag] at h; exact h.1.1.2) ihl
        (fun c hc => ⟨(ihcs c hc).1.rt, plain_of_inFrag p (ihcs c hc).2⟩)) (fun k _ hk => by omega)
  | .ifExp t b o, h => by
    have ht : inFrag t = true := by simp [inFrag] at h; exact h.1.1
    have hb : inFrag b = true := by simp [inFrag] at h; exact h.1.2
    have ho : inFrag o = true := by simp [inFrag] at h; exact h.2
    exact good_of_rt p (plain_of_inFrag p h) (prec := 1) rfl (by omega) (by omega)
      (rt_ifExp p t b o (plain_of_inFrag p h) (plain_of_inFrag p hb) (rt_all p t ht).rt (rt_all p b hb).rt (rt_all p o ho).rt) (fun k _ hk => by omega)
  | .namedExpr .., h | .lambda .., h | .listComp .., h
  | .setComp .., h | .dictComp .., h | .genExp .., h
  | .call _ _ (_ :: _), h | .formattedValue .., h | .joinedStr .., h
  | .starred .., h
  | .slice .., h => by simp [inFrag] at h
theorem rt_items (p : Nat → Bool) : (is : List DictItem) → inFragItems is = true → GoodItems p is
  | [], _ => trivial
  | .mk none v :: is, h => by
    have hv : inFrag v = true := by simp [inFragItems] at h; exact h.1
    have his : inFragItems is = true := by simp [inFragItems] at h; exact h.2
    exact ⟨⟨(rt_all p v hv).rt, plain_of_inFrag p hv⟩, rt_items p is his⟩
  | .mk (some k) v :: is, h => by
    have hk : inFrag k = true := by simp [inFragItems] at h; exact h.1.1
    have hv : inFrag v = true := by simp [inFragItems] at h; exact h.1.2
    have his : inFragItems is = true := by simp [inFragItems] at h; exact h.2
    exact ⟨⟨(rt_all p k hk).rt, plain_of_inFrag p hk⟩, ⟨(rt_all p v hv).rt, plain_of_inFrag p hv⟩, rt_items p is his⟩
theorem rt_list (p : Nat → Bool) : (es : List Expr) → inFragList es = true →
    ∀ e ∈ es, Good p e ∧ inFrag e = true
  | [], _ => by simp
  | x :: xs, h => by
    have hx : inFrag x = true := by simp [inFragList] at h; exact h.1
    have hxs : inFragList xs = true := by simp [inFragList] at h; exact h.2
    intro e he
    rcases List.mem_cons.mp he with h0 | he'
    · rw [h0]; exact ⟨rt_all p x hx, hx⟩
    · exact rt_list p xs hxs e he'
end

end PV.C11
