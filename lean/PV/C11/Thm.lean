import PV.C11.Model
import PV.C11.Spec
import PV.Gen.C11Tables
/-
  C11 — property theorems (provisional: table part).
-/
namespace PV.C11
open PV.Expr

theorem gen_parenTable_eq : Gen.parenTable = parenTable := by decide +kernel

end PV.C11
