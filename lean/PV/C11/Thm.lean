import PV.C11.Model
import PV.C11.Spec
import PV.C11.Fragment
import PV.C11.Lemmas
import PV.C11.Induction
import PV.C11.InductionX
import PV.C11.FragmentX
import PV.Gen.C11Tables
/-
  C11 — property theorems.  "Unparsing an expression and parsing it again gives the same expression."

  Reading guide (helper lemmas are in `PV/C11/Lemmas.lean`):

  * model  `unparse p e level : List Out`, `display p e = unparse p e Prec.TEST`  (`ast/src/unparse.rs`),
           `toks : List Out → List Tok` its token sequence, `displayText` its text;
  * spec   `parseRef fuel ts : Option (Expr × List Tok)`  (reference parser written from python.lalrpop),
           `needsParens slot kind` (which children the grammar cannot derive bare), `WF e`;
  * tables `kindPrec` / `slotLevel` / `modelParens` (model), `Gen.parenTable` (extracted from the real code).

  1. `gen_parenTable_eq`      real unparser's parenthesisation decisions = the model's, all 1883 admissible pairs
  2. `unparse_shape`          for EVERY expression the model parenthesises exactly by `level > kindPrec`
     `unparse_slot_levels`    … and renders every child at the `slotLevel` of its slot
  3. `prec_table_ok`          wherever the grammar needs parentheses the model writes them — no exception
     `prec_table_exact`       … and the model's decision is exactly: needed, or one of five harmless families
     `dict_unpack_regression` the six dict-`**` pairs that were wrong before /repo dc8e40d
     `comp_target_regression` the fourteen comprehension-target pairs that were wrong before /repo's repair of
                              `unparse_comp` (`[x for (a if b else c), (lambda: d) in y]`)
  4. `parse_unparse_partial`  round trip for every expression of `InFragmentX` (everything but f-strings),
                              `unparse_fixpoint`; `fx_target_eq_elem`: a comprehension target may be any operand
  5. `parse_unparse_fails`    the full statement is false for the code as it is; witnesses for the findings
-/
namespace PV.C11
open PV.Expr

/-! ## 1. the behaviourally extracted table -/

/-- The parenthesisation decisions extracted from the REAL unparser (one rendered expression per
    admissible (slot, child kind) pair, regenerated on every run) coincide with the model's. -/
theorem gen_parenTable_eq : Gen.parenTable = parenTable := by decide +kernel

example : parenTable.length = 1883 := by decide +kernel

/-! ## 2. the model is built from the table, for every expression -/

/-- Whether the model puts a node in parentheses depends only on the level it is rendered at and on
    `kindPrec` of its kind: at level `lvl` the output is the output at the node's own level, wrapped iff
    `lvl > prec`; kinds without a level are rendered identically at every level. -/
theorem unparse_shape (p : Nat → Bool) (e : Expr) (lvl : Nat) :
    (∀ prec, kindPrec (kindOf e) = some prec →
      unparse p e lvl = groupIf (decide (lvl > prec)) (unparse p e prec)) ∧
    (kindPrec (kindOf e) = none → ∀ lvl', unparse p e lvl = unparse p e lvl') :=
  ⟨fun prec h => unparse_group p e lvl prec h, fun h lvl' => unparse_nogroup p e lvl lvl' h⟩

example (p : Nat → Bool) : toks (unparse p (.binOp (.name [97]) .add (.name [98])) Prec.TERM) =
    [.op .lpar, .name [97], .op .plus, .name [98], .op .rpar] := by
  simp [unparse, groupIf, binOpPrec, Prec.TERM, Prec.ARITH, binOpTok, op]

/-- **Every child is rendered at the level its slot has in the table** (`slotLevel`), for every
    constructor of the unparser model.  Together with `unparse_shape` this says that the model's
    parenthesisation of any child of any node is `modelParens slot (kindOf child)`. -/
theorem unparse_slot_levels (p : Nat → Bool) :
    -- operators
    (∀ o v vs first, unparseBool p (v :: vs) (boolOpKw o) (slotLevel (.boolOperand o)) first =
        (if first then [] else [.sp, kw (boolOpKw o), .sp]) ++ unparse p v (slotLevel (.boolOperand o)) ++
          unparseBool p vs (boolOpKw o) (slotLevel (.boolOperand o)) false) ∧
    (∀ o vs, unparse p (.boolOp o vs) (boolOpPrec o) =
        unparseBool p vs (boolOpKw o) (slotLevel (.boolOperand o)) true) ∧
    (∀ l o r, unparse p (.binOp l o r) (binOpPrec o) =
        unparse p l (slotLevel (.binLeft o)) ++ [.sp, op (binOpTok o), .sp] ++ unparse p r (slotLevel (.binRight o))) ∧
    (∀ o x, unparse p (.unaryOp o x) (unaryOpPrec o) = unaryOpOuts o ++ unparse p x (slotLevel (.unaryOperand o))) ∧
    (∀ l ops cs, unparse p (.compare l ops cs) Prec.CMP = unparse p l (slotLevel .cmpLeft) ++ unparseCmps p ops cs) ∧
    (∀ o os c cs, unparseCmps p (o :: os) (c :: cs) =
        [.sp] ++ cmpOpOuts o ++ [.sp] ++ unparse p c (slotLevel .cmpRight) ++ unparseCmps p os cs) ∧
    (∀ t b o, unparse p (.ifExp t b o) Prec.TEST =
        unparse p b (slotLevel .ifBody) ++ [.sp, kw .if, .sp] ++ unparse p t (slotLevel .ifTest) ++
          [.sp, kw .else, .sp] ++ unparse p o (slotLevel .ifOrelse)) ∧
    (∀ x, unparse p (.await x) Prec.AWAIT = [kw .await, .sp] ++ unparse p x (slotLevel .awaitOperand)) ∧
    (∀ t v, unparse p (.namedExpr t v) Prec.TUPLE =
        unparse p t Prec.ATOM ++ [.sp, op .walrus, .sp] ++ unparse p v (slotLevel .namedValue)) ∧
    -- trailers
    (∀ v n lvl, unparse p (.attribute v n) lvl =
        unparse p v (slotLevel .attrValue) ++ (if isIntConst v then [.sp, op .dot] else [op .dot]) ++ [.t (.name n)]) ∧
    (∀ v s lvl, unparse p (.subscript v s) lvl =
        unparse p v (slotLevel .subValue) ++ [op .lsqb] ++ unparse p s (slotLevel .subSlice) ++ [op .rsqb]) ∧
    (∀ v lvl, unparse p (.starred v) lvl = [op .star] ++ unparse p v (slotLevel .starredValue)) ∧
    -- element lists, dict entries, keywords, comprehensions
    (∀ x xs first, unparseSeq p (x :: xs) Prec.TEST first =
        delim first ++ unparse p x (slotLevel .listElt) ++ unparseSeq p xs Prec.TEST false) ∧
    (∀ k v is first, unparseDictItems p (.mk (some k) v :: is) first =
        delim first ++ unparse p k (slotLevel .dictKey) ++ [op .colon, .sp] ++ unparse p v (slotLevel .dictValue) ++
          unparseDictItems p is false) ∧
    (∀ v is first, unparseDictItems p (.mk none v :: is) first =
        delim first ++ [op .dstar] ++ unparse p v (slotLevel .dictUnpack) ++ unparseDictItems p is false) ∧
    (∀ a v ks first, unparseKeywords p (.mk (some a) v :: ks) first =
        delim first ++ [.t (.name a), op .assign] ++ unparse p v (slotLevel .callKwValue) ++ unparseKeywords p ks false) ∧
    (∀ v ks first, unparseKeywords p (.mk none v :: ks) first =
        delim first ++ [op .dstar] ++ unparse p v (slotLevel .callDstarValue) ++ unparseKeywords p ks false) ∧
    (∀ t i ifs a gs, unparseComp p (.mk t i ifs a :: gs) =
        (if a then [.sp, kw .async, .sp, kw .for, .sp] else [.sp, kw .for, .sp]) ++
          unparseTarget p t ++ [.sp, kw .in, .sp] ++ unparse p i (slotLevel .compIter) ++
          unparseIfs p ifs ++ unparseComp p gs) ∧
    -- a comprehension target: a non-empty tuple is written bare (`modelParens .compTarget .tuple = false`), its
    -- elements at the level of slot `compTargetElt`; every other target at the level of slot `compTarget`
    (∀ x xs, unparseTarget p (.tuple (x :: xs)) =
        unparseSeq p (x :: xs) (slotLevel .compTargetElt) true ++ (if xs.isEmpty then [op .comma] else [])) ∧
    (∀ x xs first, unparseSeq p (x :: xs) (slotLevel .compTargetElt) first =
        delim first ++ unparse p x (slotLevel .compTargetElt) ++ unparseSeq p xs (slotLevel .compTargetElt) false) ∧
    (∀ t, (∀ x xs, t ≠ .tuple (x :: xs)) → unparseTarget p t = unparse p t (slotLevel .compTarget)) ∧
    (∀ c cs, unparseIfs p (c :: cs) = [.sp, kw .if, .sp] ++ unparse p c (slotLevel .compIf) ++ unparseIfs p cs) ∧
    (∀ e gs lvl, unparse p (.listComp e gs) lvl =
        [op .lsqb] ++ unparse p e (slotLevel .listCompElt) ++ unparseComp p gs ++ [op .rsqb]) ∧
    (∀ k v gs lvl, unparse p (.dictComp k v gs) lvl =
        [op .lbrace] ++ unparse p k (slotLevel .dictCompKey) ++ [op .colon, .sp] ++
          unparse p v (slotLevel .dictCompValue) ++ unparseComp p gs ++ [op .rbrace]) ∧
    (∀ v lvl, unparse p (.yield (some v)) lvl =
        [op .lpar, kw .yield, .sp] ++ unparse p v (slotLevel .yieldValue) ++ [op .rpar]) ∧
    (∀ v lvl, unparse p (.yieldFrom v) lvl =
        [op .lpar, kw .yield, .sp, kw .from, .sp] ++ unparse p v (slotLevel .yieldFromValue) ++ [op .rpar]) := by
  refine ⟨?_, ?_, ?_, ?_, ?_, ?_, ?_, ?_, ?_, ?_, ?_, ?_, ?_, ?_, ?_, ?_, ?_, ?_, ?_, ?_, ?_, ?_, ?_, ?_, ?_, ?_⟩
  · intro o v vs first; cases first <;> simp [unparseBool, slotLevel]
  · intro o vs; simp [unparse, groupIf, slotLevel]
  · intro l o r; cases o <;> simp [unparse, groupIf, slotLevel]
  · intro o x; simp [unparse, groupIf, slotLevel]
  · intro l ops cs; simp [unparse, groupIf, slotLevel, Prec.CMP]
  · intro o os c cs; simp [unparseCmps, slotLevel]
  · intro t b o; simp [unparse, groupIf, slotLevel, Prec.TEST]
  · intro x; simp [unparse, groupIf, slotLevel, Prec.AWAIT]
  · intro t v; simp [unparse, groupIf, slotLevel, Prec.TUPLE]
  · intro v n lvl; simp [unparse, slotLevel]
  · intro v s lvl; simp [unparse, slotLevel]
  · intro v lvl; simp [unparse, slotLevel]
  · intro x xs first; simp [unparseSeq, slotLevel]
  · intro k v is first; simp [unparseDictItems, slotLevel]
  · intro v is first; simp [unparseDictItems, slotLevel]
  · intro a v ks first; simp [unparseKeywords, slotLevel]
  · intro v ks first; simp [unparseKeywords, slotLevel]
  · intro t i ifs a gs; rw [unparseComp_cons]; cases a <;> simp [slotLevel]
  · intro x xs; cases xs <;> simp [unparseTarget, slotLevel]
  · intro x xs first; simp [unparseSeq, slotLevel]
  · intro t ht
    cases t with
    | tuple es =>
      cases es with
      | nil => simp [unparseTarget, slotLevel]
      | cons x xs => exact absurd rfl (ht x xs)
    | _ => simp [unparseTarget, slotLevel]
  · intro c cs; simp [unparseIfs, slotLevel]
  · intro e gs lvl; simp [unparse, slotLevel]
  · intro k v gs lvl; simp [unparse, slotLevel]
  · intro v lvl; simp [unparse, slotLevel]
  · intro v lvl; simp [unparse, slotLevel]

/-! ## 3. model decision vs grammar requirement, over all (slot, kind) pairs -/

/-- the kinds the grammar cannot derive after `**` in a dict display without parentheses; before /repo
    dc8e40d the unparser wrote them bare there (`{**a or b}`) -/
def dictUnpackLowKinds : List Kind :=
  [.lambda, .ifExp, .boolOp .and, .boolOp .or, .unary .not, .compare]

/-- harmless extra parentheses the unparser writes although the grammar would not need them -/
def overParen (s : Slot) (k : Kind) : Bool :=
  -- a tuple at the top, after `yield`, in an f-string field
  (k == .tuple && (s == .top || s == .yieldValue || s == .fstringField)) ||
  -- `a ** -b`
  (s == .binRight .pow && (k == .unary .invert || k == .unary .uAdd || k == .unary .uSub)) ||
  -- `[(x := 1)]`, `f((x := 1))`
  (k == .namedExpr && slotAllowsBareNamed s && s != .subSlice) ||
  -- `(x := (a + b))`: the value of a named expression is rendered at atom level
  (s == .namedValue && k != .atom && k != .tuple && k != .namedExpr && k != .starred && k != .slice) ||
  -- `f'{(a if b else c)}'`
  (s == .fstringField && k == .ifExp)

def tableOkB : Bool :=
  allSlots.all fun s => allKinds.all fun k =>
    !(admissible s k && needsParens s k) || modelParens s k

def tableExactB : Bool :=
  allSlots.all fun s => allKinds.all fun k =>
    !admissible s k || (modelParens s k == (needsParens s k || overParen s k))

theorem tableOkB_true : tableOkB = true := by decide +kernel
theorem tableExactB_true : tableExactB = true := by decide +kernel

/-- **Soundness of the parenthesisation, all 1883 pairs, no exception**: for every child position `s` and
    every kind of child `k` that can stand there, if the grammar cannot derive the child bare, the unparser
    parenthesises it. -/
theorem prec_table_ok (s : Slot) (k : Kind) (ha : admissible s k = true) (hn : needsParens s k = true) :
    modelParens s k = true := by
  have h := tableOkB_true
  simp only [tableOkB, List.all_eq_true] at h
  have := h s (allSlots_complete s) k (allKinds_complete k)
  simpa [ha, hn] using this

/-- The complete table: the unparser parenthesises exactly when the grammar needs it or in one of the five
    harmless `overParen` families. -/
theorem prec_table_exact (s : Slot) (k : Kind) (ha : admissible s k = true) :
    modelParens s k = (needsParens s k || overParen s k) := by
  have h := tableExactB_true
  simp only [tableExactB, List.all_eq_true] at h
  have := h s (allSlots_complete s) k (allKinds_complete k)
  simpa [ha] using this

/-- Regression for the former finding `{**(a or b)}` → `{**a or b}` (fixed in /repo by dc8e40d): after `**`
    in a dict display the grammar needs parentheses around these six kinds, and the unparser writes them. -/
theorem dict_unpack_regression : ∀ k ∈ dictUnpackLowKinds,
    admissible .dictUnpack k = true ∧ needsParens .dictUnpack k = true ∧ modelParens .dictUnpack k = true := by
  decide

example : needsParens (.binLeft .pow) (.unary .uSub) = true ∧ modelParens (.binLeft .pow) (.unary .uSub) = true := by
  decide

/-- the kinds the grammar cannot derive bare where it reads the target of a comprehension clause (`ExpressionList`:
    elements at `Expression` level) -/
def compTargetLowKinds : List Kind :=
  [.namedExpr, .lambda, .ifExp, .boolOp .and, .boolOp .or, .unary .not, .compare]

/-- Regression for the former finding `[x for (a if b else c) in y]` → `[x for a if b else c in y]` (the parser does
    not validate comprehension targets, and `unparse_comp` wrote them at tuple level; fixed in /repo by
    `unparse_comp_target`): as the target of a comprehension clause and as an element of its bare tuple the grammar
    needs parentheses around these seven kinds, and the unparser writes them; a bare tuple target stays bare. -/
theorem comp_target_regression :
    (∀ k ∈ compTargetLowKinds, ∀ s ∈ [Slot.compTarget, Slot.compTargetElt],
      admissible s k = true ∧ needsParens s k = true ∧ modelParens s k = true) ∧
    (admissible .compTarget .tuple = true ∧ needsParens .compTarget .tuple = false ∧
      modelParens .compTarget .tuple = false) ∧
    (admissible .compTargetElt .tuple = true ∧ needsParens .compTargetElt .tuple = true ∧
      modelParens .compTargetElt .tuple = true) := by
  decide

/-! ## 4. the round trip -/

/-- The property for the model, full strength: every tree the parser can produce is read back from the
    tokens of its rendering, by every sufficiently large fuel, with nothing left over. -/
def parse_unparse_full : Prop :=
  ∀ (p : Nat → Bool) (e : Expr), WF e →
    ∃ n, ∀ fuel, n ≤ fuel → parseRef fuel (toks (display p e)) = some (eraseCtx e, [])

/-- **Round trip on the extended fragment.**  For every expression built from names, constants of every kind,
    attribute / subscript / call trailers — subscripts with slices, tuples of slices, starred elements and bare named
    expressions, calls with positional, starred, keyword and `**` arguments and the bare generator argument —,
    list / tuple / set displays with starred elements, dict displays with `key: value` and `**value` entries,
    `await`, `yield` (also with a starred value), `yield from`, `and`/`or` chains, the four unary and thirteen binary
    operators, comparison chains, conditional expressions, **lambda** with every parameter kind (positional-only `/`,
    defaults, `*args`, keyword-only, `**kw`), the four **comprehension** forms with any number of `for` / `if` clauses,
    `async` and ANY target the parser reads there (it does not check that the target can be assigned to: a conditional,
    lambda, `and` / `or` / `not`, comparison or named expression — in parentheses in the source —, a starred name, a
    bare tuple of all these), and **named expressions** — nested arbitrarily, of any size — the
    reference parser reads the token sequence of the unparser model's output back as the same tree and consumes all
    of it.  (`p` is the printable-character table; it only influences the text of string tokens.)
    Side conditions of `InFragmentX` (`fx`, lean/PV/C11/Fragment.lean) beyond the grammar's shape: the checks the
    parser itself makes when it builds a lambda (no default-less positional parameter after a defaulted one, distinct
    parameter names) and a call (distinct keyword names). -/
theorem parse_unparse_partial (p : Nat → Bool) (e : Expr) (h : InFragmentX e) :
    ∃ n, ∀ fuel, n ≤ fuel → parseRef fuel (toks (display p e)) = some (eraseCtx e, []) := by
  have := (goodX p e h).good.rt 1 [] (Nat.le_refl _) (by omega) (Stop.nil _)
  rw [parseAt_1, List.append_nil] at this
  exact this

/-- the same statement with an operand context: at every level, followed by any input that does not
    continue the expression -/
theorem parse_unparse_partial_atX (p : Nat → Bool) (e : Expr) (h : InFragmentX e) (lvl : Nat)
    (rest : List Tok) (h1 : 1 ≤ lvl) (h15 : lvl ≤ 15) (hs : Stop lvl rest) :
    ∃ n, ∀ fuel, n ≤ fuel → parseAt lvl fuel (toks (unparse p e lvl) ++ rest) = some (e, rest) :=
  (goodX p e h).good.rt lvl rest h1 h15 hs

/-- … and on the operator core `InFragment` (the form PV.C08.Paren and PV.Prog.RenderLemmas use) -/
theorem parse_unparse_partial_at (p : Nat → Bool) (e : Expr) (h : InFragment e) (lvl : Nat)
    (rest : List Tok) (h1 : 1 ≤ lvl) (h15 : lvl ≤ 15) (hs : Stop lvl rest) :
    ∃ n, ∀ fuel, n ≤ fuel → parseAt lvl fuel (toks (unparse p e lvl) ++ rest) = some (e, rest) :=
  (rt_all p e h).rt lvl rest h1 h15 hs

/-- the operator core lies in the extended fragment -/
theorem inFragment_sub (e : Expr) (h : InFragment e) : InFragmentX e := inFrag_fx e h

/-- **A comprehension target may be anything an element of a display may be** (an operand of the fragment, a starred
    operand, a tuple of these): the fragment puts no restriction of its own on targets any more — before /repo's repair
    of `unparse_comp`, conditionals, lambdas, `and` / `or` / `not`, comparisons and named expressions were excluded
    there, alone and as elements of the bare tuple. -/
theorem fx_target_eq_elem (e : Expr) : fx .target e = fx .elem e ∧ fx .targetElem e = fx .elem e := by
  have hl : ∀ es : List Expr, fxList .targetElem es = fxList .elem es := by
    intro es
    induction es with
    | nil => rfl
    | cons x xs ih =>
      have hx : fx .targetElem x = fx .elem x := by
        cases x with
        | yield v => cases v <;> simp [fx]
        | _ => simp [fx, XPos.tupleElem] <;> rfl
      simp [fxList, hx, ih]
  constructor
  · cases e with
    | yield v => cases v <;> simp [fx]
    | _ => simp [fx, XPos.tupleElem, hl] <;> rfl
  · cases e with
    | yield v => cases v <;> simp [fx]
    | _ => simp [fx, XPos.tupleElem] <;> rfl

/-- `-2 ** (-x) < (a if b else c) or not y['k'].g((1,), [], {z, b'\\x00'})` — in the operator core: unary/power
    interplay, a parenthesised conditional, a boolean chain, trailers, displays, literals -/
def sampleExpr : Expr :=
  .boolOp .or
    [.compare (.unaryOp .uSub (.binOp (.const (.int 2)) .pow (.unaryOp .uSub (.name [120])))) [.lt]
       [.ifExp (.name [98]) (.name [97]) (.name [99])],
     .unaryOp .not (.call (.attribute (.subscript (.name [121]) (.const (.str [107] false))) [103])
       [.tuple [.const (.int 1)], .list [], .set [.name [122], .const (.bytes [0])]] [])]

example : InFragment sampleExpr := by decide
example : InFragmentX sampleExpr := by decide
example : WF sampleExpr := by decide
example : parseRef 64 (toks (display (fun _ => true) sampleExpr)) = some (sampleExpr, []) := by rfl

/-- `f(*a, k=lambda p, /, q=1, *r, s, t=2, **u: [x async for x, *y in z if w if v for m in n], **o)[a:b, ::c, *d, (e := 1)]`
    — in the extended fragment: starred / keyword / `**` arguments, a lambda with every parameter kind, a list
    comprehension with two clauses (the first `async`, with a bare tuple target containing a starred name and two
    conditions), a tuple index made of two slices, a starred element and a named expression -/
def sampleExprX : Expr :=
  .subscript
    (.call (.name [102]) [.starred (.name [97])]
      [.mk (some [107])
         (.lambda [.mk [112] none] [.mk [113] (some (.const (.int 1)))] (some [114])
            [.mk [115] none, .mk [116] (some (.const (.int 2)))] (some [117])
            (.listComp (.name [120])
              [.mk (.tuple [.name [120], .starred (.name [121])]) (.name [122]) [.name [119], .name [118]] true,
               .mk (.name [109]) (.name [110]) [] false])),
       .mk none (.name [111])])
    (.tuple [.slice (some (.name [97])) (some (.name [98])) none, .slice none none (some (.name [99])),
             .starred (.name [100]), .namedExpr (.name [101]) (.const (.int 1))])

example : InFragmentX sampleExprX := by decide
example : ¬ InFragment sampleExprX := by decide
example : WF sampleExprX := by decide
example : parseRef 200 (toks (display (fun _ => true) sampleExprX)) = some (sampleExprX, []) := by rfl

/-- `{k: v async for (a if b else c), (lambda: d), *e, (f := 1), (g, h) in y for (not a) in z for (a < b or c), in w}`
    — comprehension targets that are not assignment targets (the parser builds them all the same): a bare tuple of a
    conditional, a lambda, a starred name, a named expression and a nested tuple; a `not`; a 1-tuple of an `or` of a
    comparison.  In the fragment since /repo's repair of `unparse_comp` -/
def sampleTargets : Expr :=
  .dictComp (.name [107]) (.name [118])
    [.mk (.tuple [.ifExp (.name [98]) (.name [97]) (.name [99]), .lambda [] [] none [] none (.name [100]),
                  .starred (.name [101]), .namedExpr (.name [102]) (.const (.int 1)),
                  .tuple [.name [103], .name [104]]]) (.name [121]) [] true,
     .mk (.unaryOp .not (.name [97])) (.name [122]) [] false,
     .mk (.tuple [.boolOp .or [.compare (.name [97]) [.lt] [.name [98]], .name [99]]]) (.name [119]) [] false]

/-- the tokens of its rendering: every low-precedence target (element) in parentheses, the tuples bare -/
def sampleTargetsToks : List Tok :=
  [.op .lbrace, .name [107], .op .colon, .name [118], .kw .async, .kw .for,
   .op .lpar, .name [97], .kw .if, .name [98], .kw .else, .name [99], .op .rpar, .op .comma,
   .op .lpar, .kw .lambda, .op .colon, .name [100], .op .rpar, .op .comma,
   .op .star, .name [101], .op .comma,
   .op .lpar, .name [102], .op .walrus, .int 1, .op .rpar, .op .comma,
   .op .lpar, .name [103], .op .comma, .name [104], .op .rpar, .kw .in, .name [121],
   .kw .for, .op .lpar, .kw .not, .name [97], .op .rpar, .kw .in, .name [122],
   .kw .for, .op .lpar, .name [97], .op .lt, .name [98], .kw .or, .name [99], .op .rpar, .op .comma, .kw .in, .name [119],
   .op .rbrace]

example : InFragmentX sampleTargets := by decide
example : WF sampleTargets := by decide
example : toks (display (fun _ => true) sampleTargets) = sampleTargetsToks := by decide
example : parseRef 200 sampleTargetsToks = some (sampleTargets, []) := by rfl

mutual
theorem inFrag_wf_aux : (e : Expr) → inFrag e = true → ∀ pos, wf pos e = true
  | .name _, _, _ => by simp [wf]
  | .const _, _, _ => by simp [wf]
  | .attribute v _, h, pos => by simp [inFrag] at h; simp [wf, inFrag_wf_aux v h]
  | .dict items, h, pos => by simp [inFrag] at h; simp [wf, inFragItems_wf_aux items h]
  | .await v, h, pos => by simp [inFrag] at h; simp [wf, inFrag_wf_aux v h]
  | .yield none, _, _ => by simp [wf]
  | .yield (some v), h, pos => by simp [inFrag] at h; simp [wf, inFrag_wf_aux v h]
  | .yieldFrom v, h, pos => by simp [inFrag] at h; simp [wf, inFrag_wf_aux v h]
  | .list es, h, pos => by simp [inFrag] at h; simp [wf, inFragList_wf_aux es h]
  | .tuple es, h, pos => by simp [inFrag] at h; simp [wf, inFragList_wf_aux es h]
  | .set es, h, pos => by simp [inFrag] at h; simp [wf, h.1, inFragList_wf_aux es h.2]
  | .call fn args [], h, pos => by
    simp [inFrag] at h; simp [wf, wfKeywords, inFrag_wf_aux fn h.1, inFragList_wf_aux args h.2]
  | .subscript v s, h, pos => by
    simp [inFrag] at h
    simp [wf, inFrag_wf_aux v h.1.1, inFrag_wf_aux s h.1.2]
  | .boolOp o vs, h, pos => by
    simp [inFrag] at h
    simp [wf, h.1, inFragList_wf_aux vs h.2]
  | .unaryOp o x, h, pos => by simp [inFrag] at h; simp [wf, inFrag_wf_aux x h]
  | .binOp l o r, h, pos => by simp [inFrag] at h; simp [wf, inFrag_wf_aux l h.1, inFrag_wf_aux r h.2]
  | .compare l ops cs, h, pos => by
    simp [inFrag] at h
    simp [wf, inFrag_wf_aux l h.1.1.1, h.1.1.2, h.1.2, inFragList_wf_aux cs h.2]
  | .ifExp t b o, h, pos => by
    simp [inFrag] at h
    simp [wf, inFrag_wf_aux t h.1.1, inFrag_wf_aux b h.1.2, inFrag_wf_aux o h.2]
  | .namedExpr .., h, _ | .lambda .., h, _ | .listComp .., h, _
  | .setComp .., h, _ | .dictComp .., h, _ | .genExp .., h, _
  | .call _ _ (_ :: _), h, _ | .formattedValue .., h, _ | .joinedStr .., h, _
  | .starred .., h, _
  | .slice .., h, _ => by simp [inFrag] at h
theorem inFragItems_wf_aux : (is : List DictItem) → inFragItems is = true → wfItems is = true
  | [], _ => by simp [wfItems]
  | .mk none v :: is, h => by
    simp [inFragItems] at h
    simp [wfItems, wfOpt, inFrag_wf_aux v h.1, inFragItems_wf_aux is h.2]
  | .mk (some k) v :: is, h => by
    simp [inFragItems] at h
    simp [wfItems, wfOpt, inFrag_wf_aux k h.1.1, inFrag_wf_aux v h.1.2, inFragItems_wf_aux is h.2]
theorem inFragList_wf_aux : (es : List Expr) → inFragList es = true → ∀ pos, wfList pos es = true
  | [], _, _ => by simp [wfList]
  | e :: es, h, pos => by
    simp [inFragList] at h
    simp [wfList, inFrag_wf_aux e h.1, inFragList_wf_aux es h.2]
end

/-- every expression of the operator core is a tree the parser can produce -/
theorem inFrag_wf (e : Expr) (h : InFragment e) : WF e := inFrag_wf_aux e h .elem

/-- every expression of the extended fragment is a tree the parser can produce: `parse_unparse_partial` is an
    instance of `parse_unparse_full` -/
theorem inFragX_wf (e : Expr) (h : InFragmentX e) : WF e := by
  have h1 := fx_wf_aux e .plain h
  cases e with
  | starred v => simp [InFragmentX, fx] at h
  | slice a b c => simp [InFragmentX, fx] at h
  | yield v => cases v <;> simpa [WF, wf, posOf] using h1
  | _ => simpa [WF, wf, posOf] using h1

/-- **Rendering is a fixed point** (corollary): on the extended fragment, rendering the re-parsed tree gives the
    same text. -/
theorem unparse_fixpoint (p : Nat → Bool) (e : Expr) (h : InFragmentX e) :
    ∃ n, ∀ fuel, n ≤ fuel → ∃ e', parseRef fuel (toks (display p e)) = some (e', []) ∧
      displayText p e' = displayText p e := by
  obtain ⟨n, hn⟩ := parse_unparse_partial p e h
  exact ⟨n, fun fuel hf => ⟨e, hn fuel hf, rfl⟩⟩

/-! ## 5. where the unchanged code is wrong -/

/-- `{**(a or b)}` — the former finding, now inside `InFragment` -/
def dictWitness : Expr := .dict [.mk none (.boolOp .or [.name [97], .name [98]])]

/-- `{`, `**`, `(`, `a`, `or`, `b`, `)`, `}` -/
def dictWitnessToks : List Tok :=
  [.op .lbrace, .op .dstar, .op .lpar, .name [97], .kw .or, .name [98], .op .rpar, .op .rbrace]

/-- Regression: the repaired unparser renders `{**(a or b)}` with its parentheses, and the tree is in the
    proved fragment (so `parse_unparse_partial` applies to it). -/
theorem dict_unpack_roundtrip (p : Nat → Bool) :
    toks (display p dictWitness) = dictWitnessToks ∧ InFragment dictWitness ∧
      parseRef 64 dictWitnessToks = some (dictWitness, []) := by
  refine ⟨?_, by decide, by rfl⟩
  simp [display, dictWitness, dictWitnessToks, unparse, unparseDictItems, unparseBool, toks, groupIf,
    delim, boolOpPrec, boolOpKw, Prec.TEST, Prec.OR, Prec.EXPR, Prec.BOR, op, kw]

/-- `[x for (a if b else c), (lambda: d) in y]` — the former finding, now inside `InFragmentX` -/
def compTargetWitness : Expr :=
  .listComp (.name [120])
    [.mk (.tuple [.ifExp (.name [98]) (.name [97]) (.name [99]), .lambda [] [] none [] none (.name [100])])
       (.name [121]) [] false]

/-- `[`, `x`, `for`, `(`, `a`, `if`, `b`, `else`, `c`, `)`, `,`, `(`, `lambda`, `:`, `d`, `)`, `in`, `y`, `]` -/
def compTargetWitnessToks : List Tok :=
  [.op .lsqb, .name [120], .kw .for, .op .lpar, .name [97], .kw .if, .name [98], .kw .else, .name [99], .op .rpar,
   .op .comma, .op .lpar, .kw .lambda, .op .colon, .name [100], .op .rpar, .kw .in, .name [121], .op .rsqb]

/-- Regression: the repaired unparser renders `[x for (a if b else c), (lambda: d) in y]` with the parentheses of
    both target elements (it used to write `[x for a if b else c, lambda: d in y]`, which does not parse), the tree is
    in the proved fragment (so `parse_unparse_partial` applies to it), and the tokens read back as the tree. -/
theorem comp_target_roundtrip (p : Nat → Bool) :
    toks (display p compTargetWitness) = compTargetWitnessToks ∧ InFragmentX compTargetWitness ∧
      parseRef 64 compTargetWitnessToks = some (compTargetWitness, []) := by
  refine ⟨?_, by decide, by rfl⟩
  simp [display, compTargetWitness, compTargetWitnessToks, unparse, unparseComp, unparseSeq, unparseIfs,
    unparsePosParams, unparseKwonly, toks, groupIf, delim, Prec.TEST, Prec.EXPR, Prec.BOR, op, kw]

/-- Regression (text level, shared with C17): the constant `0.9999999999999999` (bits `3fefffffffffffff`,
    `1 - 2^-53`) used to be rendered `1.0` (`is_integer` compared with `EPSILON`; fixed in /repo by 5be0365);
    the model of the repaired `to_string` renders text that lexes back to the same constant. -/
theorem float_near_one_roundtrip :
    lex (displayText (fun _ => true) (.const (.float 0x3FEFFFFFFFFFFFFF))) = some [.float 0x3FEFFFFFFFFFFFFF] := by
  decide +kernel

/-- `f'''{d['a']}"'''` -/
def fstrWitness : Expr :=
  .joinedStr [.formattedValue (.subscript (.name [100]) (.const (.str [97] false))) 0 none,
              .const (.str [34] false)]

/-- the model's rendering, one f-string token: `f'{d[\'a\']}"'` -/
def fstrWitnessTok : Tok := .fstr 39 false false [123, 100, 91, 92, 39, 97, 92, 39, 93, 125, 34]

theorem fstrWitness_toks (p : Nat → Bool) : toks (display p fstrWitness) = [fstrWitnessTok] := by
  simp [display, fstrWitness, unparse, fstringBody, fstringElem, fstringSpec, formattedText, fstrTok, text, Tok.text,
    toks, Prec.TEST, constTok, op, Op.text, ascii, convText, fstringStr, fstrWitnessTok,
    PV.C16.strRepr, PV.C16.strReprPref, PV.C16.uWrite, PV.C16.uReprLayout, PV.C16.layoutGo, PV.C16.chooseQuote,
    PV.C16.uEscapedCharLen, PV.C16.lengthAdd, PV.C16.isizeMax, PV.C16.uBody, PV.C16.uChanged, PV.C16.utf8LenList,
    PV.C16.utf8Len, PV.C16.uBodySlow, PV.C16.uWriteChar, PV.C16.Quote.toChar]

theorem fstrWitness_none : ∀ fuel, parseRef fuel [fstrWitnessTok] = none := by
  have hField : ∀ f, fstrField f false 0 [100, 91, 92, 39, 97, 92, 39, 93, 125, 34] = none := by
    intro f
    cases f with
    | zero => simp [fstrField]
    | succ f =>
      have : scanField 11 {} [100, 91, 92, 39, 97, 92, 39, 93, 125, 34] = none := by decide +kernel
      simp [fstrField, this]
  have hBody : ∀ f, fstrBody f false 0 [123, 100, 91, 92, 39, 97, 92, 39, 93, 125, 34] [] = none := by
    intro f; cases f <;> simp [fstrBody, hField]
  have hPieces : ∀ f, parseStringPieces f [fstrWitnessTok] = none := by
    intro f; cases f <;> simp [parseStringPieces, fstrWitnessTok, hBody]
  have hStr : ∀ f, parseStrings f [fstrWitnessTok] = none := by
    intro f
    cases f with
    | zero => simp [parseStrings]
    | succ f =>
      have := hPieces f
      simp [fstrWitnessTok] at this
      simp [parseStrings, fstrWitnessTok, List.takeWhile, isStringTok, this]
  have hAtom : ∀ f, parseAtom f [fstrWitnessTok] = none := by
    intro f
    cases f with
    | zero => simp [parseAtom]
    | succ f => have := hStr f; simp [fstrWitnessTok] at this; simp [parseAtom, fstrWitnessTok, this]
  exact parseTest_none_of_atom_none hAtom (by simp [fstrWitnessTok]) (by simp [fstrWitnessTok])
    (by simp [fstrWitnessTok]) (by simp [fstrWitnessTok, unaryOpAt])

/-- Witness: the tree of `f'''{d['a']}"'''` is well-formed; the model escapes the whole body, putting
    backslashes inside the replacement field; no fuel makes the reference parser accept the result. -/
theorem fstring_witness (p : Nat → Bool) :
    WF fstrWitness ∧ ∀ fuel, parseRef fuel (toks (display p fstrWitness)) = none := by
  refine ⟨by decide, fun fuel => ?_⟩
  rw [fstrWitness_toks]
  exact fstrWitness_none fuel

/-- The full statement does not hold for the unparser as it is. -/
theorem parse_unparse_fails : ¬ parse_unparse_full := by
  intro h
  obtain ⟨n, hn⟩ := h (fun _ => true) fstrWitness (fstring_witness (fun _ => true)).1
  have := hn n (Nat.le_refl _)
  rw [(fstring_witness (fun _ => true)).2 n] at this
  cases this

end PV.C11
