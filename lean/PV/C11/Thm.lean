import PV.C11.Model
import PV.C11.Spec
import PV.C11.Fragment
import PV.C11.Lemmas
import PV.Gen.C11Tables
/-
  C11 — property theorems.  "Unparsing an expression and parsing it again gives the same expression."

  Reading guide (helper lemmas are in `PV/C11/Lemmas.lean`):

  * model  `unparse p e level : List Out`, `display p e = unparse p e Prec.TEST`  (`ast/src/unparse.rs`),
           `toks : List Out → List Tok` its token sequence, `displayText` its text;
  * spec   `parseRef fuel ts : Option (Expr × List Tok)`  (reference parser written from python.lalrpop),
           `needsParens slot kind` (which children the grammar cannot derive bare), `WF e`;
  * tables `kindPrec` / `slotLevel` / `modelParens` (model), `Gen.parenTable` (extracted from the real code).

  1. `gen_parenTable_eq`      real unparser's parenthesisation decisions = the model's, all 1831 admissible pairs
  2. `unparse_shape`          for EVERY expression the model parenthesises exactly by `level > kindPrec`
  3. `prec_table_ok`          wherever the grammar needs parentheses the model writes them, except six pairs
     `prec_table_exact`       … and the model's decision is exactly: needed, or one of five harmless families
     `dict_unpack_defect`     the six pairs: needed, not written
  4. `parse_unparse_partial`  round trip for every expression of the operator core, `unparse_fixpoint`
  5. `parse_unparse_fails`    the full statement is false for the code as it is; witnesses for each finding
-/
namespace PV.C11
open PV.Expr

/-! ## 1. the behaviourally extracted table -/

/-- The parenthesisation decisions extracted from the REAL unparser (one rendered expression per
    admissible (slot, child kind) pair, regenerated on every run) coincide with the model's. -/
theorem gen_parenTable_eq : Gen.parenTable = parenTable := by decide +kernel

example : parenTable.length = 1831 := by decide +kernel

/-! ## 2. the model is built from the table, for every expression -/

/-- Whether the model puts a node in parentheses depends only on the level it is rendered at and on
    `kindPrec` of its kind: at level `lvl` the output is the output at the node's own level, wrapped iff
    `lvl > prec`; kinds without a level are rendered identically at every level. -/
theorem unparse_shape (p : Nat → Bool) (e : Expr) (lvl : Nat) :
    (∀ prec, kindPrec (kindOf e) = some prec →
      unparse p e lvl = groupIf (decide (lvl > prec)) (unparse p e prec)) ∧
    (kindPrec (kindOf e) = none → ∀ lvl', unparse p e lvl = unparse p e lvl') :=
  ⟨fun prec h => unparse_group p e lvl prec h, fun h lvl' => unparse_nogroup p e lvl lvl' h⟩

example (p : Nat → Bool) : toks (unparse p (.binOp (.name [97]) .add (.name [98])) Prec.TERM) =
    [.op .lpar, .name [97], .op .plus, .name [98], .op .rpar] := by
  simp [unparse, groupIf, binOpPrec, Prec.TERM, Prec.ARITH, binOpTok, op]

/-! ## 3. model decision vs grammar requirement, over all (slot, kind) pairs -/

/-- the kinds the grammar cannot derive after `**` in a dict display without parentheses, but which the
    unparser writes bare there -/
def dictUnpackDefects : List Kind :=
  [.lambda, .ifExp, .boolOp .and, .boolOp .or, .unary .not, .compare]

/-- harmless extra parentheses the unparser writes although the grammar would not need them -/
def overParen (s : Slot) (k : Kind) : Bool :=
  -- a tuple at the top, after `yield`, in an f-string field
  (k == .tuple && (s == .top || s == .yieldValue || s == .fstringField)) ||
  -- `a ** -b`
  (s == .binRight .pow && (k == .unary .invert || k == .unary .uAdd || k == .unary .uSub)) ||
  -- `[(x := 1)]`, `f((x := 1))`
  (k == .namedExpr && slotAllowsBareNamed s && s != .subSlice) ||
  -- `(x := (a + b))`: the value of a named expression is rendered at atom level
  (s == .namedValue && k != .atom && k != .tuple && k != .namedExpr && k != .starred && k != .slice) ||
  -- `f'{(a if b else c)}'`
  (s == .fstringField && k == .ifExp)

def tableOkB : Bool :=
  allSlots.all fun s => allKinds.all fun k =>
    !(admissible s k && needsParens s k) || modelParens s k ||
      (s == .dictUnpack && dictUnpackDefects.contains k)

def tableExactB : Bool :=
  allSlots.all fun s => allKinds.all fun k =>
    !admissible s k ||
      (modelParens s k ==
        ((needsParens s k || overParen s k) && !(s == .dictUnpack && dictUnpackDefects.contains k)))

theorem tableOkB_true : tableOkB = true := by decide +kernel
theorem tableExactB_true : tableExactB = true := by decide +kernel

/-- Soundness of the parenthesisation: for every child position `s` and every kind of child `k` that can
    stand there, if the grammar cannot derive the child bare, the unparser parenthesises it —
    except for the six `dictUnpack` pairs. -/
theorem prec_table_ok (s : Slot) (k : Kind) (ha : admissible s k = true) (hn : needsParens s k = true) :
    modelParens s k = true ∨ (s = .dictUnpack ∧ k ∈ dictUnpackDefects) := by
  have h := tableOkB_true
  simp only [tableOkB, List.all_eq_true] at h
  have := h s (allSlots_complete s) k (allKinds_complete k)
  simp only [ha, hn, Bool.and_self, Bool.not_true, Bool.false_or, Bool.or_eq_true, Bool.and_eq_true,
    beq_iff_eq, List.contains_iff_mem] at this
  exact this

/-- The complete table: the unparser parenthesises exactly when the grammar needs it or in one of the five
    harmless `overParen` families — and never in the six defect pairs. -/
theorem prec_table_exact (s : Slot) (k : Kind) (ha : admissible s k = true) :
    modelParens s k =
      ((needsParens s k || overParen s k) && !(s == .dictUnpack && dictUnpackDefects.contains k)) := by
  have h := tableExactB_true
  simp only [tableExactB, List.all_eq_true] at h
  have := h s (allSlots_complete s) k (allKinds_complete k)
  simpa [ha] using this

/-- The defect, as a statement about the tables: after `**` in a dict display the grammar needs
    parentheses around these six kinds and the unparser writes none. -/
theorem dict_unpack_defect : ∀ k ∈ dictUnpackDefects,
    admissible .dictUnpack k = true ∧ needsParens .dictUnpack k = true ∧ modelParens .dictUnpack k = false := by
  decide

example : needsParens (.binLeft .pow) (.unary .uSub) = true ∧ modelParens (.binLeft .pow) (.unary .uSub) = true := by
  decide

/-! ## 4. the round trip -/

/-- The property for the model, full strength: every tree the parser can produce is read back from the
    tokens of its rendering, by every sufficiently large fuel, with nothing left over. -/
def parse_unparse_full : Prop :=
  ∀ (p : Nat → Bool) (e : Expr), WF e →
    ∃ n, ∀ fuel, n ≤ fuel → parseRef fuel (toks (display p e)) = some (eraseCtx e, [])

/-- **Round trip on the operator core.**  For every expression built from names, numeric / `None` /
    `True` / `False` / `...` constants, `and`/`or` chains, the four unary and thirteen binary operators,
    comparison chains and conditional expressions — nested arbitrarily, of any size — the reference parser
    reads the token sequence of the unparser model's output back as the same tree and consumes all of it.
    (`p` is the printable-character table, irrelevant here.) -/
theorem parse_unparse_partial (p : Nat → Bool) (e : Expr) (h : InFragment e) :
    ∃ n, ∀ fuel, n ≤ fuel → parseRef fuel (toks (display p e)) = some (eraseCtx e, []) := by
  have := (rt_all p e h).rt 1 [] (Nat.le_refl _) (by omega) (Stop.nil _)
  rw [parseAt_1, List.append_nil] at this
  exact this

/-- the same statement with an operand context: at every level, followed by any input that does not
    continue the expression -/
theorem parse_unparse_partial_at (p : Nat → Bool) (e : Expr) (h : InFragment e) (lvl : Nat)
    (rest : List Tok) (h1 : 1 ≤ lvl) (h15 : lvl ≤ 15) (hs : Stop lvl rest) :
    ∃ n, ∀ fuel, n ≤ fuel → parseAt lvl fuel (toks (unparse p e lvl) ++ rest) = some (e, rest) :=
  (rt_all p e h).rt lvl rest h1 h15 hs

/-- `-2 ** -x < (a if b else c) or not y` — in the fragment, with right-associative `**`, unary/power
    interplay, a parenthesised conditional and a boolean chain -/
def sampleExpr : Expr :=
  .boolOp .or
    [.compare (.unaryOp .uSub (.binOp (.const (.int 2)) .pow (.unaryOp .uSub (.name [120])))) [.lt]
       [.ifExp (.name [98]) (.name [97]) (.name [99])],
     .unaryOp .not (.name [121])]

example : InFragment sampleExpr := by decide
example : WF sampleExpr := by decide
example : parseRef 64 (toks (display (fun _ => true) sampleExpr)) = some (sampleExpr, []) := by rfl

mutual
theorem inFrag_wf_aux : (e : Expr) → inFrag e = true → ∀ pos, wf pos e = true
  | .name _, _, _ => by simp [wf]
  | .const _, _, _ => by simp [wf]
  | .attribute v _, h, pos => by simp [inFrag] at h; simp [wf, inFrag_wf_aux v h]
  | .boolOp o vs, h, pos => by
    simp [inFrag] at h
    simp [wf, h.1, inFragList_wf_aux vs h.2]
  | .unaryOp o x, h, pos => by simp [inFrag] at h; simp [wf, inFrag_wf_aux x h]
  | .binOp l o r, h, pos => by simp [inFrag] at h; simp [wf, inFrag_wf_aux l h.1, inFrag_wf_aux r h.2]
  | .compare l ops cs, h, pos => by
    simp [inFrag] at h
    simp [wf, inFrag_wf_aux l h.1.1.1, h.1.1.2, h.1.2, inFragList_wf_aux cs h.2]
  | .ifExp t b o, h, pos => by
    simp [inFrag] at h
    simp [wf, inFrag_wf_aux t h.1.1, inFrag_wf_aux b h.1.2, inFrag_wf_aux o h.2]
  | .namedExpr .., h, _ | .lambda .., h, _ | .dict .., h, _ | .set .., h, _ | .listComp .., h, _
  | .setComp .., h, _ | .dictComp .., h, _ | .genExp .., h, _ | .await .., h, _ | .yield .., h, _
  | .yieldFrom .., h, _ | .call .., h, _ | .formattedValue .., h, _ | .joinedStr .., h, _
  | .subscript .., h, _ | .starred .., h, _ | .list .., h, _ | .tuple .., h, _
  | .slice .., h, _ => by simp [inFrag] at h
theorem inFragList_wf_aux : (es : List Expr) → inFragList es = true → ∀ pos, wfList pos es = true
  | [], _, _ => by simp [wfList]
  | e :: es, h, pos => by
    simp [inFragList] at h
    simp [wfList, inFrag_wf_aux e h.1, inFragList_wf_aux es h.2]
end

/-- every expression of the fragment is a tree the parser can produce: `parse_unparse_partial` is an
    instance of `parse_unparse_full` -/
theorem inFrag_wf (e : Expr) (h : InFragment e) : WF e := inFrag_wf_aux e h .elem

/-- **Rendering is a fixed point** (corollary): on the fragment, rendering the re-parsed tree gives the
    same text. -/
theorem unparse_fixpoint (p : Nat → Bool) (e : Expr) (h : InFragment e) :
    ∃ n, ∀ fuel, n ≤ fuel → ∃ e', parseRef fuel (toks (display p e)) = some (e', []) ∧
      displayText p e' = displayText p e := by
  obtain ⟨n, hn⟩ := parse_unparse_partial p e h
  exact ⟨n, fun fuel hf => ⟨e, hn fuel hf, rfl⟩⟩

/-! ## 5. where the unchanged code is wrong -/

/-- `{**(a or b)}` -/
def dictWitness : Expr := .dict [.mk none (.boolOp .or [.name [97], .name [98]])]

/-- `{`, `**`, `a`, `or`, `b`, `}` -/
def dictWitnessToks : List Tok :=
  [.op .lbrace, .op .dstar, .name [97], .kw .or, .name [98], .op .rbrace]

theorem dictWitness_toks (p : Nat → Bool) : toks (display p dictWitness) = dictWitnessToks := by
  simp [display, dictWitness, dictWitnessToks, unparse, unparseDictItems, unparseBool, toks, groupIf,
    delim, boolOpPrec, boolOpKw, Prec.TEST, Prec.OR, op, kw]

theorem dictWitness_small : ∀ fuel, fuel < 40 → parseRef fuel dictWitnessToks = none := by decide +kernel

theorem dictWitness_large (f : Nat) : parseRef (f + 40) dictWitnessToks = none := by
  simp [parseRef, dictWitnessToks, parseTest, parseOrTest, parseAndTest, parseNotTest, parseCmp, parseBin,
    parseBinLoop, parseFactor, parsePower, parseAtomExpr, parseAtomExpr2, parseAtom, parseBraceAtom, parseTrailers,
    parseDictRest, binOpAt, unaryOpAt]

/-- Witness 1: the tree of `{**(a or b)}` is well-formed, the model renders it as `{**a or b}`, and no
    fuel makes the reference parser accept that. -/
theorem dict_unpack_witness (p : Nat → Bool) :
    WF dictWitness ∧ ∀ fuel, parseRef fuel (toks (display p dictWitness)) = none := by
  refine ⟨by decide, fun fuel => ?_⟩
  rw [dictWitness_toks]
  by_cases h : fuel < 40
  · exact dictWitness_small fuel h
  · obtain ⟨f, rfl⟩ : ∃ f, fuel = f + 40 := ⟨fuel - 40, by omega⟩
    exact dictWitness_large f

/-- The full statement does not hold for the unparser as it is. -/
theorem parse_unparse_fails : ¬ parse_unparse_full := by
  intro h
  obtain ⟨n, hn⟩ := h (fun _ => true) dictWitness (dict_unpack_witness (fun _ => true)).1
  have := hn n (Nat.le_refl _)
  rw [(dict_unpack_witness (fun _ => true)).2 n] at this
  cases this

/-- Witness 2 (text level, shared with C17): the constant `0.9999999999999999` (bits `3fefffffffffffff`)
    is rendered as text that lexes back to `1.0` (bits `3ff0000000000000`). -/
theorem float_witness :
    lex (displayText (fun _ => true) (.const (.float 0x3FEFFFFFFFFFFFFF))) = some [.float 0x3FF0000000000000] := by
  decide +kernel

/-- `f'''{d['a']}"'''` -/
def fstrWitness : Expr :=
  .joinedStr [.formattedValue (.subscript (.name [100]) (.const (.str [97] false))) 0 none,
              .const (.str [34] false)]

/-- the model's rendering, one f-string token: `f'{d[\'a\']}"'` -/
def fstrWitnessTok : Tok := .fstr 39 false false [123, 100, 91, 92, 39, 97, 92, 39, 93, 125, 34]

theorem fstrWitness_toks (p : Nat → Bool) : toks (display p fstrWitness) = [fstrWitnessTok] := by
  simp [display, fstrWitness, unparse, fstringBody, fstringElem, fstringSpec, formattedText, fstrTok, text, Tok.text,
    toks, Prec.TEST, constTok, op, Op.text, ascii, convText, fstringStr, fstrWitnessTok,
    PV.C16.strRepr, PV.C16.strReprPref, PV.C16.uWrite, PV.C16.uReprLayout, PV.C16.layoutGo, PV.C16.chooseQuote,
    PV.C16.uEscapedCharLen, PV.C16.lengthAdd, PV.C16.isizeMax, PV.C16.uBody, PV.C16.uChanged, PV.C16.utf8LenList,
    PV.C16.utf8Len, PV.C16.uBodySlow, PV.C16.uWriteChar, PV.C16.Quote.toChar]

theorem fstrWitness_none : ∀ fuel, parseRef fuel [fstrWitnessTok] = none := by
  have hField : ∀ f, fstrField f false 0 [100, 91, 92, 39, 97, 92, 39, 93, 125, 34] = none := by
    intro f
    cases f with
    | zero => simp [fstrField]
    | succ f =>
      have : scanField 11 {} [100, 91, 92, 39, 97, 92, 39, 93, 125, 34] = none := by decide +kernel
      simp [fstrField, this]
  have hBody : ∀ f, fstrBody f false 0 [123, 100, 91, 92, 39, 97, 92, 39, 93, 125, 34] [] = none := by
    intro f; cases f <;> simp [fstrBody, hField]
  have hPieces : ∀ f, parseStringPieces f [fstrWitnessTok] = none := by
    intro f; cases f <;> simp [parseStringPieces, fstrWitnessTok, hBody]
  have hStr : ∀ f, parseStrings f [fstrWitnessTok] = none := by
    intro f
    cases f with
    | zero => simp [parseStrings]
    | succ f =>
      have := hPieces f
      simp [fstrWitnessTok] at this
      simp [parseStrings, fstrWitnessTok, List.takeWhile, isStringTok, this]
  have hAtom : ∀ f, parseAtom f [fstrWitnessTok] = none := by
    intro f
    cases f with
    | zero => simp [parseAtom]
    | succ f => have := hStr f; simp [fstrWitnessTok] at this; simp [parseAtom, fstrWitnessTok, this]
  exact parseTest_none_of_atom_none hAtom (by simp [fstrWitnessTok]) (by simp [fstrWitnessTok])
    (by simp [fstrWitnessTok]) (by simp [fstrWitnessTok, unaryOpAt])

/-- Witness 3: the tree of `f'''{d['a']}"'''` is well-formed; the model escapes the whole body, putting
    backslashes inside the replacement field; no fuel makes the reference parser accept the result. -/
theorem fstring_witness (p : Nat → Bool) :
    WF fstrWitness ∧ ∀ fuel, parseRef fuel (toks (display p fstrWitness)) = none := by
  refine ⟨by decide, fun fuel => ?_⟩
  rw [fstrWitness_toks]
  exact fstrWitness_none fuel

end PV.C11
