import PV.C11.InductionX
/-
  C11 — how the three domains relate: the operator core `InFragment` ⊆ the extended fragment `InFragmentX` ⊆ `WF`
  (the trees the grammar can build).
-/
namespace PV.C11
open PV.Expr

theorem fx_plain_elem {e : Expr} (h : fx .plain e = true) : fx .elem e = true := by
  cases e with
  | starred v => simp [fx] at h
  | yield v => cases v <;> simp_all [fx]
  | _ => simp_all [fx, XPos.tupleElem]

theorem fx_plain_sub {e : Expr} (h : fx .plain e = true) (hp : plainIndex e = true) : fx .sub e = true := by
  cases e with
  | starred v => simp [fx] at h
  | tuple es =>
    cases es with
    | nil => simp [fx, fxList]
    | cons x xs => simp [plainIndex] at hp
  | yield v => cases v <;> simp_all [fx]
  | _ => simp_all [fx]

mutual
theorem inFrag_fx : (e : Expr) → inFrag e = true → fx .plain e = true
  | .name _, _ => by simp [fx]
  | .const _, _ => by simp [fx]
  | .attribute v _, h => by simp [inFrag] at h; simp [fx, inFrag_fx v h]
  | .dict items, h => by simp [inFrag] at h; simp [fx, inFragItems_fx items h]
  | .await v, h => by simp [inFrag] at h; simp [fx, inFrag_fx v h]
  | .yield none, _ => by simp [fx]
  | .yield (some v), h => by simp [inFrag] at h; simp [fx, fx_plain_elem (inFrag_fx v h)]
  | .yieldFrom v, h => by simp [inFrag] at h; simp [fx, inFrag_fx v h]
  | .list es, h => by simp [inFrag] at h; simp [fx, inFragList_fxElem es h]
  | .tuple es, h => by simp [inFrag] at h; simp [fx, XPos.tupleElem, inFragList_fxElem es h]
  | .set es, h => by simp [inFrag] at h; simp [fx, h.1, inFragList_fxElem es h.2]
  | .call fn args [], h => by
    simp [inFrag] at h; simp [fx, fxKeywords, kwFresh, inFrag_fx fn h.1, inFragList_fxElem args h.2]
  | .subscript v s, h => by
    simp [inFrag] at h
    simp [fx, inFrag_fx v h.1.1, fx_plain_sub (inFrag_fx s h.1.2) h.2]
  | .boolOp o vs, h => by
    simp [inFrag] at h
    simp [fx, h.1, inFragList_fx vs h.2]
  | .unaryOp o x, h => by simp [inFrag] at h; simp [fx, inFrag_fx x h]
  | .binOp l o r, h => by simp [inFrag] at h; simp [fx, inFrag_fx l h.1, inFrag_fx r h.2]
  | .compare l ops cs, h => by
    simp [inFrag] at h
    simp [fx, inFrag_fx l h.1.1.1, h.1.1.2, h.1.2, inFragList_fx cs h.2]
  | .ifExp t b o, h => by
    simp [inFrag] at h
    simp [fx, inFrag_fx t h.1.1, inFrag_fx b h.1.2, inFrag_fx o h.2]
  | .namedExpr .., h | .lambda .., h | .listComp .., h
  | .setComp .., h | .dictComp .., h | .genExp .., h
  | .call _ _ (_ :: _), h | .formattedValue .., h | .joinedStr .., h
  | .starred .., h
  | .slice .., h => by simp [inFrag] at h
theorem inFragItems_fx : (is : List DictItem) → inFragItems is = true → fxItems is = true
  | [], _ => by simp [fxItems]
  | .mk none v :: is, h => by
    simp [inFragItems] at h
    simp [fxItems, inFrag_fx v h.1, inFragItems_fx is h.2]
  | .mk (some k) v :: is, h => by
    simp [inFragItems] at h
    simp [fxItems, inFrag_fx k h.1.1, inFrag_fx v h.1.2, inFragItems_fx is h.2]
theorem inFragList_fx : (es : List Expr) → inFragList es = true → fxList .plain es = true
  | [], _ => by simp [fxList]
  | e :: es, h => by
    simp [inFragList] at h
    simp [fxList, inFrag_fx e h.1, inFragList_fx es h.2]
theorem inFragList_fxElem : (es : List Expr) → inFragList es = true → fxList .elem es = true
  | [], _ => by simp [fxList]
  | e :: es, h => by
    simp [inFragList] at h
    simp [fxList, fx_plain_elem (inFrag_fx e h.1), inFragList_fxElem es h.2]
end


/-- the `wf` position of a position of the extended fragment -/
def posOf : XPos → Pos
  | .plain => .plain
  | .elem => .elem
  | .sub => .sub
  | .subElem => .sub
  | .target => .elem
  | .targetElem => .elem

mutual
theorem wf_elem_sub : (e : Expr) → wf .elem e = true → wf .sub e = true
  | .tuple es, h => by simp [wf] at h ⊢; exact wfList_elem_sub es h
  | .slice .., h => by simp [wf] at h
  | .starred v, h => by simpa [wf] using h
  | .name _, h | .const _, h | .boolOp .., h | .namedExpr .., h | .binOp .., h | .unaryOp .., h | .lambda .., h
  | .ifExp .., h | .dict _, h | .set _, h | .listComp .., h | .setComp .., h | .dictComp .., h | .genExp .., h
  | .await _, h | .yield none, h | .yield (some _), h | .yieldFrom _, h | .compare .., h | .call .., h | .formattedValue .., h
  | .joinedStr _, h | .attribute .., h | .subscript .., h | .list _, h => by simpa [wf] using h
theorem wfList_elem_sub : (es : List Expr) → wfList .elem es = true → wfList .sub es = true
  | [], _ => by simp [wfList]
  | e :: es, h => by
    simp [wfList] at h ⊢
    exact ⟨wf_elem_sub e h.1, wfList_elem_sub es h.2⟩
end

theorem posOf_ne_plain {q : XPos} (h : q ≠ .plain) : posOf q ≠ .plain := by cases q <;> simp_all [posOf]

mutual
theorem fx_wf_aux : (e : Expr) → ∀ q, fx q e = true → wf (posOf q) e = true
  | .name _, _, _ => by simp [wf]
  | .const _, _, _ => by simp [wf]
  | .boolOp o vs, q, h => by
    simp [fx] at h; simp [wf, h.1]; simpa [posOf] using fxList_wf_aux vs .plain h.2
  | .namedExpr t v, q, h => by
    simp [fx] at h; simp [wf, h.1]; simpa [posOf] using fx_wf_aux v .plain h.2
  | .binOp l o r, q, h => by
    simp [fx] at h
    have h1 := fx_wf_aux l .plain h.1
    have h2 := fx_wf_aux r .plain h.2
    simp [posOf] at h1 h2
    simp [wf, h1, h2]
  | .unaryOp o x, q, h => by
    simp [fx] at h; simpa [wf, posOf] using fx_wf_aux x .plain h
  | .lambda po ar va ko kw b, q, h => by
    simp [fx] at h
    have hb := fx_wf_aux b .plain h.2
    simp [posOf] at hb
    simp [wf, hb, fxParams_wf_aux po h.1.1.1.1, fxParams_wf_aux ar h.1.1.1.2, fxParams_wf_aux ko h.1.1.2]
  | .ifExp t b o, q, h => by
    simp [fx] at h
    have h1 := fx_wf_aux t .plain h.1.1
    have h2 := fx_wf_aux b .plain h.1.2
    have h3 := fx_wf_aux o .plain h.2
    simp [posOf] at h1 h2 h3
    simp [wf, h1, h2, h3]
  | .dict items, q, h => by simp [fx] at h; simp [wf, fxItems_wf_aux items h]
  | .set es, q, h => by
    simp [fx] at h; simp [wf, h.1]; simpa [posOf] using fxList_wf_aux es .elem h.2
  | .listComp e gs, q, h => by
    simp [fx] at h
    have h1 := fx_wf_aux e .elem h.1.1
    simp [posOf] at h1
    simp [wf, h1, h.1.2, fxComps_wf_aux gs h.2]
  | .setComp e gs, q, h => by
    simp [fx] at h
    have h1 := fx_wf_aux e .plain h.1.1
    simp [posOf] at h1
    simp [wf, h1, h.1.2, fxComps_wf_aux gs h.2]
  | .dictComp k v gs, q, h => by
    simp [fx] at h
    have h1 := fx_wf_aux k .plain h.1.1.1
    have h2 := fx_wf_aux v .plain h.1.1.2
    simp [posOf] at h1 h2
    simp [wf, h1, h2, h.1.2, fxComps_wf_aux gs h.2]
  | .genExp e gs, q, h => by
    simp [fx] at h
    have h1 := fx_wf_aux e .plain h.1.1
    simp [posOf] at h1
    simp [wf, h1, h.1.2, fxComps_wf_aux gs h.2]
  | .await x, q, h => by simp [fx] at h; simpa [wf, posOf] using fx_wf_aux x .plain h
  | .yield none, _, _ => by simp [wf]
  | .yield (some x), q, h => by simp [fx] at h; simpa [wf, posOf] using fx_wf_aux x .elem h
  | .yieldFrom x, q, h => by simp [fx] at h; simpa [wf, posOf] using fx_wf_aux x .plain h
  | .compare l ops cs, q, h => by
    simp [fx] at h
    have h1 := fx_wf_aux l .plain h.1.1.1
    have h2 := fxList_wf_aux cs .plain h.2
    simp [posOf] at h1 h2
    simp [wf, h1, h2, h.1.1.2, h.1.2]
  | .call fn args ks, q, h => by
    simp [fx] at h
    have h1 := fx_wf_aux fn .plain h.1.1.1
    have h2 := fxList_wf_aux args .elem h.1.1.2
    simp [posOf] at h1 h2
    simp [wf, h1, h2, fxKeywords_wf_aux ks h.1.2]
  | .formattedValue .., _, h => by simp [fx] at h
  | .joinedStr _, _, h => by simp [fx] at h
  | .attribute x _, q, h => by simp [fx] at h; simpa [wf, posOf] using fx_wf_aux x .plain h
  | .subscript x s, q, h => by
    simp [fx] at h
    have h1 := fx_wf_aux x .plain h.1
    have h2 := fx_wf_aux s .sub h.2
    simp [posOf] at h1 h2
    simp [wf, h1, h2]
  | .starred x, q, h => by
    simp [fx] at h
    have h1 := fx_wf_aux x .plain h.2
    simp [posOf] at h1
    simp [wf, h1]
    exact posOf_ne_plain h.1.1
  | .list es, q, h => by simp [fx] at h; simpa [wf, posOf] using fxList_wf_aux es .elem h
  | .tuple es, q, h => by
    simp only [fx] at h
    have := fxList_wf_aux es q.tupleElem h
    cases q <;> simp [posOf, XPos.tupleElem, wf] at this ⊢ <;> first | exact this | exact wfList_elem_sub es this
  | .slice lo hi st, q, h => by
    simp [fx] at h
    simp [wf, fxOpt_wf_aux lo h.1.1.2, fxOpt_wf_aux hi h.1.2, fxOpt_wf_aux st h.2]
    rcases h.1.1.1 with rfl | rfl <;> rfl
theorem fxList_wf_aux : (es : List Expr) → ∀ q, fxList q es = true → wfList (posOf q) es = true
  | [], _, _ => by simp [wfList]
  | e :: es, q, h => by
    simp [fxList] at h
    simp [wfList, fx_wf_aux e q h.1, fxList_wf_aux es q h.2]
theorem fxOpt_wf_aux : (o : Option Expr) → fxOpt o = true → wfOpt o = true
  | none, _ => by simp [wfOpt]
  | some e, h => by simp [fxOpt] at h; simpa [wfOpt, posOf] using fx_wf_aux e .plain h
theorem fxItems_wf_aux : (is : List DictItem) → fxItems is = true → wfItems is = true
  | [], _ => by simp [wfItems]
  | .mk none v :: is, h => by
    simp [fxItems] at h
    have h1 := fx_wf_aux v .plain h.1
    simp [posOf] at h1
    simp [wfItems, wfOpt, h1, fxItems_wf_aux is h.2]
  | .mk (some k) v :: is, h => by
    simp [fxItems] at h
    have h0 := fx_wf_aux k .plain h.1.1
    have h1 := fx_wf_aux v .plain h.1.2
    simp [posOf] at h0 h1
    simp [wfItems, wfOpt, h0, h1, fxItems_wf_aux is h.2]
theorem fxComps_wf_aux : (gs : List Comp) → fxComps gs = true → wfComps gs = true
  | [], _ => by simp [wfComps]
  | .mk t i ifs a :: gs, h => by
    simp [fxComps] at h
    have h0 := fx_wf_aux t .target h.1.1.1
    have h1 := fx_wf_aux i .plain h.1.1.2
    have h2 := fxList_wf_aux ifs .plain h.1.2
    simp [posOf] at h0 h1 h2
    simp [wfComps, h0, h1, h2, fxComps_wf_aux gs h.2]
theorem fxParams_wf_aux : (ps : List Param) → fxParams ps = true → wfParams ps = true
  | [], _ => by simp [wfParams]
  | .mk n d :: ps, h => by
    simp [fxParams] at h
    simp [wfParams, fxOpt_wf_aux d h.1, fxParams_wf_aux ps h.2]
theorem fxKeywords_wf_aux : (ks : List Keyword) → fxKeywords ks = true → wfKeywords ks = true
  | [], _ => by simp [wfKeywords]
  | .mk a v :: ks, h => by
    simp [fxKeywords] at h
    have h1 := fx_wf_aux v .plain h.1
    simp [posOf] at h1
    simp [wfKeywords, h1, fxKeywords_wf_aux ks h.2]
end

end PV.C11
