import PV.Expr.Syntax
import PV.C17.Dec
import PV.Gen.C11Xid
/-
  C11 — a small reference tokenizer for the expression fragment.

  It turns expression source text (a list of Unicode scalar values) into `PV.Expr.Tok`s: names and
  keywords, integer / float / imaginary literals (value decoded, correctly rounded through
  `PV.Dec.ofDecimal`), string and bytes literals with every prefix (value decoded following
  `parser/src/string.rs` `parse_escaped_char`), f-string literals (body kept as source text, split
  later by the parser), operators and brackets.  Written from the Python lexical rules as far as
  expressions need them; it is tied to `parser/src/lexer.rs` only through the C11 correspondence
  streams (model = unparse (parseRef (lex src)) vs implementation).

  Non-ASCII characters outside string literals are classified as the real lexer classifies them
  (`unic_ucd_ident::{is_xid_start, is_xid_continue}`, `unic_emoji_char::is_emoji_presentation`):
  the three range tables in `PV/Gen/C11Xid.lean` are extracted from the real lexer on every run of
  `./check C11` (behaviourally, like the parenthesisation table) — an identifier starts with an
  XID_Start character and goes on with XID_Continue characters, a character with emoji presentation
  is a one-character name, every other non-ASCII character is an error.

  Deliberately outside its domain (the generators of tools/props/c11.py stay inside):
  `\N{name}` escapes (need the Unicode name table), indentation, soft keywords, type comments.
  `none` = not lexable (the real lexer reports an error, or the input is outside the domain).
-/
namespace PV.C11
open PV.Expr

def isDigit (c : Nat) : Bool := 48 ≤ c && c ≤ 57

/-- membership in a table of closed ranges -/
def inRanges (rs : List (Nat × Nat)) (c : Nat) : Bool := rs.any fun ab => ab.1 ≤ c && c ≤ ab.2

/-- `is_identifier_start`: ASCII letters and `_`, else `is_xid_start` -/
def isIdStart (c : Nat) : Bool :=
  (97 ≤ c && c ≤ 122) || (65 ≤ c && c ≤ 90) || c == 95 || (decide (c ≥ 128) && inRanges Gen.xidStartRanges c)
/-- `is_identifier_continuation`: ASCII letters, digits and `_`, else `is_xid_continue` -/
def isIdCont (c : Nat) : Bool :=
  isIdStart c || isDigit c || (decide (c ≥ 128) && inRanges Gen.xidContinueRanges c)
/-- `is_emoji_presentation` (the last arm of `consume_character`): such a character is a name of its own -/
def isEmojiName (c : Nat) : Bool := decide (c ≥ 128) && inRanges Gen.emojiRanges c

def digitOfRadix (radix c : Nat) : Option Nat :=
  if isDigit c then (if c - 48 < radix then some (c - 48) else none)
  else if radix = 16 ∧ 97 ≤ c ∧ c ≤ 102 then some (c - 87)
  else if radix = 16 ∧ 65 ≤ c ∧ c ≤ 70 then some (c - 55)
  else none

/-- `radix_run`: digits of the radix, single underscores allowed between digits
    (an underscore is skipped only when a digit follows).  Returns digit values and the rest. -/
def radixRun (radix : Nat) : List Nat → List Nat × List Nat
  | [] => ([], [])
  | c :: rest =>
    match digitOfRadix radix c with
    | some d => let (ds, r) := radixRun radix rest; (d :: ds, r)
    | none =>
      if c = 95 then
        match rest with
        | c2 :: rest2 =>
          match digitOfRadix radix c2 with
          | some d => let (ds, r) := radixRun radix rest2; (d :: ds, r)
          | none => ([], c :: rest)
        | [] => ([], c :: rest)
      else ([], c :: rest)
termination_by l => l.length

theorem radixRun_length (radix : Nat) (l : List Nat) : (radixRun radix l).2.length ≤ l.length := by
  fun_induction radixRun radix l <;> simp_all <;> omega

def ofDigitsRadix (radix : Nat) (ds : List Nat) : Nat := ds.foldl (fun a d => radix * a + d) 0

/-- keyword table of the lexer (soft keywords `match`, `case`, `type` are names in expressions) -/
def keywordOf (s : List Nat) : Option Kw :=
  let str := String.ofList (s.map Char.ofNat)
  match str with
  | "and" => some .and | "or" => some .or | "not" => some .not | "if" => some .if
  | "else" => some .else | "lambda" => some .lambda | "for" => some .for | "in" => some .in
  | "is" => some .is | "async" => some .async | "await" => some .await | "yield" => some .yield
  | "from" => some .from | "True" => some .true | "False" => some .false | "None" => some .none
  | "as" | "assert" | "break" | "class" | "continue" | "def" | "del" | "elif" | "except"
  | "finally" | "global" | "import" | "nonlocal" | "pass" | "raise" | "return" | "try"
  | "while" | "with" => some (.other s)
  | _ => none

/-! ## numbers (`lex_number`) -/

/-- exponent part `[eE][+-]?digits` if present (`at_exponent`); returns (exponent, rest) -/
def lexExponent : List Nat → Option (Int × List Nat)
  | e :: rest =>
    if e = 101 ∨ e = 69 then
      match rest with
      | 43 :: d :: r => if isDigit d then
          let (ds, r') := radixRun 10 (d :: r); some ((ofDigitsRadix 10 ds : Int), r') else none
      | 45 :: d :: r => if isDigit d then
          let (ds, r') := radixRun 10 (d :: r); some (-(ofDigitsRadix 10 ds : Int), r') else none
      | d :: r => if isDigit d then
          let (ds, r') := radixRun 10 (d :: r); some ((ofDigitsRadix 10 ds : Int), r') else none
      | [] => none
    else none
  | [] => none

/-- `lex_normal_number` on text starting with a digit or with `.digit` -/
def lexNormalNumber (cs : List Nat) : Option (Tok × List Nat) :=
  let startIsZero := cs.head? = some 48
  let (ip, r1) := radixRun 10 cs
  let isFloatStart := r1.head? = some 46 || (lexExponent r1).isSome
  if isFloatStart then
    -- fraction
    let fr : Option (List Nat × List Nat) :=
      match r1 with
      | 46 :: 95 :: _ => none                       -- "Invalid Syntax"
      | 46 :: r => some (radixRun 10 r)
      | _ => some ([], r1)
    match fr with
    | none => none
    | some (fp, r2) =>
      -- an `e`/`E` that is not followed by a well-formed exponent is not part of the number here;
      -- the real lexer then fails in `f64::from_str` ("1e" alone) — outside the fragment.
      let (ex, r3) : Int × List Nat :=
        match lexExponent r2 with
        | some (e, r) => (e, r)
        | none => (0, r2)
      match r2 with
      | 101 :: 95 :: _ => none
      | 69 :: 95 :: _ => none
      | _ =>
        if (match r2 with | c :: _ => (c == 101 || c == 69) && (lexExponent r2).isNone | [] => false) then none else
        let bits := PV.Dec.ofDecimal false (ip ++ fp) (ex - (fp.length : Int))
        match r3 with
        | 106 :: r => some (.imag bits, r)
        | 74 :: r => some (.imag bits, r)
        | _ => some (.float bits, r3)
  else
    match r1 with
    | 106 :: r => some (.imag (PV.Dec.ofDecimal false ip 0), r)
    | 74 :: r => some (.imag (PV.Dec.ofDecimal false ip 0), r)
    | _ =>
      let v := ofDigitsRadix 10 ip
      if startIsZero ∧ v ≠ 0 then none else some (.int v, r1)

def lexNumber : List Nat → Option (Tok × List Nat)
  | 48 :: x :: rest =>
    let radix : Option Nat :=
      if x = 120 ∨ x = 88 then some 16 else if x = 111 ∨ x = 79 then some 8
      else if x = 98 ∨ x = 66 then some 2 else none
    match radix with
    | some rx =>
      let (ds, r) := radixRun rx rest
      if ds.isEmpty then none else some (.int (ofDigitsRadix rx ds), r)
    | none => lexNormalNumber (48 :: x :: rest)
  | cs => lexNormalNumber cs

/-! ## strings (`lex_string`, then `string.rs` decoding for non-f-strings) -/

/-- body of a string literal after the opening quote(s): source characters up to the closing
    quote(s), backslash pairs kept verbatim.  Returns (body, rest). -/
def lexStringBody (q : Nat) (triple : Bool) : List Nat → Option (List Nat × List Nat)
  | [] => none
  | 92 :: c :: rest =>
    match lexStringBody q triple rest with
    | some (b, r) => some (92 :: c :: b, r)
    | none => none
  | c :: rest =>
    if c = 10 ∧ !triple then none
    else if c = q then
      if triple then
        match rest with
        | c1 :: c2 :: rest2 =>
          if c1 = q ∧ c2 = q then some ([], rest2)
          else match lexStringBody q triple rest with
            | some (b, r) => some (c :: b, r)
            | none => none
        | _ => match lexStringBody q triple rest with
            | some (b, r) => some (c :: b, r)
            | none => none
      else some ([], rest)
    else match lexStringBody q triple rest with
      | some (b, r) => some (c :: b, r)
      | none => none

def hexVal (c : Nat) : Option Nat := digitOfRadix 16 c

/-- `parse_unicode_literal(n)`: exactly `n` hex digits; surrogates become U+FFFD;
    values above 0x10FFFF are an error -/
def hexEscape : Nat → List Nat → Nat → Option (Nat × List Nat)
  | 0, rest, acc =>
    if 0xD800 ≤ acc ∧ acc ≤ 0xDFFF then some (0xFFFD, rest)
    else if acc > 0x10FFFF then none else some (acc, rest)
  | n + 1, c :: rest, acc =>
    match hexVal c with
    | some d => hexEscape n rest (16 * acc + d)
    | none => none
  | _ + 1, [], _ => none

def isOct (c : Nat) : Bool := 48 ≤ c && c ≤ 55

/-- Decode the body of a non-raw string / bytes literal (`parse_string`, `parse_bytes`,
    `parse_escaped_char`).  `isBytes`: `\u`, `\U`, `\N` are not escapes and non-ASCII is an error. -/
def decodeEscapes (isBytes : Bool) : Nat → List Nat → Option (List Nat)
  | 0, _ => none
  | _, [] => some []
  | fuel + 1, 92 :: c :: rest =>
    let simple (v : Nat) := (decodeEscapes isBytes fuel rest).map (v :: ·)
    if c = 92 then simple 92
    else if c = 39 then simple 39
    else if c = 34 then simple 34
    else if c = 97 then simple 7
    else if c = 98 then simple 8
    else if c = 102 then simple 12
    else if c = 110 then simple 10
    else if c = 114 then simple 13
    else if c = 116 then simple 9
    else if c = 118 then simple 11
    else if isOct c then
      -- `parse_octet`: up to three octal digits
      let (v, r) : Nat × List Nat :=
        match rest with
        | d1 :: r1 =>
          if isOct d1 then
            match r1 with
            | d2 :: r2 => if isOct d2 then (((c - 48) * 8 + (d1 - 48)) * 8 + (d2 - 48), r2)
                          else ((c - 48) * 8 + (d1 - 48), r1)
            | [] => ((c - 48) * 8 + (d1 - 48), r1)
          else (c - 48, rest)
        | [] => (c - 48, rest)
      (decodeEscapes isBytes fuel r).map (v :: ·)
    else if c = 120 then
      match hexEscape 2 rest 0 with
      | some (v, r) => (decodeEscapes isBytes fuel r).map (v :: ·)
      | none => none
    else if c = 117 ∧ !isBytes then
      match hexEscape 4 rest 0 with
      | some (v, r) => (decodeEscapes isBytes fuel r).map (v :: ·)
      | none => none
    else if c = 85 ∧ !isBytes then
      match hexEscape 8 rest 0 with
      | some (v, r) => (decodeEscapes isBytes fuel r).map (v :: ·)
      | none => none
    else if c = 78 ∧ !isBytes then none                -- `\N{…}`: outside the fragment
    else if c = 10 then decodeEscapes isBytes fuel rest   -- backslash-newline
    else if isBytes ∧ c ≥ 128 then none
    else (decodeEscapes isBytes fuel rest).map (fun l => 92 :: c :: l)
  | _ + 1, [92] => none
  | fuel + 1, c :: rest =>
    if isBytes ∧ c ≥ 128 then none else (decodeEscapes isBytes fuel rest).map (c :: ·)

/-- string prefix at the head of the input: (isRaw, isBytes, isF, isU, remaining text starting at
    the quote) -/
def stringPrefix : List Nat → Option (Bool × Bool × Bool × Bool × List Nat)
  | cs =>
    let lower (c : Nat) := if 65 ≤ c ∧ c ≤ 90 then c + 32 else c
    let isQ (c : Nat) := c = 34 ∨ c = 39
    match cs with
    | q :: _ => if isQ q then some (false, false, false, false, cs) else
      match cs with
      | c :: q :: r =>
        if isQ q then
          (if lower c = 114 then some (true, false, false, false, q :: r)
           else if lower c = 102 then some (false, false, true, false, q :: r)
           else if lower c = 117 then some (false, false, false, true, q :: r)
           else if lower c = 98 then some (false, true, false, false, q :: r)
           else none)
        else
          match r with
          | q2 :: r2 =>
            if isQ q2 then
              let a := lower c
              let b := lower q
              if (a = 114 ∧ b = 102) ∨ (a = 102 ∧ b = 114) then some (true, false, true, false, q2 :: r2)
              else if (a = 114 ∧ b = 98) ∨ (a = 98 ∧ b = 114) then some (true, true, false, false, q2 :: r2)
              else none
            else none
          | [] => none
      | _ => none
    | [] => none

/-- a whole string literal starting at its prefix -/
def lexString (cs : List Nat) : Option (Tok × List Nat) :=
  match stringPrefix cs with
  | none => none
  | some (raw, isBytes, isF, isU, q :: r) =>
    let (triple, r') : Bool × List Nat :=
      match r with
      | a :: b :: r2 => if a = q ∧ b = q then (true, r2) else (false, r)
      | _ => (false, r)
    match lexStringBody q triple r' with
    | none => none
    | some (body, rest) =>
      if isF then some (.fstr q triple raw body, rest)
      else
        let decoded : Option (List Nat) :=
          if raw then (if isBytes ∧ body.any (· ≥ 128) then none else some body)
          else decodeEscapes isBytes (body.length + 1) body
        match decoded with
        | none => none
        | some v => if isBytes then some (.bytes v, rest) else some (.str v isU, rest)
  | some (_, _, _, _, []) => none

/-! ## operators -/

def lexOp : List Nat → Option (Op × List Nat)
  | 42 :: 42 :: 61 :: r => some (.other [42, 42, 61], r)
  | 47 :: 47 :: 61 :: r => some (.other [47, 47, 61], r)
  | 60 :: 60 :: 61 :: r => some (.other [60, 60, 61], r)
  | 62 :: 62 :: 61 :: r => some (.other [62, 62, 61], r)
  | 46 :: 46 :: 46 :: r => some (.ellipsis, r)
  | 42 :: 42 :: r => some (.dstar, r)
  | 47 :: 47 :: r => some (.dslash, r)
  | 60 :: 60 :: r => some (.lshift, r)
  | 62 :: 62 :: r => some (.rshift, r)
  | 60 :: 61 :: r => some (.le, r)
  | 62 :: 61 :: r => some (.ge, r)
  | 61 :: 61 :: r => some (.eqeq, r)
  | 33 :: 61 :: r => some (.ne, r)
  | 58 :: 61 :: r => some (.walrus, r)
  | 45 :: 62 :: r => some (.other [45, 62], r)
  | 43 :: 61 :: r => some (.other [43, 61], r)
  | 45 :: 61 :: r => some (.other [45, 61], r)
  | 42 :: 61 :: r => some (.other [42, 61], r)
  | 47 :: 61 :: r => some (.other [47, 61], r)
  | 37 :: 61 :: r => some (.other [37, 61], r)
  | 64 :: 61 :: r => some (.other [64, 61], r)
  | 38 :: 61 :: r => some (.other [38, 61], r)
  | 124 :: 61 :: r => some (.other [124, 61], r)
  | 94 :: 61 :: r => some (.other [94, 61], r)
  | 43 :: r => some (.plus, r)
  | 45 :: r => some (.minus, r)
  | 42 :: r => some (.star, r)
  | 47 :: r => some (.slash, r)
  | 37 :: r => some (.percent, r)
  | 64 :: r => some (.at, r)
  | 124 :: r => some (.bar, r)
  | 94 :: r => some (.caret, r)
  | 38 :: r => some (.amp, r)
  | 126 :: r => some (.tilde, r)
  | 60 :: r => some (.lt, r)
  | 62 :: r => some (.gt, r)
  | 40 :: r => some (.lpar, r)
  | 41 :: r => some (.rpar, r)
  | 91 :: r => some (.lsqb, r)
  | 93 :: r => some (.rsqb, r)
  | 123 :: r => some (.lbrace, r)
  | 125 :: r => some (.rbrace, r)
  | 44 :: r => some (.comma, r)
  | 58 :: r => some (.colon, r)
  | 46 :: r => some (.dot, r)
  | 61 :: r => some (.assign, r)
  | 59 :: r => some (.other [59], r)
  | _ => none

def spanIdCont : List Nat → List Nat × List Nat
  | [] => ([], [])
  | c :: r => if isIdCont c then let (a, b) := spanIdCont r; (c :: a, b) else ([], c :: r)

def dropLine : List Nat → List Nat
  | [] => []
  | 10 :: r => 10 :: r
  | _ :: r => dropLine r

/-- the token loop; `nest` is the bracket nesting (newlines are skipped inside brackets) -/
def lexGo : Nat → Nat → List Nat → Option (List Tok)
  | 0, _, _ => none
  | _, nest, [] => if nest = 0 then some [] else none
  | fuel + 1, nest, c :: rest =>
    if c = 32 ∨ c = 9 ∨ c = 12 then lexGo fuel nest rest
    else if c = 10 ∨ c = 13 then
      if nest > 0 then lexGo fuel nest rest
      else
        -- a logical newline: allowed only as trailing blank lines of the expression
        (match lexGo fuel nest rest with
         | some [] => some []
         | _ => none)
    else if c = 35 then lexGo fuel nest (dropLine rest)
    else if c = 92 then
      (match rest with
       | 10 :: r => lexGo fuel nest r
       | _ => none)
    else if isIdStart c then
      match lexString (c :: rest) with
      | some (tk, r) => (lexGo fuel nest r).map (tk :: ·)
      | none =>
        if (stringPrefix (c :: rest)).isSome then none else
        let (w, r) := spanIdCont (c :: rest)
        let tk := match keywordOf w with
          | some k => Tok.kw k
          | none => Tok.name w
        (lexGo fuel nest r).map (tk :: ·)
    else if isDigit c || (c == 46 && (match rest with | d :: _ => isDigit d | [] => false)) then
      match lexNumber (c :: rest) with
      | some (tk, r) => (lexGo fuel nest r).map (tk :: ·)
      | none => none
    else if c = 34 ∨ c = 39 then
      match lexString (c :: rest) with
      | some (tk, r) => (lexGo fuel nest r).map (tk :: ·)
      | none => none
    else
      match lexOp (c :: rest) with
      | some (o, r) =>
        let nest' :=
          if o = .lpar ∨ o = .lsqb ∨ o = .lbrace then nest + 1
          else if o = .rpar ∨ o = .rsqb ∨ o = .rbrace then nest - 1
          else nest
        if (o = .rpar ∨ o = .rsqb ∨ o = .rbrace) ∧ nest = 0 then none
        else (lexGo fuel nest' r).map (.op o :: ·)
      | none =>
        if isEmojiName c then (lexGo fuel nest rest).map (.name [c] :: ·) else none

/-- tokens of an expression source text (`Lexer::new` skips one byte-order mark at the very start) -/
def lex (cs : List Nat) : Option (List Tok) :=
  match cs with
  | 0xFEFF :: r => lexGo (r.length + 1) 0 r
  | _ => lexGo (cs.length + 1) 0 cs

end PV.C11
