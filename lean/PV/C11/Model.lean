import PV.Expr.Syntax
import PV.C11.Kinds
import PV.C16.Model
import PV.C17.Model
/-
  C11 — executable model of `ast/src/unparse.rs` (feature `unparse` of rustpython-ast) and of
  `impl Display for Constant` in `ast/src/builtin.rs`.

  The Rust code pushes string fragments into a formatter (`self.p("…")`).  The model produces the
  same fragments as a list of *output items* `Out`: a token, or one space.  Two readings:

    * `text p outs`  — the concatenated characters: byte-for-byte what `format!("{}", expr)` prints
                       (tied to the real code by the correspondence streams);
    * `toks outs`    — the token sequence, which is what the grammar sees after lexing
                       (used by the round-trip theorems against `parseRef`).

  Every `p(...)` call of `unparse_expr`, `unparse_arguments`, `unparse_comp`, `unparse_formatted`,
  `unparse_joined_str`, `unparse_fstring_str`, `unparse_fstring_body` appears below in the same
  order with the same precedence arguments.  `group_if!(lvl, body)` is `groupIf (level > lvl) body`.

  Parameter `p : Nat → Bool` is `rustpython_literal::char::is_printable` on non-ASCII characters
  (a Unicode table; see `PV.C16`).  Constants: text through `PV.C16.strRepr` / `bytesRepr`
  (`literal/src/escape.rs`), floats through `PV.C17.toString` (`literal/src/float.rs`), the
  imaginary part through `PV.Dec.shortestFixedL` (Rust `Display for f64`).

  Not modelled (unreachable for trees the parser builds; `WF` excludes them): annotations on lambda
  parameters, `Constant::Tuple`, `Constant::Complex` with a non-zero real part, a `Dict` whose
  `keys` and `values` differ in length, non-string constants among the pieces of a `JoinedStr` (`unreachable!()`).
-/
namespace PV.C11
open PV.Expr

/-! ## `mod precedence` -/

namespace Prec
def TUPLE : Nat := 0
def TEST : Nat := 1
def OR : Nat := 2
def AND : Nat := 3
def NOT : Nat := 4
def CMP : Nat := 5
def BOR : Nat := 6
def BXOR : Nat := 7
def BAND : Nat := 8
def SHIFT : Nat := 9
def ARITH : Nat := 10
def TERM : Nat := 11
def FACTOR : Nat := 12
def POWER : Nat := 13
def AWAIT : Nat := 14
def ATOM : Nat := 15
/-- `pub const EXPR: u8 = BOR;` -/
def EXPR : Nat := BOR
end Prec

/-! ## output items -/

inductive Out where
  | t (tok : Tok)
  | sp
  /-- raw text that is not a token of its own (only produced for a `FormattedValue` outside a
      `JoinedStr`, which the parser never builds) -/
  | raw (s : List Nat)
deriving DecidableEq, Repr

/-- the tokens of an output -/
def toks : List Out → List Tok
  | [] => []
  | .t tk :: r => tk :: toks r
  | _ :: r => toks r

abbrev kw (k : Kw) : Out := .t (.kw k)
abbrev op (o : Op) : Out := .t (.op o)

/-! ## text of tokens -/

def ascii (s : String) : List Nat := s.toList.map Char.toNat

def Kw.text : Kw → List Nat
  | .and => ascii "and" | .or => ascii "or" | .not => ascii "not" | .if => ascii "if"
  | .else => ascii "else" | .lambda => ascii "lambda" | .for => ascii "for" | .in => ascii "in"
  | .is => ascii "is" | .async => ascii "async" | .await => ascii "await" | .yield => ascii "yield"
  | .from => ascii "from" | .true => ascii "True" | .false => ascii "False" | .none => ascii "None"
  | .other t => t

def Op.text : Op → List Nat
  | .plus => ascii "+" | .minus => ascii "-" | .star => ascii "*" | .slash => ascii "/"
  | .dslash => ascii "//" | .percent => ascii "%" | .at => ascii "@" | .dstar => ascii "**"
  | .lshift => ascii "<<" | .rshift => ascii ">>" | .bar => ascii "|" | .caret => ascii "^"
  | .amp => ascii "&" | .tilde => ascii "~" | .lt => ascii "<" | .gt => ascii ">"
  | .le => ascii "<=" | .ge => ascii ">=" | .eqeq => ascii "==" | .ne => ascii "!="
  | .lpar => ascii "(" | .rpar => ascii ")" | .lsqb => ascii "[" | .rsqb => ascii "]"
  | .lbrace => ascii "{" | .rbrace => ascii "}" | .comma => ascii "," | .colon => ascii ":"
  | .dot => ascii "." | .walrus => ascii ":=" | .assign => ascii "=" | .ellipsis => ascii "..."
  | .other t => t

/-- `BigInt as Display` for a non-negative value -/
def intText (n : Nat) : List Nat := PV.Dec.showDigits (PV.Dec.natDigits n)

/-- the substring `inf` replaced by `1e309` (`.replace("inf", inf_str)`) -/
def replaceInf : List Nat → List Nat
  | 105 :: 110 :: 102 :: r => ascii "1e309" ++ replaceInf r
  | c :: r => c :: replaceInf r
  | [] => []

/-- `Constant::Float` under `Expr::Constant`: infinities print as `1e309` -/
def floatText (bits : Nat) : List Nat :=
  if PV.Dec.isInf bits then ascii "1e309" else PV.C17.toString bits

/-- `Constant::Complex { real: 0.0, imag }`: `write!(f, "{imag}j")`, with `inf` replaced when
    the value is infinite -/
def imagText (bits : Nat) : List Nat :=
  let s := PV.Dec.shortestFixedL bits ++ ascii "j"
  if PV.Dec.isInf bits then replaceInf s else s

/-- Text of one token as the unparser writes it. -/
def Tok.text (p : Nat → Bool) : Tok → List Nat
  | .name id => id
  | .int n => intText n
  | .float b => floatText b
  | .imag b => imagText b
  | .str s u => (if u then [117] else []) ++ PV.C16.strRepr p s
  | .bytes b => PV.C16.bytesRepr b
  | .fstr q triple raw body =>
    let qs := if triple then [q, q, q] else [q]
    (if raw then [114] else []) ++ [102] ++ qs ++ body ++ qs
  | .kw k => Kw.text k
  | .op o => Op.text o

def text (p : Nat → Bool) : List Out → List Nat
  | [] => []
  | .t tk :: r => Tok.text p tk ++ text p r
  | .sp :: r => 32 :: text p r
  | .raw s :: r => s ++ text p r

/-! ## operator tables (`op_prec!`, `CmpOp::as_str`) -/

def boolOpKw : BoolOp → Kw
  | .and => .and
  | .or => .or

def boolOpPrec : BoolOp → Nat
  | .and => Prec.AND
  | .or => Prec.OR

def binOpTok : BinOp → Op
  | .add => .plus | .sub => .minus | .mult => .star | .matMult => .at | .div => .slash
  | .mod => .percent | .pow => .dstar | .lShift => .lshift | .rShift => .rshift
  | .bitOr => .bar | .bitXor => .caret | .bitAnd => .amp | .floorDiv => .dslash

def binOpPrec : BinOp → Nat
  | .add => Prec.ARITH | .sub => Prec.ARITH
  | .mult => Prec.TERM | .matMult => Prec.TERM | .div => Prec.TERM | .mod => Prec.TERM
  | .pow => Prec.POWER
  | .lShift => Prec.SHIFT | .rShift => Prec.SHIFT
  | .bitOr => Prec.BOR | .bitXor => Prec.BXOR | .bitAnd => Prec.BAND
  | .floorDiv => Prec.TERM

/-- the operator text with its trailing space where the Rust literal has one (`"not "`) -/
def unaryOpOuts : UnaryOp → List Out
  | .invert => [op .tilde]
  | .not => [kw .not, .sp]
  | .uAdd => [op .plus]
  | .uSub => [op .minus]

def unaryOpPrec : UnaryOp → Nat
  | .invert => Prec.FACTOR
  | .not => Prec.NOT
  | .uAdd => Prec.FACTOR
  | .uSub => Prec.FACTOR

/-- `CmpOp::as_str` (two-word operators contain one space) -/
def cmpOpOuts : CmpOp → List Out
  | .eq => [op .eqeq] | .notEq => [op .ne] | .lt => [op .lt] | .ltE => [op .le]
  | .gt => [op .gt] | .gtE => [op .ge]
  | .is => [kw .is] | .isNot => [kw .is, .sp, kw .not]
  | .in => [kw .in] | .notIn => [kw .not, .sp, kw .in]

/-! ## the unparser -/

/-- `group_if!` -/
def groupIf (g : Bool) (body : List Out) : List Out :=
  if g then op .lpar :: (body ++ [op .rpar]) else body

/-- `p_delim(&mut first, ", ")` -/
def delim (first : Bool) : List Out := if first then [] else [op .comma, .sp]

def constTok : Const → Tok
  | .none => .kw .none
  | .bool true => .kw .true
  | .bool false => .kw .false
  | .ellipsis => .op .ellipsis
  | .int n => .int n
  | .float b => .float b
  | .imag b => .imag b
  | .str s u => .str s u
  | .bytes b => .bytes b

def isIntConst : Expr → Bool
  | .const (.int _) => true
  | _ => false

/-- `unparse_fstring_str`: `s.replace('{', "{{").replace('}', "}}")` -/
def fstringStr : List Nat → List Nat
  | [] => []
  | 123 :: r => 123 :: 123 :: fstringStr r
  | 125 :: r => 125 :: 125 :: fstringStr r
  | c :: r => c :: fstringStr r

def convText (c : Conv) : List Nat := if c = 0 then [] else [33, c]

/-- the tail of `unparse_formatted` once the value (`buffered`) and the spec have been rendered -/
def formattedText (buffered : List Nat) (conv : Conv) (spec : Option (List Nat)) : List Nat :=
  -- put a space to avoid escaping the bracket
  let brace := if buffered.head? = some 123 then [123, 32] else [123]
  brace ++ buffered ++ convText conv ++
    (match spec with
     | some s => 58 :: s
     | none => []) ++ [125]

/-- the tail of `unparse_joined_str(values, false)` once the body has been rendered: `f`, then the
    body through `UnicodeEscape::new_repr(&body).str_repr()` — the WHOLE body, replacement fields
    included -/
def fstrTok (p : Nat → Bool) (body : List Nat) : Tok :=
  let layout := PV.C16.uReprLayout p .single body
  .fstr layout.quote.toChar false false (PV.C16.uBody p body layout)

mutual
/-- `Unparser::unparse_expr(ast, level)` -/
def unparse (p : Nat → Bool) : Expr → Nat → List Out
  | .boolOp o values, level =>
    let prec := boolOpPrec o
    groupIf (level > prec) (unparseBool p values (boolOpKw o) (prec + 1) true)
  | .namedExpr target value, level =>
    groupIf (level > Prec.TUPLE)
      (unparse p target Prec.ATOM ++ [.sp, op .walrus, .sp] ++ unparse p value Prec.ATOM)
  | .binOp left o right, level =>
    let rassoc := o == .pow
    let prec := binOpPrec o
    groupIf (level > prec)
      (unparse p left (prec + (if rassoc then 1 else 0)) ++ [.sp, op (binOpTok o), .sp] ++
       unparse p right (prec + (if rassoc then 0 else 1)))
  | .unaryOp o operand, level =>
    let prec := unaryOpPrec o
    groupIf (level > prec) (unaryOpOuts o ++ unparse p operand prec)
  | .lambda posonly args vararg kwonly kwarg body, level =>
    let pos := args.length + posonly.length
    -- `unparse_arguments`, inlined
    let first1 := decide (pos = 0)
    let star := vararg.isSome || !kwonly.isEmpty
    let first2 := first1 && !star
    groupIf (level > Prec.TEST)
      ((if pos > 0 then [kw .lambda, .sp] else [kw .lambda]) ++
       unparsePosParams p posonly 0 posonly.length true ++
       unparsePosParams p args posonly.length posonly.length posonly.isEmpty ++
       (if star then delim first1 ++ [op .star] else []) ++
       (match vararg with
        | some v => [.t (.name v)]
        | none => []) ++
       unparseKwonly p kwonly first2 ++
       (match kwarg with
        | some k => delim (first2 && kwonly.isEmpty) ++ [op .dstar, .t (.name k)]
        | none => []) ++
       [op .colon, .sp] ++ unparse p body Prec.TEST)
  | .ifExp test body orelse, level =>
    groupIf (level > Prec.TEST)
      (unparse p body (Prec.TEST + 1) ++ [.sp, kw .if, .sp] ++ unparse p test (Prec.TEST + 1) ++
       [.sp, kw .else, .sp] ++ unparse p orelse Prec.TEST)
  | .dict items, _ =>
    [op .lbrace] ++ unparseDictItems p items true ++ [op .rbrace]
  | .set elts, _ =>
    [op .lbrace] ++ unparseSeq p elts Prec.TEST true ++ [op .rbrace]
  | .listComp elt gens, _ =>
    [op .lsqb] ++ unparse p elt Prec.TEST ++ unparseComp p gens ++ [op .rsqb]
  | .setComp elt gens, _ =>
    [op .lbrace] ++ unparse p elt Prec.TEST ++ unparseComp p gens ++ [op .rbrace]
  | .dictComp key value gens, _ =>
    [op .lbrace] ++ unparse p key Prec.TEST ++ [op .colon, .sp] ++ unparse p value Prec.TEST ++
      unparseComp p gens ++ [op .rbrace]
  | .genExp elt gens, _ =>
    [op .lpar] ++ unparse p elt Prec.TEST ++ unparseComp p gens ++ [op .rpar]
  | .await value, level =>
    groupIf (level > Prec.AWAIT) ([kw .await, .sp] ++ unparse p value Prec.ATOM)
  | .yield (some value), _ =>
    [op .lpar, kw .yield, .sp] ++ unparse p value Prec.TEST ++ [op .rpar]
  | .yield none, _ => [op .lpar, kw .yield, op .rpar]
  | .yieldFrom value, _ =>
    [op .lpar, kw .yield, .sp, kw .from, .sp] ++ unparse p value Prec.TEST ++ [op .rpar]
  | .compare left ops comparators, level =>
    groupIf (level > Prec.CMP)
      (unparse p left (Prec.CMP + 1) ++ unparseCmps p ops comparators)
  | .call func [.genExp elt gens] [], _ =>
    -- make sure a single genexpr doesn't get double parens
    unparse p func Prec.ATOM ++ [op .lpar] ++ unparse p elt Prec.TEST ++ unparseComp p gens ++
      [op .rpar]
  | .call func args keywords, _ =>
    unparse p func Prec.ATOM ++ [op .lpar] ++
      unparseSeq p args Prec.TEST true ++ unparseKeywords p keywords args.isEmpty ++ [op .rpar]
  | .formattedValue value conv spec, _ =>
    [.raw (formattedText (text p (unparse p value (Prec.TEST + 1))) conv (fstringSpec p spec))]
  | .joinedStr values, _ => [.t (fstrTok p (fstringBody p values false))]
  | .const c, _ => [.t (constTok c)]
  | .attribute value attr, _ =>
    unparse p value Prec.ATOM ++ (if isIntConst value then [.sp, op .dot] else [op .dot]) ++
      [.t (.name attr)]
  | .subscript value slice, _ =>
    unparse p value Prec.ATOM ++ [op .lsqb] ++ unparse p slice Prec.TUPLE ++ [op .rsqb]
  | .starred value, _ => [op .star] ++ unparse p value Prec.EXPR
  | .name id, _ => [.t (.name id)]
  | .list elts, _ => [op .lsqb] ++ unparseSeq p elts Prec.TEST true ++ [op .rsqb]
  | .tuple elts, level =>
    if elts.isEmpty then [op .lpar, op .rpar]
    else
      groupIf (level > Prec.TUPLE)
        (unparseSeq p elts Prec.TEST true ++ (if elts.length = 1 then [op .comma] else []))
  | .slice lower upper step, _ =>
    unparseOpt p lower Prec.TEST ++ [op .colon] ++ unparseOpt p upper Prec.TEST ++
      (match step with
       | some s => [op .colon] ++ unparse p s Prec.TEST
       | none => [])

/-- `for val in values { p_delim(&mut first, op); unparse_expr(val, lvl) }` of `BoolOp` -/
def unparseBool (p : Nat → Bool) : List Expr → Kw → Nat → Bool → List Out
  | [], _, _, _ => []
  | v :: vs, k, lvl, first =>
    (if first then [] else [.sp, kw k, .sp]) ++ unparse p v lvl ++ unparseBool p vs k lvl false

/-- `for x in xs { p_delim(&mut first, ", "); unparse_expr(x, lvl) }` -/
def unparseSeq (p : Nat → Bool) : List Expr → Nat → Bool → List Out
  | [], _, _ => []
  | x :: xs, lvl, first => delim first ++ unparse p x lvl ++ unparseSeq p xs lvl false

def unparseOpt (p : Nat → Bool) : Option Expr → Nat → List Out
  | none, _ => []
  | some e, lvl => unparse p e lvl

/-- the `keys.iter().zip(packed)` loop of `Expr::Dict` (for parser-built trees
    `values.len() == keys.len()`, so the `unpacked` loop is empty).  The operand of `**` is rendered
    at `precedence::EXPR` (since /repo dc8e40d; before, it went through `Display`, level `TEST`). -/
def unparseDictItems (p : Nat → Bool) : List DictItem → Bool → List Out
  | [], _ => []
  | .mk (some k) v :: is, first =>
    delim first ++ unparse p k Prec.TEST ++ [op .colon, .sp] ++ unparse p v Prec.TEST ++
      unparseDictItems p is false
  | .mk none v :: is, first =>
    delim first ++ [op .dstar] ++ unparse p v Prec.EXPR ++ unparseDictItems p is false

/-- the `ops.iter().zip(comparators)` loop of `Expr::Compare` -/
def unparseCmps (p : Nat → Bool) : List CmpOp → List Expr → List Out
  | o :: os, c :: cs =>
    [.sp] ++ cmpOpOuts o ++ [.sp] ++ unparse p c (Prec.CMP + 1) ++ unparseCmps p os cs
  | _, _ => []

/-- the keyword loop of `Expr::Call` -/
def unparseKeywords (p : Nat → Bool) : List Keyword → Bool → List Out
  | [], _ => []
  | .mk arg value :: ks, first =>
    delim first ++
      (match arg with
       | some a => [.t (.name a), op .assign]
       | none => [op .dstar]) ++
      unparse p value Prec.TEST ++ unparseKeywords p ks false

/-- `unparse_function_arg` (lambda parameters carry no annotation) -/
def unparseParam (p : Nat → Bool) : Param → List Out
  | .mk name default =>
    [.t (.name name)] ++
      (match default with
       | some d => [op .assign] ++ unparse p d Prec.TEST
       | none => [])

/-- the `posonlyargs.iter().chain(&args).enumerate()` loop; `i` is the index of the head,
    `npos` is `posonlyargs.len()` -/
def unparsePosParams (p : Nat → Bool) : List Param → Nat → Nat → Bool → List Out
  | [], _, _, _ => []
  | a :: as, i, npos, first =>
    delim first ++ unparseParam p a ++
      (if i + 1 = npos then [op .comma, .sp, op .slash] else []) ++
      unparsePosParams p as (i + 1) npos false

def unparseKwonly (p : Nat → Bool) : List Param → Bool → List Out
  | [], _ => []
  | a :: as, first => delim first ++ unparseParam p a ++ unparseKwonly p as false

/-- `unparse_comp`; the `match` is `unparse_comp_target(&comp.target)` (since /repo's repair of comprehension
    targets; before, `unparse_expr(&comp.target, precedence::TUPLE)`): a non-empty tuple is written bare, its
    elements at `precedence::EXPR`, with the comma of a 1-tuple; everything else goes to `unparse_expr` at
    `precedence::EXPR` (for the empty tuple that is `()`).  As a function of its own: `unparseTarget` below. -/
def unparseComp (p : Nat → Bool) : List Comp → List Out
  | [] => []
  | .mk target iter ifs isAsync :: gs =>
    (if isAsync then [.sp, kw .async, .sp, kw .for, .sp] else [.sp, kw .for, .sp]) ++
      (match target with
       | .tuple elts =>
         if elts.isEmpty then [op .lpar, op .rpar]
         else unparseSeq p elts Prec.EXPR true ++ (if elts.length = 1 then [op .comma] else [])
       | t => unparse p t Prec.EXPR) ++
      [.sp, kw .in, .sp] ++ unparse p iter (Prec.TEST + 1) ++
      unparseIfs p ifs ++ unparseComp p gs

def unparseIfs (p : Nat → Bool) : List Expr → List Out
  | [] => []
  | c :: cs => [.sp, kw .if, .sp] ++ unparse p c (Prec.TEST + 1) ++ unparseIfs p cs

/-- the `if let Some(spec) = spec { unparse_fstring_elem(spec, true) }` of `unparse_formatted` -/
def fstringSpec (p : Nat → Bool) : Option Expr → Option (List Nat)
  | none => none
  | some s => some (fstringElem p s true)

/-- `unparse_fstring_elem(expr, is_spec)` as text; the `unreachable!()` arms give no text -/
def fstringElem (p : Nat → Bool) : Expr → Bool → List Nat
  | .const (.str s _), _ => fstringStr s
  | .joinedStr values, isSpec =>
    if isSpec then fstringBody p values true
    else Tok.text p (fstrTok p (fstringBody p values false))
  | .formattedValue value conv spec, _ =>
    formattedText (text p (unparse p value (Prec.TEST + 1))) conv (fstringSpec p spec)
  | _, _ => []

/-- `unparse_fstring_body(values, is_spec)` as text -/
def fstringBody (p : Nat → Bool) : List Expr → Bool → List Nat
  | [], _ => []
  | v :: vs, isSpec => fstringElem p v isSpec ++ fstringBody p vs isSpec
end

/-- `Unparser::unparse_comp_target(target)`: the target of a comprehension clause, read by the grammar as an
    `ExpressionList` (comma list of `Expression`-level or starred elements) -/
def unparseTarget (p : Nat → Bool) (target : Expr) : List Out :=
  match target with
  | .tuple elts =>
    if elts.isEmpty then unparse p target Prec.EXPR
    else unparseSeq p elts Prec.EXPR true ++ (if elts.length = 1 then [op .comma] else [])
  | t => unparse p t Prec.EXPR

/-- `unparse_comp` calls `unparse_comp_target` for the target of each clause -/
theorem unparseComp_cons (p : Nat → Bool) (t i : Expr) (ifs : List Expr) (a : Bool) (gs : List Comp) :
    unparseComp p (.mk t i ifs a :: gs) =
      (if a then [.sp, kw .async, .sp, kw .for, .sp] else [.sp, kw .for, .sp]) ++
        unparseTarget p t ++ [.sp, kw .in, .sp] ++ unparse p i (Prec.TEST + 1) ++
        unparseIfs p ifs ++ unparseComp p gs := by
  cases t <;> simp [unparseComp, unparseTarget]
  case tuple es => cases es <;> simp [unparse]

/-- `impl Display for Expr`: `unparse_expr(self, precedence::TEST)` -/
def display (p : Nat → Bool) (e : Expr) : List Out := unparse p e Prec.TEST

/-- `format!("{}", expr)` as text -/
def displayText (p : Nat → Bool) (e : Expr) : List Nat := text p (display p e)


/-! ## the parenthesisation decision as a table

  `kindPrec k` is the level in the `group_if!` of the arm that renders kind `k` (`none`: the arm has
  no `group_if!`), `slotLevel s` the `level` argument the parent passes for the child in slot `s`
  (one exception: a non-empty tuple that is a comprehension target does not go through `unparse_expr`,
  `unparse_comp_target` writes its elements itself — slot `compTargetElt` — and no parentheses).
  `PV.C11.unparse_shape` and `PV.C11.unparse_slot_levels` (Thm.lean) prove, for every expression and
  every constructor, that `unparse` is built from exactly these two tables. -/

def kindPrec : Kind → Option Nat
  | .tuple => some Prec.TUPLE
  | .namedExpr => some Prec.TUPLE
  | .lambda => some Prec.TEST
  | .ifExp => some Prec.TEST
  | .boolOp o => some (boolOpPrec o)
  | .unary o => some (unaryOpPrec o)
  | .compare => some Prec.CMP
  | .binOp o => some (binOpPrec o)
  | .await => some Prec.AWAIT
  | .atom => none
  | .starred => none
  | .slice => none

def slotLevel : Slot → Nat
  | .top => Prec.TEST
  | .boolOperand o => boolOpPrec o + 1
  | .unaryOperand o => unaryOpPrec o
  | .cmpLeft => Prec.CMP + 1
  | .cmpRight => Prec.CMP + 1
  | .binLeft o => binOpPrec o + (if o == .pow then 1 else 0)
  | .binRight o => binOpPrec o + (if o == .pow then 0 else 1)
  | .awaitOperand => Prec.ATOM
  | .lambdaBody => Prec.TEST
  | .lambdaDefault => Prec.TEST
  | .ifBody => Prec.TEST + 1
  | .ifTest => Prec.TEST + 1
  | .ifOrelse => Prec.TEST
  | .dictKey => Prec.TEST
  | .dictValue => Prec.TEST
  | .dictUnpack => Prec.EXPR
  | .setElt => Prec.TEST
  | .listElt => Prec.TEST
  | .tupleElt => Prec.TEST
  | .subTupleElt => Prec.TEST
  | .listCompElt => Prec.TEST
  | .setCompElt => Prec.TEST
  | .genExpElt => Prec.TEST
  | .dictCompKey => Prec.TEST
  | .dictCompValue => Prec.TEST
  | .compTarget => Prec.EXPR
  | .compTargetElt => Prec.EXPR
  | .compIter => Prec.TEST + 1
  | .compIf => Prec.TEST + 1
  | .yieldValue => Prec.TEST
  | .yieldFromValue => Prec.TEST
  | .callFunc => Prec.ATOM
  | .callArg => Prec.TEST
  | .callKwValue => Prec.TEST
  | .callDstarValue => Prec.TEST
  | .attrValue => Prec.ATOM
  | .subValue => Prec.ATOM
  | .subSlice => Prec.TUPLE
  | .sliceLower => Prec.TEST
  | .sliceUpper => Prec.TEST
  | .sliceStep => Prec.TEST
  | .starredValue => Prec.EXPR
  | .namedValue => Prec.ATOM
  | .fstringField => Prec.TEST + 1

/-- does the unparser put a child of kind `k` standing in slot `s` into parentheses?
    (`unparse_comp_target` writes a non-empty tuple bare, whatever the level: `unparseTarget`) -/
def modelParens (s : Slot) (k : Kind) : Bool :=
  if s = .compTarget ∧ k = .tuple then false
  else
    match kindPrec k with
    | some prec => decide (slotLevel s > prec)
    | none => false

def b2n (b : Bool) : Nat := if b then 1 else 0

/-- the model's decision for every admissible (slot, kind) pair, in table order -/
def parenTable : List Nat :=
  allSlots.flatMap fun s => (allKinds.filter (admissible s)).map fun k => b2n (modelParens s k)

end PV.C11
