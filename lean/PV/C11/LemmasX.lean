import PV.C11.Lemmas
/-
  C11 — helper lemmas, part 2: element lists with `Starred` elements, call arguments (positional, starred, keyword,
  `**`, the bare generator argument), subscripts (slices, tuples of slices, starred, bare named expression),
  named expressions, `yield` values.
-/
namespace PV.C11
open PV.Expr

/-! ## elements: an operand or `*operand` -/

/-- what the induction gives for an operand: the three parsing forms and the facts about its first tokens -/
structure GoodP (p : Nat → Bool) (e : Expr) : Prop where
  good : Good p e
  plain : Plain p e

/-- an element of a display, an argument list, a `yield` value: an operand, or a starred operand -/
inductive ElemOK (p : Nat → Bool) : Expr → Prop
  | plain {e : Expr} (h : GoodP p e) : ElemOK p e
  | star {v : Expr} (h : GoodP p v) : ElemOK p (.starred v)

/-- tokens an element can begin with -/
def elemTok (t : Tok) : Prop := goodHead 1 t = true ∨ t = .op .star

theorem toks_starred (p : Nat → Bool) (v : Expr) (lvl : Nat) :
    toks (unparse p (.starred v) lvl) = .op .star :: toks (unparse p v 6) := by
  simp [unparse, Prec.EXPR, Prec.BOR, op]

theorem ElemOK.head {p : Nat → Bool} {x : Expr} (h : ElemOK p x) :
    ∃ t r, toks (unparse p x 1) = t :: r ∧ elemTok t := by
  cases h with
  | plain h =>
    obtain ⟨t, r, ht, hg⟩ := h.plain.head 1 (Nat.le_refl _)
    exact ⟨t, r, ht, Or.inl hg⟩
  | star h => exact ⟨.op .star, _, toks_starred p _ 1, Or.inr rfl⟩

theorem elemTok_not_close {t : Tok} (h : elemTok t) {o : Op} (ho : isClose o = true) : t ≠ .op o := by
  rintro rfl
  rcases h with h | h
  · cases o <;> simp [isClose] at ho <;> simp [goodHead] at h
  · cases h; simp [isClose] at ho

theorem elemTok_not_kw {t : Tok} (h : elemTok t) {k : Kw} (hk : k = .yield ∨ k = .for ∨ k = .async ∨ k = .if ∨ k = .in) :
    t ≠ .kw k := by
  rintro rfl
  rcases h with h | h
  · rcases hk with rfl | rfl | rfl | rfl | rfl <;> simp [goodHead] at h
  · cases h

/-- one element of a display, followed by `,` or a closing bracket -/
theorem elem_starOrNamed (p : Nat → Bool) {x : Expr} (hx : ElemOK p x) {c : Tok}
    (hc : ∀ lvl, contTok lvl c = false) (hcw : c ≠ .op .walrus) (hca : c ≠ .op .assign) (rest : List Tok) :
    ∃ n, ∀ f, n ≤ f → parseStarOrNamed f (toks (unparse p x 1) ++ c :: rest) = some (x, c :: rest) := by
  cases hx with
  | plain h =>
    obtain ⟨t, r, ht, hg⟩ := h.plain.head 1 (by omega)
    have h0 := h.good.rt 1 (c :: rest) (Nat.le_refl _) (by omega) (Stop.cons (hc 1))
    rw [parseAt_1] at h0
    obtain ⟨n, hn⟩ := h0
    refine ⟨n + 2, fun fuel hf => ?_⟩
    obtain ⟨f, rfl⟩ : ∃ f, fuel = f + 2 := ⟨fuel - 2, by omega⟩
    have hT := hn f (by omega)
    have hw := ((h.plain.nobind 1 (Nat.le_refl _)).append (h.plain.ne_nil 1 (Nat.le_refl _)) hcw hca rest).walrus
    rw [ht] at hT hw ⊢
    exact starOrNamed_of_test hT hg hw
  | star h =>
    rename_i v
    have h0 := h.good.rt 6 (c :: rest) (by omega) (by omega) (Stop.cons (hc 6))
    rw [parseAt_bin (k := 0) (by omega)] at h0
    obtain ⟨n, hn⟩ := h0
    refine ⟨n + 1, fun fuel hf => ?_⟩
    obtain ⟨f, rfl⟩ : ∃ f, fuel = f + 1 := ⟨fuel - 1, by omega⟩
    rw [toks_starred, List.cons_append, parseStarOrNamed, hn f (by omega)]

/-- the elements after the first one, up to the closing bracket -/
theorem elemsRT (p : Nat → Bool) (close : Op) (hcl : isClose close = true) : (xs : List Expr) →
    (∀ x ∈ xs, ElemOK p x) → ∀ rest, ∃ n, ∀ f, n ≤ f →
      parseElems f close (toks (unparseSeq p xs 1 false) ++ .op close :: rest) = some ((xs, !xs.isEmpty), rest)
  | [], _, rest => by
    refine ⟨1, fun fuel hf => ?_⟩
    obtain ⟨f, rfl, _⟩ := fuel_succ hf
    simp only [unparseSeq, toks_nil, List.nil_append]
    rw [parseElems_close f close (by cases close <;> simp [isClose] at hcl ⊢)]
    rfl
  | x :: xs, hxs, rest => by
    have hx := hxs x (List.mem_cons_self ..)
    obtain ⟨n2, hn2⟩ := elemsRT p close hcl xs (fun y hy => hxs y (List.mem_cons_of_mem _ hy)) rest
    -- what follows `x`: a comma (more elements) or the closing bracket
    have hnext : ∃ c r', toks (unparseSeq p xs 1 false) ++ .op close :: rest = c :: r' ∧ (∀ lvl, contTok lvl c = false) ∧
        c ≠ .op .walrus ∧ c ≠ .op .assign := by
      cases xs with
      | nil =>
        exact ⟨.op close, rest, by simp [unparseSeq], fun l => contTok_close hcl l,
          by cases close <;> simp [isClose] at hcl ⊢, by cases close <;> simp [isClose] at hcl ⊢⟩
      | cons y ys => exact ⟨.op .comma, _, by rw [toks_unparseSeq_cons']; rfl, fun l => contTok_comma l, by simp, by simp⟩
    obtain ⟨c, r', hcr, hc, hcw, hca⟩ := hnext
    obtain ⟨n1, hn1⟩ := elem_starOrNamed p hx hc hcw hca r'
    obtain ⟨t, tr, ht, hg⟩ := hx.head
    refine ⟨n1 + n2 + 1, fun fuel hf => ?_⟩
    obtain ⟨f, rfl⟩ : ∃ f, fuel = f + 1 := ⟨fuel - 1, by omega⟩
    rw [toks_unparseSeq_cons', List.cons_append, List.append_assoc, hcr]
    have hs := hn1 f (by omega)
    have he := hn2 f (by omega)
    rw [hcr] at he
    unfold parseElems
    split
    · rename_i o r0 heq
      rw [ht] at heq
      simp at heq
      obtain ⟨rfl, _⟩ := heq
      have hne : o ≠ close := by
        intro h; subst h
        exact elemTok_not_close hg hcl rfl
      rw [if_neg hne, hs]
      simp only
      rw [he]
      simp
    · rw [hs]
      simp only
      rw [he]
      simp

/-- what follows the first element of a non-empty display -/
theorem after_first (p : Nat → Bool) (close : Op) (hcl : isClose close = true) (xs : List Expr) (rest : List Tok) :
    ∃ c r', toks (unparseSeq p xs 1 false) ++ .op close :: rest = c :: r' ∧ (∀ lvl, contTok lvl c = false) ∧
      c ≠ .op .walrus ∧ c ≠ .op .assign ∧ atCompFor (c :: r') = false ∧ (∀ r1, c :: r' ≠ .op .colon :: r1) := by
  cases xs with
  | nil =>
    refine ⟨.op close, rest, by simp [unparseSeq], fun l => contTok_close hcl l, ?_, ?_, ?_, ?_⟩ <;>
      cases close <;> simp [isClose] at hcl ⊢ <;> rfl
  | cons y ys =>
    exact ⟨.op .comma, _, by rw [toks_unparseSeq_cons']; rfl, fun l => contTok_comma l, by simp, by simp, rfl, by simp⟩

theorem atomRT_list (p : Nat → Bool) (xs : List Expr) (hxs : ∀ x ∈ xs, ElemOK p x) :
    AtomRT p (.list xs) := by
  intro rest _
  cases xs with
  | nil =>
    refine parses_of_eq 2 (fun f => ?_)
    simp [unparse, unparseSeq, op, parseAtom, parseListAtom]
  | cons x xs =>
    have hx := hxs x (List.mem_cons_self ..)
    obtain ⟨c, r', hcr, hc, hcw, hca, hcomp, _⟩ := after_first p .rsqb rfl xs rest
    obtain ⟨n1, hn1⟩ := elem_starOrNamed p hx hc hcw hca r'
    obtain ⟨n2, hn2⟩ := elemsRT p .rsqb rfl xs (fun y hy => hxs y (List.mem_cons_of_mem _ hy)) rest
    obtain ⟨t, tr, ht, hg⟩ := hx.head
    have e1 : toks (unparse p (.list (x :: xs)) 15) ++ rest =
        .op .lsqb :: (toks (unparse p x 1) ++ (toks (unparseSeq p xs 1 false) ++ .op .rsqb :: rest)) := by
      simp [unparse, toks_unparseSeq_cons, Prec.TEST, op]
    refine ⟨n1 + n2 + 2, fun fuel hf => ?_⟩
    obtain ⟨f, rfl⟩ : ∃ f, fuel = f + 2 := ⟨fuel - 2, by omega⟩
    have hs := hn1 f (by omega)
    have he := hn2 f (by omega)
    rw [e1, hcr, parseAtom]
    rw [hcr] at he
    unfold parseListAtom
    split
    · omega
    · rename_i heq; rw [ht] at heq; simp at heq; exact absurd heq.1 (elemTok_not_close hg rfl)
    · rename_i f' hfe _
      obtain rfl : f' = f := by omega
      rw [hs]
      simp only [hcomp, Bool.false_eq_true, if_false]
      rw [he]

theorem atomRT_tuple (p : Nat → Bool) (xs : List Expr) (hxs : ∀ x ∈ xs, ElemOK p x) :
    AtomRT p (.tuple xs) := by
  intro rest _
  cases xs with
  | nil =>
    refine parses_of_eq 2 (fun f => ?_)
    simp [unparse, op, parseAtom, parseParenAtom]
  | cons x xs =>
    have hx := hxs x (List.mem_cons_self ..)
    obtain ⟨t, tr, ht, hg⟩ := hx.head
    cases xs with
    | nil =>
      -- `(x,)`
      obtain ⟨n1, hn1⟩ := elem_starOrNamed p hx (fun l => contTok_comma l) (by simp) (by simp) (.op .rpar :: rest)
      have e1 : toks (unparse p (.tuple [x]) 15) ++ rest =
          .op .lpar :: (toks (unparse p x 1) ++ .op .comma :: .op .rpar :: rest) := by
        simp [unparse, groupIf, unparseSeq, delim, Prec.TUPLE, Prec.TEST, op]
      refine ⟨n1 + 3, fun fuel hf => ?_⟩
      obtain ⟨f, rfl⟩ : ∃ f, fuel = f + 3 := ⟨fuel - 3, by omega⟩
      have hs := hn1 (f + 1) (by omega)
      rw [e1, parseAtom]
      unfold parseParenAtom
      split
      · omega
      · rename_i heq; rw [ht] at heq; simp at heq; exact absurd heq.1 (elemTok_not_close hg rfl)
      · rename_i heq; rw [ht] at heq; simp at heq; exact absurd heq.1 (elemTok_not_kw hg (Or.inl rfl))
      · rename_i f' hfe _ _
        obtain rfl : f' = f + 1 := by omega
        rw [hs]
        simp [atCompFor, parseElems]
    | cons y ys =>
      obtain ⟨c, r', hcr, hc, hcw, hca, hcomp, _⟩ := after_first p .rpar rfl (y :: ys) rest
      obtain ⟨n1, hn1⟩ := elem_starOrNamed p hx hc hcw hca r'
      obtain ⟨n2, hn2⟩ := elemsRT p .rpar rfl (y :: ys) (fun z hz => hxs z (List.mem_cons_of_mem _ hz)) rest
      have e1 : toks (unparse p (.tuple (x :: y :: ys)) 15) ++ rest =
          .op .lpar :: (toks (unparse p x 1) ++ (toks (unparseSeq p (y :: ys) 1 false) ++ .op .rpar :: rest)) := by
        simp [unparse, groupIf, toks_unparseSeq_cons, Prec.TUPLE, Prec.TEST, op]
      refine ⟨n1 + n2 + 2, fun fuel hf => ?_⟩
      obtain ⟨f, rfl⟩ : ∃ f, fuel = f + 2 := ⟨fuel - 2, by omega⟩
      have hs := hn1 f (by omega)
      have he := hn2 f (by omega)
      rw [e1, hcr, parseAtom]
      rw [hcr] at he
      unfold parseParenAtom
      split
      · omega
      · rename_i heq; rw [ht] at heq; simp at heq; exact absurd heq.1 (elemTok_not_close hg rfl)
      · rename_i heq; rw [ht] at heq; simp at heq; exact absurd heq.1 (elemTok_not_kw hg (Or.inl rfl))
      · rename_i f' hfe _ _
        obtain rfl : f' = f := by omega
        rw [hs]
        simp only [hcomp, Bool.false_eq_true, if_false]
        rw [he]

/-- the first element after `{` that is not a dict key: `parseBraceFirst` -/
theorem braceFirst_elem (p : Nat → Bool) {x : Expr} (hx : ElemOK p x) {c : Tok}
    (hc : ∀ lvl, contTok lvl c = false) (hcw : c ≠ .op .walrus) (hca : c ≠ .op .assign) (rest : List Tok) :
    ∃ n, ∀ f, n ≤ f → ∃ b, parseBraceFirst f (toks (unparse p x 1) ++ c :: rest) = some (x, b, c :: rest) := by
  cases hx with
  | plain h =>
    obtain ⟨t, r, ht, hg⟩ := h.plain.head 1 (by omega)
    have h0 := h.good.rt 1 (c :: rest) (Nat.le_refl _) (by omega) (Stop.cons (hc 1))
    rw [parseAt_1] at h0
    obtain ⟨n, hn⟩ := h0
    refine ⟨n + 1, fun fuel hf => ?_⟩
    obtain ⟨f, rfl⟩ : ∃ f, fuel = f + 1 := ⟨fuel - 1, by omega⟩
    have hT := hn f (by omega)
    have hw := ((h.plain.nobind 1 (Nat.le_refl _)).append (h.plain.ne_nil 1 (Nat.le_refl _)) hcw hca rest).walrus
    rw [ht] at hT hw ⊢
    refine ⟨true, ?_⟩
    unfold parseBraceFirst
    split
    · omega
    · rename_i heq2; simp at heq2; obtain ⟨rfl, _⟩ := heq2; simp [goodHead] at hg
    · rename_i heq2; exact absurd heq2 (hw _ _)
    · rename_i f' hfe _ _
      obtain rfl : f' = f := by omega
      rw [hT]
  | star h =>
    rename_i v
    obtain ⟨n, hn⟩ := elem_starOrNamed p (ElemOK.star h) hc hcw hca rest
    refine ⟨n + 1, fun fuel hf => ?_⟩
    obtain ⟨f, rfl⟩ : ∃ f, fuel = f + 1 := ⟨fuel - 1, by omega⟩
    have := hn f (by omega)
    rw [toks_starred, List.cons_append] at this ⊢
    exact ⟨false, by rw [parseBraceFirst, this]⟩

theorem atomRT_set (p : Nat → Bool) (x : Expr) (xs : List Expr) (hxs : ∀ y ∈ x :: xs, ElemOK p y) :
    AtomRT p (.set (x :: xs)) := by
  intro rest _
  have hx := hxs x (List.mem_cons_self ..)
  obtain ⟨t, tr, ht, hg⟩ := hx.head
  obtain ⟨c, r', hcr, hc, hcw, hca, hcomp, hcolon⟩ := after_first p .rbrace rfl xs rest
  obtain ⟨n2, hn2⟩ := elemsRT p .rbrace rfl xs (fun z hz => hxs z (List.mem_cons_of_mem _ hz)) rest
  obtain ⟨n1, hn1⟩ := braceFirst_elem p hx hc hcw hca r'
  have e1 : toks (unparse p (.set (x :: xs)) 15) ++ rest =
      .op .lbrace :: (toks (unparse p x 1) ++ (toks (unparseSeq p xs 1 false) ++ .op .rbrace :: rest)) := by
    simp [unparse, toks_unparseSeq_cons, Prec.TEST, op]
  refine ⟨n1 + n2 + 3, fun fuel hf => ?_⟩
  obtain ⟨f, rfl⟩ : ∃ f, fuel = f + 3 := ⟨fuel - 3, by omega⟩
  obtain ⟨b, hfirst⟩ := hn1 (f + 1) (by omega)
  have he := hn2 (f + 1) (by omega)
  rw [e1, hcr, parseAtom]
  rw [hcr] at he
  unfold parseBraceAtom
  split
  · omega
  · rename_i heq; rw [ht] at heq; simp at heq; exact absurd heq.1 (elemTok_not_close hg rfl)
  · rename_i heq; rw [ht] at heq; simp at heq
    rcases hg with hg | hg
    · rw [heq.1] at hg; simp [goodHead] at hg
    · rw [heq.1] at hg; cases hg
  · rename_i f' hfe _ _
    obtain rfl : f' = f + 1 := by omega
    rw [hfirst]
    split
    · rename_i heq3; simp at heq3; obtain ⟨_, _, rfl, rfl⟩ := heq3; exact absurd rfl (hcolon _)
    · rename_i heq3
      simp at heq3
      obtain ⟨rfl, _, rfl⟩ := heq3
      simp only [hcomp, Bool.false_eq_true, if_false]
      rw [he]
    · rename_i heq3; simp at heq3

/-! ## call arguments: positional and starred first, then keyword and `**` arguments -/

def kwNames : List Keyword → List Ident
  | [] => []
  | .mk (some n) _ :: ks => n :: kwNames ks
  | .mk none _ :: ks => kwNames ks

theorem kwNames_append (a b : List Keyword) : kwNames (a ++ b) = kwNames a ++ kwNames b := by
  induction a with
  | nil => rfl
  | cons k ks ih => cases k with | mk arg v => cases arg <;> simp [kwNames, ih]

theorem mem_kwNames {m : Ident} {v : Expr} {ks : List Keyword} (h : Keyword.mk (some m) v ∈ ks) : m ∈ kwNames ks := by
  induction ks with
  | nil => cases h
  | cons k ks ih =>
    rcases List.mem_cons.mp h with h0 | h1
    · subst h0; simp [kwNames]
    · cases k with | mk arg w => cases arg <;> simp [kwNames, ih h1]

/-- what the induction gives for the keyword arguments of a call -/
def GoodKws (p : Nat → Bool) : List Keyword → Prop
  | [] => True
  | .mk _ v :: ks => GoodP p v ∧ GoodKws p ks

/-- what `parseArgs` does after one argument -/
def argsTail (f : Nat) (r : List Tok) (as : List Expr) (ks : List Keyword) (ds : Bool) :
    PR (List Expr × List Keyword) :=
  match r with
  | .op .comma :: r2 => parseArgs f r2 as ks ds
  | .op .rpar :: r2 => some ((as, ks), r2)
  | _ => none

theorem parseArgs_step (f : Nat) (ts : List Tok) (as : List Expr) (ks : List Keyword) (ds : Bool)
    (h : ∀ r, ts ≠ .op .rpar :: r) :
    parseArgs (f + 1) ts as ks ds =
      (match parseArg f ts as ks ds with
       | none => none
       | some (as', ks', ds', r) => argsTail f r as' ks' ds') := by
  rw [parseArgs.eq_3 _ _ _ _ _ (by intro r heq; exact h r heq)]
  rfl

theorem toks_kws_named (p : Nat → Bool) (n : Ident) (v : Expr) (ks : List Keyword) (first : Bool) :
    toks (unparseKeywords p (.mk (some n) v :: ks) first) =
      (if first then [] else [.op .comma]) ++ .name n :: .op .assign :: (toks (unparse p v 1) ++ toks (unparseKeywords p ks false)) := by
  cases first <;> simp [unparseKeywords, delim, Prec.TEST, op]

theorem toks_kws_dstar (p : Nat → Bool) (v : Expr) (ks : List Keyword) (first : Bool) :
    toks (unparseKeywords p (.mk none v :: ks) first) =
      (if first then [] else [.op .comma]) ++ .op .dstar :: (toks (unparse p v 1) ++ toks (unparseKeywords p ks false)) := by
  cases first <;> simp [unparseKeywords, delim, Prec.TEST, op]

/-- what follows an argument: `,` or `)` -/
def argNext (c : Tok) : Prop := c = .op .comma ∨ c = .op .rpar

theorem argNext.cont {c : Tok} (h : argNext c) (lvl : Nat) : contTok lvl c = false := by
  rcases h with rfl | rfl
  · exact contTok_comma lvl
  · exact contTok_rpar lvl

theorem argNext.notComp {c : Tok} (h : argNext c) (r : List Tok) : atCompFor (c :: r) = false := by
  rcases h with rfl | rfl <;> rfl

/-- a value after `name =` or `**`: read by `Test` -/
theorem arg_value (p : Nat → Bool) {v : Expr} (hv : GoodP p v) {c : Tok} (hc : argNext c) (r' : List Tok) :
    ∃ n, ∀ f, n ≤ f → parseTest f (toks (unparse p v 1) ++ c :: r') = some (v, c :: r') := by
  have h := hv.good.rt 1 (c :: r') (Nat.le_refl _) (by omega) (Stop.cons (hc.cont 1))
  rwa [parseAt_1] at h

theorem arg_kw (p : Nat → Bool) (n : Ident) {v : Expr} (hv : GoodP p v) {c : Tok} (hc : argNext c) (r' : List Tok)
    (as0 : List Expr) (ks0 : List Keyword) (ds0 : Bool) (hfresh : (kwNames ks0).contains n = false) :
    ∃ m, ∀ f, m ≤ f →
      parseArg f (.name n :: .op .assign :: (toks (unparse p v 1) ++ c :: r')) as0 ks0 ds0 =
        some (as0, ks0 ++ [.mk (some n) v], ds0, c :: r') := by
  obtain ⟨m, hm⟩ := arg_value p hv hc r'
  refine ⟨m + 1, fun fuel hf => ?_⟩
  obtain ⟨f, rfl⟩ : ∃ f, fuel = f + 1 := ⟨fuel - 1, by omega⟩
  rw [parseArg, hm f (by omega)]
  simp only
  split
  · rename_i hany
    rw [List.any_eq_true] at hany
    obtain ⟨k, hk, hkn⟩ := hany
    cases k with
    | mk a w =>
      cases a with
      | none => simp at hkn
      | some m' =>
        simp at hkn
        subst hkn
        have := mem_kwNames hk
        simp [this] at hfresh
  · rfl

theorem arg_dstar (p : Nat → Bool) {v : Expr} (hv : GoodP p v) {c : Tok} (hc : argNext c) (r' : List Tok)
    (as0 : List Expr) (ks0 : List Keyword) (ds0 : Bool) :
    ∃ m, ∀ f, m ≤ f →
      parseArg f (.op .dstar :: (toks (unparse p v 1) ++ c :: r')) as0 ks0 ds0 =
        some (as0, ks0 ++ [.mk none v], true, c :: r') := by
  obtain ⟨m, hm⟩ := arg_value p hv hc r'
  refine ⟨m + 1, fun fuel hf => ?_⟩
  obtain ⟨f, rfl⟩ : ∃ f, fuel = f + 1 := ⟨fuel - 1, by omega⟩
  rw [parseArg, hm f (by omega)]

/-- one positional (possibly starred) argument, before any keyword -/
theorem arg_pos (p : Nat → Bool) {x : Expr} (hx : ElemOK p x) {c : Tok} (hc : argNext c) (r' : List Tok)
    (as0 : List Expr) :
    ∃ n, ∀ f, n ≤ f →
      parseArg f (toks (unparse p x 1) ++ c :: r') as0 [] false = some (as0 ++ [x], [], false, c :: r') := by
  have hcw : c ≠ .op .walrus := by rcases hc with rfl | rfl <;> simp
  have hca : c ≠ .op .assign := by rcases hc with rfl | rfl <;> simp
  cases hx with
  | plain h =>
    obtain ⟨t, tr, ht, hg⟩ := h.plain.head 1 (by omega)
    have h0 := h.good.rt 1 (c :: r') (Nat.le_refl _) (by omega) (Stop.cons (hc.cont 1))
    rw [parseAt_1] at h0
    obtain ⟨n, hn⟩ := h0
    have hnb := (h.plain.nobind 1 (Nat.le_refl _)).append (h.plain.ne_nil 1 (Nat.le_refl _)) hcw hca r'
    refine ⟨n + 2, fun f hf => ?_⟩
    obtain ⟨f0, rfl⟩ : ∃ f0, f = f0 + 2 := ⟨f - 2, by omega⟩
    have hT := hn f0 (by omega)
    rw [ht] at hT hnb ⊢
    have hN : parseNamedTest (f0 + 1) (t :: tr ++ c :: r') = some (x, c :: r') := namedTest_of_test hT hnb.walrus
    unfold parseArg
    split
    · omega
    · rename_i heq; exact absurd heq (hnb.assign _ _)
    · rename_i heq; simp at heq; obtain ⟨rfl, _⟩ := heq; simp [goodHead] at hg
    · rename_i heq; simp at heq; obtain ⟨rfl, _⟩ := heq; simp [goodHead] at hg
    · rename_i f' hfe _ _ _
      obtain rfl : f' = f0 + 1 := by omega
      rw [hN]
      simp [hc.notComp]
  | star h =>
    rename_i v
    obtain ⟨t, tr, ht, hg⟩ := h.plain.head 6 (by omega)
    have h0 := h.good.rt 6 (c :: r') (by omega) (by omega) (Stop.cons (hc.cont 6))
    have h1 : Parses parseTest (toks (unparse p v 6) ++ c :: r') v (c :: r') := by
      rw [ht] at h0 ⊢
      have := lift (lvl := 1) (Nat.le_refl _) (by omega) (by omega) h0 hg (Stop.cons (hc.cont 1))
      rwa [parseAt_1] at this
    obtain ⟨n, hn⟩ := h1
    refine ⟨n + 1, fun fuel hf => ?_⟩
    obtain ⟨f, rfl⟩ : ∃ f, fuel = f + 1 := ⟨fuel - 1, by omega⟩
    rw [toks_starred, List.cons_append, parseArg, hn f (by omega)]
    simp

/-- the keyword arguments, each preceded by its comma, up to the closing parenthesis -/
theorem kwTail (p : Nat → Bool) : (ks : List Keyword) → GoodKws p ks → ∀ (as0 : List Expr) (ks0 : List Keyword)
    (ds0 : Bool) (rest : List Tok), kwFresh (kwNames ks0) ks = true → ∃ n, ∀ f, n ≤ f →
      argsTail f (toks (unparseKeywords p ks false) ++ .op .rpar :: rest) as0 ks0 ds0 = some ((as0, ks0 ++ ks), rest)
  | [], _, as0, ks0, ds0, rest, _ => ⟨0, fun f _ => by simp [unparseKeywords, argsTail]⟩
  | .mk arg v :: ks, hg, as0, ks0, ds0, rest, hfr => by
    obtain ⟨hv, hks⟩ := hg
    -- what follows this argument
    have hnext : ∃ c r', toks (unparseKeywords p ks false) ++ .op .rpar :: rest = c :: r' ∧ argNext c := by
      cases ks with
      | nil => exact ⟨.op .rpar, rest, by simp [unparseKeywords], Or.inr rfl⟩
      | cons k ks' =>
        cases k with
        | mk a w =>
          cases a with
          | none =>
            exact ⟨.op .comma, .op .dstar :: (toks (unparse p w 1) ++ toks (unparseKeywords p ks' false)) ++ .op .rpar :: rest,
              by rw [toks_kws_dstar]; simp, Or.inl rfl⟩
          | some m =>
            exact ⟨.op .comma, .name m :: .op .assign :: (toks (unparse p w 1) ++ toks (unparseKeywords p ks' false)) ++
              .op .rpar :: rest, by rw [toks_kws_named]; simp, Or.inl rfl⟩
    obtain ⟨c, r', hcr, hc⟩ := hnext
    cases arg with
    | none =>
      have hfr' : kwFresh (kwNames (ks0 ++ [.mk none v])) ks = true := by
        simpa [kwFresh, kwNames_append, kwNames] using hfr
      obtain ⟨n1, hn1⟩ := arg_dstar p hv hc r' as0 ks0 ds0
      obtain ⟨n2, hn2⟩ := kwTail p ks hks as0 (ks0 ++ [.mk none v]) true rest hfr'
      refine ⟨n1 + n2 + 1, fun fuel hf => ?_⟩
      obtain ⟨f, rfl⟩ : ∃ f, fuel = f + 1 := ⟨fuel - 1, by omega⟩
      rw [toks_kws_dstar]
      simp only [Bool.false_eq_true, if_false, List.cons_append, List.append_assoc, argsTail, List.nil_append]
      rw [parseArgs_step _ _ _ _ _ (by intro r h; cases h), hcr, hn1 f (by omega)]
      simp only
      have := hn2 f (by omega)
      rw [hcr] at this
      rw [this]
      simp
    | some n =>
      have hfresh : (kwNames ks0).contains n = false := by
        simp [kwFresh] at hfr; simpa using hfr.1
      have hfr' : kwFresh (kwNames (ks0 ++ [.mk (some n) v])) ks = true := by
        simp [kwFresh] at hfr; simpa [kwNames_append, kwNames] using hfr.2
      obtain ⟨n1, hn1⟩ := arg_kw p n hv hc r' as0 ks0 ds0 hfresh
      obtain ⟨n2, hn2⟩ := kwTail p ks hks as0 (ks0 ++ [.mk (some n) v]) ds0 rest hfr'
      refine ⟨n1 + n2 + 1, fun fuel hf => ?_⟩
      obtain ⟨f, rfl⟩ : ∃ f, fuel = f + 1 := ⟨fuel - 1, by omega⟩
      rw [toks_kws_named]
      simp only [Bool.false_eq_true, if_false, List.cons_append, List.append_assoc, argsTail, List.nil_append]
      rw [parseArgs_step _ _ _ _ _ (by intro r h; cases h), hcr, hn1 f (by omega)]
      simp only
      have := hn2 f (by omega)
      rw [hcr] at this
      rw [this]
      simp

/-- what follows an argument when keyword arguments (each with its comma) and `)` come next -/
theorem next_after_kws (p : Nat → Bool) (ks : List Keyword) (rest : List Tok) :
    ∃ c r', toks (unparseKeywords p ks false) ++ .op .rpar :: rest = c :: r' ∧ argNext c := by
  cases ks with
  | nil => exact ⟨.op .rpar, rest, by simp [unparseKeywords], Or.inr rfl⟩
  | cons k ks' =>
    cases k with
    | mk a w =>
      cases a with
      | none =>
        exact ⟨.op .comma, .op .dstar :: (toks (unparse p w 1) ++ toks (unparseKeywords p ks' false)) ++ .op .rpar :: rest,
          by rw [toks_kws_dstar]; simp, Or.inl rfl⟩
      | some m =>
        exact ⟨.op .comma, .name m :: .op .assign :: (toks (unparse p w 1) ++ toks (unparseKeywords p ks' false)) ++
          .op .rpar :: rest, by rw [toks_kws_named]; simp, Or.inl rfl⟩

theorem next_after_pos (p : Nat → Bool) (xs : List Expr) (ks : List Keyword) (rest : List Tok) :
    ∃ c r', toks (unparseSeq p xs 1 false) ++ (toks (unparseKeywords p ks false) ++ .op .rpar :: rest) = c :: r' ∧
      argNext c := by
  cases xs with
  | nil => simpa [unparseSeq] using next_after_kws p ks rest
  | cons y ys => exact ⟨.op .comma, _, by rw [toks_unparseSeq_cons']; rfl, Or.inl rfl⟩

/-- the remaining positional arguments (each preceded by its comma), then the keyword arguments -/
theorem posTail (p : Nat → Bool) : (xs : List Expr) → (∀ x ∈ xs, ElemOK p x) → ∀ (ks : List Keyword), GoodKws p ks →
    kwFresh [] ks = true → ∀ (as0 : List Expr) (rest : List Tok), ∃ n, ∀ f, n ≤ f →
      argsTail f (toks (unparseSeq p xs 1 false) ++ (toks (unparseKeywords p ks false) ++ .op .rpar :: rest)) as0 [] false =
        some ((as0 ++ xs, ks), rest)
  | [], _, ks, hks, hfr, as0, rest => by
    obtain ⟨n, hn⟩ := kwTail p ks hks as0 [] false rest (by simpa [kwNames] using hfr)
    exact ⟨n, fun f hf => by simpa [unparseSeq] using hn f hf⟩
  | x :: xs, hxs, ks, hks, hfr, as0, rest => by
    have hx := hxs x (List.mem_cons_self ..)
    obtain ⟨c, r', hcr, hc⟩ := next_after_pos p xs ks rest
    obtain ⟨n1, hn1⟩ := arg_pos p hx hc r' as0
    obtain ⟨n2, hn2⟩ := posTail p xs (fun y hy => hxs y (List.mem_cons_of_mem _ hy)) ks hks hfr (as0 ++ [x]) rest
    obtain ⟨t, tr, ht, hg⟩ := hx.head
    refine ⟨n1 + n2 + 1, fun fuel hf => ?_⟩
    obtain ⟨f, rfl⟩ : ∃ f, fuel = f + 1 := ⟨fuel - 1, by omega⟩
    rw [toks_unparseSeq_cons']
    simp only [List.cons_append, List.append_assoc, argsTail]
    rw [hcr, parseArgs_step _ _ _ _ _ (by
      intro r h; rw [ht] at h; simp at h; exact elemTok_not_close hg (o := .rpar) rfl h.1), hn1 f (by omega)]
    simp only
    have := hn2 f (by omega)
    rw [hcr] at this
    rw [this]
    simp

/-- all arguments of a call up to the closing parenthesis -/
theorem callArgsRT (p : Nat → Bool) (args : List Expr) (ks : List Keyword) (hargs : ∀ x ∈ args, ElemOK p x)
    (hks : GoodKws p ks) (hfr : kwFresh [] ks = true) (rest : List Tok) : ∃ n, ∀ f, n ≤ f →
      parseArgs f (toks (unparseSeq p args 1 true) ++ (toks (unparseKeywords p ks args.isEmpty) ++ .op .rpar :: rest))
        [] [] false = some ((args, ks), rest) := by
  cases args with
  | nil =>
    cases ks with
    | nil =>
      refine ⟨1, fun fuel hf => ?_⟩
      obtain ⟨f, rfl, _⟩ := fuel_succ hf
      simp [unparseSeq, unparseKeywords, parseArgs]
    | cons k ks' =>
      cases k with
      | mk a v =>
        obtain ⟨hv, hks'⟩ := hks
        obtain ⟨c, r', hcr, hc⟩ := next_after_kws p ks' rest
        cases a with
        | none =>
          obtain ⟨n1, hn1⟩ := arg_dstar p hv hc r' [] [] false
          obtain ⟨n2, hn2⟩ := kwTail p ks' hks' [] [.mk none v] true rest (by simpa [kwFresh, kwNames] using hfr)
          refine ⟨n1 + n2 + 1, fun fuel hf => ?_⟩
          obtain ⟨f, rfl⟩ : ∃ f, fuel = f + 1 := ⟨fuel - 1, by omega⟩
          rw [toks_kws_dstar]
          simp only [unparseSeq, toks_nil, List.isEmpty_nil, if_true, List.nil_append, List.cons_append, List.append_assoc]
          rw [hcr, parseArgs_step _ _ _ _ _ (by intro r h; cases h), hn1 f (by omega)]
          simp only [List.nil_append]
          have := hn2 f (by omega)
          rw [hcr] at this
          rw [this]
          simp
        | some m =>
          obtain ⟨n1, hn1⟩ := arg_kw p m hv hc r' [] [] false (by simp [kwNames])
          obtain ⟨n2, hn2⟩ := kwTail p ks' hks' [] [.mk (some m) v] false rest (by
            simp [kwFresh] at hfr; simpa [kwNames] using hfr)
          refine ⟨n1 + n2 + 1, fun fuel hf => ?_⟩
          obtain ⟨f, rfl⟩ : ∃ f, fuel = f + 1 := ⟨fuel - 1, by omega⟩
          rw [toks_kws_named]
          simp only [unparseSeq, toks_nil, List.isEmpty_nil, if_true, List.nil_append, List.cons_append, List.append_assoc]
          rw [hcr, parseArgs_step _ _ _ _ _ (by intro r h; cases h), hn1 f (by omega)]
          simp only [List.nil_append]
          have := hn2 f (by omega)
          rw [hcr] at this
          rw [this]
          simp
  | cons x xs =>
    have hx := hargs x (List.mem_cons_self ..)
    obtain ⟨c, r', hcr, hc⟩ := next_after_pos p xs ks rest
    obtain ⟨n1, hn1⟩ := arg_pos p hx hc r' []
    obtain ⟨n2, hn2⟩ := posTail p xs (fun y hy => hargs y (List.mem_cons_of_mem _ hy)) ks hks hfr [x] rest
    obtain ⟨t, tr, ht, hg⟩ := hx.head
    refine ⟨n1 + n2 + 1, fun fuel hf => ?_⟩
    obtain ⟨f, rfl⟩ : ∃ f, fuel = f + 1 := ⟨fuel - 1, by omega⟩
    rw [toks_unparseSeq_cons]
    simp only [List.isEmpty_cons, List.append_assoc]
    rw [hcr, parseArgs_step _ _ _ _ _ (by
      intro r h; rw [ht] at h; simp at h; exact elemTok_not_close hg (o := .rpar) rfl h.1), hn1 f (by omega)]
    simp only [List.nil_append]
    have := hn2 f (by omega)
    rw [hcr] at this
    rw [this]
    simp

/-- the rendering of a call that is not the bare-generator form -/
theorem toks_call (p : Nat → Bool) (fn : Expr) (args : List Expr) (ks : List Keyword) (lvl : Nat)
    (h : ∀ e gs, ¬ (args = [.genExp e gs] ∧ ks = [])) :
    toks (unparse p (.call fn args ks) lvl) =
      toks (unparse p fn 15) ++ .op .lpar ::
        (toks (unparseSeq p args 1 true) ++ (toks (unparseKeywords p ks args.isEmpty) ++ [.op .rpar])) := by
  cases args with
  | nil => simp [unparse, Prec.ATOM, Prec.TEST, op]
  | cons a as =>
    cases as with
    | nil =>
      cases ks with
      | nil =>
        cases a <;> first
          | (exfalso; exact h _ _ ⟨rfl, rfl⟩)
          | simp [unparse, Prec.ATOM, Prec.TEST, op]
      | cons k ks' => cases a <;> simp [unparse, Prec.ATOM, Prec.TEST, op]
    | cons b bs => simp [unparse, Prec.ATOM, Prec.TEST, op]

theorem trailRT_call (p : Nat → Bool) (fn : Expr) (args : List Expr) (ks : List Keyword)
    (hgen : ∀ e gs, ¬ (args = [.genExp e gs] ∧ ks = []))
    (ihf : TrailRT p fn) (hargs : ∀ x ∈ args, ElemOK p x) (hks : GoodKws p ks) (hfr : kwFresh [] ks = true) :
    TrailRT p (.call fn args ks) := by
  intro rest _
  rw [toks_call p fn args ks 15 hgen, List.append_assoc, List.cons_append, List.append_assoc, List.append_assoc]
  obtain ⟨j, n1, h1⟩ := ihf (.op .lpar :: (toks (unparseSeq p args 1 true) ++
    (toks (unparseKeywords p ks args.isEmpty) ++ ([.op .rpar] ++ rest)))) (by intro t r h; cases h; rfl)
  obtain ⟨n2, h2⟩ := callArgsRT p args ks hargs hks hfr rest
  refine ⟨j + 1, n1 + n2, fun f hf => ?_⟩
  rw [show f + (j + 1) = (f + 1) + j by omega, h1 (f + 1) (by omega), parseTrailers]
  have := h2 f (by omega)
  simp only [List.singleton_append] at this ⊢
  rw [this]

/-! ## subscripts: operand, starred operand, slice, bare named expression, tuple of those -/

/-- what follows a subscript element: `,` or `]` -/
def subNext (c : Tok) : Prop := c = .op .comma ∨ c = .op .rsqb

theorem subNext.cont {c : Tok} (h : subNext c) (lvl : Nat) : contTok lvl c = false := by
  rcases h with rfl | rfl
  · exact contTok_comma lvl
  · exact contTok_rsqb lvl

/-- an optional bound of a slice -/
def GoodOpt (p : Nat → Bool) : Option Expr → Prop
  | none => True
  | some e => GoodP p e

/-- the `:step` part of a slice -/
def stepToks (p : Nat → Bool) : Option Expr → List Tok
  | none => []
  | some s => .op .colon :: toks (unparse p s 1)

theorem toks_slice (p : Nat → Bool) (lo hi st : Option Expr) (lvl : Nat) :
    toks (unparse p (.slice lo hi st) lvl) =
      toks (unparseOpt p lo 1) ++ .op .colon :: (toks (unparseOpt p hi 1) ++ stepToks p st) := by
  cases st <;> simp [unparse, stepToks, Prec.TEST, op]

/-- an operand followed by a token that ends it (`:`, `,`, `]`) is read by `Test` -/
theorem test_then (p : Nat → Bool) {e : Expr} (he : GoodP p e) {c : Tok} (hc : ∀ lvl, contTok lvl c = false)
    (rest : List Tok) : Parses parseTest (toks (unparse p e 1) ++ c :: rest) e (c :: rest) := by
  have h := he.good.rt 1 (c :: rest) (Nat.le_refl _) (by omega) (Stop.cons (hc 1))
  rwa [parseAt_1] at h

/-- `":" Test? SliceOp?` -/
theorem sliceRest (p : Nat → Bool) (lower hi st : Option Expr) (hhi : GoodOpt p hi) (hst : GoodOpt p st)
    {c : Tok} (hc : subNext c) (rest : List Tok) : ∃ n, ∀ f, n ≤ f →
      parseSliceRest f lower (.op .colon :: (toks (unparseOpt p hi 1) ++ (stepToks p st ++ c :: rest))) =
        some (.slice lower hi st, c :: rest) := by
  cases hi with
  | none =>
    cases st with
    | none =>
      refine ⟨1, fun fuel hf => ?_⟩
      obtain ⟨f, rfl, _⟩ := fuel_succ hf
      simp only [unparseOpt, toks_nil, stepToks, List.nil_append]
      rcases hc with rfl | rfl <;> simp [parseSliceRest]
    | some s =>
      obtain ⟨n, hn⟩ := test_then p hst (hc.cont) rest
      obtain ⟨t, tr, ht, hg⟩ := hst.plain.head 1 (by omega)
      refine ⟨n + 1, fun fuel hf => ?_⟩
      obtain ⟨f, rfl⟩ : ∃ f, fuel = f + 1 := ⟨fuel - 1, by omega⟩
      have hT := hn f (by omega)
      simp only [unparseOpt, toks_nil, stepToks, List.nil_append, List.cons_append]
      rw [ht] at hT ⊢
      simp only [List.cons_append] at hT ⊢
      rw [parseSliceRest]
      · rw [hT]
      all_goals (intro tail h; simp at h; obtain ⟨rfl, _⟩ := h; simp [goodHead] at hg)
  | some e =>
    obtain ⟨te, tre, hte, hge⟩ := hhi.plain.head 1 (by omega)
    cases st with
    | none =>
      obtain ⟨n, hn⟩ := test_then p hhi (hc.cont) rest
      refine ⟨n + 1, fun fuel hf => ?_⟩
      obtain ⟨f, rfl⟩ : ∃ f, fuel = f + 1 := ⟨fuel - 1, by omega⟩
      have hT := hn f (by omega)
      simp only [unparseOpt, stepToks, List.nil_append]
      rw [hte] at hT ⊢
      simp only [List.cons_append] at hT ⊢
      rw [parseSliceRest]
      · rw [hT]
        rcases hc with rfl | rfl <;> rfl
      all_goals (intro tail h; simp at h; obtain ⟨rfl, _⟩ := h; simp [goodHead] at hge)
    | some s =>
      obtain ⟨n1, hn1⟩ := test_then p hhi (c := .op .colon) (contTok_colon) (toks (unparse p s 1) ++ c :: rest)
      obtain ⟨n2, hn2⟩ := test_then p hst (hc.cont) rest
      obtain ⟨ts, trs, hts, hgs⟩ := hst.plain.head 1 (by omega)
      refine ⟨n1 + n2 + 1, fun fuel hf => ?_⟩
      obtain ⟨f, rfl⟩ : ∃ f, fuel = f + 1 := ⟨fuel - 1, by omega⟩
      have hT1 := hn1 f (by omega)
      have hT2 := hn2 f (by omega)
      simp only [unparseOpt, stepToks, List.cons_append]
      rw [hte, hts] at hT1 ⊢
      rw [hts] at hT2
      simp only [List.cons_append] at hT1 hT2 ⊢
      rw [parseSliceRest]
      · rw [hT1]
        simp only
        split
        · rename_i heq; simp at heq; obtain ⟨rfl, _⟩ := heq; simp [goodHead] at hgs
        · rename_i heq; simp at heq; obtain ⟨rfl, _⟩ := heq; simp [goodHead] at hgs
        · rw [hT2]
      all_goals (intro tail h; simp at h; obtain ⟨rfl, _⟩ := h; simp [goodHead] at hge)

/-- an operand rendered at any operand level and followed by a token that ends it is read by `Test` -/
theorem test_at (p : Nat → Bool) {e : Expr} (he : GoodP p e) (lvl : Nat) (h1 : 1 ≤ lvl) (h15 : lvl ≤ 15) {c : Tok}
    (hc : ∀ l, contTok l c = false) (rest : List Tok) :
    Parses parseTest (toks (unparse p e lvl) ++ c :: rest) e (c :: rest) := by
  obtain ⟨t, tr, ht, hg⟩ := he.plain.head lvl h1
  have h0 := he.good.rt lvl (c :: rest) h1 h15 (Stop.cons (hc lvl))
  rw [ht] at h0 ⊢
  have := lift (lvl := 1) (Nat.le_refl _) h1 h15 h0 hg (Stop.cons (hc 1))
  rwa [parseAt_1] at this

/-- an element of a subscript: an operand, a starred operand, or a slice -/
inductive SubElemOK (p : Nat → Bool) : Expr → Prop
  | plain {e : Expr} (h : GoodP p e) : SubElemOK p e
  | star {v : Expr} (h : GoodP p v) : SubElemOK p (.starred v)
  | slice {lo hi st : Option Expr} (hlo : GoodOpt p lo) (hhi : GoodOpt p hi) (hst : GoodOpt p st) :
      SubElemOK p (.slice lo hi st)

/-- tokens a subscript element can begin with -/
def subTok (t : Tok) : Prop := goodHead 1 t = true ∨ t = .op .star ∨ t = .op .colon

theorem SubElemOK.head {p : Nat → Bool} {s : Expr} (h : SubElemOK p s) :
    ∃ t r, toks (unparse p s 1) = t :: r ∧ subTok t := by
  cases h with
  | plain h =>
    obtain ⟨t, r, ht, hg⟩ := h.plain.head 1 (by omega)
    exact ⟨t, r, ht, Or.inl hg⟩
  | star h => exact ⟨.op .star, _, toks_starred p _ 1, Or.inr (Or.inl rfl)⟩
  | slice hlo hhi hst =>
    rename_i lo hi st
    rw [toks_slice]
    cases lo with
    | none => exact ⟨.op .colon, toks (unparseOpt p hi 1) ++ stepToks p st, by simp [unparseOpt], Or.inr (Or.inr rfl)⟩
    | some e =>
      obtain ⟨t, r, ht, hg⟩ := hlo.plain.head 1 (by omega)
      exact ⟨t, r ++ .op .colon :: (toks (unparseOpt p hi 1) ++ stepToks p st), by simp [unparseOpt, ht], Or.inl hg⟩

theorem subTok_ne_rsqb {t : Tok} (h : subTok t) : t ≠ .op .rsqb := by
  rintro rfl
  rcases h with h | h | h
  · simp [goodHead] at h
  · cases h
  · cases h

/-- one `Subscript`, followed by `,` or `]` -/
theorem subElem_parse (p : Nat → Bool) {s : Expr} (h : SubElemOK p s) {c : Tok} (hc : subNext c) (rest : List Tok) :
    ∃ n, ∀ f, n ≤ f → parseSubscript f (toks (unparse p s 1) ++ c :: rest) = some (s, c :: rest) := by
  have hcw : c ≠ .op .walrus := by rcases hc with rfl | rfl <;> simp
  have hca : c ≠ .op .assign := by rcases hc with rfl | rfl <;> simp
  have hcc : ∀ r, c :: rest ≠ .op .colon :: r := by
    intro r h; rcases hc with rfl | rfl <;> simp at h
  cases h with
  | plain h =>
    obtain ⟨t, tr, ht, hg⟩ := h.plain.head 1 (by omega)
    obtain ⟨n, hn⟩ := test_then p h (hc.cont) rest
    have hnb := (h.plain.nobind 1 (Nat.le_refl _)).append (h.plain.ne_nil 1 (Nat.le_refl _)) hcw hca rest
    refine ⟨n + 1, fun fuel hf => ?_⟩
    obtain ⟨f, rfl⟩ : ∃ f, fuel = f + 1 := ⟨fuel - 1, by omega⟩
    have hT := hn f (by omega)
    rw [ht] at hT hnb ⊢
    unfold parseSubscript
    split
    · omega
    · rename_i heq; simp at heq; obtain ⟨rfl, _⟩ := heq; simp [goodHead] at hg
    · rename_i heq; simp at heq; obtain ⟨rfl, _⟩ := heq; simp [goodHead] at hg
    · rename_i heq; exact absurd heq (hnb.walrus _ _)
    · rename_i f' hfe _ _ _
      obtain rfl : f' = f := by omega
      rw [hT]
      split
      · rename_i heq; simp at heq; obtain ⟨_, rfl, rfl⟩ := heq; exact absurd rfl (hcc _)
      · rfl
  | star h =>
    rename_i v
    obtain ⟨n, hn⟩ := elem_starOrNamed p (ElemOK.star h) (hc.cont) hcw hca rest
    refine ⟨n + 1, fun fuel hf => ?_⟩
    obtain ⟨f, rfl⟩ : ∃ f, fuel = f + 1 := ⟨fuel - 1, by omega⟩
    have := hn f (by omega)
    rw [toks_starred, List.cons_append] at this ⊢
    rw [parseSubscript, this]
  | slice hlo hhi hst =>
    rename_i lo hi st
    rw [toks_slice]
    cases lo with
    | none =>
      obtain ⟨n, hn⟩ := sliceRest p none hi st hhi hst hc rest
      refine ⟨n + 1, fun fuel hf => ?_⟩
      obtain ⟨fuel', rfl⟩ : ∃ f, fuel = f + 1 := ⟨fuel - 1, by omega⟩
      simp only [unparseOpt, toks_nil, List.nil_append, List.cons_append, List.append_assoc]
      rw [parseSubscript, hn fuel' (by omega)]
    | some e =>
      obtain ⟨t, tr, ht, hg⟩ := hlo.plain.head 1 (by omega)
      obtain ⟨n1, hn1⟩ := test_then p hlo (c := .op .colon) contTok_colon
        (toks (unparseOpt p hi 1) ++ (stepToks p st ++ c :: rest))
      obtain ⟨n2, hn2⟩ := sliceRest p (some e) hi st hhi hst hc rest
      have hnb := (hlo.plain.nobind 1 (Nat.le_refl _)).append (hlo.plain.ne_nil 1 (Nat.le_refl _)) (c := .op .colon) (by simp) (by simp)
        (toks (unparseOpt p hi 1) ++ (stepToks p st ++ c :: rest))
      refine ⟨n1 + n2 + 1, fun fuel hf => ?_⟩
      obtain ⟨f, rfl⟩ : ∃ f, fuel = f + 1 := ⟨fuel - 1, by omega⟩
      have hT := hn1 f (by omega)
      have hS := hn2 f (by omega)
      simp only [unparseOpt, List.cons_append, List.append_assoc]
      rw [ht] at hT hnb ⊢
      unfold parseSubscript
      split
      · omega
      · rename_i heq; simp at heq; obtain ⟨rfl, _⟩ := heq; simp [goodHead] at hg
      · rename_i heq; simp at heq; obtain ⟨rfl, _⟩ := heq; simp [goodHead] at hg
      · rename_i heq; exact absurd heq (hnb.walrus _ _)
      · rename_i f' hfe _ _ _
        obtain rfl : f' = f := by omega
        rw [hT]
        simp only
        rw [hS]

/-- what the induction gives for the index of a subscript: `SubscriptList "]"` reads its rendering back -/
def SubOK (p : Nat → Bool) (s : Expr) : Prop :=
  ∀ rest, ∃ n, ∀ f, n ≤ f → parseSubscriptList f (toks (unparse p s 0) ++ .op .rsqb :: rest) = some (s, rest)

/-- a single element whose rendering does not depend on the level 0 / 1 -/
theorem subOK_of_elem (p : Nat → Bool) {s : Expr} (h : SubElemOK p s) (h01 : unparse p s 0 = unparse p s 1)
    (hns : isStarred s = false) : SubOK p s := by
  intro rest
  obtain ⟨n, hn⟩ := subElem_parse p h (c := .op .rsqb) (Or.inr rfl) rest
  refine ⟨n + 1, fun fuel hf => ?_⟩
  obtain ⟨f, rfl⟩ : ∃ f, fuel = f + 1 := ⟨fuel - 1, by omega⟩
  rw [h01, parseSubscriptList, hn f (by omega)]
  simp [hns]

-- (`x[*a]`): since the /repo fix of `SubscriptList` a single starred index is read as the 1-tuple `Tuple [Starred a]`
-- (as in CPython), so a bare `Starred` directly under `Subscript` is no longer parser-producible and is not in the
-- fragment (`fx .sub (.starred _) = false`); the 1-tuple is rendered `x[*a,]` and covered by `subOK_tuple`.

theorem subOK_slice (p : Nat → Bool) {lo hi st : Option Expr} (hlo : GoodOpt p lo) (hhi : GoodOpt p hi)
    (hst : GoodOpt p st) : SubOK p (.slice lo hi st) :=
  subOK_of_elem p (SubElemOK.slice hlo hhi hst) (by cases st <;> simp [unparse]) rfl

/-- `x[n := v]`: the bare named expression -/
theorem subOK_named (p : Nat → Bool) (n : Ident) {v : Expr} (hv : GoodP p v) : SubOK p (.namedExpr (.name n) v) := by
  intro rest
  obtain ⟨m, hm⟩ := test_at p hv 15 (by omega) (by omega) (c := .op .rsqb) contTok_rsqb rest
  have e1 : toks (unparse p (.namedExpr (.name n) v) 0) ++ .op .rsqb :: rest =
      .name n :: .op .walrus :: (toks (unparse p v 15) ++ .op .rsqb :: rest) := by
    simp [unparse, groupIf, Prec.TUPLE, Prec.ATOM, op]
  refine ⟨m + 3, fun fuel hf => ?_⟩
  obtain ⟨f, rfl⟩ : ∃ f, fuel = f + 3 := ⟨fuel - 3, by omega⟩
  rw [e1, parseSubscriptList, parseSubscript, parseNamedTest, hm f (by omega)]
  rfl

/-- the remaining elements of a tuple index -/
theorem subscriptsRT (p : Nat → Bool) : (xs : List Expr) → (∀ x ∈ xs, SubElemOK p x) → ∀ (x : Expr), SubElemOK p x →
    ∀ rest, ∃ n, ∀ f, n ≤ f →
      parseSubscripts f (toks (unparse p x 1) ++ (toks (unparseSeq p xs 1 false) ++ .op .rsqb :: rest)) =
        some (x :: xs, rest)
  | [], _, x, hx, rest => by
    obtain ⟨n, hn⟩ := subElem_parse p hx (c := .op .rsqb) (Or.inr rfl) rest
    refine ⟨n + 1, fun fuel hf => ?_⟩
    obtain ⟨f, rfl⟩ : ∃ f, fuel = f + 1 := ⟨fuel - 1, by omega⟩
    simp only [unparseSeq, toks_nil, List.nil_append]
    rw [parseSubscripts, hn f (by omega)]
  | y :: ys, hys, x, hx, rest => by
    have hy := hys y (List.mem_cons_self ..)
    obtain ⟨t, tr, ht, hg⟩ := hy.head
    obtain ⟨n1, hn1⟩ := subElem_parse p hx (c := .op .comma) (Or.inl rfl)
      (toks (unparse p y 1) ++ (toks (unparseSeq p ys 1 false) ++ .op .rsqb :: rest))
    obtain ⟨n2, hn2⟩ := subscriptsRT p ys (fun z hz => hys z (List.mem_cons_of_mem _ hz)) y hy rest
    refine ⟨n1 + n2 + 1, fun fuel hf => ?_⟩
    obtain ⟨f, rfl⟩ : ∃ f, fuel = f + 1 := ⟨fuel - 1, by omega⟩
    rw [toks_unparseSeq_cons', List.cons_append, List.append_assoc, parseSubscripts, hn1 f (by omega)]
    have h2 := hn2 f (by omega)
    rw [ht] at h2 ⊢
    simp only [List.cons_append] at h2 ⊢
    split
    · rename_i heq; simp at heq
    · rename_i heq; simp at heq; exact absurd heq.2.1 (subTok_ne_rsqb hg)
    · rename_i heq
      simp at heq
      obtain ⟨rfl, rfl⟩ := heq
      rw [h2]
    · rename_i h3; exact (h3 _ _ rfl).elim

/-- a tuple index -/
theorem subOK_tuple (p : Nat → Bool) (x : Expr) (xs : List Expr) (hxs : ∀ y ∈ x :: xs, SubElemOK p y) :
    SubOK p (.tuple (x :: xs)) := by
  intro rest
  have hx := hxs x (List.mem_cons_self ..)
  cases xs with
  | nil =>
    obtain ⟨n, hn⟩ := subElem_parse p hx (c := .op .comma) (Or.inl rfl) (.op .rsqb :: rest)
    have e1 : toks (unparse p (.tuple [x]) 0) ++ .op .rsqb :: rest =
        toks (unparse p x 1) ++ .op .comma :: .op .rsqb :: rest := by
      simp [unparse, groupIf, unparseSeq, delim, Prec.TUPLE, Prec.TEST, op]
    refine ⟨n + 1, fun fuel hf => ?_⟩
    obtain ⟨f, rfl⟩ : ∃ f, fuel = f + 1 := ⟨fuel - 1, by omega⟩
    rw [e1, parseSubscriptList, hn f (by omega)]
  | cons y ys =>
    have hy := hxs y (List.mem_cons_of_mem _ (List.mem_cons_self ..))
    obtain ⟨t, tr, ht, hg⟩ := hy.head
    obtain ⟨n1, hn1⟩ := subElem_parse p hx (c := .op .comma) (Or.inl rfl)
      (toks (unparse p y 1) ++ (toks (unparseSeq p ys 1 false) ++ .op .rsqb :: rest))
    obtain ⟨n2, hn2⟩ := subscriptsRT p ys
      (fun z hz => hxs z (List.mem_cons_of_mem _ (List.mem_cons_of_mem _ hz))) y hy rest
    have e1 : toks (unparse p (.tuple (x :: y :: ys)) 0) ++ .op .rsqb :: rest =
        toks (unparse p x 1) ++ .op .comma :: (toks (unparse p y 1) ++ (toks (unparseSeq p ys 1 false) ++ .op .rsqb :: rest)) := by
      simp [unparse, groupIf, unparseSeq, delim, Prec.TUPLE, Prec.TEST, op]
    refine ⟨n1 + n2 + 1, fun fuel hf => ?_⟩
    obtain ⟨f, rfl⟩ : ∃ f, fuel = f + 1 := ⟨fuel - 1, by omega⟩
    rw [e1, parseSubscriptList, hn1 f (by omega)]
    have h2 := hn2 f (by omega)
    rw [ht] at h2 ⊢
    simp only [List.cons_append] at h2 ⊢
    split
    · rename_i heq; simp at heq
    · rename_i heq; simp at heq; exact absurd heq.2.1 (subTok_ne_rsqb hg)
    · rename_i heq
      simp at heq
      obtain ⟨rfl, rfl⟩ := heq
      rw [h2]
    · rename_i h3; exact (h3 _ _ rfl).elim

theorem trailRT_subscript (p : Nat → Bool) (v s : Expr) (ihv : TrailRT p v) (ihs : SubOK p s) :
    TrailRT p (.subscript v s) := by
  intro rest _
  have e1 : toks (unparse p (.subscript v s) 15) ++ rest =
      toks (unparse p v 15) ++ .op .lsqb :: (toks (unparse p s 0) ++ .op .rsqb :: rest) := by
    simp [unparse, Prec.ATOM, Prec.TUPLE, op]
  obtain ⟨j, n1, h1⟩ := ihv (.op .lsqb :: (toks (unparse p s 0) ++ .op .rsqb :: rest)) (by intro t r h; cases h; rfl)
  obtain ⟨n2, h2⟩ := ihs rest
  refine ⟨j + 1, n1 + n2, fun f hf => ?_⟩
  rw [e1, show f + (j + 1) = (f + 1) + j by omega, h1 (f + 1) (by omega), parseTrailers, h2 f (by omega)]

/-! ## named expressions: always written `(n := v)` in an operand position -/

theorem toks_named (p : Nat → Bool) (n : Ident) (v : Expr) (lvl : Nat) (h1 : 1 ≤ lvl) :
    toks (unparse p (.namedExpr (.name n) v) lvl) =
      .op .lpar :: .name n :: .op .walrus :: (toks (unparse p v 15) ++ [.op .rpar]) := by
  have : decide (lvl > Prec.TUPLE) = true := by simp [Prec.TUPLE]; omega
  simp [unparse, groupIf, this, Prec.ATOM, op]

theorem atomRT_named (p : Nat → Bool) (n : Ident) {v : Expr} (hv : GoodP p v) : AtomRT p (.namedExpr (.name n) v) := by
  intro rest _
  obtain ⟨m, hm⟩ := test_at p hv 15 (by omega) (by omega) (c := .op .rpar) contTok_rpar rest
  rw [toks_named p n v 15 (by omega)]
  refine ⟨m + 6, fun fuel hf => ?_⟩
  obtain ⟨f, rfl⟩ : ∃ f, fuel = f + 6 := ⟨fuel - 6, by omega⟩
  have hT := hm (f + 2) (by omega)
  simp only [List.cons_append, List.append_assoc, List.nil_append]
  rw [parseAtom, parseParenAtom, parseStarOrNamed, parseNamedTest, hT]
  · simp [atCompFor, parseElems, isStarred]
  all_goals (intro r h; cases h)

theorem plain_named (p : Nat → Bool) (n : Ident) (v : Expr) : Plain p (.namedExpr (.name n) v) where
  head := fun lvl h => ⟨.op .lpar, _, toks_named p n v lvl h, rfl⟩
  nobind := fun lvl h => by
    rw [toks_named p n v lvl h]
    exact NoBind.of_head (by intro m; simp)
  ns := rfl

theorem good_named (p : Nat → Bool) (n : Ident) {v : Expr} (hv : GoodP p v) : GoodP p (.namedExpr (.name n) v) where
  good := good_of_trail' p
    (fun lvl h1 => by
      rw [unparse_group p _ lvl Prec.TUPLE rfl, unparse_group p _ 15 Prec.TUPLE rfl]
      have : decide (lvl > Prec.TUPLE) = decide (15 > Prec.TUPLE) := by simp [Prec.TUPLE]; omega
      rw [this])
    (fun k => by simp [kindOf, kindPrec, Prec.TUPLE])
    ⟨.op .lpar, _, toks_named p n v 15 (by omega), rfl⟩
    (trailRT_of_atomRT (atomRT_named p n hv))
  plain := plain_named p n v

/-! ## `yield` with a value: an operand or a starred operand -/

theorem atomRT_yieldSome (p : Nat → Bool) {x : Expr} (hx : ElemOK p x) : AtomRT p (.yield (some x)) := by
  intro rest _
  obtain ⟨t, tr, ht, hg⟩ := hx.head
  have e1 : toks (unparse p (.yield (some x)) 15) ++ rest =
      .op .lpar :: .kw .yield :: (toks (unparse p x 1) ++ .op .rpar :: rest) := by
    simp [unparse, op, kw, Prec.TEST]
  -- `TestOrStarExpr`
  have hTS : ∃ n, ∀ f, n ≤ f →
      parseTestOrStar f (toks (unparse p x 1) ++ .op .rpar :: rest) = some (x, .op .rpar :: rest) := by
    cases hx with
    | plain h =>
      obtain ⟨n, hn⟩ := test_then p h (c := .op .rpar) contTok_rpar rest
      obtain ⟨t', tr', ht', hg'⟩ := h.plain.head 1 (by omega)
      refine ⟨n + 1, fun fuel hf => ?_⟩
      obtain ⟨f, rfl⟩ : ∃ f, fuel = f + 1 := ⟨fuel - 1, by omega⟩
      have hT := hn f (by omega)
      rw [ht'] at hT ⊢
      unfold parseTestOrStar
      split
      · omega
      · rename_i heq; simp at heq; obtain ⟨rfl, _⟩ := heq; simp [goodHead] at hg'
      · rename_i f' hfe _
        obtain rfl : f' = f := by omega
        exact hT
    | star h =>
      rename_i v
      have h0 := h.good.rt 6 (.op .rpar :: rest) (by omega) (by omega) (Stop.cons (contTok_rpar 6))
      rw [parseAt_bin (k := 0) (by omega)] at h0
      obtain ⟨n, hn⟩ := h0
      refine ⟨n + 1, fun fuel hf => ?_⟩
      obtain ⟨f, rfl⟩ : ∃ f, fuel = f + 1 := ⟨fuel - 1, by omega⟩
      rw [toks_starred, List.cons_append, parseTestOrStar, hn f (by omega)]
  obtain ⟨n, hn⟩ := hTS
  refine ⟨n + 4, fun fuel hf => ?_⟩
  obtain ⟨f, rfl⟩ : ∃ f, fuel = f + 4 := ⟨fuel - 4, by omega⟩
  have hTL : parseTestList (f + 1) (toks (unparse p x 1) ++ .op .rpar :: rest) = some (x, .op .rpar :: rest) := by
    rw [parseTestList, hn f (by omega)]
  rw [e1, parseAtom, parseParenAtom]
  rw [ht] at hTL ⊢
  unfold parseYieldAtom
  split
  · omega
  · rename_i heq; simp at heq; exact absurd heq.1 (elemTok_not_kw' hg)
  · rename_i heq; simp at heq; exact absurd heq.1 (elemTok_not_close hg rfl)
  · rename_i f' hfe _ _
    obtain rfl : f' = f + 1 := by omega
    rw [hTL]
where
  elemTok_not_kw' {t : Tok} (h : elemTok t) : t ≠ .kw .from := by
    rintro rfl
    rcases h with h | h
    · simp [goodHead] at h
    · cases h

end PV.C11
