import PV.C11.Lemmas
/-
  C11 — helper lemmas, part 2: element lists with `Starred` elements, call arguments (positional, starred, keyword,
  `**`, the bare generator argument), subscripts (slices, tuples of slices, starred, bare named expression),
  named expressions, `yield` values.
-/
namespace PV.C11
open PV.Expr

/-! ## elements: an operand or `*operand` -/

/-- what the induction gives for an operand: the three parsing forms and the facts about its first tokens -/
structure GoodP (p : Nat → Bool) (e : Expr) : Prop where
  good : Good p e
  plain : Plain p e

/-- an element of a display, an argument list, a `yield` value: an operand, or a starred operand -/
inductive ElemOK (p : Nat → Bool) : Expr → Prop
  | plain {e : Expr} (h : GoodP p e) : ElemOK p e
  | star {v : Expr} (h : GoodP p v) : ElemOK p (.starred v)

/-- tokens an element can begin with -/
def elemTok (t : Tok) : Prop := goodHead 1 t = true ∨ t = .op .star

theorem toks_starred (p : Nat → Bool) (v : Expr) (lvl : Nat) :
    toks (unparse p (.starred v) lvl) = .op .star :: toks (unparse p v 6) := by
  simp [unparse, Prec.EXPR, Prec.BOR, op]

theorem ElemOK.head {p : Nat → Bool} {x : Expr} (h : ElemOK p x) (lvl : Nat) (h1 : lvl ≤ 1) :
    ∃ t r, toks (unparse p x lvl) = t :: r ∧ elemTok t := by
  cases h with
  | plain h =>
    obtain ⟨t, r, ht, hg⟩ := h.plain.head lvl
    exact ⟨t, r, ht, Or.inl (goodHead_anti_le h1 hg)⟩
  | star h => exact ⟨.op .star, _, toks_starred p _ lvl, Or.inr rfl⟩
where
  goodHead_anti_le {lvl : Nat} {t : Tok} (h1 : lvl ≤ 1) (hg : goodHead lvl t = true) : goodHead 1 t = true := by
    have : lvl = 0 ∨ lvl = 1 := by omega
    rcases this with rfl | rfl
    · unfold goodHead at *; split at hg <;> simp_all
    · exact hg

theorem elemTok_not_close {t : Tok} (h : elemTok t) {o : Op} (ho : isClose o = true) : t ≠ .op o := by
  rintro rfl
  rcases h with h | h
  · cases o <;> simp [isClose] at ho <;> simp [goodHead] at h
  · cases h; simp [isClose] at ho

theorem elemTok_not_kw {t : Tok} (h : elemTok t) {k : Kw} (hk : k = .yield ∨ k = .for ∨ k = .async ∨ k = .if ∨ k = .in) :
    t ≠ .kw k := by
  rintro rfl
  rcases h with h | h
  · rcases hk with rfl | rfl | rfl | rfl | rfl <;> simp [goodHead] at h
  · cases h

/-- one element of a display, followed by `,` or a closing bracket -/
theorem elem_starOrNamed (p : Nat → Bool) {x : Expr} (hx : ElemOK p x) {c : Tok}
    (hc : ∀ lvl, contTok lvl c = false) (hcw : c ≠ .op .walrus) (hca : c ≠ .op .assign) (rest : List Tok) :
    ∃ n, ∀ f, n ≤ f → parseStarOrNamed f (toks (unparse p x 1) ++ c :: rest) = some (x, c :: rest) := by
  cases hx with
  | plain h =>
    obtain ⟨t, r, ht, hg⟩ := h.plain.head 1
    have h0 := h.good.rt 1 (c :: rest) (Nat.le_refl _) (by omega) (Stop.cons (hc 1))
    rw [parseAt_1] at h0
    obtain ⟨n, hn⟩ := h0
    refine ⟨n + 2, fun fuel hf => ?_⟩
    obtain ⟨f, rfl⟩ : ∃ f, fuel = f + 2 := ⟨fuel - 2, by omega⟩
    have hT := hn f (by omega)
    have hw := ((h.plain.nobind 1 (Nat.le_refl _)).append (h.plain.ne_nil 1) hcw hca rest).walrus
    rw [ht] at hT hw ⊢
    exact starOrNamed_of_test hT hg hw
  | star h =>
    rename_i v
    have h0 := h.good.rt 6 (c :: rest) (by omega) (by omega) (Stop.cons (hc 6))
    rw [parseAt_bin (k := 0) (by omega)] at h0
    obtain ⟨n, hn⟩ := h0
    refine ⟨n + 1, fun fuel hf => ?_⟩
    obtain ⟨f, rfl⟩ : ∃ f, fuel = f + 1 := ⟨fuel - 1, by omega⟩
    rw [toks_starred, List.cons_append, parseStarOrNamed, hn f (by omega)]

/-- the elements after the first one, up to the closing bracket -/
theorem elemsRT (p : Nat → Bool) (close : Op) (hcl : isClose close = true) : (xs : List Expr) →
    (∀ x ∈ xs, ElemOK p x) → ∀ rest, ∃ n, ∀ f, n ≤ f →
      parseElems f close (toks (unparseSeq p xs 1 false) ++ .op close :: rest) = some ((xs, !xs.isEmpty), rest)
  | [], _, rest => by
    refine ⟨1, fun fuel hf => ?_⟩
    obtain ⟨f, rfl, _⟩ := fuel_succ hf
    simp only [unparseSeq, toks_nil, List.nil_append]
    rw [parseElems_close f close (by cases close <;> simp [isClose] at hcl ⊢)]
    rfl
  | x :: xs, hxs, rest => by
    have hx := hxs x (List.mem_cons_self ..)
    obtain ⟨n2, hn2⟩ := elemsRT p close hcl xs (fun y hy => hxs y (List.mem_cons_of_mem _ hy)) rest
    -- what follows `x`: a comma (more elements) or the closing bracket
    have hnext : ∃ c r', toks (unparseSeq p xs 1 false) ++ .op close :: rest = c :: r' ∧ (∀ lvl, contTok lvl c = false) ∧
        c ≠ .op .walrus ∧ c ≠ .op .assign := by
      cases xs with
      | nil =>
        exact ⟨.op close, rest, by simp [unparseSeq], fun l => contTok_close hcl l,
          by cases close <;> simp [isClose] at hcl ⊢, by cases close <;> simp [isClose] at hcl ⊢⟩
      | cons y ys => exact ⟨.op .comma, _, by rw [toks_unparseSeq_cons']; rfl, fun l => contTok_comma l, by simp, by simp⟩
    obtain ⟨c, r', hcr, hc, hcw, hca⟩ := hnext
    obtain ⟨n1, hn1⟩ := elem_starOrNamed p hx hc hcw hca r'
    obtain ⟨t, tr, ht, hg⟩ := hx.head 1 (Nat.le_refl _)
    refine ⟨n1 + n2 + 1, fun fuel hf => ?_⟩
    obtain ⟨f, rfl⟩ : ∃ f, fuel = f + 1 := ⟨fuel - 1, by omega⟩
    rw [toks_unparseSeq_cons', List.cons_append, List.append_assoc, hcr]
    have hs := hn1 f (by omega)
    have he := hn2 f (by omega)
    rw [hcr] at he
    unfold parseElems
    split
    · rename_i o r0 heq
      rw [ht] at heq
      simp at heq
      obtain ⟨rfl, _⟩ := heq
      have hne : o ≠ close := by
        intro h; subst h
        exact elemTok_not_close hg hcl rfl
      rw [if_neg hne, hs]
      simp only
      rw [he]
      simp
    · rw [hs]
      simp only
      rw [he]
      simp

/-- what follows the first element of a non-empty display -/
theorem after_first (p : Nat → Bool) (close : Op) (hcl : isClose close = true) (xs : List Expr) (rest : List Tok) :
    ∃ c r', toks (unparseSeq p xs 1 false) ++ .op close :: rest = c :: r' ∧ (∀ lvl, contTok lvl c = false) ∧
      c ≠ .op .walrus ∧ c ≠ .op .assign ∧ atCompFor (c :: r') = false ∧ (∀ r1, c :: r' ≠ .op .colon :: r1) := by
  cases xs with
  | nil =>
    refine ⟨.op close, rest, by simp [unparseSeq], fun l => contTok_close hcl l, ?_, ?_, ?_, ?_⟩ <;>
      cases close <;> simp [isClose] at hcl ⊢ <;> rfl
  | cons y ys =>
    exact ⟨.op .comma, _, by rw [toks_unparseSeq_cons']; rfl, fun l => contTok_comma l, by simp, by simp, rfl, by simp⟩

theorem atomRT_list (p : Nat → Bool) (xs : List Expr) (hxs : ∀ x ∈ xs, ElemOK p x) :
    AtomRT p (.list xs) := by
  intro rest _
  cases xs with
  | nil =>
    refine parses_of_eq 2 (fun f => ?_)
    simp [unparse, unparseSeq, op, parseAtom, parseListAtom]
  | cons x xs =>
    have hx := hxs x (List.mem_cons_self ..)
    obtain ⟨c, r', hcr, hc, hcw, hca, hcomp, _⟩ := after_first p .rsqb rfl xs rest
    obtain ⟨n1, hn1⟩ := elem_starOrNamed p hx hc hcw hca r'
    obtain ⟨n2, hn2⟩ := elemsRT p .rsqb rfl xs (fun y hy => hxs y (List.mem_cons_of_mem _ hy)) rest
    obtain ⟨t, tr, ht, hg⟩ := hx.head 1 (Nat.le_refl _)
    have e1 : toks (unparse p (.list (x :: xs)) 15) ++ rest =
        .op .lsqb :: (toks (unparse p x 1) ++ (toks (unparseSeq p xs 1 false) ++ .op .rsqb :: rest)) := by
      simp [unparse, toks_unparseSeq_cons, Prec.TEST, op]
    refine ⟨n1 + n2 + 2, fun fuel hf => ?_⟩
    obtain ⟨f, rfl⟩ : ∃ f, fuel = f + 2 := ⟨fuel - 2, by omega⟩
    have hs := hn1 f (by omega)
    have he := hn2 f (by omega)
    rw [e1, hcr, parseAtom]
    rw [hcr] at he
    unfold parseListAtom
    split
    · omega
    · rename_i heq; rw [ht] at heq; simp at heq; exact absurd heq.1 (elemTok_not_close hg rfl)
    · rename_i f' hfe _
      obtain rfl : f' = f := by omega
      rw [hs]
      simp only [hcomp, Bool.false_eq_true, if_false]
      rw [he]

theorem atomRT_tuple (p : Nat → Bool) (xs : List Expr) (hxs : ∀ x ∈ xs, ElemOK p x) :
    AtomRT p (.tuple xs) := by
  intro rest _
  cases xs with
  | nil =>
    refine parses_of_eq 2 (fun f => ?_)
    simp [unparse, op, parseAtom, parseParenAtom]
  | cons x xs =>
    have hx := hxs x (List.mem_cons_self ..)
    obtain ⟨t, tr, ht, hg⟩ := hx.head 1 (Nat.le_refl _)
    cases xs with
    | nil =>
      -- `(x,)`
      obtain ⟨n1, hn1⟩ := elem_starOrNamed p hx (fun l => contTok_comma l) (by simp) (by simp) (.op .rpar :: rest)
      have e1 : toks (unparse p (.tuple [x]) 15) ++ rest =
          .op .lpar :: (toks (unparse p x 1) ++ .op .comma :: .op .rpar :: rest) := by
        simp [unparse, groupIf, unparseSeq, delim, Prec.TUPLE, Prec.TEST, op]
      refine ⟨n1 + 3, fun fuel hf => ?_⟩
      obtain ⟨f, rfl⟩ : ∃ f, fuel = f + 3 := ⟨fuel - 3, by omega⟩
      have hs := hn1 (f + 1) (by omega)
      rw [e1, parseAtom]
      unfold parseParenAtom
      split
      · omega
      · rename_i heq; rw [ht] at heq; simp at heq; exact absurd heq.1 (elemTok_not_close hg rfl)
      · rename_i heq; rw [ht] at heq; simp at heq; exact absurd heq.1 (elemTok_not_kw hg (Or.inl rfl))
      · rename_i f' hfe _ _
        obtain rfl : f' = f + 1 := by omega
        rw [hs]
        simp [atCompFor, parseElems]
    | cons y ys =>
      obtain ⟨c, r', hcr, hc, hcw, hca, hcomp, _⟩ := after_first p .rpar rfl (y :: ys) rest
      obtain ⟨n1, hn1⟩ := elem_starOrNamed p hx hc hcw hca r'
      obtain ⟨n2, hn2⟩ := elemsRT p .rpar rfl (y :: ys) (fun z hz => hxs z (List.mem_cons_of_mem _ hz)) rest
      have e1 : toks (unparse p (.tuple (x :: y :: ys)) 15) ++ rest =
          .op .lpar :: (toks (unparse p x 1) ++ (toks (unparseSeq p (y :: ys) 1 false) ++ .op .rpar :: rest)) := by
        simp [unparse, groupIf, toks_unparseSeq_cons, Prec.TUPLE, Prec.TEST, op]
      refine ⟨n1 + n2 + 2, fun fuel hf => ?_⟩
      obtain ⟨f, rfl⟩ : ∃ f, fuel = f + 2 := ⟨fuel - 2, by omega⟩
      have hs := hn1 f (by omega)
      have he := hn2 f (by omega)
      rw [e1, hcr, parseAtom]
      rw [hcr] at he
      unfold parseParenAtom
      split
      · omega
      · rename_i heq; rw [ht] at heq; simp at heq; exact absurd heq.1 (elemTok_not_close hg rfl)
      · rename_i heq; rw [ht] at heq; simp at heq; exact absurd heq.1 (elemTok_not_kw hg (Or.inl rfl))
      · rename_i f' hfe _ _
        obtain rfl : f' = f := by omega
        rw [hs]
        simp only [hcomp, Bool.false_eq_true, if_false]
        rw [he]

/-- the first element after `{` that is not a dict key: `parseBraceFirst` -/
theorem braceFirst_elem (p : Nat → Bool) {x : Expr} (hx : ElemOK p x) {c : Tok}
    (hc : ∀ lvl, contTok lvl c = false) (hcw : c ≠ .op .walrus) (hca : c ≠ .op .assign) (rest : List Tok) :
    ∃ n, ∀ f, n ≤ f → ∃ b, parseBraceFirst f (toks (unparse p x 1) ++ c :: rest) = some (x, b, c :: rest) := by
  cases hx with
  | plain h =>
    obtain ⟨t, r, ht, hg⟩ := h.plain.head 1
    have h0 := h.good.rt 1 (c :: rest) (Nat.le_refl _) (by omega) (Stop.cons (hc 1))
    rw [parseAt_1] at h0
    obtain ⟨n, hn⟩ := h0
    refine ⟨n + 1, fun fuel hf => ?_⟩
    obtain ⟨f, rfl⟩ : ∃ f, fuel = f + 1 := ⟨fuel - 1, by omega⟩
    have hT := hn f (by omega)
    have hw := ((h.plain.nobind 1 (Nat.le_refl _)).append (h.plain.ne_nil 1) hcw hca rest).walrus
    rw [ht] at hT hw ⊢
    refine ⟨true, ?_⟩
    unfold parseBraceFirst
    split
    · omega
    · rename_i heq2; simp at heq2; obtain ⟨rfl, _⟩ := heq2; simp [goodHead] at hg
    · rename_i heq2; exact absurd heq2 (hw _ _)
    · rename_i f' hfe _ _
      obtain rfl : f' = f := by omega
      rw [hT]
  | star h =>
    rename_i v
    obtain ⟨n, hn⟩ := elem_starOrNamed p (ElemOK.star h) hc hcw hca rest
    refine ⟨n + 1, fun fuel hf => ?_⟩
    obtain ⟨f, rfl⟩ : ∃ f, fuel = f + 1 := ⟨fuel - 1, by omega⟩
    have := hn f (by omega)
    rw [toks_starred, List.cons_append] at this ⊢
    exact ⟨false, by rw [parseBraceFirst, this]⟩

theorem atomRT_set (p : Nat → Bool) (x : Expr) (xs : List Expr) (hxs : ∀ y ∈ x :: xs, ElemOK p y) :
    AtomRT p (.set (x :: xs)) := by
  intro rest _
  have hx := hxs x (List.mem_cons_self ..)
  obtain ⟨t, tr, ht, hg⟩ := hx.head 1 (Nat.le_refl _)
  obtain ⟨c, r', hcr, hc, hcw, hca, hcomp, hcolon⟩ := after_first p .rbrace rfl xs rest
  obtain ⟨n2, hn2⟩ := elemsRT p .rbrace rfl xs (fun z hz => hxs z (List.mem_cons_of_mem _ hz)) rest
  obtain ⟨n1, hn1⟩ := braceFirst_elem p hx hc hcw hca r'
  have e1 : toks (unparse p (.set (x :: xs)) 15) ++ rest =
      .op .lbrace :: (toks (unparse p x 1) ++ (toks (unparseSeq p xs 1 false) ++ .op .rbrace :: rest)) := by
    simp [unparse, toks_unparseSeq_cons, Prec.TEST, op]
  refine ⟨n1 + n2 + 3, fun fuel hf => ?_⟩
  obtain ⟨f, rfl⟩ : ∃ f, fuel = f + 3 := ⟨fuel - 3, by omega⟩
  obtain ⟨b, hfirst⟩ := hn1 (f + 1) (by omega)
  have he := hn2 (f + 1) (by omega)
  rw [e1, hcr, parseAtom]
  rw [hcr] at he
  unfold parseBraceAtom
  split
  · omega
  · rename_i heq; rw [ht] at heq; simp at heq; exact absurd heq.1 (elemTok_not_close hg rfl)
  · rename_i heq; rw [ht] at heq; simp at heq
    rcases hg with hg | hg
    · rw [heq.1] at hg; simp [goodHead] at hg
    · rw [heq.1] at hg; cases hg
  · rename_i f' hfe _ _
    obtain rfl : f' = f + 1 := by omega
    rw [hfirst]
    split
    · rename_i heq3; simp at heq3; obtain ⟨_, _, rfl⟩ := heq3; exact absurd rfl (hcolon _)
    · rename_i heq3
      simp at heq3
      obtain ⟨rfl, _, rfl⟩ := heq3
      simp only [hcomp, Bool.false_eq_true, if_false]
      cases hx with
      | plain h => rw [he]
      | star h => rw [he]
    · rename_i heq3; simp at heq3

end PV.C11
