import PV.Expr.Syntax
import PV.C11.Spec
/-
  C11 — the fragments for which the round trip `parseRef (unparse e) = e` is PROVED
  (`PV.C11.parse_unparse_partial`): the operator core of the expression language.

    Name, every constant (numbers, strings, bytes, `None`, `True`, `False`, `...`), Attribute,
    List, Tuple and Set displays (plain elements), Dict displays (`key: value` and `**value` entries), Call with positional arguments, Subscript with a
    single plain index,
    Await, Yield, YieldFrom, BoolOp (n ≥ 2 operands), UnaryOp (all four), BinOp (all thirteen), Compare (n ≥ 1 comparisons),
    IfExp — nested arbitrarily.

  Everything else (lambda, comprehensions, keyword / starred arguments, slices and
  tuple indices, starred,
  named expressions, f-string literals) is outside `InFragment`;
  for those the statement `parse_unparse_full` is only checked by correspondence.
-/
namespace PV.Expr

/-- an index expression that is not a bare (non-empty) tuple: `x[i]`, not `x[i, j]` -/
def plainIndex : Expr → Bool
  | .tuple (_ :: _) => false
  | _ => true

mutual
def inFrag : Expr → Bool
  | .name _ => true
  | .const _ => true
  | .attribute v _ => inFrag v
  | .list es => inFragList es
  | .tuple es => inFragList es
  | .set es => !es.isEmpty && inFragList es
  | .call f as [] => inFrag f && inFragList as
  | .subscript v s => inFrag v && inFrag s && plainIndex s
  | .await v => inFrag v
  | .yield none => true
  | .yield (some v) => inFrag v
  | .yieldFrom v => inFrag v
  | .dict items => inFragItems items
  | .boolOp _ vs => decide (2 ≤ vs.length) && inFragList vs
  | .unaryOp _ e => inFrag e
  | .binOp l _ r => inFrag l && inFrag r
  | .compare l ops cs => inFrag l && !cs.isEmpty && decide (ops.length = cs.length) && inFragList cs
  | .ifExp t b o => inFrag t && inFrag b && inFrag o
  | _ => false
def inFragList : List Expr → Bool
  | [] => true
  | e :: es => inFrag e && inFragList es
/-- `key: value` and `**value` entries -/
def inFragItems : List DictItem → Bool
  | [] => true
  | .mk (some k) v :: is => inFrag k && inFrag v && inFragItems is
  | .mk none v :: is => inFrag v && inFragItems is
end

/-- `e` lies in the operator core (and satisfies the grammar's side conditions there) -/
def InFragment (e : Expr) : Prop := inFrag e = true

instance (e : Expr) : Decidable (InFragment e) := inferInstanceAs (Decidable (_ = true))

/-! ## the extended fragment

  Everything the grammar can build out of: the operator core above, **Starred** elements in displays, call
  arguments, `yield` and subscripts, **keyword / `**` call arguments**, **Slice / tuple-of-slices subscripts**,
  **Lambda** with every parameter kind, the four **comprehension** forms (several `for` / `if` clauses, `async`),
  and **NamedExpr**.  Positions (`XPos`) say what may stand where, as in `wf`, a little finer:

  * `plain`      an operand (`Test`): no `Starred`, no `Slice`;
  * `elem`       element of a display / argument list / `yield` value / list-comprehension element: `Starred` allowed;
  * `sub`        directly under `Subscript`: `Slice`, a bare `NamedExpr`, a tuple of `subElem`s (a single starred
                 index is the 1-tuple);
  * `subElem`    element of the tuple directly under `Subscript`: `Slice`, `Starred`, operand;
  * `target`     comprehension target (`ExpressionList` in front of `in`): any operand — the parser does not check
                 that it is an assignment target, so also a (parenthesised) conditional, lambda, `and` / `or` / `not`,
                 comparison or named expression; the unparser writes it at `Expression` level since /repo's repair of
                 `unparse_comp` —, a `Starred`, or a bare tuple of `targetElem`s;
  * `targetElem` element of a bare target tuple: any operand or a `Starred`.
  So the target positions admit exactly what `elem` admits (`fx_target_eq_elem`); they differ in how the tree is
  written (a tuple bare, operands at `Expression` level) and read (`ExpressionList`).

  Side conditions the parser checks when it builds the node (`function.rs`) are part of the fragment: a lambda's
  positional parameters have no default-less parameter after a defaulted one and all parameter names are distinct
  (`validPosParams`, `validParamNames`), the keyword names of a call are distinct (`kwFresh`).
  Not in the fragment: f-string literals (`JoinedStr` / `FormattedValue`). -/

inductive XPos where
  | plain | elem | sub | subElem | target | targetElem
deriving DecidableEq, Repr

/-- not a comprehension-target position (no longer used by `fx`: since the repair of `unparse_comp` every operand
    may stand in a target position; PV.Prog.Thm still names it in a `simp` set) -/
def XPos.notTarget : XPos → Bool
  | .target | .targetElem => false
  | _ => true

/-- the position of the elements of a tuple standing at this position -/
def XPos.tupleElem : XPos → XPos
  | .sub => .subElem
  | .target => .targetElem
  | _ => .elem

/-- `parse_args`: a keyword name must not repeat an earlier one (`seen` = the names so far) -/
def kwFresh (seen : List Ident) : List Keyword → Bool
  | [] => true
  | .mk (some n) _ :: ks => !seen.contains n && kwFresh (seen ++ [n]) ks
  | .mk none _ :: ks => kwFresh seen ks

/-- the checks of `validate_pos_params` / `validate_arguments` on a lambda's parameter list -/
def lambdaOk (po ar : List Param) (va : Option Ident) (ko : List Param) (kw : Option Ident) : Bool :=
  PV.C11.validPosParams (po ++ ar) &&
    PV.C11.validParamNames { posonly := po, args := ar, vararg := va, kwonly := ko, kwarg := kw }

mutual
def fx : XPos → Expr → Bool
  | _, .name _ => true
  | _, .const _ => true
  | _, .boolOp _ vs => decide (2 ≤ vs.length) && fxList .plain vs
  | _, .namedExpr t v => isName t && fx .plain v
  | _, .binOp l _ r => fx .plain l && fx .plain r
  | _, .unaryOp _ e => fx .plain e
  | _, .lambda po ar va ko kw b =>
    fxParams po && fxParams ar && fxParams ko && lambdaOk po ar va ko kw && fx .plain b
  | _, .ifExp t b o => fx .plain t && fx .plain b && fx .plain o
  | _, .dict items => fxItems items
  | _, .set es => !es.isEmpty && fxList .elem es
  | _, .listComp e gs => fx .elem e && !gs.isEmpty && fxComps gs
  | _, .setComp e gs => fx .plain e && !gs.isEmpty && fxComps gs
  | _, .dictComp k v gs => fx .plain k && fx .plain v && !gs.isEmpty && fxComps gs
  | _, .genExp e gs => fx .plain e && !gs.isEmpty && fxComps gs
  | _, .await e => fx .plain e
  | _, .yield none => true
  | _, .yield (some e) => fx .elem e
  | _, .yieldFrom e => fx .plain e
  | _, .compare l ops cs =>
    fx .plain l && !cs.isEmpty && decide (ops.length = cs.length) && fxList .plain cs
  | _, .call f as ks => fx .plain f && fxList .elem as && fxKeywords ks && kwFresh [] ks
  | _, .formattedValue .. => false
  | _, .joinedStr _ => false
  | _, .attribute e _ => fx .plain e
  | _, .subscript e s => fx .plain e && fx .sub s
  -- (`x[*a]`): directly under `Subscript` a bare `Starred` is NOT admitted: since the /repo fix of `SubscriptList`
  -- the parser reads `x[*a]` as `Tuple [Starred a]` (as CPython does); that 1-tuple is in the fragment (`.subElem`)
  | q, .starred e => (q != .plain && q != .sub) && fx .plain e
  | _, .list es => fxList .elem es
  | q, .tuple es => fxList q.tupleElem es
  | q, .slice lo hi st => (q == .sub || q == .subElem) && fxOpt lo && fxOpt hi && fxOpt st
def fxList : XPos → List Expr → Bool
  | _, [] => true
  | q, e :: es => fx q e && fxList q es
def fxOpt : Option Expr → Bool
  | none => true
  | some e => fx .plain e
def fxItems : List DictItem → Bool
  | [] => true
  | .mk (some k) v :: is => fx .plain k && fx .plain v && fxItems is
  | .mk none v :: is => fx .plain v && fxItems is
def fxComps : List Comp → Bool
  | [] => true
  | .mk t i ifs _ :: gs => fx .target t && fx .plain i && fxList .plain ifs && fxComps gs
def fxParams : List Param → Bool
  | [] => true
  | .mk _ d :: ps => fxOpt d && fxParams ps
def fxKeywords : List Keyword → Bool
  | [] => true
  | .mk _ v :: ks => fx .plain v && fxKeywords ks
end

/-- `e` lies in the extended fragment, as an operand -/
def InFragmentX (e : Expr) : Prop := fx .plain e = true

instance (e : Expr) : Decidable (InFragmentX e) := inferInstanceAs (Decidable (_ = true))

/-! size of a tree (measure of the induction over the extended fragment) -/

mutual
def esize : Expr → Nat
  | .name _ => 1
  | .const _ => 1
  | .boolOp _ vs => 1 + esizeList vs
  | .namedExpr t v => 1 + esize t + esize v
  | .binOp l _ r => 1 + esize l + esize r
  | .unaryOp _ e => 1 + esize e
  | .lambda po ar _ ko _ b => 1 + esizeParams po + esizeParams ar + esizeParams ko + esize b
  | .ifExp t b o => 1 + esize t + esize b + esize o
  | .dict items => 1 + esizeItems items
  | .set es => 1 + esizeList es
  | .listComp e gs => 1 + esize e + esizeComps gs
  | .setComp e gs => 1 + esize e + esizeComps gs
  | .dictComp k v gs => 1 + esize k + esize v + esizeComps gs
  | .genExp e gs => 1 + esize e + esizeComps gs
  | .await e => 1 + esize e
  | .yield none => 1
  | .yield (some e) => 1 + esize e
  | .yieldFrom e => 1 + esize e
  | .compare l _ cs => 1 + esize l + esizeList cs
  | .call f as ks => 1 + esize f + esizeList as + esizeKeywords ks
  | .formattedValue v _ none => 1 + esize v
  | .formattedValue v _ (some s) => 1 + esize v + esize s
  | .joinedStr vs => 1 + esizeList vs
  | .attribute e _ => 1 + esize e
  | .subscript e s => 1 + esize e + esize s
  | .starred e => 1 + esize e
  | .list es => 1 + esizeList es
  | .tuple es => 1 + esizeList es
  | .slice lo hi st => 1 + esizeOpt lo + esizeOpt hi + esizeOpt st
def esizeList : List Expr → Nat
  | [] => 0
  | e :: es => esize e + esizeList es
def esizeOpt : Option Expr → Nat
  | none => 0
  | some e => esize e
def esizeItems : List DictItem → Nat
  | [] => 0
  | .mk k v :: is => esizeOpt k + esize v + esizeItems is
def esizeComps : List Comp → Nat
  | [] => 0
  | .mk t i ifs _ :: gs => esize t + esize i + esizeList ifs + esizeComps gs
def esizeParams : List Param → Nat
  | [] => 0
  | .mk _ d :: ps => esizeOpt d + esizeParams ps
def esizeKeywords : List Keyword → Nat
  | [] => 0
  | .mk _ v :: ks => esize v + esizeKeywords ks
end

end PV.Expr
