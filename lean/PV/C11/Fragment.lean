import PV.Expr.Syntax
/-
  C11 — the fragment for which the round trip `parseRef (unparse e) = e` is PROVED
  (`PV.C11.parse_unparse_partial`): the operator core of the expression language.

    Name, every constant (numbers, strings, bytes, `None`, `True`, `False`, `...`), Attribute,
    BoolOp (n ≥ 2 operands), UnaryOp (all four), BinOp (all thirteen), Compare (n ≥ 1 comparisons),
    IfExp — nested arbitrarily.

  Everything else (lambda, displays, comprehensions, calls, subscript / slices, starred,
  named expressions, await / yield, f-string literals) is outside `InFragment`;
  for those the statement `parse_unparse_full` is only checked by correspondence.
-/
namespace PV.Expr

mutual
def inFrag : Expr → Bool
  | .name _ => true
  | .const _ => true
  | .attribute v _ => inFrag v
  | .boolOp _ vs => decide (2 ≤ vs.length) && inFragList vs
  | .unaryOp _ e => inFrag e
  | .binOp l _ r => inFrag l && inFrag r
  | .compare l ops cs => inFrag l && !cs.isEmpty && decide (ops.length = cs.length) && inFragList cs
  | .ifExp t b o => inFrag t && inFrag b && inFrag o
  | _ => false
def inFragList : List Expr → Bool
  | [] => true
  | e :: es => inFrag e && inFragList es
end

/-- `e` lies in the operator core (and satisfies the grammar's side conditions there) -/
def InFragment (e : Expr) : Prop := inFrag e = true

instance (e : Expr) : Decidable (InFragment e) := inferInstanceAs (Decidable (_ = true))

end PV.Expr
