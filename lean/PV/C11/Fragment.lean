import PV.Expr.Syntax
/-
  C11 — the fragment for which the round trip `parseRef (unparse e) = e` is PROVED
  (`PV.C11.parse_unparse_partial`): the operator core of the expression language.

    Name, every constant (numbers, strings, bytes, `None`, `True`, `False`, `...`), Attribute,
    List, Tuple and Set displays (plain elements), Dict displays (`key: value` and `**value` entries), Call with positional arguments, Subscript with a
    single plain index,
    Await, Yield, YieldFrom, BoolOp (n ≥ 2 operands), UnaryOp (all four), BinOp (all thirteen), Compare (n ≥ 1 comparisons),
    IfExp — nested arbitrarily.

  Everything else (lambda, comprehensions, keyword / starred arguments, slices and
  tuple indices, starred,
  named expressions, f-string literals) is outside `InFragment`;
  for those the statement `parse_unparse_full` is only checked by correspondence.
-/
namespace PV.Expr

/-- an index expression that is not a bare (non-empty) tuple: `x[i]`, not `x[i, j]` -/
def plainIndex : Expr → Bool
  | .tuple (_ :: _) => false
  | _ => true

mutual
def inFrag : Expr → Bool
  | .name _ => true
  | .const _ => true
  | .attribute v _ => inFrag v
  | .list es => inFragList es
  | .tuple es => inFragList es
  | .set es => !es.isEmpty && inFragList es
  | .call f as [] => inFrag f && inFragList as
  | .subscript v s => inFrag v && inFrag s && plainIndex s
  | .await v => inFrag v
  | .yield none => true
  | .yield (some v) => inFrag v
  | .yieldFrom v => inFrag v
  | .dict items => inFragItems items
  | .boolOp _ vs => decide (2 ≤ vs.length) && inFragList vs
  | .unaryOp _ e => inFrag e
  | .binOp l _ r => inFrag l && inFrag r
  | .compare l ops cs => inFrag l && !cs.isEmpty && decide (ops.length = cs.length) && inFragList cs
  | .ifExp t b o => inFrag t && inFrag b && inFrag o
  | _ => false
def inFragList : List Expr → Bool
  | [] => true
  | e :: es => inFrag e && inFragList es
/-- `key: value` and `**value` entries -/
def inFragItems : List DictItem → Bool
  | [] => true
  | .mk (some k) v :: is => inFrag k && inFrag v && inFragItems is
  | .mk none v :: is => inFrag v && inFragItems is
end

/-- `e` lies in the operator core (and satisfies the grammar's side conditions there) -/
def InFragment (e : Expr) : Prop := inFrag e = true

instance (e : Expr) : Decidable (InFragment e) := inferInstanceAs (Decidable (_ = true))

end PV.Expr
