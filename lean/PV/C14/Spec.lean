import PV.C14.Model
/-
  C14 — reference definitions, written from the property text and from the documentation of the
  Python-style form (docs.python.org `ast.arguments`; doc comment of `Arguments` in
  ast/src/gen/generic.rs), not from the Rust control flow.
-/
namespace PV.C14.Spec
open PV.C14

/-- "preserves the signature: the same positional-only, positional, variadic, keyword-only and
    keyword-variadic parameters with the same names, annotations and kinds, positional order
    unchanged, and every parameter keeps exactly its own default (or absence of one)".
    A `ParamD` is (name, annotation, default), so list equality says all of that for the ordered
    kinds; keyword-only parameters are compared as a multiset (their order carries no meaning and
    the Python-style form is documented to reorder them). -/
def sameSignature (a b : Arguments) : Prop :=
  a.posonly = b.posonly ∧ a.args = b.args ∧ a.vararg = b.vararg ∧
  a.kwonly.Perm b.kwonly ∧ a.kwarg = b.kwarg

instance (a b : Arguments) : Decidable (sameSignature a b) := by
  unfold sameSignature; infer_instance

/-- Once a parameter of the list has a default, every later one has one. -/
def trailingDefaults : List ParamD → Bool
  | [] => true
  | p :: ps => if p.default.isSome then ps.all (·.default.isSome) else trailingDefaults ps

/-- The signatures of the property's quantifier: any number of parameters of each kind, any subset
    of keyword-only parameters carrying defaults; among positional-only + positional parameters
    the ones with defaults form a suffix (Python rejects anything else, and the Python-style form
    cannot express it). -/
def wellFormed (a : Arguments) : Prop := trailingDefaults (a.posonly ++ a.args) = true

instance (a : Arguments) : Decidable (wellFormed a) := by unfold wellFormed; infer_instance

/-- keyword-only parameters without / with a default, in source order -/
def kwNoDefault (a : Arguments) : List Param := (a.kwonly.filter (·.default.isNone)).map (·.arg)
def kwWithDefault (a : Arguments) : List Param := (a.kwonly.filter (·.default.isSome)).map (·.arg)

/-- "The Python-style form lists keyword-only parameters without defaults before those with
    defaults": the first `n` entries of `kwonlyargs` are the parameters without a default (`n` of
    them), the rest are the ones with a default. -/
def kwonlyOrdered (a : Arguments) (p : PyArguments) : Prop :=
  (p.kwonly.take (kwNoDefault a).length).Perm (kwNoDefault a) ∧
  (p.kwonly.drop (kwNoDefault a).length).Perm (kwWithDefault a)

instance (a : Arguments) (p : PyArguments) : Decidable (kwonlyOrdered a p) := by
  unfold kwonlyOrdered; infer_instance

/-- Python's reading of a short default list: "if there are fewer defaults, they correspond to the
    last n arguments".  A parameter has no default exactly when the parameters after it can still
    take all remaining defaults. -/
def attachLast : List Param → List Nat → List ParamD
  | [], _ => []
  | p :: ps, [] => ⟨p, none⟩ :: attachLast ps []
  | p :: ps, d :: ds =>
    if ds.length < ps.length then ⟨p, none⟩ :: attachLast ps (d :: ds)
    else ⟨p, some d⟩ :: attachLast ps ds

/-- The signature a Python-style parameter list denotes (`none`: more defaults than parameters). -/
def denote (p : PyArguments) : Option Arguments :=
  if p.defaults.length ≤ p.posonly.length + p.args.length ∧ p.kwDefaults.length ≤ p.kwonly.length then
    let pos := attachLast (p.posonly ++ p.args) p.defaults
    some { posonly := pos.take p.posonly.length, args := pos.drop p.posonly.length,
           vararg := p.vararg, kwonly := attachLast p.kwonly p.kwDefaults, kwarg := p.kwarg }
  else none

end PV.C14.Spec
