/-
  C14 — executable model of the conversions between the two parameter-list forms in
    ast/src/generic.rs      ArgWithDefault::{from_arg, as_arg, to_arg, into_arg}
                            Arguments::{defaults, split_kwonlyargs, to_python_arguments, into_python_arguments}
                            PythonArguments::into_arguments,  From<Arguments> for PythonArguments
    ast/src/gen/generic.rs  struct Arg, ArgWithDefault, Arguments, PythonArguments

  A parameter is a name id plus an optional annotation id; a default value is an id; all `Nat`.
  (`Arg` also carries `range` and `type_comment`; they travel inside the `Arg` value, which the
  conversions only move or clone, so they are part of the opaque "name" here.)

  The model follows the Rust control flow statement by statement: the `for … push` loops are
  accumulator loops, `repeat_with(|| None).take(n).chain(..)` is `replicate n none ++ ..`,
  `drain(k..)` is `drop k` leaving `take k`, `zip` truncates to the shorter side, and the
  expression `kw_only.len()` is the length of the vector `kw_only` *at that point of the
  function* (freshly created, hence empty).  A Rust panic is `none`.  Core Lean only.
-/
namespace PV.C14

/-- `Arg`: name and optional annotation. -/
structure Param where
  name : Nat
  ann : Option Nat
deriving DecidableEq, Repr, Inhabited

/-- `ArgWithDefault`: `def` and optional `default`. -/
structure ParamD where
  arg : Param
  default : Option Nat
deriving DecidableEq, Repr, Inhabited

/-- `Arguments` (per-parameter-default form). -/
structure Arguments where
  posonly : List ParamD
  args : List ParamD
  vararg : Option Param
  kwonly : List ParamD
  kwarg : Option Param
deriving DecidableEq, Repr, Inhabited

/-- `PythonArguments` (Python-style form with separate `defaults` / `kw_defaults`). -/
structure PyArguments where
  posonly : List Param
  args : List Param
  vararg : Option Param
  kwonly : List Param
  kwDefaults : List Nat
  kwarg : Option Param
  defaults : List Nat
deriving DecidableEq, Repr, Inhabited

/-! ## ArgWithDefault -/

/-- `ArgWithDefault::from_arg(def, default)` (default feature set: no `todo!()`). -/
def fromArg (d : Param) (default : Option Nat) : ParamD := ⟨d, default⟩

/-- `ArgWithDefault::as_arg` -/
def asArg (p : ParamD) : Param := p.arg

/-- `ArgWithDefault::to_arg` / `into_arg` (they differ only in cloning) -/
def toArg (p : ParamD) : Param × Option Nat := (p.arg, p.default)

/-- `Arguments::defaults()`:
    `self.posonlyargs.iter().chain(self.args.iter()).filter_map(|arg| arg.default.as_ref().map(|e| e.as_ref()))`
    — the defaults of the positional-only, then of the positional parameters, in order. -/
def defaults (a : Arguments) : List Nat := (a.posonly ++ a.args).filterMap (fun arg => arg.default)

/-! ## Arguments → PythonArguments -/

/-- The loop
    `for arg in xs { let (arg, default) = arg.to_arg(); if let Some(d) = default { defaults.push(d) } out.push(arg) }`
    with the two vectors as accumulators. -/
def collectGo : List ParamD → List Param → List Nat → List Param × List Nat
  | [], out, defaults => (out, defaults)
  | x :: xs, out, defaults =>
    let (arg, default) := toArg x
    let defaults := match default with
      | some d => defaults ++ [d]
      | none => defaults
    collectGo xs (out ++ [arg]) defaults

/-- `Arguments::to_python_arguments` -/
def toPython (a : Arguments) : PyArguments :=
  -- `defaults` is shared by the posonlyargs loop and the args loop
  let (posOnly, defaults) := collectGo a.posonly [] []
  let (posArgs, defaults) := collectGo a.args [] defaults
  -- kwonlyargs: same loop shape, pushing every argument to `kw_only` in source order
  let (kwOnly, kwDefaults) := collectGo a.kwonly [] []
  { posonly := posOnly, args := posArgs, defaults := defaults, vararg := a.vararg,
    kwonly := kwOnly, kwDefaults := kwDefaults, kwarg := a.kwarg }

/-- `Arguments::into_python_arguments`: the same statements on owned values. -/
def intoPython (a : Arguments) : PyArguments := toPython a

/-- `impl From<Arguments> for PythonArguments` -/
def fromArguments (a : Arguments) : PyArguments := intoPython a

/-- `Arguments::split_kwonlyargs`: the loop with its two vectors as accumulators. -/
def splitKwonlyGo : List ParamD → List Param → List (Param × Nat) → List Param × List (Param × Nat)
  | [], args, withDefaults => (args, withDefaults)
  | x :: xs, args, withDefaults =>
    match x.default with
    | some d => splitKwonlyGo xs args (withDefaults ++ [(asArg x, d)])
    | none => splitKwonlyGo xs (args ++ [asArg x]) withDefaults

def splitKwonly (a : Arguments) : List Param × List (Param × Nat) := splitKwonlyGo a.kwonly [] []

/-! ## PythonArguments → Arguments -/

/-- `for (arg, default) in zip(xs, ds) { out.push(ArgWithDefault::from_arg(arg, default)) }` -/
def zipFrom (xs : List Param) (ds : List (Option Nat)) : List ParamD := List.zipWith fromArg xs ds

/-- `repeat_with(|| None).take(n).chain(ds.into_iter().map(Some)).collect()` -/
def padFront (n : Nat) (ds : List Nat) : List (Option Nat) := List.replicate n none ++ ds.map some

/-- `PythonArguments::into_arguments`; `none` = panic (`args_len - defaults.len()` overflows:
    "attempt to subtract with overflow" with overflow checks, capacity overflow without). -/
def intoArguments (p : PyArguments) : Option Arguments :=
  let argsLen := p.posonly.length + p.args.length
  if argsLen < p.defaults.length then none else
  let defaults := padFront (argsLen - p.defaults.length) p.defaults
  -- debug_assert_eq!(args_len, defaults.len()) cannot fail (see `Lemmas.padFront_length`)
  -- `defaults.drain(posonlyargs.len()..)`: the tail goes to `args`, the head stays in the vector
  let posArgs := zipFrom p.args (defaults.drop p.posonly.length)
  let defaults := defaults.take p.posonly.length
  -- `defaults.drain(..)`
  let posOnly := zipFrom p.posonly defaults
  -- `let mut kw_only = Vec::with_capacity(kwonlyargs.len());` — capacity, not length: empty
  let kwOnly : List ParamD := []
  -- `.take(kw_only.len().saturating_sub(kw_defaults.len()))` — written with `kw_only`, not `kwonlyargs`
  let kwDefaults := padFront (kwOnly.length - p.kwDefaults.length) p.kwDefaults
  let kwOnly := kwOnly ++ zipFrom p.kwonly kwDefaults
  some { posonly := posOnly, args := posArgs, vararg := p.vararg, kwonly := kwOnly, kwarg := p.kwarg }

/-- Arguments → PythonArguments → Arguments, as one function. -/
def roundTrip (a : Arguments) : Option Arguments := intoArguments (toPython a)

end PV.C14
