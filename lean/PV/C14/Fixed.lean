import PV.C14.Model
import PV.C14.Spec
import PV.C14.Lemmas
/-
  C14 — the REPAIRED conversions of fixes/C14-kwonly-defaults.diff (proposed, not applied to /repo),
  modelled the same way as `Model.lean`, with the property proved at full strength.

  The fix changes two things:
    * `to_python_arguments` / `into_python_arguments`: keyword-only parameters with a default are
      collected in a second vector that is appended after the loop (so the Python-style list has the
      documented order);
    * `into_arguments`: the padding count is `kwonlyargs.len().saturating_sub(kw_defaults.len())`
      instead of `kw_only.len()…` (the empty output vector).
  Once the fix is applied, these definitions replace `toPython` / `intoArguments` in `Model.lean`,
  and the theorems below replace the `_partial` / `_fails` pairs in `Thm.lean`.
-/
namespace PV.C14.Fixed
open PV.C14 PV.C14.Spec

/-- the repaired keyword-only loop: `kw_only`, `kw_with_defaults`, `kw_defaults` as accumulators;
    `kw_only.extend(kw_with_defaults)` at the end -/
def collectKwGo : List ParamD → List Param → List Param → List Nat → List Param × List Nat
  | [], kwOnly, withDefaults, kwDefaults => (kwOnly ++ withDefaults, kwDefaults)
  | x :: xs, kwOnly, withDefaults, kwDefaults =>
    match toArg x with
    | (arg, some d) => collectKwGo xs kwOnly (withDefaults ++ [arg]) (kwDefaults ++ [d])
    | (arg, none) => collectKwGo xs (kwOnly ++ [arg]) withDefaults kwDefaults

def toPython (a : Arguments) : PyArguments :=
  let (posOnly, defaults) := collectGo a.posonly [] []
  let (posArgs, defaults) := collectGo a.args [] defaults
  let (kwOnly, kwDefaults) := collectKwGo a.kwonly [] [] []
  { posonly := posOnly, args := posArgs, defaults := defaults, vararg := a.vararg,
    kwonly := kwOnly, kwDefaults := kwDefaults, kwarg := a.kwarg }

def intoArguments (p : PyArguments) : Option Arguments :=
  let argsLen := p.posonly.length + p.args.length
  if argsLen < p.defaults.length then none else
  let defaults := padFront (argsLen - p.defaults.length) p.defaults
  let posArgs := zipFrom p.args (defaults.drop p.posonly.length)
  let defaults := defaults.take p.posonly.length
  let posOnly := zipFrom p.posonly defaults
  let kwOnly : List ParamD := []
  let kwDefaults := padFront (p.kwonly.length - p.kwDefaults.length) p.kwDefaults
  let kwOnly := kwOnly ++ zipFrom p.kwonly kwDefaults
  some { posonly := posOnly, args := posArgs, vararg := p.vararg, kwonly := kwOnly, kwarg := p.kwarg }

def roundTrip (a : Arguments) : Option Arguments := intoArguments (toPython a)

/-! ### helper lemmas -/

/-- keyword-only parameters as the repaired code lists them -/
def kwSorted (l : List ParamD) : List ParamD :=
  l.filter (·.default.isNone) ++ l.filter (·.default.isSome)

theorem collectKwGo_eq (xs : List ParamD) (ko wd : List Param) (kd : List Nat) :
    collectKwGo xs ko wd kd =
      (ko ++ (xs.filter (·.default.isNone)).map (·.arg) ++ (wd ++ (xs.filter (·.default.isSome)).map (·.arg)),
       kd ++ xs.filterMap (·.default)) := by
  induction xs generalizing ko wd kd with
  | nil => simp [collectKwGo]
  | cons x xs ih => cases h : x.default <;> simp [collectKwGo, toArg, h, ih]

theorem toPython_eq (a : Arguments) :
    toPython a =
      { posonly := a.posonly.map (·.arg), args := a.args.map (·.arg),
        defaults := (a.posonly ++ a.args).filterMap (·.default), vararg := a.vararg,
        kwonly := (kwSorted a.kwonly).map (·.arg), kwDefaults := (kwSorted a.kwonly).filterMap (·.default),
        kwarg := a.kwarg } := by
  have h1 : (a.kwonly.filter (·.default.isNone)).filterMap (·.default) = [] := by
    induction a.kwonly with
    | nil => rfl
    | cons p ps ih => cases hd : p.default <;> simp [hd, ih]
  have h2 : (a.kwonly.filter (·.default.isSome)).filterMap (·.default) = a.kwonly.filterMap (·.default) := by
    induction a.kwonly with
    | nil => rfl
    | cons p ps ih => cases hd : p.default <;> simp [hd, ih]
  simp only [toPython, collectGo_eq, collectKwGo_eq, kwSorted, List.filterMap_append, h1, h2]
  simp

theorem trailing_append (xs ys : List ParamD) (hx : xs.all (·.default.isNone) = true)
    (hy : ys.all (·.default.isSome) = true) : trailingDefaults (xs ++ ys) = true := by
  induction xs with
  | nil =>
    cases ys with
    | nil => rfl
    | cons y ys =>
      simp only [List.all_cons, Bool.and_eq_true] at hy
      simp [trailingDefaults, hy.1]
      simpa using hy.2
  | cons x xs ih =>
    simp only [List.all_cons, Bool.and_eq_true] at hx
    have hn : x.default = none := by simpa using hx.1
    simp [trailingDefaults, hn]
    exact ih hx.2

theorem kwSorted_trailing (l : List ParamD) : trailingDefaults (kwSorted l) = true :=
  trailing_append _ _
    (List.all_eq_true.2 fun x hx => by simpa using (List.mem_filter.1 hx).2)
    (List.all_eq_true.2 fun x hx => by simpa using (List.mem_filter.1 hx).2)

theorem kwSorted_perm (l : List ParamD) : (kwSorted l).Perm l := by
  unfold kwSorted
  have h := List.filter_append_perm (fun p : ParamD => p.default.isNone) l
  have e : (fun p : ParamD => !p.default.isNone) = (fun p : ParamD => p.default.isSome) := by
    funext p; cases p.default <;> rfl
  rw [e] at h
  exact h

/-- positional closed form of the (repaired) back conversion -/
theorem intoArguments_some (p : PyArguments) (h : p.defaults.length ≤ p.posonly.length + p.args.length) :
    intoArguments p = some
      { posonly := zipFrom p.posonly ((padFront (p.posonly.length + p.args.length - p.defaults.length) p.defaults).take p.posonly.length),
        args := zipFrom p.args ((padFront (p.posonly.length + p.args.length - p.defaults.length) p.defaults).drop p.posonly.length),
        vararg := p.vararg,
        kwonly := zipFrom p.kwonly (padFront (p.kwonly.length - p.kwDefaults.length) p.kwDefaults),
        kwarg := p.kwarg } := by
  unfold intoArguments
  simp only
  rw [if_neg (by omega)]
  simp

/-! ### the property, at full strength, for the repaired code -/

/-- The repair leaves the positional side of the Python-style list exactly as it was. -/
theorem positional_unchanged (a : Arguments) :
    (toPython a).posonly = (PV.C14.toPython a).posonly ∧ (toPython a).args = (PV.C14.toPython a).args ∧
    (toPython a).defaults = (PV.C14.toPython a).defaults ∧ (toPython a).vararg = (PV.C14.toPython a).vararg ∧
    (toPython a).kwarg = (PV.C14.toPython a).kwarg := by
  simp [toPython_eq, PV.C14.toPython_eq]

/-- The Python-style list denotes the source signature (Python's reading of short default lists). -/
theorem toPython_denotes (a : Arguments) (h : wellFormed a) :
    ∃ b, denote (toPython a) = some b ∧ sameSignature b a := by
  have hle0 := filterMap_length_le (a.posonly ++ a.args)
  have hle := hle0
  have hlek := filterMap_length_le (kwSorted a.kwonly)
  simp only [List.length_append] at hle
  refine ⟨{ a with kwonly := kwSorted a.kwonly }, ?_, rfl, rfl, rfl, kwSorted_perm _, rfl⟩
  rw [toPython_eq]
  unfold denote
  simp only [List.length_map]
  rw [if_pos ⟨by omega, hlek⟩]
  have h1 : attachLast (a.posonly.map (·.arg) ++ a.args.map (·.arg)) ((a.posonly ++ a.args).filterMap (·.default))
      = a.posonly ++ a.args := by
    rw [← List.map_append, attachLast_eq_zip _ _ (by rw [List.length_map]; exact hle0)]
    simpa using zip_trailing _ h
  have h2 : attachLast ((kwSorted a.kwonly).map (·.arg)) ((kwSorted a.kwonly).filterMap (·.default))
      = kwSorted a.kwonly := by
    rw [attachLast_eq_zip _ _ (by rw [List.length_map]; exact hlek)]
    simpa using zip_trailing _ (kwSorted_trailing _)
  rw [h1, h2]
  simp

/-- `into_arguments` reads every Python-style list of the domain the way Python does. -/
theorem intoArguments_denote (p : PyArguments) (hk : p.kwDefaults.length ≤ p.kwonly.length) :
    intoArguments p = denote p := by
  by_cases hu : p.posonly.length + p.args.length < p.defaults.length
  · unfold intoArguments denote
    simp only
    rw [if_pos hu, if_neg (by omega)]
  · rw [intoArguments_some p (by omega)]
    unfold denote
    rw [if_pos ⟨by omega, hk⟩]
    dsimp only
    have hle : p.defaults.length ≤ (p.posonly ++ p.args).length := by simp; omega
    rw [attachLast_eq_zip _ _ hle, attachLast_eq_zip _ _ hk, zipFrom_append]
    have hl : (zipFrom p.posonly (List.take p.posonly.length
        (padFront ((p.posonly ++ p.args).length - p.defaults.length) p.defaults))).length = p.posonly.length := by
      rw [zipFrom_length_eq]; simp [List.length_take, padFront_length]; omega
    rw [List.take_left' hl, List.drop_left' hl]
    simp

/-- no arithmetic underflow in the repaired `into_arguments` either -/
theorem intoArguments_no_underflow (p : PyArguments)
    (h : p.defaults.length ≤ p.posonly.length + p.args.length) : (intoArguments p).isSome = true := by
  rw [intoArguments_some p h]; rfl

/-- C14, first sentence: the round trip preserves the signature — every well-formed signature,
    any number of parameters of each kind, any subset of keyword-only defaults. -/
theorem roundtrip (a : Arguments) (h : wellFormed a) :
    ∃ b, roundTrip a = some b ∧ sameSignature b a := by
  obtain ⟨b, hb, hs⟩ := toPython_denotes a h
  refine ⟨b, ?_, hs⟩
  unfold roundTrip
  rw [intoArguments_denote _ ?_, hb]
  rw [toPython_eq]
  simpa using filterMap_length_le (kwSorted a.kwonly)

/-- C14, second sentence: keyword-only parameters without defaults are listed first. -/
theorem toPython_kwonly_order (a : Arguments) : kwonlyOrdered a (toPython a) := by
  have hm : (toPython a).kwonly = kwNoDefault a ++ kwWithDefault a := by
    rw [toPython_eq]; simp [kwSorted, kwNoDefault, kwWithDefault]
  unfold kwonlyOrdered
  rw [hm, List.take_left, List.drop_left]
  exact ⟨List.Perm.refl _, List.Perm.refl _⟩

/-- the witnesses that defeat the unchanged code -/
example : roundTrip ⟨[], [], none, [⟨⟨1, none⟩, none⟩, ⟨⟨2, none⟩, some 7⟩], none⟩ =
    some ⟨[], [], none, [⟨⟨1, none⟩, none⟩, ⟨⟨2, none⟩, some 7⟩], none⟩ := by decide
example : roundTrip ⟨[], [], none, [⟨⟨1, none⟩, some 7⟩, ⟨⟨2, none⟩, none⟩], none⟩ =
    some ⟨[], [], none, [⟨⟨2, none⟩, none⟩, ⟨⟨1, none⟩, some 7⟩], none⟩ := by decide
example : wellFormed ⟨[⟨⟨1, none⟩, none⟩], [⟨⟨2, none⟩, some 3⟩], none, [⟨⟨1, none⟩, some 7⟩, ⟨⟨2, none⟩, none⟩], none⟩ := by decide

/-- `Arguments::defaults()` is the `defaults` list of the (repaired) Python-style form as well -/
theorem defaults_eq (a : Arguments) : PV.C14.defaults a = (toPython a).defaults := by
  simp [PV.C14.defaults, toPython_eq]

example : PV.C14.defaults ⟨[⟨⟨1, none⟩, some 5⟩], [⟨⟨3, none⟩, some 6⟩], none, [], none⟩ = [5, 6] := by decide

end PV.C14.Fixed
