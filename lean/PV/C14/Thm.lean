import PV.C14.Model
import PV.C14.Spec
import PV.C14.Lemmas
/-
  C14 — property theorems.  Helper lemmas live in `PV/C14/Lemmas.lean`.

  Property: converting a signature from the per-parameter-default form (`Arguments`) to the
  Python-style form (`PythonArguments`) and back preserves the signature (`Spec.sameSignature`),
  and the Python-style form lists keyword-only parameters without defaults before those with
  defaults (`Spec.kwonlyOrdered`).

  STATUS ON THE UNCHANGED CODE (known findings, see design/C14.md):
    * the positional part (posonlyargs / args with trailing defaults, vararg, kwarg) round-trips
      for every list length: `roundtrip_positional` — full strength;
    * the keyword-only part does not: `PythonArguments::into_arguments` pads `kw_defaults` with
      `kw_only.len()` (= 0) `None`s, so `zip` drops every keyword-only parameter beyond the number
      of defaults and hands the defaults to the first ones: `roundtrip_fails` (witness
      `def f(*, a, b=1)`), `roundtrip_loses_parameter` (every signature with a keyword-only
      parameter lacking a default), `roundtrip_partial` (what does hold);
    * `to_python_arguments` keeps keyword-only parameters in source order:
      `toPython_kwonly_order_fails` (witness `def f(*, a=1, b)`), `toPython_kwonly_order_partial`.
  `PV/C14/Fixed.lean` proves the full statements for the repaired code of fixes/C14-*.diff.
-/
namespace PV.C14
open Spec

/-! ### Round trip: the part that holds at full strength (all list lengths) -/

/-- Positional-only and positional parameters (names, annotations, order, each one's own default
    or absence of one), the variadic and the keyword-variadic parameter survive
    `Arguments → PythonArguments → Arguments` for every well-formed signature, and the conversion
    never panics. -/
theorem roundtrip_positional (a : Arguments) (h : wellFormed a) :
    ∃ b, roundTrip a = some b ∧ b.posonly = a.posonly ∧ b.args = a.args ∧
      b.vararg = a.vararg ∧ b.kwarg = a.kwarg := by
  refine ⟨_, roundTrip_eq a, ?_, ?_, rfl, rfl⟩ <;>
  · have hz := zip_trailing (a.posonly ++ a.args) h
    rw [List.map_append, zipFrom_append] at hz
    have hlen : (rtDefaults a).length = a.posonly.length + a.args.length := by
      have hle := filterMap_length_le (a.posonly ++ a.args)
      simp only [List.length_append] at hle
      simp only [rtDefaults, padFront_length, List.length_append]; omega
    have hl : (zipFrom (a.posonly.map (·.arg)) ((rtDefaults a).take a.posonly.length)).length
        = a.posonly.length := by
      rw [zipFrom_length_eq] <;> simp [List.length_take]; omega
    simp only [List.length_map] at hz
    have := List.append_inj hz hl
    first | exact this.1 | exact this.2

example : wellFormed ⟨[⟨⟨1, some 2⟩, none⟩, ⟨⟨3, none⟩, some 4⟩], [⟨⟨5, none⟩, some 6⟩], some ⟨7, none⟩,
    [⟨⟨8, none⟩, none⟩], some ⟨9, some 1⟩⟩ := by decide

/-- The three conversion routes of the Rust API (`to_python_arguments` on a reference,
    `into_python_arguments` on a value, `From<Arguments>`) are one function in the model. -/
theorem routes_agree (a : Arguments) : intoPython a = toPython a ∧ fromArguments a = toPython a :=
  ⟨rfl, rfl⟩

/-! ### Round trip: full statement, witnessed failure, and the part that holds -/

/-- The property as stated: every well-formed signature survives the round trip. -/
def roundtrip_full : Prop := ∀ a : Arguments, wellFormed a → ∃ b, roundTrip a = some b ∧ sameSignature b a

/-- `def f(*, a, b=1)`: names 1, 2; default id 7 -/
def witnessKw : Arguments := { posonly := [], args := [], vararg := none, kwonly := [⟨⟨1, none⟩, none⟩, ⟨⟨2, none⟩, some 7⟩], kwarg := none }

theorem witnessKw_roundTrip : roundTrip witnessKw = some { witnessKw with kwonly := [⟨⟨1, none⟩, some 7⟩] } := by decide

/-- The full statement is false for the unchanged code: `def f(*, a, b=1)` comes back as
    `def f(*, a=1)`. -/
theorem roundtrip_fails : ¬ roundtrip_full := by
  intro h
  obtain ⟨b, hb, hs⟩ := h witnessKw (by decide)
  rw [witnessKw_roundTrip] at hb
  cases hb
  revert hs
  decide

/-- what the unchanged code does to keyword-only parameters: only as many survive as there are
    defaults -/
theorem roundtrip_kwonly_length (a b : Arguments) (h : roundTrip a = some b) :
    b.kwonly.length = (a.kwonly.filter (·.default.isSome)).length := by
  rw [roundTrip_eq] at h
  cases h
  have := filterMap_length_le a.kwonly
  simp only [zipFrom, List.length_zipWith, List.length_map, ← filterMap_default_length]
  omega

/-- The defect is not confined to the witness: *every* signature with a keyword-only parameter that
    lacks a default loses a parameter in the round trip. -/
theorem roundtrip_loses_parameter (a b : Arguments) (h : roundTrip a = some b)
    (hk : a.kwonly.any (·.default.isNone) = true) : ¬ sameSignature b a := by
  intro hs
  have hl := hs.2.2.2.1.length_eq
  rw [roundtrip_kwonly_length a b h] at hl
  have := filter_isSome_lt a.kwonly hk
  omega

example : witnessKw.kwonly.any (·.default.isNone) = true := by decide

/-- What does hold: if every keyword-only parameter has a default (in particular if there is no
    keyword-only parameter), the round trip returns the very same value. -/
theorem roundtrip_partial_eq (a : Arguments) (h : wellFormed a)
    (hk : a.kwonly.all (·.default.isSome) = true) : roundTrip a = some a := by
  obtain ⟨b, hb, h1, h2, h3, h4⟩ := roundtrip_positional a h
  have hkw : b.kwonly = a.kwonly := by
    have := roundTrip_eq a
    rw [hb] at this
    cases this
    exact zip_allSome _ hk
  rw [hb]
  cases a; cases b; simp_all

theorem roundtrip_partial (a : Arguments) (h : wellFormed a)
    (hk : a.kwonly.all (·.default.isSome) = true) :
    ∃ b, roundTrip a = some b ∧ sameSignature b a :=
  ⟨a, roundtrip_partial_eq a h hk, rfl, rfl, rfl, List.Perm.refl _, rfl⟩

example : wellFormed ⟨[⟨⟨1, none⟩, none⟩], [⟨⟨2, some 3⟩, some 4⟩], none, [⟨⟨5, none⟩, some 6⟩, ⟨⟨7, none⟩, some 8⟩], none⟩ ∧
    (([⟨⟨5, none⟩, some 6⟩, ⟨⟨7, none⟩, some 8⟩] : List ParamD).all (·.default.isSome) = true) := by decide

/-- The domain predicate is needed: the Python-style form cannot express a positional default that
    is not trailing (`def f(a=1, b)`, which Python rejects); the default moves to `b`. -/
theorem roundtrip_needs_trailing :
    roundTrip ⟨[], [⟨⟨1, none⟩, some 7⟩, ⟨⟨2, none⟩, none⟩], none, [], none⟩ =
      some ⟨[], [⟨⟨1, none⟩, none⟩, ⟨⟨2, none⟩, some 7⟩], none, [], none⟩ := by decide

/-! ### Order of keyword-only parameters in the Python-style form -/

/-- The property as stated ("as documented"). -/
def toPython_kwonly_order_full : Prop := ∀ a : Arguments, kwonlyOrdered a (toPython a)

/-- `def f(*, a=1, b)` -/
def witnessOrder : Arguments := { posonly := [], args := [], vararg := none, kwonly := [⟨⟨1, none⟩, some 7⟩, ⟨⟨2, none⟩, none⟩], kwarg := none }

/-- False for the unchanged code: `def f(*, a=1, b)` is listed as `[a, b]`. -/
theorem toPython_kwonly_order_fails : ¬ toPython_kwonly_order_full := by
  intro h
  have := h witnessOrder
  revert this
  decide

/-- What does hold: the order is right when the source already has it. -/
theorem toPython_kwonly_order_partial (a : Arguments) (h : trailingDefaults a.kwonly = true) :
    kwonlyOrdered a (toPython a) := by
  have hs := trailing_split a.kwonly h
  have hm : (toPython a).kwonly = kwNoDefault a ++ kwWithDefault a := by
    rw [toPython_eq]
    show a.kwonly.map (·.arg) = _
    conv => lhs; rw [hs]
    simp [kwNoDefault, kwWithDefault]
  unfold kwonlyOrdered
  rw [hm, List.take_left, List.drop_left]
  exact ⟨List.Perm.refl _, List.Perm.refl _⟩

example : trailingDefaults witnessKw.kwonly = true := by decide

/-- `split_kwonlyargs` does compute the documented partition (it is just not used by the
    conversions). -/
theorem splitKwonly_spec (a : Arguments) :
    (splitKwonly a).1 = kwNoDefault a ∧ (splitKwonly a).2.map (·.1) = kwWithDefault a ∧
    (splitKwonly a).2.map (·.2) = a.kwonly.filterMap (·.default) := by
  simp only [splitKwonly, splitKwonlyGo_eq, kwNoDefault, kwWithDefault, List.nil_append, true_and]
  constructor
  · induction a.kwonly with
    | nil => rfl
    | cons p ps ih => cases hd : p.default <;> simp [hd, ih]
  · induction a.kwonly with
    | nil => rfl
    | cons p ps ih => cases hd : p.default <;> simp [hd, ih]

/-! ### No arithmetic underflow -/

/-- `into_arguments` panics exactly when there are more positional defaults than positional
    parameters (`args_len - defaults.len()`). -/
theorem intoArguments_none_iff (p : PyArguments) :
    intoArguments p = none ↔ p.posonly.length + p.args.length < p.defaults.length := by
  unfold intoArguments
  simp only
  split <;> simp_all

theorem intoArguments_no_underflow (p : PyArguments)
    (h : p.defaults.length ≤ p.posonly.length + p.args.length) : (intoArguments p).isSome = true := by
  cases hp : intoArguments p with
  | some b => rfl
  | none => have := (intoArguments_none_iff p).1 hp; omega

/-- …and the output of `to_python_arguments` is always in that domain, well-formed source or not. -/
theorem toPython_no_underflow (a : Arguments) : (intoArguments (toPython a)).isSome = true := by
  have := roundTrip_eq a
  unfold roundTrip at this
  rw [this]; rfl

example : intoArguments ⟨[⟨1, none⟩], [], none, [], [], none, [5, 6]⟩ = none := by decide

/-! ### Both directions against Python's reading of the Python-style form -/

/-- `into_arguments` gives a Python-style list the meaning Python gives it ("defaults belong to the
    last n parameters") — full statement, false on the unchanged code … -/
def intoArguments_denote_full : Prop := ∀ p : PyArguments, intoArguments p = denote p

/-- Python-style `(*, a, b=1)`: kwonlyargs `[a, b]`, kw_defaults `[1]` -/
def witnessPy : PyArguments := { posonly := [], args := [], vararg := none, kwonly := [⟨1, none⟩, ⟨2, none⟩], kwDefaults := [7], kwarg := none, defaults := [] }

theorem intoArguments_denote_fails : ¬ intoArguments_denote_full := by
  intro h
  have := h witnessPy
  revert this
  decide

/-- … and true whenever every keyword-only parameter has a default; the positional part is
    unconditional (including agreement on when the input is rejected). -/
theorem intoArguments_denote_partial (p : PyArguments) (hk : p.kwDefaults.length = p.kwonly.length) :
    intoArguments p = denote p := by
  unfold intoArguments denote
  simp only
  by_cases hu : p.posonly.length + p.args.length < p.defaults.length
  · rw [if_pos hu, if_neg (by omega)]
  · rw [if_neg hu, if_pos (by omega)]
    have hle : p.defaults.length ≤ (p.posonly ++ p.args).length := by simp; omega
    rw [attachLast_eq_zip _ _ hle, attachLast_eq_zip _ _ (by omega), zipFrom_append]
    have hl : (zipFrom p.posonly (List.take p.posonly.length
        (padFront ((p.posonly ++ p.args).length - p.defaults.length) p.defaults))).length = p.posonly.length := by
      rw [zipFrom_length_eq]; simp [List.length_take, padFront_length]; omega
    rw [List.take_left' hl, List.drop_left' hl]
    simp [hk, padFront]

example : (⟨[⟨1, none⟩], [⟨2, some 3⟩, ⟨4, none⟩], some ⟨5, none⟩, [⟨6, none⟩], [9], none, [7, 8]⟩ : PyArguments).kwDefaults.length = 1 := rfl

/-- `to_python_arguments` produces a list that *denotes* the source signature — full statement,
    false on the unchanged code (`def f(*, a=1, b)` denotes `def f(*, a, b=1)`) … -/
def toPython_denotes_full : Prop := ∀ a : Arguments, wellFormed a → ∃ b, denote (toPython a) = some b ∧ sameSignature b a

theorem toPython_denotes_fails : ¬ toPython_denotes_full := by
  intro h
  obtain ⟨b, hb, hs⟩ := h witnessOrder (by decide)
  have e : denote (toPython witnessOrder) = some { witnessOrder with kwonly := [⟨⟨1, none⟩, none⟩, ⟨⟨2, none⟩, some 7⟩] } := by decide
  rw [e] at hb
  cases hb
  revert hs
  decide

/-- … and true when the keyword-only parameters are already in the documented order. -/
theorem toPython_denotes_partial (a : Arguments) (h : wellFormed a)
    (hk : trailingDefaults a.kwonly = true) : denote (toPython a) = some a := by
  have hle0 := filterMap_length_le (a.posonly ++ a.args)
  have hle := hle0
  have hlek := filterMap_length_le a.kwonly
  simp only [List.length_append] at hle
  rw [toPython_eq]
  unfold denote
  simp only [List.length_map]
  rw [if_pos ⟨by omega, by omega⟩]
  have h1 : attachLast (a.posonly.map (·.arg) ++ a.args.map (·.arg)) ((a.posonly ++ a.args).filterMap (·.default))
      = a.posonly ++ a.args := by
    rw [← List.map_append, attachLast_eq_zip _ _ (by rw [List.length_map]; exact hle0)]
    simpa using zip_trailing _ h
  have h2 : attachLast (a.kwonly.map (·.arg)) (a.kwonly.filterMap (·.default)) = a.kwonly := by
    rw [attachLast_eq_zip _ _ (by simp; omega)]
    simpa using zip_trailing _ hk
  rw [h1, h2]
  cases a; simp

/-! ### `Arguments::defaults()` -/

/-- The iterator helper `Arguments::defaults()` yields exactly the `defaults` list of the
    Python-style form; a value is yielded iff it is the default of a positional(-only) parameter;
    and read the Python way ("they correspond to the last n arguments") against the positional
    parameters it gives every parameter exactly its own default back. -/
theorem defaults_spec (a : Arguments) :
    defaults a = (toPython a).defaults ∧
    (∀ d, d ∈ defaults a ↔ ∃ p ∈ a.posonly ++ a.args, p.default = some d) ∧
    (wellFormed a →
      attachLast ((a.posonly ++ a.args).map (·.arg)) (defaults a) = a.posonly ++ a.args) := by
  refine ⟨by simp [defaults, toPython_eq], ?_, ?_⟩
  · intro d
    simp only [defaults, List.mem_filterMap]
  · intro h
    have hle := filterMap_length_le (a.posonly ++ a.args)
    unfold defaults
    rw [attachLast_eq_zip _ _ (by rw [List.length_map]; exact hle)]
    simpa using zip_trailing _ h

example : defaults ⟨[⟨⟨1, none⟩, none⟩, ⟨⟨2, none⟩, some 5⟩], [⟨⟨3, some 9⟩, some 6⟩], none,
    [⟨⟨4, none⟩, some 7⟩], none⟩ = [5, 6] := by decide

end PV.C14
