import PV.C14.Model
import PV.C14.Spec
/-! C14 — helper lemmas: closed forms of the accumulator loops, padding and zipping. -/
namespace PV.C14
open Spec

theorem collectGo_eq (xs : List ParamD) (out : List Param) (ds : List Nat) :
    collectGo xs out ds = (out ++ xs.map (·.arg), ds ++ xs.filterMap (·.default)) := by
  induction xs generalizing out ds with
  | nil => simp [collectGo]
  | cons x xs ih =>
    cases h : x.default <;> simp [collectGo, toArg, h, ih]

theorem splitKwonlyGo_eq (xs : List ParamD) (as : List Param) (ws : List (Param × Nat)) :
    splitKwonlyGo xs as ws =
      (as ++ (xs.filter (·.default.isNone)).map (·.arg),
       ws ++ xs.filterMap (fun p => p.default.map (fun d => (p.arg, d)))) := by
  induction xs generalizing as ws with
  | nil => simp [splitKwonlyGo]
  | cons x xs ih =>
    cases h : x.default <;> simp [splitKwonlyGo, asArg, h, ih]

theorem toPython_eq (a : Arguments) :
    toPython a =
      { posonly := a.posonly.map (·.arg), args := a.args.map (·.arg),
        defaults := (a.posonly ++ a.args).filterMap (·.default), vararg := a.vararg,
        kwonly := a.kwonly.map (·.arg), kwDefaults := a.kwonly.filterMap (·.default),
        kwarg := a.kwarg } := by
  simp [toPython, collectGo_eq]

theorem padFront_length (n : Nat) (ds : List Nat) : (padFront n ds).length = n + ds.length := by
  simp [padFront]

/-- all parameters have defaults: zipping the names with all the defaults gives the list back -/
theorem zip_allSome (l : List ParamD) (h : l.all (·.default.isSome) = true) :
    zipFrom (l.map (·.arg)) ((l.filterMap (·.default)).map some) = l := by
  induction l with
  | nil => simp [zipFrom]
  | cons p ps ih =>
    simp only [List.all_cons, Bool.and_eq_true] at h
    obtain ⟨hp, hps⟩ := h
    cases hd : p.default with
    | none => simp [hd] at hp
    | some d =>
      have := ih hps
      simp only [zipFrom] at this
      simp [zipFrom, hd, fromArg, this]
      cases p; simp_all

theorem filterMap_length_le (l : List ParamD) : (l.filterMap (·.default)).length ≤ l.length :=
  List.length_filterMap_le _ _

theorem filterMap_allSome_length (l : List ParamD) (h : l.all (·.default.isSome) = true) :
    (l.filterMap (·.default)).length = l.length := by
  induction l with
  | nil => rfl
  | cons p ps ih =>
    simp only [List.all_cons, Bool.and_eq_true] at h
    cases hd : p.default with
    | none => simp [hd] at h
    | some d => simp [hd, ih h.2]

/-- defaults form a suffix: padding the defaults in front and zipping gives the list back -/
theorem zip_trailing (l : List ParamD) (h : trailingDefaults l = true) :
    zipFrom (l.map (·.arg))
      (padFront (l.length - (l.filterMap (·.default)).length) (l.filterMap (·.default))) = l := by
  induction l with
  | nil => simp [zipFrom, padFront]
  | cons p ps ih =>
    cases hd : p.default with
    | some d =>
      have hall : (p :: ps).all (·.default.isSome) = true := by
        simp only [trailingDefaults, hd, Option.isSome_some, if_true] at h
        simp [hd]; simpa using h
      have hl := filterMap_allSome_length _ hall
      rw [hl, Nat.sub_self]
      simpa [padFront] using zip_allSome _ hall
    | none =>
      have h' : trailingDefaults ps = true := by
        simpa [trailingDefaults, hd] using h
      have hle := filterMap_length_le ps
      have : (p :: ps).length - (List.filterMap (·.default) ps).length
          = (ps.length - (List.filterMap (·.default) ps).length) + 1 := by
        simp; omega
      simp only [List.filterMap_cons, hd, this]
      have ih' := ih h'
      simp only [zipFrom, padFront] at ih' ⊢
      simp [List.replicate_succ, ih', fromArg]
      cases p; simp_all

/-- the padded default vector of the round trip -/
def rtDefaults (a : Arguments) : List (Option Nat) :=
  padFront ((a.posonly ++ a.args).length - ((a.posonly ++ a.args).filterMap (·.default)).length)
    ((a.posonly ++ a.args).filterMap (·.default))

theorem roundTrip_eq (a : Arguments) :
    roundTrip a = some
      { posonly := zipFrom (a.posonly.map (·.arg)) ((rtDefaults a).take a.posonly.length),
        args := zipFrom (a.args.map (·.arg)) ((rtDefaults a).drop a.posonly.length),
        vararg := a.vararg,
        kwonly := zipFrom (a.kwonly.map (·.arg)) ((a.kwonly.filterMap (·.default)).map some),
        kwarg := a.kwarg } := by
  have hle := filterMap_length_le (a.posonly ++ a.args)
  simp only [List.length_append] at hle
  simp only [roundTrip, toPython_eq, intoArguments, List.length_map, rtDefaults]
  rw [if_neg (by omega)]
  simp [padFront]

theorem zipFrom_append (xs ys : List Param) (ds : List (Option Nat)) :
    zipFrom (xs ++ ys) ds = zipFrom xs (ds.take xs.length) ++ zipFrom ys (ds.drop xs.length) := by
  induction xs generalizing ds with
  | nil => simp [zipFrom]
  | cons x xs ih =>
    cases ds with
    | nil => simp [zipFrom]
    | cons d ds =>
      have := ih ds
      simp only [zipFrom] at this
      simp [zipFrom, this]

theorem zipFrom_length_eq (xs : List Param) (ds : List (Option Nat)) (h : xs.length ≤ ds.length) :
    (zipFrom xs ds).length = xs.length := by
  simp [zipFrom]; omega

theorem filterMap_default_length (l : List ParamD) :
    (l.filterMap (·.default)).length = (l.filter (·.default.isSome)).length := by
  induction l with
  | nil => rfl
  | cons p ps ih => cases hd : p.default <;> simp [hd, ih]

theorem filter_isSome_lt (l : List ParamD) (hk : l.any (·.default.isNone) = true) :
    (l.filter (·.default.isSome)).length < l.length := by
  induction l with
  | nil => simp at hk
  | cons p ps ih =>
    cases hd : p.default with
    | none =>
      have := List.length_filter_le (fun x : ParamD => x.default.isSome) ps
      simp [hd]; omega
    | some d =>
      have hk' : ps.any (·.default.isNone) = true := by simpa [hd] using hk
      have := ih hk'
      simp only [List.filter_cons, hd, Option.isSome_some, if_true, List.length_cons]; omega

theorem trailing_split (l : List ParamD) (h : trailingDefaults l = true) :
    l = l.filter (·.default.isNone) ++ l.filter (·.default.isSome) := by
  induction l with
  | nil => rfl
  | cons p ps ih =>
    cases hd : p.default with
    | none =>
      have h' : trailingDefaults ps = true := by simpa [trailingDefaults, hd] using h
      have := ih h'
      simp only [List.filter_cons, hd, Option.isNone_none, Option.isSome_none, if_true, List.cons_append]
      simp only [Bool.false_eq_true, if_false]
      congr 1
    | some d =>
      have hall : ps.all (·.default.isSome) = true := by
        simpa [trailingDefaults, hd] using h
      have h1 : ps.filter (·.default.isSome) = ps := by
        apply List.filter_eq_self.2
        simpa using hall
      have h2 : ps.filter (·.default.isNone) = [] := by
        apply List.filter_eq_nil_iff.2
        intro x hx
        have := (List.all_eq_true.1 hall) x hx
        cases hx' : x.default <;> simp_all
      simp [hd, h1, h2]

theorem attachLast_nil (ps : List Param) : attachLast ps [] = zipFrom ps (padFront ps.length []) := by
  induction ps with
  | nil => rfl
  | cons p ps ih => simp [attachLast, ih, zipFrom, padFront, List.replicate_succ, fromArg]

theorem attachLast_eq_zip (ps : List Param) (ds : List Nat) (h : ds.length ≤ ps.length) :
    attachLast ps ds = zipFrom ps (padFront (ps.length - ds.length) ds) := by
  induction ps generalizing ds with
  | nil => rfl
  | cons p ps ih =>
    cases ds with
    | nil => simpa using attachLast_nil (p :: ps)
    | cons d ds =>
      simp only [List.length_cons] at h
      unfold attachLast
      split
      · rename_i hlt
        have e : ps.length + 1 - (ds.length + 1) = (ps.length - (ds.length + 1)) + 1 := by omega
        rw [ih (d :: ds) (by simp; omega)]
        simp only [List.length_cons, e]
        simp [zipFrom, padFront, List.replicate_succ, fromArg]
      · rename_i hge
        have e : ps.length = ds.length := by omega
        rw [ih ds (by omega)]
        simp [zipFrom, padFront, e, fromArg]

end PV.C14
