import PV.C13.Lemmas
import PV.Common.Proto
/-
  C13 — the incremental locator refines the reference definition: lemmas for `linear_eq_spec`.
-/
namespace PV.C13
open PV.C15 PV.C13.Spec


/-- The locator state is a function of the cursor: the state every forward history that ends with
    the cursor at `c` leaves behind. -/
def stateAt (src : List Nat) (c : Nat) : St :=
  let ls := lineStartOf src c
  { lineStart := if ls = 0 ∧ hasBom src = true then 3 else ls
    lineEnd := (lineEndAscii src ls).1
    lineNumber := 1 + (breaksBefore src c).length
    cursor := c
    isAscii := (lineEndAscii src ls).2 }

/-- the character column of `locate_inner`: byte column on an ASCII line, `chars().count()` otherwise -/
def charColumn (src : List Nat) (state : St) (column : Nat) : Option Nat :=
  if state.isAscii then some column
  else
    match sliceChecked src state.lineStart (state.lineStart + column) with
    | some s => some (charCount s)
    | none => none

/-- the tail of `locate_inner`: character column, `OneIndexed`, debug self-check -/
def finish (dbg : Bool) (src : List Nat) (state : St) (off column : Nat) (newState : Option St) :
    Option (Nat × Option St) :=
  match charColumn src state column with
  | none => none
  | some column =>
    let column := column + 1
    if dbg then
      match sourceLocation src off with
      | some (row, col) =>
        if state.lineNumber = row + 1 ∧ column = col + 1 then some (column, newState) else none
      | none => none
    else some (column, newState)

theorem locateInner_unfold (dbg : Bool) (src : List Nat) (st : St) (off : Nat) :
    locateInner dbg src st off =
      match (match st.newLineStart off with
        | some nls =>
          match advance src st nls off with
          | some (column, ns) => some (column, some ns)
          | none => none
        | none =>
          match subU32 dbg off st.lineStart with
          | some column => some (column, none)
          | none => none : Option (Nat × Option St)) with
      | none => none
      | some (column, newState) => finish dbg src (newState.getD st) off column newState := rfl

/-- elements of a strictly increasing list are at most its last element -/
theorem sorted_le_getLast {xs : List Nat} (h : xs.Pairwise (· < ·)) {a : Nat} (ha : a ∈ xs) :
    a ≤ xs.getLast?.getD 0 := by
  rcases List.eq_nil_or_concat xs with rfl | ⟨ys, y, rfl⟩
  · simp at ha
  · simp at ha ⊢
    rw [List.concat_eq_append, List.pairwise_append] at h
    rcases ha with ha | rfl
    · have := h.2.2 a ha y (by simp); omega
    · omega

theorem no_break_between {src : List Nat} {c a : Nat} (ha : a ∈ breakEnds 0 src)
    (h1 : lineStartOf src c < a) : c < a := by
  apply Classical.byContradiction
  intro hn
  have hmem : a ∈ breaksBefore src c := by
    unfold breaksBefore; simp [ha]; omega
  have := sorted_le_getLast ((breakEnds_sorted 0 src).filter _) hmem
  unfold lineStartOf at h1
  unfold breaksBefore at this h1
  omega

theorem lineStartOf_good (src : List Nat) (c : Nat) : insideCrlf src (lineStartOf src c) = false := by
  rcases lineStartOf_mem_or_zero src c with h | h
  · rw [h]; simp [insideCrlf]
  · exact breakEnds_good h

theorem lineEndAscii_fst (src : List Nat) (a : Nat) :
    (lineEndAscii src a).1 = (breakEnds a (src.drop a)).head? := by
  unfold lineEndAscii
  cases hf : findNewline (src.drop a) with
  | none => simp [hf, breakEnds_noNl (findNewline_none hf)]
  | some pl =>
    obtain ⟨p, l⟩ := pl
    obtain ⟨pre, nl, post, e, hp, hl, hn, ht⟩ := findNewline_some hf
    simp only [hf]
    rw [e, breakEnds_term hn ht, hp, hl]; simp

/-- the stored `line_end` is the first break end after the cursor -/
theorem lineEnd_eq_next {src : List Nat} {c : Nat} (hc : c ≤ src.length) :
    (lineEndAscii src (lineStartOf src c)).1 = ((breakEnds 0 src).filter (c < ·)).head? := by
  have hls := lineStartOf_le src c
  have hgood := lineStartOf_good src c
  have hfil : (breakEnds 0 src).filter (c < ·) = (breakEnds 0 src).filter (lineStartOf src c < ·) := by
    apply List.filter_congr
    intro a ha
    by_cases h1 : lineStartOf src c < a
    · have := no_break_between ha h1; simp [h1, this]
    · have : ¬ c < a := by omega
      simp [h1, this]
  rw [hfil, breaksAfter_eq_drop (by omega) hgood]
  exact lineEndAscii_fst src _

theorem isTerm_ascii {nl post : List Nat} (h : IsTerm nl post) : ∀ x ∈ nl, x < 128 := by
  rcases h with rfl | rfl | ⟨rfl, _⟩ <;> simp

/-- when the `is_ascii` flag computed for the line starting at `a` is set, every byte from `a` up to
    the end of that line (terminator included) is ASCII -/
theorem lineEndAscii_ascii {src : List Nat} {a off : Nat} (h : (lineEndAscii src a).2 = true)
    (hle : ∀ e, (lineEndAscii src a).1 = some e → off ≤ e) :
    isAsciiText (between src a off) = true := by
  unfold lineEndAscii at h hle
  unfold between isAsciiText
  rw [List.all_eq_true]
  intro x hx
  cases hf : findNewline (src.drop a) with
  | none =>
    simp only [hf] at h
    exact (List.all_eq_true.mp h) x (List.mem_of_mem_take hx)
  | some pl =>
    obtain ⟨p, l⟩ := pl
    obtain ⟨pre, nl, post, e, hp, hl, hn, ht⟩ := findNewline_some hf
    simp only [hf] at h hle
    have hoff := hle _ rfl
    rw [e] at hx h
    have hpre : List.take p (pre ++ nl ++ post) = pre := by
      rw [List.append_assoc, List.take_append_of_le_length (by omega), ← hp]; simp
    rw [hpre] at h
    have : List.take (off - a) (pre ++ nl ++ post) = List.take (off - a) (pre ++ nl) := by
      rw [List.take_append_of_le_length (by simp; omega)]
    rw [this] at hx
    have hx' := List.mem_of_mem_take hx
    simp at hx'
    rcases hx' with hx' | hx'
    · have := (List.all_eq_true.mp h) x hx'; simpa using this
    · have := isTerm_ascii ht x hx'; simpa using this


theorem stateAt_lineStart {src : List Nat} {off : Nat} (h3 : startsWithBom src = true → 3 ≤ off) :
    (stateAt src off).lineStart = effStart src (lineStartOf src off) off := by
  unfold stateAt effStart
  rw [hasBom_eq]
  by_cases hb : startsWithBom src = true
  · simp [hb, h3 hb]
  · simp [hb]

theorem effStart_le {src : List Nat} {off : Nat} : effStart src (lineStartOf src off) off ≤ off := by
  unfold effStart; split
  next h => exact h.2.2
  next => exact lineStartOf_le src off

theorem next_gt {src : List Nat} {off e : Nat} (h : ((breakEnds 0 src).filter (off < ·)).head? = some e) : off < e := by
  have := List.mem_of_mem_head? h
  simpa using (List.mem_filter.mp this).2

/-- the column post-processing of `locate_inner`, in the state that belongs to the offset -/
theorem column_eq {src : List Nat} (hs : LineStartsOk src) {off : Nat} (hd : InDomain src off)
    (h3 : startsWithBom src = true → 3 ≤ off) :
    charColumn src (stateAt src off) (off - (stateAt src off).lineStart)
    = some (codePoints (between src (effStart src (lineStartOf src off) off) off)) := by
  have hle : off ≤ src.length := isBoundary_le hd.1
  unfold charColumn
  rw [stateAt_lineStart h3]
  have heffle := effStart_le (src := src) (off := off)
  by_cases hasc : (stateAt src off).isAscii = true
  · simp only [hasc, ↓reduceIte]
    have hasc' : (lineEndAscii src (lineStartOf src off)).2 = true := hasc
    have hall := lineEndAscii_ascii (off := off) hasc' (by
      intro e he
      rw [lineEnd_eq_next hle] at he
      exact Nat.le_of_lt (next_gt he))
    have heff : effStart src (lineStartOf src off) off = lineStartOf src off := by
      unfold effStart
      split
      next h =>
        exfalso
        obtain ⟨h0, hb, h3'⟩ := h
        unfold startsWithBom at hb
        split at hb
        next tail =>
          rw [h0] at hall
          have : (239 : Nat) ∈ between (239 :: 187 :: 191 :: tail) 0 off := by
            unfold between
            have : off - 0 = (off - 1) + 1 := by omega
            rw [this]; simp
          have := (List.all_eq_true.mp hall) 239 this
          simp at this
        · simp at hb
      next => rfl
    rw [heff]
    have := codePoints_ascii hall
    rw [between_length hle] at this
    rw [this]
  · simp only [hasc, Bool.false_eq_true, ↓reduceIte]
    have : effStart src (lineStartOf src off) off + (off - effStart src (lineStartOf src off) off) = off := by omega
    rw [this, sliceChecked_eq heffle hle (effStart_boundary hs off) hd.1]
    simp [charCount_eq_codePoints]


theorem sorted_head_le {xs : List Nat} (h : xs.Pairwise (· < ·)) {e a : Nat} (he : xs.head? = some e)
    (ha : a ∈ xs) : e ≤ a := by
  cases xs with
  | nil => simp at ha
  | cons y ys =>
    simp at he; subst he
    simp at ha
    rcases ha with rfl | ha
    · omega
    · have := (List.pairwise_cons.mp h).1 a ha; omega

theorem stateAt_newLineStart {src : List Nat} {c off : Nat} (hc : c ≤ src.length) :
    (stateAt src c).newLineStart off =
      match ((breakEnds 0 src).filter (c < ·)).head? with
      | some e => if e ≤ off then some e else none
      | none => none := by
  unfold St.newLineStart
  show (match (lineEndAscii src (lineStartOf src c)).1 with
      | some e => if e ≤ off then some e else none
      | none => none) = _
  rw [lineEnd_eq_next hc]

/-- the offset is still on the cursor's line: no break ends in `(c, off]` -/
theorem breaksBefore_same {src : List Nat} {c off : Nat} (hc : c ≤ src.length) (hco : c ≤ off)
    (hn : (stateAt src c).newLineStart off = none) : breaksBefore src off = breaksBefore src c := by
  rw [stateAt_newLineStart hc] at hn
  unfold breaksBefore
  apply List.filter_congr
  intro a ha
  by_cases h1 : a ≤ c
  · have : a ≤ off := by omega
    simp [h1, this]
  · have hmem : a ∈ (breakEnds 0 src).filter (c < ·) := by simp [ha]; omega
    cases hh : ((breakEnds 0 src).filter (c < ·)).head? with
    | none =>
      rw [List.head?_eq_none_iff] at hh
      rw [hh] at hmem; simp at hmem
    | some e =>
      rw [hh] at hn
      have hle := sorted_head_le ((breakEnds_sorted 0 src).filter _) hh hmem
      have : ¬ e ≤ off := by intro h'; simp [h'] at hn
      have : ¬ a ≤ off := by omega
      simp [h1, this]

theorem stateAt_same {src : List Nat} {c off : Nat} (h : breaksBefore src off = breaksBefore src c) :
    { stateAt src c with cursor := off } = stateAt src off := by
  unfold stateAt lineStartOf
  simp [h]


theorem between_append (src : List Nat) {a b c : Nat} (hab : a ≤ b) (hbc : b ≤ c) :
    between src a c = between src a b ++ between src b c := by
  unfold between
  have h1 : c - a = (b - a) + (c - b) := by omega
  rw [h1, List.take_add, List.drop_drop]
  congr 3; omega

theorem take_eq_between (src : List Nat) (b : Nat) : src.take b = between src 0 b := by
  simp [between]

theorem take_between (src : List Nat) {a b : Nat} (hab : a ≤ b) :
    src.take b = src.take a ++ between src a b := by
  rw [take_eq_between, take_eq_between, ← between_append src (Nat.zero_le a) hab]

theorem take_take_between (src : List Nat) {a b : Nat} (_hab : a ≤ b) :
    (src.take b).drop a = between src a b := by
  unfold between
  rw [List.drop_take]

theorem between_take (src : List Nat) {a n m : Nat} (h : n ≤ m) :
    (between src a (a + m)).take n = between src a (a + n) := by
  unfold between
  rw [List.take_take]; congr 1; omega

theorem between_drop (src : List Nat) {a n m : Nat} (_h : n ≤ m) :
    (between src a (a + m)).drop n = between src (a + n) (a + m) := by
  unfold between
  rw [List.drop_take, List.drop_drop]; congr 1; omega

theorem insideCrlf_take {src : List Nat} {k : Nat} (h : insideCrlf src k = false) (n : Nat) :
    insideCrlf (src.take n) k = false := by
  unfold insideCrlf at h ⊢
  by_cases h1 : (src.take n)[k - 1]? = some 13
  · by_cases h2 : (src.take n)[k]? = some 10
    · have a1 : src[k - 1]? = some 13 := by
        rw [List.getElem?_take] at h1; split at h1 <;> simp_all
      have a2 : src[k]? = some 10 := by
        rw [List.getElem?_take] at h2; split at h2 <;> simp_all
      simp [a1, a2] at h
      simp [h]
    · simp [h2]
  · simp [h1]

/-- the breaks before a good offset `off`, cut at an earlier good offset `k` -/
theorem breaksBefore_cut {src : List Nat} {k off : Nat} (hko : k ≤ off) (ho : off ≤ src.length)
    (hk : insideCrlf src k = false) (hoff : insideCrlf src off = false) :
    breaksBefore src off = breaksBefore src k ++ breakEnds k (between src k off) := by
  rw [breaksBefore_eq_take ho hoff, breaksBefore_eq_take (by omega) hk]
  have hlen : k ≤ (src.take off).length := by simp; omega
  rw [breakEnds_split hlen (insideCrlf_take hk off), List.take_take, Nat.min_eq_left hko,
    take_take_between src hko]


theorem junction_noNl_right {a b : List Nat} (h : NoNl b) : Junction a b := by
  intro ⟨_, h2⟩
  have := h 10 (List.mem_of_mem_head? h2)
  simp at this

/-- what the cursor has to satisfy -/
structure CurOk (src : List Nat) (c : Nat) : Prop where
  dom : InDomain src c
  bom : startsWithBom src = true → 3 ≤ c

theorem CurOk.le {src : List Nat} {c : Nat} (h : CurOk src c) : c ≤ src.length := isBoundary_le h.dom.1

/-- facts about the stored line end `e` -/
theorem next_facts {src : List Nat} {c e : Nat}
    (he : ((breakEnds 0 src).filter (c < ·)).head? = some e) :
    e ∈ breakEnds 0 src ∧ c < e ∧ e ≤ src.length ∧ insideCrlf src e = false ∧
    breaksBefore src e = breaksBefore src c ++ [e] := by
  have hmem := List.mem_of_mem_head? he
  have hm := (List.mem_filter.mp hmem).1
  have hce : c < e := by simpa using (List.mem_filter.mp hmem).2
  refine ⟨hm, hce, by simpa using (breakEnds_bounds hm).2, breakEnds_good hm, ?_⟩
  unfold breaksBefore
  rw [sorted_filter_le_of_mem (breakEnds_sorted 0 src) hm]
  congr 1
  apply List.filter_congr
  intro a ha
  by_cases h1 : a ≤ c
  · have : a < e := by omega
    simp [h1, this]
  · have : a ∈ (breakEnds 0 src).filter (c < ·) := by simp [ha]; omega
    have := sorted_head_le ((breakEnds_sorted 0 src).filter _) he this
    have : ¬ a < e := by omega
    simp [h1, this]

theorem stateAt_of {src : List Nat} {c off lines ls' : Nat}
    (h1 : (breaksBefore src off).length = (breaksBefore src c).length + lines)
    (h2 : lineStartOf src off = ls') (h0 : ls' ≠ 0) :
    ({ lineStart := ls', lineEnd := (lineEndAscii src ls').1,
       lineNumber := (stateAt src c).lineNumber + lines, cursor := off,
       isAscii := (lineEndAscii src ls').2 } : St) = stateAt src off := by
  unfold stateAt
  simp [h1, h2, h0]; omega


theorem getLast?_append_of_ne_nil {l1 l2 : List Nat} (h : l2 ≠ []) : (l1 ++ l2).getLast? = l2.getLast? := by
  rw [List.getLast?_append]
  cases h' : l2.getLast? with
  | none => simp at h'; exact absurd h' h
  | some x => simp

/-- the "not fit in current line" arm, from the state that belongs to `c` -/
theorem advance_eq {src : List Nat} (hs : LineStartsOk src) {c e off : Nat} (hc : CurOk src c)
    (he : ((breakEnds 0 src).filter (c < ·)).head? = some e) (heo : e ≤ off) (hd : InDomain src off) :
    advance src (stateAt src c) e off = some (off - lineStartOf src off, stateAt src off) := by
  obtain ⟨hm, hce, hel, heg, hbe⟩ := next_facts he
  have hol : off ≤ src.length := isBoundary_le hd.1
  have hcl := hc.le
  have hcut := breaksBefore_cut (by omega : c ≤ off) hol hc.dom.2 hd.2
  have hcute := breaksBefore_cut (Nat.le_of_lt hce) hel hc.dom.2 heg
  -- the rest of the cursor's line has exactly one break, at its end
  have hline : breakEnds c (between src c e) = [e] := by
    rw [hbe] at hcute; exact (List.append_cancel_left hcute).symm
  unfold advance
  rw [sliceChecked_eq heo hol (hs.1 e hm) hd.1]
  simp only
  cases hr : rfindNewline (between src e off) with
  | none =>
    have hno := rfindNewline_none hr
    have hM : breakEnds c (between src c off) = [e] := by
      rw [between_append src (Nat.le_of_lt hce) heo, breakEnds_append (junction_noNl_right hno),
        breakEnds_noNl hno, hline]; simp
    rw [hM] at hcut
    have h1 : (breaksBefore src off).length = (breaksBefore src c).length + 1 := by simp [hcut]
    have h2 : lineStartOf src off = e := by unfold lineStartOf; rw [hcut]; simp
    have h0 : e ≠ 0 := by omega
    simp only [h2]
    rw [← stateAt_of h1 h2 h0]
  | some p =>
    obtain ⟨F1, x, F2, hF, hF1, hx, hF2⟩ := rfindNewline_some hr
    have hlen : (between src e off).length = off - e := between_length hol
    have hp : p + 1 ≤ off - e := by
      rw [← hlen, hF]; simp; omega
    -- the two slices around the last newline
    have hA : between src e (e + (p + 1)) = F1 ++ [x] := by
      have := between_take src (a := e) (n := p + 1) (m := off - e) hp
      rw [show e + (off - e) = off by omega, hF] at this
      rw [← this, show F1 ++ x :: F2 = (F1 ++ [x]) ++ F2 by simp,
        List.take_append_of_le_length (by simp; omega), List.take_of_length_le (by simp; omega)]
    have hB : between src (e + (p + 1)) off = F2 := by
      have := between_drop src (a := e) (n := p + 1) (m := off - e) hp
      rw [show e + (off - e) = off by omega, hF] at this
      rw [← this, show F1 ++ x :: F2 = (F1 ++ [x]) ++ F2 by simp]
      have : p + 1 = (F1 ++ [x]).length := by simp; omega
      rw [this, List.drop_left]
    have hseg : between src c (e + p + 1) = (between src c e ++ F1) ++ [x] := by
      rw [between_append src (Nat.le_of_lt hce) (by omega : e ≤ e + p + 1),
        show e + p + 1 = e + (p + 1) by omega, hA]; simp
    have hM : breakEnds c (between src c off) = breakEnds c (between src c (e + p + 1)) := by
      rw [between_append src (by omega : c ≤ e + p + 1) (by omega : e + p + 1 ≤ off),
        show e + p + 1 = e + (p + 1) by omega, hB, breakEnds_append (junction_noNl_right hF2),
        breakEnds_noNl hF2]; simp
    rw [hM] at hcut
    have hlast : (breakEnds c (between src c (e + p + 1))).getLast? = some (e + p + 1) := by
      rw [hseg, breakEnds_getLast hx]
      have : (between src c e).length = e - c := between_length hel
      simp [this]; omega
    have hne : breakEnds c (between src c (e + p + 1)) ≠ [] := by
      intro h; rw [h] at hlast; simp at hlast
    have h2 : lineStartOf src off = e + p + 1 := by
      unfold lineStartOf; rw [hcut, getLast?_append_of_ne_nil hne, hlast]; simp
    have hmem : e + p + 1 ∈ breakEnds 0 src := by
      have : e + p + 1 ∈ breaksBefore src off := by
        rw [hcut]; exact List.mem_append_right _ (List.mem_of_getLast? hlast)
      exact (List.mem_filter.mp this).1
    have hcnt : countLines (between src c (e + p + 1)) = (breakEnds c (between src c (e + p + 1))).length := by
      rw [hseg, countLines_eq hx, breakEnds_length_shift c]
    have h1 : (breaksBefore src off).length = (breaksBefore src c).length + countLines (between src c (e + p + 1)) := by
      rw [hcut, hcnt]; simp
    have h0 : e + p + 1 ≠ 0 := by omega
    have hcur : (stateAt src c).cursor = c := rfl
    simp only [hcur]
    rw [sliceChecked_eq (by omega) (by omega) hc.dom.1 (hs.1 _ hmem)]
    simp only [h2]
    rw [← stateAt_of h1 h2 h0]


theorem lineStartOf_pos_of_next {src : List Nat} {c e off : Nat}
    (he : ((breakEnds 0 src).filter (c < ·)).head? = some e) (heo : e ≤ off) : 0 < lineStartOf src off := by
  obtain ⟨hm, hce, _, _, _⟩ := next_facts he
  have hmem : e ∈ breaksBefore src off := by unfold breaksBefore; simp [hm, heo]
  have := sorted_le_getLast ((breakEnds_sorted 0 src).filter _) hmem
  unfold lineStartOf
  unfold breaksBefore at this ⊢
  omega

theorem stateAt_lineStart_of_pos {src : List Nat} {off : Nat} (h : 0 < lineStartOf src off) :
    (stateAt src off).lineStart = lineStartOf src off := by
  unfold stateAt
  have : lineStartOf src off ≠ 0 := by omega
  simp [this]

theorem finish_eq {src : List Nat} (hs : LineStartsOk src) {off : Nat} (hd : InDomain src off)
    (h3 : startsWithBom src = true → 3 ≤ off) (dbg : Bool) (ns : Option St) :
    finish dbg src (stateAt src off) off (off - (stateAt src off).lineStart) ns
      = some ((rowCol src off).2, ns) := by
  unfold finish
  rw [column_eq hs hd h3]
  simp only
  have hr := randomLocate_eq_rowCol hs hd.1
  unfold randomLocate at hr
  rw [rowCol_eq] at hr ⊢
  cases dbg with
  | false => simp; omega
  | true =>
    cases hsl : sourceLocation src off with
    | none => rw [hsl] at hr; simp at hr
    | some rc =>
      obtain ⟨r, c'⟩ := rc
      rw [hsl] at hr
      simp at hr
      have hln : (stateAt src off).lineNumber = 1 + (breaksBefore src off).length := rfl
      simp only [hln, ↓reduceIte]
      have : 1 + (breaksBefore src off).length = r + 1 ∧
          codePoints (between src (effStart src (lineStartOf src off) off) off) + 1 = c' + 1 := by omega
      simp [this]; omega

/-- `locate_inner` from the state that belongs to cursor `c`, at a forward in-domain offset -/
theorem locateInner_eq {src : List Nat} (hs : LineStartsOk src) {c off : Nat} (hc : CurOk src c)
    (hco : c ≤ off) (hd : InDomain src off) (dbg : Bool) :
    ∃ ns, locateInner dbg src (stateAt src c) off = some ((rowCol src off).2, ns) ∧
      (match ns with
        | some s => s
        | none => { stateAt src c with cursor := off }) = stateAt src off := by
  have h3 : startsWithBom src = true → 3 ≤ off := fun h => Nat.le_trans (hc.bom h) hco
  rw [locateInner_unfold]
  cases hn : (stateAt src c).newLineStart off with
  | some e =>
    rw [stateAt_newLineStart hc.le] at hn
    cases hh : ((breakEnds 0 src).filter (c < ·)).head? with
    | none => rw [hh] at hn; simp at hn
    | some e' =>
      rw [hh] at hn
      simp only at hn
      split at hn
      next heo =>
        simp at hn; subst hn
        refine ⟨some (stateAt src off), ?_, rfl⟩
        simp only [advance_eq hs hc hh heo hd, Option.getD_some]
        rw [← stateAt_lineStart_of_pos (lineStartOf_pos_of_next hh heo)]
        exact finish_eq hs hd h3 dbg _
      next => simp at hn
  | none =>
    have hsame := breaksBefore_same hc.le hco hn
    have hst := stateAt_same hsame
    refine ⟨none, ?_, hst⟩
    have hls : (stateAt src c).lineStart = (stateAt src off).lineStart := by rw [← hst]
    have hle : (stateAt src off).lineStart ≤ off := by
      rw [stateAt_lineStart h3]; exact effStart_le
    have hsub : subU32 dbg off (stateAt src c).lineStart = some (off - (stateAt src off).lineStart) := by
      unfold subU32; rw [hls]; simp [hle]
    simp only [hsub, Option.getD_none]
    have : finish dbg src (stateAt src c) off (off - (stateAt src off).lineStart) none
        = finish dbg src (stateAt src off) off (off - (stateAt src off).lineStart) none := by
      rw [← hst]; rfl
    rw [this]
    exact finish_eq hs hd h3 dbg _


theorem breaksBefore_init (src : List Nat) : breaksBefore src (initCursor src) = [] := by
  unfold breaksBefore initCursor
  rw [List.filter_eq_nil_iff]
  intro a ha
  split
  next hb =>
    unfold startsWithBom at hb
    split at hb
    next tail =>
      have e : breakEnds 0 (239 :: 187 :: 191 :: tail) = breakEnds 3 tail := by
        simp [breakEnds]
      rw [e] at ha
      have := breakEnds_bounds ha
      simp; omega
    · simp at hb
  next => have := breakEnds_bounds ha; simp; omega

theorem init_eq_stateAt (src : List Nat) : St.init src = stateAt src (initCursor src) := by
  have hbb := breaksBefore_init src
  have hls : lineStartOf src (initCursor src) = 0 := by unfold lineStartOf; rw [hbb]; simp
  unfold St.init stateAt
  rw [hls, hbb]
  simp [initCursor, hasBom_eq]

theorem curOk_init {src : List Nat} (hs : LineStartsOk src) : CurOk src (initCursor src) := by
  unfold initCursor
  split
  next hb =>
    refine ⟨⟨hs.2 hb, ?_⟩, fun _ => Nat.le_refl 3⟩
    unfold startsWithBom at hb
    split at hb
    · simp [insideCrlf]
    · simp at hb
  next hb =>
    exact ⟨⟨by simp [isBoundary], by simp [insideCrlf]⟩, fun h => absurd h hb⟩

theorem step_eq {src : List Nat} (hs : LineStartsOk src) {c : Nat} (hc : CurOk src c) (dbg : Bool)
    (op : Op) (hco : c ≤ op.off) (hd : InDomain src op.off) :
    step dbg src (stateAt src c) op =
      (some (rowCol src op.off), stateAt src (match op with | .locate o => o | .locateOnly _ => c)) := by
  obtain ⟨ns, h1, h2⟩ := locateInner_eq hs hc hco hd dbg
  cases op with
  | locate o =>
    simp only [Op.off] at hco hd h1 h2
    have hcur : (stateAt src c).cursor = c := rfl
    simp only [step, locate, hcur, h1]
    have : ¬ (dbg = true ∧ ¬ c ≤ o) := by simp [hco]
    simp only [this, ↓reduceIte, Op.off]
    cases ns with
    | some s => dsimp only at h2 ⊢; subst h2; rfl
    | none =>
      dsimp only at h2 ⊢
      have hln : (stateAt src c).lineNumber = (stateAt src o).lineNumber := by rw [← h2]
      rw [h2, hln]; rfl
  | locateOnly o =>
    simp only [Op.off] at hco hd h1 h2
    simp only [step, locateOnly, h1, Op.off]
    have : (ns.getD (stateAt src c)).lineNumber = (stateAt src o).lineNumber := by
      cases ns with
      | some s => simp at h2 ⊢; rw [h2]
      | none => simp at h2 ⊢; rw [← h2]
    rw [this]; rfl

theorem runFrom_eq {src : List Nat} (hs : LineStartsOk src) (dbg : Bool) :
    ∀ (ops : List Op) (c : Nat), CurOk src c → Forward src c ops →
      runFrom dbg src (stateAt src c) ops = ops.map (fun op => some (rowCol src op.off)) := by
  intro ops
  induction ops with
  | nil => intros; rfl
  | cons op rest ih =>
    intro c hc hf
    cases op with
    | locate o =>
      obtain ⟨hco, hd, hrest⟩ := hf
      have hc' : CurOk src o := ⟨hd, fun h => Nat.le_trans (hc.bom h) hco⟩
      simp only [runFrom, step_eq hs hc dbg (.locate o) hco hd, List.map_cons]
      rw [ih o hc' hrest]
    | locateOnly o =>
      obtain ⟨hco, hd, hrest⟩ := hf
      simp only [runFrom, step_eq hs hc dbg (.locateOnly o) hco hd, List.map_cons]
      rw [ih c hc hrest]


/-! ### valid UTF-8 puts every line start on a character boundary -/

theorem validUtf8_head {c : Nat} {r : List Nat} (h : validUtf8 (c :: r) = true) : isCont c = false := by
  unfold validUtf8 at h
  unfold isCont
  split at h
  · simp; omega
  · split at h
    · simp; omega
    · split at h
      · simp; omega
      · split at h
        · simp; omega
        · simp at h

/-- in valid UTF-8 a continuation byte never follows an ASCII byte -/
theorem validUtf8_after_ascii {bs : List Nat} (h : validUtf8 bs = true) :
    ∀ i b c, bs[i]? = some b → b < 128 → bs[i + 1]? = some c → isCont c = false := by
  fun_induction validUtf8 bs
  · simp
  next b rest hb ih =>
    intro i b' c h1 h2 h3
    cases i with
    | zero =>
      simp at h3
      cases rest with
      | nil => simp at h3
      | cons r rs => simp at h3; subst h3; exact validUtf8_head h
    | succ j => exact ih h j b' c (by simpa using h1) h2 (by simpa using h3)
  next b c1 r h0 hb ih =>
    simp at h
    intro i b' c h1 h2 h3
    match i with
    | 0 => simp at h1; omega
    | 1 => simp at h1; subst h1; have := h.1; simp [isCont] at this; omega
    | j + 2 => exact ih h.2 j b' c (by simpa using h1) h2 (by simpa using h3)
  next => simp at h
  next b c1 c2 r h0 h1' hb ih =>
    simp at h
    intro i b' c h1 h2 h3
    match i with
    | 0 => simp at h1; omega
    | 1 => simp at h1; subst h1; have := h.1.1; simp [isCont] at this; omega
    | 2 => simp at h1; subst h1; have := h.1.2; simp [isCont] at this; omega
    | j + 3 => exact ih h.2 j b' c (by simpa using h1) h2 (by simpa using h3)
  next => simp at h
  next b c1 c2 c3 r h0 h1' h2' hb ih =>
    simp at h
    intro i b' c h1 h2 h3
    match i with
    | 0 => simp at h1; omega
    | 1 => simp at h1; subst h1; have := h.1.1.1; simp [isCont] at this; omega
    | 2 => simp at h1; subst h1; have := h.1.1.2; simp [isCont] at this; omega
    | 3 => simp at h1; subst h1; have := h.1.2; simp [isCont] at this; omega
    | j + 4 => exact ih h.2 j b' c (by simpa using h1) h2 (by simpa using h3)
  next => simp at h
  next => simp at h

/-- the byte before a break end is LF or CR -/
theorem breakEnds_prev {i : Nat} {bs : List Nat} {q : Nat} (h : q ∈ breakEnds i bs) :
    bs[q - i - 1]? = some 10 ∨ bs[q - i - 1]? = some 13 := by
  fun_induction breakEnds i bs
  · simp at h
  next i rest ih =>
    simp at h
    rcases h with rfl | h
    · left; simp
    · have hb := breakEnds_bounds h
      have e1 : q - i - 1 = (q - (i + 2) - 1) + 2 := by omega
      rw [e1]; simpa using ih h
  next i rest ih =>
    simp at h
    rcases h with rfl | h
    · left; simp
    · have hb := breakEnds_bounds h
      have e1 : q - i - 1 = (q - (i + 1) - 1) + 1 := by omega
      rw [e1]; simpa using ih h
  next i rest hne ih =>
    simp at h
    rcases h with rfl | h
    · right; simp
    · have hb := breakEnds_bounds h
      have e1 : q - i - 1 = (q - (i + 1) - 1) + 1 := by omega
      rw [e1]; simpa using ih h
  next i x rest h1 h2 h3 ih =>
    have hb := breakEnds_bounds h
    have e1 : q - i - 1 = (q - (i + 1) - 1) + 1 := by omega
    rw [e1]; simpa using ih h


end PV.C13
