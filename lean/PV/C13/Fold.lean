import PV.C12.Model
import PV.C13.Model
import PV.C13.Spec
import PV.C13.Domain
/-
  C13 — the located fold: which `locate` / `locate_only` calls the fold of a tree performs, in which
  order, and which returned position is stored in which node.

    ast/src/gen/fold.rs          the generated `fold_<kind>` functions.  Taken from the fold program
                                 `PV.C12.FoldProg` that `tools/c12_translate.py` regenerates from the
                                 Rust source on every run (order of the `Foldable::fold` calls, presence
                                 of `will_map_user` / `map_user`).
    ast/src/source_locator.rs    `impl Fold<TextRange> for RandomLocator / LinearLocator /
                                 LinearLookaheadLocator`, `linear_locate_expr_joined_str`:
                                 hand-modelled here, line by line (`Plan`s for the overridden
                                 `fold_<kind>` methods, `joinedWith` / `pieceWith` for f-strings).

  Trees are the schema-generic `PV.C12.Tree` (a node = kind id, optional byte range, fields in struct
  order).  The traversal `foldLoc` is written once, over an abstract `Locator`; its instances are
  the real `LinearLocator` model (`linearL`), the `RandomLocator` model (`randomL`) and a recorder
  (`recL`) whose log is the call history `locHistory`.

  Recursion is on a `fuel` argument (every constructor of the tree costs one); `depth t + 1` always
  suffices.  Core Lean only (linked into `drv_c13`).
-/
namespace PV.C13
open PV.C15 PV.C13.Spec
open PV.C12 (Tree FoldProg FoldEntry)

/-- byte range `start..end` of a node -/
abbrev TRange := PV.C12.Range

/-- one-indexed (row, column) -/
abbrev Pos := Nat × Nat
/-- `SourceRange { start, end: Some(end) }` -/
abbrev LRange := Pos × Pos

/-- A located tree: the same shape as `PV.C12.Tree`, every range replaced by a `SourceRange`. -/
inductive LTree where
  | leaf (a : List Nat)
  | node (k : Nat) (r : Option LRange) (fs : List LTree)
  | list (xs : List LTree)
  | none
  | some (t : LTree)
deriving Repr, Inhabited

mutual
def LTree.beq : LTree → LTree → Bool
  | .leaf a, .leaf b => a == b
  | .none, .none => true
  | .some a, .some b => LTree.beq a b
  | .list xs, .list ys => LTree.beqL xs ys
  | .node k r fs, .node k' r' fs' => k == k' && r == r' && LTree.beqL fs fs'
  | _, _ => false
def LTree.beqL : List LTree → List LTree → Bool
  | [], [] => true
  | a :: as, b :: bs => LTree.beq a b && LTree.beqL as bs
  | _, _ => false
end

/-! ### plain functions of a tree -/

mutual
/-- nesting depth (the fuel the traversals need, minus one) -/
def depth : Tree → Nat
  | .leaf _ => 0
  | .none => 0
  | .some t => depth t + 1
  | .list xs => depthL xs + 1
  | .node _ _ fs => depthL fs + 1
def depthL : List Tree → Nat
  | [] => 0
  | t :: ts => max (depth t) (depthL ts)
end

mutual
/-- every offset (start and end of every range) of a tree -/
def offsT : Tree → List Nat
  | .leaf _ => []
  | .none => []
  | .some t => offsT t
  | .list xs => offsL xs
  | .node _ r fs => (match r with | some (a, b) => [a, b] | none => []) ++ offsL fs
def offsL : List Tree → List Nat
  | [] => []
  | t :: ts => offsT t ++ offsL ts
end

mutual
/-- the tree with every range `(a, b)` replaced by `(g a, g b)` -/
def locMap (g : Nat → Pos) : Tree → LTree
  | .leaf a => .leaf a
  | .none => .none
  | .some t => .some (locMap g t)
  | .list xs => .list (locMapL g xs)
  | .node k r fs => .node k (r.map fun x => (g x.1, g x.2)) (locMapL g fs)
def locMapL (g : Nat → Pos) : List Tree → List LTree
  | [] => []
  | t :: ts => locMap g t :: locMapL g ts
end

/-- a value without ranges (identifier, constant, conversion flag …) moved into the located tree -/
def bare (t : Tree) : LTree := locMap (fun _ => (0, 0)) t

mutual
/-- located ranges in `derive(Debug)` order (pre-order, fields in struct order) -/
def LTree.ranges : LTree → List LRange
  | .leaf _ => []
  | .none => []
  | .some t => LTree.ranges t
  | .list xs => LTree.rangesL xs
  | .node _ r fs => r.toList ++ LTree.rangesL fs
def LTree.rangesL : List LTree → List LRange
  | [] => []
  | t :: ts => LTree.ranges t ++ LTree.rangesL ts
end

def isKind (k : Nat) : Tree → Bool
  | .node k' _ _ => k' == k
  | _ => false

def rangeOf : Tree → Option TRange
  | .node _ r _ => r
  | _ => none

/-! ### fold programs -/

/-- which `Fold` implementation is folding: `LinearLocator` (with its overrides),
    `LinearLookaheadLocator` (generated fold, every position by `locate_only`), or `RandomLocator`
    (generated fold, stateless `locate`) -/
inductive Mode where
  | lin
  | look
  | gen
deriving Repr, DecidableEq

/-- one statement of a `fold_<kind>` body (fields are numbered in struct order, `range` excluded) -/
inductive Step where
  /-- `let f = self.fold(f)?;` / `let f = Foldable::fold(f, folder)?;` -/
  | fold (i : Nat)
  /-- `let f = LinearLookaheadLocator(self).fold(f)?;` -/
  | look (i : Nat)
  /-- `for (a, b) in f_i.into_iter().zip(f_j.into_iter()) { …push(self.fold(a)?); …push(self.fold(b)?); }`;
      `strict`: preceded by `assert_eq!(f_i.len(), f_j.len())` -/
  | zip (i j : Nat) (strict : Bool)
deriving Repr, DecidableEq

/-- a `fold_<kind>` body: `pre`; `let context = self.will_map_user(&range);` `body`;
    `let range = self.map_user(range, context)?;` `Ok(Kind { … })` -/
structure Plan where
  pre : List Step
  body : List Step
  /-- the two range callbacks are called (always, in code that compiles) -/
  cb : Bool
deriving Repr, DecidableEq

def stepFields : Step → List Nat
  | .fold i => [i]
  | .look i => [i]
  | .zip i j _ => [i, j]

def Plan.fields (p : Plan) : List Nat := (p.pre ++ p.body).flatMap stepFields

/-- the generated `fold_<kind>`: `will_map_user`, the fold calls in the order of the source, `map_user` -/
def genPlan (e : FoldEntry) : Plan :=
  ⟨[], e.calls.map (fun c => .fold c.2), e.will != 0 && e.map != 0⟩

/-- everything the located fold depends on -/
structure LocCfg where
  /-- the generated fold functions (regenerated) -/
  prog : FoldProg
  /-- `fold_<kind>` methods overridden by `impl Fold<TextRange> for LinearLocator` (kind id, body) -/
  ov : List (Nat × Plan)
  /-- kind ids of `ExprJoinedStr`, `ExprConstant`, `ExprFormattedValue` (`fold_expr_joined_str`) -/
  joined : Nat
  constant : Nat
  formatted : Nat
deriving Repr

def LocCfg.planOf (cfg : LocCfg) (m : Mode) (k : Nat) : Option Plan :=
  let g := (cfg.prog.entries[k]?).map genPlan
  match m with
  | .lin => match cfg.ov.lookup k with
    | some p => some p
    | none => g
  | _ => g

/-- `will_map_user` / `map_user` of the three folders: `locate`, except for the look-ahead locator -/
def opFor : Mode → Nat → Op
  | .look, o => .locateOnly o
  | _, o => .locate o

/-! ### the traversal, over an abstract locator -/

/-- a locator: one call = result (`none`: the call panics) and the state afterwards -/
structure Locator (σ : Type) where
  step : σ → Op → Option (Pos × σ)

section
variable {σ : Type}

/-- `Vec<X>::fold`: element by element -/
def seqM {α β : Type} (f : α → σ → Option (β × σ)) : List α → σ → Option (List β × σ)
  | [], s => some ([], s)
  | x :: xs, s =>
    match f x s with
    | none => none
    | some (y, s1) =>
      match seqM f xs s1 with
      | none => none
      | some (ys, s2) => some (y :: ys, s2)

/-- the `zip` loops of `fold_expr_dict` / `fold_pattern_match_mapping` -/
def zipM {α β : Type} (f : α → σ → Option (β × σ)) : List α → List α → σ → Option ((List β × List β) × σ)
  | a :: as, b :: bs, s =>
    match f a s with
    | none => none
    | some (a', s1) =>
      match f b s1 with
      | none => none
      | some (b', s2) =>
        match zipM f as bs s2 with
        | none => none
        | some ((as', bs'), s3) => some ((a' :: as', b' :: bs'), s3)
  | _, _, s => some (([], []), s)

/-- located fields so far (`none`: not folded yet) -/
abbrev Env := List (Option LTree)

def Env.collect : Env → Option (List LTree)
  | [] => some []
  | none :: _ => none
  | some x :: rest =>
    match Env.collect rest with
    | some xs => some (x :: xs)
    | none => none

def stepWith (rec : Mode → Tree → σ → Option (LTree × σ)) (m : Mode) (fs : List Tree) :
    Step → Env × σ → Option (Env × σ)
  | .fold i, (env, s) =>
    match fs[i]? with
    | some t =>
      match rec m t s with
      | some (t', s') => some (env.set i (some t'), s')
      | none => none
    | none => none
  | .look i, (env, s) =>
    match fs[i]? with
    | some t =>
      match rec .look t s with
      | some (t', s') => some (env.set i (some t'), s')
      | none => none
    | none => none
  | .zip i j strict, (env, s) =>
    match fs[i]?, fs[j]? with
    | some (.list xs), some (.list ys) =>
      if strict && xs.length != ys.length then none      -- `assert_eq!`
      else
        match zipM (rec m) xs ys s with
        | some ((xs', ys'), s') => some ((env.set i (some (.list xs'))).set j (some (.list ys')), s')
        | none => none
    | _, _ => none

def stepsWith (rec : Mode → Tree → σ → Option (LTree × σ)) (m : Mode) (fs : List Tree) :
    List Step → Env × σ → Option (Env × σ)
  | [], x => some x
  | st :: rest, x =>
    match stepWith rec m fs st x with
    | some y => stepsWith rec m fs rest y
    | none => none

/-- a `fold_<kind>` body run on a node.  The range callbacks fire iff the node carries a range
    (`range: ()` of a default build: `will_map_user_cfg` / `map_user_cfg` do nothing). -/
def nodeWith (L : Locator σ) (rec : Mode → Tree → σ → Option (LTree × σ)) (m : Mode) (plan : Plan)
    (k : Nat) (r : Option TRange) (fs : List Tree) (s : σ) : Option (LTree × σ) :=
  match stepsWith rec m fs plan.pre (fs.map (fun _ => none), s) with
  | none => none
  | some (env1, s1) =>
    -- `let context = self.will_map_user(&range);`
    let w : Option (Option Pos × σ) :=
      match r with
      | some (a, _) =>
        if plan.cb then
          match L.step s1 (opFor m a) with
          | some (p, s') => some (some p, s')
          | none => none
        else some (none, s1)
      | none => some (none, s1)
    match w with
    | none => none
    | some (ctx, s2) =>
      match stepsWith rec m fs plan.body (env1, s2) with
      | none => none
      | some (env2, s3) =>
        -- `let range = self.map_user(range, context)?;`
        let mr : Option (Option LRange × σ) :=
          match r, ctx with
          | some (_, b), some st =>
            match L.step s3 (opFor m b) with
            | some (p, s') => some (some (st, p), s')
            | none => none
          | some _, none => none
          | none, _ => some (none, s3)
        match mr with
        | none => none
        | some (r', s4) =>
          match Env.collect env2 with
          | some fs' => some (.node k r' fs', s4)
          | none => none

/-- one element of `values` in `linear_locate_expr_joined_str`: a `Constant` or a `FormattedValue`
    receives `location`; the field expression is folded by the `LinearLocator`; a format spec that is a
    `JoinedStr` is treated the same way with the same `location`.  Anything else: `unreachable!`. -/
def pieceWith (cfg : LocCfg) (recLin : Tree → σ → Option (LTree × σ))
    (recJ : Tree → σ → Option (LTree × σ)) (loc : LRange) : Tree → σ → Option (LTree × σ)
  | .node k _ fs, s =>
    if k == cfg.constant then some (.node k (some loc) (fs.map bare), s)
    else if k == cfg.formatted then
      match fs with
      | [value, conv, spec] =>
        match recLin value s with
        | none => none
        | some (value', s1) =>
          let sp : Option (LTree × σ) :=
            match spec with
            | .none => some (.none, s1)
            | .some e =>
              match (if isKind cfg.joined e then recJ e s1 else recLin e s1) with
              | some (e', s') => some (.some e', s')
              | none => none
            | _ => none
          match sp with
          | none => none
          | some (spec', s2) => some (.node k (some loc) [value', bare conv, spec'], s2)
      | _ => none
    else none
  | _, _ => none

/-- `linear_locate_expr_joined_str(locator, node, location)` -/
def joinedWith (piece : Tree → σ → Option (LTree × σ)) (loc : LRange) : Tree → σ → Option (LTree × σ)
  | .node k _ [.list values], s =>
    match seqM piece values s with
    | some (vs, s') => some (.node k (some loc) [.list vs], s')
    | none => none
  | _, _ => none

mutual
/-- `Foldable::fold(t, folder)` where `folder` is the `Fold` implementation named by the mode,
    working on the locator `L` in state `s` -/
def foldLoc (L : Locator σ) (cfg : LocCfg) : Nat → Mode → Tree → σ → Option (LTree × σ)
  | 0, _, _, _ => none
  | n + 1, m, t, s =>
    match t with
    | .leaf a => some (.leaf a, s)
    | .none => some (.none, s)
    | .some x =>
      match foldLoc L cfg n m x s with
      | some (x', s') => some (.some x', s')
      | none => none
    | .list xs =>
      match seqM (foldLoc L cfg n m) xs s with
      | some (xs', s') => some (.list xs', s')
      | none => none
    | .node k r fs =>
      if m == .lin && k == cfg.joined then
        -- `LinearLocator::fold_expr_joined_str`
        match r with
        | some (a, b) =>
          match L.step s (.locate a) with
          | none => none
          | some (st, s1) =>
            match L.step s1 (.locateOnly b) with
            | none => none
            | some (en, s2) => joinedLoc L cfg n (st, en) (.node k r fs) s2
        | none => none
      else
        match cfg.planOf m k with
        | some plan => nodeWith L (foldLoc L cfg n) m plan k r fs s
        | none => none
def joinedLoc (L : Locator σ) (cfg : LocCfg) : Nat → LRange → Tree → σ → Option (LTree × σ)
  | 0, _, _, _ => none
  | n + 1, loc, t, s =>
    joinedWith (pieceWith cfg (foldLoc L cfg n .lin) (joinedLoc L cfg n loc) loc) loc t s
end
end

/-! ### the three locators -/

/-- `LinearLocator` (model of `core/src/source_code.rs`); a panic ends the fold -/
def linearL (dbg : Bool) (src : List Nat) : Locator St where
  step st op :=
    match step dbg src st op with
    | (some r, st') => some (r, st')
    | (none, _) => none

/-- `RandomLocator`: stateless -/
def randomL (src : List Nat) : Locator Unit where
  step _ op :=
    match randomLocate src op.off with
    | some r => some (r, ())
    | none => none

/-- records the calls (most recent first); positions are placeholders -/
def recL : Locator (List Op) where
  step log op := some ((0, 0), op :: log)

/-- The calls `LinearLocator::new(source).fold(t)` makes on the locator, in order (as long as no
    call panics).  `none`: the fold itself panics (`unreachable!`, `assert_eq!`) whatever the text. -/
def locHistory (cfg : LocCfg) (t : Tree) : Option (List Op) :=
  match foldLoc recL cfg (depth t + 1) .lin t [] with
  | some (_, log) => some log.reverse
  | none => none

inductive LocatorKind where
  | linear (dbg : Bool)
  | random
deriving Repr, DecidableEq

/-- `LinearLocator::new(src).fold(t)` / `RandomLocator::new(src).fold(t)`: the located tree, `none`
    if a panic occurs. -/
def foldLocated (cfg : LocCfg) (lk : LocatorKind) (src : List Nat) (t : Tree) : Option LTree :=
  match lk with
  | .linear dbg =>
    match foldLoc (linearL dbg src) cfg (depth t + 1) .lin t (St.init src) with
    | some (t', _) => some t'
    | none => none
  | .random =>
    match foldLoc (randomL src) cfg (depth t + 1) .gen t () with
    | some (t', _) => some t'
    | none => none

/-! ### trees whose ranges are laid out in the order the fold visits them -/

section
variable (le : Nat → Nat → Bool) (dom : Nat → Bool)

/-- where the cursor is after a call at `o` made with the cursor at `c` -/
def curAfter : Mode → Nat → Nat → Nat
  | .look, c, _ => c
  | _, _, o => o

def ordSeq {α : Type} (f : Nat → α → Option Nat) : Nat → List α → Option Nat
  | c, [] => some c
  | c, t :: ts =>
    match f c t with
    | some c' => ordSeq f c' ts
    | none => none

def ordZip {α : Type} (f : Nat → α → Option Nat) : Nat → List α → List α → Option Nat
  | c, a :: as, b :: bs =>
    match f c a with
    | none => none
    | some c1 =>
      match f c1 b with
      | none => none
      | some c2 => ordZip f c2 as bs
  | c, _, _ => some c

def ordStep (rec : Mode → Nat → Tree → Option Nat) (m : Mode) (fs : List Tree) (c : Nat) : Step → Option Nat
  | .fold i =>
    match fs[i]? with
    | some t => rec m c t
    | none => none
  | .look i =>
    match fs[i]? with
    | some t => rec .look c t
    | none => none
  | .zip i j _ =>
    match fs[i]?, fs[j]? with
    | some (.list xs), some (.list ys) => if xs.length == ys.length then ordZip (rec m) c xs ys else none
    | _, _ => none

def ordSteps (rec : Mode → Nat → Tree → Option Nat) (m : Mode) (fs : List Tree) : Nat → List Step → Option Nat
  | c, [] => some c
  | c, st :: rest =>
    match ordStep rec m fs c st with
    | some c' => ordSteps rec m fs c' rest
    | none => none

/-- a node folded by `plan` with the cursor at `c`: the children folded before `will_map_user` lie
    at or after the cursor, the node starts at or after them, the children folded between the two
    callbacks follow each other from the node's start, the node ends at or after the last of them;
    start and end are in the domain. -/
def ordNode (rec : Mode → Nat → Tree → Option Nat) (m : Mode) (plan : Plan) (r : Option TRange)
    (fs : List Tree) (c : Nat) : Option Nat :=
  match ordSteps rec m fs c plan.pre with
  | none => none
  | some c1 =>
    match r with
    | some (a, b) =>
      if plan.cb && le c1 a && dom a then
        match ordSteps rec m fs (curAfter m c1 a) plan.body with
        | some c2 => if le c2 b && dom b then some (curAfter m c2 b) else none
        | none => none
      else none
    | none => ordSteps rec m fs c1 plan.body

/-- a piece of an f-string: it carries the range of the whole `JoinedStr` (that is the location it
    receives); only the field expressions (and format specs that are not literals) are visited -/
def ordPiece (cfg : LocCfg) (recLin : Nat → Tree → Option Nat) (recJ : Nat → Tree → Option Nat)
    (loc : TRange) (c : Nat) : Tree → Option Nat
  | .node k r fs =>
    if r != some loc then none
    else if k == cfg.constant then (if (offsL fs).isEmpty then some c else none)
    else if k == cfg.formatted then
      match fs with
      | [value, conv, spec] =>
        if !(offsT conv).isEmpty then none
        else
          match recLin c value with
          | none => none
          | some c1 =>
            match spec with
            | .none => some c1
            | .some e => if isKind cfg.joined e then recJ c1 e else recLin c1 e
            | _ => none
      | _ => none
    else none
  | _ => none

def ordJoined (piece : Nat → Tree → Option Nat) (loc : TRange) (c : Nat) : Tree → Option Nat
  | .node _ r [.list values] => if r == some loc then ordSeq piece c values else none
  | _ => none

mutual
/-- `ordT fuel m c t = some c'`: with the cursor at `c`, the fold (mode `m`) of `t` only ever asks
    for offsets that are in the domain and not behind the cursor, and leaves the cursor at `c'`;
    f-string pieces carry the range whose location they receive. -/
def ordT (cfg : LocCfg) : Nat → Mode → Nat → Tree → Option Nat
  | 0, _, _, _ => none
  | n + 1, m, c, t =>
    match t with
    | .leaf _ => some c
    | .none => some c
    | .some x => ordT cfg n m c x
    | .list xs => ordSeq (ordT cfg n m) c xs
    | .node k r fs =>
      if m == .lin && k == cfg.joined then
        match r with
        | some (a, b) =>
          if le c a && dom a && le a b && dom b then ordJ cfg n (a, b) a (.node k r fs) else none
        | none => none
      else
        match cfg.planOf m k with
        | some plan => ordNode le dom (ordT cfg n) m plan r fs c
        | none => none
def ordJ (cfg : LocCfg) : Nat → TRange → Nat → Tree → Option Nat
  | 0, _, _, _ => none
  | n + 1, loc, c, t => ordJoined (ordPiece cfg (ordT cfg n .lin) (ordJ cfg n loc) loc) loc c t
end
end

def leB (a b : Nat) : Bool := decide (a ≤ b)

/-- **`SrcOrdered`**: the ranges of `t` are laid out in the order in which `LinearLocator::fold`
    visits them, every offset is `InDomain` (character boundary, not between a CR and its LF) and
    not inside a leading BOM. -/
def SrcOrdered (cfg : LocCfg) (src : List Nat) (t : Tree) : Prop :=
  (ordT leB (fun o => decide (InDomain src o)) cfg (depth t + 1) .lin (initCursor src) t).isSome = true

instance (cfg : LocCfg) (src : List Nat) (t : Tree) : Decidable (SrcOrdered cfg src t) := by
  unfold SrcOrdered; exact inferInstance

/-! ### well-formedness of the fold programs -/

def planOk (n : Nat) (p : Plan) : Bool :=
  p.cb && (List.range n).all (fun i => p.fields.contains i) && p.fields.all (fun i => decide (i < n))

/-- every `fold_<kind>` (generated, and overridden for `LinearLocator`) calls both range callbacks and
    folds every field of its kind; the generated program is well-formed in the sense of C12 (every field
    folded once and put back into the same field). -/
def LocWF (cfg : LocCfg) (sch : PV.C12.Schema) : Prop :=
  PV.C12.FoldWF cfg.prog sch ∧
  PV.C12.zipAll (fun (ki : PV.C12.KindInfo) (e : FoldEntry) => planOk ki.fields.length (genPlan e))
    sch.kinds cfg.prog.entries = true ∧
  cfg.ov.all (fun kp => match sch.kinds[kp.1]? with
    | some ki => planOk ki.fields.length kp.2
    | none => false) = true

instance (cfg : LocCfg) (sch : PV.C12.Schema) : Decidable (LocWF cfg sch) := by
  unfold LocWF; exact inferInstance

end PV.C13
