import PV.C13.Parsed
import PV.C13.FoldLemmas
/-
  C13 — from `chain`s of segments to `ordT`: the generic half of the bridge between `ordM` (numbers on the ranged
  syntax) and `SrcOrdered` (the cursor walk of the located fold over the generic tree).

  `OW lo hi t`: started with the cursor at or before `lo`, the `LinearLocator` walk of `t` succeeds and leaves the
  cursor at or before `hi` (for every sufficient fuel); `LK lo t`: the look-ahead walk of `t` succeeds from every
  cursor at or before `lo` (it never moves the cursor).  `FOW segs t`: `t` is walkable inside any window in which its
  segments `segs` chain.  `ow_of_chain`: a node whose fields, in the order of its `fold_<kind>` plan, realise segment
  lists whose concatenation chains between the node's start and end, is `OW`.
-/
set_option linter.unusedVariables false
set_option linter.unusedSimpArgs false
namespace PV.C13
open PV.C02 (Rg)
open PV.C12 (Tree)

/-! ### chains -/

theorem chain_le : ∀ {ss : List Rg} {a b : Nat}, chain a ss b = true → (∀ s ∈ ss, s.1 ≤ s.2) → a ≤ b
  | [], a, b, h, _ => by simpa [chain] using h
  | s :: ss, a, b, h, hs => by
    simp only [chain, Bool.and_eq_true, decide_eq_true_eq] at h
    have := chain_le h.2 (fun x hx => hs x (by simp [hx]))
    have := hs s (by simp)
    omega

theorem chain_widen : ∀ {ss : List Rg} {a b a' b' : Nat}, chain a ss b = true → a' ≤ a → b ≤ b' → chain a' ss b' = true
  | [], a, b, a', b', h, h1, h2 => by simp only [chain, decide_eq_true_eq] at *; omega
  | s :: ss, a, b, a', b', h, h1, h2 => by
    simp only [chain, Bool.and_eq_true, decide_eq_true_eq] at *
    exact ⟨by omega, chain_widen h.2 (Nat.le_refl _) h2⟩

/-- where a chain that started at `a` stands after the segments `ss` -/
def chainEnd (a : Nat) (ss : List Rg) : Nat :=
  match ss.getLast? with
  | some s => s.2
  | none => a

theorem chainEnd_nil (a : Nat) : chainEnd a [] = a := rfl
theorem chainEnd_cons (a : Nat) (s : Rg) (ss : List Rg) : chainEnd a (s :: ss) = chainEnd s.2 ss := by
  cases ss with
  | nil => rfl
  | cons t ts =>
    simp only [chainEnd, List.getLast?_cons_cons]
    cases h : (t :: ts).getLast? with
    | none => simp at h
    | some x => rfl

theorem chain_split : ∀ (xs ys : List Rg) (a b : Nat), chain a (xs ++ ys) b = true →
    chain a xs (chainEnd a xs) = true ∧ chain (chainEnd a xs) ys b = true
  | [], ys, a, b, h => by simpa [chain, chainEnd] using h
  | x :: xs, ys, a, b, h => by
    simp only [List.cons_append, chain, Bool.and_eq_true, decide_eq_true_eq] at h
    obtain ⟨h1, h2⟩ := chain_split xs ys x.2 b h.2
    rw [chainEnd_cons]
    simp only [chain, Bool.and_eq_true, decide_eq_true_eq]
    exact ⟨⟨h.1, h1⟩, h2⟩

/-! ### windows of the cursor walk -/

section
variable (dom : Nat → Bool)

/-- the `LinearLocator` walk of `t` from any cursor at or before `lo` succeeds and ends at or before `hi` -/
def OW (lo hi : Nat) (t : Tree) : Prop :=
  lo ≤ hi ∧ ∀ n, depth t < n → ∀ c, c ≤ lo → ∃ c', ordT leB dom realCfg n .lin c t = some c' ∧ c' ≤ hi

/-- the look-ahead walk of `t` succeeds from any cursor at or before `lo` -/
def LK (lo : Nat) (t : Tree) : Prop :=
  ∀ n, depth t < n → ∀ c, c ≤ lo → ordT leB dom realCfg n .look c t = some c

variable {dom}

theorem OW.mono {lo hi lo' hi' : Nat} {t : Tree} (h : OW dom lo hi t) (h1 : lo' ≤ lo) (h2 : hi ≤ hi') : OW dom lo' hi' t :=
  ⟨by have := h.1; omega, fun n hn c hc => by
    obtain ⟨c', e, hc'⟩ := h.2 n hn c (by omega)
    exact ⟨c', e, by omega⟩⟩

theorem LK.mono {lo lo' : Nat} {t : Tree} (h : LK dom lo t) (h1 : lo' ≤ lo) : LK dom lo' t :=
  fun n hn c hc => h n hn c (by omega)

theorem ow_leaf {lo hi : Nat} (a : List Nat) (h : lo ≤ hi) : OW dom lo hi (.leaf a) :=
  ⟨h, fun n hn c hc => by
    cases n with
    | zero => omega
    | succ n => exact ⟨c, by simp [ordT], by omega⟩⟩

theorem ow_none {lo hi : Nat} (h : lo ≤ hi) : OW dom lo hi .none :=
  ⟨h, fun n hn c hc => by
    cases n with
    | zero => omega
    | succ n => exact ⟨c, by simp [ordT], by omega⟩⟩

theorem ow_some {lo hi : Nat} {t : Tree} (h : OW dom lo hi t) : OW dom lo hi (.some t) :=
  ⟨h.1, fun n hn c hc => by
    cases n with
    | zero => omega
    | succ n =>
      simp only [depth] at hn
      obtain ⟨c', e, hc'⟩ := h.2 n (by omega) c hc
      exact ⟨c', by simp [ordT, e], hc'⟩⟩

theorem lk_leaf {lo : Nat} (a : List Nat) : LK dom lo (.leaf a) := fun n hn c _ => by
  cases n with
  | zero => omega
  | succ n => simp [ordT]

theorem lk_none {lo : Nat} : LK dom lo .none := fun n hn c _ => by
  cases n with
  | zero => omega
  | succ n => simp [ordT]

theorem lk_some {lo : Nat} {t : Tree} (h : LK dom lo t) : LK dom lo (.some t) := fun n hn c hc => by
  cases n with
  | zero => omega
  | succ n =>
    simp only [depth] at hn
    simp [ordT, h n (by omega) c hc]

/-- items in consecutive windows -/
def SeqOW (dom : Nat → Bool) : Nat → Nat → List Tree → Prop
  | lo, hi, [] => lo ≤ hi
  | lo, hi, x :: xs => ∃ m, OW dom lo m x ∧ SeqOW dom m hi xs

theorem SeqOW.le : ∀ {xs : List Tree} {lo hi : Nat}, SeqOW dom lo hi xs → lo ≤ hi
  | [], _, _, h => h
  | x :: xs, _, _, ⟨m, h1, h2⟩ => by have := h1.1; have := SeqOW.le h2; omega

theorem ordSeq_of_seqOW {n : Nat} : ∀ {xs : List Tree} {lo hi : Nat}, SeqOW dom lo hi xs → (∀ x ∈ xs, depth x < n) →
    ∀ c, c ≤ lo → ∃ c', ordSeq (ordT leB dom realCfg n .lin) c xs = some c' ∧ c' ≤ hi
  | [], lo, hi, h, _, c, hc => ⟨c, rfl, by have : lo ≤ hi := h; omega⟩
  | x :: xs, lo, hi, ⟨m, h1, h2⟩, hd, c, hc => by
    obtain ⟨c1, e1, hc1⟩ := h1.2 n (hd x (by simp)) c hc
    obtain ⟨c2, e2, hc2⟩ := ordSeq_of_seqOW h2 (fun y hy => hd y (by simp [hy])) c1 hc1
    exact ⟨c2, by simp [ordSeq, e1, e2], hc2⟩

theorem ow_list {lo hi : Nat} {xs : List Tree} (h : SeqOW dom lo hi xs) : OW dom lo hi (.list xs) :=
  ⟨h.le, fun n hn c hc => by
    cases n with
    | zero => omega
    | succ n =>
      simp only [depth] at hn
      obtain ⟨c', e, hc'⟩ := ordSeq_of_seqOW (n := n) h (fun x hx => by have := depth_le_depthL hx; omega) c hc
      exact ⟨c', by simp [ordT, e], hc'⟩⟩

theorem ordSeq_look {n : Nat} {lo : Nat} : ∀ {xs : List Tree}, (∀ x ∈ xs, LK dom lo x) → (∀ x ∈ xs, depth x < n) →
    ∀ c, c ≤ lo → ordSeq (ordT leB dom realCfg n .look) c xs = some c
  | [], _, _, c, _ => rfl
  | x :: xs, h, hd, c, hc => by
    simp [ordSeq, h x (by simp) n (hd x (by simp)) c hc,
      ordSeq_look (xs := xs) (fun y hy => h y (by simp [hy])) (fun y hy => hd y (by simp [hy])) c hc]

theorem lk_list {lo : Nat} {xs : List Tree} (h : ∀ x ∈ xs, LK dom lo x) : LK dom lo (.list xs) := fun n hn c hc => by
  cases n with
  | zero => omega
  | succ n =>
    simp only [depth] at hn
    simp [ordT, ordSeq_look (n := n) h (fun x hx => by have := depth_le_depthL hx; omega) c hc]

/-- key / value pairs in consecutive windows -/
def ZipOW (dom : Nat → Bool) : Nat → Nat → List Tree → List Tree → Prop
  | lo, hi, a :: as, b :: bs => ∃ m1 m2, OW dom lo m1 a ∧ OW dom m1 m2 b ∧ ZipOW dom m2 hi as bs
  | lo, hi, _, _ => lo ≤ hi

theorem ZipOW.le : ∀ {xs ys : List Tree} {lo hi : Nat}, ZipOW dom lo hi xs ys → lo ≤ hi
  | [], _, _, _, h => by simpa [ZipOW] using h
  | _ :: _, [], _, _, h => by simpa [ZipOW] using h
  | a :: as, b :: bs, _, _, ⟨m1, m2, h1, h2, h3⟩ => by
    have := h1.1; have := h2.1; have := ZipOW.le h3; omega

theorem ordZip_of_zipOW {n : Nat} : ∀ {xs ys : List Tree} {lo hi : Nat}, ZipOW dom lo hi xs ys →
    (∀ x ∈ xs, depth x < n) → (∀ y ∈ ys, depth y < n) →
    ∀ c, c ≤ lo → ∃ c', ordZip (ordT leB dom realCfg n .lin) c xs ys = some c' ∧ c' ≤ hi
  | [], ys, lo, hi, h, _, _, c, hc => ⟨c, by simp [ordZip], by have := ZipOW.le h; omega⟩
  | a :: as, [], lo, hi, h, _, _, c, hc => ⟨c, by simp [ordZip], by have := ZipOW.le h; omega⟩
  | a :: as, b :: bs, lo, hi, ⟨m1, m2, h1, h2, h3⟩, hx, hy, c, hc => by
    obtain ⟨c1, e1, hc1⟩ := h1.2 n (hx a (by simp)) c hc
    obtain ⟨c2, e2, hc2⟩ := h2.2 n (hy b (by simp)) c1 hc1
    obtain ⟨c3, e3, hc3⟩ := ordZip_of_zipOW h3 (fun x h => hx x (by simp [h])) (fun y h => hy y (by simp [h])) c2 hc2
    exact ⟨c3, by simp [ordZip, e1, e2, e3], hc3⟩

/-! ### the statements of a `fold_<kind>` body -/

/-- a node (or any value) that is walkable between the ends of `rg`, by `locate` and by look-ahead -/
def NW (dom : Nat → Bool) (rg : Rg) (t : Tree) : Prop := OW dom rg.1 rg.2 t ∧ LK dom rg.1 t

/-- `t` can be walked (both ways) inside any window in which the segments `segs` chain -/
def FW (dom : Nat → Bool) (segs : List Rg) (t : Tree) : Prop :=
  ∀ lo hi, chain lo segs hi = true → OW dom lo hi t ∧ LK dom lo t

/-- key / value lists that can be walked, alternating, inside any window in which `segs` chain -/
def ZW (dom : Nat → Bool) (segs : List Rg) (xs ys : List Tree) : Prop :=
  ∀ lo hi, chain lo segs hi = true → ZipOW dom lo hi xs ys ∧ (∀ x ∈ xs, LK dom lo x) ∧ (∀ y ∈ ys, LK dom lo y)

theorem fw_leaf (a : List Nat) : FW dom [] (.leaf a) := fun lo hi h =>
  ⟨ow_leaf a (by simpa [chain] using h), lk_leaf a⟩
theorem fw_none : FW dom [] .none := fun lo hi h => ⟨ow_none (by simpa [chain] using h), lk_none⟩
theorem fw_nil : FW dom [] (.list []) := fun lo hi h =>
  ⟨ow_list (show SeqOW dom lo hi [] by simpa [SeqOW, chain] using h), lk_list (by simp)⟩

theorem fw_of_nw {rg : Rg} {t : Tree} (h : NW dom rg t) : FW dom [rg] t := fun lo hi hc => by
  simp only [chain, Bool.and_eq_true, decide_eq_true_eq] at hc
  exact ⟨h.1.mono hc.1 hc.2, h.2.mono hc.1⟩

theorem fw_some {segs : List Rg} {t : Tree} (h : FW dom segs t) : FW dom segs (.some t) := fun lo hi hc =>
  ⟨ow_some (h lo hi hc).1, lk_some (h lo hi hc).2⟩

/-- a list field: every element walkable between the ends of its own segment -/
theorem fw_list {α : Type} (seg : α → Rg) (conv : α → Tree) : ∀ (xs : List α), (∀ x ∈ xs, NW dom (seg x) (conv x)) →
    FW dom (xs.map seg) (.list (xs.map conv)) := by
  intro xs hx
  have key : ∀ (ys : List α), (∀ x ∈ ys, NW dom (seg x) (conv x)) → ∀ lo hi, chain lo (ys.map seg) hi = true →
      SeqOW dom lo hi (ys.map conv) ∧ ∀ t ∈ ys.map conv, LK dom lo t := by
    intro ys
    induction ys with
    | nil => intro _ lo hi h; exact ⟨by simpa [SeqOW, chain] using h, by simp⟩
    | cons y ys ih =>
      intro hy lo hi h
      simp only [List.map_cons, chain, Bool.and_eq_true, decide_eq_true_eq] at h
      have hw := hy y (by simp)
      obtain ⟨g1, g2⟩ := ih (fun x hx => hy x (by simp [hx])) _ hi h.2
      have hle := hw.1.1
      refine ⟨⟨(seg y).2, hw.1.mono h.1 (Nat.le_refl _), g1⟩, ?_⟩
      intro t ht
      simp only [List.map_cons, List.mem_cons] at ht
      rcases ht with rfl | ht
      · exact hw.2.mono h.1
      · exact (g2 t ht).mono (by omega)
  intro lo hi h
  obtain ⟨g1, g2⟩ := key xs hx lo hi h
  exact ⟨ow_list g1, lk_list g2⟩

/-- the fields named by the steps realise the segment lists `sgs` (one per step), the look-ahead fields being
    walkable from wherever the chain stands when they are reached -/
def FSteps (dom : Nat → Bool) (fs : List Tree) : List Step → List (List Rg) → Nat → Prop
  | [], [], _ => True
  | .fold i :: rest, sg :: sgs, a => (∃ t, fs[i]? = some t ∧ FW dom sg t) ∧ FSteps dom fs rest sgs (chainEnd a sg)
  | .look i :: rest, sg :: sgs, a => sg = [] ∧ (∃ t, fs[i]? = some t ∧ LK dom a t) ∧ FSteps dom fs rest sgs a
  | .zip i j _ :: rest, sg :: sgs, a =>
    (∃ xs ys, fs[i]? = some (.list xs) ∧ fs[j]? = some (.list ys) ∧ xs.length = ys.length ∧ ZW dom sg xs ys) ∧
      FSteps dom fs rest sgs (chainEnd a sg)
  | _, _, _ => False

theorem fsteps_le {fs : List Tree} : ∀ (steps : List Step) (sgs : List (List Rg)) (a b : Nat),
    FSteps dom fs steps sgs a → chain a sgs.flatten b = true → a ≤ b
  | [], [], a, b, _, hc => by simpa [chain] using hc
  | [], _ :: _, _, _, h, _ => by simp [FSteps] at h
  | .fold i :: rest, [], _, _, h, _ => by simp [FSteps] at h
  | .look i :: rest, [], _, _, h, _ => by simp [FSteps] at h
  | .zip i j s :: rest, [], _, _, h, _ => by simp [FSteps] at h
  | .fold i :: rest, sg :: sgs, a, b, ⟨⟨t, ht, hf⟩, hrest⟩, hc => by
    simp only [List.flatten_cons] at hc
    obtain ⟨h1, h2⟩ := chain_split sg sgs.flatten a b hc
    have := (hf a _ h1).1.1
    have := fsteps_le rest sgs _ b hrest h2
    omega
  | .look i :: rest, sg :: sgs, a, b, ⟨hsg, _, hrest⟩, hc => by
    subst hsg
    simp only [List.flatten_cons, List.nil_append] at hc
    exact fsteps_le rest sgs a b hrest hc
  | .zip i j s :: rest, sg :: sgs, a, b, ⟨⟨xs, ys, hi, hj, hlen, hz⟩, hrest⟩, hc => by
    simp only [List.flatten_cons] at hc
    obtain ⟨h1, h2⟩ := chain_split sg sgs.flatten a b hc
    have := (hz a _ h1).1.le
    have := fsteps_le rest sgs _ b hrest h2
    omega

theorem ordSteps_of_chain {n : Nat} {fs : List Tree} (hd : depthL fs < n) : ∀ (steps : List Step) (sgs : List (List Rg))
    (a b : Nat), FSteps dom fs steps sgs a → chain a sgs.flatten b = true →
    ∀ c, c ≤ a → ∃ c', ordSteps (ordT leB dom realCfg n) .lin fs c steps = some c' ∧ c' ≤ b
  | [], [], a, b, _, hc, c, hca => ⟨c, rfl, by simp only [List.flatten_nil, chain, decide_eq_true_eq] at hc; omega⟩
  | [], _ :: _, _, _, h, _, _, _ => by simp [FSteps] at h
  | .fold i :: rest, [], _, _, h, _, _, _ => by simp [FSteps] at h
  | .look i :: rest, [], _, _, h, _, _, _ => by simp [FSteps] at h
  | .zip i j s :: rest, [], _, _, h, _, _, _ => by simp [FSteps] at h
  | .fold i :: rest, sg :: sgs, a, b, ⟨⟨t, ht, hf⟩, hrest⟩, hc, c, hca => by
    simp only [List.flatten_cons] at hc
    obtain ⟨h1, h2⟩ := chain_split sg sgs.flatten a b hc
    have hdt : depth t < n := Nat.lt_of_le_of_lt (depth_get ht) hd
    obtain ⟨c1, e1, hc1⟩ := (hf a _ h1).1.2 n hdt c hca
    obtain ⟨c2, e2, hc2⟩ := ordSteps_of_chain hd rest sgs _ b hrest h2 c1 hc1
    exact ⟨c2, by simp [ordSteps, ordStep, ht, e1, e2], hc2⟩
  | .look i :: rest, sg :: sgs, a, b, ⟨hsg, ⟨t, ht, hl⟩, hrest⟩, hc, c, hca => by
    subst hsg
    simp only [List.flatten_cons, List.nil_append] at hc
    have hdt : depth t < n := Nat.lt_of_le_of_lt (depth_get ht) hd
    have e1 := hl n hdt c hca
    obtain ⟨c2, e2, hc2⟩ := ordSteps_of_chain hd rest sgs a b hrest hc c hca
    exact ⟨c2, by simp [ordSteps, ordStep, ht, e1, e2], hc2⟩
  | .zip i j s :: rest, sg :: sgs, a, b, ⟨⟨xs, ys, hi, hj, hlen, hz⟩, hrest⟩, hc, c, hca => by
    simp only [List.flatten_cons] at hc
    obtain ⟨h1, h2⟩ := chain_split sg sgs.flatten a b hc
    have hdx : ∀ x ∈ xs, depth x < n := fun x hx => by
      have h1' := depth_le_depthL hx
      have h2' := depth_get hi
      simp only [depth] at h2'
      omega
    have hdy : ∀ y ∈ ys, depth y < n := fun y hy => by
      have h1' := depth_le_depthL hy
      have h2' := depth_get hj
      simp only [depth] at h2'
      omega
    obtain ⟨c1, e1, hc1⟩ := ordZip_of_zipOW (hz a _ h1).1 hdx hdy c hca
    obtain ⟨c2, e2, hc2⟩ := ordSteps_of_chain hd rest sgs _ b hrest h2 c1 hc1
    exact ⟨c2, by simp [ordSteps, ordStep, hi, hj, hlen, e1, e2], hc2⟩

/-- every field the steps mention is walkable by look-ahead from the start of the chain -/
theorem lk_of_fsteps {fs : List Tree} : ∀ (steps : List Step) (sgs : List (List Rg)) (a b : Nat),
    FSteps dom fs steps sgs a → chain a sgs.flatten b = true →
    ∀ i ∈ steps.flatMap stepFields, ∃ t, fs[i]? = some t ∧ LK dom a t
  | [], _, _, _, _, _, i, hi => by simp at hi
  | .fold j :: rest, [], _, _, h, _, _, _ => by simp [FSteps] at h
  | .look j :: rest, [], _, _, h, _, _, _ => by simp [FSteps] at h
  | .zip j1 j2 s :: rest, [], _, _, h, _, _, _ => by simp [FSteps] at h
  | .fold j :: rest, sg :: sgs, a, b, ⟨⟨t, ht, hf⟩, hrest⟩, hc, i, hi => by
    simp only [List.flatten_cons] at hc
    obtain ⟨h1, h2⟩ := chain_split sg sgs.flatten a b hc
    simp only [List.flatMap_cons, stepFields, List.mem_append, List.mem_singleton] at hi
    rcases hi with rfl | hi
    · exact ⟨t, ht, (hf a _ h1).2⟩
    · obtain ⟨t', ht', hl⟩ := lk_of_fsteps rest sgs _ b hrest h2 i hi
      exact ⟨t', ht', hl.mono (hf a _ h1).1.1⟩
  | .look j :: rest, sg :: sgs, a, b, ⟨hsg, ⟨t, ht, hl⟩, hrest⟩, hc, i, hi => by
    subst hsg
    simp only [List.flatten_cons, List.nil_append] at hc
    simp only [List.flatMap_cons, stepFields, List.mem_append, List.mem_singleton] at hi
    rcases hi with rfl | hi
    · exact ⟨t, ht, hl⟩
    · exact lk_of_fsteps rest sgs a b hrest hc i hi
  | .zip j1 j2 s :: rest, sg :: sgs, a, b, ⟨⟨xs, ys, hx, hy, hlen, hz⟩, hrest⟩, hc, i, hi => by
    simp only [List.flatten_cons] at hc
    obtain ⟨h1, h2⟩ := chain_split sg sgs.flatten a b hc
    obtain ⟨z1, z2, z3⟩ := hz a _ h1
    simp only [List.flatMap_cons, stepFields, List.mem_append, List.mem_cons, List.not_mem_nil, or_false] at hi
    rcases hi with (rfl | rfl) | hi
    · exact ⟨_, hx, lk_list z2⟩
    · exact ⟨_, hy, lk_list z3⟩
    · obtain ⟨t', ht', hl⟩ := lk_of_fsteps rest sgs _ b hrest h2 i hi
      exact ⟨t', ht', hl.mono z1.le⟩

theorem ordSteps_look {n : Nat} {fs : List Tree} {lo : Nat} (hd : depthL fs < n) : ∀ (steps : List Step),
    (∀ st ∈ steps, ∃ i t, st = .fold i ∧ fs[i]? = some t ∧ LK dom lo t) →
    ∀ c, c ≤ lo → ordSteps (ordT leB dom realCfg n) .look fs c steps = some c
  | [], _, c, _ => rfl
  | st :: rest, h, c, hc => by
    obtain ⟨i, t, rfl, ht, hl⟩ := h st (by simp)
    have hdt : depth t < n := Nat.lt_of_le_of_lt (depth_get ht) hd
    simp [ordSteps, ordStep, ht, hl n hdt c hc, ordSteps_look hd rest (fun s hs => h s (by simp [hs])) c hc]

/-- look-ahead walk of a node whose fields are all walkable by look-ahead -/
theorem lk_node {k lo : Nat} {r : Option (Nat × Nat)} {fs : List Tree} {plan : Plan}
    (hp : realCfg.planOf .look k = some plan) (hpre : plan.pre = []) (hcb : plan.cb = true)
    (hs : ∀ st ∈ plan.body, ∃ i t, st = .fold i ∧ fs[i]? = some t ∧ LK dom lo t)
    (hr : ∀ a b, r = some (a, b) → lo ≤ a ∧ lo ≤ b ∧ dom a = true ∧ dom b = true) : LK dom lo (.node k r fs) := by
  intro n hn c hc
  cases n with
  | zero => omega
  | succ n =>
    simp only [depth] at hn
    have hd : depthL fs < n := by omega
    have e := ordSteps_look hd plan.body hs c hc
    have hm : (Mode.look == Mode.lin) = false := rfl
    cases r with
    | none => simp only [ordT, hm, Bool.false_and, Bool.false_eq_true, ↓reduceIte, hp, ordNode, hpre, ordSteps, e]
    | some ab =>
      obtain ⟨a, b⟩ := ab
      obtain ⟨h1, h2, h3, h4⟩ := hr a b rfl
      have l1 : leB c a = true := by simp [leB]; omega
      have l2 : leB c b = true := by simp [leB]; omega
      simp only [ordT, hm, Bool.false_and, Bool.false_eq_true, ↓reduceIte, hp, ordNode, hpre, ordSteps, hcb, Bool.true_and,
        curAfter, l1, l2, h3, h4, Bool.and_true, e]

/-- **A node is walkable between its start and its end** (by `locate` and by look-ahead) when its fields, in the order
    of its `fold_<kind>` body, realise segment lists whose concatenation chains from the start to the end (no field
    folded before `will_map_user`).  `r` is the node's range if it carries one: a node without is walked through. -/
theorem nw_of_chain {k a b : Nat} {fs : List Tree} {plan plan' : Plan} (sgs : List (List Rg)) (r : Option (Nat × Nat))
    (hr : (r = some (a, b) ∧ dom a = true ∧ dom b = true) ∨ r = none) (hk : (k == realCfg.joined) = false)
    (hp : realCfg.planOf .lin k = some plan) (hpre : plan.pre = []) (hcb : plan.cb = true)
    (hp' : realCfg.planOf .look k = some plan') (hpre' : plan'.pre = []) (hcb' : plan'.cb = true)
    (hcov : ∀ st ∈ plan'.body, ∃ i, st = .fold i ∧ i ∈ plan.body.flatMap stepFields)
    (hs : FSteps dom fs plan.body sgs a) (hc : chain a sgs.flatten b = true) :
    NW dom (a, b) (.node k r fs) := by
  have hab : a ≤ b := fsteps_le plan.body sgs a b hs hc
  refine ⟨⟨hab, fun n hn c hc' => ?_⟩, ?_⟩
  · cases n with
    | zero => omega
    | succ n =>
      simp only [depth] at hn
      have hd : depthL fs < n := by omega
      rcases hr with ⟨rfl, da, db⟩ | rfl
      · obtain ⟨c2, e2, hc2⟩ := ordSteps_of_chain hd plan.body sgs a b hs hc a (Nat.le_refl _)
        refine ⟨b, ?_, Nat.le_refl _⟩
        simp only [ordT, hk, Bool.and_false, Bool.false_eq_true, ↓reduceIte, hp, ordNode, hpre, ordSteps, hcb, Bool.true_and,
          curAfter, da, db, Bool.and_true, e2, leB, decide_eq_true_eq, hc', hc2]
      · obtain ⟨c2, e2, hc2⟩ := ordSteps_of_chain hd plan.body sgs a b hs hc c hc'
        exact ⟨c2, by simp only [ordT, hk, Bool.and_false, Bool.false_eq_true, ↓reduceIte, hp, ordNode, hpre, ordSteps, e2], hc2⟩
  · refine lk_node hp' hpre' hcb' ?_ ?_
    · intro st hst
      obtain ⟨i, rfl, hi⟩ := hcov st hst
      obtain ⟨t, ht, hl⟩ := lk_of_fsteps plan.body sgs a b hs hc i hi
      exact ⟨i, t, rfl, ht, hl⟩
    · intro a' b' h
      rcases hr with ⟨rfl, da, db⟩ | rfl
      · cases h; exact ⟨Nat.le_refl _, hab, da, db⟩
      · cases h

/-- the same for the definitions, whose decorators (field `i`) are folded BEFORE the node's start is located: the node
    is walkable from wherever its decorators are (`lo`) to its end -/
theorem ow_of_chain_pre {k a b lo i : Nat} {fs : List Tree} {plan : Plan} {d : Tree} (sgs : List (List Rg))
    (hk : (k == realCfg.joined) = false) (hp : realCfg.planOf .lin k = some plan) (hpre : plan.pre = [.fold i])
    (hcb : plan.cb = true) (hd : fs[i]? = some d) (hdeco : OW dom lo a d)
    (hs : FSteps dom fs plan.body sgs a) (hc : chain a sgs.flatten b = true) (da : dom a = true) (db : dom b = true) :
    OW dom lo b (.node k (some (a, b)) fs) := by
  have hab : a ≤ b := fsteps_le plan.body sgs a b hs hc
  refine ⟨by have := hdeco.1; omega, fun n hn c hc' => ?_⟩
  cases n with
  | zero => omega
  | succ n =>
    simp only [depth] at hn
    have hdn : depthL fs < n := by omega
    obtain ⟨c1, e1, hc1⟩ := hdeco.2 n (Nat.lt_of_le_of_lt (depth_get hd) hdn) c hc'
    obtain ⟨c2, e2, hc2⟩ := ordSteps_of_chain hdn plan.body sgs a b hs hc a (Nat.le_refl _)
    refine ⟨b, ?_, Nat.le_refl _⟩
    simp only [ordT, hk, Bool.and_false, Bool.false_eq_true, ↓reduceIte, hp, ordNode, hpre, ordSteps, ordStep, hd, e1, hcb,
      Bool.true_and, curAfter, da, db, Bool.and_true, e2, leB, decide_eq_true_eq, hc1, hc2]

/-! ### list fields, element by element -/

/-- the elements `xs` of a list field can be walked, one after the other, inside any window in which `segs` chain -/
def FWL (dom : Nat → Bool) (segs : List Rg) (xs : List Tree) : Prop :=
  ∀ lo hi, chain lo segs hi = true → SeqOW dom lo hi xs ∧ ∀ x ∈ xs, LK dom lo x

theorem fwl_nil : FWL dom [] [] := fun lo hi h => ⟨by simpa [SeqOW, chain] using h, by simp⟩

theorem fwl_cons {rg : Rg} {x : Tree} {segs : List Rg} {xs : List Tree} (hx : NW dom rg x) (hxs : FWL dom segs xs) :
    FWL dom (rg :: segs) (x :: xs) := fun lo hi h => by
  simp only [chain, Bool.and_eq_true, decide_eq_true_eq] at h
  obtain ⟨g1, g2⟩ := hxs _ hi h.2
  have hle := hx.1.1
  refine ⟨⟨rg.2, hx.1.mono h.1 (Nat.le_refl _), g1⟩, ?_⟩
  intro t ht
  simp only [List.mem_cons] at ht
  rcases ht with rfl | ht
  · exact hx.2.mono h.1
  · exact (g2 t ht).mono (by omega)

theorem fw_of_fwl {segs : List Rg} {xs : List Tree} (h : FWL dom segs xs) : FW dom segs (.list xs) := fun lo hi hc =>
  ⟨ow_list (h lo hi hc).1, lk_list (h lo hi hc).2⟩

theorem fwl_map {α : Type} (seg : α → Rg) (conv : α → Tree) : ∀ (xs : List α), (∀ x ∈ xs, NW dom (seg x) (conv x)) →
    FWL dom (xs.map seg) (xs.map conv)
  | [], _ => fwl_nil
  | x :: xs, h => fwl_cons (h x (by simp)) (fwl_map seg conv xs (fun y hy => h y (by simp [hy])))

theorem fsteps_fold {fs : List Tree} {i : Nat} {rest : List Step} {sg : List Rg} {sgs : List (List Rg)} {a : Nat} :
    FSteps dom fs (.fold i :: rest) (sg :: sgs) a ↔
      (∃ t, fs[i]? = some t ∧ FW dom sg t) ∧ FSteps dom fs rest sgs (chainEnd a sg) := by simp [FSteps]

/-- a definition: decorators (field `i`, walkable from `lo` to the node's start) folded before `will_map_user` -/
theorem nw_of_chain_pre {k a b lo i : Nat} {fs : List Tree} {plan plan' : Plan} {d : Tree} (sgs : List (List Rg))
    (hk : (k == realCfg.joined) = false) (hp : realCfg.planOf .lin k = some plan) (hpre : plan.pre = [.fold i])
    (hcb : plan.cb = true) (hp' : realCfg.planOf .look k = some plan') (hpre' : plan'.pre = []) (hcb' : plan'.cb = true)
    (hcov : ∀ st ∈ plan'.body, ∃ j, st = .fold j ∧ (j = i ∨ j ∈ plan.body.flatMap stepFields))
    (hd : fs[i]? = some d) (hdeco : OW dom lo a d) (hdl : LK dom lo d)
    (hs : FSteps dom fs plan.body sgs a) (hc : chain a sgs.flatten b = true) (da : dom a = true) (db : dom b = true) :
    NW dom (lo, b) (.node k (some (a, b)) fs) := by
  have hab : a ≤ b := fsteps_le plan.body sgs a b hs hc
  have hla : lo ≤ a := hdeco.1
  refine ⟨ow_of_chain_pre sgs hk hp hpre hcb hd hdeco hs hc da db, lk_node hp' hpre' hcb' ?_ ?_⟩
  · intro st hst
    obtain ⟨j, rfl, hj⟩ := hcov st hst
    rcases hj with rfl | hj
    · exact ⟨_, d, rfl, hd, hdl⟩
    · obtain ⟨t, ht, hl⟩ := lk_of_fsteps plan.body sgs a b hs hc j hj
      exact ⟨j, t, rfl, ht, hl.mono hla⟩
  · intro a' b' h
    cases h
    exact ⟨hla, by omega, da, db⟩

/-! ### the same, for a plan that is only known to fold every field once (robust against a reordering of `fold.rs`) -/

theorem flatten_map_fold (seg : Nat → List Rg) : ∀ (steps : List Step), (∀ st ∈ steps, ∃ i, st = .fold i) →
    (steps.map fun st => (stepFields st).flatMap seg).flatten = (steps.flatMap stepFields).flatMap seg
  | [], _ => rfl
  | st :: rest, h => by
    obtain ⟨i, rfl⟩ := h st (by simp)
    have ih := flatten_map_fold seg rest (fun s hs => h s (by simp [hs]))
    simp only [List.map_cons, List.flatten_cons, List.flatMap_cons, List.flatMap_append, ih]

theorem fsteps_of_fields {fs : List Tree} (seg : Nat → List Rg) (hf : ∀ i (h : i < fs.length), FW dom (seg i) fs[i]) :
    ∀ (steps : List Step) (a : Nat), (∀ st ∈ steps, ∃ i, st = .fold i ∧ i < fs.length) →
    FSteps dom fs steps (steps.map fun st => (stepFields st).flatMap seg) a
  | [], _, _ => trivial
  | st :: rest, a, h => by
    obtain ⟨i, rfl, hi⟩ := h st (by simp)
    simp only [List.map_cons, FSteps, stepFields, List.flatMap_cons, List.flatMap_nil, List.append_nil]
    exact ⟨⟨fs[i], List.getElem?_eq_getElem hi, hf i hi⟩, fsteps_of_fields seg hf rest _ (fun s hs => h s (by simp [hs]))⟩

/-- **`nw_of_chain` for any plan that consists of plain `fold` steps**: `seg i` = the segments field `i` realises.  The plan
    is whatever the regenerated fold program says (`hp` is proved by `rfl` with the plan left open); only the ORDER in
    which it folds the fields that carry ranges matters (`hc`). -/
theorem nw_of_fields {k a b : Nat} {fs : List Tree} {plan plan' : Plan} (seg : Nat → List Rg) (r : Option (Nat × Nat))
    (hr : (r = some (a, b) ∧ dom a = true ∧ dom b = true) ∨ r = none) (hk : (k == realCfg.joined) = false)
    (hp : realCfg.planOf .lin k = some plan) (hpre : plan.pre = []) (hcb : plan.cb = true)
    (hp' : realCfg.planOf .look k = some plan') (hpre' : plan'.pre = []) (hcb' : plan'.cb = true)
    (hfold : ∀ st ∈ plan.body, ∃ i, st = .fold i ∧ i < fs.length)
    (hfold' : ∀ st ∈ plan'.body, ∃ i, st = .fold i ∧ i ∈ plan.body.flatMap stepFields)
    (hf : ∀ i (h : i < fs.length), FW dom (seg i) fs[i])
    (hc : chain a ((plan.body.flatMap stepFields).flatMap seg) b = true) : NW dom (a, b) (.node k r fs) :=
  nw_of_chain (plan.body.map fun st => (stepFields st).flatMap seg) r hr hk hp hpre hcb hp' hpre' hcb' hfold'
    (fsteps_of_fields seg hf plan.body a hfold)
    (by rw [flatten_map_fold seg plan.body (fun st hst => (hfold st hst).imp fun i h => h.1)]; exact hc)

/-! ### every offset in the domain: what it says about the parts of a tree -/

theorem allDom_node_some {k a b : Nat} {fs : List Tree} (h : AllDom dom (.node k (some (a, b)) fs)) :
    dom a = true ∧ dom b = true ∧ ∀ f ∈ fs, AllDom dom f := by
  refine ⟨h a (by simp [offsT]), h b (by simp [offsT]), fun f hf o ho => h o ?_⟩
  simp only [offsT, List.mem_append, offsL_eq, List.mem_flatMap]
  exact Or.inr ⟨f, hf, ho⟩

theorem allDom_node_none {k : Nat} {fs : List Tree} (h : AllDom dom (.node k none fs)) : ∀ f ∈ fs, AllDom dom f := by
  intro f hf o ho
  apply h o
  simp only [offsT, List.nil_append, offsL_eq, List.mem_flatMap]
  exact ⟨f, hf, ho⟩

theorem allDom_list' {xs : List Tree} (h : AllDom dom (.list xs)) : ∀ x ∈ xs, AllDom dom x := by
  intro x hx o ho
  apply h o
  simp only [offsT, offsL_eq, List.mem_flatMap]
  exact ⟨x, hx, ho⟩

theorem allDom_some' {t : Tree} (h : AllDom dom (.some t)) : AllDom dom t := fun o ho => h o (by simpa [offsT] using ho)

/-- a node whose range is an `OptionalRange` -/
theorem allDom_optR {ar : Bool} {k a b : Nat} {fs : List Tree} (h : AllDom dom (.node k (optR ar (a, b)) fs)) :
    ((optR ar (a, b) = some (a, b) ∧ dom a = true ∧ dom b = true) ∨ optR ar (a, b) = none) ∧ ∀ f ∈ fs, AllDom dom f := by
  cases ar with
  | false => exact ⟨Or.inr rfl, allDom_node_none (by simpa [optR] using h)⟩
  | true =>
    have h' : AllDom dom (.node k (some (a, b)) fs) := by simpa [optR] using h
    obtain ⟨g1, g2, g3⟩ := allDom_node_some h'
    exact ⟨Or.inl ⟨rfl, g1, g2⟩, g3⟩

end
end PV.C13
