import PV.C13.Parsed
/-
  C13 — `SpansOk`: the hypothesis of the capstone theorems about the INPUT of the parser (the spanned token list the
  lexer delivers), from which `OffsOk` — the same three facts about every offset of the OUTPUT tree — follows
  (`offsOk_of_spansOk`, SpansThm.lean): every token starts and ends at a position the `LinearLocator` accepts.

  Core Lean only (linked in drv_c13, which evaluates it on the real tokens of every `pfold` request).
-/
namespace PV.C13
open PV.C02 hiding Tree

/-- a position the `LinearLocator` accepts: (a) a character boundary of `src`, (b) not between a CR and its LF
    (`InDomain`), (c) not inside a leading BOM (`initCursor src` = 3 behind a BOM, else 0) -/
def PosOk (src : List Nat) (o : Nat) : Prop := InDomain src o ∧ initCursor src ≤ o

instance (src : List Nat) (o : Nat) : Decidable (PosOk src o) := by unfold PosOk; exact inferInstance

/-- every token of the spanned token list starts and ends at a position the locator accepts -/
def SpansOk (src : List Nat) (toks : List RPTok) : Prop := ∀ t ∈ toks, PosOk src t.s ∧ PosOk src t.e

instance (src : List Nat) (toks : List RPTok) : Decidable (SpansOk src toks) := by unfold SpansOk; exact inferInstance

/-- the side condition of `offsOk_of_spansOk`: NOT (no token at all ∧ `all-nodes-with-ranges` ∧ a leading BOM) — the
    shape of the listed finding `linear-bom-tokenless-module-all-ranges` (the `Mod*` node of a token-less input is ranged
    `0..0`, inside the BOM) and nothing else -/
def NotBomTokenless (ar : Bool) (src : List Nat) (toks : List RPTok) : Prop :=
  toks ≠ [] ∨ ar = false ∨ initCursor src = 0

instance (ar : Bool) (src : List Nat) (toks : List RPTok) : Decidable (NotBomTokenless ar src toks) := by
  unfold NotBomTokenless; exact inferInstance

/-- parts (b) and (c) of `SpansOk` alone — what is NOT already part of `PV.C02.TiledP` (which C05 proves of the lexer
    model): no token starts or ends between a CR and its LF, none starts inside a leading BOM
    (`spansOk_of_tiledP`, SpansThm.lean) -/
def SpansClear (src : List Nat) (toks : List RPTok) : Prop :=
  ∀ t ∈ toks, insideCrlf src t.s = false ∧ insideCrlf src t.e = false ∧ initCursor src ≤ t.s

instance (src : List Nat) (toks : List RPTok) : Decidable (SpansClear src toks) := by unfold SpansClear; exact inferInstance

/-- the starts and ends of the tokens -/
def tokEnds (toks : List RPTok) : List Nat := toks.flatMap fun t => [t.s, t.e]

end PV.C13
