import PV.C13.FStrRun
/-
  C13 — `PV.C13.W.ordM`: `ordM` with the WEAK f-string clause
      `.joinedStr rg vs => piecesW vs && chain rg.1 (piecesSegs vs) rg.2`
  (accepted shape, `ordE` field expressions, the field expressions chained through the node — `strings_fstr_weak` proves
  exactly this of the string production for EVERY run of string tokens).  `PV.C13.F.ordM` (FPOrd.lean) additionally asks
  every piece to carry the range of its `JoinedStr` (`jOrd`), which an implicit concatenation violates (listed finding).
  Target of the parser induction that is left (`parsed_wordM_fstr_full`, FStrThm.lean): no exclusion of concatenations
  needed.  GENERATED from POrd.lean like FPOrd.lean.  Core Lean on top of FStrRun's definitions.
-/
namespace PV.C13.W
open PV.Expr PV.C11 PV.Prog
open PV.C02
open PV.C13

mutual
def ordE : RExpr → Bool
  | .name rg _ => chain rg.1 [] rg.2
  | .const rg _ => chain rg.1 [] rg.2
  | .boolOp rg _ vs => chain rg.1 (vs.map RExpr.range) rg.2 && ordL vs
  | .namedExpr rg t v => chain rg.1 [t.range, v.range] rg.2 && ordE t && ordE v
  | .binOp rg l _ r => chain rg.1 [l.range, r.range] rg.2 && ordE l && ordE r
  | .unaryOp rg _ e => chain rg.1 [e.range] rg.2 && ordE e
  | .lambda rg argsRg po ar va ko kw b =>
    chain rg.1 [argsRg, b.range] rg.2 && chain argsRg.1 (lamSegs po ar va ko kw) argsRg.2 &&
      ordPs po && ordPs ar && ordArgO va && ordPs ko && ordArgO kw && ordE b
  | .ifExp rg t b o => chain rg.1 [b.range, t.range, o.range] rg.2 && ordE t && ordE b && ordE o
  | .dict rg items => chain rg.1 (itemSegs items) rg.2 && ordItems items
  | .set rg es => chain rg.1 (es.map RExpr.range) rg.2 && ordL es
  | .listComp rg e gs => chain rg.1 (e.range :: gs.map compRg) rg.2 && ordE e && ordComps gs
  | .setComp rg e gs => chain rg.1 (e.range :: gs.map compRg) rg.2 && ordE e && ordComps gs
  | .dictComp rg k v gs => chain rg.1 (k.range :: v.range :: gs.map compRg) rg.2 && ordE k && ordE v && ordComps gs
  | .genExp rg e gs => chain rg.1 (e.range :: gs.map compRg) rg.2 && ordE e && ordComps gs
  | .await rg e => chain rg.1 [e.range] rg.2 && ordE e
  | .yield rg e => chain rg.1 (optRg e) rg.2 && ordO e
  | .yieldFrom rg e => chain rg.1 [e.range] rg.2 && ordE e
  | .compare rg l _ cs => chain rg.1 (l.range :: cs.map RExpr.range) rg.2 && ordE l && ordL cs
  | .call rg f as ks => chain rg.1 (f.range :: as.map RExpr.range) rg.2 && ordE f && ordL as && ordKws f.range.2 ks
  | .formattedValue _ _ _ _ => false
  | .joinedStr rg vs => piecesW vs && chain rg.1 (piecesSegs vs) rg.2
  | .attribute rg e _ => chain rg.1 [e.range] rg.2 && ordE e
  | .subscript rg e s => chain rg.1 [e.range, s.range] rg.2 && ordE e && ordE s
  | .starred rg e => chain rg.1 [e.range] rg.2 && ordE e
  | .list rg es => chain rg.1 (es.map RExpr.range) rg.2 && ordL es
  | .tuple rg es => chain rg.1 (es.map RExpr.range) rg.2 && ordL es
  | .slice rg a b c => chain rg.1 (optRg a ++ (optRg b ++ optRg c)) rg.2 && ordO a && ordO b && ordO c
def ordL : List RExpr → Bool
  | [] => true
  | e :: es => ordE e && ordL es
def ordO : Option RExpr → Bool
  | none => true
  | some e => ordE e
def ordComps : List RComp → Bool
  | [] => true
  | .mk rg t i ifs _ :: gs =>
    chain rg.1 (t.range :: i.range :: ifs.map RExpr.range) rg.2 && ordE t && ordE i && ordL ifs && ordComps gs
/-- `ArgWithDefault`s of a lambda: the `Arg`, then the default -/
def ordPs : List RParam → Bool
  | [] => true
  | .mk rg drg _ d :: ps => chain rg.1 (drg :: optRg d) rg.2 && decide (drg.1 ≤ drg.2) && ordO d && ordPs ps
/-- keywords located by look-ahead with the cursor at `lo` -/
def ordKws (lo : Nat) : List RKeyword → Bool
  | [] => true
  | .mk rg _ v :: ks => decide (lo ≤ rg.1) && chain rg.1 [v.range] rg.2 && ordE v && ordKws lo ks
def ordItems : List RDictItem → Bool
  | [] => true
  | .mk k v :: is => ordO k && ordE v && ordItems is
end

/-! ### parameters of a `def`, aliases, with-items, type parameters -/

def ordArg (a : RArg) : Bool := chain a.rg.1 (optRg a.annotation) a.rg.2 && ordO a.annotation
def ordArgD (p : RArgD) : Bool := chain p.rg.1 (p.arg.rg :: optRg p.default) p.rg.2 && ordArg p.arg && ordO p.default
def ordArgOpt : Option RArg → Bool
  | none => true
  | some a => ordArg a
def argOptSeg : Option RArg → List Rg
  | none => []
  | some a => [a.rg]
def argsSegs (a : RArguments) : List Rg :=
  a.posonly.map (·.rg) ++ (a.args.map (·.rg) ++ (argOptSeg a.vararg ++ (a.kwonly.map (·.rg) ++ argOptSeg a.kwarg)))
def ordArgs (a : RArguments) : Bool :=
  chain a.rg.1 (argsSegs a) a.rg.2 && a.posonly.all ordArgD && a.args.all ordArgD && ordArgOpt a.vararg &&
    a.kwonly.all ordArgD && ordArgOpt a.kwarg

def ordAlias (a : RAlias) : Bool := decide (a.rg.1 ≤ a.rg.2)
def ordWI (w : RWithItem) : Bool :=
  chain w.rg.1 (w.contextExpr.range :: optRg w.optionalVars) w.rg.2 && ordE w.contextExpr && ordO w.optionalVars
def ordTP : RTypeParam → Bool
  | .typeVar rg _ b => chain rg.1 (optRg b) rg.2 && ordO b
  | .paramSpec rg _ => decide (rg.1 ≤ rg.2)
  | .typeVarTuple rg _ => decide (rg.1 ≤ rg.2)

/-- where the cursor stands when the keywords of a class are looked at: behind the last type parameter -/
def kwLo (rg : Rg) (tp : List RTypeParam) : Nat :=
  match tp.getLast? with
  | some t => t.range.2
  | none => rg.1

/-- the decorators follow each other and end at or before `b` -/
def decoChain : List RExpr → Nat → Bool
  | [], _ => true
  | d :: ds, b => chain d.range.2 (ds.map RExpr.range) b

/-! ### patterns -/

/-- key, pattern, key, pattern … -/
def zipSegs : List RExpr → List RPattern → List Rg
  | k :: ks, p :: ps => k.range :: p.range :: zipSegs ks ps
  | _, _ => []

mutual
def ordP : RPattern → Bool
  | .matchValue rg v => chain rg.1 [v.range] rg.2 && ordE v
  | .matchSingleton rg _ => chain rg.1 [] rg.2
  | .matchSequence rg ps => chain rg.1 (ps.map RPattern.range) rg.2 && ordPats ps
  | .matchMapping rg ks ps _ =>
    decide (ks.length = ps.length) && chain rg.1 (zipSegs ks ps) rg.2 && ordL ks && ordPats ps
  | .matchClass rg c ps _ kps =>
    chain rg.1 (c.range :: (ps.map RPattern.range ++ kps.map RPattern.range)) rg.2 && ordE c && ordPats ps && ordPats kps
  | .matchStar rg _ => chain rg.1 [] rg.2
  | .matchAs rg p _ => chain rg.1 (patOptSeg p) rg.2 && ordPatO p
  | .matchOr rg ps => chain rg.1 (ps.map RPattern.range) rg.2 && ordPats ps
def ordPats : List RPattern → Bool
  | [] => true
  | p :: ps => ordP p && ordPats ps
def ordPatO : Option RPattern → Bool
  | none => true
  | some p => ordP p
def patOptSeg : Option RPattern → List Rg
  | none => []
  | some p => [p.range]
end

/-! ### statements -/

def stmtDecos : RStmt → List RExpr
  | .functionDef _ _ _ _ d _ _ => d
  | .asyncFunctionDef _ _ _ _ d _ _ => d
  | .classDef _ _ _ _ _ d _ => d
  | _ => []

/-- where the fold of a statement first touches the source: its first decorator, else its own start -/
def stmtLo (s : RStmt) : Nat :=
  match stmtDecos s with
  | [] => s.range.1
  | d :: _ => d.range.1

/-- the stretch of source a statement occupies in a statement list -/
def stmtSeg (s : RStmt) : Rg := (stmtLo s, s.range.2)

mutual
def ordS : RStmt → Bool
  | .functionDef rg _ a b d r tp =>
    decoChain d rg.1 && chain rg.1 (tp.map RTypeParam.range ++ (a.rg :: (optRg r ++ b.map stmtSeg))) rg.2 &&
      ordL d && tp.all ordTP && ordArgs a && ordO r && ordSs b
  | .asyncFunctionDef rg _ a b d r tp =>
    decoChain d rg.1 && chain rg.1 (tp.map RTypeParam.range ++ (a.rg :: (optRg r ++ b.map stmtSeg))) rg.2 &&
      ordL d && tp.all ordTP && ordArgs a && ordO r && ordSs b
  | .classDef rg _ bs ks b d tp =>
    decoChain d rg.1 && chain rg.1 (tp.map RTypeParam.range ++ (bs.map RExpr.range ++ b.map stmtSeg)) rg.2 &&
      ordL d && tp.all ordTP && ordL bs && ordKws (kwLo rg tp) ks && ordSs b
  | .return rg v => chain rg.1 (optRg v) rg.2 && ordO v
  | .delete rg ts => chain rg.1 (ts.map RExpr.range) rg.2 && ordL ts
  | .assign rg ts v => chain rg.1 (ts.map RExpr.range ++ [v.range]) rg.2 && ordL ts && ordE v
  | .typeAlias rg n tp v =>
    chain rg.1 (n.range :: (tp.map RTypeParam.range ++ [v.range])) rg.2 && ordE n && tp.all ordTP && ordE v
  | .augAssign rg t _ v => chain rg.1 [t.range, v.range] rg.2 && ordE t && ordE v
  | .annAssign rg t a v _ => chain rg.1 (t.range :: a.range :: optRg v) rg.2 && ordE t && ordE a && ordO v
  | .for rg t i b o =>
    chain rg.1 (t.range :: i.range :: (b.map stmtSeg ++ o.map stmtSeg)) rg.2 && ordE t && ordE i && ordSs b && ordSs o
  | .asyncFor rg t i b o =>
    chain rg.1 (t.range :: i.range :: (b.map stmtSeg ++ o.map stmtSeg)) rg.2 && ordE t && ordE i && ordSs b && ordSs o
  | .while rg t b o => chain rg.1 (t.range :: (b.map stmtSeg ++ o.map stmtSeg)) rg.2 && ordE t && ordSs b && ordSs o
  | .if rg t b o => chain rg.1 (t.range :: (b.map stmtSeg ++ o.map stmtSeg)) rg.2 && ordE t && ordSs b && ordSs o
  | .with rg items b => chain rg.1 (items.map (·.rg) ++ b.map stmtSeg) rg.2 && items.all ordWI && ordSs b
  | .asyncWith rg items b => chain rg.1 (items.map (·.rg) ++ b.map stmtSeg) rg.2 && items.all ordWI && ordSs b
  | .match rg s cs => chain rg.1 (s.range :: cs.map RCase.range) rg.2 && ordE s && ordCs cs
  | .raise rg e c => chain rg.1 (optRg e ++ optRg c) rg.2 && ordO e && ordO c
  | .try rg b hs o f =>
    chain rg.1 (b.map stmtSeg ++ (hs.map RHandler.range ++ (o.map stmtSeg ++ f.map stmtSeg))) rg.2 &&
      ordSs b && ordHs hs && ordSs o && ordSs f
  | .tryStar rg b hs o f =>
    chain rg.1 (b.map stmtSeg ++ (hs.map RHandler.range ++ (o.map stmtSeg ++ f.map stmtSeg))) rg.2 &&
      ordSs b && ordHs hs && ordSs o && ordSs f
  | .assert rg t m => chain rg.1 (t.range :: optRg m) rg.2 && ordE t && ordO m
  | .import rg ns => chain rg.1 (ns.map (·.rg)) rg.2 && ns.all ordAlias
  | .importFrom rg _ ns _ => chain rg.1 (ns.map (·.rg)) rg.2 && ns.all ordAlias
  | .global rg _ => chain rg.1 [] rg.2
  | .nonlocal rg _ => chain rg.1 [] rg.2
  | .expr rg e => chain rg.1 [e.range] rg.2 && ordE e
  | .pass rg => chain rg.1 [] rg.2
  | .break rg => chain rg.1 [] rg.2
  | .continue rg => chain rg.1 [] rg.2
def ordSs : List RStmt → Bool
  | [] => true
  | s :: ss => ordS s && ordSs ss
def ordHs : List RHandler → Bool
  | [] => true
  | .mk rg ty _ b :: hs => chain rg.1 (optRg ty ++ b.map stmtSeg) rg.2 && ordO ty && ordSs b && ordHs hs
def ordCs : List RCase → Bool
  | [] => true
  | .mk rg p g b :: cs => chain rg.1 (p.range :: (optRg g ++ b.map stmtSeg)) rg.2 && ordP p && ordO g && ordSs b && ordCs cs
end

/-- **`ordM`**: every node of the parse, its fields taken in fold order, is laid out in source order -/
def ordM : RMod → Bool
  | .module rg b => chain rg.1 (b.map stmtSeg) rg.2 && ordSs b
  | .interactive rg b => chain rg.1 (b.map stmtSeg) rg.2 && ordSs b
  | .expression rg e => chain rg.1 [e.range] rg.2 && ordE e

end PV.C13.W
