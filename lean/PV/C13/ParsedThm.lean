import PV.C13.Thm
import PV.C13.ParsedBridge
import PV.C13.ParsedConf
import PV.C13.POrdExpr
import PV.C13.POrdProg
import PV.C02.RProgThm
/-
  C13 — the property's first two sentences for the trees the PARSER produces, at model level.

  `PV.C02.parseRProgram` (design/C02.md section 1b) is the Lean model of how the grammar actions compute the range of
  every node of a Module / Interactive / Expression parse from the token spans; `toTree ar m` (Parsed.lean) is its
  result as the tree the located fold consumes (`ar` = built with `all-nodes-with-ranges`; `false` = the default build
  the C13 streams observe).  The chain

      parseRProgram mode toks = some m, spans tile the source, no f-string piece
        ⟹ `ordM m`                        (POrdExpr.lean / POrdProg.lean: induction over every parser function)
        ⟹ `SrcOrdered realCfg src (toTree ar m)`     (ParsedBridge.lean; offsets the locator accepts: `OffsOk`)
        ⟹ the tree-level theorems of Thm.lean (with `toTree_conforms`, ParsedConf.lean)

  turns "parser-produced trees are SrcOrdered", which Thm.lean evaluated per real tree, into a theorem about the
  parser model.
-/
set_option linter.unusedVariables false
namespace PV.C13
open PV.C15 PV.C13.Spec
open PV.C02 hiding Tree isBoundary
open PV.C12 (Tree Conforms)

/-! ### for every ranged tree that is laid out in fold order (whoever built it) -/

/-- `ordM` trees are `SrcOrdered`: restated from ParsedBridge.lean for the record of theorems. -/
theorem ordM_srcOrdered (ar : Bool) {src : List Nat} {m : RMod} (ho : ordM m = true) (hk : OffsOk src (toTree ar m)) :
    SrcOrdered realCfg src (toTree ar m) := srcOrdered_of_ordM ar ho hk

/-- Folding the tree of an `ordM` parse with the `LinearLocator` (either build flavour) does not panic and stores in every
    node the reference (row, column) of its start and of its end. -/
theorem ordM_locations_eq_spec (ar dbg : Bool) {src : List Nat} (hs : LineStartsOk src) {m : RMod} (ho : ordM m = true)
    (hk : OffsOk src (toTree ar m)) :
    foldLocated realCfg (.linear dbg) src (toTree ar m) = some (locMap (rowCol src) (toTree ar m)) :=
  fold_locations_eq_spec_gen dbg hs (toTree_conforms ar m) (srcOrdered_of_ordM ar ho hk)

/-- …and the `RandomLocator` returns the same located tree. -/
theorem ordM_linear_eq_random (ar dbg : Bool) {src : List Nat} (hs : LineStartsOk src) {m : RMod} (ho : ordM m = true)
    (hk : OffsOk src (toTree ar m)) :
    foldLocated realCfg (.linear dbg) src (toTree ar m) = foldLocated realCfg .random src (toTree ar m) :=
  fold_linear_eq_random_gen dbg hs (toTree_conforms ar m) (srcOrdered_of_ordM ar ho hk)

/-! ### non-vacuity: a program with everything the property's quantifier lists

  BOM `@d` CR LF `class A(B, k=1, *c):` CR LF `    x = f(a=1, *b) if {**m, 2: n} else 0` CR LF — a decorator, a class
  with a keyword before a starred base, a call with a keyword before a starred argument, a conditional expression,
  a dict with `**`, a BOM, CR LF line ends; tokens and spans as the real lexer delivers them (`pvh_c01 rtoks`). -/

def richToks : List RPTok :=
  [⟨.e (.op .at), 3, 4⟩,
   ⟨.e (.name [100]), 4, 5⟩,
   ⟨.newline, 5, 7⟩,
   ⟨.e (.kw (.other [99, 108, 97, 115, 115])), 7, 12⟩,
   ⟨.e (.name [65]), 13, 14⟩,
   ⟨.e (.op .lpar), 14, 15⟩,
   ⟨.e (.name [66]), 15, 16⟩,
   ⟨.e (.op .comma), 16, 17⟩,
   ⟨.e (.name [107]), 18, 19⟩,
   ⟨.e (.op .assign), 19, 20⟩,
   ⟨.e (.int 1), 20, 21⟩,
   ⟨.e (.op .comma), 21, 22⟩,
   ⟨.e (.op .star), 23, 24⟩,
   ⟨.e (.name [99]), 24, 25⟩,
   ⟨.e (.op .rpar), 25, 26⟩,
   ⟨.e (.op .colon), 26, 27⟩,
   ⟨.newline, 27, 29⟩,
   ⟨.indent, 29, 33⟩,
   ⟨.e (.name [120]), 33, 34⟩,
   ⟨.e (.op .assign), 35, 36⟩,
   ⟨.e (.name [102]), 37, 38⟩,
   ⟨.e (.op .lpar), 38, 39⟩,
   ⟨.e (.name [97]), 39, 40⟩,
   ⟨.e (.op .assign), 40, 41⟩,
   ⟨.e (.int 1), 41, 42⟩,
   ⟨.e (.op .comma), 42, 43⟩,
   ⟨.e (.op .star), 44, 45⟩,
   ⟨.e (.name [98]), 45, 46⟩,
   ⟨.e (.op .rpar), 46, 47⟩,
   ⟨.e (.kw .if), 48, 50⟩,
   ⟨.e (.op .lbrace), 51, 52⟩,
   ⟨.e (.op .dstar), 52, 54⟩,
   ⟨.e (.name [109]), 54, 55⟩,
   ⟨.e (.op .comma), 55, 56⟩,
   ⟨.e (.int 2), 57, 58⟩,
   ⟨.e (.op .colon), 58, 59⟩,
   ⟨.e (.name [110]), 60, 61⟩,
   ⟨.e (.op .rbrace), 61, 62⟩,
   ⟨.e (.kw .else), 63, 67⟩,
   ⟨.e (.int 0), 68, 69⟩,
   ⟨.newline, 69, 71⟩,
   ⟨.dedent, 71, 71⟩]
def richSrc : List Nat :=
  [239, 187, 191, 64, 100, 13, 10, 99, 108, 97, 115, 115, 32, 65, 40, 66, 44, 32, 107, 61, 49, 44, 32, 42, 99, 41, 58, 13, 10, 32, 32, 32, 32, 120, 32, 61, 32, 102, 40, 97, 61, 49, 44, 32, 42, 98, 41, 32, 105, 102, 32, 123, 42, 42, 109, 44, 32, 50, 58, 32, 110, 125, 32, 101, 108, 115, 101, 32, 48, 13, 10]

/-- the parse of `richToks` by the model -/
def richMod : Option RMod := parseRProgram .module richToks

example : richMod.map (fun m => (m.range, plainM m, ordM m)) = some ((3, 71), true, true) := by decide +kernel
example : richMod.map (fun m => (decide (OffsOk richSrc (toTree false m)), decide (OffsOk richSrc (toTree true m)))) =
    some (true, true) := by decide +kernel
example : LineStartsOk richSrc := validUtf8_lineStartsOk (by decide)
/-- tree order is not source order in this tree -/
example : richMod.map (fun m => decide ((offsT (toTree false m)).Pairwise (· ≤ ·))) = some false := by decide +kernel
example : richMod.map (fun m => decide (SrcOrdered realCfg richSrc (toTree false m))) = some true := by decide +kernel

/-! ### the trees the PARSER (model) produces -/

instance (src : List Nat) (toks : List RPTok) : Decidable (TiledP src toks) := by
  unfold TiledP Tiled; exact inferInstance

/-- **Every node of a parse has its fields, in fold order, in source order.**  For every source, every token list
    whose spans tile it (what C05 proves of the lexer model: `tiledP_of_lexer`), every mode: if the program-parser model
    accepts and the tree has no f-string piece, then `ordM m` — by induction over all 43 functions of the expression
    parser (`ordAt`) and every function of the program parser (`parseRProgram_ordM`). -/
theorem parsed_ordM {src : List Nat} {toks : List RPTok} (ht : TiledP src toks) {mode : PV.Prog.Mode} {m : RMod}
    (hp : parseRProgram mode toks = some m) (hpl : plainM m = true) : ordM m = true :=
  parseRProgram_ordM ht (fun f => ordAt (tiledTab_of_tiledP ht) f) hp hpl

/-- **Parser-produced trees are `SrcOrdered`** (default build `ar = false`, and with `all-nodes-with-ranges`), provided
    their offsets are positions the locator accepts (`OffsOk`: on character boundaries — which C02's
    `parseRProgram_rangesOk_partial` gives —, not between a CR and its LF, not inside a leading BOM). -/
theorem parsed_tree_srcOrdered (ar : Bool) {src : List Nat} {toks : List RPTok} (ht : TiledP src toks)
    {mode : PV.Prog.Mode} {m : RMod} (hp : parseRProgram mode toks = some m) (hpl : plainM m = true)
    (hk : OffsOk src (toTree ar m)) : SrcOrdered realCfg src (toTree ar m) :=
  srcOrdered_of_ordM ar (parsed_ordM ht hp hpl) hk

/-- The calls `LinearLocator::fold` makes on a parsed tree form a forward history. -/
theorem parsed_tree_history_forward (ar : Bool) {src : List Nat} {toks : List RPTok} (ht : TiledP src toks)
    {mode : PV.Prog.Mode} {m : RMod} (hp : parseRProgram mode toks = some m) (hpl : plainM m = true)
    (hk : OffsOk src (toTree ar m)) :
    ∃ h, locHistory realCfg (toTree ar m) = some h ∧ Forward src (initCursor src) h :=
  locHistory_forward_gen (toTree_conforms ar m) (parsed_tree_srcOrdered ar ht hp hpl hk)

/-- **First sentence of the property for parser output (model level).**  Converting the byte ranges of a parsed tree
    with the `LinearLocator` (either build flavour) does not panic and gives, for every node, the reference row and
    character column of its start and of its end. -/
theorem parsed_tree_locations_eq_spec (ar dbg : Bool) {src : List Nat} (hs : LineStartsOk src) {toks : List RPTok}
    (ht : TiledP src toks) {mode : PV.Prog.Mode} {m : RMod} (hp : parseRProgram mode toks = some m)
    (hpl : plainM m = true) (hk : OffsOk src (toTree ar m)) :
    foldLocated realCfg (.linear dbg) src (toTree ar m) = some (locMap (rowCol src) (toTree ar m)) :=
  fold_locations_eq_spec_gen dbg hs (toTree_conforms ar m) (parsed_tree_srcOrdered ar ht hp hpl hk)

/-- **Second sentence.**  On a parsed tree the incremental and the indexed locator return identical results. -/
theorem parsed_tree_linear_eq_random (ar dbg : Bool) {src : List Nat} (hs : LineStartsOk src) {toks : List RPTok}
    (ht : TiledP src toks) {mode : PV.Prog.Mode} {m : RMod} (hp : parseRProgram mode toks = some m)
    (hpl : plainM m = true) (hk : OffsOk src (toTree ar m)) :
    foldLocated realCfg (.linear dbg) src (toTree ar m) = foldLocated realCfg .random src (toTree ar m) :=
  fold_linear_eq_random_gen dbg hs (toTree_conforms ar m) (parsed_tree_srcOrdered ar ht hp hpl hk)

/-- what the property asks for, for EVERY accepted program (f-strings too): stated; false as it stands
    (`parsed_tree_srcOrdered_full_fails`: implicit concatenation of f-strings, a listed finding) -/
def parsed_tree_srcOrdered_full : Prop :=
  ∀ (src : List Nat) (toks : List RPTok) (mode : PV.Prog.Mode) (m : RMod), TiledP src toks →
    parseRProgram mode toks = some m → OffsOk src (toTree false m) → SrcOrdered realCfg src (toTree false m)

/-! the hypotheses hold for `richToks`, and the theorems apply to it -/
example : TiledP richSrc richToks := by decide +kernel
example : ∀ m, richMod = some m →
    foldLocated realCfg (.linear true) richSrc (toTree false m) = some (locMap (rowCol richSrc) (toTree false m)) ∧
    foldLocated realCfg (.linear false) richSrc (toTree true m) = foldLocated realCfg .random richSrc (toTree true m) := by
  intro m hm
  have h1 : richMod.map plainM = some true := by decide +kernel
  have h2 : richMod.map (fun m => decide (OffsOk richSrc (toTree false m))) = some true := by decide +kernel
  have h3 : richMod.map (fun m => decide (OffsOk richSrc (toTree true m))) = some true := by decide +kernel
  simp only [hm, Option.map_some, Option.some.injEq, decide_eq_true_eq] at h1 h2 h3
  have ht : TiledP richSrc richToks := by decide +kernel
  have hs : LineStartsOk richSrc := validUtf8_lineStartsOk (by decide)
  exact ⟨parsed_tree_locations_eq_spec false true hs ht hm h1 h2, parsed_tree_linear_eq_random true false hs ht hm h1 h3⟩

/-! ### what `OffsOk` excludes: the listed finding `linear-bom-tokenless-module-all-ranges` at model level -/

/-- a BOM and nothing else: no token, `Module` ranged `0..0` (C09's open finding); with `all-nodes-with-ranges` the fold
    asks the `LinearLocator`, whose cursor starts behind the BOM, for offset 0: not `OffsOk`, not `SrcOrdered`, the debug
    build panics; in the default build the `Module` node has no range and nothing is asked -/
theorem bom_tokenless_module_all_ranges :
    (parseRProgram .module []).map (fun m => (m.range, m.body.length, ordM m)) = some ((0, 0), 0, true) ∧
    ¬ OffsOk [239, 187, 191] (toTree true (.module (0, 0) [])) ∧
    ¬ SrcOrdered realCfg [239, 187, 191] (toTree true (.module (0, 0) [])) ∧
    foldLocated realCfg (.linear true) [239, 187, 191] (toTree true (.module (0, 0) [])) = none ∧
    SrcOrdered realCfg [239, 187, 191] (toTree false (.module (0, 0) [])) := by
  refine ⟨by decide, by decide, by decide, by decide, by decide⟩

/-! ### what `plainM` excludes: the listed findings about f-strings, reproduced by the parser model -/

/-- `f'{x}' f'{y}'` LF as the lexer delivers it: two f-string tokens and a NEWLINE -/
def fconcatToks : List RPTok :=
  [⟨.e (.fstr 39 false false [123, 120, 125]), 0, 6⟩, ⟨.e (.fstr 39 false false [123, 121, 125]), 7, 13⟩, ⟨.newline, 13, 14⟩]

/-- a triple-quoted f-string whose literal text is CR LF CR LF `{x}`, followed by CR LF: one f-string token (its value
    with the line ends folded to LF) and a NEWLINE -/
def fcrlfSrc : List Nat := [102, 39, 39, 39, 13, 10, 13, 10, 123, 120, 125, 39, 39, 39, 13, 10]
def fcrlfToks : List RPTok := [⟨.e (.fstr 39 true false [10, 10, 123, 120, 125]), 0, 14⟩, ⟨.newline, 14, 16⟩]

/-- The parser MODEL reproduces both listed f-string findings: for the implicit concatenation every offset is fine
    (`OffsOk`) but the pieces carry the ranges of their own literals, so the tree — which is the tree `fconcatTree` of
    `fstring_concat_pieces`, up to leaf payloads — is not `SrcOrdered` (finding `linear-fstring-concat-piece-range`: the
    statement of `parsed_tree_srcOrdered` without `plainM` is false); for the CR LF inside the literal the field
    expression is ranged one byte early per CR LF (C02 / C07 finding), which puts an offset between a CR and its LF:
    not `OffsOk` (finding `linear-offset-inside-crlf`). -/
theorem fstring_findings_reproduced :
    (parseRProgram .module fconcatToks).map (fun m => (plainM m, decide (OffsOk fconcatText (toTree false m)),
      decide (SrcOrdered realCfg fconcatText (toTree false m)))) = some (false, true, false) ∧
    (parseRProgram .module fconcatToks).map (fun m => C12.Tree.beq (skel (toTree false m)) (skel fconcatTree)) = some true ∧
    (parseRProgram .module fcrlfToks).map (fun m => (plainM m, decide (OffsOk fcrlfSrc (toTree false m)),
      decide (SrcOrdered realCfg fcrlfSrc (toTree false m)))) = some (false, false, false) := by
  refine ⟨by decide +kernel, by decide +kernel, by decide +kernel⟩

/-- the statement for every accepted program does not hold: `f'{x}' f'{y}'` (spans tiled, every offset fine) -/
theorem parsed_tree_srcOrdered_full_fails : ¬ parsed_tree_srcOrdered_full := by
  intro h
  have h1 : (parseRProgram .module fconcatToks).map (fun m => (decide (OffsOk fconcatText (toTree false m)),
      decide (SrcOrdered realCfg fconcatText (toTree false m)))) = some (true, false) := by decide +kernel
  cases hm : parseRProgram .module fconcatToks with
  | none => simp [hm] at h1
  | some m =>
    simp only [hm, Option.map_some, Option.some.injEq, Prod.mk.injEq, decide_eq_true_eq, decide_eq_false_iff_not] at h1
    exact h1.2 (h fconcatText fconcatToks .module m (by decide +kernel) hm h1.1)

end PV.C13
