import PV.C13.POrdExpr
import PV.C13.POrdProg1
import PV.C02.FStrThm1
/-
  C13 — f-strings, one level deep: the pieces of ONE f-string token are laid out in the order in which
  `LinearLocator::fold_expr_joined_str` (ast/src/source_locator.rs, `linear_locate_expr_joined_str`) visits them.

  The fold stamps the location of the whole `JoinedStr` on every `Constant` / `FormattedValue` piece and on every
  format-spec `JoinedStr` (so those must CARRY the range of the whole: `piecesOk`), and visits only the replacement-field
  expressions with the `LinearLocator`: `values` in order, for each `FormattedValue` its `value`, then the pieces of its
  `format_spec` (`piecesSegs`).  `jOrd rg vs`: what `ordJ` of `Fold.lean` needs of a `JoinedStr` ranged `rg` with pieces `vs`.

  `fstr_pieces_ordered`: for a literal whose value is the source text of its span (`FCtx`, from C02's decidable tie
  `FTied`), the pieces `fstrRBody` returns satisfy `jOrd lit` — the twin of C02's `bodyAt` (`PV/C02/FStrBody.lean`) with
  the cursor-suffix invariant sharpened to "the field expressions returned between two cursors lie, in order, between the
  byte positions of those cursors" (`pos`); the field expression itself is ordered by `ordAt` at the inner span table
  (`fieldTab_within_field`).
  Pieces of an implicit CONCATENATION carry the range of their own literal, not of the whole `JoinedStr` (listed finding
  `linear-fstring-concat-piece-range`): `piecesOk` fails there (`fstr_concat_not_jOrd`).
-/
set_option linter.unusedVariables false
set_option linter.unusedSimpArgs false
namespace PV.C13
open PV.Expr PV.C11
open PV.C02

/-! ### what the fold needs of the pieces of a `JoinedStr` -/

mutual
/-- the replacement-field expressions below a piece, in the order the `LinearLocator` visits them -/
def pieceSegs : RExpr → List Rg
  | .formattedValue _ v _ spec => v.range :: specSegs spec
  | .joinedStr _ vs => piecesSegs vs
  | _ => []
def piecesSegs : List RExpr → List Rg
  | [] => []
  | p :: ps => pieceSegs p ++ piecesSegs ps
def specSegs : Option RExpr → List Rg
  | none => []
  | some s => pieceSegs s
end

mutual
/-- a piece has the shape `linear_locate_expr_joined_str` accepts (a `Constant`, or a `FormattedValue` whose format spec
    is absent or a `JoinedStr` of such pieces — anything else is `unreachable!`), carries the range `lit` whose location
    it receives (so does its format spec), and its field expression is laid out in fold order -/
def pieceOk (lit : Rg) : RExpr → Bool
  | .const rg _ => rg == lit
  | .formattedValue rg v _ none => rg == lit && ordE v
  | .formattedValue rg v _ (some (.joinedStr rg' ws)) => rg == lit && ordE v && (rg' == lit && piecesOk lit ws)
  | _ => false
def piecesOk (lit : Rg) : List RExpr → Bool
  | [] => true
  | p :: ps => pieceOk lit p && piecesOk lit ps
end

/-- the top-level pieces are `Constant`s and `FormattedValue`s (anything else is `unreachable!` in the fold) -/
def topPieces : List RExpr → Bool
  | [] => true
  | .const _ _ :: ps => topPieces ps
  | .formattedValue _ _ _ _ :: ps => topPieces ps
  | _ => false

/-- **what `ordJ` needs of a `JoinedStr` ranged `rg` with the pieces `vs`** -/
def jOrd (rg : Rg) (vs : List RExpr) : Bool :=
  piecesOk rg vs && chain rg.1 (piecesSegs vs) rg.2

theorem piecesSegs_append : ∀ (a b : List RExpr), piecesSegs (a ++ b) = piecesSegs a ++ piecesSegs b
  | [], _ => rfl
  | p :: ps, b => by simp [piecesSegs, piecesSegs_append ps b]

theorem piecesOk_append (lit : Rg) : ∀ (a b : List RExpr), piecesOk lit (a ++ b) = (piecesOk lit a && piecesOk lit b)
  | [], _ => by simp [piecesOk]
  | p :: ps, b => by simp [piecesOk, piecesOk_append lit ps b, Bool.and_assoc]

/-! ### the ordering invariant of the f-string scanner -/

section
variable {src : List Nat} {lit : Rg} {base : Nat} {whole : List Nat} {raw : Bool}

/-- byte position (in the source) of the cursor `cs`, a suffix of the token value `whole` located at `base` -/
def pos (base : Nat) (whole cs : List Nat) : Nat := base + ulen whole - ulen cs

theorem ulen_suffix {r cs : List Nat} (h : r <:+ cs) : ulen r ≤ ulen cs := by
  obtain ⟨p, rfl⟩ := h
  rw [ulen_append]; omega

theorem pos_mono {r cs : List Nat} (h : r <:+ cs) : pos base whole cs ≤ pos base whole r := by
  have := ulen_suffix h
  unfold pos; omega

theorem pos_cons_pre {pre cs : List Nat} (hw : whole = pre ++ 123 :: cs) :
    pos base whole (123 :: cs) = base + ulen pre := by
  subst hw
  unfold pos
  rw [ulen_append]; omega

/-- the pieces returned between the cursors `cs` and `r`: fine, and their field expressions lie in order between the
    positions of the two cursors -/
def OrdOut (lit : Rg) (base : Nat) (whole cs r : List Nat) (vs : List RExpr) : Prop :=
  r <:+ cs ∧ (fpieceL vs = true → piecesOk lit vs = true ∧ chain (pos base whole cs) (piecesSegs vs) (pos base whole r) = true)

theorem OrdOut.shift {cs cs' r : List Nat} {vs : List RExpr} (h : OrdOut lit base whole cs' r vs) (hs : cs' <:+ cs) :
    OrdOut lit base whole cs r vs :=
  ⟨h.1.trans hs, fun hf => ⟨(h.2 hf).1, chain_mono (h.2 hf).2 (pos_mono hs) (Nat.le_refl _)⟩⟩

theorem ordOut_const {cs r : List Nat} (hs : r <:+ cs) (b : Bool) (c : Const) :
    OrdOut lit base whole cs r (if b then [] else [.const lit c]) := by
  refine ⟨hs, fun _ => ?_⟩
  cases b
  · simp [piecesOk, pieceOk, piecesSegs, pieceSegs, chain, pos_mono hs]
  · simp [piecesOk, piecesSegs, chain, pos_mono hs]

theorem OrdOut.append {cs m r : List Nat} {a b : List RExpr} (ha : OrdOut lit base whole cs m a)
    (hb : OrdOut lit base whole m r b) : OrdOut lit base whole cs r (a ++ b) := by
  refine ⟨hb.1.trans ha.1, fun hf => ?_⟩
  rw [fpieceL_append, Bool.and_eq_true] at hf
  obtain ⟨a1, a2⟩ := ha.2 hf.1
  obtain ⟨b1, b2⟩ := hb.2 hf.2
  rw [piecesOk_append, piecesSegs_append, a1, b1]
  exact ⟨rfl, chain_append a2 b2⟩

structure OrdBodyAt (src : List Nat) (lit : Rg) (base : Nat) (whole : List Nat) (raw : Bool) (f : Nat) : Prop where
  body : ∀ nested cs content vs r, cs <:+ whole → fstrRBody f lit base whole raw nested cs content = some (vs, r) →
    OrdOut lit base whole cs r vs
  field : ∀ nested cs vs r, (123 :: cs) <:+ whole → fstrRField f lit base whole raw nested cs = some (vs, r) →
    OrdOut lit base whole (123 :: cs) r vs
  spec : ∀ nested cs piece vs r, cs <:+ whole → fstrRSpec f lit base whole raw nested cs piece = some (vs, r) →
    OrdOut lit base whole cs r vs

def BelowOB (src : List Nat) (lit : Rg) (base : Nat) (whole : List Nat) (raw : Bool) (n : Nat) : Prop :=
  ∀ f, n = f + 1 → OrdBodyAt src lit base whole raw f

theorem suf_tail' {α} {x : α} {r : List α} : r <:+ x :: r := List.suffix_cons x r
theorem suf_drop1' {α} {r : List α} : r.drop 1 <:+ r := List.drop_suffix 1 r

theorem ord_step_body (C : FCtx src lit base whole) {n : Nat} (ih : BelowOB src lit base whole raw n) :
    ∀ nested cs content vs r, cs <:+ whole → fstrRBody n lit base whole raw nested cs content = some (vs, r) →
    OrdOut lit base whole cs r vs := by
  intro nested cs content vs r hsuf
  fun_cases fstrRBody n lit base whole raw nested cs content
  all_goals intro h
  all_goals (try (cases h; done))
  all_goals (first
    | exact ((ih _ rfl).body _ _ _ _ _ (suf_drop1 (suf_tail hsuf)) h).shift (suf_drop1'.trans suf_tail')
    | exact ((ih _ rfl).body _ _ _ _ _ (suf_tail hsuf) h).shift suf_tail'
    | exact ((ih _ rfl).body _ _ _ _ _ ((fstrEscape_suf (by assumption)).trans (suf_tail hsuf)) h).shift
        ((fstrEscape_suf (by assumption)).trans suf_tail')
    | (simp only [Option.some.injEq, Prod.mk.injEq] at h
       obtain ⟨rfl, rfl⟩ := h
       exact ordOut_const (List.suffix_refl _) _ _)
    | skip)
  case case6 =>
    rename_i hf hb
    have o1 := (ih _ rfl).field _ _ _ _ hsuf hf
    have o2 := (ih _ rfl).body _ _ _ _ _ (o1.1.trans hsuf) hb
    simp only [Option.some.injEq, Prod.mk.injEq] at h
    obtain ⟨rfl, rfl⟩ := h
    exact ((ordOut_const (List.suffix_refl _) _ _).append o1).append o2
  case case14 =>
    rename_i hx _ _ _ _
    rw [hx] at h
    exact ((ih _ rfl).body _ _ _ _ _ ((fstrEscape_suf hx).trans (suf_tail hsuf)) h).shift
      ((fstrEscape_suf hx).trans suf_tail')
  case case15 =>
    rename_i hx _ _ _ _
    rw [hx] at h
    cases h

theorem ord_step_spec (C : FCtx src lit base whole) {n : Nat} (ih : BelowOB src lit base whole raw n) :
    ∀ nested cs piece vs r, cs <:+ whole → fstrRSpec n lit base whole raw nested cs piece = some (vs, r) →
    OrdOut lit base whole cs r vs := by
  intro nested cs piece vs r hsuf
  fun_cases fstrRSpec n lit base whole raw nested cs piece
  all_goals intro h
  all_goals (try (cases h; done))
  all_goals (first
    | exact ((ih _ rfl).spec _ _ _ _ _ (suf_tail hsuf) h).shift suf_tail'
    | (simp only [Option.some.injEq, Prod.mk.injEq] at h
       obtain ⟨rfl, rfl⟩ := h
       exact ordOut_const (List.suffix_refl _) _ _)
    | skip)
  case case3 =>
    rename_i hs hb
    have o1 := (ih _ rfl).body _ _ _ _ _ hsuf hb
    have o2 := (ih _ rfl).spec _ _ _ _ _ (o1.1.trans hsuf) hs
    simp only [Option.some.injEq, Prod.mk.injEq] at h
    obtain ⟨rfl, rfl⟩ := h
    exact ((ordOut_const (List.suffix_refl _) _ _).append o1).append o2
  case case9 =>
    rename_i hx _ _ _
    rw [hx] at h
    exact ((ih _ rfl).spec _ _ _ _ _ ((fstrEscape_suf hx).trans (suf_tail hsuf)) h).shift
      ((fstrEscape_suf hx).trans suf_tail')
  case case10 =>
    rename_i hx _ _ _
    rw [hx] at h
    cases h

/-- the expression of a replacement field is laid out in fold order: `ordAt` at the inner span table -/
theorem field_value_ord {base : Nat} {whole pre cs : List Nat} {st : FieldState}
    {stop : FieldStop} {r : List Nat} {fuel f : Nat} {tks : List Tok} {value : RExpr}
    (hA : Aligned src base whole) (hw : whole = pre ++ 123 :: cs)
    (hs : scanField fuel {} cs = some (st, stop, r))
    (hl : lex (40 :: (st.expr.reverse ++ [41])) = some tks)
    (hp : parseRTop (fieldTab (posIn base whole cs.length) st.expr.reverse) f tks = some value)
    (hpl : plain value = true) : ordE value = true := by
  obtain ⟨T, hin⟩ := fieldTab_within_field hA hw hs
  have hlen := lexSpans_length (text := 40 :: (st.expr.reverse ++ [41])) (tks := tks) (by
    unfold lex at hl
    exact hl) (posIn base whole cs.length - 1)
  rw [hlen] at T
  cases f with
  | zero => simp [parseRTop] at hp
  | succ f =>
    rw [parseRTop.eq_def] at hp
    simp only at hp
    split at hp
    · rename_i e' heq
      cases hp
      exact (ordAt T f).testList tks value [] (Nat.le_refl _) heq hpl
    · cases hp

theorem ord_step_field (C : FCtx src lit base whole) {n : Nat} (ih : BelowOB src lit base whole raw n) :
    ∀ nested cs vs r, (123 :: cs) <:+ whole → fstrRField n lit base whole raw nested cs = some (vs, r) →
    OrdOut lit base whole (123 :: cs) r vs := by
  intro nested cs vs r hsuf h
  cases n with
  | zero => simp [fstrRField] at h
  | succ f =>
    rw [fstrRField] at h
    cases hs : scanField (cs.length + 1) {} cs with
    | none => rw [hs] at h; cases h
    | some p =>
      obtain ⟨st, stop, r0⟩ := p
      rw [hs] at h
      simp only at h
      obtain ⟨_, _, _, hr0⟩ := scanField_cut hs
      have hr0c : r0 <:+ 123 :: cs := hr0.trans suf_tail'
      have hr0w : r0 <:+ whole := hr0c.trans hsuf
      obtain ⟨pre, hpre⟩ := hsuf
      -- the format spec: its pieces lie between `r0` and `r'`
      have hspec : ∀ spec r', (match stop with
          | FieldStop.close => some (none, r0)
          | FieldStop.spec =>
            match fstrRSpec f lit base whole raw nested r0 [] with
            | some (vs, 125 :: r') => some (some (RExpr.joinedStr lit vs), r')
            | x => none) = some (spec, r') →
          r' <:+ r0 ∧ (fpieceO spec = true →
            (spec = none ∨ ∃ ws, spec = some (.joinedStr lit ws) ∧ piecesOk lit ws = true) ∧
            chain (pos base whole r0) (specSegs spec) (pos base whole r') = true) := by
        intro spec r' hh
        cases stop with
        | close =>
          simp only [Option.some.injEq, Prod.mk.injEq] at hh
          obtain ⟨rfl, rfl⟩ := hh
          exact ⟨List.suffix_refl _, fun _ => ⟨Or.inl rfl, by simp [specSegs, chain]⟩⟩
        | spec =>
          simp only at hh
          split at hh
          · rename_i vs' r'' hsp
            simp only [Option.some.injEq, Prod.mk.injEq] at hh
            obtain ⟨rfl, rfl⟩ := hh
            have o := (ih _ rfl).spec _ _ _ _ _ hr0w hsp
            refine ⟨suf_tail'.trans o.1, fun hf => ?_⟩
            simp only [fpieceO, fpiece] at hf
            obtain ⟨o1, o2⟩ := o.2 hf
            refine ⟨Or.inr ⟨vs', rfl, o1⟩, ?_⟩
            simp only [specSegs, pieceSegs]
            exact chain_mono o2 (Nat.le_refl _) (pos_mono suf_tail')
          · cases hh
      split at h
      · cases h
      · rename_i spec r' hsr
        obtain ⟨hr', hsp⟩ := hspec spec r' hsr
        split at h
        · cases h
        · rename_i tks hl
          split at h
          · cases h
          · rename_i value hv
            have hval : plain value = true → Res src (base + ulen pre) (base + ulen whole - ulen r0) value :=
              fun hp => field_value_res C.al hpre.symm hs hl hv hp
            have hord : plain value = true → ordE value = true :=
              fun hp => field_value_ord C.al hpre.symm hs hl hv hp
            have hposl : pos base whole (123 :: cs) = base + ulen pre := pos_cons_pre hpre.symm
            -- the `FormattedValue` piece
            have hfv : ∀ conv, OrdOut lit base whole (123 :: cs) r' [.formattedValue lit value conv spec] := by
              intro conv
              refine ⟨hr'.trans hr0c, fun hf => ?_⟩
              simp only [fpieceL, fpiece, Bool.and_true, Bool.and_eq_true] at hf
              obtain ⟨s1, s2⟩ := hsp hf.2
              obtain ⟨g1, g2, g3, _⟩ := hval hf.1
              refine ⟨by
                rcases s1 with rfl | ⟨ws, rfl, hws⟩
                · simp [piecesOk, pieceOk, hord hf.1]
                · simp [piecesOk, pieceOk, hord hf.1, hws], ?_⟩
              simp only [piecesSegs, pieceSegs, List.append_nil]
              exact chain_cons' (by rw [hposl]; exact g2) (show value.range.2 ≤ pos base whole r0 from g3) s2
            split at h
            · simp only [Option.some.injEq, Prod.mk.injEq] at h
              obtain ⟨rfl, rfl⟩ := h
              exact hfv _
            · simp only [Option.some.injEq, Prod.mk.injEq] at h
              obtain ⟨rfl, rfl⟩ := h
              have c1 : OrdOut lit base whole (123 :: cs) (123 :: cs) [.const lit (.str (st.expr.reverse ++ [61]) false)] :=
                ordOut_const (List.suffix_refl _) false _
              have c2 : OrdOut lit base whole (123 :: cs) (123 :: cs) [.const lit (.str st.trailing.reverse false)] :=
                ordOut_const (List.suffix_refl _) false _
              exact (c1.append c2).append (hfv _)

theorem ordBodyAt (C : FCtx src lit base whole) : ∀ n, OrdBodyAt src lit base whole raw n
  | 0 => ⟨ord_step_body C (fun f h => absurd h (by omega)), ord_step_field C (fun f h => absurd h (by omega)),
      ord_step_spec C (fun f h => absurd h (by omega))⟩
  | n + 1 =>
    have b : BelowOB src lit base whole raw (n + 1) := fun f h => by cases h; exact ordBodyAt C n
    ⟨ord_step_body C b, ord_step_field C b, ord_step_spec C b⟩

/-- **The pieces of one f-string literal are laid out in fold order.**  For a literal `lit` whose value `whole` is the
    source text at `base` (`FCtx`: C02's tie), the pieces the f-string parser model returns for the whole value — when
    their replacement-field expressions contain no further f-string (`fpieceL`) — all carry the range `lit`, their field
    expressions are `ordE`, and these expressions (value, then the fields of its format spec, piece after piece) follow
    each other without overlap between the start and the end of the literal: `jOrd lit vs`. -/
theorem fstr_pieces_ordered (C : FCtx src lit base whole) {f : Nat} {vs : List RExpr} {r : List Nat}
    (h : fstrRBody f lit base whole raw 0 whole [] = some (vs, r)) (hf : fpieceL vs = true) : jOrd lit vs = true := by
  obtain ⟨_, o⟩ := (ordBodyAt (raw := raw) C f).body 0 whole [] vs r (List.suffix_refl _) h
  obtain ⟨o1, o2⟩ := o hf
  have hlo := C.lo
  have hhi := C.hi
  simp only [jOrd, o1, Bool.true_and]
  refine chain_mono o2 ?_ ?_
  · unfold pos; omega
  · unfold pos; omega

end
end PV.C13
