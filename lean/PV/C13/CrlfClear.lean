import PV.C13.CrlfStep
import PV.C13.SpansLexer
/-
  C13 — `CrlfClear` is a THEOREM about the lexer model `PV.Lexer.lex` (part 2: from one step to the whole stream, from
  character positions to byte offsets), and the capstone theorems without any hypothesis about offsets.

  `lexAll_clear`: invariant of the `lexAll` loop — every step is entered at a position of the whole text that is not
  between a CR and its LF (`Crlf.Split`), so (`step_clear`, CrlfStep.lean) no token it pushes starts or ends there and
  it stops at such a position again.  `lexed_chars_clear`: the statement for `lex` (BOM skip: position 1 behind U+FEFF
  is clear; the soft-keyword pass keeps the spans).  `split_of_insideCrlf`: the byte offset of character index `i` in
  the UTF-8 text lies between a CR byte and an LF byte only if index `i` lies between a CR and an LF (a multi-byte
  character neither starts with byte 10 nor ends with byte 13).  `lexed_crlfClear`: `CrlfClear` for every text, both
  lexer configurations, every sane Unicode table.  `lexed_spansOk'`, `lexed_parsed_tree_srcOrdered'`,
  `lexed_parsed_tree_locations_eq_spec'`, `lexed_parsed_tree_linear_eq_random'`: the capstones without `CrlfClear`
  and without `LineStartsOk` (`lineStartsOk_utf8Encode`: the encoding of ANY list of scalar values has its line starts
  and the end of a leading BOM on character boundaries — a byte < 128 is a whole character).
-/
set_option linter.unusedVariables false
namespace PV.C13
open PV.C15 PV.C13.Spec PV.Lexer PV.C05 PV.C13.Crlf
open PV.C02 (RPTok TiledP)

/-! ### from one step to the whole stream (character positions) -/

theorem abs_clear {whole inp : List Nat} {cb : Nat} (hw : whole.drop cb = inp) (h0 : ¬ Split whole cb) {k : Nat}
    (hk : ¬ Split inp k) : ¬ Split whole (cb + k) := by
  by_cases hz : k = 0
  · rw [hz]; exact h0
  · rw [split_at hw k (by omega)]; exact hk

/-- the `lexAll` invariant: the loop is entered at a position `cb` of the whole text that is not between a CR and its
    LF; then no token starts or ends between a CR and its LF -/
theorem lexAll_clear {cfg : Cfg} (hs : cfg.up.Sane) (whole : List Nat) (fuel : Nat) (st : LexState) (inp : List Nat)
    (cb bb : Nat) (hw : whole.drop cb = inp) (h0 : ¬ Split whole cb) :
    ∀ t ∈ (lexAll cfg fuel st inp cb bb).toks, ¬ Split whole t.cs ∧ ¬ Split whole t.ce := by
  induction fuel generalizing st inp cb bb with
  | zero => simp [lexAll]
  | succ fuel ih =>
    unfold lexAll
    cases hstep : PV.Lexer.step cfg st inp with
    | error e => simp
    | ok o =>
      simp only []
      have S := step_clear hs hstep
      have here : ∀ t ∈ o.toks.map (absTok inp cb bb), ¬ Split whole t.cs ∧ ¬ Split whole t.ce := by
        intro t ht
        obtain ⟨r, hr, rfl⟩ := List.mem_map.mp ht
        have := S.2 r hr
        exact ⟨abs_clear hw h0 this.1, abs_clear hw h0 this.2⟩
      by_cases hd : o.done = true
      · simpa only [hd, if_true] using here
      · simp only [hd]
        intro t ht
        rcases List.mem_append.mp ht with ht | ht
        · exact here t ht
        · refine ih o.st (inp.drop o.consumed) (cb + o.consumed) (bb + utf8Len (inp.take o.consumed)) ?_
            (abs_clear hw h0 S.1) t ht
          rw [← hw, List.drop_drop]

/-- **`CrlfClear` in character positions**: no token of the lexer model (any configuration with sane Unicode tables,
    any mode, any start offset) starts or ends between a CR and the LF that follows it -/
theorem lexed_chars_clear {cfg : Cfg} (hs : cfg.up.Sane) {mode : PV.Lexer.Mode} {k : Nat} {text : List Nat}
    {out : LexOut} (h : lex cfg mode k text = some out) :
    ∀ t ∈ out.toks, ¬ Split text t.cs ∧ ¬ Split text t.ce := by
  unfold lex at h
  cases hr : lexRaw cfg k text with
  | none => simp [hr] at h
  | some o =>
    simp [hr] at h; subst h
    intro t ht
    obtain ⟨t', ht', e1, e2, _, _⟩ := softKwGo_mem ht
    rw [← e1, ← e2]
    unfold lexRaw lexRawFuel at hr
    simp only [] at hr
    split at hr
    · rename_i rest
      have hr := finish_some hr
      subst hr
      exact lexAll_clear hs (65279 :: rest) _ _ rest 1 (k + 3) (by simp) (by simp [Split]) t' ht'
    · have hr := finish_some hr
      subst hr
      exact lexAll_clear hs text _ _ text 0 k (by simp) (not_split_zero _) t' ht'


/-! ### from character positions to byte offsets of the UTF-8 text -/

theorem encodeNat_head_lf {c : Nat} (h : (PV.utf8EncodeNat c).head? = some 10) : c = 10 := by
  unfold PV.utf8EncodeNat at h
  split at h
  · simpa using h
  · split at h
    · simp at h; omega
    · split at h <;> (simp at h; omega)

theorem encodeNat_last_cr {c : Nat} (h : (PV.utf8EncodeNat c).getLast? = some 13) : c = 13 := by
  unfold PV.utf8EncodeNat at h
  split at h
  · simpa using h
  · split at h
    · simp at h; omega
    · split at h <;> (simp at h; omega)

theorem getLast?_append_ne {a b : List Nat} (h : b ≠ []) : (a ++ b).getLast? = b.getLast? := by
  rw [List.getLast?_append, List.getLast?_eq_some_getLast h]; rfl

theorem encode_append (a b : List Nat) : PV.utf8Encode (a ++ b) = PV.utf8Encode a ++ PV.utf8Encode b := by
  simp [PV.utf8Encode, List.flatMap_append]

/-- a byte offset that is the UTF-8 position of character index `i` lies between a CR byte and an LF byte only if
    character index `i` lies between a CR and an LF -/
theorem split_of_insideCrlf {text : List Nat} {i : Nat}
    (h : insideCrlf (PV.utf8Encode text) (utf8Len (text.take i)) = true) : Split text i := by
  unfold insideCrlf at h
  simp only [Bool.and_eq_true, decide_eq_true_eq, beq_iff_eq] at h
  obtain ⟨⟨hpos, hcr⟩, hlf⟩ := h
  have hsplit : PV.utf8Encode text = PV.utf8Encode (text.take i) ++ PV.utf8Encode (text.drop i) := by
    rw [← encode_append, List.take_append_drop]
  have hlen : (PV.utf8Encode (text.take i)).length = utf8Len (text.take i) := (utf8Len_eq_encode _).symm
  -- the LF
  rw [hsplit, List.getElem?_append_right (by omega), hlen, Nat.sub_self] at hlf
  have hi : i < text.length := by
    rcases Nat.lt_or_ge i text.length with h | h
    · exact h
    · rw [List.drop_of_length_le h] at hlf; simp [PV.utf8Encode] at hlf
  have hd : text.drop i = text[i] :: text.drop (i + 1) := List.drop_eq_getElem_cons hi
  have hlf' : text[i] = 10 := by
    rw [hd] at hlf
    simp only [PV.utf8Encode, List.flatMap_cons] at hlf
    have hne := PV.C02.encodeNat_ne_nil text[i]
    apply encodeNat_head_lf
    cases he : PV.utf8EncodeNat text[i] with
    | nil => exact absurd he hne
    | cons y ys => rw [he] at hlf; simpa using hlf
  -- the CR
  have hi0 : 0 < i := by
    rcases Nat.eq_zero_or_pos i with h | h
    · subst h; simp [utf8Len] at hpos
    · exact h
  rw [hsplit, List.getElem?_append_left (by omega)] at hcr
  have ht : text.take i = text.take (i - 1) ++ [text[i - 1]] := by
    have := List.take_succ_eq_append_getElem (l := text) (i := i - 1) (by omega)
    rw [← this]; congr 1; omega
  have hcr' : text[i - 1] = 13 := by
    apply encodeNat_last_cr
    have hl : (PV.utf8Encode (text.take i)).getLast? = some 13 := by
      rw [List.getLast?_eq_getElem?, hlen]; exact hcr
    rw [ht, encode_append] at hl
    have hne := PV.C02.encodeNat_ne_nil text[i - 1]
    have e : PV.utf8Encode [text[i - 1]] = PV.utf8EncodeNat text[i - 1] := by simp [PV.utf8Encode]
    rw [e, getLast?_append_ne hne] at hl
    exact hl
  refine ⟨hi0, ?_, ?_⟩
  · rw [List.getElem?_eq_getElem (by omega), hcr']
  · rw [List.getElem?_eq_getElem hi, hlf']


/-! ### `LineStartsOk` (what the locator theorems need of valid UTF-8) holds for every encoded text -/

theorem encodeNat_high {c : Nat} (hc : 128 ≤ c) : ∀ b ∈ PV.utf8EncodeNat c, 128 ≤ b := by
  intro b hb
  unfold PV.utf8EncodeNat at hb
  split at hb
  · omega
  · split at hb
    · simp at hb; omega
    · split at hb <;> (simp at hb; omega)

/-- an offset of the UTF-8 encoding behind an ASCII byte is a character boundary -/
theorem onBoundary_after_ascii (text : List Nat) (q : Nat) (hq : 0 < q) (b : Nat)
    (hb : (PV.utf8Encode text)[q - 1]? = some b) (h128 : b < 128) : OnBoundary text q := by
  induction text generalizing q with
  | nil => simp [PV.utf8Encode] at hb
  | cons c cs ih =>
    have hE : PV.utf8Encode (c :: cs) = PV.utf8EncodeNat c ++ PV.utf8Encode cs := by simp [PV.utf8Encode]
    rw [hE] at hb
    by_cases hin : q - 1 < (PV.utf8EncodeNat c).length
    · rw [List.getElem?_append_left hin] at hb
      have hmem : b ∈ PV.utf8EncodeNat c := List.mem_of_getElem? hb
      have hc : c < 128 := by
        rcases Nat.lt_or_ge c 128 with h | h
        · exact h
        · have := encodeNat_high h b hmem; omega
      have he : PV.utf8EncodeNat c = [c] := by unfold PV.utf8EncodeNat; simp [hc]
      rw [he] at hin
      simp at hin
      refine ⟨1, by simp, ?_⟩
      simp [PV.utf8Encode, he]; omega
    · rw [List.getElem?_append_right (by omega)] at hb
      have e : q - 1 - (PV.utf8EncodeNat c).length = (q - (PV.utf8EncodeNat c).length) - 1 := by omega
      rw [e] at hb
      obtain ⟨i, hi, hq'⟩ := ih (q - (PV.utf8EncodeNat c).length) (by omega) hb
      refine ⟨i + 1, by simp; omega, ?_⟩
      simp only [List.take_succ_cons, PV.utf8Encode, List.flatMap_cons, List.length_append]
      simp only [PV.utf8Encode] at hq'
      omega

/-- the UTF-8 encoding of ANY list of scalar values puts every line start and the offset behind a leading BOM on a
    character boundary -/
theorem lineStartsOk_utf8Encode (text : List Nat) : LineStartsOk (PV.utf8Encode text) := by
  constructor
  · intro q hq
    have hb := breakEnds_bounds hq
    have hprev := breakEnds_prev hq
    simp only [Nat.sub_zero] at hprev
    have ho : OnBoundary text q := by
      rcases hprev with h | h
      · exact onBoundary_after_ascii text q (by omega) 10 h (by omega)
      · exact onBoundary_after_ascii text q (by omega) 13 h (by omega)
    exact c15_boundary_of_c02 (PV.C02.onBoundary_isBoundary text q ho) (by simpa using hb.2)
  · intro hbom
    obtain ⟨rest, rfl⟩ := startsWithBom_encode hbom
    have ho : OnBoundary (0xFEFF :: rest) 3 := ⟨1, by simp, by simp [PV.utf8Encode, PV.utf8EncodeNat]⟩
    refine c15_boundary_of_c02 (PV.C02.onBoundary_isBoundary _ 3 ho) ?_
    simp [PV.utf8Encode, PV.utf8EncodeNat]


/-! ### `CrlfClear` for the lexer model, and the capstone theorems without it -/

/-- **Part (b) of `SpansOk` for the lexer model — `CrlfClear` is a theorem.**  For every text, lexer configuration
    (`fullLexer` on or off, any sane Unicode tables) and mode: no token of `lex cfg mode 0 text` has a byte span that
    starts or ends between a CR byte and the LF byte that follows it in the UTF-8 text. -/
theorem lexed_crlfClear_spanned {cfg : Cfg} (hs : cfg.up.Sane) {mode : PV.Lexer.Mode} {text : List Nat}
    {out : LexOut} (h : lex cfg mode 0 text = some out) :
    ∀ t ∈ out.toks, insideCrlf (PV.utf8Encode text) t.bs = false ∧ insideCrlf (PV.utf8Encode text) t.be = false := by
  intro t ht
  have hb := tokens_on_boundaries hs h t ht
  have hc := lexed_chars_clear hs h t ht
  rw [hb.1, hb.2.1]
  unfold bytePos
  simp only [Nat.zero_add]
  constructor
  · cases hi : insideCrlf (PV.utf8Encode text) (utf8Len (text.take t.cs)) with
    | false => rfl
    | true => exact absurd (split_of_insideCrlf hi) hc.1
  · cases hi : insideCrlf (PV.utf8Encode text) (utf8Len (text.take t.ce)) with
    | false => rfl
    | true => exact absurd (split_of_insideCrlf hi) hc.2

/-- the same for what the parser is fed: any sub-sequence (by spans) of the token stream is `CrlfClear` -/
theorem lexed_crlfClear {cfg : Cfg} (hs : cfg.up.Sane) {lmode : PV.Lexer.Mode} {text : List Nat}
    {out : LexOut} (h : lex cfg lmode 0 text = some out) (toks : List RPTok)
    (hsub : List.Sublist (toks.map fun t => (t.s, t.e)) (out.toks.map fun t => (t.bs, t.be))) :
    CrlfClear (PV.utf8Encode text) toks := by
  intro t ht
  have hm : (t.s, t.e) ∈ out.toks.map fun t => (t.bs, t.be) := hsub.subset (List.mem_map.mpr ⟨t, ht, rfl⟩)
  obtain ⟨u, hu, he⟩ := List.mem_map.mp hm
  simp only [Prod.mk.injEq] at he
  have := lexed_crlfClear_spanned hs h u hu
  rw [← he.1, ← he.2]
  exact this

/-- **`SpansOk` for the tokens of the lexer model, no hypothesis left**: any sub-sequence (by spans) of the token stream
    of `lex cfg lmode 0 text` tiles the UTF-8 text and starts / ends only at positions the `LinearLocator` accepts. -/
theorem lexed_spansOk' {cfg : Cfg} (hs : cfg.up.Sane) {lmode : PV.Lexer.Mode} {text : List Nat}
    {out : LexOut} (h : lex cfg lmode 0 text = some out) (toks : List RPTok)
    (hsub : List.Sublist (toks.map fun t => (t.s, t.e)) (out.toks.map fun t => (t.bs, t.be))) :
    TiledP (PV.utf8Encode text) toks ∧ SpansOk (PV.utf8Encode text) toks :=
  lexed_spansOk_of_crlfClear hs h toks hsub (lexed_crlfClear hs h toks hsub)

/-- **Parser-produced trees of lexed texts are `SrcOrdered`**: lexer model → any sub-sequence of its tokens → parser
    model; the tree (without f-string pieces) is ordered in source order with every offset in the locator's domain. -/
theorem lexed_parsed_tree_srcOrdered' (ar : Bool) {cfg : Cfg} (hs : cfg.up.Sane) {lmode : PV.Lexer.Mode}
    {text : List Nat} {out : LexOut} (h : lex cfg lmode 0 text = some out) (toks : List RPTok)
    (hsub : List.Sublist (toks.map fun t => (t.s, t.e)) (out.toks.map fun t => (t.bs, t.be)))
    {mode : PV.Prog.Mode} {m : PV.C02.RMod} (hp : PV.C02.parseRProgram mode toks = some m)
    (hpl : PV.C02.plainM m = true) (hn : NotBomTokenless ar (PV.utf8Encode text) toks) :
    SrcOrdered realCfg (PV.utf8Encode text) (toTree ar m) :=
  have ⟨ht, hk⟩ := lexed_spansOk' hs h toks hsub
  parsed_tree_srcOrdered' ar ht hk hp hpl hn

/-- **First sentence of the property, lexer model → parser model → fold model, WITHOUT any hypothesis about offsets.**
    For every text: lex it (model of lexer.rs, either configuration, sane Unicode tables), hand any sub-sequence of the
    token stream to the program-parser model; if it accepts with a tree without f-string pieces, then folding that tree
    with the `LinearLocator` (either build flavour, either feature set) does not panic and stores the reference
    (row, column) in every node.  Nothing is assumed of the text (`LineStartsOk` holds for every encoded text:
    `lineStartsOk_utf8Encode`); excluded: f-strings (`plainM`) and the token-less BOM source with
    `all-nodes-with-ranges` (listed finding). -/
theorem lexed_parsed_tree_locations_eq_spec' (ar dbg : Bool) {cfg : Cfg} (hs : cfg.up.Sane) {lmode : PV.Lexer.Mode}
    {text : List Nat} {out : LexOut} (h : lex cfg lmode 0 text = some out) (toks : List RPTok)
    (hsub : List.Sublist (toks.map fun t => (t.s, t.e)) (out.toks.map fun t => (t.bs, t.be)))
    {mode : PV.Prog.Mode} {m : PV.C02.RMod} (hp : PV.C02.parseRProgram mode toks = some m)
    (hpl : PV.C02.plainM m = true) (hn : NotBomTokenless ar (PV.utf8Encode text) toks) :
    foldLocated realCfg (.linear dbg) (PV.utf8Encode text) (toTree ar m) =
      some (locMap (rowCol (PV.utf8Encode text)) (toTree ar m)) :=
  lexed_parsed_tree_locations_eq_spec ar dbg hs h toks hsub (lexed_crlfClear hs h toks hsub)
    (lineStartsOk_utf8Encode text) hp hpl hn

/-- **Second sentence**, same chain: both locators return the same located tree. -/
theorem lexed_parsed_tree_linear_eq_random' (ar dbg : Bool) {cfg : Cfg} (hs : cfg.up.Sane) {lmode : PV.Lexer.Mode}
    {text : List Nat} {out : LexOut} (h : lex cfg lmode 0 text = some out) (toks : List RPTok)
    (hsub : List.Sublist (toks.map fun t => (t.s, t.e)) (out.toks.map fun t => (t.bs, t.be)))
    {mode : PV.Prog.Mode} {m : PV.C02.RMod} (hp : PV.C02.parseRProgram mode toks = some m)
    (hpl : PV.C02.plainM m = true) (hn : NotBomTokenless ar (PV.utf8Encode text) toks) :
    foldLocated realCfg (.linear dbg) (PV.utf8Encode text) (toTree ar m) =
      foldLocated realCfg .random (PV.utf8Encode text) (toTree ar m) :=
  lexed_parsed_tree_linear_eq_random ar dbg hs h toks hsub (lexed_crlfClear hs h toks hsub)
    (lineStartsOk_utf8Encode text) hp hpl hn


/-! ### non-vacuity

  `x = '''a` CR LF `b''' \` CR LF ` + 1` CR LF `y` CR `z = 'é'` CR LF: CR LF line ends, a CR LF inside a triple-quoted
  string, a CR LF behind a backslash, a lone CR as a line end, a two-byte character in front of the last CR LF (byte
  offsets ≠ character indices).  Four positions of the text lie between a CR and its LF; no token span touches them. -/

def crlfText : List Nat :=
  [120, 32, 61, 32, 39, 39, 39, 97, 13, 10, 98, 39, 39, 39, 32, 92, 13, 10, 32, 43, 32, 49, 13, 10, 121, 13, 122, 32, 61,
   32, 39, 233, 39, 13, 10]

def crlfSpans : List (Nat × Nat) :=
  [(0, 1), (2, 3), (4, 14), (19, 20), (21, 22), (22, 24), (24, 25), (25, 26), (26, 27), (28, 29), (30, 34), (34, 36)]

example : (lex ⟨false, asciiParams⟩ .module 0 crlfText).map (fun o => o.toks.map fun t => (t.bs, t.be)) = some crlfSpans := by
  decide +kernel
example : (lex ⟨true, asciiParams⟩ .module 0 crlfText).map (fun o => o.toks.map fun t => (t.bs, t.be)) = some crlfSpans := by
  decide +kernel
example : (List.range 37).filter (fun p => decide (Split crlfText p)) = [9, 17, 23, 34] := by decide +kernel
example : (List.range 37).filter (fun p => insideCrlf (PV.utf8Encode crlfText) p) = [9, 17, 23, 35] := by decide +kernel

/-- the same tokens as the parser sees them (values as `pvh_c01 rtoks` delivers them) -/
def crlfToks : List RPTok :=
  [⟨.e (.name [120]), 0, 1⟩, ⟨.e (.op .assign), 2, 3⟩, ⟨.e (.str [97, 10, 98] false), 4, 14⟩, ⟨.e (.op .plus), 19, 20⟩,
   ⟨.e (.int 1), 21, 22⟩, ⟨.newline, 22, 24⟩, ⟨.e (.name [121]), 24, 25⟩, ⟨.newline, 25, 26⟩, ⟨.e (.name [122]), 26, 27⟩,
   ⟨.e (.op .assign), 28, 29⟩, ⟨.e (.str [233] false), 30, 34⟩, ⟨.newline, 34, 36⟩]

example : CrlfClear (PV.utf8Encode crlfText) crlfToks := by decide +kernel
/-- the predicate is not trivially true: a NEWLINE that covered only the CR of the first CR LF would not be clear -/
example : ¬ CrlfClear (PV.utf8Encode crlfText) [⟨.newline, 22, 23⟩] := by decide +kernel
/-- `lineStartsOk_utf8Encode` speaks about real line starts: `crlfText` has five, the last behind the two-byte `é` -/
example : breakEnds 0 (PV.utf8Encode crlfText) = [10, 18, 24, 26, 36] := by decide +kernel

/-- the capstone theorems apply to `crlfText`: every hypothesis holds, nothing about offsets is assumed -/
example : ∀ out, lex ⟨false, asciiParams⟩ .module 0 crlfText = some out →
    ∀ m, PV.C02.parseRProgram .module crlfToks = some m →
    SpansOk (PV.utf8Encode crlfText) crlfToks ∧
    foldLocated realCfg (.linear true) (PV.utf8Encode crlfText) (toTree false m) =
      some (locMap (rowCol (PV.utf8Encode crlfText)) (toTree false m)) ∧
    foldLocated realCfg (.linear false) (PV.utf8Encode crlfText) (toTree true m) =
      foldLocated realCfg .random (PV.utf8Encode crlfText) (toTree true m) := by
  intro out h m hm
  have hsp : (lex ⟨false, asciiParams⟩ .module 0 crlfText).map (fun o => o.toks.map fun t => (t.bs, t.be)) =
      some crlfSpans := by decide +kernel
  rw [h] at hsp
  simp only [Option.map_some, Option.some.injEq] at hsp
  have hsub : List.Sublist (crlfToks.map fun t => (t.s, t.e)) (out.toks.map fun t => (t.bs, t.be)) := by
    rw [hsp]; decide
  have h1 : (PV.C02.parseRProgram .module crlfToks).map PV.C02.plainM = some true := by decide +kernel
  simp only [hm, Option.map_some, Option.some.injEq] at h1
  have hn : ∀ ar, NotBomTokenless ar (PV.utf8Encode crlfText) crlfToks := fun _ => Or.inl (by simp [crlfToks])
  exact ⟨(lexed_spansOk' asciiParams_sane h crlfToks hsub).2,
    lexed_parsed_tree_locations_eq_spec' false true asciiParams_sane h crlfToks hsub hm h1 (hn _),
    lexed_parsed_tree_linear_eq_random' true false asciiParams_sane h crlfToks hsub hm h1 (hn _)⟩
example : (PV.C02.parseRProgram .module crlfToks).isSome = true := by decide +kernel

/-! the full lexer on `if x:` CR LF `  # c` CR LF `  (y,` CR LF ` # d` CR LF ` z)` CR LF CR LF: comments, non-logical
    newlines (inside the bracket and on the empty last line), INDENT / DEDENT — 18 tokens, 6 CR LF pairs -/
def crlfText2 : List Nat :=
  [105, 102, 32, 120, 58, 13, 10, 32, 32, 35, 32, 99, 13, 10, 32, 32, 40, 121, 44, 13, 10, 32, 35, 32, 100, 13, 10, 32,
   122, 41, 13, 10, 13, 10]
example : (lex ⟨true, asciiParams⟩ .module 0 crlfText2).map (fun o => o.toks.map fun t => (t.bs, t.be)) =
    some [(0, 2), (3, 4), (4, 5), (5, 7), (9, 12), (12, 14), (14, 16), (16, 17), (17, 18), (18, 19), (19, 21), (22, 25),
      (25, 27), (28, 29), (29, 30), (30, 32), (32, 34), (34, 34)] := by decide +kernel
example : (List.range 35).filter (fun p => decide (Split crlfText2 p)) = [6, 13, 20, 26, 31, 33] := by decide +kernel

end PV.C13
