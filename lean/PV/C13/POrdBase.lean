import PV.C13.POrdSpec
/-
  C13 — common base of the two inductions that establish `ordE` / `ordM` for the output of the ranged parser models
  (`POrdExpr.lean`: the 43 functions of `PV.C02.RParse`; `POrdProg.lean`: the program parser `PV.C02.RProg`):
  what a C02 window says in numbers (`win_rg`), chains of items in consecutive windows (`chain_seq`), C02's window
  specifications as ∀-statements usable by `fwd` (`c02_*`), the step tactic `ostep`, and a few node lemmas.
-/
set_option linter.defProp false
set_option linter.unusedSimpArgs false
set_option linter.unusedVariables false
namespace PV.C13
open PV.Expr PV.C11
open PV.C02

variable {src : List Nat} {σ : SpanTab} {N : Nat}

/-- what a window says about a plain node: numbers only -/
theorem win_rg {j k : Nat} {e : RExpr} (h : Win src σ j k e) (hp : plain e = true) :
    S σ j ≤ e.range.1 ∧ e.range.1 ≤ e.range.2 ∧ e.range.2 ≤ E σ k := by
  obtain ⟨g1, g2, g3, _⟩ := h.2 hp
  have := rgOk_le (show rgOk src (e.range.1, e.range.2) from g1)
  exact ⟨g2, this, g3⟩

theorem chain_cons (a : Nat) (s : Rg) (ss : List Rg) (b : Nat) :
    chain a (s :: ss) b = (decide (a ≤ s.1) && chain s.2 ss b) := rfl
theorem chain_nil (a b : Nat) : chain a [] b = decide (a ≤ b) := rfl

/-- items in consecutive windows: the chain of their ranges -/
theorem chain_seq : ∀ {es : List RExpr} {lo hi a b : Nat}, SeqG (RS src) lo hi es → plainL es = true → a ≤ lo → hi ≤ b → lo ≤ hi →
    chain a (es.map RExpr.range) b = true
  | [], lo, hi, a, b, _, _, h1, h2, h3 => by simp [chain]; omega
  | e :: es, lo, hi, a, b, ⟨m, g1, g2, g3⟩, hp, h1, h2, h3 => by
    simp only [plainL, Bool.and_eq_true] at hp
    obtain ⟨r1, r2, r3, _⟩ := g1.2 hp.1
    have hle := rgOk_le (show rgOk src (e.range.1, e.range.2) from r1)
    simp only [List.map_cons, chain, Bool.and_eq_true, decide_eq_true_eq]
    refine ⟨by omega, chain_seq g3 hp.2 r3 h2 g2⟩

section idx
variable (T : TiledTab src σ N)
include T

theorem ord_ifExp {j k jt kt jb kb jo ko : Nat} {t b o : RExpr}
    (ht : Win src σ jt kt t) (hb : Win src σ jb kb b) (ho : Win src σ jo ko o)
    (pt : plain t = true) (pb : plain b = true) (po : plain o = true)
    (ot : ordE t = true) (ob : ordE b = true) (oo : ordE o = true)
    (c0 : 1 ≤ jo) (c1 : jb ≤ j) (c1' : j ≤ N) (c2 : jt < kb) (c2' : kb ≤ N) (c3 : jo < kt) (c3' : kt ≤ N) (c4 : k ≤ ko) (c5 : 1 ≤ k) (c6 : ko ≤ N)
    (c7 : 1 ≤ jb) (c8 : 1 ≤ jt) :
    ordE (.ifExp (S σ j, E σ k) t b o) = true := by
  obtain ⟨t1, t2, t3⟩ := win_rg ht pt
  obtain ⟨b1, b2, b3⟩ := win_rg hb pb
  obtain ⟨o1, o2, o3⟩ := win_rg ho po
  have e1 := T.SS c7 c1 c1'
  have e2 := T.ES c8 c2 c2'
  have e3 := T.ES c0 c3 c3'
  have e4 := T.EE c5 c4 c6
  simp only [ordE, chain, Bool.and_eq_true, decide_eq_true_eq, ot, ob, oo, and_true]
  simp only [S, E] at *
  omega

end idx

grind_pattern ord_ifExp => TiledTab src σ N, Win src σ jt kt t, Win src σ jb kb b, Win src σ jo ko o,
  ordE (RExpr.ifExp (S σ j, E σ k) t b o)

def c02_test (T : TiledTab src σ N) (f : Nat) := (soundAt T f).test
def c02_lambda (T : TiledTab src σ N) (f : Nat) := (soundAt T f).lambda
def c02_params (T : TiledTab src σ N) (f : Nat) := (soundAt T f).params
def c02_namedTest (T : TiledTab src σ N) (f : Nat) := (soundAt T f).namedTest
def c02_starOrNamed (T : TiledTab src σ N) (f : Nat) := (soundAt T f).starOrNamed
def c02_testOrStar (T : TiledTab src σ N) (f : Nat) := (soundAt T f).testOrStar
def c02_orTest (T : TiledTab src σ N) (f : Nat) := (soundAt T f).orTest
def c02_orRest (T : TiledTab src σ N) (f : Nat) := (soundAt T f).orRest
def c02_andTest (T : TiledTab src σ N) (f : Nat) := (soundAt T f).andTest
def c02_andRest (T : TiledTab src σ N) (f : Nat) := (soundAt T f).andRest
def c02_notTest (T : TiledTab src σ N) (f : Nat) := (soundAt T f).notTest
def c02_cmp (T : TiledTab src σ N) (f : Nat) := (soundAt T f).cmp
def c02_cmpRest (T : TiledTab src σ N) (f : Nat) := (soundAt T f).cmpRest
def c02_bin (T : TiledTab src σ N) (f : Nat) := (soundAt T f).bin
def c02_binLoop (T : TiledTab src σ N) (f : Nat) := (soundAt T f).binLoop
def c02_factor (T : TiledTab src σ N) (f : Nat) := (soundAt T f).factor
def c02_power (T : TiledTab src σ N) (f : Nat) := (soundAt T f).power
def c02_atomExpr (T : TiledTab src σ N) (f : Nat) := (soundAt T f).atomExpr
def c02_atomExpr2 (T : TiledTab src σ N) (f : Nat) := (soundAt T f).atomExpr2
def c02_trailers (T : TiledTab src σ N) (f : Nat) := (soundAt T f).trailers
def c02_args (T : TiledTab src σ N) (f : Nat) := (soundAt T f).args
def c02_arg (T : TiledTab src σ N) (f : Nat) := (soundAt T f).arg
def c02_args0 (T : TiledTab src σ N) (f : Nat) := (soundAt T f).args0
def c02_subscriptList (T : TiledTab src σ N) (f : Nat) := (soundAt T f).subscriptList
def c02_subscripts (T : TiledTab src σ N) (f : Nat) := (soundAt T f).subscripts
def c02_subscript (T : TiledTab src σ N) (f : Nat) := (soundAt T f).subscript
def c02_sliceRest (T : TiledTab src σ N) (f : Nat) := (soundAt T f).sliceRest
def c02_atom (T : TiledTab src σ N) (f : Nat) := (soundAt T f).atom
def c02_listAtom (T : TiledTab src σ N) (f : Nat) := (soundAt T f).listAtom
def c02_parenAtom (T : TiledTab src σ N) (f : Nat) := (soundAt T f).parenAtom
def c02_yieldAtom (T : TiledTab src σ N) (f : Nat) := (soundAt T f).yieldAtom
def c02_braceAtom (T : TiledTab src σ N) (f : Nat) := (soundAt T f).braceAtom
def c02_braceFirst (T : TiledTab src σ N) (f : Nat) := (soundAt T f).braceFirst
def c02_elems (T : TiledTab src σ N) (f : Nat) := (soundAt T f).elems
def c02_dictRest (T : TiledTab src σ N) (f : Nat) := (soundAt T f).dictRest
def c02_compFor (T : TiledTab src σ N) (f : Nat) := (soundAt T f).compFor
def c02_compIfs (T : TiledTab src σ N) (f : Nat) := (soundAt T f).compIfs
def c02_exprOrStar (T : TiledTab src σ N) (f : Nat) := (soundAt T f).exprOrStar
def c02_targetList (T : TiledTab src σ N) (f : Nat) := (soundAt T f).targetList
def c02_targetRest (T : TiledTab src σ N) (f : Nat) := (soundAt T f).targetRest
def c02_testList (T : TiledTab src σ N) (f : Nat) := (soundAt T f).testList
def c02_testListRest (T : TiledTab src σ N) (f : Nat) := (soundAt T f).testListRest
def c02_strings (T : TiledTab src σ N) (f : Nat) := (soundAt T f).strings

def BelowO (src : List Nat) (σ : SpanTab) (N : Nat) (n : Nat) : Prop := ∀ f, n = f + 1 → OrdAt src σ N f

/-- boolOp / list-like nodes: children in consecutive windows -/
theorem ord_boolOp (T : TiledTab src σ N) {j k jl kl : Nat} {op} {es : List RExpr} (hs : SeqI src σ jl kl es) (hp : plainL es = true)
    (ho : ordL es = true) (c1 : jl ≤ j) (c2 : j ≤ N) (c3 : 1 ≤ jl) (c4 : k ≤ kl) (c5 : 1 ≤ k) (c6 : kl ≤ N) (c7 : kl ≤ jl) :
    ordE (.boolOp (S σ j, E σ k) op es) = true := by
  have e1 := T.SS c3 c1 c2
  have e4 := T.EE c5 c4 c6
  have e5 := T.SE' (j := jl) (k := kl) (by omega) c7 (by omega)
  simp only [ordE, Bool.and_eq_true, ho, and_true]
  exact chain_seq hs hp e1 e4 e5
grind_pattern ord_boolOp => TiledTab src σ N, SeqI src σ jl kl es, ordE (RExpr.boolOp (S σ j, E σ k) op es)

theorem ord_binOp (T : TiledTab src σ N) {j k jl kl jr kr : Nat} {l r : RExpr} {op}
    (hl : Win src σ jl kl l) (hr : Win src σ jr kr r) (pl : plain l = true) (pr : plain r = true)
    (ol : ordE l = true) (or_ : ordE r = true)
    (c1 : jl ≤ j) (c1' : j ≤ N) (c7 : 1 ≤ jl) (c2 : jr < kl) (c2' : kl ≤ N) (c8 : 1 ≤ jr) (c4 : k ≤ kr) (c5 : 1 ≤ k) (c6 : kr ≤ N) :
    ordE (.binOp (S σ j, E σ k) l op r) = true := by
  obtain ⟨l1, l2, l3⟩ := win_rg hl pl
  obtain ⟨r1, r2, r3⟩ := win_rg hr pr
  have e1 := T.SS c7 c1 c1'
  have e2 := T.ES c8 c2 c2'
  have e4 := T.EE c5 c4 c6
  simp only [ordE, chain, Bool.and_eq_true, decide_eq_true_eq, ol, or_, and_true]
  simp only [S, E] at *
  omega
grind_pattern ord_binOp => TiledTab src σ N, Win src σ jl kl l, Win src σ jr kr r, ordE (RExpr.binOp (S σ j, E σ k) l op r)

@[grind =] theorem plainL_cons' (e : RExpr) (es : List RExpr) : plainL (e :: es) = (plain e && plainL es) := rfl
@[grind =] theorem plainL_nil' : plainL [] = true := rfl
@[grind =] theorem ordL_cons' (e : RExpr) (es : List RExpr) : ordL (e :: es) = (ordE e && ordL es) := rfl
@[grind =] theorem ordL_nil' : ordL [] = true := rfl
@[grind =] theorem plain_ifExp' (rg t b o) : plain (.ifExp rg t b o) = (plain t && plain b && plain o) := rfl
@[grind =] theorem plain_boolOp' (rg op vs) : plain (.boolOp rg op vs) = plainL vs := rfl
@[grind =] theorem plain_binOp' (rg l op r) : plain (.binOp rg l op r) = (plain l && plain r) := rfl

open Lean in
macro "ostep" T:ident ih:ident "[" cs:ident,* "]" "[" fs:ident,* "]" : tactic => do
  let mut round : Array (TSyntax `tactic) := #[]
  for c in cs.getElems do
    let p := mkIdent (`PV.C13 ++ (Name.mkSimple ("c02_" ++ c.getId.toString)))
    round := round.push (← `(tactic| fwd ($p:ident $T))
)
  for f in fs.getElems do
    let p := mkIdent (`PV.C13.OrdAt ++ f.getId)
    round := round.push (← `(tactic| fwd ($p:ident ($ih _ rfl))))
  `(tactic| (
    all_goals intro h hp
    all_goals try simp (config := { zetaDelta := true }) only [] at *
    all_goals try simp only [Option.some.injEq, Prod.mk.injEq, reduceCtorEq, L, R, P, List.length_cons, false_imp_iff,
      imp_self] at *
    all_goals (
      have hS : ∀ k, (σ k).1 = S σ k := fun _ => rfl
      have hE : ∀ k, (σ k).2 = E σ k := fun _ => rfl
      have hSp : ∀ k, σ k = Sp σ k := fun _ => rfl
      try simp only [hS, hE] at *
      try simp only [hSp] at *
      clear hS hE hSp
      fwd @binOpAt_len; fwd @unaryOpAt_len; fwd @cmpOpAt_len
      $[$round]*
      try simp only [List.length_cons] at *
      $[$round]*
      try simp only [List.length_cons] at *
      $[$round]*
      try simp only [List.length_cons] at *
      grind [RExpr.range])))

end PV.C13
