import PV.C13.SpansThm
import PV.C05.Thm
/-
  C13 — `SpansOk` for the tokens of the lexer MODEL `PV.Lexer.lex` (shared with C05 / C09 / C10):
  (a) character boundaries: C05 (`tokens_on_boundaries`, via `PV.C02.tiledP_of_lexer`);
  (c) behind a leading BOM every token starts at byte 3 or later (`Lexer::new` skips the BOM before the first token is
      produced): `lexed_initCursor_le`, proved here;
  (b) "no token starts or ends between a CR and its LF" is the hypothesis `CrlfClear` HERE; it is proved of the lexer model
      in CrlfStep.lean / CrlfClear.lean (`lexed_crlfClear`), where the primed theorems `lexed_parsed_tree_*'` drop it.
  `lexed_parsed_tree_*`: the two sentences of the property for `lex` → sub-sequence → `parseRProgram` → fold, with
  `CrlfClear` as the only hypothesis about offsets.
-/
set_option linter.unusedVariables false
namespace PV.C13
open PV.C15 PV.C13.Spec PV.Lexer PV.C05
open PV.C02 (RPTok TiledP)

theorem startsWithBom_shape (l : List Nat) (h : startsWithBom l = true) : ∃ r, l = 0xEF :: 0xBB :: 0xBF :: r := by
  unfold startsWithBom at h
  split at h
  · exact ⟨_, rfl⟩
  · cases h

/-- the UTF-8 text starts with the bytes EF BB BF only if its first character is U+FEFF -/
theorem startsWithBom_encode {text : List Nat} (h : startsWithBom (PV.utf8Encode text) = true) :
    ∃ rest, text = 0xFEFF :: rest := by
  cases text with
  | nil => simp [PV.utf8Encode, startsWithBom] at h
  | cons c rest =>
    refine ⟨rest, ?_⟩
    simp only [PV.utf8Encode, List.flatMap_cons] at h
    generalize List.flatMap PV.utf8EncodeNat rest = tl at h
    obtain ⟨r, hr⟩ := startsWithBom_shape _ h
    unfold PV.utf8EncodeNat at hr
    congr 1
    split at hr
    · simp at hr; omega
    · split at hr
      · simp at hr; omega
      · split at hr
        · simp at hr; omega
        · simp at hr; omega

/-- behind a leading U+FEFF every token of the lexer model starts at character 1 / byte 3 or later -/
theorem lexed_behind_bom {cfg : Cfg} (hs : cfg.up.Sane) {mode : PV.Lexer.Mode} {rest : List Nat} {out : LexOut}
    (h : lex cfg mode 0 (0xFEFF :: rest) = some out) : ∀ t ∈ out.toks, 3 ≤ t.bs := by
  have hb := tokens_on_boundaries hs h
  unfold lex at h
  cases hr : lexRaw cfg 0 (0xFEFF :: rest) with
  | none => simp [hr] at h
  | some o =>
    simp [hr] at h; subst h
    intro t ht
    obtain ⟨t', ht', e1, _, _, _⟩ := softKwGo_mem ht
    unfold lexRaw lexRawFuel at hr
    simp only [] at hr
    have hr := finish_some hr
    subst hr
    have C := (lexAll_chain hs ((65279 :: rest).length + 1) .init rest 1 (0 + 3) stInv_init).mem ht'
    have h1 : 1 ≤ t.cs := by omega
    rw [(hb t ht).1]
    unfold bytePos
    have := utf8Len_take_mono (0xFEFF :: rest) h1
    have e : utf8Len ((0xFEFF :: rest).take 1) = 3 := by simp [utf8Len, csize]
    omega

/-- **Part (c) of `SpansOk` for the lexer model**: no token of `lex … 0 text` starts inside a leading BOM of the UTF-8
    text -/
theorem lexed_initCursor_le {cfg : Cfg} (hs : cfg.up.Sane) {mode : PV.Lexer.Mode} {text : List Nat} {out : LexOut}
    (h : lex cfg mode 0 text = some out) : ∀ t ∈ out.toks, initCursor (PV.utf8Encode text) ≤ t.bs := by
  intro t ht
  unfold initCursor
  split
  · rename_i hbom
    obtain ⟨rest, rfl⟩ := startsWithBom_encode hbom
    exact lexed_behind_bom hs h t ht
  · exact Nat.zero_le _

/-- part (b) of `SpansOk` alone: no token starts or ends between a CR and its LF -/
def CrlfClear (src : List Nat) (toks : List RPTok) : Prop :=
  ∀ t ∈ toks, insideCrlf src t.s = false ∧ insideCrlf src t.e = false

instance (src : List Nat) (toks : List RPTok) : Decidable (CrlfClear src toks) := by unfold CrlfClear; exact inferInstance

/-- **`SpansOk` for the tokens of the lexer model**, from `CrlfClear` alone: any sub-sequence (by spans) of the token
    stream of `lex cfg lmode 0 text` tiles the UTF-8 text (C05), starts behind a leading BOM, and — if no span starts or
    ends between a CR and its LF — is `SpansOk`. -/
theorem lexed_spansOk_of_crlfClear {cfg : Cfg} (hs : cfg.up.Sane) {lmode : PV.Lexer.Mode} {text : List Nat}
    {out : LexOut} (h : lex cfg lmode 0 text = some out) (toks : List RPTok)
    (hsub : List.Sublist (toks.map fun t => (t.s, t.e)) (out.toks.map fun t => (t.bs, t.be)))
    (hc : CrlfClear (PV.utf8Encode text) toks) :
    TiledP (PV.utf8Encode text) toks ∧ SpansOk (PV.utf8Encode text) toks := by
  refine lexed_spansOk hs h toks hsub ?_
  intro t ht
  have hm : (t.s, t.e) ∈ out.toks.map fun t => (t.bs, t.be) := hsub.subset (List.mem_map.mpr ⟨t, ht, rfl⟩)
  obtain ⟨u, hu, he⟩ := List.mem_map.mp hm
  have := lexed_initCursor_le hs h u hu
  simp only [Prod.mk.injEq] at he
  exact ⟨(hc t ht).1, (hc t ht).2, by omega⟩

/-- **First sentence of the property, lexer model → parser model → fold model.**  For every text: lex it (model of
    lexer.rs, any configuration with sane Unicode tables), hand any sub-sequence of the token stream to the program-parser
    model; if it accepts with a tree without f-string pieces, then folding that tree with the `LinearLocator` (either
    build flavour, either feature set) does not panic and stores the reference (row, column) in every node.  Hypotheses
    about offsets: `CrlfClear` (b) and valid UTF-8 (`LineStartsOk`); excluded: the token-less BOM source with
    `all-nodes-with-ranges` (listed finding). -/
theorem lexed_parsed_tree_locations_eq_spec (ar dbg : Bool) {cfg : Cfg} (hs : cfg.up.Sane) {lmode : PV.Lexer.Mode}
    {text : List Nat} {out : LexOut} (h : lex cfg lmode 0 text = some out) (toks : List RPTok)
    (hsub : List.Sublist (toks.map fun t => (t.s, t.e)) (out.toks.map fun t => (t.bs, t.be)))
    (hc : CrlfClear (PV.utf8Encode text) toks) (hl : LineStartsOk (PV.utf8Encode text))
    {mode : PV.Prog.Mode} {m : PV.C02.RMod} (hp : PV.C02.parseRProgram mode toks = some m)
    (hpl : PV.C02.plainM m = true) (hn : NotBomTokenless ar (PV.utf8Encode text) toks) :
    foldLocated realCfg (.linear dbg) (PV.utf8Encode text) (toTree ar m) =
      some (locMap (rowCol (PV.utf8Encode text)) (toTree ar m)) :=
  have ⟨ht, hk⟩ := lexed_spansOk_of_crlfClear hs h toks hsub hc
  parsed_tree_locations_eq_spec' ar dbg hl ht hk hp hpl hn

/-- **Second sentence**, same chain: both locators return the same located tree. -/
theorem lexed_parsed_tree_linear_eq_random (ar dbg : Bool) {cfg : Cfg} (hs : cfg.up.Sane) {lmode : PV.Lexer.Mode}
    {text : List Nat} {out : LexOut} (h : lex cfg lmode 0 text = some out) (toks : List RPTok)
    (hsub : List.Sublist (toks.map fun t => (t.s, t.e)) (out.toks.map fun t => (t.bs, t.be)))
    (hc : CrlfClear (PV.utf8Encode text) toks) (hl : LineStartsOk (PV.utf8Encode text))
    {mode : PV.Prog.Mode} {m : PV.C02.RMod} (hp : PV.C02.parseRProgram mode toks = some m)
    (hpl : PV.C02.plainM m = true) (hn : NotBomTokenless ar (PV.utf8Encode text) toks) :
    foldLocated realCfg (.linear dbg) (PV.utf8Encode text) (toTree ar m) =
      foldLocated realCfg .random (PV.utf8Encode text) (toTree ar m) :=
  have ⟨ht, hk⟩ := lexed_spansOk_of_crlfClear hs h toks hsub hc
  parsed_tree_linear_eq_random' ar dbg hl ht hk hp hpl hn

/-! non-vacuity: the lexer model on BOM `x = 1` CR LF `y` LF (ASCII tables): 6 tokens, the first starts at byte 3, the
    CR LF is ONE Newline token 8..10; all spans are `CrlfClear` -/
def bomCrlfText : List Nat := [0xFEFF, 120, 32, 61, 32, 49, 13, 10, 121, 10]
example : (lex ⟨false, asciiParams⟩ .module 0 bomCrlfText).map (fun o => o.toks.map fun t => (t.bs, t.be)) =
    some [(3, 4), (5, 6), (7, 8), (8, 10), (10, 11), (11, 12)] := by decide +kernel
example : initCursor (PV.utf8Encode bomCrlfText) = 3 := by decide
example : CrlfClear (PV.utf8Encode bomCrlfText)
    [⟨.e (.name [120]), 3, 4⟩, ⟨.e (.op .assign), 5, 6⟩, ⟨.e (.int 1), 7, 8⟩, ⟨.newline, 8, 10⟩, ⟨.e (.name [121]), 10, 11⟩,
     ⟨.newline, 11, 12⟩] := by decide +kernel

end PV.C13
