import PV.C15.Model
/-
  C13 — executable model of the incremental locator in
    core/src/source_code.rs   (LinearLocatorState::init / new_line_start,
                               LinearLocator::locate / locate_only / locate_inner / locate_error,
                               RandomLocator::locate / locate_error)

  The indexed locator (`RandomLocator`) is `LineIndex::source_location`, already modelled as
  `PV.C15.sourceLocation`; it is reused, not re-modelled.

  Text is its UTF-8 byte list (`List Nat`, every element < 256): every slice in the Rust code is a
  byte-offset slice of `&str`, `memrchr2`/`find_newline`/`is_ascii` work on bytes, and characters are
  only counted through `chars().count()` (= number of non-continuation bytes on valid UTF-8).

  Every Rust panic is `none`:
    * `debug_assert!(cursor <= offset)` in `locate`                          (debug builds)
    * the `#[cfg(debug_assertions)] assert_eq!(location, source_code.source_location(offset))`
      self-check at the end of `locate_inner`                                (debug builds)
    * `offset - line_start` on `TextSize` (`u32` subtraction: overflow panic with overflow checks,
      wrap-around without)
    * `&source[a..b]` with `a > b`, `b > len`, or an end off a char boundary.
  `dbg = true` is a build with `debug_assertions` and `overflow-checks` (the correspondence harness
  is built that way); `dbg = false` is a release build.

  Sizes are `Nat`; the model assumes `source.len() < 2^32` (asserted by `LineIndex::from_source_text`)
  so that `saturating_add` on rows/columns never saturates.  Core Lean only.
-/
namespace PV.C13
open PV.C15

/-- `LinearLocatorState` -/
structure St where
  lineStart : Nat
  lineEnd : Option Nat
  lineNumber : Nat          -- `OneIndexed`
  cursor : Nat
  isAscii : Bool
deriving Repr, DecidableEq

/-- `source.starts_with('\u{feff}')` -/
def hasBom (src : List Nat) : Bool := bom.isPrefixOf src

/-- `find_newline(&source[from..])` followed by the `(line_end, is_ascii)` computation that both
    `init` and `locate_inner` perform: the end of the line starting at `from` (just after its
    terminator) and whether `source[asciiFrom..newline]` is ASCII. -/
def lineEndAscii (src : List Nat) (from_ : Nat) : Option Nat × Bool :=
  let rest := src.drop from_
  match findNewline rest with
  | some (pos, len) => (some (from_ + pos + len), isAsciiText (rest.take pos))
  | none => (none, isAsciiText rest)

/-- `LinearLocatorState::init(source)` -/
def St.init (src : List Nat) : St :=
  let lineStart := if hasBom src then 3 else 0
  let (lineEnd, isAscii) := lineEndAscii src 0       -- `source[..position].is_ascii()`: from 0, BOM included
  { lineStart, lineEnd, lineNumber := 1, cursor := lineStart, isAscii }

/-- `LinearLocatorState::new_line_start(next_offset)` -/
def St.newLineStart (st : St) (off : Nat) : Option Nat :=
  match st.lineEnd with
  | some e => if e ≤ off then some e else none
  | none => none

/-- `UniversalNewlineIterator::from(text).count()`: `next()` until it returns `None`. -/
def iterCount : Nat → Iter → Nat
  | 0, _ => 0
  | fuel + 1, it =>
    match it.next with
    | (some _, it') => 1 + iterCount fuel it'
    | (none, _) => 0

def countLines (text : List Nat) : Nat := iterCount (text.length + 1) (Iter.withOffset text 0)

def u32Mod : Nat := 4294967296

/-- `a - b` on `u32`/`TextSize`: panics under overflow checks, wraps otherwise. -/
def subU32 (dbg : Bool) (a b : Nat) : Option Nat :=
  if b ≤ a then some (a - b) else if dbg then none else some (a + u32Mod - b)

/-- The "not fit in current line" arm of `locate_inner`: zero-indexed byte column and the new state. -/
def advance (src : List Nat) (st : St) (nls off : Nat) : Option (Nat × St) :=
  match sliceChecked src nls off with                                  -- `focused`
  | none => none
  | some focused =>
    let r : Option (Nat × Nat × Nat) :=
      match rfindNewline focused with                                  -- `memrchr2(b'\r', b'\n', focused)`
      | some p =>
        let lastNewline := nls + p
        match sliceChecked src st.cursor (lastNewline + 1) with
        | none => none
        | some seg => some (countLines seg, lastNewline + 1, off - (lastNewline + 1))
      | none => some (1, nls, off - nls)
    match r with
    | none => none
    | some (lines, lineStart, column) =>
      let (lineEnd, isAscii) := lineEndAscii src lineStart
      some (column, { lineStart, lineEnd, lineNumber := st.lineNumber + lines, cursor := off, isAscii })

/-- `LinearLocator::locate_inner(offset)` → (one-indexed column, new state if the line changed). -/
def locateInner (dbg : Bool) (src : List Nat) (st : St) (off : Nat) : Option (Nat × Option St) :=
  let r : Option (Nat × Option St) :=
    match st.newLineStart off with
    | some nls =>
      match advance src st nls off with
      | some (column, ns) => some (column, some ns)
      | none => none
    | none =>
      match subU32 dbg off st.lineStart with
      | some column => some (column, none)
      | none => none
  match r with
  | none => none
  | some (column, newState) =>
    let state := newState.getD st
    let column : Option Nat :=
      if state.isAscii then some column
      else
        -- `self.source[state.line_start..][..column].chars().count()`
        match sliceChecked src state.lineStart (state.lineStart + column) with
        | some s => some (charCount s)
        | none => none
    match column with
    | none => none
    | some column =>
      let column := column + 1                                         -- `OneIndexed::from_zero_indexed`
      if dbg then
        -- `assert_eq!(location, source_code.source_location(offset))`
        match sourceLocation src off with
        | some (row, col) =>
          if state.lineNumber = row + 1 ∧ column = col + 1 then some (column, newState) else none
        | none => none
      else some (column, newState)

/-- `LinearLocator::locate(offset)` → ((row, column), state afterwards) -/
def locate (dbg : Bool) (src : List Nat) (st : St) (off : Nat) : Option ((Nat × Nat) × St) :=
  if dbg ∧ ¬ st.cursor ≤ off then none                                  -- `debug_assert!`
  else
    match locateInner dbg src st off with
    | none => none
    | some (column, newState) =>
      let st' := match newState with
        | some s => s
        | none => { st with cursor := off }
      some ((st'.lineNumber, column), st')

/-- `LinearLocator::locate_only(offset)`: the state is not touched. -/
def locateOnly (dbg : Bool) (src : List Nat) (st : St) (off : Nat) : Option (Nat × Nat) :=
  match locateInner dbg src st off with
  | none => none
  | some (column, newState) => some ((newState.getD st).lineNumber, column)

/-- `RandomLocator::locate(offset)` → one-indexed (row, column) -/
def randomLocate (src : List Nat) (off : Nat) : Option (Nat × Nat) :=
  match sourceLocation src off with
  | some (row, col) => some (row + 1, col + 1)
  | none => none

/-- One call on a `LinearLocator`. (`locate_error` is `locate(base.offset)` wrapped in a
    `LocatedError`, for both locators.) -/
inductive Op where
  | locate (off : Nat)
  | locateOnly (off : Nat)
deriving Repr, DecidableEq

def Op.off : Op → Nat
  | .locate o => o
  | .locateOnly o => o

/-- One call: result (`none` = panic) and the state afterwards.  A panic leaves the state as it
    was: every panic site of `locate` precedes its assignments to `self.state`. -/
def step (dbg : Bool) (src : List Nat) (st : St) : Op → Option (Nat × Nat) × St
  | .locate o =>
    match locate dbg src st o with
    | some (r, st') => (some r, st')
    | none => (none, st)
  | .locateOnly o => (locateOnly dbg src st o, st)

/-- A history of calls on one locator. -/
def runFrom (dbg : Bool) (src : List Nat) : St → List Op → List (Option (Nat × Nat))
  | _, [] => []
  | st, op :: ops =>
    let (r, st') := step dbg src st op
    r :: runFrom dbg src st' ops

/-- `LinearLocator::new(source)` followed by the calls `ops`. -/
def run (dbg : Bool) (src : List Nat) (ops : List Op) : List (Option (Nat × Nat)) :=
  runFrom dbg src (St.init src) ops

end PV.C13
