import PV.C13.SpansBridge
import PV.C13.Spans
import PV.C13.ParsedThm
/-
  C13 — `OffsOk` (a hypothesis on the OUTPUT of the parser in ParsedThm.lean) derived from a hypothesis on its INPUT:
  every offset of a plain parser-built tree is the start or the end of one of the input tokens
  (`parsed_offsets_token_ends`), so `SpansOk src toks` (Spans.lean: every token starts and ends on a character boundary,
  not between a CR and its LF, not inside a leading BOM) gives `OffsOk src (toTree ar m)` (`offsOk_of_spansOk`), and the
  capstone theorems of ParsedThm.lean hold with hypotheses about the lexer's output only (`…'`).

  Route: no new induction over the parser.  `PV.C02.parseRProgram_rangesOk_partial` holds for EVERY text the spans tile
  and says "every range end is a character boundary of that text"; applied to the text `markSrc` whose character
  boundaries are exactly the token starts and ends (the spans tile it too), it says "every range end is a token start
  or end".  `SpansBridge.lean` carries this from C02's generic tree `m.tree` to the fold tree `toTree ar m`.
-/
set_option linter.unusedVariables false
set_option linter.unusedSimpArgs false
namespace PV.C13
open PV.C15 PV.C13.Spec
open PV.C02 hiding Tree isBoundary
open PV.C12 (Tree Conforms)

/-! ### C02's structure theorem for an input with at least one token (no hypothesis about offset 0) -/

/-- `PV.C02.parseRProgram_rangesOk_partial` for a non-empty token list: its hypothesis `isBoundary src 0` is only
    used for the `Mod*` node `0..0` of the token-less input.  (Same proof, from C02's soundness lemmas.) -/
theorem rangesOk_of_tokens {src : List Nat} {toks : List RPTok} (h : TiledP src toks) (hne : toks ≠ [])
    {mode : PV.Prog.Mode} {m : RMod} (hp : parseRProgram mode toks = some m) (hpl : plainM m = true) :
    rangesOk src m.tree = true := by
  have T := tiledTab_of_tiledP h
  unfold parseRProgram parseRProgramFuel at hp
  generalize PV.Prog.fuelFor (toks.map fun t => t.tok.toTok) = fuel at hp
  generalize hts : (toks.map fun t => t.tok.toTok) = ts at hp
  have hlen : ts.length = toks.length := by rw [← hts]; simp
  have hN : ts.length ≤ toks.length := by omega
  have hrg : rgOk src (L (pspanTab toks) ts, R (pspanTab toks) []) := by
    have : 1 ≤ toks.length := by cases toks <;> simp_all
    simp only [L, R, List.length_nil]
    exact T.win (Nat.le_refl _) (by omega) hN
  unfold parseRTopT at hp
  have body : ∀ (b : List RStmt), parseRProgramBody (pspanTab toks) fuel ts = some b → plainSs b = true →
      ∀ kind, TF src 0 src.length (.node kind "root" false (some (L (pspanTab toks) ts, R (pspanTab toks) [])) (stmtTrees "body" b)) := by
    intro b hb hpb kind
    obtain ⟨g1, g2⟩ := programBody_sound T fuel ts b hN hb
    refine TF.ofKids hrg (Nat.zero_le _) ((rgOk_iff _ _ _).mp hrg).2.1 (slots := ["body"]) ?_
    rcases g2 with rfl | g2
    · exact ⟨by simp [stmtTrees, sibsOk], by simp [stmtTrees, okList], by simp [stmtTrees]⟩
    · exact kids_stmts T "body" g1 hpb (Or.inr ⟨Nat.le_refl _, Nat.le_refl _, g2, by omega⟩) (Nat.le_refl _) hN
  cases mode with
  | module =>
    simp only at hp
    split at hp
    · rename_i b hb
      simp only [Option.some.injEq] at hp; subst hp
      exact (body b hb hpl "ModModule").toOk_root
    · cases hp
  | interactive =>
    simp only at hp
    split at hp
    · rename_i b hb
      simp only [Option.some.injEq] at hp; subst hp
      exact (body b hb hpl "ModInteractive").toOk_root
    · cases hp
  | expression =>
    simp only at hp
    split at hp
    · rename_i e r he
      split at hp
      · simp only [Option.some.injEq] at hp; subst hp
        obtain ⟨g1, g2, _⟩ := testListS_sound T fuel ts e r hN he
        have hpos : 1 ≤ ts.length := by omega
        have : TF src 0 src.length (.node "ModExpression" "root" false (some (L (pspanTab toks) ts, R (pspanTab toks) []))
            [e.toTree "body" false]) := by
          refine TF.ofKids hrg (Nat.zero_le _) ((rgOk_iff _ _ _).mp hrg).2.1 (slots := ["body"]) ?_
          exact kids_expr T g2 hpl (by simp) (Nat.le_refl _) hpos (by omega) (by simp) hN
        exact this.toOk_root
      · cases hp
    · cases hp

/-! ### a text whose character boundaries are exactly a given set of offsets -/

/-- `n` bytes; the byte at `o` starts a character iff `o ∈ E` -/
def markSrc (E : List Nat) (n : Nat) : List Nat := (List.range n).map fun o => if o ∈ E then 0 else 128

theorem markSrc_length (E : List Nat) (n : Nat) : (markSrc E n).length = n := by simp [markSrc]

theorem markSrc_boundary (E : List Nat) (n o : Nat) :
    PV.C02.isBoundary (markSrc E n) o = true ↔ (o < n ∧ o ∈ E) ∨ o = n := by
  unfold PV.C02.isBoundary
  by_cases h : o < n
  · have : (markSrc E n)[o]? = some (if o ∈ E then 0 else 128) := by
      simp [markSrc, List.getElem?_map, List.getElem?_range h]
    rw [this]
    by_cases he : o ∈ E <;> simp [he, h] <;> omega
  · have : (markSrc E n)[o]? = none := by
      rw [List.getElem?_eq_none_iff, markSrc_length]; omega
    rw [this]
    simp [markSrc_length]; omega

/-- the largest member -/
def maxOf (l : List Nat) : Nat := l.foldr max 0

theorem le_maxOf : ∀ (l : List Nat) (x : Nat), x ∈ l → x ≤ maxOf l
  | y :: l, x, h => by
    simp only [maxOf, List.foldr_cons]
    rcases List.mem_cons.mp h with rfl | h
    · exact Nat.le_max_left _ _
    · exact Nat.le_trans (le_maxOf l x h) (Nat.le_max_right _ _)

theorem maxOf_mem : ∀ (l : List Nat), l ≠ [] → maxOf l ∈ l
  | [x], _ => by simp [maxOf]
  | x :: y :: l, _ => by
    have ih := maxOf_mem (y :: l) (by simp)
    have e : maxOf (x :: y :: l) = max x (maxOf (y :: l)) := rfl
    rw [e]
    rcases Nat.le_total x (maxOf (y :: l)) with h | h
    · rw [Nat.max_eq_right h]; exact List.mem_cons_of_mem _ ih
    · rw [Nat.max_eq_left h]; exact List.mem_cons_self

theorem mem_tokEnds {toks : List RPTok} {t : RPTok} (h : t ∈ toks) : t.s ∈ tokEnds toks ∧ t.e ∈ tokEnds toks := by
  simp only [tokEnds, List.mem_flatMap]
  exact ⟨⟨t, h, by simp⟩, ⟨t, h, by simp⟩⟩

/-- token spans that tile ANY text tile the text whose character boundaries are exactly the token starts and ends -/
theorem tiledP_markSrc {src : List Nat} {toks : List RPTok} (h : TiledP src toks) :
    TiledP (markSrc (tokEnds toks) (maxOf (tokEnds toks))) toks := by
  refine ⟨?_, h.2⟩
  intro t ht
  obtain ⟨h1, _, _, _⟩ := h.1 t ht
  obtain ⟨p, hp, rfl⟩ := List.mem_map.mp ht
  obtain ⟨m1, m2⟩ := mem_tokEnds hp
  have l1 := le_maxOf _ _ m1
  have l2 := le_maxOf _ _ m2
  refine ⟨h1, by rw [markSrc_length]; exact l2, ?_, ?_⟩
  · rw [markSrc_boundary]
    rcases Nat.lt_or_ge p.s (maxOf (tokEnds toks)) with g | g
    · exact Or.inl ⟨g, m1⟩
    · exact Or.inr (Nat.le_antisymm l1 g)
  · rw [markSrc_boundary]
    rcases Nat.lt_or_ge p.e (maxOf (tokEnds toks)) with g | g
    · exact Or.inl ⟨g, m2⟩
    · exact Or.inr (Nat.le_antisymm l2 g)

theorem AllOff.mono {P Q : Nat → Prop} {t : Tree} (h : AllOff P t) (hpq : ∀ o, P o → Q o) : AllOff Q t :=
  fun o ho => hpq o (h o ho)

/-- **Every offset of a plain parser-built tree is the start or the end of one of the input tokens** (input with at
    least one token; both builds).  C02's structure theorem, applied to the text whose character boundaries are
    exactly the token starts and ends: what it calls "on a character boundary" is then "on a token boundary". -/
theorem parsed_offsets_token_ends (ar : Bool) {src : List Nat} {toks : List RPTok} (ht : TiledP src toks) (hne : toks ≠ [])
    {mode : PV.Prog.Mode} {m : RMod} (hp : parseRProgram mode toks = some m) (hpl : plainM m = true) :
    ∀ o ∈ offsT (toTree ar m), o ∈ tokEnds toks := by
  have hr := rangesOk_of_tokens (tiledP_markSrc ht) hne hp hpl
  refine (rangesOk_allOff ar hr).mono ?_
  rintro o ⟨hb, hl⟩
  rw [markSrc_length] at hl
  rcases (markSrc_boundary _ _ _).mp hb with ⟨_, g⟩ | g
  · exact g
  · rw [g]
    exact maxOf_mem _ (by cases toks with
      | nil => exact absurd rfl hne
      | cons t ts => simp [tokEnds])

/-! ### `OffsOk` from `SpansOk` -/

theorem posOk_zero {src : List Nat} (h : initCursor src = 0) : PosOk src 0 := by
  refine ⟨⟨by simp [PV.C15.isBoundary], by simp [insideCrlf]⟩, by omega⟩

/-- the parse of the token-less input: a `Module` / `Interactive` node `0..0` without statements; expression mode rejects -/
theorem parse_tokenless {mode : PV.Prog.Mode} {m : RMod} (hp : parseRProgram mode [] = some m) :
    m = .module (0, 0) [] ∨ m = .interactive (0, 0) [] := by
  cases mode with
  | module => left; have : parseRProgram .module [] = some (.module (0, 0) []) := rfl; rw [this] at hp; cases hp; rfl
  | interactive =>
    right; have : parseRProgram .interactive [] = some (.interactive (0, 0) []) := rfl; rw [this] at hp; cases hp; rfl
  | expression => have : parseRProgram .expression [] = none := rfl; rw [this] at hp; cases hp

/-- **`OffsOk` of the output from `SpansOk` of the input.**  For token spans that tile the source and all start and end
    at positions the locator accepts, every offset of a plain parser-built tree is such a position — except for the one
    shape of the listed finding `linear-bom-tokenless-module-all-ranges` (`NotBomTokenless`). -/
theorem offsOk_of_spansOk (ar : Bool) {src : List Nat} {toks : List RPTok} (ht : TiledP src toks)
    (hs : SpansOk src toks) {mode : PV.Prog.Mode} {m : RMod} (hp : parseRProgram mode toks = some m)
    (hpl : plainM m = true) (hn : NotBomTokenless ar src toks) : OffsOk src (toTree ar m) := by
  by_cases hne : toks = []
  · subst hne
    have h0 : ar = false ∨ initCursor src = 0 := by
      rcases hn with h | h | h
      · exact absurd rfl h
      · exact Or.inl h
      · exact Or.inr h
    rcases parse_tokenless hp with rfl | rfl <;> rcases h0 with rfl | h0
    · intro o ho; simp [toTree, optR, offsT, offsL, cSs] at ho
    · intro o ho
      have : o = 0 := by cases ar <;> simp [toTree, optR, offsT, offsL, cSs] at ho <;> exact ho
      subst this; exact posOk_zero h0
    · intro o ho; simp [toTree, optR, offsT, offsL, cSs] at ho
    · intro o ho
      have : o = 0 := by cases ar <;> simp [toTree, optR, offsT, offsL, cSs] at ho <;> exact ho
      subst this; exact posOk_zero h0
  · intro o ho
    have := parsed_offsets_token_ends ar ht hne hp hpl o ho
    simp only [tokEnds, List.mem_flatMap, List.mem_cons, List.not_mem_nil, or_false] at this
    obtain ⟨t, htm, rfl | rfl⟩ := this
    · exact (hs t htm).1
    · exact (hs t htm).2

/-! ### part (a) of `SpansOk` is part of `TiledP`; for the tokens of the lexer model only (b) and (c) remain -/

/-- a character boundary in the sense of C02 (`rangesOk`, `TiledP`) inside the text is one in the sense of C15 / C13 -/
theorem c15_boundary_of_c02 {src : List Nat} {o : Nat} (h : PV.C02.isBoundary src o = true) (hl : o ≤ src.length) :
    PV.C15.isBoundary src o = true := by
  unfold PV.C15.isBoundary
  by_cases h0 : o = 0
  · simp [h0]
  by_cases h1 : o = src.length
  · simp [h1]
  simp only [h0, h1, if_false]
  have hlt : o < src.length := by omega
  unfold PV.C02.isBoundary at h
  rw [List.getElem?_eq_getElem hlt] at h ⊢
  simpa [PV.C15.isCont] using h

/-- tiled spans that are clear of CR LF pairs and of the BOM are `SpansOk` -/
theorem spansOk_of_tiledP {src : List Nat} {toks : List RPTok} (ht : TiledP src toks) (hc : SpansClear src toks) :
    SpansOk src toks := by
  intro t htm
  obtain ⟨c1, c2, c3⟩ := hc t htm
  obtain ⟨g1, g2, g3, g4⟩ := ht.1 ⟨t.tok.toTok, t.s, t.e⟩ (List.mem_map.mpr ⟨t, htm, rfl⟩)
  have g1' : t.s ≤ t.e := g1
  have g2' : t.e ≤ src.length := g2
  exact ⟨⟨⟨c15_boundary_of_c02 g3 (by omega), c1⟩, c3⟩, ⟨⟨c15_boundary_of_c02 g4 g2, c2⟩, by omega⟩⟩

/-- **For the tokens of the lexer MODEL** (`PV.Lexer.lex` from offset 0, any sub-sequence of its token stream — the
    parser sees it without comments and non-logical newlines): the spans tile the UTF-8 text (C05) and, if none of them
    starts or ends between a CR and its LF or starts inside a leading BOM (`SpansClear`), they are `SpansOk`. -/
theorem lexed_spansOk {cfg : PV.Lexer.Cfg} (hs : cfg.up.Sane) {mode : PV.Lexer.Mode} {text : List Nat}
    {out : PV.Lexer.LexOut} (h : PV.Lexer.lex cfg mode 0 text = some out) (toks : List RPTok)
    (hsub : List.Sublist (toks.map fun t => (t.s, t.e)) (out.toks.map fun t => (t.bs, t.be)))
    (hc : SpansClear (PV.utf8Encode text) toks) :
    TiledP (PV.utf8Encode text) toks ∧ SpansOk (PV.utf8Encode text) toks :=
  have ht := (tiledP_of_lexer hs h toks hsub).1
  ⟨ht, spansOk_of_tiledP ht hc⟩

example : SpansClear richSrc richToks := by decide +kernel
/-- the predicates are not trivially true: a NEWLINE span that covers only the CR of `x` CR LF ends between the CR and its
    LF, a token that starts at byte 0 of a BOM text starts inside the BOM -/
example : ¬ SpansOk [120, 13, 10] [⟨.e (.name [120]), 0, 1⟩, ⟨.newline, 1, 2⟩] := by decide
example : ¬ SpansOk [239, 187, 191, 120] [⟨.e (.name [120]), 0, 4⟩] := by decide

/-! ### the capstone theorems with hypotheses about the token spans only -/

/-- **Parser-produced trees are `SrcOrdered`** — hypotheses about the INPUT only: the token spans tile the source
    (C05: `tiledP_of_lexer`) and start / end at positions the locator accepts (`SpansOk`). -/
theorem parsed_tree_srcOrdered' (ar : Bool) {src : List Nat} {toks : List RPTok} (ht : TiledP src toks)
    (hk : SpansOk src toks) {mode : PV.Prog.Mode} {m : RMod} (hp : parseRProgram mode toks = some m)
    (hpl : plainM m = true) (hn : NotBomTokenless ar src toks) : SrcOrdered realCfg src (toTree ar m) :=
  parsed_tree_srcOrdered ar ht hp hpl (offsOk_of_spansOk ar ht hk hp hpl hn)

/-- **First sentence of the property for parser output, from facts about the lexer's output.**  Converting the byte
    ranges of a parsed tree with the `LinearLocator` (either build flavour, either feature set) does not panic and gives,
    for every node, the reference row and character column of its start and of its end. -/
theorem parsed_tree_locations_eq_spec' (ar dbg : Bool) {src : List Nat} (hs : LineStartsOk src) {toks : List RPTok}
    (ht : TiledP src toks) (hk : SpansOk src toks) {mode : PV.Prog.Mode} {m : RMod}
    (hp : parseRProgram mode toks = some m) (hpl : plainM m = true) (hn : NotBomTokenless ar src toks) :
    foldLocated realCfg (.linear dbg) src (toTree ar m) = some (locMap (rowCol src) (toTree ar m)) :=
  parsed_tree_locations_eq_spec ar dbg hs ht hp hpl (offsOk_of_spansOk ar ht hk hp hpl hn)

/-- **Second sentence.**  On a parsed tree the incremental and the indexed locator return identical results. -/
theorem parsed_tree_linear_eq_random' (ar dbg : Bool) {src : List Nat} (hs : LineStartsOk src) {toks : List RPTok}
    (ht : TiledP src toks) (hk : SpansOk src toks) {mode : PV.Prog.Mode} {m : RMod}
    (hp : parseRProgram mode toks = some m) (hpl : plainM m = true) (hn : NotBomTokenless ar src toks) :
    foldLocated realCfg (.linear dbg) src (toTree ar m) = foldLocated realCfg .random src (toTree ar m) :=
  parsed_tree_linear_eq_random ar dbg hs ht hp hpl (offsOk_of_spansOk ar ht hk hp hpl hn)

/-! non-vacuity: the 42 real tokens of `richSrc` (BOM, CR LF line ends, ParsedThm.lean) are `SpansOk`, and the theorems
    apply to them -/
example : SpansOk richSrc richToks := by decide +kernel
example : NotBomTokenless true richSrc richToks := Or.inl (by simp [richToks])
example : ∀ m, richMod = some m →
    OffsOk richSrc (toTree true m) ∧
    foldLocated realCfg (.linear true) richSrc (toTree false m) = some (locMap (rowCol richSrc) (toTree false m)) ∧
    foldLocated realCfg (.linear false) richSrc (toTree true m) = foldLocated realCfg .random richSrc (toTree true m) := by
  intro m hm
  have h1 : richMod.map plainM = some true := by decide +kernel
  simp only [hm, Option.map_some, Option.some.injEq] at h1
  have ht : TiledP richSrc richToks := by decide +kernel
  have hk : SpansOk richSrc richToks := by decide +kernel
  have hs : LineStartsOk richSrc := validUtf8_lineStartsOk (by decide)
  have hn : ∀ ar, NotBomTokenless ar richSrc richToks := fun _ => Or.inl (by simp [richToks])
  exact ⟨offsOk_of_spansOk true ht hk hm h1 (hn _), parsed_tree_locations_eq_spec' false true hs ht hk hm h1 (hn _),
    parsed_tree_linear_eq_random' true false hs ht hk hm h1 (hn _)⟩

/-! ### both remaining side conditions are needed -/

/-- `NotBomTokenless` excludes exactly the listed finding `linear-bom-tokenless-module-all-ranges`: for the BOM-only
    source there is no token, so `TiledP` and `SpansOk` hold, the model parses, the tree is plain — and with
    `all-nodes-with-ranges` it is not `OffsOk` (`Module` 0..0 inside the BOM; `bom_tokenless_module_all_ranges`). -/
theorem offsOk_of_spansOk_needs_side :
    TiledP [239, 187, 191] [] ∧ SpansOk [239, 187, 191] [] ∧ ¬ NotBomTokenless true [239, 187, 191] [] ∧
    (parseRProgram .module []).map (fun m => (plainM m, decide (OffsOk [239, 187, 191] (toTree true m)))) =
      some (true, false) := by
  refine ⟨by decide, by decide, by decide, by decide⟩

/-- `plainM` is needed: the spans of the tokens of `f'''` CR LF CR LF `{x}'''` CR LF (`fcrlfToks`) are fine, but the
    field expression inside the f-string token is ranged between a CR and its LF (listed finding
    `linear-offset-inside-crlf`): an offset that is NOT a token start or end. -/
theorem offsOk_of_spansOk_needs_plain :
    TiledP fcrlfSrc fcrlfToks ∧ SpansOk fcrlfSrc fcrlfToks ∧ NotBomTokenless false fcrlfSrc fcrlfToks ∧
    (parseRProgram .module fcrlfToks).map (fun m => (plainM m, decide (OffsOk fcrlfSrc (toTree false m)))) =
      some (false, false) := by
  refine ⟨by decide +kernel, by decide +kernel, Or.inl (by simp [fcrlfToks]), by decide +kernel⟩

end PV.C13
