import PV.C13.Fold
import PV.Gen.C12Schema
import PV.Gen.C12FoldProg
/-
  C13 — the `fold_<kind>` methods that `impl Fold<TextRange> for LinearLocator`
  (ast/src/source_locator.rs) overrides, transcribed statement by statement, and the configuration
  of the located fold for the real node kinds: the regenerated fold program `PV.C12.Gen.foldProg`
  (ast/src/gen/fold.rs) plus these overrides.

  Kind ids and field numbers are those of the regenerated schema `PV.C12.Gen.schema`; the `example`s
  below break the build if a renumbering makes the table point at another kind or field.
-/
namespace PV.C13
open PV.C12 (Gen.kindNames Gen.fieldNames)

/-- `fold_stmt_function_def` / `fold_stmt_async_function_def`:
    decorator_list | name, type_params, args, returns, body, type_comment -/
def planFunctionDef : Plan := ⟨[.fold 3], [.fold 0, .fold 6, .fold 1, .fold 4, .fold 2, .fold 5], true⟩

/-- `fold_stmt_class_def`: decorator_list | name, type_params, keywords (look-ahead), bases, body -/
def planClassDef : Plan := ⟨[.fold 4], [.fold 0, .fold 5, .look 2, .fold 1, .fold 3], true⟩

/-- `fold_expr_if_exp`: body, test, orelse -/
def planIfExp : Plan := ⟨[], [.fold 1, .fold 0, .fold 2], true⟩

/-- `fold_expr_dict`: `assert_eq!(keys.len(), values.len())`, then key, value, key, value … -/
def planDict : Plan := ⟨[], [.zip 0 1 true], true⟩

/-- `fold_expr_call`: func, keywords (look-ahead), args -/
def planCall : Plan := ⟨[], [.fold 0, .look 2, .fold 1], true⟩

/-- `fold_pattern_match_mapping`: key, pattern, key, pattern …, rest -/
def planMatchMapping : Plan := ⟨[], [.zip 0 1 false, .fold 2], true⟩

def realOverrides : List (Nat × Plan) :=
  [(4, planFunctionDef), (5, planFunctionDef), (6, planClassDef), (37, planIfExp), (38, planDict),
   (48, planCall), (69, planMatchMapping)]

/-- the located fold of the real crates -/
def realCfg : LocCfg :=
  { prog := PV.C12.Gen.foldProg, ov := realOverrides, joined := 50, constant := 51, formatted := 49 }

/-! the table is about the kinds and fields it names -/
example : PV.C12.Gen.kindNames[4]? = some "StmtFunctionDef" ∧
    PV.C12.Gen.fieldNames[4]? = some ["name", "args", "body", "decorator_list", "returns", "type_comment", "type_params"] := by
  constructor <;> rfl
example : PV.C12.Gen.kindNames[5]? = some "StmtAsyncFunctionDef" ∧
    PV.C12.Gen.fieldNames[5]? = some ["name", "args", "body", "decorator_list", "returns", "type_comment", "type_params"] := by
  constructor <;> rfl
example : PV.C12.Gen.kindNames[6]? = some "StmtClassDef" ∧
    PV.C12.Gen.fieldNames[6]? = some ["name", "bases", "keywords", "body", "decorator_list", "type_params"] := by
  constructor <;> rfl
example : PV.C12.Gen.kindNames[37]? = some "ExprIfExp" ∧
    PV.C12.Gen.fieldNames[37]? = some ["test", "body", "orelse"] := by constructor <;> rfl
example : PV.C12.Gen.kindNames[38]? = some "ExprDict" ∧
    PV.C12.Gen.fieldNames[38]? = some ["keys", "values"] := by constructor <;> rfl
example : PV.C12.Gen.kindNames[48]? = some "ExprCall" ∧
    PV.C12.Gen.fieldNames[48]? = some ["func", "args", "keywords"] := by constructor <;> rfl
example : PV.C12.Gen.kindNames[69]? = some "PatternMatchMapping" ∧
    PV.C12.Gen.fieldNames[69]? = some ["keys", "patterns", "rest"] := by constructor <;> rfl
example : PV.C12.Gen.kindNames[50]? = some "ExprJoinedStr" ∧ PV.C12.Gen.fieldNames[50]? = some ["values"] := by
  constructor <;> rfl
example : PV.C12.Gen.kindNames[51]? = some "ExprConstant" ∧ PV.C12.Gen.fieldNames[51]? = some ["value", "kind"] := by
  constructor <;> rfl
example : PV.C12.Gen.kindNames[49]? = some "ExprFormattedValue" ∧
    PV.C12.Gen.fieldNames[49]? = some ["value", "conversion", "format_spec"] := by constructor <;> rfl

end PV.C13
