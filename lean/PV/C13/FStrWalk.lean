import PV.C13.FStrBridge
import PV.C13.ParsedBridge
/-
  C13 — one f-string token, end to end at model level: the `JoinedStr` that the string production of the parser model
  builds for a single f-string token tied to the source (`strings_single_fstr_jOrd`) is walkable by the `LinearLocator`
  fold model (`ow_joined`): `single_fstr_token_walkable`.  The replacement-field expressions are plain expressions of the
  inner parse: ordered by `ordAt` at the inner span table (inside `fstr_pieces_ordered`), walkable by `brE`.
  (The boilerplate cases below — a piece that is neither a `Constant` nor a `FormattedValue` — are generated.)
-/
set_option linter.unusedVariables false
set_option linter.unusedSimpArgs false
namespace PV.C13
open PV.Expr PV.C11
open PV.C02 hiding Tree
open PV.C12 (Tree)

variable {dom : Nat → Bool}

mutual
/-- the field expressions of fine pieces are laid out in fold order -/
theorem vals_ord (lit : Rg) : ∀ p, pieceOk lit p = true → ∀ v ∈ pieceVals p, ordE v = true
  | .const _ _, _, v, hv => by simp [pieceVals] at hv
  | .formattedValue _ w _ none, h, v, hv => by
    simp only [pieceOk, Bool.and_eq_true] at h
    simp only [pieceVals, List.mem_singleton] at hv
    subst hv; exact h.2
  | .formattedValue _ w _ (some (.joinedStr _ ws)), h, v, hv => by
    simp only [pieceOk, Bool.and_eq_true] at h
    simp only [pieceVals, List.mem_cons] at hv
    rcases hv with rfl | hv
    · exact h.1.2
    · exact valsL_ord lit ws h.2.2 v hv
  | .name _ _, h, _, _ => by simp [pieceOk] at h
  | .boolOp _ _ _, h, _, _ => by simp [pieceOk] at h
  | .namedExpr _ _ _, h, _, _ => by simp [pieceOk] at h
  | .binOp _ _ _ _, h, _, _ => by simp [pieceOk] at h
  | .unaryOp _ _ _, h, _, _ => by simp [pieceOk] at h
  | .lambda _ _ _ _ _ _ _ _, h, _, _ => by simp [pieceOk] at h
  | .ifExp _ _ _ _, h, _, _ => by simp [pieceOk] at h
  | .dict _ _, h, _, _ => by simp [pieceOk] at h
  | .set _ _, h, _, _ => by simp [pieceOk] at h
  | .listComp _ _ _, h, _, _ => by simp [pieceOk] at h
  | .setComp _ _ _, h, _, _ => by simp [pieceOk] at h
  | .dictComp _ _ _ _, h, _, _ => by simp [pieceOk] at h
  | .genExp _ _ _, h, _, _ => by simp [pieceOk] at h
  | .await _ _, h, _, _ => by simp [pieceOk] at h
  | .yield _ _, h, _, _ => by simp [pieceOk] at h
  | .yieldFrom _ _, h, _, _ => by simp [pieceOk] at h
  | .compare _ _ _ _, h, _, _ => by simp [pieceOk] at h
  | .call _ _ _ _, h, _, _ => by simp [pieceOk] at h
  | .joinedStr _ _, h, _, _ => by simp [pieceOk] at h
  | .attribute _ _ _, h, _, _ => by simp [pieceOk] at h
  | .subscript _ _ _, h, _, _ => by simp [pieceOk] at h
  | .starred _ _, h, _, _ => by simp [pieceOk] at h
  | .list _ _, h, _, _ => by simp [pieceOk] at h
  | .tuple _ _, h, _, _ => by simp [pieceOk] at h
  | .slice _ _ _ _, h, _, _ => by simp [pieceOk] at h
  | .formattedValue _ _ _ (some (.name _ _)), h, _, _ => by simp [pieceOk] at h
  | .formattedValue _ _ _ (some (.const _ _)), h, _, _ => by simp [pieceOk] at h
  | .formattedValue _ _ _ (some (.boolOp _ _ _)), h, _, _ => by simp [pieceOk] at h
  | .formattedValue _ _ _ (some (.namedExpr _ _ _)), h, _, _ => by simp [pieceOk] at h
  | .formattedValue _ _ _ (some (.binOp _ _ _ _)), h, _, _ => by simp [pieceOk] at h
  | .formattedValue _ _ _ (some (.unaryOp _ _ _)), h, _, _ => by simp [pieceOk] at h
  | .formattedValue _ _ _ (some (.lambda _ _ _ _ _ _ _ _)), h, _, _ => by simp [pieceOk] at h
  | .formattedValue _ _ _ (some (.ifExp _ _ _ _)), h, _, _ => by simp [pieceOk] at h
  | .formattedValue _ _ _ (some (.dict _ _)), h, _, _ => by simp [pieceOk] at h
  | .formattedValue _ _ _ (some (.set _ _)), h, _, _ => by simp [pieceOk] at h
  | .formattedValue _ _ _ (some (.listComp _ _ _)), h, _, _ => by simp [pieceOk] at h
  | .formattedValue _ _ _ (some (.setComp _ _ _)), h, _, _ => by simp [pieceOk] at h
  | .formattedValue _ _ _ (some (.dictComp _ _ _ _)), h, _, _ => by simp [pieceOk] at h
  | .formattedValue _ _ _ (some (.genExp _ _ _)), h, _, _ => by simp [pieceOk] at h
  | .formattedValue _ _ _ (some (.await _ _)), h, _, _ => by simp [pieceOk] at h
  | .formattedValue _ _ _ (some (.yield _ _)), h, _, _ => by simp [pieceOk] at h
  | .formattedValue _ _ _ (some (.yieldFrom _ _)), h, _, _ => by simp [pieceOk] at h
  | .formattedValue _ _ _ (some (.compare _ _ _ _)), h, _, _ => by simp [pieceOk] at h
  | .formattedValue _ _ _ (some (.call _ _ _ _)), h, _, _ => by simp [pieceOk] at h
  | .formattedValue _ _ _ (some (.formattedValue _ _ _ _)), h, _, _ => by simp [pieceOk] at h
  | .formattedValue _ _ _ (some (.attribute _ _ _)), h, _, _ => by simp [pieceOk] at h
  | .formattedValue _ _ _ (some (.subscript _ _ _)), h, _, _ => by simp [pieceOk] at h
  | .formattedValue _ _ _ (some (.starred _ _)), h, _, _ => by simp [pieceOk] at h
  | .formattedValue _ _ _ (some (.list _ _)), h, _, _ => by simp [pieceOk] at h
  | .formattedValue _ _ _ (some (.tuple _ _)), h, _, _ => by simp [pieceOk] at h
  | .formattedValue _ _ _ (some (.slice _ _ _ _)), h, _, _ => by simp [pieceOk] at h
theorem valsL_ord (lit : Rg) : ∀ ps, piecesOk lit ps = true → ∀ v ∈ piecesVals ps, ordE v = true
  | [], _, v, hv => by simp [piecesVals] at hv
  | p :: ps, h, v, hv => by
    simp only [piecesOk, Bool.and_eq_true] at h
    simp only [piecesVals, List.mem_append] at hv
    rcases hv with hv | hv
    · exact vals_ord lit p h.1 v hv
    · exact valsL_ord lit ps h.2 v hv
end

mutual
/-- every offset of a field expression is an offset of the piece -/
theorem vals_offs (ar : Bool) : ∀ p, ∀ v ∈ pieceVals p, ∀ o ∈ offsT (cE ar v), o ∈ offsT (cE ar p)
  | .formattedValue _ w _ none, v, hv, o, ho => by
    simp only [pieceVals, List.mem_singleton] at hv
    subst hv
    simp [cE, cO, offsT, offsL, ho]
  | .formattedValue _ w _ (some (.joinedStr _ ws)), v, hv, o, ho => by
    simp only [pieceVals, List.mem_cons] at hv
    rcases hv with rfl | hv
    · simp [cE, cO, offsT, offsL, ho]
    · have := valsL_offs ar ws v hv o ho
      simp [cE, cO, offsT, offsL, this]
  | .const _ _, v, hv, _, _ => by simp [pieceVals] at hv
  | .name _ _, v, hv, _, _ => by simp [pieceVals] at hv
  | .boolOp _ _ _, v, hv, _, _ => by simp [pieceVals] at hv
  | .namedExpr _ _ _, v, hv, _, _ => by simp [pieceVals] at hv
  | .binOp _ _ _ _, v, hv, _, _ => by simp [pieceVals] at hv
  | .unaryOp _ _ _, v, hv, _, _ => by simp [pieceVals] at hv
  | .lambda _ _ _ _ _ _ _ _, v, hv, _, _ => by simp [pieceVals] at hv
  | .ifExp _ _ _ _, v, hv, _, _ => by simp [pieceVals] at hv
  | .dict _ _, v, hv, _, _ => by simp [pieceVals] at hv
  | .set _ _, v, hv, _, _ => by simp [pieceVals] at hv
  | .listComp _ _ _, v, hv, _, _ => by simp [pieceVals] at hv
  | .setComp _ _ _, v, hv, _, _ => by simp [pieceVals] at hv
  | .dictComp _ _ _ _, v, hv, _, _ => by simp [pieceVals] at hv
  | .genExp _ _ _, v, hv, _, _ => by simp [pieceVals] at hv
  | .await _ _, v, hv, _, _ => by simp [pieceVals] at hv
  | .yield _ _, v, hv, _, _ => by simp [pieceVals] at hv
  | .yieldFrom _ _, v, hv, _, _ => by simp [pieceVals] at hv
  | .compare _ _ _ _, v, hv, _, _ => by simp [pieceVals] at hv
  | .call _ _ _ _, v, hv, _, _ => by simp [pieceVals] at hv
  | .joinedStr _ _, v, hv, _, _ => by simp [pieceVals] at hv
  | .attribute _ _ _, v, hv, _, _ => by simp [pieceVals] at hv
  | .subscript _ _ _, v, hv, _, _ => by simp [pieceVals] at hv
  | .starred _ _, v, hv, _, _ => by simp [pieceVals] at hv
  | .list _ _, v, hv, _, _ => by simp [pieceVals] at hv
  | .tuple _ _, v, hv, _, _ => by simp [pieceVals] at hv
  | .slice _ _ _ _, v, hv, _, _ => by simp [pieceVals] at hv
  | .formattedValue _ _ _ (some (.name _ _)), v, hv, _, _ => by simp [pieceVals] at hv
  | .formattedValue _ _ _ (some (.const _ _)), v, hv, _, _ => by simp [pieceVals] at hv
  | .formattedValue _ _ _ (some (.boolOp _ _ _)), v, hv, _, _ => by simp [pieceVals] at hv
  | .formattedValue _ _ _ (some (.namedExpr _ _ _)), v, hv, _, _ => by simp [pieceVals] at hv
  | .formattedValue _ _ _ (some (.binOp _ _ _ _)), v, hv, _, _ => by simp [pieceVals] at hv
  | .formattedValue _ _ _ (some (.unaryOp _ _ _)), v, hv, _, _ => by simp [pieceVals] at hv
  | .formattedValue _ _ _ (some (.lambda _ _ _ _ _ _ _ _)), v, hv, _, _ => by simp [pieceVals] at hv
  | .formattedValue _ _ _ (some (.ifExp _ _ _ _)), v, hv, _, _ => by simp [pieceVals] at hv
  | .formattedValue _ _ _ (some (.dict _ _)), v, hv, _, _ => by simp [pieceVals] at hv
  | .formattedValue _ _ _ (some (.set _ _)), v, hv, _, _ => by simp [pieceVals] at hv
  | .formattedValue _ _ _ (some (.listComp _ _ _)), v, hv, _, _ => by simp [pieceVals] at hv
  | .formattedValue _ _ _ (some (.setComp _ _ _)), v, hv, _, _ => by simp [pieceVals] at hv
  | .formattedValue _ _ _ (some (.dictComp _ _ _ _)), v, hv, _, _ => by simp [pieceVals] at hv
  | .formattedValue _ _ _ (some (.genExp _ _ _)), v, hv, _, _ => by simp [pieceVals] at hv
  | .formattedValue _ _ _ (some (.await _ _)), v, hv, _, _ => by simp [pieceVals] at hv
  | .formattedValue _ _ _ (some (.yield _ _)), v, hv, _, _ => by simp [pieceVals] at hv
  | .formattedValue _ _ _ (some (.yieldFrom _ _)), v, hv, _, _ => by simp [pieceVals] at hv
  | .formattedValue _ _ _ (some (.compare _ _ _ _)), v, hv, _, _ => by simp [pieceVals] at hv
  | .formattedValue _ _ _ (some (.call _ _ _ _)), v, hv, _, _ => by simp [pieceVals] at hv
  | .formattedValue _ _ _ (some (.formattedValue _ _ _ _)), v, hv, _, _ => by simp [pieceVals] at hv
  | .formattedValue _ _ _ (some (.attribute _ _ _)), v, hv, _, _ => by simp [pieceVals] at hv
  | .formattedValue _ _ _ (some (.subscript _ _ _)), v, hv, _, _ => by simp [pieceVals] at hv
  | .formattedValue _ _ _ (some (.starred _ _)), v, hv, _, _ => by simp [pieceVals] at hv
  | .formattedValue _ _ _ (some (.list _ _)), v, hv, _, _ => by simp [pieceVals] at hv
  | .formattedValue _ _ _ (some (.tuple _ _)), v, hv, _, _ => by simp [pieceVals] at hv
  | .formattedValue _ _ _ (some (.slice _ _ _ _)), v, hv, _, _ => by simp [pieceVals] at hv
theorem valsL_offs (ar : Bool) : ∀ ps, ∀ v ∈ piecesVals ps, ∀ o ∈ offsT (cE ar v), o ∈ offsL (cL ar ps)
  | [], v, hv, _, _ => by simp [piecesVals] at hv
  | p :: ps, v, hv, o, ho => by
    simp only [piecesVals, List.mem_append] at hv
    simp only [cL, offsL, List.mem_append]
    rcases hv with hv | hv
    · exact Or.inl (vals_offs ar p v hv o ho)
    · exact Or.inr (valsL_offs ar ps v hv o ho)
end

/-- a `JoinedStr` laid out as `jOrd` says, with every offset in the domain, is walkable by the `LinearLocator` -/
theorem ow_joined_of_jOrd (ar : Bool) (rg : Rg) (vs : List RExpr) (hj : jOrd rg vs = true) (hab : rg.1 ≤ rg.2)
    (hd : AllDom dom (cE ar (.joinedStr rg vs))) : OW dom rg.1 rg.2 (cE ar (.joinedStr rg vs)) := by
  simp only [jOrd, Bool.and_eq_true] at hj
  have hda : dom rg.1 = true := hd rg.1 (by simp [cE, offsT])
  have hdb : dom rg.2 = true := hd rg.2 (by simp [cE, offsT])
  refine ow_joined ar rg vs (jPieces_of_ok rg vs hj.1) (fun v hv => ?_) hj.2 hab hda hdb
  refine brE ar v (valsL_ord rg vs hj.1 v hv) (fun o ho => hd o ?_)
  have := valsL_offs ar vs v hv o ho
  simp [cE, offsT, offsL, this]

/-- **One f-string token, from the parser model to the fold model.**  For a tiled span table, an f-string token whose
    value is the source text of its span (C02's tie), not followed by another string token: the `JoinedStr` the string
    production returns — its replacement fields free of further f-strings — is ranged like the token, laid out in fold
    order, and the `LinearLocator` walk of its tree succeeds from any cursor at or before its start and ends at or before
    its end, provided every offset is in the domain. -/
theorem single_fstr_token_walkable (ar : Bool) {src : List Nat} {σ : SpanTab} {N : Nat} (T : TiledTab src σ N) {f q : Nat}
    {triple raw : Bool} {body : List Nat} {r : List Tok} {rg : Rg} {vs : List RExpr} {rest : List Tok}
    (hN : (Tok.fstr q triple raw body :: r).length ≤ N) (hT : FTie src σ (Tok.fstr q triple raw body :: r))
    (hnext : r.takeWhile isStringTok = [])
    (h : parseRStrings σ f (Tok.fstr q triple raw body :: r) = some (.joinedStr rg vs, rest)) (hp : fpieceL vs = true)
    (hd : AllDom dom (cE ar (.joinedStr rg vs))) :
    rg = σ (r.length + 1) ∧ jOrd rg vs = true ∧ OW dom rg.1 rg.2 (cE ar (.joinedStr rg vs)) := by
  obtain ⟨_, h2, h3⟩ := strings_single_fstr_jOrd T hN hT hnext h hp
  refine ⟨h2, h3, ow_joined_of_jOrd ar rg vs h3 ?_ hd⟩
  subst h2
  simp only [List.length_cons] at hN
  exact T.SE (by omega) (by omega)

end PV.C13
