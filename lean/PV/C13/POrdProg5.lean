import PV.C13.POrdProg4
/-
  C13 — `ordM` for the ranged program parser, part 5 (twin of `PV.C02.RProgSound4`): suites and compound statements,
  `elif` chains, the subject of `match`, the program body.
-/
set_option linter.unusedSimpArgs false
set_option linter.unusedVariables false
set_option linter.unusedSectionVars false
namespace PV.C13
open PV.Expr PV.C11 PV.Prog
open PV.C02

variable {src : List Nat} {σ : SpanTab} {N : Nat}

grind_pattern ol_nil => ([] : List RExpr)
grind_pattern oks_nil => ([] : List RKeyword)
grind_pattern otps_nil => ([] : List RTypeParam)
grind_pattern ohs_nil => ([] : List RHandler)
theorem ocs_nil : OCs [] := ⟨fun _ => rfl⟩
grind_pattern ocs_nil => ([] : List RCase)

theorem oseqL_mono (T : TiledTab src σ N) {j j' : Nat} {ss : List RStmt} (h : OSeqL σ j ss) (hj : j ≤ j') (h1 : 1 ≤ j)
    (h3 : j' ≤ N) : OSeqL σ j' ss :=
  ⟨fun hp => ⟨(h.h hp).1, chain_mono (h.h hp).2 (tSS T h1 hj h3) (Nat.le_refl _)⟩⟩
theorem osl_mono (T : TiledTab src σ N) {j j' : Nat} {s : RStmt} (h : OSL σ j s) (hj : j ≤ j') (h1 : 1 ≤ j)
    (h3 : j' ≤ N) : OSL σ j' s :=
  ⟨fun hp => ⟨(h.h hp).1, Nat.le_trans (tSS T h1 hj h3) (h.h hp).2⟩⟩
grind_pattern oseqL_mono => TiledTab src σ N, OSeqL σ j ss, OSeqL σ j' ss
grind_pattern osl_mono => TiledTab src σ N, OSL σ j s, OSL σ j' s

/-! ### the subject of `match` -/

theorem chain_seqRes : ∀ {es : List RExpr} {lo hi a b : Nat}, SeqG (Res src) lo hi es → a ≤ lo → hi ≤ b → lo ≤ hi →
    chain a (es.map RExpr.range) b = true
  | [], lo, hi, a, b, _, h1, h2, h3 => by simp [chain]; omega
  | e :: es, lo, hi, a, b, ⟨m, g1, g2, g3⟩, h1, h2, h3 => by
    obtain ⟨r1, r2, r3, _⟩ := g1
    have hle := rgOk_le (show rgOk src (e.range.1, e.range.2) from r1)
    simp only [List.map_cons, chain, Bool.and_eq_true, decide_eq_true_eq]
    exact ⟨by omega, chain_seqRes g3 r3 h2 g2⟩

section
variable (T : TiledTab src σ N) (OA : ∀ f, OrdAt src σ N f)
include T OA

omit OA in
theorem omatchSubjectR {j k : Nat} {es : List RExpr} {tc : Bool} (h1 : 1 ≤ k) (h2 : k ≤ j) (h3 : j ≤ N)
    (hs : SeqI src σ j k es) (hne : es ≠ []) (os : OL es) : OE (matchSubjectR (es, tc)) := by
  unfold matchSubjectR
  split
  · rename_i e heq
    simp only [Prod.mk.injEq] at heq
    obtain ⟨rfl, rfl⟩ := heq
    exact ⟨fun hp => by have := os.h (by simpa [plainL] using hp); simpa [ordL] using this⟩
  · rename_i es' tc' hne' heq
    simp only [Prod.mk.injEq] at heq
    obtain ⟨rfl, rfl⟩ := heq
    constructor
    intro hp
    simp only [plain] at hp
    obtain ⟨q1, q2, q3, q4⟩ := seqRes_tight es _ _ (seq_plain hs hp) hne
    simp only [ordE, Bool.and_eq_true]
    refine ⟨?_, os.h hp⟩
    exact chain_seqRes q4 (Nat.le_refl _) (Nat.le_refl _) (rgOk_le q3)

theorem ocommaList_subject (f : Nat) : ∀ ek ts es tc rest, ts.length ≤ N →
    parseRCommaList σ ek f ts = some ((es, tc), rest) → OE (matchSubjectR (es, tc)) := by
  intro ek ts es tc rest hN h
  obtain ⟨g1, g2, g3, g4⟩ := commaList_sound T f _ _ _ _ _ hN h
  exact omatchSubjectR T (by omega) (by omega) hN g2 g3 (ocommaList T OA f _ _ _ _ _ hN h)

/-! ### `elif` chains -/

/-- `PV.C02.ElifsOK` with the ord-facts of every clause -/
def OElifsOK (src : List Nat) (σ : SpanTab) : Nat → Nat → List (Nat × RExpr × List RStmt) → Prop
  | _, _, [] => True
  | j, k, (st, t, b) :: cs => st = S σ j ∧ ∃ jt kt jb kb, kt ≤ jt ∧ jt < j ∧ jb < kt ∧ kb ≤ jb ∧ k ≤ kb ∧ 1 ≤ k ∧
      Win src σ jt kt t ∧ OE t ∧ SeqS src σ jb kb b ∧ OSeqL σ jb b ∧ b ≠ [] ∧ lastEnd b = E σ kb ∧
      ((cs = [] ∧ kb = k) ∨ (cs ≠ [] ∧ ∃ j', 1 ≤ j' ∧ j' < kb ∧ OElifsOK src σ j' k cs))

omit T OA in
theorem oelifs_to : ∀ {cs : List (Nat × RExpr × List RStmt)} {j k : Nat}, OElifsOK src σ j k cs → ElifsOK src σ j k cs
  | [], _, _, _ => trivial
  | (st, t, b) :: cs, j, k, ⟨h0, jt, kt, jb, kb, g1, g2, g3, g4, g5, g6, ht, _, hb, _, hne, he, hc⟩ =>
    ⟨h0, jt, kt, jb, kb, g1, g2, g3, g4, g5, g6, ht, hb, hne, he,
      hc.imp id (fun ⟨c1, j', c2, c3, c4⟩ => ⟨c1, j', c2, c3, oelifs_to c4⟩)⟩

omit OA in
/-- the nested `If`s of a chain are ordered -/
theorem onest_ok : ∀ (cs : List (Nat × RExpr × List RStmt)) (j k kE jl kl : Nat) (last : List RStmt),
    OElifsOK src σ j k cs → cs ≠ [] → j ≤ N → 1 ≤ kE → kE ≤ k → SeqS src σ jl kl last →
    (last = [] ∨ (OSeqL σ jl last ∧ lastEnd last = E σ kl ∧ jl < k ∧ kE ≤ kl ∧ 1 ≤ jl ∧ kl ≤ N)) →
    ∀ s, nestR (E σ kE) cs last = [s] → OSL σ j s
  | [], _, _, _, _, _, _, _, h, _, _, _, _, _, _, _ => absurd rfl h
  | (st, t, b) :: cs, j, k, kE, jl, kl, last, ⟨hst, jt, kt, jb, kb, g1, g2, g3, g4, g5, g6, ht, ot, hb, ob, hbne, he, hc⟩, _,
      hj, hk1, hk2, hl, hl0, s, hs => by
    subst hst
    simp only [nestR, List.cons.injEq, and_true] at hs
    subst hs
    rcases hc with ⟨rfl, rfl⟩ | ⟨hne, j', q1, q2, hs'⟩
    · simp only [nestR]
      exact osl_if T hk1 (by omega) hj (Nat.le_refl _) hj ht ot (by omega) (by omega) (by omega) (by omega) hb ob he (by omega)
        (by omega) (by omega) (by omega) (by omega) hl
        (hl0.imp id (fun c => ⟨c.1, c.2.1, c.2.2.2.1, by omega, c.2.2.2.2.1, c.2.2.2.2.2, by omega⟩))
    · obtain ⟨s', e1, e2, e3⟩ := nest_ok T cs j' k kE jl kl last (oelifs_to hs') hne (by omega) hk1 hk2 hl
        (hl0.imp id (fun c => ⟨c.2.2.1, c.2.2.2.1, c.2.2.2.2.1, c.2.2.2.2.2⟩))
      have o' := onest_ok cs j' k kE jl kl last hs' hne (by omega) hk1 hk2 hl hl0 s' e1
      rw [e1]
      have hle : lastEnd [s'] = E σ kE := by rw [lastEnd_single, e3]
      exact osl_if T hk1 (by omega) hj (Nat.le_refl _) hj ht ot (by omega) (by omega) (by omega) (by omega) hb ob he (by omega)
        (by omega) (by omega) (by omega) (by omega) (seqS_single e2)
        (Or.inr ⟨oseqL_single o', hle, Nat.le_refl _, by omega, by omega, by omega, by omega⟩)

omit OA in
/-- the `If` node of `if … elif … else` is ordered -/
theorem oifAssembleR {j jt kt jb kb : Nat} {test : RExpr} {body : List RStmt}
    {s2 : List (Nat × RExpr × List RStmt)} {s3 : Option (List RStmt)} {r2 r3 r4 : List Tok}
    (hj : j ≤ N) (ht : Win src σ jt kt test) (ot : OE test) (t1 : kt ≤ jt) (t2 : jt < j) (hb : SeqS src σ jb kb body)
    (ob : OSeqL σ jb body) (hbne : body ≠ []) (hbe : lastEnd body = E σ kb) (b1 : jb < kt) (b2 : kb ≤ jb)
    (b3 : r2.length + 1 ≤ kb) (b0 : r2.length ≤ jb)
    (h2 : r3.length ≤ r2.length ∧ ((s2 = [] ∧ r3 = r2) ∨
      (r3.length < r2.length ∧ s2 ≠ [] ∧ ∃ k, r3.length + 1 ≤ k ∧ k ≤ r2.length ∧ OElifsOK src σ r2.length k s2)))
    (h3 : PostOpt src σ r3 s3 r4) (o3 : s3 = none ∨ OSeqL σ r3.length (s3.getD [])) :
    OSL σ j (ifAssembleR (S σ j) test body s2 s3) := by
  obtain ⟨e1, e2⟩ := h2
  obtain ⟨o1, o2⟩ := h3
  unfold ifAssembleR
  rw [elifFoldR_reverse]
  have hlast : ∃ jl kl, SeqS src σ jl kl (s3.getD []) ∧
      ((s3 = none ∧ r4 = r3) ∨
       (s3 ≠ none ∧ s3.getD [] ≠ [] ∧ lastEnd (s3.getD []) = E σ kl ∧ r4.length + 1 ≤ kl ∧ kl ≤ jl ∧ jl = r3.length ∧ 1 ≤ jl ∧
        OSeqL σ jl (s3.getD []))) := by
    rcases o2 with ⟨rfl, rfl⟩ | ⟨o3', o4, o5, kl, o6, o7, o8, o9⟩
    · exact ⟨0, 0, seqS_nil, Or.inl ⟨rfl, rfl⟩⟩
    · exact ⟨r3.length, kl, o9, Or.inr ⟨o3', o5, o8, o6, o7, rfl, by omega, o3.resolve_left o3'⟩⟩
  obtain ⟨jl, kl, hl, hl2⟩ := hlast
  rcases e2 with ⟨rfl, rfl⟩ | ⟨e3, e4, k2, e5, e6, e7⟩
  · -- no `elif`
    simp only [nestR]
    rcases hl2 with ⟨rfl, rfl⟩ | ⟨l1, l2, l3, l4, l5, l6, l7, l8⟩
    · simp only [ifEndR, hbe]
      exact osl_if T (by omega) (by omega) hj (Nat.le_refl _) hj ht ot (by omega) (by omega) (by omega) (by omega) hb ob hbe
        (Nat.le_refl _) (by omega) (by omega) (by omega) (by omega) hl (Or.inl rfl)
    · have he : ifEndR body [] s3 = E σ kl := by
        cases s3 with
        | none => exact absurd rfl l1
        | some l => simpa [ifEndR] using l3
      rw [he]
      subst l6
      exact osl_if T (by omega) (by omega) hj (Nat.le_refl _) hj ht ot (by omega) (by omega) (by omega) (by omega) hb ob hbe
        (by omega) (by omega) (by omega) (by omega) (by omega) hl
        (Or.inr ⟨l8, l3, Nat.le_refl _, by omega, by omega, by omega, by omega⟩)
  · -- an `elif` chain
    obtain ⟨c, hc1, hc2⟩ := elifs_lastEnd (oelifs_to e7) e4
    rcases hl2 with ⟨rfl, rfl⟩ | ⟨l1, l2, l3, l4, l5, l6, l7, l8⟩
    · have he : ifEndR body s2 none = E σ k2 := by simp [ifEndR, hc1, hc2]
      obtain ⟨s', n1, n2, n3⟩ := nest_ok T s2 r2.length k2 k2 0 0 [] (oelifs_to e7) e4 (by omega) (by omega) (Nat.le_refl _)
        seqS_nil (Or.inl rfl)
      have o' := onest_ok T s2 r2.length k2 k2 0 0 [] e7 e4 (by omega) (by omega) (Nat.le_refl _) seqS_nil (Or.inl rfl) s' n1
      rw [he]
      simp only [Option.getD_none, n1]
      have hle : lastEnd [s'] = E σ k2 := by rw [lastEnd_single, n3]
      exact osl_if T (by omega) (by omega) hj (Nat.le_refl _) hj ht ot (by omega) (by omega) (by omega) (by omega) hb ob hbe
        (by omega) (by omega) (by omega) (by omega) (by omega) (seqS_single n2)
        (Or.inr ⟨oseqL_single o', hle, Nat.le_refl _, by omega, by omega, by omega, by omega⟩)
    · have he : ifEndR body s2 s3 = E σ kl := by
        cases s3 with
        | none => exact absurd rfl l1
        | some l => simpa [ifEndR] using l3
      subst l6
      obtain ⟨s', n1, n2, n3⟩ := nest_ok T s2 r2.length k2 kl r3.length kl (s3.getD []) (oelifs_to e7) e4 (by omega) (by omega)
        (by omega) hl (Or.inr ⟨by omega, Nat.le_refl _, by omega, by omega⟩)
      have o' := onest_ok T s2 r2.length k2 kl r3.length kl (s3.getD []) e7 e4 (by omega) (by omega) (by omega) hl
        (Or.inr ⟨l8, l3, by omega, Nat.le_refl _, by omega, by omega⟩) s' n1
      rw [he, n1]
      have hle : lastEnd [s'] = E σ kl := by rw [lastEnd_single, n3]
      exact osl_if T (by omega) (by omega) hj (Nat.le_refl _) hj ht ot (by omega) (by omega) (by omega) (by omega) hb ob hbe
        (by omega) (by omega) (by omega) (by omega) (by omega) (seqS_single n2)
        (Or.inr ⟨oseqL_single o', hle, Nat.le_refl _, by omega, by omega, by omega, by omega⟩)

/-! ### the mutual block -/

structure OCompAt (src : List Nat) (σ : SpanTab) (N : Nat) (f : Nat) : Prop where
  suite : ∀ ts ss rest, ts.length ≤ N → parseRSuite σ f ts = some (ss, rest) → OSeqL σ ts.length ss
  block : ∀ ts ss rest, ts.length ≤ N → parseRBlock σ f ts = some (ss, rest) → OSeqL σ ts.length ss
  else_ : ∀ ts oe rest, ts.length ≤ N → parseRElse σ f ts = some (oe, rest) → (oe = none ∨ OSeqL σ ts.length (oe.getD []))
  finally_ : ∀ ts oe rest, ts.length ≤ N → parseRFinally σ f ts = some (oe, rest) →
    (oe = none ∨ OSeqL σ ts.length (oe.getD []))
  elifs : ∀ ts cs rest, ts.length ≤ N → parseRElifs σ f ts = some (cs, rest) →
    rest.length ≤ ts.length ∧ ((cs = [] ∧ rest = ts) ∨
      (rest.length < ts.length ∧ cs ≠ [] ∧ ∃ k, rest.length + 1 ≤ k ∧ k ≤ ts.length ∧ OElifsOK src σ ts.length k cs))
  handlers : ∀ star ts hs rest, ts.length ≤ N → parseRHandlers σ f star ts = some (hs, rest) → OHs hs
  cases : ∀ ts cs rest, ts.length ≤ N → parseRCases σ f ts = some (cs, rest) → OCs cs
  def_ : ∀ st j0 isAsync decos ts s rest jd kd, st = S σ j0 → ts.length < j0 → j0 ≤ N → SeqI src σ jd kd decos →
    j0 ≤ jd → jd ≤ N → OL decos → (decos = [] ∨ (j0 < kd ∧ kd ≤ N ∧ 1 ≤ jd)) →
    parseRDef σ f st isAsync decos ts = some (s, rest) → OSL σ jd s
  class_ : ∀ st j0 decos ts s rest jd kd, st = S σ j0 → ts.length < j0 → j0 ≤ N → SeqI src σ jd kd decos →
    j0 ≤ jd → jd ≤ N → OL decos → (decos = [] ∨ (j0 < kd ∧ kd ≤ N ∧ 1 ≤ jd)) →
    parseRClass σ f st decos ts = some (s, rest) → OSL σ jd s
  compound : ∀ ts s rest, ts.length ≤ N → parseRCompound σ f ts = some (s, rest) → OSL σ ts.length s
  for_ : ∀ st j0 isAsync ts s rest, st = S σ j0 → ts.length < j0 → j0 ≤ N →
    parseRFor σ f st isAsync ts = some (s, rest) → OSL σ j0 s
  with_ : ∀ st j0 isAsync ts s rest, st = S σ j0 → ts.length < j0 → j0 ≤ N →
    parseRWith σ f st isAsync ts = some (s, rest) → OSL σ j0 s

def BelowOComp (src : List Nat) (σ : SpanTab) (N : Nat) (n : Nat) : Prop := ∀ f, n = f + 1 → OCompAt src σ N f

theorem ocomp_suite {n} (ih : BelowOComp src σ N n) :
    ∀ ts ss rest, ts.length ≤ N → parseRSuite σ n ts = some (ss, rest) → OSeqL σ ts.length ss := by
  intro ts ss rest hN
  fun_cases parseRSuite σ n ts
  pstep σ [(compSAt T _).block, simpleLine_sound T _, (ih _ rfl).block, osimpleLine T OA _]

omit OA in
theorem ocomp_else {n} (ih : BelowOComp src σ N n) :
    ∀ ts oe rest, ts.length ≤ N → parseRElse σ n ts = some (oe, rest) → (oe = none ∨ OSeqL σ ts.length (oe.getD [])) := by
  intro ts oe rest hN
  fun_cases parseRElse σ n ts
  pstep σ [(compSAt T _).suite, (ih _ rfl).suite]

omit OA in
theorem ocomp_finally {n} (ih : BelowOComp src σ N n) :
    ∀ ts oe rest, ts.length ≤ N → parseRFinally σ n ts = some (oe, rest) →
    (oe = none ∨ OSeqL σ ts.length (oe.getD [])) := by
  intro ts oe rest hN
  fun_cases parseRFinally σ n ts
  pstep σ [(compSAt T _).suite, (ih _ rfl).suite]

theorem ofirstR {f} (ih : OCompAt src σ N f) : ∀ ts ss rest, ts.length ≤ N →
    firstR σ f ts = some (ss, rest) → OSeqL σ ts.length ss := by
  intro ts ss rest hN
  unfold firstR
  split
  · split
    · rename_i s r hc
      intro h
      simp only [Option.some.injEq, Prod.mk.injEq] at h
      obtain ⟨rfl, rfl⟩ := h
      exact oseqL_single (ih.compound _ _ _ hN hc)
    · intro h; cases h
  · exact osimpleLine T OA f _ _ _ hN

theorem ocomp_block {n} (ih : BelowOComp src σ N n) :
    ∀ ts ss rest, ts.length ≤ N → parseRBlock σ n ts = some (ss, rest) → OSeqL σ ts.length ss := by
  intro ts ss rest hN
  cases n with
  | zero => simp [parseRBlock]
  | succ f =>
    rw [blockR_unfold]
    have hf := firstR_sound T (compSAt T f)
    have hb := (compSAt T f).block
    have hf' := ofirstR T OA (ih _ rfl)
    have hb' := (ih _ rfl).block
    split
    · split
      · pstep1 σ [hf, hf']
      · split
        · pstep1 σ [hf, hb, hf', hb']
        · intro h; cases h
    · intro h; cases h

theorem ocomp_handlers {n} (ih : BelowOComp src σ N n) :
    ∀ star ts hs rest, ts.length ≤ N → parseRHandlers σ n star ts = some (hs, rest) → OHs hs := by
  intro star ts hs rest hN
  fun_cases parseRHandlers σ n star ts
  pstep σ [exceptHeader_sound T _, (compSAt T _).suite, (compSAt T _).handlers, oexceptHeader T OA _, (ih _ rfl).suite,
    (ih _ rfl).handlers]

theorem ocomp_cases {n} (ih : BelowOComp src σ N n) :
    ∀ ts cs rest, ts.length ≤ N → parseRCases σ n ts = some (cs, rest) → OCs cs := by
  intro ts cs rest hN
  fun_cases parseRCases σ n ts
  pstep σ [patterns_sound T _, guardOfR_sound T _, (compSAt T _).suite, (compSAt T _).cases, opatterns T OA _,
    oguardOfR T OA _, (ih _ rfl).suite, (ih _ rfl).cases]

theorem ocomp_elifs {n} (ih : BelowOComp src σ N n) :
    ∀ ts cs rest, ts.length ≤ N → parseRElifs σ n ts = some (cs, rest) →
    rest.length ≤ ts.length ∧ ((cs = [] ∧ rest = ts) ∨
      (rest.length < ts.length ∧ cs ≠ [] ∧ ∃ k, rest.length + 1 ≤ k ∧ k ≤ ts.length ∧ OElifsOK src σ ts.length k cs)) := by
  intro ts cs rest hN h
  cases n with
  | zero => simp [parseRElifs] at h
  | succ f =>
    have ih := ih _ rfl
    have C := compSAt T f
    rw [parseRElifs.eq_def] at h
    split at h
    · cases h
    · simp only [Option.some.injEq, Prod.mk.injEq] at h
      obtain ⟨rfl, rfl⟩ := h
      exact ⟨Nat.le_refl _, Or.inl ⟨rfl, rfl⟩⟩
    · rename_i f' t r heq
      simp only [Nat.succ.injEq] at heq
      subst heq
      split at h
      · split at h
        · rename_i test r1 ht
          split at h
          · rename_i body r2 hb
            split at h
            · rename_i cs' r3 hc
              simp only [Option.some.injEq, Prod.mk.injEq] at h
              obtain ⟨rfl, rfl⟩ := h
              simp only [List.length_cons] at hN ⊢
              obtain ⟨t1, t2, _⟩ := (soundAt T _).namedTest _ _ _ (by omega) ht
              have ot := oa_namedTest OA _ _ _ _ (by omega) ht
              simp only [List.length_cons] at t1 t2
              obtain ⟨b1, b2, kb, b3, b4, b5, b6⟩ := C.suite _ _ _ (by omega) hb
              have ob := ih.suite _ _ _ (by omega) hb
              obtain ⟨c1, c2⟩ := ih.elifs _ _ _ (by omega) hc
              refine ⟨by omega, Or.inr ⟨by omega, by simp, ?_⟩⟩
              rcases c2 with ⟨rfl, rfl⟩ | ⟨c3, c4, k, c5, c6, c7⟩
              · refine ⟨kb, by omega, by omega, ?_⟩
                simp only [L, List.length_cons]
                exact ⟨rfl, r.length, r1.length + 2, r1.length, kb, by omega, by omega, by omega, by omega, Nat.le_refl _,
                  by omega, t2, ot, b6, ob, b2, b5, Or.inl ⟨rfl, rfl⟩⟩
              · refine ⟨k, by omega, by omega, ?_⟩
                simp only [L, List.length_cons]
                exact ⟨rfl, r.length, r1.length + 2, r1.length, kb, by omega, by omega, by omega, by omega, by omega,
                  by omega, t2, ot, b6, ob, b2, b5, Or.inr ⟨c4, r2.length, by omega, by omega, c7⟩⟩
            · cases h
          · cases h
        · cases h
      · simp only [Option.some.injEq, Prod.mk.injEq] at h
        obtain ⟨rfl, rfl⟩ := h
        exact ⟨Nat.le_refl _, Or.inl ⟨rfl, rfl⟩⟩

theorem ocomp_for {n} (ih : BelowOComp src σ N n) :
    ∀ st j0 isAsync ts s rest, st = S σ j0 → ts.length < j0 → j0 ≤ N →
    parseRFor σ n st isAsync ts = some (s, rest) → OSL σ j0 s := by
  intro st j0 isAsync ts s rest h0 h1 h2
  fun_cases parseRFor σ n st isAsync ts
  pstep σ [(soundAt T _).targetList, testListS_sound T _, (compSAt T _).suite, (compSAt T _).else_,
    oa_targetList OA _, otestListS T OA _, (ih _ rfl).suite, (ih _ rfl).else_]

theorem ocomp_with {n} (ih : BelowOComp src σ N n) :
    ∀ st j0 isAsync ts s rest, st = S σ j0 → ts.length < j0 → j0 ≤ N →
    parseRWith σ n st isAsync ts = some (s, rest) → OSL σ j0 s := by
  intro st j0 isAsync ts s rest h0 h1 h2
  fun_cases parseRWith σ n st isAsync ts
  pstep σ [withItems_sound T _, (compSAt T _).suite, owithItems T OA _, (ih _ rfl).suite]

theorem ocomp_def {n} (ih : BelowOComp src σ N n) :
    ∀ st j0 isAsync decos ts s rest jd kd, st = S σ j0 → ts.length < j0 → j0 ≤ N → SeqI src σ jd kd decos →
    j0 ≤ jd → jd ≤ N → OL decos → (decos = [] ∨ (j0 < kd ∧ kd ≤ N ∧ 1 ≤ jd)) →
    parseRDef σ n st isAsync decos ts = some (s, rest) → OSL σ jd s := by
  intro st j0 isAsync decos ts s rest jd kd h0 h1 h2 hd h3 h4 h5 h6
  fun_cases parseRDef σ n st isAsync decos ts
  pstep σ [typeParamsOpt_sound T _, parameters_sound T _, retOfR_sound T _, (compSAt T _).suite,
    otypeParamsOpt T OA _, oparameters T OA _, oretOfR T OA _, (ih _ rfl).suite]

theorem ocomp_class {n} (ih : BelowOComp src σ N n) :
    ∀ st j0 decos ts s rest jd kd, st = S σ j0 → ts.length < j0 → j0 ≤ N → SeqI src σ jd kd decos →
    j0 ≤ jd → jd ≤ N → OL decos → (decos = [] ∨ (j0 < kd ∧ kd ≤ N ∧ 1 ≤ jd)) →
    parseRClass σ n st decos ts = some (s, rest) → OSL σ jd s := by
  intro st j0 decos ts s rest jd kd h0 h1 h2 hd h3 h4 h5 h6
  fun_cases parseRClass σ n st decos ts
  pstep σ [typeParamsOpt_sound T _, classArgsOfR_sound T _, (compSAt T _).suite,
    otypeParamsOpt T OA _, oclassArgsOfR T OA _, (ih _ rfl).suite]

omit T OA in
theorem odef_nil {f} (C : OCompAt src σ N f) : ∀ st j0 isAsync ts s rest, st = S σ j0 → ts.length < j0 → j0 ≤ N →
    parseRDef σ f st isAsync [] ts = some (s, rest) → OSL σ j0 s :=
  fun st j0 a ts s rest h0 h1 h2 h =>
    C.def_ st j0 a [] ts s rest j0 j0 h0 h1 h2 seqI_nil (Nat.le_refl _) h2 ol_nil (Or.inl rfl) h

omit T OA in
theorem oclass_nil {f} (C : OCompAt src σ N f) : ∀ st j0 ts s rest, st = S σ j0 → ts.length < j0 → j0 ≤ N →
    parseRClass σ f st [] ts = some (s, rest) → OSL σ j0 s :=
  fun st j0 ts s rest h0 h1 h2 h =>
    C.class_ st j0 [] ts s rest j0 j0 h0 h1 h2 seqI_nil (Nat.le_refl _) h2 ol_nil (Or.inl rfl) h

theorem ocomp_compound {n} (ih : BelowOComp src σ N n) :
    ∀ ts s rest, ts.length ≤ N → parseRCompound σ n ts = some (s, rest) → OSL σ ts.length s := by
  intro ts s rest hN
  fun_cases parseRCompound σ n ts
  all_goals first
    | pstep1 σ [(soundAt T _).namedTest, (compSAt T _).suite, (compSAt T _).else_, (compSAt T _).finally_,
        (compSAt T _).handlers, (compSAt T _).for_, (compSAt T _).with_, (compSAt T _).def_, (compSAt T _).class_,
        (compSAt T _).cases, decorators_sound T _, commaList_subject T _, def_nil (compSAt T _), class_nil (compSAt T _),
        oa_namedTest OA _, (ih _ rfl).suite, (ih _ rfl).else_, (ih _ rfl).finally_, (ih _ rfl).handlers, (ih _ rfl).for_,
        (ih _ rfl).with_, (ih _ rfl).def_, (ih _ rfl).class_, (ih _ rfl).cases, odecorators T OA _,
        ocommaList_subject T OA _, odef_nil (ih _ rfl), oclass_nil (ih _ rfl)]
    | (-- `if … elif … else`
       rename_i f _ _ _ ht _ _ hb _ _ hc _ _ he
       intro h
       simp only [Option.some.injEq, Prod.mk.injEq] at h
       obtain ⟨rfl, rfl⟩ := h
       have ih := ih _ rfl
       have C := compSAt T f
       simp only [List.length_cons] at hN
       obtain ⟨t1, t2, _⟩ := (soundAt T _).namedTest _ _ _ (by omega) ht
       have ot := oa_namedTest OA _ _ _ _ (by omega) ht
       simp only [List.length_cons] at t1 t2
       obtain ⟨b1, b2, kb, b3, b4, b5, b6⟩ := C.suite _ _ _ (by omega) hb
       have ob := ih.suite _ _ _ (by omega) hb
       have c := ih.elifs _ _ _ (by omega) hc
       have e := C.else_ _ _ _ (by omega) he
       have e' := ih.else_ _ _ _ (by omega) he
       simp only [List.length_cons, L]
       exact oifAssembleR T (j := _ + 1) hN t2 ot (by omega) (by omega) b6 ob b2 b5 (by omega) b4 b3 (by omega) c e e')

theorem ocompAt_of_below {n : Nat} (b : BelowOComp src σ N n) : OCompAt src σ N n :=
  ⟨ocomp_suite T OA b, ocomp_block T OA b, ocomp_else T b, ocomp_finally T b, ocomp_elifs T OA b, ocomp_handlers T OA b,
    ocomp_cases T OA b, ocomp_def T OA b, ocomp_class T OA b, ocomp_compound T OA b, ocomp_for T OA b, ocomp_with T OA b⟩

/-- every statement function of the ranged parser returns ordered statements, at every fuel -/
theorem ocompAt : ∀ n, OCompAt src σ N n
  | 0 => ocompAt_of_below T OA (fun f h => absurd h (by omega))
  | n + 1 => ocompAt_of_below T OA (fun f h => by cases h; exact ocompAt n)

end
end PV.C13
