import PV.C13.FStrTok
/-
  C13 — the f-string step for EVERY run of string tokens (implicit concatenations included), in the weak form that holds
  there too: `strings_fstr_weak`.  For a tiled span table and a tied cursor, the `JoinedStr` the string production returns
  has pieces of the shape the fold accepts with `ordE` field expressions (`piecesW`), and the field expressions of ALL its
  literals, in visiting order, follow each other between the start and the end of the node (the values of literal `k` lie
  inside its token span, the token spans are ordered).  What does NOT hold for a concatenation is "every piece carries the
  range of the `JoinedStr`" (the listed finding `linear-fstring-concat-piece-range`) — that part of `jOrd` is a property of
  the tree (`piecesOk`), which `strings_single_fstr_jOrd` adds for a single literal.
  This is the form a re-run of `ordAt` over C02's tied induction can plug in at `parseRStrings` without any exclusion on
  the cursor (design/C13.md, "What is missing").
-/
set_option linter.unusedVariables false
set_option linter.unusedSimpArgs false
namespace PV.C13
open PV.Expr PV.C11
open PV.C02

variable {src : List Nat}

mutual
/-- `pieceOk` without the ranges: the shape the fold accepts, field expressions laid out in fold order -/
def pieceW : RExpr → Bool
  | .const _ _ => true
  | .formattedValue _ v _ none => ordE v
  | .formattedValue _ v _ (some (.joinedStr _ ws)) => ordE v && piecesW ws
  | _ => false
def piecesW : List RExpr → Bool
  | [] => true
  | p :: ps => pieceW p && piecesW ps
end

/-- the field expressions of the `inr` items, in order -/
def itemsSegs : List (List Nat ⊕ RExpr) → List Rg
  | [] => []
  | .inl _ :: r => itemsSegs r
  | .inr e :: r => pieceSegs e ++ itemsSegs r

def itemsW : List (List Nat ⊕ RExpr) → Bool
  | [] => true
  | .inl _ :: r => itemsW r
  | .inr e :: r => pieceW e && itemsW r

theorem itemsSegs_append : ∀ (a b : List (List Nat ⊕ RExpr)), itemsSegs (a ++ b) = itemsSegs a ++ itemsSegs b
  | [], _ => rfl
  | .inl _ :: r, b => by simp [itemsSegs, itemsSegs_append r b]
  | .inr e :: r, b => by simp [itemsSegs, itemsSegs_append r b]

theorem itemsW_append : ∀ (a b : List (List Nat ⊕ RExpr)), itemsW (a ++ b) = (itemsW a && itemsW b)
  | [], _ => by simp [itemsW]
  | .inl _ :: r, b => by simp [itemsW, itemsW_append r b]
  | .inr e :: r, b => by simp [itemsW, itemsW_append r b, Bool.and_assoc]


mutual
theorem pieceW_of_ok (lit : Rg) : ∀ p, pieceOk lit p = true → pieceW p = true
  | .const _ _, _ => rfl
  | .formattedValue _ _ _ none, h => by simp only [pieceOk, Bool.and_eq_true] at h; simp [pieceW, h.2]
  | .formattedValue _ _ _ (some (.joinedStr _ ws)), h => by
    simp only [pieceOk, Bool.and_eq_true] at h
    simp [pieceW, h.1.2, piecesW_of_ok lit ws h.2.2]
  | .name _ _, h => by simp [pieceOk] at h
  | .boolOp _ _ _, h => by simp [pieceOk] at h
  | .namedExpr _ _ _, h => by simp [pieceOk] at h
  | .binOp _ _ _ _, h => by simp [pieceOk] at h
  | .unaryOp _ _ _, h => by simp [pieceOk] at h
  | .lambda _ _ _ _ _ _ _ _, h => by simp [pieceOk] at h
  | .ifExp _ _ _ _, h => by simp [pieceOk] at h
  | .dict _ _, h => by simp [pieceOk] at h
  | .set _ _, h => by simp [pieceOk] at h
  | .listComp _ _ _, h => by simp [pieceOk] at h
  | .setComp _ _ _, h => by simp [pieceOk] at h
  | .dictComp _ _ _ _, h => by simp [pieceOk] at h
  | .genExp _ _ _, h => by simp [pieceOk] at h
  | .await _ _, h => by simp [pieceOk] at h
  | .yield _ _, h => by simp [pieceOk] at h
  | .yieldFrom _ _, h => by simp [pieceOk] at h
  | .compare _ _ _ _, h => by simp [pieceOk] at h
  | .call _ _ _ _, h => by simp [pieceOk] at h
  | .joinedStr _ _, h => by simp [pieceOk] at h
  | .attribute _ _ _, h => by simp [pieceOk] at h
  | .subscript _ _ _, h => by simp [pieceOk] at h
  | .starred _ _, h => by simp [pieceOk] at h
  | .list _ _, h => by simp [pieceOk] at h
  | .tuple _ _, h => by simp [pieceOk] at h
  | .slice _ _ _ _, h => by simp [pieceOk] at h
  | .formattedValue _ _ _ (some (.name _ _)), h => by simp [pieceOk] at h
  | .formattedValue _ _ _ (some (.const _ _)), h => by simp [pieceOk] at h
  | .formattedValue _ _ _ (some (.boolOp _ _ _)), h => by simp [pieceOk] at h
  | .formattedValue _ _ _ (some (.namedExpr _ _ _)), h => by simp [pieceOk] at h
  | .formattedValue _ _ _ (some (.binOp _ _ _ _)), h => by simp [pieceOk] at h
  | .formattedValue _ _ _ (some (.unaryOp _ _ _)), h => by simp [pieceOk] at h
  | .formattedValue _ _ _ (some (.lambda _ _ _ _ _ _ _ _)), h => by simp [pieceOk] at h
  | .formattedValue _ _ _ (some (.ifExp _ _ _ _)), h => by simp [pieceOk] at h
  | .formattedValue _ _ _ (some (.dict _ _)), h => by simp [pieceOk] at h
  | .formattedValue _ _ _ (some (.set _ _)), h => by simp [pieceOk] at h
  | .formattedValue _ _ _ (some (.listComp _ _ _)), h => by simp [pieceOk] at h
  | .formattedValue _ _ _ (some (.setComp _ _ _)), h => by simp [pieceOk] at h
  | .formattedValue _ _ _ (some (.dictComp _ _ _ _)), h => by simp [pieceOk] at h
  | .formattedValue _ _ _ (some (.genExp _ _ _)), h => by simp [pieceOk] at h
  | .formattedValue _ _ _ (some (.await _ _)), h => by simp [pieceOk] at h
  | .formattedValue _ _ _ (some (.yield _ _)), h => by simp [pieceOk] at h
  | .formattedValue _ _ _ (some (.yieldFrom _ _)), h => by simp [pieceOk] at h
  | .formattedValue _ _ _ (some (.compare _ _ _ _)), h => by simp [pieceOk] at h
  | .formattedValue _ _ _ (some (.call _ _ _ _)), h => by simp [pieceOk] at h
  | .formattedValue _ _ _ (some (.formattedValue _ _ _ _)), h => by simp [pieceOk] at h
  | .formattedValue _ _ _ (some (.attribute _ _ _)), h => by simp [pieceOk] at h
  | .formattedValue _ _ _ (some (.subscript _ _ _)), h => by simp [pieceOk] at h
  | .formattedValue _ _ _ (some (.starred _ _)), h => by simp [pieceOk] at h
  | .formattedValue _ _ _ (some (.list _ _)), h => by simp [pieceOk] at h
  | .formattedValue _ _ _ (some (.tuple _ _)), h => by simp [pieceOk] at h
  | .formattedValue _ _ _ (some (.slice _ _ _ _)), h => by simp [pieceOk] at h
theorem piecesW_of_ok (lit : Rg) : ∀ ps, piecesOk lit ps = true → piecesW ps = true
  | [], _ => rfl
  | p :: ps, h => by
    simp only [piecesOk, Bool.and_eq_true] at h
    simp [piecesW, pieceW_of_ok lit p h.1, piecesW_of_ok lit ps h.2]
end

theorem items_of_map : ∀ (vs : List RExpr), itemsSegs (vs.map rexprToPiece) = piecesSegs vs ∧
    (piecesW vs = true → itemsW (vs.map rexprToPiece) = true)
  | [] => ⟨rfl, fun _ => rfl⟩
  | p :: ps => by
    obtain ⟨i1, i2⟩ := items_of_map ps
    have inr : rexprToPiece p = .inr p → itemsSegs ((p :: ps).map rexprToPiece) = piecesSegs (p :: ps) ∧
        (piecesW (p :: ps) = true → itemsW ((p :: ps).map rexprToPiece) = true) := by
      intro hr
      simp only [List.map_cons, hr, itemsSegs, piecesSegs, i1, itemsW, piecesW, Bool.and_eq_true]
      exact ⟨trivial, fun h => ⟨h.1, i2 h.2⟩⟩
    cases p with
    | const rg c =>
      cases c with
      | str s b =>
        simp only [List.map_cons, rexprToPiece, itemsSegs, piecesSegs, pieceSegs, List.nil_append, i1, itemsW, piecesW,
          pieceW, Bool.true_and]
        exact ⟨trivial, i2⟩
      | _ => exact inr rfl
    | _ => exact inr rfl

theorem fpieceL_of_items : ∀ (vs : List RExpr), (∀ e, Sum.inr e ∈ vs.map rexprToPiece → fpiece e = true) → fpieceL vs = true
  | [], _ => rfl
  | p :: ps, h => by
    have hps := fpieceL_of_items ps (fun e he => h e (by simp only [List.map_cons, List.mem_cons]; exact Or.inr he))
    have inr : rexprToPiece p = .inr p → fpieceL (p :: ps) = true := by
      intro hr
      simp only [fpieceL, Bool.and_eq_true]
      exact ⟨h p (by simp [hr]), hps⟩
    cases p with
    | const rg c => simp [fpieceL, fpiece, hps]
    | _ => exact inr rfl

/-- `parse_strings` de-duplication: the field expressions are those of the items, the shape is kept (any `rg`) -/
theorem dedup_items (rg : Rg) (u : Bool) : ∀ (ps : List (List Nat ⊕ RExpr)) (cur : Option (List Nat)),
    piecesSegs (dedupRPieces rg u ps cur) = itemsSegs ps ∧ (itemsW ps = true → piecesW (dedupRPieces rg u ps cur) = true)
  | [], none => ⟨rfl, fun _ => rfl⟩
  | [], some c => ⟨rfl, fun _ => rfl⟩
  | .inl s :: r, none => by
    by_cases hs : s.isEmpty = true
    · simpa [dedupRPieces, hs, itemsSegs, itemsW] using dedup_items rg u r none
    · simpa [dedupRPieces, hs, itemsSegs, itemsW] using dedup_items rg u r (some s)
  | .inl s :: r, some c => by simpa [dedupRPieces, itemsSegs, itemsW] using dedup_items rg u r (some (c ++ s))
  | .inr e :: r, none => by
    obtain ⟨d1, d2⟩ := dedup_items rg u r none
    simp only [dedupRPieces, piecesSegs, d1, itemsSegs, itemsW, piecesW, Bool.and_eq_true]
    exact ⟨trivial, fun h => ⟨h.1, d2 h.2⟩⟩
  | .inr e :: r, some c => by
    obtain ⟨d1, d2⟩ := dedup_items rg u r none
    simp only [dedupRPieces, piecesSegs, pieceSegs, List.nil_append, d1, itemsSegs, itemsW, piecesW, pieceW, Bool.true_and,
      Bool.and_eq_true]
    exact ⟨trivial, fun h => ⟨h.1, d2 h.2⟩⟩

theorem dedup_inr_mem (rg : Rg) (u : Bool) {e : RExpr} : ∀ (ps : List (List Nat ⊕ RExpr)) (cur : Option (List Nat)),
    Sum.inr e ∈ ps → e ∈ dedupRPieces rg u ps cur
  | [], _, h => by cases h
  | .inl s :: r, none, h => by
    simp only [List.mem_cons, reduceCtorEq, false_or] at h
    by_cases hs : s.isEmpty = true
    · simpa [dedupRPieces, hs] using dedup_inr_mem rg u r none h
    · simpa [dedupRPieces, hs] using dedup_inr_mem rg u r (some s) h
  | .inl s :: r, some c, h => by
    simp only [List.mem_cons, reduceCtorEq, false_or] at h
    simpa [dedupRPieces] using dedup_inr_mem rg u r (some (c ++ s)) h
  | .inr x :: r, none, h => by
    simp only [List.mem_cons, Sum.inr.injEq] at h
    simp only [dedupRPieces, List.mem_cons]
    exact h.imp id (dedup_inr_mem rg u r none)
  | .inr x :: r, some c, h => by
    simp only [List.mem_cons, Sum.inr.injEq] at h
    simp only [dedupRPieces, List.mem_cons]
    exact Or.inr (h.imp id (dedup_inr_mem rg u r none))

/-- the items of a run of string tokens: fine pieces, and the field expressions of all literals chain through the run -/
theorem pieces_run {σ : SpanTab} {N : Nat} (T : TiledTab src σ N) :
    ∀ (f after : Nat) (strs : List Tok) (ps : List (List Nat ⊕ RExpr)), strs.length + after ≤ N → FTieA src σ after strs →
    parseRStringPieces σ f after strs = some ps → (∀ e, Sum.inr e ∈ ps → fpiece e = true) →
    itemsW ps = true ∧ ∀ a hi, (∀ k, after + 1 ≤ k → k ≤ strs.length + after → a ≤ (σ k).1 ∧ (σ k).2 ≤ hi) → a ≤ hi →
      chain a (itemsSegs ps) hi = true := by
  intro f
  induction f with
  | zero => intro after strs ps _ _ h; simp [parseRStringPieces] at h
  | succ f ih =>
    intro after strs ps hN hT h hfp
    cases strs with
    | nil =>
      simp only [parseRStringPieces, Option.some.injEq] at h
      subst h
      exact ⟨rfl, fun a hi _ hah => by simp [itemsSegs, chain, hah]⟩
    | cons t r =>
      simp only [List.length_cons] at hN
      cases t with
      | str s u =>
        rw [parseRStringPieces] at h
        obtain ⟨ps', hp', rfl⟩ := map_some_inv' h
        obtain ⟨i1, i2⟩ := ih after r ps' (by omega) hT.2 hp' (fun e he => hfp e (List.mem_cons_of_mem _ he))
        refine ⟨by simpa [itemsW] using i1, fun a hi hw hah => ?_⟩
        simp only [itemsSegs]
        exact i2 a hi (fun k h1 h2 => hw k h1 (by simp only [List.length_cons]; omega)) hah
      | fstr q triple raw body =>
        rw [parseRStringPieces] at h
        split at h
        · rename_i vs hb
          obtain ⟨ps', hp', rfl⟩ := map_some_inv' h
          have htie : fstrTied src (σ (r.length + 1 + after)) triple raw body = true := hT.1
          obtain ⟨hal, hend⟩ := aligned_of_tied htie
          have hown := T.own (r.length + 1 + after) (by omega) (by omega)
          have C : FCtx src (σ (r.length + 1 + after))
              ((σ (r.length + 1 + after)).1 + (if raw then 2 else 1) + (if triple then 3 else 1)) body :=
            ⟨hal, hown, by omega, hend⟩
          have hfw : fpieceL vs = true :=
            fpieceL_of_items vs (fun e he => hfp e (List.mem_append_left _ he))
          have hj := fstr_pieces_ordered (raw := raw) C hb hfw
          simp only [jOrd, Bool.and_eq_true] at hj
          obtain ⟨m1, m2⟩ := items_of_map vs
          obtain ⟨i1, i2⟩ := ih after r ps' (by omega) hT.2 hp' (fun e he => hfp e (List.mem_append_right _ he))
          refine ⟨by rw [itemsW_append, m2 (piecesW_of_ok _ vs hj.1), i1]; rfl, fun a hi hw hah => ?_⟩
          rw [itemsSegs_append, m1]
          have hh := hw (r.length + 1 + after) (by omega) (by simp only [List.length_cons]; omega)
          refine chain_append (chain_mono hj.2 hh.1 (Nat.le_refl _)) (i2 _ hi (fun k h1 h2 => ?_) hh.2)
          exact ⟨T.ES (by omega) (by omega) (by omega), (hw k h1 (by simp only [List.length_cons]; omega)).2⟩
        · cases h
      | _ => simp [parseRStringPieces] at h

/-- **The f-string step for every run of string tokens (weak form).**  Tiled table, tied cursor starting with a string
    token: a `JoinedStr` the string production returns — replacement fields free of further f-strings — has pieces of the
    shape the fold accepts with `ordE` field expressions, and the field expressions of all its literals chain, in visiting
    order, between its start and its end. -/
theorem strings_fstr_weak {σ : SpanTab} {N : Nat} (T : TiledTab src σ N) {f : Nat} {t : Tok} {r : List Tok} {rg : Rg}
    {vs : List RExpr} {rest : List Tok} (hN : (t :: r).length ≤ N) (ht : isStringTok t = true)
    (hT : FTie src σ (t :: r)) (h : parseRStrings σ f (t :: r) = some (.joinedStr rg vs, rest)) (hp : fpieceL vs = true) :
    piecesW vs = true ∧ chain rg.1 (piecesSegs vs) rg.2 = true := by
  obtain ⟨g1, _, _⟩ := (soundAt T f).strings t r _ rest hN ht h
  cases f with
  | zero => simp [parseRStrings] at h
  | succ f =>
    rw [parseRStrings.eq_def] at h
    simp only [List.dropWhile, ht, List.takeWhile] at h
    have hd := dropWhile_len isStringTok r
    simp only [List.length_cons] at hN g1
    split at h
    · split at h
      · cases h
      · simp at h
    · split at h
      · simp at h
      · split at h
        · rename_i pieces hps
          simp only [Option.some.injEq, Prod.mk.injEq, RExpr.joinedStr.injEq] at h
          obtain ⟨⟨hrg, hvs⟩, hrest⟩ := h
          subst hvs
          have hsplit : t :: r = (t :: List.takeWhile isStringTok r) ++ List.dropWhile isStringTok r := by
            simp [List.takeWhile_append_dropWhile]
          have hlen : (t :: List.takeWhile isStringTok r).length + (List.dropWhile isStringTok r).length
              = r.length + 1 := by
            have := congrArg List.length hsplit
            simp only [List.length_cons, List.length_append] at this ⊢
            omega
          have hTA := ftieA_of_ftie (σ := σ) (src := src) (t :: List.takeWhile isStringTok r)
            (List.dropWhile isStringTok r) (by rw [← hsplit]; exact hT)
          have hfp : ∀ e, Sum.inr e ∈ pieces → fpiece e = true := fun e he =>
            fpieceL_mem hp e (dedup_inr_mem _ _ pieces none he)
          obtain ⟨i1, i2⟩ := pieces_run T f (List.dropWhile isStringTok r).length (t :: List.takeWhile isStringTok r) pieces
            (by omega) hTA hps hfp
          obtain ⟨d1, d2⟩ := dedup_items rg (initialUOf (t :: List.takeWhile isStringTok r)) pieces none
          rw [← hrg] at d1 d2 ⊢
          refine ⟨d2 i1, ?_⟩
          rw [d1]
          simp only [L, R, List.length_cons]
          refine i2 _ _ (fun k h1 h2 => ⟨T.SS (by omega) (by omega) (by omega), T.EE (by omega) (by omega) (by omega)⟩) ?_
          exact T.SE' (by omega) (by omega) (by omega)
        · cases h

end PV.C13
