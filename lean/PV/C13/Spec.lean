/-
  C13 — reference definition of "row and column of a byte offset", written from the property text
  (not from the Rust control flow):

    row    = 1 + number of line breaks that lie before the offset, where a line break is LF, CR, or
             the pair CR LF counted once;
    column = 1 + number of characters between the start of that line and the offset, a byte order
             mark at the very start of the file not being counted.

  A text is the list of its UTF-8 bytes.  In UTF-8 every character has exactly one byte that is not
  of the form 10xxxxxx (its first byte), so characters are counted by counting those bytes
  (`codePoints_utf8Encode` in `PV/C13/Thm.lean` proves this for every encoded text).
-/
namespace PV.C13.Spec

/-- Offsets just after each line break, in increasing order; `i` is the offset of the head. -/
def breakEnds : Nat → List Nat → List Nat
  | _, [] => []
  | i, 13 :: 10 :: rest => (i + 2) :: breakEnds (i + 2) rest
  | i, 10 :: rest => (i + 1) :: breakEnds (i + 1) rest
  | i, 13 :: rest => (i + 1) :: breakEnds (i + 1) rest
  | i, _ :: rest => breakEnds (i + 1) rest

/-- The line breaks that lie (entirely) before `off`, by their end offsets.  An offset between the
    CR and the LF of a pair is still on the line that the pair terminates. -/
def breaksBefore (src : List Nat) (off : Nat) : List Nat := (breakEnds 0 src).filter (· ≤ off)

/-- Start offset of the line containing `off`: the end of the last break before it, or 0. -/
def lineStartOf (src : List Nat) (off : Nat) : Nat := (breaksBefore src off).getLast?.getD 0

/-- first byte of a character (anything but `10xxxxxx`) -/
def isLead (b : Nat) : Bool := b < 128 || 192 ≤ b

def codePoints (bs : List Nat) : Nat := bs.countP isLead

def startsWithBom : List Nat → Bool
  | 0xEF :: 0xBB :: 0xBF :: _ => true
  | _ => false

/-- the bytes from offset `a` up to offset `b` -/
def between (src : List Nat) (a b : Nat) : List Nat := (src.drop a).take (b - a)

/-- One-indexed (row, column) of the byte offset `off` in `src`. -/
def rowCol (src : List Nat) (off : Nat) : Nat × Nat :=
  let ls := lineStartOf src off
  let from_ := if ls = 0 ∧ startsWithBom src = true ∧ 3 ≤ off then 3 else ls
  (1 + (breaksBefore src off).length, 1 + codePoints (between src from_ off))

end PV.C13.Spec
