import PV.C13.POrdProgNodes
/-
  C13 — `ordM` for the ranged program parser, part 2: the step tactic, expression nodes built at statement level,
  and the twin of `PV.C02.RProgSound1` (expression lists, small statements, imports, type parameters, statement lines).
-/
set_option linter.unusedSimpArgs false
set_option linter.unusedVariables false
set_option linter.unusedSectionVars false
namespace PV.C13
open PV.Expr PV.C11 PV.Prog
open PV.C02

variable {src : List Nat} {σ : SpanTab} {N : Nat}

macro "pgp" : tactic =>
  `(tactic| grind [RExpr.range, RStmt.range, RPattern.range, RTypeParam.range,
    RHandler.range, RCase.range, RCase.body, RHandler.body])

open Lean in
/-- `pstep1 σ [facts]` (one goal left by `fun_cases`): as `PV.C02.rstep1` — fold the span accessors into `S`/`E`/`Sp`,
    instantiate the given specifications (C02's window facts and the ord-facts) at the calls made, `grind` -/
macro "pstep1" sg:ident "[" fs:term,* "]" : tactic => do
  let mut round : Array (TSyntax `tactic) := #[]
  for f in fs.getElems do
    round := round.push (← `(tactic| fwd $f))
  `(tactic| (
    intro h
    try simp only [PostE, PostSm, PostSs, PostOpt, PostC, PostCs, PostP] at *
    try simp (config := { zetaDelta := true }) only [] at *
    all_goals try simp only [*] at h
    all_goals try simp only [Option.some.injEq, Prod.mk.injEq, reduceCtorEq, L, R, P, List.length_cons, false_imp_iff,
      imp_self] at *
    all_goals (
      have hS : ∀ k, ($sg k).1 = S $sg k := fun _ => rfl
      have hE : ∀ k, ($sg k).2 = E $sg k := fun _ => rfl
      have hSp : ∀ k, $sg k = Sp $sg k := fun _ => rfl
      try simp only [hS, hE] at *
      try simp only [hSp] at *
      clear hS hE hSp
      $[$round:tactic]*
      try simp only [List.length_cons] at *
      $[$round:tactic]*
      try simp only [List.length_cons] at *
      $[$round:tactic]*
      try simp only [List.length_cons] at *
      pgp)))

macro "pstep" sg:ident "[" fs:term,* "]" : tactic => `(tactic| all_goals pstep1 $sg [$fs,*])

grind_pattern oo_none => OO none
grind_pattern oo_some => OE e, some e
grind_pattern ol_nil => OL []
grind_pattern ol_cons => OE e, OL es, e :: es
grind_pattern ol_single => OE e, [e]
grind_pattern oks_nil => OKs []
grind_pattern otps_nil => OTPs []
grind_pattern otps_cons => OTP t, OTPs ts, t :: ts
grind_pattern otps_single => OTP t, [t]
grind_pattern owis_cons => OWI w, OWIs ws, w :: ws
grind_pattern owis_single => OWI w, [w]
grind_pattern ohs_nil => OHs []
grind_pattern ops_nil => OPs []
grind_pattern ops_cons => OP p, OPs ps, p :: ps
grind_pattern ops_single => OP p, [p]
grind_pattern ops_snoc => OPs ps, OP p, ps ++ [p]
grind_pattern opo_none => OPO none
grind_pattern opo_some => OP p, some p
grind_pattern oseqL_single => OSL σ J s, [s]
grind_pattern oseqL_cons => TiledTab src σ N, WS src σ j1 k1 s, OSL σ J s, OSeqL σ j2 ss, s :: ss
grind_pattern oseqL_append => TiledTab src σ N, SeqS src σ j m xs, OSeqL σ J xs, OSeqL σ j2 ys, xs ++ ys

/-! ### expression nodes built at statement level -/

section enodes
variable (T : TiledTab src σ N)
include T

theorem oe_tuple {j k jl kl : Nat} {es : List RExpr} (h1 : 1 ≤ k) (h3 : k ≤ j) (h5 : j ≤ N) (hs : SeqI src σ jl kl es)
    (os : OL es) (c : es = [] ∨ (k ≤ kl ∧ jl ≤ j ∧ 1 ≤ jl ∧ kl ≤ N)) : OE (.tuple (S σ j, E σ k) es) := by
  constructor
  intro hp
  simp only [plain] at hp
  simp only [ordE, Bool.and_eq_true]
  refine ⟨?_, os.h hp⟩
  cases es with
  | nil => have := tSE T h1 h3 h5; simp only [List.map_nil, chain, decide_eq_true_eq]; exact this
  | cons e es =>
    obtain ⟨c1, c2, c3, c4⟩ := c.resolve_left (by simp)
    exact chain_seqI hs hp (tSS T c3 c2 h5) (tEE T h1 c1 c4) (by simp)

theorem oe_leaf_name {k : Nat} {n} (h1 : 1 ≤ k) (h2 : k ≤ N) : OE (.name (Sp σ k) n) := by
  constructor
  intro _
  have := tSE T h1 (Nat.le_refl _) h2
  exact decide_eq_true this

theorem oe_leaf_const {k : Nat} {c} (h1 : 1 ≤ k) (h2 : k ≤ N) : OE (.const (Sp σ k) c) := by
  constructor
  intro _
  have := tSE T h1 (Nat.le_refl _) h2
  exact decide_eq_true this

theorem oe_yield_none {k : Nat} (h1 : 1 ≤ k) (h2 : k ≤ N) : OE (.yield (S σ k, E σ k) none) := by
  constructor
  intro _
  have := tSE T h1 (Nat.le_refl _) h2
  simp only [ordE, optRg, ordO, chain, decide_eq_true_eq, Bool.and_true]; exact this

theorem oe_yield_some {j k jc kc : Nat} {e : RExpr} (h1 : 1 ≤ k) (h3 : k ≤ j) (h5 : j ≤ N) (he : Win src σ jc kc e)
    (oe : OE e) (c1 : k ≤ kc) (c2 : jc ≤ j) (c3 : 1 ≤ jc) (c4 : kc ≤ N) : OE (.yield (S σ j, E σ k) (some e)) := by
  constructor
  intro hp
  simp only [plain, plainO] at hp
  have w := win_rg he hp
  have s1 := tSS T c3 c2 h5
  have s2 := tEE T h1 c1 c4
  simp only [ordE, optRg, ordO, Bool.and_eq_true]
  refine ⟨?_, oe.h hp⟩
  repeat chain_step

theorem oe_yieldFrom {j k jc kc : Nat} {e : RExpr} (h1 : 1 ≤ k) (h3 : k ≤ j) (h5 : j ≤ N) (he : Win src σ jc kc e)
    (oe : OE e) (c1 : k ≤ kc) (c2 : jc ≤ j) (c3 : 1 ≤ jc) (c4 : kc ≤ N) : OE (.yieldFrom (S σ j, E σ k) e) := by
  constructor
  intro hp
  simp only [plain] at hp
  have w := win_rg he hp
  have s1 := tSS T c3 c2 h5
  have s2 := tEE T h1 c1 c4
  simp only [ordE, Bool.and_eq_true]
  refine ⟨?_, oe.h hp⟩
  repeat chain_step

theorem oe_unaryOp {j k jc kc : Nat} {op} {e : RExpr} (h1 : 1 ≤ k) (h3 : k ≤ j) (h5 : j ≤ N) (he : Win src σ jc kc e)
    (oe : OE e) (c1 : k ≤ kc) (c2 : jc ≤ j) (c3 : 1 ≤ jc) (c4 : kc ≤ N) : OE (.unaryOp (S σ j, E σ k) op e) := by
  constructor
  intro hp
  simp only [plain] at hp
  have w := win_rg he hp
  have s1 := tSS T c3 c2 h5
  have s2 := tEE T h1 c1 c4
  simp only [ordE, Bool.and_eq_true]
  refine ⟨?_, oe.h hp⟩
  repeat chain_step

theorem oe_attribute {j k jc kc : Nat} {n} {e : RExpr} (h1 : 1 ≤ k) (h3 : k ≤ j) (h5 : j ≤ N) (he : Win src σ jc kc e)
    (oe : OE e) (c1 : k ≤ kc) (c2 : jc ≤ j) (c3 : 1 ≤ jc) (c4 : kc ≤ N) : OE (.attribute (S σ j, E σ k) e n) := by
  constructor
  intro hp
  simp only [plain] at hp
  have w := win_rg he hp
  have s1 := tSS T c3 c2 h5
  have s2 := tEE T h1 c1 c4
  simp only [ordE, Bool.and_eq_true]
  refine ⟨?_, oe.h hp⟩
  repeat chain_step

theorem oe_binOp {j k jl kl jr kr : Nat} {l r : RExpr} {op} (h1 : 1 ≤ k) (h3 : k ≤ j) (h5 : j ≤ N)
    (hl : Win src σ jl kl l) (ol : OE l) (l1 : k ≤ kl) (l2 : jl ≤ j) (l3 : 1 ≤ jl) (l4 : kl ≤ N)
    (hr : Win src σ jr kr r) (or_ : OE r) (r1 : k ≤ kr) (r2 : jr ≤ j) (r3 : 1 ≤ jr) (r4 : kr ≤ N) (c : jr < kl) :
    OE (.binOp (S σ j, E σ k) l op r) := by
  constructor
  intro hp
  simp only [plain, Bool.and_eq_true] at hp
  have wl := win_rg hl hp.1
  have wr := win_rg hr hp.2
  have s1 := tSS T l3 l2 h5
  have s2 := tEE T h1 r1 r4
  have s3 := tES T r3 c l4
  simp only [ordE, Bool.and_eq_true]
  refine ⟨⟨?_, ol.h hp.1⟩, or_.h hp.2⟩
  repeat chain_step

end enodes

grind_pattern oe_tuple => TiledTab src σ N, SeqI src σ jl kl es, OE (RExpr.tuple (S σ j, E σ k) es)
grind_pattern oe_leaf_name => TiledTab src σ N, OE (RExpr.name (Sp σ k) n)
grind_pattern oe_leaf_const => TiledTab src σ N, OE (RExpr.const (Sp σ k) c)
grind_pattern oe_yield_none => TiledTab src σ N, OE (RExpr.yield (S σ k, E σ k) none)
grind_pattern oe_yield_some => TiledTab src σ N, Win src σ jc kc e, OE (RExpr.yield (S σ j, E σ k) (some e))
grind_pattern oe_yieldFrom => TiledTab src σ N, Win src σ jc kc e, OE (RExpr.yieldFrom (S σ j, E σ k) e)
grind_pattern oe_unaryOp => TiledTab src σ N, Win src σ jc kc e, OE (RExpr.unaryOp (S σ j, E σ k) op e)
grind_pattern oe_attribute => TiledTab src σ N, Win src σ jc kc e, OE (RExpr.attribute (S σ j, E σ k) e n)
grind_pattern oe_binOp => TiledTab src σ N, Win src σ jl kl l, Win src σ jr kr r, OE (RExpr.binOp (S σ j, E σ k) l op r)

/-! ### expression lists at statement level -/

section
variable (T : TiledTab src σ N) (OA : ∀ f, OrdAt src σ N f)
include T OA

omit T in
theorem oelem (f : Nat) {ek ts e rest} (hN : ts.length ≤ N) (h : parseRElem σ ek f ts = some (e, rest)) : OE e := by
  cases ek <;> simp only [parseRElem] at h
  · exact oa_testOrStar OA f _ _ _ hN h
  · exact oa_exprOrStar OA f _ _ _ hN h
  · exact oa_starOrNamed OA f _ _ _ hN h
  · exact oa_test OA f _ _ _ hN h

theorem ocommaList : ∀ f ek ts es tc rest, ts.length ≤ N → parseRCommaList σ ek f ts = some ((es, tc), rest) → OL es := by
  refine below_rec (fun n ih => ?_)
  intro ek ts es tc rest hN
  fun_cases parseRCommaList σ ek n ts
  pstep σ [@elem_sound src σ N T, @oelem src σ N OA, ih _ rfl]

theorem ogenericListR {ts rest : List Tok} {es tc} (hN : ts.length ≤ N)
    (h : rest.length < ts.length ∧ SeqI src σ ts.length (rest.length + 1) es ∧ es ≠ [] ∧
      (∀ e, es = [e] → tc = false → Win src σ ts.length (rest.length + 1) e ∧ Ext σ ts rest e)) (os : OL es) :
    OE (genericListR (S σ ts.length, E σ (rest.length + 1)) (es, tc)) := by
  obtain ⟨h1, h2, h3, h4⟩ := h
  unfold genericListR
  split
  · rename_i e heq
    simp only [Prod.mk.injEq] at heq
    obtain ⟨rfl, rfl⟩ := heq
    exact ⟨fun hp => by have := os.h (by simpa [plainL] using hp); simpa [ordL] using this⟩
  · rename_i es' tc' hne heq
    simp only [Prod.mk.injEq] at heq
    obtain ⟨rfl, rfl⟩ := heq
    exact oe_tuple T (by omega) (by omega) hN h2 os (Or.inr ⟨Nat.le_refl _, Nat.le_refl _, by omega, by omega⟩)

theorem ocommaList_generic (f : Nat) : ∀ ek ts es tc rest, ts.length ≤ N →
    parseRCommaList σ ek f ts = some ((es, tc), rest) →
    OE (genericListR (S σ ts.length, E σ (rest.length + 1)) (es, tc)) :=
  fun ek ts es tc rest hN h => ogenericListR T OA hN (commaList_sound T f _ _ _ _ _ hN h) (ocommaList T OA f _ _ _ _ _ hN h)

theorem otestListS (f : Nat) : ∀ ts e rest, ts.length ≤ N → parseRTestListS σ f ts = some (e, rest) → OE e := by
  intro ts e rest hN h
  unfold parseRTestListS at h
  split at h
  · rename_i l r hc
    obtain ⟨es, tc⟩ := l
    simp only [Option.some.injEq, Prod.mk.injEq] at h
    obtain ⟨rfl, rfl⟩ := h
    exact ocommaList_generic T OA f _ _ _ _ _ hN hc
  · cases h

theorem oyieldS (f : Nat) : ∀ ts e rest, ts.length + 1 ≤ N → parseRYieldS σ f ts = some (e, rest) → OE e := by
  intro ts e rest hN
  fun_cases parseRYieldS σ f ts
  pstep σ [testListS_sound T _, (soundAt T _).test, otestListS T OA _, oa_test OA _]

theorem otestListOrYield (f : Nat) : ∀ ts e rest, ts.length ≤ N → parseRTestListOrYield σ f ts = some (e, rest) → OE e := by
  intro ts e rest hN
  fun_cases parseRTestListOrYield σ f ts
  pstep σ [testListS_sound T _, yieldS_sound T _, otestListS T OA _, oyieldS T OA _]


/-! ### expression statements -/

omit T OA in
theorem eq_dropLast_snoc {α : Type} : ∀ {l : List α} {v : α}, l.getLast? = some v → l = l.dropLast ++ [v]
  | [], _, h => by simp at h
  | [x], v, h => by
    simp only [List.getLast?_singleton, Option.some.injEq] at h
    subst h; rfl
  | x :: y :: xs, v, h => by
    have h' : (y :: xs).getLast? = some v := by simpa [List.getLast?_cons_cons] using h
    have := eq_dropLast_snoc h'
    simp only [List.dropLast_cons_cons, List.cons_append]
    rw [← this]

omit OA in
theorem osl_assign_seq {J j k : Nat} {e : RExpr} {vals : List RExpr} {v : RExpr} (h1 : 1 ≤ k) (h3 : k ≤ j)
    (h5 : j ≤ N) (h6 : j ≤ J) (h7 : J ≤ N) (hs : SeqI src σ j k (e :: vals)) (os : OL (e :: vals))
    (hv : vals.getLast? = some v) : OSL σ J (.assign (S σ j, E σ k) (e :: vals.dropLast) v) := by
  obtain ⟨dl, rfl⟩ : ∃ dl, vals = dl ++ [v] := ⟨vals.dropLast, eq_dropLast_snoc hv⟩
  simp only [List.dropLast_concat]
  constructor
  intro hp
  simp only [plainS, Bool.and_eq_true] at hp
  have hpl : plainL (e :: (dl ++ [v])) = true := by
    rw [← List.cons_append, plainL_append]
    simp only [plainL, Bool.and_true, Bool.and_eq_true] at hp ⊢
    exact hp
  have o := os.h hpl
  rw [← List.cons_append, ordL_append] at o
  simp only [ordL, Bool.and_true, Bool.and_eq_true] at o
  have c := chain_seqI hs hpl (Nat.le_refl _) (Nat.le_refl _) (by simp)
  rw [← List.cons_append, List.map_append] at c
  refine ⟨?_, by simp only [stmtLo, stmtDecos, RStmt.range]; exact tSS T (by omega) h6 h7⟩
  simp only [ordS, ordL, Bool.and_eq_true]
  exact ⟨⟨c, o.1⟩, o.2⟩

omit OA in
theorem osl_assign_seq' {J j m j2 k : Nat} {e : RExpr} {vals : List RExpr} {v : RExpr}
    (he : Win src σ j m e) (oe : OE e) (hs : SeqI src σ j2 k vals) (os : OL vals) (c1 : 1 ≤ j2) (c2 : j2 < m) (c3 : m ≤ j)
    (c4 : j ≤ N) (c5 : 1 ≤ k) (c6 : k ≤ j2) (h6 : j ≤ J) (h7 : J ≤ N) (hv : vals.getLast? = some v) :
    OSL σ J (.assign (S σ j, E σ k) (e :: vals.dropLast) v) :=
  osl_assign_seq T c5 (by omega) c4 h6 h7 (seqI_cons T he hs c1 c2 (by omega) c5 (by omega)) (ol_cons oe os) hv


grind_pattern osl_assign_seq' => TiledTab src σ N, Win src σ j m e, SeqI src σ j2 k vals,
  OSL σ J (RStmt.assign (S σ j, E σ k) (e :: vals.dropLast) v)

theorem oassignSuffixes : ∀ f ts es rest, ts.length ≤ N → parseRAssignSuffixes σ f ts = some (es, rest) → OL es := by
  refine below_rec (fun n ih => ?_)
  intro ts es rest hN
  fun_cases parseRAssignSuffixes σ n ts
  pstep σ [testListOrYield_sound T _, assignSuffixes_sound T _, otestListOrYield T OA _, ih _ rfl]

theorem oexprStmt (f : Nat) : ∀ ts s rest, ts.length ≤ N → parseRExprStmt σ f ts = some (s, rest) → OSL σ ts.length s := by
  intro ts s rest hN
  fun_cases parseRExprStmt σ f ts
  pstep σ [commaList_generic T _, assignSuffixes_sound T _, testListOrYield_sound T _, (soundAt T _).test, @assignOfR_some,
    ocommaList_generic T OA _, oassignSuffixes T OA _, otestListOrYield T OA _, oa_test OA _]

/-! ### imports, type parameters, small statements, statement lines -/

theorem oimportFrom (f : Nat) : ∀ ts s rest, ts.length + 1 ≤ N → parseRImportFrom σ f ts = some (s, rest) →
    OSL σ (ts.length + 1) s := by
  intro ts s rest hN
  have hd := importDots_len ts
  fun_cases parseRImportFrom σ f ts
  pstep σ [@dottedTail_len, importAsNames_sound T _]

omit OA in
theorem otp_paramSpec {j k : Nat} {n} (h1 : 1 ≤ k) (h3 : k ≤ j) (h5 : j ≤ N) : OTP (.paramSpec (S σ j, E σ k) n) :=
  ⟨fun _ => decide_eq_true (tSE T h1 h3 h5)⟩
omit OA in
theorem otp_typeVarTuple {j k : Nat} {n} (h1 : 1 ≤ k) (h3 : k ≤ j) (h5 : j ≤ N) : OTP (.typeVarTuple (S σ j, E σ k) n) :=
  ⟨fun _ => decide_eq_true (tSE T h1 h3 h5)⟩

grind_pattern otp_paramSpec => TiledTab src σ N, OTP (RTypeParam.paramSpec (S σ j, E σ k) n)
grind_pattern otp_typeVarTuple => TiledTab src σ N, OTP (RTypeParam.typeVarTuple (S σ j, E σ k) n)

theorem otypeParamItemR (f : Nat) : ∀ ts tp rest, ts.length ≤ N → typeParamItemR σ f ts = some (tp, rest) → OTP tp := by
  intro ts tp rest hN
  fun_cases typeParamItemR σ f ts
  pstep σ [(soundAt T _).test, oa_test OA _]

theorem otypeParams : ∀ f ts tps rest, ts.length ≤ N → parseRTypeParams σ f ts = some (tps, rest) → OTPs tps := by
  refine below_rec (fun n ih => ?_)
  intro ts tps rest hN
  fun_cases parseRTypeParams σ n ts
  pstep σ [typeParamItemR_sound T _, otypeParamItemR T OA _, ih _ rfl]

theorem otypeParamsOpt (f : Nat) : ∀ ts tps rest, ts.length ≤ N → parseRTypeParamsOpt σ f ts = some (tps, rest) →
    OTPs tps := by
  intro ts tps rest hN
  fun_cases parseRTypeParamsOpt σ f ts
  pstep σ [otypeParams T OA _]

theorem osmall (f : Nat) : ∀ ts s rest, ts.length ≤ N → parseRSmall σ f ts = some (s, rest) → OSL σ ts.length s := by
  intro ts s rest hN
  fun_cases parseRSmall σ f ts
  pstep σ [yieldS_sound T _, importFrom_sound T _, commaList_sound T _, testListS_sound T _, (soundAt T _).test,
    importNames_sound T _, parseIdents_len _, typeParamsOpt_sound T _, exprStmt_sound T _,
    oyieldS T OA _, oimportFrom T OA _, ocommaList T OA _, otestListS T OA _, oa_test OA _, otypeParamsOpt T OA _,
    oexprStmt T OA _]

theorem osimpleLine : ∀ f ts ss rest, ts.length ≤ N → parseRSimpleLine σ f ts = some (ss, rest) → OSeqL σ ts.length ss := by
  refine below_rec (fun n ih => ?_)
  intro ts ss rest hN
  fun_cases parseRSimpleLine σ n ts
  pstep σ [small_sound T _, simpleLine_sound T _, osmall T OA _, ih _ rfl]

end

end PV.C13
