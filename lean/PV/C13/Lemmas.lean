import PV.C13.Model
import PV.C13.Spec
import PV.C13.Domain
/-
  C13 — helper lemmas for `PV/C13/Thm.lean`.
-/
namespace PV.C13
open PV.C15 PV.C13.Spec


/-! ### break ends: basic facts -/

theorem lineStartsGo_eq_breakEnds (i : Nat) (bs : List Nat) : lineStartsGo i bs = breakEnds i bs := by
  fun_induction breakEnds i bs <;> simp_all [lineStartsGo]
  next i rest h ih => cases rest <;> simp_all

theorem breakEnds_bounds {i : Nat} {bs : List Nat} {q : Nat} (h : q ∈ breakEnds i bs) :
    i < q ∧ q ≤ i + bs.length := by
  fun_induction breakEnds i bs <;> simp_all <;> grind

theorem breakEnds_sorted (i : Nat) (bs : List Nat) : (breakEnds i bs).Pairwise (· < ·) := by
  fun_induction breakEnds i bs <;> simp_all <;> intro q hq <;> have := breakEnds_bounds hq <;> omega

theorem breakEnds_shift (i : Nat) (bs : List Nat) : breakEnds i bs = (breakEnds 0 bs).map (· + i) := by
  suffices h : ∀ j, breakEnds (i + j) bs = (breakEnds j bs).map (· + i) by simpa using h 0
  intro j
  fun_induction breakEnds j bs <;> simp_all [breakEnds, Nat.add_assoc] <;> omega




/-- no line-break byte -/
def NoNl (bs : List Nat) : Prop := ∀ x ∈ bs, x ≠ 10 ∧ x ≠ 13

/-- the cut between `a` and `b` does not separate a CR from its LF -/
def Junction (a b : List Nat) : Prop := ¬ (a.getLast? = some 13 ∧ b.head? = some 10)

theorem breakEnds_noNl {i : Nat} {bs : List Nat} (h : NoNl bs) : breakEnds i bs = [] := by
  fun_induction breakEnds i bs <;> simp_all [NoNl]

theorem junction_tail {x : Nat} {r : Nat} {rs b : List Nat} (h : Junction (x :: r :: rs) b) :
    Junction (r :: rs) b := by
  simpa [Junction, List.getLast?_cons_cons] using h

theorem breakEnds_append {i : Nat} {a b : List Nat} (h : Junction a b) :
    breakEnds i (a ++ b) = breakEnds i a ++ breakEnds (i + a.length) b := by
  fun_induction breakEnds i a
  · simp
  next i rest ih =>
    have : Junction rest b := by
      cases rest <;> simp_all [Junction, List.getLast?_cons_cons]
    simp [breakEnds, ih this]; congr 1; omega
  next i rest ih =>
    have : Junction rest b := by
      cases rest <;> simp_all [Junction, List.getLast?_cons_cons]
    simp [breakEnds, ih this]; congr 1; omega
  next i rest hne ih =>
    cases rest with
    | nil =>
      cases b with
      | nil => simp [breakEnds]
      | cons x xs =>
        have hx : x ≠ 10 := by simpa [Junction] using h
        have : breakEnds i (13 :: x :: xs) = (i + 1) :: breakEnds (i + 1) (x :: xs) := by
          rw [breakEnds]; intro rest' h'; cases h'; exact hx rfl
        simp [this, breakEnds]
    | cons r rs =>
      have hj : Junction (r :: rs) b := junction_tail h
      have hr : r ≠ 10 := by intro h; simp_all
      have e1 : breakEnds i (13 :: r :: (rs ++ b)) = (i + 1) :: breakEnds (i + 1) (r :: (rs ++ b)) := by
        rw [breakEnds]; intro rest' h'; cases h'; exact hr rfl
      have e2 : breakEnds i (13 :: r :: rs) = (i + 1) :: breakEnds (i + 1) (r :: rs) := by
        rw [breakEnds]; intro rest' h'; cases h'; exact hr rfl
      have := ih hj
      simp only [List.cons_append] at this ⊢
      rw [e1, this]; simp; congr 1; omega
  next i x rest h1 h2 h3 ih =>
    have hj : Junction rest b := by
      cases rest with
      | nil => simp [Junction]
      | cons r rs => exact junction_tail h
    have e1 : ∀ l, breakEnds i (x :: l) = breakEnds (i + 1) l := by
      intro l; rw [breakEnds] <;> simp_all
    simp only [List.cons_append, e1, ih hj]; congr 2; simp; omega




/-- a line terminator as `find_newline` classifies it, given what follows -/
def IsTerm (nl post : List Nat) : Prop :=
  nl = [10] ∨ nl = [13, 10] ∨ (nl = [13] ∧ post.head? ≠ some 10)

theorem findNewline_some {bs : List Nat} {p l : Nat} (h : findNewline bs = some (p, l)) :
    ∃ pre nl post, bs = pre ++ nl ++ post ∧ pre.length = p ∧ nl.length = l ∧ NoNl pre ∧ IsTerm nl post := by
  fun_induction findNewline bs generalizing p l
  · simp at h
  next rest =>
    simp at h; obtain ⟨rfl, rfl⟩ := h
    exact ⟨[], [10], rest, by simp, rfl, rfl, by simp [NoNl], Or.inl rfl⟩
  next rest hb _ =>
    simp at h; obtain ⟨rfl, rfl⟩ := h
    cases rest with
    | nil => simp at hb
    | cons r rs =>
      simp at hb; subst hb
      exact ⟨[], [13, 10], rs, by simp, rfl, rfl, by simp [NoNl], Or.inr (Or.inl rfl)⟩
  next rest hb _ =>
    simp at h; obtain ⟨rfl, rfl⟩ := h
    exact ⟨[], [13], rest, by simp, rfl, rfl, by simp [NoNl], Or.inr (Or.inr ⟨rfl, hb⟩)⟩
  next b rest h1 h2 p' l' heq ih =>
    simp at h; obtain ⟨rfl, rfl⟩ := h
    obtain ⟨pre, nl, post, e, hp, hl, hn, ht⟩ := ih heq
    refine ⟨b :: pre, nl, post, by simp [e], by simp [hp], hl, ?_, ht⟩
    intro x hx
    simp at hx
    rcases hx with rfl | hx
    · exact ⟨h1, h2⟩
    · exact hn x hx
  next b rest h1 h2 heq ih => simp at h

theorem findNewline_none {bs : List Nat} (h : findNewline bs = none) : NoNl bs := by
  fun_induction findNewline bs <;> simp_all [NoNl]




theorem rfindNewline_some {bs : List Nat} {p : Nat} (h : rfindNewline bs = some p) :
    ∃ pre x post, bs = pre ++ x :: post ∧ pre.length = p ∧ (x = 10 ∨ x = 13) ∧ NoNl post := by
  unfold rfindNewline at h
  split at h
  next i hi =>
    simp at h
    rw [List.findIdx?_eq_some_iff_getElem] at hi
    obtain ⟨hlt, hp, hnot⟩ := hi
    simp at hlt
    have hpl : p < bs.length := by omega
    refine ⟨bs.take p, bs[p], bs.drop (p + 1), ?_, ?_, ?_, ?_⟩
    · simp
    · simp; omega
    · have : bs.reverse[i] = bs[p] := by
        rw [List.getElem_reverse]; congr 1
      simpa [this] using hp
    · intro y hy
      rw [List.mem_iff_getElem] at hy
      obtain ⟨k, hk, rfl⟩ := hy
      simp at hk
      have hj := hnot (i - 1 - k) (by omega)
      have : bs.reverse[i - 1 - k]'(by simp; omega) = (bs.drop (p + 1))[k] := by
        rw [List.getElem_reverse, List.getElem_drop]; congr 1; omega
      rw [this] at hj
      simpa [not_or] using hj
  next => simp at h

theorem rfindNewline_none {bs : List Nat} (h : rfindNewline bs = none) : NoNl bs := by
  unfold rfindNewline at h
  split at h
  · simp at h
  next hn =>
    rw [List.findIdx?_eq_none_iff] at hn
    intro x hx
    have := hn x (by simpa using hx)
    simpa [not_or] using this


theorem noNl_junction {a b : List Nat} (h : NoNl a) : Junction a b := by
  intro ⟨h1, _⟩
  have := h 13 (List.mem_of_getLast? h1)
  simp at this

/-- the first break of `pre ++ nl ++ post` when `pre` has none -/
theorem breakEnds_term {i : Nat} {pre nl post : List Nat} (hp : NoNl pre) (ht : IsTerm nl post) :
    breakEnds i (pre ++ nl ++ post) =
      (i + pre.length + nl.length) :: breakEnds (i + pre.length + nl.length) post := by
  rw [List.append_assoc, breakEnds_append (noNl_junction hp), breakEnds_noNl hp]
  rcases ht with rfl | rfl | ⟨rfl, h⟩
  · simp [breakEnds]
  · simp [breakEnds]
  · cases post with
    | nil => simp [breakEnds]
    | cons x xs =>
      have hx : x ≠ 10 := by simpa using h
      have : breakEnds (i + pre.length) (13 :: x :: xs) = (i + pre.length + 1) :: breakEnds (i + pre.length + 1) (x :: xs) := by
        rw [breakEnds]; intro rest' h'; cases h'; exact hx rfl
      simpa using this

theorem breakEnds_length_shift (i : Nat) (bs : List Nat) : (breakEnds i bs).length = (breakEnds 0 bs).length := by
  rw [breakEnds_shift]; simp

/-- a text that ends with a line-break byte: its last break ends at its end -/
theorem breakEnds_getLast {i : Nat} {s : List Nat} {x : Nat} (hx : x = 10 ∨ x = 13) :
    (breakEnds i (s ++ [x])).getLast? = some (i + s.length + 1) := by
  by_cases hj : Junction s [x]
  · rw [breakEnds_append hj]
    rcases hx with rfl | rfl <;> simp [breakEnds]
  · simp only [Junction, Classical.not_not] at hj
    obtain ⟨h1, h2⟩ := hj
    simp at h2; subst h2
    obtain ⟨s', rfl⟩ : ∃ s', s = s' ++ [13] := by
      rcases List.eq_nil_or_concat s with rfl | ⟨s', y, rfl⟩
      · simp at h1
      · simp at h1; subst h1; exact ⟨s', by simp⟩
    have hj' : Junction s' [13, 10] := by simp [Junction]
    have e : s' ++ [13] ++ [10] = s' ++ [13, 10] := by simp
    rw [e, breakEnds_append hj']
    simp [breakEnds]; omega

theorem iterCount_eq (fuel : Nat) (t : List Nat) (off ob : Nat) (hf : t.length < fuel)
    (ht : t = [] ∨ ∃ s x, t = s ++ [x] ∧ (x = 10 ∨ x = 13)) :
    iterCount fuel ⟨t, off, ob⟩ = (breakEnds 0 t).length := by
  induction fuel generalizing t off ob with
  | zero => omega
  | succ fuel ih =>
    rcases ht with rfl | ⟨s, x, rfl, hx⟩
    · simp [iterCount, Iter.next, breakEnds]
    · unfold iterCount Iter.next
      have hne : (s ++ [x]).isEmpty = false := by simp
      simp only [hne]
      cases hfn : findNewline (s ++ [x]) with
      | none =>
        have := findNewline_none hfn x (by simp)
        omega
      | some pl =>
        obtain ⟨p, l⟩ := pl
        obtain ⟨pre, nl, post, e, hp, hl, hn, hterm⟩ := findNewline_some hfn
        simp only [Bool.false_eq_true, ↓reduceIte]
        have hlpos : 0 < l := by
          rcases hterm with rfl | rfl | ⟨rfl, _⟩ <;> simp at hl <;> omega
        have hdrop : (s ++ [x]).drop (p + l) = post := by
          rw [e, ← hp, ← hl]; simp
        rw [hdrop]
        have hpost : post = [] ∨ ∃ s' x', post = s' ++ [x'] ∧ (x' = 10 ∨ x' = 13) := by
          rcases List.eq_nil_or_concat post with rfl | ⟨s', y, rfl⟩
          · exact Or.inl rfl
          · right
            refine ⟨s', y, by simp, ?_⟩
            have : (s ++ [x]).getLast? = (pre ++ nl ++ (s' ++ [y])).getLast? := by rw [e]; simp
            simp [List.getLast?_append] at this
            subst this; exact hx
        have hlen : post.length < fuel := by
          have : (s ++ [x]).length = (pre ++ nl ++ post).length := by rw [e]
          simp at this hf; omega
        rw [ih post _ _ hlen hpost, e, breakEnds_term hn hterm]
        simp [breakEnds_length_shift]; omega

theorem countLines_eq {s : List Nat} {x : Nat} (hx : x = 10 ∨ x = 13) :
    countLines (s ++ [x]) = (breakEnds 0 (s ++ [x])).length := by
  unfold countLines Iter.withOffset
  exact iterCount_eq _ _ _ _ (by omega) (Or.inr ⟨s, x, rfl, hx⟩)


/-! ### strictly increasing lists -/

theorem sorted_filter_lt_cons {x y : Nat} {xs : List Nat} (h : (y :: xs).Pairwise (· < ·)) (hx : x ≤ y) :
    (y :: xs).filter (· < x) = [] := by
  rw [List.filter_eq_nil_iff]
  intro a ha
  have h1 := (List.pairwise_cons.mp h).1
  simp at ha
  rcases ha with rfl | ha
  · simp; omega
  · have := h1 a ha; simp; omega

theorem findIdx_sorted {xs : List Nat} (h : xs.Pairwise (· < ·)) (x : Nat) :
    (∀ i, xs.findIdx? (fun y => decide (x ≤ y)) = some i →
        (xs.filter (· < x)).length = i ∧ (xs[i]? = some x ↔ x ∈ xs)) ∧
    (xs.findIdx? (fun y => decide (x ≤ y)) = none →
        (xs.filter (· < x)).length = xs.length ∧ x ∉ xs) := by
  induction xs with
  | nil => simp
  | cons y ys ih =>
    have hys := (List.pairwise_cons.mp h).2
    have hlt := (List.pairwise_cons.mp h).1
    obtain ⟨ih1, ih2⟩ := ih hys
    by_cases hxy : x ≤ y
    · have hnil : (y :: ys).filter (· < x) = [] := sorted_filter_lt_cons h hxy
      have hnot : x ∉ ys := by intro hm; have := hlt x hm; omega
      constructor
      · intro i hi
        simp [List.findIdx?_cons, hxy] at hi
        subst hi
        rw [hnil]
        simp [hnot]
        constructor <;> intro h' <;> exact h'.symm
      · intro hn
        simp [List.findIdx?_cons, hxy] at hn
    · have hyx : y < x := by omega
      have hne : x ≠ y := by omega
      constructor
      · intro i hi
        simp [List.findIdx?_cons, hxy] at hi
        obtain ⟨j, hj, rfl⟩ := hi
        obtain ⟨a, b⟩ := ih1 j hj
        simp [hyx, a, hne, b]
      · intro hn
        have hn' : List.findIdx? (fun y => decide (x ≤ y)) ys = none := by
          simpa [List.findIdx?_cons, hxy] using hn
        obtain ⟨a, b⟩ := ih2 hn'
        simp [hyx, a, hne, b]

/-- contract of `binarySearch` on a strictly increasing list -/
theorem binarySearch_sorted {xs : List Nat} (h : xs.Pairwise (· < ·)) (x : Nat) :
    binarySearch xs x = (decide (x ∈ xs), (xs.filter (· < x)).length) := by
  obtain ⟨h1, h2⟩ := findIdx_sorted h x
  unfold binarySearch
  cases hf : xs.findIdx? (fun y => decide (x ≤ y)) with
  | none =>
    obtain ⟨a, b⟩ := h2 hf
    simp [a, b]
  | some i =>
    obtain ⟨a, b⟩ := h1 i hf
    simp only [a]
    congr 1
    by_cases hm : x ∈ xs
    · simp [hm, b.mpr hm]
    · have : xs[i]? ≠ some x := fun h' => hm (b.mp h')
      simp [hm, this]

theorem sorted_all_gt {y : Nat} {ys : List Nat} (h : (y :: ys).Pairwise (· < ·)) : ∀ a ∈ ys, y < a :=
  (List.pairwise_cons.mp h).1

/-- a strictly increasing list is its part `≤ x` followed by its part `> x` -/
theorem sorted_split {xs : List Nat} (h : xs.Pairwise (· < ·)) (x : Nat) :
    xs = xs.filter (· ≤ x) ++ xs.filter (x < ·) := by
  induction xs with
  | nil => simp
  | cons y ys ih =>
    have hys := (List.pairwise_cons.mp h).2
    have hgt := sorted_all_gt h
    by_cases hy : y ≤ x
    · have : ¬ x < y := by omega
      have e := ih hys
      simp [hy, this]
      exact e
    · have hxy : x < y := by omega
      have h1 : ys.filter (· ≤ x) = [] := by
        rw [List.filter_eq_nil_iff]; intro a ha; have := hgt a ha; simp; omega
      have h2 : ys.filter (x < ·) = ys := by
        rw [List.filter_eq_self]; intro a ha; have := hgt a ha; simp; omega
      simp [hy, hxy, h1, h2]

theorem sorted_filter_le_of_mem {xs : List Nat} (h : xs.Pairwise (· < ·)) {x : Nat} (hx : x ∈ xs) :
    xs.filter (· ≤ x) = xs.filter (· < x) ++ [x] := by
  induction xs with
  | nil => simp at hx
  | cons y ys ih =>
    have hys := (List.pairwise_cons.mp h).2
    have hgt := sorted_all_gt h
    simp at hx
    rcases hx with rfl | hx
    · have h1 : ys.filter (· ≤ x) = [] := by
        rw [List.filter_eq_nil_iff]; intro a ha; have := hgt a ha; simp; omega
      have h2 : ys.filter (· < x) = [] := by
        rw [List.filter_eq_nil_iff]; intro a ha; have := hgt a ha; simp; omega
      simp [h1, h2]
    · have := hgt x hx
      have hle : y ≤ x := by omega
      simp [hle, this, ih hys hx]

theorem filter_le_eq_lt_of_not_mem {xs : List Nat} {x : Nat} (hx : x ∉ xs) :
    xs.filter (· ≤ x) = xs.filter (· < x) := by
  apply List.filter_congr
  intro a ha
  have : a ≠ x := fun e => hx (e ▸ ha)
  simp; omega

/-- indexing `0 :: xs` at the number of elements `≤ x` gives the last of them (or 0) -/
theorem sorted_getElem_count {xs : List Nat} (h : xs.Pairwise (· < ·)) (x : Nat) :
    (0 :: xs)[(xs.filter (· ≤ x)).length]? = some ((xs.filter (· ≤ x)).getLast?.getD 0) := by
  have hs := sorted_split h x
  generalize hA : xs.filter (· ≤ x) = A at hs ⊢
  generalize xs.filter (x < ·) = B at hs
  subst hs
  rcases List.eq_nil_or_concat A with rfl | ⟨A', a, rfl⟩
  · simp
  · simp


theorem hasBom_eq (src : List Nat) : hasBom src = startsWithBom src := by
  unfold hasBom startsWithBom bom
  match src with
  | [] => simp
  | [a] => simp [List.isPrefixOf]
  | [a, b] => simp [List.isPrefixOf]
  | a :: b :: c :: rest =>
    simp [List.isPrefixOf]
    split
    next h => simp at h; simp [h]
    next h =>
      by_cases h1 : a = 239 <;> by_cases h2 : b = 187 <;> by_cases h3 : c = 191 <;> simp_all <;> omega

theorem charCount_eq_codePoints (bs : List Nat) : charCount bs = codePoints bs := by
  unfold charCount codePoints
  congr 1
  funext b
  simp only [isCont, isLead]
  by_cases h1 : b < 128 <;> by_cases h2 : b < 192 <;> simp [h1, h2]
  · have a1 : 128 ≤ b := by omega
    have a2 : ¬ 192 ≤ b := by omega
    simp [a1, a2]
  · omega

theorem codePoints_ascii {bs : List Nat} (h : isAsciiText bs = true) : codePoints bs = bs.length := by
  unfold codePoints
  rw [List.countP_eq_length]
  intro b hb
  have := (List.all_eq_true.mp h) b hb
  simp [isLead] at this ⊢
  omega

theorem lineStarts_eq (bs : List Nat) : lineStarts bs = 0 :: breakEnds 0 bs := by
  simp [lineStarts, lineStartsGo_eq_breakEnds]

theorem lineStarts_sorted (bs : List Nat) : (lineStarts bs).Pairwise (· < ·) := by
  rw [lineStarts_eq, List.pairwise_cons]
  exact ⟨fun a ha => (breakEnds_bounds ha).1, breakEnds_sorted 0 bs⟩



theorem isBoundary_le {bs : List Nat} {i : Nat} (h : isBoundary bs i = true) : i ≤ bs.length := by
  unfold isBoundary at h
  split at h
  · omega
  · split at h
    · omega
    · split at h
      next b hb => have := (List.getElem?_eq_some_iff.mp hb).1; omega
      · simp at h

theorem between_length {src : List Nat} {a b : Nat} (hb : b ≤ src.length) : (between src a b).length = b - a := by
  simp [between]; omega

theorem isAscii_between {src : List Nat} (h : isAsciiText src = true) (a b : Nat) :
    isAsciiText (between src a b) = true := by
  unfold isAsciiText at h ⊢
  rw [List.all_eq_true] at h ⊢
  intro x hx
  exact h x (List.mem_of_mem_drop (List.mem_of_mem_take hx))

theorem not_bom_of_ascii {src : List Nat} (h : isAsciiText src = true) : startsWithBom src = false := by
  unfold startsWithBom
  split
  · simp [isAsciiText] at h
  · rfl

theorem lineStartOf_le (src : List Nat) (off : Nat) : lineStartOf src off ≤ off := by
  unfold lineStartOf breaksBefore
  cases h : (List.filter (fun x => decide (x ≤ off)) (breakEnds 0 src)).getLast? with
  | none => simp
  | some q =>
    have := List.mem_of_getLast? h
    simp at this
    simp; omega

theorem lineStartOf_mem_or_zero (src : List Nat) (off : Nat) :
    lineStartOf src off = 0 ∨ lineStartOf src off ∈ breakEnds 0 src := by
  unfold lineStartOf breaksBefore
  cases h : (List.filter (fun x => decide (x ≤ off)) (breakEnds 0 src)).getLast? with
  | none => simp
  | some q =>
    have := List.mem_of_getLast? h
    simp at this
    simp [this.1]


/-- the offset characters are counted from -/
def effStart (src : List Nat) (ls off : Nat) : Nat :=
  if ls = 0 ∧ startsWithBom src = true ∧ 3 ≤ off then 3 else ls

theorem rowCol_eq (src : List Nat) (off : Nat) :
    rowCol src off = (1 + (breaksBefore src off).length,
      1 + codePoints (between src (effStart src (lineStartOf src off) off) off)) := rfl

theorem sliceChecked_eq {src : List Nat} {a b : Nat} (hab : a ≤ b) (hb : b ≤ src.length)
    (h1 : isBoundary src a = true) (h2 : isBoundary src b = true) :
    sliceChecked src a b = some (between src a b) := by
  simp [sliceChecked, between, hab, hb, h1, h2]

theorem effStart_boundary {src : List Nat} (hs : LineStartsOk src) (off : Nat) :
    isBoundary src (effStart src (lineStartOf src off) off) = true := by
  unfold effStart
  split
  next h => exact hs.2 h.2.1
  next h =>
    rcases lineStartOf_mem_or_zero src off with h0 | hm
    · rw [h0]; simp [isBoundary]
    · exact hs.1 _ hm

theorem bom_boundary_ge {src : List Nat} {off : Nat} (hb : isBoundary src off = true) (h0 : off ≠ 0)
    (hbom : startsWithBom src = true) : 3 ≤ off := by
  unfold startsWithBom at hbom
  split at hbom
  next tail =>
    match off, h0 with
    | 1, _ => simp [isBoundary, isCont] at hb
    | 2, _ => simp [isBoundary, isCont] at hb
    | n + 3, _ => omega
  · simp at hbom

theorem randomLocate_eq_rowCol {src : List Nat} (hs : LineStartsOk src) {off : Nat}
    (hb : isBoundary src off = true) : randomLocate src off = some (rowCol src off) := by
  have hle : off ≤ src.length := isBoundary_le hb
  have hsorted := breakEnds_sorted 0 src
  have hbs := binarySearch_sorted (lineStarts_sorted src) off
  have hpos : ∀ a ∈ breakEnds 0 src, 0 < a := fun a ha => (breakEnds_bounds ha).1
  rw [rowCol_eq]
  unfold randomLocate sourceLocation
  simp only [hbs]
  rw [lineStarts_eq]
  by_cases hm : off ∈ (0 :: breakEnds 0 src)
  · -- the offset is the start of a line
    simp only [hm, decide_true]
    have hcases : off = 0 ∨ off ∈ breakEnds 0 src := by simpa using hm
    have hrow : ((0 :: breakEnds 0 src).filter (· < off)).length = (breaksBefore src off).length := by
      rcases hcases with rfl | hmem
      · have : breaksBefore src 0 = [] := by
          unfold breaksBefore; rw [List.filter_eq_nil_iff]; intro a ha; have := hpos a ha; simp; omega
        simp [this]
      · have h0 : 0 < off := hpos off hmem
        unfold breaksBefore
        rw [sorted_filter_le_of_mem hsorted hmem]
        simp [h0]
    have hls : lineStartOf src off = off := by
      unfold lineStartOf
      rcases hcases with rfl | hmem
      · have : breaksBefore src 0 = [] := by
          unfold breaksBefore; rw [List.filter_eq_nil_iff]; intro a ha; have := hpos a ha; simp; omega
        simp [this]
      · unfold breaksBefore
        rw [sorted_filter_le_of_mem hsorted hmem]
        simp
    have heff : effStart src off off = off := by
      unfold effStart; split <;> omega
    simp [hrow, hls, heff, between, codePoints]; omega
  · -- inside a line
    have h0 : off ≠ 0 := fun e => hm (by simp [e])
    have hnm : off ∉ breakEnds 0 src := fun e => hm (by simp [e])
    simp only [hm, decide_false]
    have hcount : ((0 :: breakEnds 0 src).filter (· < off)).length = (breaksBefore src off).length + 1 := by
      have : 0 < off := by omega
      unfold breaksBefore
      rw [filter_le_eq_lt_of_not_mem hnm]
      simp [this]
    have hidx : (0 :: breakEnds 0 src)[(breaksBefore src off).length]? = some (lineStartOf src off) :=
      sorted_getElem_count hsorted off
    simp only [hcount, Nat.add_one_ne_zero, ↓reduceIte, Nat.add_sub_cancel, hidx]
    have hlsle := lineStartOf_le src off
    by_cases hasc : isAsciiText src = true
    · have hnb := not_bom_of_ascii hasc
      have heff : effStart src (lineStartOf src off) off = lineStartOf src off := by
        unfold effStart; simp [hnb]
      have hcp := codePoints_ascii (isAscii_between hasc (lineStartOf src off) off)
      rw [between_length hle] at hcp
      simp [hasc, heff, hcp]; omega
    · have h3 : startsWithBom src = true → 3 ≤ off := bom_boundary_ge hb h0
      have heq : (if lineStartOf src off = 0 ∧ bom.isPrefixOf src = true then 3 else lineStartOf src off)
          = effStart src (lineStartOf src off) off := by
        have := hasBom_eq src
        unfold hasBom at this
        unfold effStart
        rw [this]
        by_cases hb' : startsWithBom src = true
        · have := h3 hb'; simp [hb', this]
        · simp [hb']
      have heffle : effStart src (lineStartOf src off) off ≤ off := by
        unfold effStart; split
        next h => exact h.2.2
        next => exact hlsle
      simp only [hasc, Bool.false_eq_true, ↓reduceIte, heq]
      rw [sliceChecked_eq heffle hle (effStart_boundary hs off) hb]
      simp [charCount_eq_codePoints]; omega


/-- a break never ends between a CR and its LF -/
theorem breakEnds_not_inside {i : Nat} {bs : List Nat} {q : Nat} (h : q ∈ breakEnds i bs) :
    ¬ (bs[q - i - 1]? = some 13 ∧ bs[q - i]? = some 10) := by
  fun_induction breakEnds i bs
  · simp at h
  next i rest ih =>
    simp at h
    rcases h with rfl | h
    · simp
    · have hb := breakEnds_bounds h
      have := ih h
      have e1 : q - i - 1 = (q - (i + 2) - 1) + 2 := by omega
      have e2 : q - i = (q - (i + 2)) + 2 := by omega
      rw [e1, e2]; simpa using this
  next i rest ih =>
    simp at h
    rcases h with rfl | h
    · simp
    · have hb := breakEnds_bounds h
      have := ih h
      have e1 : q - i - 1 = (q - (i + 1) - 1) + 1 := by omega
      have e2 : q - i = (q - (i + 1)) + 1 := by omega
      rw [e1, e2]; simpa using this
  next i rest hne ih =>
    simp at h
    rcases h with rfl | h
    · have : rest.head? ≠ some 10 := by
        cases rest with
        | nil => simp
        | cons r rs => simp; intro e; exact hne rs (by rw [e])
      simp [List.head?_eq_getElem?] at this
      simp [this]
    · have hb := breakEnds_bounds h
      have := ih h
      have e1 : q - i - 1 = (q - (i + 1) - 1) + 1 := by omega
      have e2 : q - i = (q - (i + 1)) + 1 := by omega
      rw [e1, e2]; simpa using this
  next i x rest h1 h2 h3 ih =>
    have hb := breakEnds_bounds h
    have := ih h
    have e1 : q - i - 1 = (q - (i + 1) - 1) + 1 := by omega
    have e2 : q - i = (q - (i + 1)) + 1 := by omega
    rw [e1, e2]; simpa using this

theorem breakEnds_good {src : List Nat} {q : Nat} (h : q ∈ breakEnds 0 src) : insideCrlf src q = false := by
  have := breakEnds_not_inside h
  simp at this
  unfold insideCrlf
  by_cases h1 : src[q - 1]? = some 13
  · have := this h1; simp [h1, this]
  · simp [h1]

theorem junction_of_not_inside {src : List Nat} {k : Nat} (h : insideCrlf src k = false) :
    Junction (src.take k) (src.drop k) := by
  intro ⟨h1, h2⟩
  rw [List.head?_drop] at h2
  rw [List.getLast?_take] at h1
  split at h1
  · simp at h1
  next hk =>
    have hlt : k < src.length := (List.getElem?_eq_some_iff.mp h2).1
    have h3 : src[k - 1]? = some 13 := by
      have : k - 1 < src.length := by omega
      simp [List.getElem?_eq_getElem this] at h1 ⊢
      exact h1
    simp [insideCrlf, h2, h3] at h
    omega

/-- cutting the text at an offset that is not inside a CR LF pair cuts its list of breaks -/
theorem breakEnds_split {src : List Nat} {k : Nat} (hk : k ≤ src.length) (h : insideCrlf src k = false) :
    breakEnds 0 src = breakEnds 0 (src.take k) ++ breakEnds k (src.drop k) := by
  have := breakEnds_append (i := 0) (junction_of_not_inside h)
  rw [List.take_append_drop] at this
  simpa [Nat.min_eq_left hk] using this

theorem breaksBefore_eq_take {src : List Nat} {k : Nat} (hk : k ≤ src.length) (h : insideCrlf src k = false) :
    breaksBefore src k = breakEnds 0 (src.take k) := by
  unfold breaksBefore
  rw [breakEnds_split hk h, List.filter_append]
  have h1 : (breakEnds 0 (src.take k)).filter (· ≤ k) = breakEnds 0 (src.take k) := by
    rw [List.filter_eq_self]; intro a ha
    have := breakEnds_bounds ha
    simp at this ⊢; omega
  have h2 : (breakEnds k (src.drop k)).filter (· ≤ k) = [] := by
    rw [List.filter_eq_nil_iff]; intro a ha
    have := breakEnds_bounds ha
    simp; omega
  simp [h1, h2]

theorem breaksAfter_eq_drop {src : List Nat} {k : Nat} (hk : k ≤ src.length) (h : insideCrlf src k = false) :
    (breakEnds 0 src).filter (k < ·) = breakEnds k (src.drop k) := by
  rw [breakEnds_split hk h, List.filter_append]
  have h1 : (breakEnds 0 (src.take k)).filter (k < ·) = [] := by
    rw [List.filter_eq_nil_iff]; intro a ha
    have := breakEnds_bounds ha
    simp at this ⊢; omega
  have h2 : (breakEnds k (src.drop k)).filter (k < ·) = breakEnds k (src.drop k) := by
    rw [List.filter_eq_self]; intro a ha
    have := breakEnds_bounds ha
    simp; omega
  simp [h1, h2]


end PV.C13
