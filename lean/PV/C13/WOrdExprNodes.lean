import PV.C13.WOrdBase
/-
  C13 — GENERATED from POrdExprNodes.lean (namespace `PV.C13.W`, C02's tied induction; step tactic `wstp`).
-/
set_option linter.unusedSimpArgs false
set_option linter.unusedVariables false
namespace PV.C13.W
open PV.Expr PV.C11
open PV.C02.F
open PV.C02 hiding BelowS PInv PItem PV.C02.F.PItem.plain PV.C02.F.PItem.range PV.C02.F.PItem.tree PostE RS RS.mono RSC RSD RSI RSK Res.intro' SeqC SeqD SeqI SeqK SeqP SoundAt TiledTab.SE' Win Win.mono WinC WinD WinK allSlot_compTrees allSlot_keyTrees allSlot_kwTrees allSlot_valueTrees argChildren_eq argItems argItems_kwarg argItems_nil argItems_snoc_args argItems_snoc_kwonly argItems_vararg binOpAt_len cmpOpAt_len comp_node_ok dropWhile_len idx itemR_spec item_ok item_range keyTrees_eq keysOf kw_node_ok okList_compTrees okList_items okList_kwTrees okList_optTree own_attribute own_await own_binOp own_boolOp own_call own_compare own_const own_const' own_dict own_dictComp own_dict_nil own_genExp own_ifExp own_lambda own_lambda_empty own_list own_listComp own_list_nil own_name own_namedExpr own_rsd_none own_set own_setComp own_slice own_starred own_subscript own_tuple own_tuple_nil own_unaryOp own_yieldFrom own_yield_none own_yield_some paramTrees_eq pinv_empty pinv_mono plain plainComps plainItems plainKws plainL plainO plainParams plainParams_items plain_argItems rgOk_le rs_attribute rs_await rs_binOp rs_boolOp rs_call rs_compLike rs_compare rs_const rs_dict rs_dictComp rs_genExp rs_ifExp rs_lambda rs_list rs_listComp rs_listLike rs_name rs_namedExpr rs_not_plain rs_set rs_setComp rs_slice rs_starred rs_subscript rs_tuple rs_unaryOp rs_yieldFrom rs_yield_none rs_yield_some rsc_idx rsc_mk rsd_idx_none rsd_idx_some rsd_mk_none rsd_mk_some rsi_arg rsi_param rsi_param_default rsi_relabel rsk_idx rsk_mk seqC_cons seqC_mono seqC_single seqD_cons seqD_mono seqD_nil seqD_single seqI_cons seqI_mono seqI_nil seqI_single seqI_snoc seqI_snoc' seqK_mono seqK_nil seqK_snoc seqK_snoc' seqP_mono seqP_snoc seqP_snoc_to seq_keys seq_plain seq_relabel seq_values seqrs_cons seqrs_mono seqrs_nil seqrs_single seqrs_snoc seqrsc_cons seqrsc_mono seqrsc_single seqrsd_cons seqrsd_mono seqrsd_nil seqrsk_mono seqrsk_nil seqrsk_snoc sibsOk_compTrees sibsOk_items sibsOk_kwTrees sliceRest_unfold sliceTail sliceUp sliceUp_spec soundAt soundAt_of_below sstep_andRest sstep_andTest sstep_arg sstep_args sstep_args0 sstep_atom sstep_atomExpr sstep_atomExpr2 sstep_bin sstep_binLoop sstep_braceAtom sstep_braceFirst sstep_cmp sstep_cmpRest sstep_compFor sstep_compIfs sstep_dictRest sstep_elems sstep_exprOrStar sstep_factor sstep_lambda sstep_listAtom sstep_namedTest sstep_notTest sstep_orRest sstep_orTest sstep_params sstep_parenAtom sstep_power sstep_sliceRest sstep_starOrNamed sstep_strings sstep_subscript sstep_subscriptList sstep_subscripts sstep_targetList sstep_targetRest sstep_test sstep_testList sstep_testListRest sstep_testOrStar sstep_trailers sstep_yieldAtom unaryOpAt_len valueTrees_eq valuesOf win_attribute win_await win_binOp win_boolOp win_call win_compare win_const win_const' win_dict win_dictComp win_dict_nil win_genExp win_ifExp win_lambda win_list win_listComp win_list_nil win_name win_namedExpr win_set win_setComp win_slice win_starred win_subscript win_tuple win_tuple_nil win_unaryOp win_yieldFrom win_yield_none win_yield_some windowed_rs windowed_rsc windowed_rsd windowed_rsi windowed_rsk

variable {src : List Nat} {σ : SpanTab} {N : Nat}

/-! ### chains of the items of list fields -/

/-- `chain_seq` without the window being non-empty: enough that the whole stretch is -/
theorem chain_seq' : ∀ {es : List RExpr} {lo hi a b : Nat}, SeqG (RS src) lo hi es → plainL es = true → a ≤ lo → hi ≤ b →
    a ≤ b → chain a (es.map RExpr.range) b = true
  | [], lo, hi, a, b, _, _, h1, h2, h3 => by simp [chain]; omega
  | e :: es, lo, hi, a, b, ⟨m, g1, g2, g3⟩, hp, h1, h2, h3 => by
    simp only [plainL, Bool.and_eq_true] at hp
    obtain ⟨r1, r2, r3, _⟩ := g1.2 hp.1
    have hle := rgOk_le (show rgOk src (e.range.1, e.range.2) from r1)
    simp only [List.map_cons, chain, Bool.and_eq_true, decide_eq_true_eq]
    refine ⟨by omega, chain_seq' g3 hp.2 r3 h2 (by omega)⟩

theorem chain_seqC : ∀ {gs : List RComp} {lo hi a b : Nat}, SeqG (RSC src) lo hi gs → plainComps gs = true → a ≤ lo →
    hi ≤ b → a ≤ b → chain a (gs.map compRg) b = true
  | [], lo, hi, a, b, _, _, h1, h2, h3 => by simp [chain]; omega
  | .mk rg t i ifs ia :: gs, lo, hi, a, b, ⟨m, g1, g2, g3⟩, hp, h1, h2, h3 => by
    simp only [plainComps, Bool.and_eq_true] at hp
    obtain ⟨r1, r2, r3, _⟩ := g1.2 (by simp [hp.1])
    have hle := rgOk_le (show rgOk src (rg.1, rg.2) from r1)
    simp only [List.map_cons, chain, compRg, Bool.and_eq_true, decide_eq_true_eq]
    refine ⟨by omega, chain_seqC g3 hp.2 r3 h2 (by omega)⟩

theorem chain_seqD : ∀ {is : List RDictItem} {lo hi a b : Nat}, SeqG (RSD src) lo hi is → plainItems is = true → a ≤ lo →
    hi ≤ b → a ≤ b → chain a (itemSegs is) b = true
  | [], lo, hi, a, b, _, _, h1, h2, h3 => by simp [chain, itemSegs]; omega
  | .mk k v :: is, lo, hi, a, b, ⟨m, g1, g2, g3⟩, hp, h1, h2, h3 => by
    simp only [plainItems, Bool.and_eq_true] at hp
    obtain ⟨m1, q1, q2, q3⟩ := g1.2 (by simp [hp.1])
    obtain ⟨v1, v2, v3, _⟩ := q3
    have vle := rgOk_le (show rgOk src (v.range.1, v.range.2) from v1)
    cases k with
    | none =>
      simp only [itemSegs, optRg, List.nil_append, chain, Bool.and_eq_true, decide_eq_true_eq]
      exact ⟨by omega, chain_seqD g3 hp.2 v3 h2 (by omega)⟩
    | some k' =>
      obtain ⟨k1, k2, k3, _⟩ := q1 k' rfl
      have kle := rgOk_le (show rgOk src (k'.range.1, k'.range.2) from k1)
      simp only [itemSegs, optRg, List.cons_append, List.nil_append, chain, Bool.and_eq_true, decide_eq_true_eq]
      exact ⟨by omega, by omega, chain_seqD g3 hp.2 v3 h2 (by omega)⟩

theorem chain_seqP : ∀ {xs : List PItem} {lo hi a b : Nat}, SeqG (RSI src) lo hi xs → (∀ x ∈ xs, x.plain = true) → a ≤ lo →
    hi ≤ b → a ≤ b → chain a (xs.map PV.C02.F.PItem.range) b = true
  | [], lo, hi, a, b, _, _, h1, h2, h3 => by simp [chain]; omega
  | x :: xs, lo, hi, a, b, ⟨m, g1, g2, g3⟩, hp, h1, h2, h3 => by
    obtain ⟨r1, r2, r3, _⟩ := g1.2 (hp x (by simp))
    have hle := rgOk_le (show rgOk src (x.range.1, x.range.2) from r1)
    simp only [List.map_cons, chain, Bool.and_eq_true, decide_eq_true_eq]
    refine ⟨by omega, chain_seqP g3 (fun y hy => hp y (by simp [hy])) r3 h2 (by omega)⟩

theorem map_paramRg (s : String) (ps : List RParam) : ps.map paramRg = (ps.map (PV.C02.F.PItem.param s)).map PV.C02.F.PItem.range := by
  induction ps with
  | nil => rfl
  | cons p ps ih => cases p; simp [paramRg, PV.C02.F.PItem.range, ih]

theorem lamSegs_eq (po ar : List RParam) (va : Option (Rg × Ident)) (ko : List RParam) (kw : Option (Rg × Ident)) :
    lamSegs po ar va ko kw = (argItems po ar va ko kw).map PV.C02.F.PItem.range := by
  simp only [lamSegs, argItems, List.map_append, map_paramRg "posonlyargs" po, map_paramRg "args" ar,
    map_paramRg "kwonlyargs" ko, List.append_assoc]
  cases va <;> cases kw <;> simp [argOSeg, PV.C02.F.PItem.range]

/-- keywords in consecutive windows start behind whatever ends before the first window -/
theorem ordKws_from : ∀ {ks : List RKeyword} {lo hi x : Nat}, SeqG (RSK src) lo hi ks → plainKws ks = true →
    ordKws 0 ks = true → x ≤ lo → ordKws x ks = true
  | [], _, _, _, _, _, _, _ => rfl
  | .mk rg n v :: ks, lo, hi, x, ⟨m, g1, g2, g3⟩, hp, ho, hx => by
    simp only [plainKws, Bool.and_eq_true] at hp
    simp only [ordKws, Bool.and_eq_true, decide_eq_true_eq] at ho ⊢
    obtain ⟨r1, r2, r3, _⟩ := g1.2 hp.1
    have hle := rgOk_le (show rgOk src (rg.1, rg.2) from r1)
    exact ⟨⟨⟨by omega, ho.1.1.2⟩, ho.1.2⟩, ordKws_from g3 hp.2 ho.2 (by omega)⟩

/-! ### unfolding equations for `grind` -/

@[grind =] theorem plain_name' (rg id) : plain (.name rg id) = true := rfl
@[grind =] theorem plain_const' (rg c) : plain (.const rg c) = true := rfl
@[grind =] theorem plain_namedExpr' (rg t v) : plain (.namedExpr rg t v) = (plain t && plain v) := rfl
@[grind =] theorem plain_unaryOp' (rg op e) : plain (.unaryOp rg op e) = plain e := rfl
@[grind =] theorem plain_lambda' (rg a po ar va ko kw b) :
    plain (.lambda rg a po ar va ko kw b) = (plainParams po && plainParams ar && plainParams ko && plain b) := rfl
@[grind =] theorem plain_dict' (rg is) : plain (.dict rg is) = plainItems is := rfl
@[grind =] theorem plain_set' (rg es) : plain (.set rg es) = plainL es := rfl
@[grind =] theorem plain_listComp' (rg e gs) : plain (.listComp rg e gs) = (plain e && plainComps gs) := rfl
@[grind =] theorem plain_setComp' (rg e gs) : plain (.setComp rg e gs) = (plain e && plainComps gs) := rfl
@[grind =] theorem plain_dictComp' (rg k v gs) : plain (.dictComp rg k v gs) = (plain k && plain v && plainComps gs) := rfl
@[grind =] theorem plain_genExp' (rg e gs) : plain (.genExp rg e gs) = (plain e && plainComps gs) := rfl
@[grind =] theorem plain_await' (rg e) : plain (.await rg e) = plain e := rfl
@[grind =] theorem plain_yield' (rg e) : plain (.yield rg e) = plainO e := rfl
@[grind =] theorem plain_yieldFrom' (rg e) : plain (.yieldFrom rg e) = plain e := rfl
@[grind =] theorem plain_compare' (rg l ops cs) : plain (.compare rg l ops cs) = (plain l && plainL cs) := rfl
@[grind =] theorem plain_call' (rg f as ks) : plain (.call rg f as ks) = (plain f && plainL as && plainKws ks) := rfl
@[grind =] theorem plain_formattedValue' (rg v c s) : plain (.formattedValue rg v c s) = false := rfl
@[grind =] theorem plain_joinedStr' (rg vs) : plain (.joinedStr rg vs) = false := rfl
@[grind =] theorem plain_attribute' (rg e a) : plain (.attribute rg e a) = plain e := rfl
@[grind =] theorem plain_subscript' (rg e s) : plain (.subscript rg e s) = (plain e && plain s) := rfl
@[grind =] theorem plain_starred' (rg e) : plain (.starred rg e) = plain e := rfl
@[grind =] theorem plain_list' (rg es) : plain (.list rg es) = plainL es := rfl
@[grind =] theorem plain_tuple' (rg es) : plain (.tuple rg es) = plainL es := rfl
@[grind =] theorem plain_slice' (rg a b c) : plain (.slice rg a b c) = (plainO a && plainO b && plainO c) := rfl
@[grind =] theorem plainO_none' : plainO none = true := rfl
@[grind =] theorem plainO_some' (e) : plainO (some e) = plain e := rfl
@[grind =] theorem plainComps_nil' : plainComps [] = true := rfl
@[grind =] theorem plainComps_cons' (rg t i ifs a gs) :
    plainComps (.mk rg t i ifs a :: gs) = (plain t && plain i && plainL ifs && plainComps gs) := rfl
@[grind =] theorem plainKws_nil' : plainKws [] = true := rfl
@[grind =] theorem plainKws_cons' (rg a v ks) : plainKws (.mk rg a v :: ks) = (plain v && plainKws ks) := rfl
@[grind =] theorem plainItems_nil' : plainItems [] = true := rfl
@[grind =] theorem plainItems_cons' (k v is) : plainItems (.mk k v :: is) = (plainO k && plain v && plainItems is) := rfl
@[grind =] theorem ordO_none' : ordO none = true := rfl
@[grind =] theorem ordO_some' (e) : ordO (some e) = ordE e := rfl
@[grind =] theorem ordComps_nil' : ordComps [] = true := rfl
@[grind =] theorem ordKws_nil' (lo) : ordKws lo [] = true := rfl
@[grind =] theorem ordItems_nil' : ordItems [] = true := rfl
@[grind =] theorem ordItems_cons' (k v is) : ordItems (.mk k v :: is) = (ordO k && ordE v && ordItems is) := rfl

theorem plainL_app : ∀ (xs ys : List RExpr), plainL (xs ++ ys) = (plainL xs && plainL ys)
  | [], ys => by simp [plainL]
  | x :: xs, ys => by simp [plainL, plainL_app xs ys, Bool.and_assoc]
theorem ordL_app : ∀ (xs ys : List RExpr), ordL (xs ++ ys) = (ordL xs && ordL ys)
  | [], ys => by simp [ordL]
  | x :: xs, ys => by simp [ordL, ordL_app xs ys, Bool.and_assoc]
theorem plainKws_append : ∀ (xs ys : List RKeyword), plainKws (xs ++ ys) = (plainKws xs && plainKws ys)
  | [], ys => by simp [plainKws]
  | .mk _ _ _ :: xs, ys => by simp [plainKws, plainKws_append xs ys, Bool.and_assoc]
theorem ordKws_append (lo : Nat) : ∀ (xs ys : List RKeyword), ordKws lo (xs ++ ys) = (ordKws lo xs && ordKws lo ys)
  | [], ys => by simp [ordKws]
  | .mk _ _ _ :: xs, ys => by simp [ordKws, ordKws_append lo xs ys, Bool.and_assoc]
theorem plainParams_append : ∀ (xs ys : List RParam), plainParams (xs ++ ys) = (plainParams xs && plainParams ys)
  | [], ys => by simp [plainParams]
  | .mk _ _ _ _ :: xs, ys => by simp [plainParams, plainParams_append xs ys, Bool.and_assoc]
theorem ordPs_append : ∀ (xs ys : List RParam), ordPs (xs ++ ys) = (ordPs xs && ordPs ys)
  | [], ys => by simp [ordPs]
  | .mk _ _ _ _ :: xs, ys => by simp [ordPs, ordPs_append xs ys, Bool.and_assoc]

@[grind =] theorem plainL_snoc' (xs : List RExpr) (x) : plainL (xs ++ [x]) = (plainL xs && plain x) := by
  simp [plainL_app, plainL]
@[grind =] theorem ordL_snoc' (xs : List RExpr) (x) : ordL (xs ++ [x]) = (ordL xs && ordE x) := by
  simp [ordL_app, ordL]
@[grind =] theorem plainKws_snoc' (xs : List RKeyword) (rg a v) :
    plainKws (xs ++ [.mk rg a v]) = (plainKws xs && plain v) := by
  simp [plainKws_append, plainKws]

/-! ### one lemma per node kind -/

section nodes
variable (T : TiledTab src σ N)
include T

/-- one child inside the node -/
theorem chain1 {j k jc kc : Nat} {e : RExpr} (he : Win src σ jc kc e) (pe : plain e = true)
    (c1 : jc ≤ j) (c2 : j ≤ N) (c3 : 1 ≤ jc) (c4 : k ≤ kc) (c5 : 1 ≤ k) (c6 : kc ≤ N) :
    chain (S σ j) [e.range] (E σ k) = true := by
  obtain ⟨e1, e2, e3⟩ := win_rg he pe
  have q1 := T.SS c3 c1 c2
  have q2 := T.EE c5 c4 c6
  simp only [chain, Bool.and_eq_true, decide_eq_true_eq]
  simp only [S, E] at *
  omega

/-- two children, the second behind the first -/
theorem chain2 {j k jl kl jr kr : Nat} {l r : RExpr}
    (hl : Win src σ jl kl l) (hr : Win src σ jr kr r) (pl : plain l = true) (pr : plain r = true)
    (c1 : jl ≤ j) (c1' : j ≤ N) (c7 : 1 ≤ jl) (c2 : jr < kl) (c2' : kl ≤ N) (c8 : 1 ≤ jr) (c4 : k ≤ kr) (c5 : 1 ≤ k)
    (c6 : kr ≤ N) : chain (S σ j) [l.range, r.range] (E σ k) = true := by
  obtain ⟨l1, l2, l3⟩ := win_rg hl pl
  obtain ⟨r1, r2, r3⟩ := win_rg hr pr
  have e1 := T.SS c7 c1 c1'
  have e2 := T.ES c8 c2 c2'
  have e4 := T.EE c5 c4 c6
  simp only [chain, Bool.and_eq_true, decide_eq_true_eq]
  simp only [S, E] at *
  omega

theorem ord_name {j k : Nat} {id} (h1 : 1 ≤ k) (h2 : k ≤ j) (h3 : j ≤ N) : ordE (.name (S σ j, E σ k) id) = true := by
  have := T.SE' h1 h2 h3
  simp only [ordE, chain, decide_eq_true_eq]; exact this
theorem ord_const {j k : Nat} {c} (h1 : 1 ≤ k) (h2 : k ≤ j) (h3 : j ≤ N) : ordE (.const (S σ j, E σ k) c) = true := by
  have := T.SE' h1 h2 h3
  simp only [ordE, chain, decide_eq_true_eq]; exact this
theorem ord_name_sp {k : Nat} {id} (h1 : 1 ≤ k) (h3 : k ≤ N) : ordE (.name (Sp σ k) id) = true :=
  ord_name T h1 (Nat.le_refl _) h3
theorem ord_const_sp {k : Nat} {c} (h1 : 1 ≤ k) (h3 : k ≤ N) : ordE (.const (Sp σ k) c) = true :=
  ord_const T h1 (Nat.le_refl _) h3
theorem ord_yield_none {j k : Nat} (h1 : 1 ≤ k) (h2 : k ≤ j) (h3 : j ≤ N) : ordE (.yield (S σ j, E σ k) none) = true := by
  have := T.SE' h1 h2 h3
  simp only [ordE, chain, optRg, ordO, Bool.and_true, decide_eq_true_eq]; exact this
theorem ord_yield_none_sp {k : Nat} (h1 : 1 ≤ k) (h3 : k ≤ N) : ordE (.yield (Sp σ k) none) = true :=
  ord_yield_none T h1 (Nat.le_refl _) h3

theorem ord_unaryOp {j k jc kc : Nat} {op} {e : RExpr} (he : Win src σ jc kc e) (pe : plain e = true) (oe : ordE e = true)
    (c1 : jc ≤ j) (c2 : j ≤ N) (c3 : 1 ≤ jc) (c4 : k ≤ kc) (c5 : 1 ≤ k) (c6 : kc ≤ N) :
    ordE (.unaryOp (S σ j, E σ k) op e) = true := by
  simp only [ordE, Bool.and_eq_true]; exact ⟨chain1 T he pe c1 c2 c3 c4 c5 c6, oe⟩
theorem ord_await {j k jc kc : Nat} {e : RExpr} (he : Win src σ jc kc e) (pe : plain e = true) (oe : ordE e = true)
    (c1 : jc ≤ j) (c2 : j ≤ N) (c3 : 1 ≤ jc) (c4 : k ≤ kc) (c5 : 1 ≤ k) (c6 : kc ≤ N) :
    ordE (.await (S σ j, E σ k) e) = true := by
  simp only [ordE, Bool.and_eq_true]; exact ⟨chain1 T he pe c1 c2 c3 c4 c5 c6, oe⟩
theorem ord_yieldFrom {j k jc kc : Nat} {e : RExpr} (he : Win src σ jc kc e) (pe : plain e = true) (oe : ordE e = true)
    (c1 : jc ≤ j) (c2 : j ≤ N) (c3 : 1 ≤ jc) (c4 : k ≤ kc) (c5 : 1 ≤ k) (c6 : kc ≤ N) :
    ordE (.yieldFrom (S σ j, E σ k) e) = true := by
  simp only [ordE, Bool.and_eq_true]; exact ⟨chain1 T he pe c1 c2 c3 c4 c5 c6, oe⟩
theorem ord_starred {j k jc kc : Nat} {e : RExpr} (he : Win src σ jc kc e) (pe : plain e = true) (oe : ordE e = true)
    (c1 : jc ≤ j) (c2 : j ≤ N) (c3 : 1 ≤ jc) (c4 : k ≤ kc) (c5 : 1 ≤ k) (c6 : kc ≤ N) :
    ordE (.starred (S σ j, E σ k) e) = true := by
  simp only [ordE, Bool.and_eq_true]; exact ⟨chain1 T he pe c1 c2 c3 c4 c5 c6, oe⟩
theorem ord_attribute {j k jc kc : Nat} {n} {e : RExpr} (he : Win src σ jc kc e) (pe : plain e = true) (oe : ordE e = true)
    (c1 : jc ≤ j) (c2 : j ≤ N) (c3 : 1 ≤ jc) (c4 : k ≤ kc) (c5 : 1 ≤ k) (c6 : kc ≤ N) :
    ordE (.attribute (S σ j, E σ k) e n) = true := by
  simp only [ordE, Bool.and_eq_true]; exact ⟨chain1 T he pe c1 c2 c3 c4 c5 c6, oe⟩
theorem ord_yield_some {j k jc kc : Nat} {e : RExpr} (he : Win src σ jc kc e) (pe : plain e = true) (oe : ordE e = true)
    (c1 : jc ≤ j) (c2 : j ≤ N) (c3 : 1 ≤ jc) (c4 : k ≤ kc) (c5 : 1 ≤ k) (c6 : kc ≤ N) :
    ordE (.yield (S σ j, E σ k) (some e)) = true := by
  simp only [ordE, optRg, ordO, Bool.and_eq_true]; exact ⟨chain1 T he pe c1 c2 c3 c4 c5 c6, oe⟩

theorem ord_subscript {j k jl kl jr kr : Nat} {l r : RExpr}
    (hl : Win src σ jl kl l) (hr : Win src σ jr kr r) (pl : plain l = true) (pr : plain r = true)
    (ol : ordE l = true) (or_ : ordE r = true)
    (c1 : jl ≤ j) (c1' : j ≤ N) (c7 : 1 ≤ jl) (c2 : jr < kl) (c2' : kl ≤ N) (c8 : 1 ≤ jr) (c4 : k ≤ kr) (c5 : 1 ≤ k)
    (c6 : kr ≤ N) : ordE (.subscript (S σ j, E σ k) l r) = true := by
  simp only [ordE, Bool.and_eq_true]; exact ⟨⟨chain2 T hl hr pl pr c1 c1' c7 c2 c2' c8 c4 c5 c6, ol⟩, or_⟩

/-- `NamedExpr`: from the name (token `j0`) to the end of the value -/
theorem ord_namedExpr {j0 j k : Nat} {v : RExpr} {n} (hv : Win src σ j k v) (pv : plain v = true) (ov : ordE v = true)
    (h1 : 1 ≤ j) (h2 : j < j0) (h3 : j0 ≤ N) :
    ordE (.namedExpr (S σ j0, v.range.2) (.name (Sp σ j0) n) v) = true := by
  obtain ⟨v1, v2, v3⟩ := win_rg hv pv
  have e1 := T.ES h1 h2 h3
  have e2 := T.SE (k := j0) (by omega) h3
  have hn : ordE (.name (Sp σ j0) n) = true := by
    simp only [ordE, chain, Sp]; exact decide_eq_true e2
  have hr : ∀ n, (RExpr.name (Sp σ j0) n).range = σ j0 := fun _ => rfl
  rw [ordE, hn, ov]
  simp only [chain, hr, Bool.and_eq_true, decide_eq_true_eq, and_true]
  simp only [S, E] at *
  omega

/-- nodes with one list field: the items in consecutive windows -/
theorem ord_set {j k jl kl : Nat} {es : List RExpr} (hs : SeqI src σ jl kl es) (hp : plainL es = true)
    (ho : ordL es = true) (c1 : jl ≤ j) (c2 : j ≤ N) (c3 : 1 ≤ jl) (c4 : k ≤ kl) (c5 : 1 ≤ k) (c6 : kl ≤ N) (c7 : kl ≤ jl) :
    ordE (.set (S σ j, E σ k) es) = true := by
  have e1 := T.SS c3 c1 c2
  have e4 := T.EE c5 c4 c6
  have e5 := T.SE' (j := jl) (k := kl) (by omega) c7 (by omega)
  simp only [ordE, Bool.and_eq_true, ho, and_true]
  exact chain_seq hs hp e1 e4 e5
theorem ord_list {j k jl kl : Nat} {es : List RExpr} (hs : SeqI src σ jl kl es) (hp : plainL es = true)
    (ho : ordL es = true) (c1 : jl ≤ j) (c2 : j ≤ N) (c3 : 1 ≤ jl) (c4 : k ≤ kl) (c5 : 1 ≤ k) (c6 : kl ≤ N) (c7 : kl ≤ jl) :
    ordE (.list (S σ j, E σ k) es) = true := by
  have e1 := T.SS c3 c1 c2
  have e4 := T.EE c5 c4 c6
  have e5 := T.SE' (j := jl) (k := kl) (by omega) c7 (by omega)
  simp only [ordE, Bool.and_eq_true, ho, and_true]
  exact chain_seq hs hp e1 e4 e5
theorem ord_tuple {j k jl kl : Nat} {es : List RExpr} (hs : SeqI src σ jl kl es) (hp : plainL es = true)
    (ho : ordL es = true) (c1 : jl ≤ j) (c2 : j ≤ N) (c3 : 1 ≤ jl) (c4 : k ≤ kl) (c5 : 1 ≤ k) (c6 : kl ≤ N) (c7 : kl ≤ jl) :
    ordE (.tuple (S σ j, E σ k) es) = true := by
  have e1 := T.SS c3 c1 c2
  have e4 := T.EE c5 c4 c6
  have e5 := T.SE' (j := jl) (k := kl) (by omega) c7 (by omega)
  simp only [ordE, Bool.and_eq_true, ho, and_true]
  exact chain_seq hs hp e1 e4 e5
theorem ord_list_nil {j k : Nat} (h1 : 1 ≤ k) (h2 : k ≤ j) (h3 : j ≤ N) : ordE (.list (S σ j, E σ k) []) = true := by
  have := T.SE' h1 h2 h3
  simp only [ordE, chain, ordL, List.map_nil, Bool.and_true, decide_eq_true_eq]; exact this
theorem ord_tuple_nil {j k : Nat} (h1 : 1 ≤ k) (h2 : k ≤ j) (h3 : j ≤ N) : ordE (.tuple (S σ j, E σ k) []) = true := by
  have := T.SE' h1 h2 h3
  simp only [ordE, chain, ordL, List.map_nil, Bool.and_true, decide_eq_true_eq]; exact this
theorem ord_dict_nil {j k : Nat} (h1 : 1 ≤ k) (h2 : k ≤ j) (h3 : j ≤ N) : ordE (.dict (S σ j, E σ k) []) = true := by
  have := T.SE' h1 h2 h3
  simp only [ordE, chain, ordItems, itemSegs, Bool.and_true, decide_eq_true_eq]; exact this

/-- `Compare`: the left operand, then the comparators -/
theorem ord_compare {j k jc kc jl kl : Nat} {l : RExpr} {ops} {cs : List RExpr} (hl : Win src σ jc kc l)
    (hs : SeqI src σ jl kl cs) (pl : plain l = true) (pc : plainL cs = true) (ol : ordE l = true) (oc : ordL cs = true)
    (c1 : jc ≤ j) (c2 : j ≤ N) (c3 : 1 ≤ jc) (c4 : jl < kc) (c5 : kc ≤ N) (c6 : 1 ≤ jl) (c7 : k ≤ kl) (c8 : 1 ≤ k)
    (c9 : kl ≤ N) (c10 : k ≤ kc) :
    ordE (.compare (S σ j, E σ k) l ops cs) = true := by
  obtain ⟨l1, l2, l3⟩ := win_rg hl pl
  have e1 := T.SS c3 c1 c2
  have e2 := T.ES c6 c4 c5
  have e3 := T.EE c8 c7 c9
  have e4 := T.EE c8 c10 c5
  simp only [ordE, List.map_cons, chain, Bool.and_eq_true, decide_eq_true_eq, ol, oc, and_true]
  refine ⟨by simp only [S, E] at *; omega, chain_seq' hs pc ?_ e3 ?_⟩ <;> simp only [S, E] at * <;> omega

/-- `Call`: the callee, then the positional arguments; every keyword behind the callee -/
theorem ord_call {j k jc kc jl kl : Nat} {f : RExpr} {as : List RExpr} {ks : List RKeyword} (hf : Win src σ jc kc f)
    (hs : SeqI src σ jl kl as) (hk : SeqK src σ jl kl ks) (pf : plain f = true) (pa : plainL as = true)
    (pk : plainKws ks = true) (of_ : ordE f = true) (oa : ordL as = true) (ok : ordKws 0 ks = true)
    (c1 : jc ≤ j) (c2 : j ≤ N) (c3 : 1 ≤ jc) (c4 : jl < kc) (c5 : kc ≤ N) (c6 : 1 ≤ jl) (c7 : k ≤ kl) (c8 : 1 ≤ k)
    (c9 : kl ≤ N) (c10 : k ≤ kc) :
    ordE (.call (S σ j, E σ k) f as ks) = true := by
  obtain ⟨l1, l2, l3⟩ := win_rg hf pf
  have e1 := T.SS c3 c1 c2
  have e2 := T.ES c6 c4 c5
  have e3 := T.EE c8 c7 c9
  have e4 := T.EE c8 c10 c5
  simp only [ordE, List.map_cons, chain, Bool.and_eq_true, decide_eq_true_eq, of_, oa, and_true]
  refine ⟨⟨by simp only [S, E] at *; omega, chain_seq' hs pa ?_ e3 ?_⟩, ordKws_from hk pk ok ?_⟩ <;>
    simp only [S, E] at * <;> omega

/-- `Dict` -/
theorem ord_dict {j k jl kl : Nat} {is : List RDictItem} (hs : SeqD src σ jl kl is) (hp : plainItems is = true)
    (ho : ordItems is = true) (c1 : jl ≤ j) (c2 : j ≤ N) (c3 : 1 ≤ jl) (c4 : k ≤ kl) (c5 : 1 ≤ k) (c6 : kl ≤ N) (c7 : k ≤ j) :
    ordE (.dict (S σ j, E σ k) is) = true := by
  have e1 := T.SS c3 c1 c2
  have e4 := T.EE c5 c4 c6
  have e5 := T.SE' (j := j) (k := k) c5 c7 c2
  simp only [ordE, Bool.and_eq_true, ho, and_true]
  exact chain_seqD hs hp e1 e4 e5

/-- comprehensions: the element, then the `Comprehension` nodes -/
theorem chainC {j k jc kc jl kl : Nat} {e : RExpr} {gs : List RComp} (he : Win src σ jc kc e) (hs : SeqC src σ jl kl gs)
    (pe : plain e = true) (pg : plainComps gs = true)
    (c1 : jc ≤ j) (c2 : j ≤ N) (c3 : 1 ≤ jc) (c4 : jl < kc) (c5 : kc ≤ N) (c6 : 1 ≤ jl) (c7 : k ≤ kl) (c8 : 1 ≤ k)
    (c9 : kl ≤ N) (c10 : k ≤ kc) : chain (S σ j) (e.range :: gs.map compRg) (E σ k) = true := by
  obtain ⟨l1, l2, l3⟩ := win_rg he pe
  have e1 := T.SS c3 c1 c2
  have e2 := T.ES c6 c4 c5
  have e3 := T.EE c8 c7 c9
  have e4 := T.EE c8 c10 c5
  simp only [chain, Bool.and_eq_true, decide_eq_true_eq]
  refine ⟨by simp only [S, E] at *; omega, chain_seqC hs pg ?_ e3 ?_⟩ <;> simp only [S, E] at * <;> omega

theorem ord_listComp {j k jc kc jl kl : Nat} {e : RExpr} {gs : List RComp} (he : Win src σ jc kc e)
    (hs : SeqC src σ jl kl gs) (pe : plain e = true) (pg : plainComps gs = true) (oe : ordE e = true)
    (og : ordComps gs = true)
    (c1 : jc ≤ j) (c2 : j ≤ N) (c3 : 1 ≤ jc) (c4 : jl < kc) (c5 : kc ≤ N) (c6 : 1 ≤ jl) (c7 : k ≤ kl) (c8 : 1 ≤ k)
    (c9 : kl ≤ N) (c10 : k ≤ kc) : ordE (.listComp (S σ j, E σ k) e gs) = true := by
  simp only [ordE, Bool.and_eq_true]; exact ⟨⟨chainC T he hs pe pg c1 c2 c3 c4 c5 c6 c7 c8 c9 c10, oe⟩, og⟩
theorem ord_setComp {j k jc kc jl kl : Nat} {e : RExpr} {gs : List RComp} (he : Win src σ jc kc e)
    (hs : SeqC src σ jl kl gs) (pe : plain e = true) (pg : plainComps gs = true) (oe : ordE e = true)
    (og : ordComps gs = true)
    (c1 : jc ≤ j) (c2 : j ≤ N) (c3 : 1 ≤ jc) (c4 : jl < kc) (c5 : kc ≤ N) (c6 : 1 ≤ jl) (c7 : k ≤ kl) (c8 : 1 ≤ k)
    (c9 : kl ≤ N) (c10 : k ≤ kc) : ordE (.setComp (S σ j, E σ k) e gs) = true := by
  simp only [ordE, Bool.and_eq_true]; exact ⟨⟨chainC T he hs pe pg c1 c2 c3 c4 c5 c6 c7 c8 c9 c10, oe⟩, og⟩
theorem ord_genExp {j k jc kc jl kl : Nat} {e : RExpr} {gs : List RComp} (he : Win src σ jc kc e)
    (hs : SeqC src σ jl kl gs) (pe : plain e = true) (pg : plainComps gs = true) (oe : ordE e = true)
    (og : ordComps gs = true)
    (c1 : jc ≤ j) (c2 : j ≤ N) (c3 : 1 ≤ jc) (c4 : jl < kc) (c5 : kc ≤ N) (c6 : 1 ≤ jl) (c7 : k ≤ kl) (c8 : 1 ≤ k)
    (c9 : kl ≤ N) (c10 : k ≤ kc) : ordE (.genExp (S σ j, E σ k) e gs) = true := by
  simp only [ordE, Bool.and_eq_true]; exact ⟨⟨chainC T he hs pe pg c1 c2 c3 c4 c5 c6 c7 c8 c9 c10, oe⟩, og⟩

theorem ord_dictComp {j k jc kc jv kv jl kl : Nat} {kk v : RExpr} {gs : List RComp} (hk : Win src σ jc kc kk)
    (hv : Win src σ jv kv v) (hs : SeqC src σ jl kl gs) (pk : plain kk = true) (pv : plain v = true)
    (pg : plainComps gs = true) (ok : ordE kk = true) (ov : ordE v = true) (og : ordComps gs = true)
    (c1 : jc ≤ j) (c2 : j ≤ N) (c3 : 1 ≤ jc) (d1 : jv < kc) (d2 : kc ≤ N) (d3 : 1 ≤ jv)
    (c4 : jl < kv) (c5 : kv ≤ N) (c6 : 1 ≤ jl) (c7 : k ≤ kl) (c8 : 1 ≤ k) (c9 : kl ≤ N) (c10 : k ≤ kv) :
    ordE (.dictComp (S σ j, E σ k) kk v gs) = true := by
  obtain ⟨l1, l2, l3⟩ := win_rg hk pk
  obtain ⟨v1, v2, v3⟩ := win_rg hv pv
  have e1 := T.SS c3 c1 c2
  have e0 := T.ES d3 d1 d2
  have e2 := T.ES c6 c4 c5
  have e3 := T.EE c8 c7 c9
  have e4 := T.EE c8 c10 c5
  simp only [ordE, chain, Bool.and_eq_true, decide_eq_true_eq, ok, ov, og, and_true]
  refine ⟨by simp only [S, E] at *; omega, by simp only [S, E] at *; omega, chain_seqC hs pg ?_ e3 ?_⟩ <;>
    simp only [S, E] at * <;> omega

/-- one `Comprehension` in front of the others: target, iterable, conditions -/
theorem ord_comp {j k jt kt ji ki jl kl : Nat} {t i : RExpr} {ifs : List RExpr} {ia} {gs : List RComp}
    (ht : Win src σ jt kt t) (hi : Win src σ ji ki i) (hs : SeqI src σ jl kl ifs) (pt : plain t = true)
    (pi : plain i = true) (pf : plainL ifs = true) (ot : ordE t = true) (oi : ordE i = true) (of_ : ordL ifs = true)
    (og : ordComps gs = true)
    (c1 : jt ≤ j) (c2 : j ≤ N) (c3 : 1 ≤ jt) (d1 : ji < kt) (d2 : kt ≤ N) (d3 : 1 ≤ ji)
    (c8 : 1 ≤ k) (c10 : k ≤ ki) (c5 : ki ≤ N)
    (l0 : ifs = [] ∨ (jl < ki ∧ 1 ≤ jl ∧ k ≤ kl ∧ kl ≤ N)) :
    ordComps (.mk (S σ j, E σ k) t i ifs ia :: gs) = true := by
  obtain ⟨l1, l2, l3⟩ := win_rg ht pt
  obtain ⟨v1, v2, v3⟩ := win_rg hi pi
  have e1 := T.SS c3 c1 c2
  have e0 := T.ES d3 d1 d2
  have e4 := T.EE c8 c10 c5
  simp only [ordComps, chain, Bool.and_eq_true, decide_eq_true_eq, ot, oi, of_, og, and_true]
  refine ⟨by simp only [S, E] at *; omega, by simp only [S, E] at *; omega, ?_⟩
  rcases l0 with rfl | ⟨c4, c6, c7, c9⟩
  · simp only [List.map_nil, chain, decide_eq_true_eq]; simp only [S, E] at *; omega
  · have e2 := T.ES c6 c4 c5
    have e3 := T.EE c8 c7 c9
    refine chain_seq' hs pf ?_ e3 ?_ <;> simp only [S, E] at * <;> omega

/-- a keyword: it encloses its value -/
theorem ord_kw {j k jc kc : Nat} {n} {v : RExpr} (hv : Win src σ jc kc v) (pv : plain v = true) (ov : ordE v = true)
    (c1 : jc ≤ j) (c2 : j ≤ N) (c3 : 1 ≤ jc) (c4 : k ≤ kc) (c5 : 1 ≤ k) (c6 : kc ≤ N) :
    ordKws 0 [.mk (S σ j, E σ k) n v] = true := by
  simp only [ordKws, Bool.and_eq_true, decide_eq_true_eq, ov, and_true]
  exact ⟨Nat.zero_le _, chain1 T hv pv c1 c2 c3 c4 c5 c6⟩

end nodes

@[grind =] theorem ordKws_snoc' (xs : List RKeyword) (x) : ordKws 0 (xs ++ [x]) = (ordKws 0 xs && ordKws 0 [x]) :=
  ordKws_append 0 xs [x]

grind_pattern ord_name => TiledTab src σ N, ordE (RExpr.name (S σ j, E σ k) id)
grind_pattern ord_const => TiledTab src σ N, ordE (RExpr.const (S σ j, E σ k) c)
grind_pattern ord_name_sp => TiledTab src σ N, ordE (RExpr.name (Sp σ k) id)
grind_pattern ord_const_sp => TiledTab src σ N, ordE (RExpr.const (Sp σ k) c)
grind_pattern ord_yield_none => TiledTab src σ N, ordE (RExpr.yield (S σ j, E σ k) none)
grind_pattern ord_yield_none_sp => TiledTab src σ N, ordE (RExpr.yield (Sp σ k) none)
grind_pattern ord_unaryOp => TiledTab src σ N, Win src σ jc kc e, ordE (RExpr.unaryOp (S σ j, E σ k) op e)
grind_pattern ord_await => TiledTab src σ N, Win src σ jc kc e, ordE (RExpr.await (S σ j, E σ k) e)
grind_pattern ord_yieldFrom => TiledTab src σ N, Win src σ jc kc e, ordE (RExpr.yieldFrom (S σ j, E σ k) e)
grind_pattern ord_starred => TiledTab src σ N, Win src σ jc kc e, ordE (RExpr.starred (S σ j, E σ k) e)
grind_pattern ord_attribute => TiledTab src σ N, Win src σ jc kc e, ordE (RExpr.attribute (S σ j, E σ k) e n)
grind_pattern ord_yield_some => TiledTab src σ N, Win src σ jc kc e, ordE (RExpr.yield (S σ j, E σ k) (some e))
grind_pattern ord_subscript => TiledTab src σ N, Win src σ jl kl l, Win src σ jr kr r,
  ordE (RExpr.subscript (S σ j, E σ k) l r)
grind_pattern ord_namedExpr => TiledTab src σ N, Win src σ j k v,
  ordE (RExpr.namedExpr (S σ j0, v.range.2) (RExpr.name (Sp σ j0) n) v)
grind_pattern ord_set => TiledTab src σ N, SeqI src σ jl kl es, ordE (RExpr.set (S σ j, E σ k) es)
grind_pattern ord_list => TiledTab src σ N, SeqI src σ jl kl es, ordE (RExpr.list (S σ j, E σ k) es)
grind_pattern ord_tuple => TiledTab src σ N, SeqI src σ jl kl es, ordE (RExpr.tuple (S σ j, E σ k) es)
grind_pattern ord_list_nil => TiledTab src σ N, ordE (RExpr.list (S σ j, E σ k) [])
grind_pattern ord_tuple_nil => TiledTab src σ N, ordE (RExpr.tuple (S σ j, E σ k) [])
grind_pattern ord_dict_nil => TiledTab src σ N, ordE (RExpr.dict (S σ j, E σ k) [])
grind_pattern ord_compare => TiledTab src σ N, Win src σ jc kc l, SeqI src σ jl kl cs,
  ordE (RExpr.compare (S σ j, E σ k) l ops cs)
grind_pattern ord_call => TiledTab src σ N, Win src σ jc kc f, SeqI src σ jl kl as, SeqK src σ jl kl ks,
  ordE (RExpr.call (S σ j, E σ k) f as ks)
grind_pattern ord_dict => TiledTab src σ N, SeqD src σ jl kl is, ordE (RExpr.dict (S σ j, E σ k) is)
grind_pattern ord_listComp => TiledTab src σ N, Win src σ jc kc e, SeqC src σ jl kl gs,
  ordE (RExpr.listComp (S σ j, E σ k) e gs)
grind_pattern ord_setComp => TiledTab src σ N, Win src σ jc kc e, SeqC src σ jl kl gs,
  ordE (RExpr.setComp (S σ j, E σ k) e gs)
grind_pattern ord_genExp => TiledTab src σ N, Win src σ jc kc e, SeqC src σ jl kl gs,
  ordE (RExpr.genExp (S σ j, E σ k) e gs)
grind_pattern ord_dictComp => TiledTab src σ N, Win src σ jc kc kk, Win src σ jv kv v, SeqC src σ jl kl gs,
  ordE (RExpr.dictComp (S σ j, E σ k) kk v gs)
grind_pattern ord_comp => TiledTab src σ N, Win src σ jt kt t, Win src σ ji ki i, SeqI src σ jl kl ifs,
  ordComps (RComp.mk (S σ j, E σ k) t i ifs ia :: gs)
grind_pattern ord_kw => TiledTab src σ N, Win src σ jc kc v, ordKws 0 [RKeyword.mk (S σ j, E σ k) n v]

open Lean in
/-- the part of `ostep` (`POrdBase`) in front of `grind`, with the span table passed explicitly (so that it can be used
    from another file): fold the span accessors, instantiate C02's window facts and the induction hypotheses at the
    calls that were made -/
macro "wstp_pre" T:ident sg:ident ih:ident "[" cs:ident,* "]" "[" fs:ident,* "]" : tactic => do
  let mut round : Array (TSyntax `tactic) := #[]
  for c in cs.getElems do
    let p := mkIdent (`PV.C13.W ++ (Name.mkSimple ("c02_" ++ c.getId.toString)))
    round := round.push (← `(tactic| fwd ($p:ident $T)))
  for f in fs.getElems do
    let p := mkIdent (`PV.C13.W.OrdAt ++ f.getId)
    round := round.push (← `(tactic| fwd ($p:ident ($ih _ rfl))))
  `(tactic| (
    all_goals intro h hT hp
    all_goals try simp (config := { zetaDelta := true }) only [] at *
    all_goals try simp only [Option.some.injEq, Prod.mk.injEq, reduceCtorEq, L, R, P, List.length_cons, false_imp_iff,
      imp_self] at *
    all_goals (
      have hS : ∀ k, ($sg k).1 = S $sg k := fun _ => rfl
      have hE : ∀ k, ($sg k).2 = E $sg k := fun _ => rfl
      have hSp : ∀ k, $sg k = Sp $sg k := fun _ => rfl
      try simp only [hS, hE] at *
      try simp only [hSp] at *
      clear hS hE hSp
      fwd @binOpAt_len; fwd @unaryOpAt_len; fwd @cmpOpAt_len
      ftie_tails; ftie_tails; ftie_tails
      fwd @ftie_binOpAt; fwd @ftie_unaryOpAt; fwd @ftie_cmpOpAt
      $[$round]*
      try simp only [List.length_cons] at *
      ftie_tails; ftie_tails; ftie_tails
      $[$round]*
      try simp only [List.length_cons] at *
      ftie_tails; ftie_tails; ftie_tails
      $[$round]*
      try simp only [List.length_cons] at *)))

/-- the step tactic: `ostp_pre`, then `grind` (the node lemmas fire through their `grind_pattern`s) -/
macro "wstp" T:ident sg:ident ih:ident "[" cs:ident,* "]" "[" fs:ident,* "]" : tactic =>
  `(tactic| (wstp_pre $T $sg $ih [$cs,*] [$fs,*]; all_goals grind [RExpr.range]))

end PV.C13.W
