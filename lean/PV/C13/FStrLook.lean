import PV.C13.FStrWalk
/-
  C13 — the look-ahead half for a `JoinedStr` (an f-string as a call / class keyword value is located by the
  `LinearLookaheadLocator`, which uses the GENERATED fold: every piece is visited with its own range), and the two halves
  together: `nw_joined`.  (Boilerplate cases generated.)
-/
set_option linter.unusedVariables false
set_option linter.unusedSimpArgs false
namespace PV.C13
open PV.Expr PV.C11
open PV.C02 hiding Tree
open PV.C12 (Tree)

variable {dom : Nat → Bool}

theorem chain_head_ge : ∀ {segs : List Rg} {a b : Nat}, chain a segs b = true → (∀ s ∈ segs, s.1 ≤ s.2) → ∀ s ∈ segs, a ≤ s.1
  | [], _, _, _, _, s, hs => by cases hs
  | x :: xs, a, b, h, hs, s, hm => by
    simp only [chain, Bool.and_eq_true, decide_eq_true_eq] at h
    simp only [List.mem_cons] at hm
    rcases hm with rfl | hm
    · exact h.1
    · have := chain_head_ge h.2 (fun t ht => hs t (by simp [ht])) s hm
      have := hs x (by simp)
      omega

mutual
theorem segs_vals (lit : Rg) : ∀ p, jPiece lit p = true → pieceSegs p = (pieceVals p).map RExpr.range
  | .const _ _, _ => rfl
  | .formattedValue _ _ _ none, _ => rfl
  | .formattedValue _ _ _ (some (.joinedStr _ ws)), h => by
    simp only [jPiece, Bool.and_eq_true] at h
    simp [pieceSegs, specSegs, pieceVals, segsL_vals lit ws h.2]
  | .name _ _, h => by simp [jPiece] at h
  | .boolOp _ _ _, h => by simp [jPiece] at h
  | .namedExpr _ _ _, h => by simp [jPiece] at h
  | .binOp _ _ _ _, h => by simp [jPiece] at h
  | .unaryOp _ _ _, h => by simp [jPiece] at h
  | .lambda _ _ _ _ _ _ _ _, h => by simp [jPiece] at h
  | .ifExp _ _ _ _, h => by simp [jPiece] at h
  | .dict _ _, h => by simp [jPiece] at h
  | .set _ _, h => by simp [jPiece] at h
  | .listComp _ _ _, h => by simp [jPiece] at h
  | .setComp _ _ _, h => by simp [jPiece] at h
  | .dictComp _ _ _ _, h => by simp [jPiece] at h
  | .genExp _ _ _, h => by simp [jPiece] at h
  | .await _ _, h => by simp [jPiece] at h
  | .yield _ _, h => by simp [jPiece] at h
  | .yieldFrom _ _, h => by simp [jPiece] at h
  | .compare _ _ _ _, h => by simp [jPiece] at h
  | .call _ _ _ _, h => by simp [jPiece] at h
  | .joinedStr _ _, h => by simp [jPiece] at h
  | .attribute _ _ _, h => by simp [jPiece] at h
  | .subscript _ _ _, h => by simp [jPiece] at h
  | .starred _ _, h => by simp [jPiece] at h
  | .list _ _, h => by simp [jPiece] at h
  | .tuple _ _, h => by simp [jPiece] at h
  | .slice _ _ _ _, h => by simp [jPiece] at h
  | .formattedValue _ _ _ (some (.name _ _)), h => by simp [jPiece] at h
  | .formattedValue _ _ _ (some (.const _ _)), h => by simp [jPiece] at h
  | .formattedValue _ _ _ (some (.boolOp _ _ _)), h => by simp [jPiece] at h
  | .formattedValue _ _ _ (some (.namedExpr _ _ _)), h => by simp [jPiece] at h
  | .formattedValue _ _ _ (some (.binOp _ _ _ _)), h => by simp [jPiece] at h
  | .formattedValue _ _ _ (some (.unaryOp _ _ _)), h => by simp [jPiece] at h
  | .formattedValue _ _ _ (some (.lambda _ _ _ _ _ _ _ _)), h => by simp [jPiece] at h
  | .formattedValue _ _ _ (some (.ifExp _ _ _ _)), h => by simp [jPiece] at h
  | .formattedValue _ _ _ (some (.dict _ _)), h => by simp [jPiece] at h
  | .formattedValue _ _ _ (some (.set _ _)), h => by simp [jPiece] at h
  | .formattedValue _ _ _ (some (.listComp _ _ _)), h => by simp [jPiece] at h
  | .formattedValue _ _ _ (some (.setComp _ _ _)), h => by simp [jPiece] at h
  | .formattedValue _ _ _ (some (.dictComp _ _ _ _)), h => by simp [jPiece] at h
  | .formattedValue _ _ _ (some (.genExp _ _ _)), h => by simp [jPiece] at h
  | .formattedValue _ _ _ (some (.await _ _)), h => by simp [jPiece] at h
  | .formattedValue _ _ _ (some (.yield _ _)), h => by simp [jPiece] at h
  | .formattedValue _ _ _ (some (.yieldFrom _ _)), h => by simp [jPiece] at h
  | .formattedValue _ _ _ (some (.compare _ _ _ _)), h => by simp [jPiece] at h
  | .formattedValue _ _ _ (some (.call _ _ _ _)), h => by simp [jPiece] at h
  | .formattedValue _ _ _ (some (.formattedValue _ _ _ _)), h => by simp [jPiece] at h
  | .formattedValue _ _ _ (some (.attribute _ _ _)), h => by simp [jPiece] at h
  | .formattedValue _ _ _ (some (.subscript _ _ _)), h => by simp [jPiece] at h
  | .formattedValue _ _ _ (some (.starred _ _)), h => by simp [jPiece] at h
  | .formattedValue _ _ _ (some (.list _ _)), h => by simp [jPiece] at h
  | .formattedValue _ _ _ (some (.tuple _ _)), h => by simp [jPiece] at h
  | .formattedValue _ _ _ (some (.slice _ _ _ _)), h => by simp [jPiece] at h
theorem segsL_vals (lit : Rg) : ∀ ps, jPieces lit ps = true → piecesSegs ps = (piecesVals ps).map RExpr.range
  | [], _ => rfl
  | p :: ps, h => by
    simp only [jPieces, Bool.and_eq_true] at h
    simp [piecesSegs, piecesVals, segs_vals lit p h.1, segsL_vals lit ps h.2]
end

mutual
theorem lkPiece (ar : Bool) (lit : Rg) (lo : Nat) (h1 : lo ≤ lit.1) (h2 : lit.1 ≤ lit.2) (da : dom lit.1 = true)
    (db : dom lit.2 = true) : ∀ p, jPiece lit p = true → (∀ v ∈ pieceVals p, LK dom lo (cE ar v)) → LK dom lo (cE ar p)
  | .const rg _, hj, _ => by
    have := beq_rg (by simpa [jPiece] using hj); subst this
    exact lk_node (plan := ⟨[], [.fold 0, .fold 1], true⟩) rfl rfl rfl
      (by intro st hst; simp only [List.mem_cons, List.not_mem_nil, or_false] at hst
          rcases hst with h | h <;> subst h
          · exact ⟨0, _, rfl, rfl, lk_leaf _⟩
          · exact ⟨1, _, rfl, rfl, lk_none⟩)
      (by intro a b hab; cases hab; exact ⟨h1, by omega, da, db⟩)
  | .formattedValue rg v _ none, hj, hv => by
    have := beq_rg (by simpa [jPiece] using hj); subst this
    exact lk_node (plan := ⟨[], [.fold 0, .fold 1, .fold 2], true⟩) rfl rfl rfl
      (by intro st hst; simp only [List.mem_cons, List.not_mem_nil, or_false] at hst
          rcases hst with h | h | h <;> subst h
          · exact ⟨0, _, rfl, rfl, hv v (by simp [pieceVals])⟩
          · exact ⟨1, _, rfl, rfl, lk_leaf _⟩
          · exact ⟨2, _, rfl, rfl, lk_none⟩)
      (by intro a b hab; cases hab; exact ⟨h1, by omega, da, db⟩)
  | .formattedValue rg v _ (some (.joinedStr rg' ws)), hj, hv => by
    simp only [jPiece, Bool.and_eq_true] at hj
    have e1 := beq_rg hj.1.1
    have e2 := beq_rg hj.1.2
    subst e1; subst e2
    have hws := lkPieces ar _ lo h1 h2 da db ws hj.2 (fun x hx => hv x (by simp [pieceVals, hx]))
    have hspec : LK dom lo (.some (cE ar (.joinedStr rg' ws))) := lk_some (by
      simp only [cE]
      exact lk_node (plan := ⟨[], [.fold 0], true⟩) rfl rfl rfl
        (by intro st hst; simp only [List.mem_cons, List.not_mem_nil, or_false] at hst; subst hst
            exact ⟨0, _, rfl, rfl, lk_list hws⟩)
        (by intro a b hab; cases hab; exact ⟨h1, by omega, da, db⟩))
    exact lk_node (plan := ⟨[], [.fold 0, .fold 1, .fold 2], true⟩) rfl rfl rfl
      (by intro st hst; simp only [List.mem_cons, List.not_mem_nil, or_false] at hst
          rcases hst with h | h | h <;> subst h
          · exact ⟨0, _, rfl, rfl, hv v (by simp [pieceVals])⟩
          · exact ⟨1, _, rfl, rfl, lk_leaf _⟩
          · exact ⟨2, _, rfl, rfl, hspec⟩)
      (by intro a b hab; cases hab; exact ⟨h1, by omega, da, db⟩)
  | .name _ _, hj, _ => by simp [jPiece] at hj
  | .boolOp _ _ _, hj, _ => by simp [jPiece] at hj
  | .namedExpr _ _ _, hj, _ => by simp [jPiece] at hj
  | .binOp _ _ _ _, hj, _ => by simp [jPiece] at hj
  | .unaryOp _ _ _, hj, _ => by simp [jPiece] at hj
  | .lambda _ _ _ _ _ _ _ _, hj, _ => by simp [jPiece] at hj
  | .ifExp _ _ _ _, hj, _ => by simp [jPiece] at hj
  | .dict _ _, hj, _ => by simp [jPiece] at hj
  | .set _ _, hj, _ => by simp [jPiece] at hj
  | .listComp _ _ _, hj, _ => by simp [jPiece] at hj
  | .setComp _ _ _, hj, _ => by simp [jPiece] at hj
  | .dictComp _ _ _ _, hj, _ => by simp [jPiece] at hj
  | .genExp _ _ _, hj, _ => by simp [jPiece] at hj
  | .await _ _, hj, _ => by simp [jPiece] at hj
  | .yield _ _, hj, _ => by simp [jPiece] at hj
  | .yieldFrom _ _, hj, _ => by simp [jPiece] at hj
  | .compare _ _ _ _, hj, _ => by simp [jPiece] at hj
  | .call _ _ _ _, hj, _ => by simp [jPiece] at hj
  | .joinedStr _ _, hj, _ => by simp [jPiece] at hj
  | .attribute _ _ _, hj, _ => by simp [jPiece] at hj
  | .subscript _ _ _, hj, _ => by simp [jPiece] at hj
  | .starred _ _, hj, _ => by simp [jPiece] at hj
  | .list _ _, hj, _ => by simp [jPiece] at hj
  | .tuple _ _, hj, _ => by simp [jPiece] at hj
  | .slice _ _ _ _, hj, _ => by simp [jPiece] at hj
  | .formattedValue _ _ _ (some (.name _ _)), hj, _ => by simp [jPiece] at hj
  | .formattedValue _ _ _ (some (.const _ _)), hj, _ => by simp [jPiece] at hj
  | .formattedValue _ _ _ (some (.boolOp _ _ _)), hj, _ => by simp [jPiece] at hj
  | .formattedValue _ _ _ (some (.namedExpr _ _ _)), hj, _ => by simp [jPiece] at hj
  | .formattedValue _ _ _ (some (.binOp _ _ _ _)), hj, _ => by simp [jPiece] at hj
  | .formattedValue _ _ _ (some (.unaryOp _ _ _)), hj, _ => by simp [jPiece] at hj
  | .formattedValue _ _ _ (some (.lambda _ _ _ _ _ _ _ _)), hj, _ => by simp [jPiece] at hj
  | .formattedValue _ _ _ (some (.ifExp _ _ _ _)), hj, _ => by simp [jPiece] at hj
  | .formattedValue _ _ _ (some (.dict _ _)), hj, _ => by simp [jPiece] at hj
  | .formattedValue _ _ _ (some (.set _ _)), hj, _ => by simp [jPiece] at hj
  | .formattedValue _ _ _ (some (.listComp _ _ _)), hj, _ => by simp [jPiece] at hj
  | .formattedValue _ _ _ (some (.setComp _ _ _)), hj, _ => by simp [jPiece] at hj
  | .formattedValue _ _ _ (some (.dictComp _ _ _ _)), hj, _ => by simp [jPiece] at hj
  | .formattedValue _ _ _ (some (.genExp _ _ _)), hj, _ => by simp [jPiece] at hj
  | .formattedValue _ _ _ (some (.await _ _)), hj, _ => by simp [jPiece] at hj
  | .formattedValue _ _ _ (some (.yield _ _)), hj, _ => by simp [jPiece] at hj
  | .formattedValue _ _ _ (some (.yieldFrom _ _)), hj, _ => by simp [jPiece] at hj
  | .formattedValue _ _ _ (some (.compare _ _ _ _)), hj, _ => by simp [jPiece] at hj
  | .formattedValue _ _ _ (some (.call _ _ _ _)), hj, _ => by simp [jPiece] at hj
  | .formattedValue _ _ _ (some (.formattedValue _ _ _ _)), hj, _ => by simp [jPiece] at hj
  | .formattedValue _ _ _ (some (.attribute _ _ _)), hj, _ => by simp [jPiece] at hj
  | .formattedValue _ _ _ (some (.subscript _ _ _)), hj, _ => by simp [jPiece] at hj
  | .formattedValue _ _ _ (some (.starred _ _)), hj, _ => by simp [jPiece] at hj
  | .formattedValue _ _ _ (some (.list _ _)), hj, _ => by simp [jPiece] at hj
  | .formattedValue _ _ _ (some (.tuple _ _)), hj, _ => by simp [jPiece] at hj
  | .formattedValue _ _ _ (some (.slice _ _ _ _)), hj, _ => by simp [jPiece] at hj
theorem lkPieces (ar : Bool) (lit : Rg) (lo : Nat) (h1 : lo ≤ lit.1) (h2 : lit.1 ≤ lit.2) (da : dom lit.1 = true)
    (db : dom lit.2 = true) : ∀ ps, jPieces lit ps = true → (∀ v ∈ piecesVals ps, LK dom lo (cE ar v)) →
    ∀ t ∈ cL ar ps, LK dom lo t
  | [], _, _ => by simp [cL]
  | p :: ps, hj, hv => by
    simp only [jPieces, Bool.and_eq_true] at hj
    intro t ht
    simp only [cL, List.mem_cons] at ht
    rcases ht with rfl | ht
    · exact lkPiece ar lit lo h1 h2 da db p hj.1 (fun v hx => hv v (by simp [piecesVals, hx]))
    · exact lkPieces ar lit lo h1 h2 da db ps hj.2 (fun v hx => hv v (by simp [piecesVals, hx])) t ht
end

/-- **a `JoinedStr` laid out as `jOrd` says is walkable both ways** (what the typed bridge needs at this node) -/
theorem nw_joined (ar : Bool) (rg : Rg) (vs : List RExpr) (hj : jOrd rg vs = true) (hab : rg.1 ≤ rg.2)
    (hd : AllDom dom (cE ar (.joinedStr rg vs))) : NW dom rg (cE ar (.joinedStr rg vs)) := by
  refine ⟨ow_joined_of_jOrd ar rg vs hj hab hd, ?_⟩
  simp only [jOrd, Bool.and_eq_true] at hj
  have hda : dom rg.1 = true := hd rg.1 (by simp [cE, offsT])
  have hdb : dom rg.2 = true := hd rg.2 (by simp [cE, offsT])
  have hjp := jPieces_of_ok rg vs hj.1
  have hnw : ∀ v ∈ piecesVals vs, NW dom v.range (cE ar v) := fun v hv =>
    brE ar v (valsL_ord rg vs hj.1 v hv) (fun o ho => hd o (by
      have := valsL_offs ar vs v hv o ho
      simp [cE, offsT, offsL, this]))
  have hge : ∀ v ∈ piecesVals vs, rg.1 ≤ v.range.1 := by
    intro v hv
    have hc := hj.2
    rw [segsL_vals rg vs hjp] at hc
    refine chain_head_ge hc ?_ v.range (List.mem_map_of_mem hv)
    intro s hs
    obtain ⟨w, hw, rfl⟩ := List.mem_map.mp hs
    exact (hnw w hw).1.1
  have hl := lkPieces ar rg rg.1 (Nat.le_refl _) hab hda hdb vs hjp (fun v hv => (hnw v hv).2.mono (hge v hv))
  simp only [cE]
  exact lk_node (plan := ⟨[], [.fold 0], true⟩) rfl rfl rfl
    (by intro st hst; simp only [List.mem_cons, List.not_mem_nil, or_false] at hst; subst hst
        exact ⟨0, _, rfl, rfl, lk_list hl⟩)
    (by intro a b h; cases h; exact ⟨Nat.le_refl _, hab, hda, hdb⟩)

end PV.C13
