import PV.C13.Parsed
import PV.C02.RProgSyntax
/-
  C13 — every offset of `toTree ar m` (the tree the located fold consumes) is a range end of a node of `m.tree` (the
  generic ranged tree `PV.C02.rangesOk` is evaluated on).  Stated for an arbitrary predicate `P` on offsets:
  `EndsOk P m.tree → AllOff P (toTree ar m)`.  One case per constructor of the ranged syntax.
-/
set_option linter.unusedVariables false
set_option linter.unusedSimpArgs false
namespace PV.C13
open PV.Expr PV.C11 PV.Prog
open PV.C02 hiding Tree
open PV.C12 (Tree)

/-! ### "every offset satisfies `P`" on both kinds of tree -/

/-- every offset of a fold tree satisfies `P` -/
def AllOff (P : Nat → Prop) (t : Tree) : Prop := ∀ o ∈ offsT t, P o
def AllOffL (P : Nat → Prop) (ts : List Tree) : Prop := ∀ o ∈ offsL ts, P o

mutual
/-- every range end of a generic ranged tree satisfies `P` -/
def EndsOk (P : Nat → Prop) : PV.C02.Tree → Prop
  | .node _ _ _ r cs => (∀ rg, r = some rg → P rg.1 ∧ P rg.2) ∧ EndsOkL P cs
def EndsOkL (P : Nat → Prop) : List PV.C02.Tree → Prop
  | [] => True
  | t :: ts => EndsOk P t ∧ EndsOkL P ts
end

section
variable {P : Nat → Prop}

@[simp] theorem allOffL_nil : AllOffL P [] ↔ True := by simp [AllOffL, offsL]
@[simp] theorem allOffL_cons (t : Tree) (ts : List Tree) : AllOffL P (t :: ts) ↔ AllOff P t ∧ AllOffL P ts := by
  simp [AllOffL, AllOff, offsL, List.mem_append, or_imp, forall_and]
@[simp] theorem allOff_leaf (a : List Nat) : AllOff P (.leaf a) ↔ True := by simp [AllOff, offsT]
@[simp] theorem allOff_lf : AllOff P lf ↔ True := by simp [AllOff, offsT, lf]
@[simp] theorem allOff_none : AllOff P .none ↔ True := by simp [AllOff, offsT]
@[simp] theorem allOff_some (t : Tree) : AllOff P (.some t) ↔ AllOff P t := by simp [AllOff, offsT]
@[simp] theorem allOff_list (ts : List Tree) : AllOff P (.list ts) ↔ AllOffL P ts := by simp [AllOff, AllOffL, offsT]
@[simp] theorem allOff_node_some (k : Nat) (rg : Nat × Nat) (fs : List Tree) :
    AllOff P (.node k (some rg) fs) ↔ P rg.1 ∧ P rg.2 ∧ AllOffL P fs := by
  obtain ⟨a, b⟩ := rg
  simp [AllOff, AllOffL, offsT, List.mem_append, or_imp, forall_and, and_assoc]
@[simp] theorem allOff_node_optR (k : Nat) (ar : Bool) (rg : Nat × Nat) (fs : List Tree) :
    AllOff P (.node k (optR ar rg) fs) ↔ (ar = true → P rg.1 ∧ P rg.2) ∧ AllOffL P fs := by
  obtain ⟨a, b⟩ := rg
  cases ar <;> simp [optR, AllOff, AllOffL, offsT, List.mem_append, or_imp, forall_and, and_assoc]
theorem allOffL_map {α : Type} (f : α → Tree) : ∀ xs : List α, AllOffL P (xs.map f) ↔ ∀ x ∈ xs, AllOff P (f x)
  | [] => by simp
  | x :: xs => by simp [allOffL_map f xs]

@[simp] theorem endsOkL_nil : EndsOkL P [] ↔ True := by rw [EndsOkL]
@[simp] theorem endsOkL_cons (t : PV.C02.Tree) (ts : List PV.C02.Tree) :
    EndsOkL P (t :: ts) ↔ EndsOk P t ∧ EndsOkL P ts := by rw [EndsOkL]
@[simp] theorem endsOk_node (k s : String) (il : Bool) (rg : Nat × Nat) (cs : List PV.C02.Tree) :
    EndsOk P (.node k s il (some rg) cs) ↔ P rg.1 ∧ P rg.2 ∧ EndsOkL P cs := by
  rw [EndsOk]; simp [and_assoc]
@[simp] theorem endsOkL_append : ∀ (a b : List PV.C02.Tree), EndsOkL P (a ++ b) ↔ EndsOkL P a ∧ EndsOkL P b
  | [], b => by simp
  | x :: a, b => by simp [endsOkL_append a b, and_assoc]
theorem endsOkL_map {α : Type} (f : α → PV.C02.Tree) : ∀ xs : List α, EndsOkL P (xs.map f) ↔ ∀ x ∈ xs, EndsOk P (f x)
  | [] => by simp
  | x :: xs => by simp [endsOkL_map f xs]

/-- what the generic tree says about a node: its own range ends and everything below -/
def NodeOk (P : Nat → Prop) (rg : Rg) (cs : List PV.C02.Tree) : Prop := P rg.1 ∧ P rg.2 ∧ EndsOkL P cs

syntax "eo_simp" : tactic
macro_rules
  | `(tactic| eo_simp) => `(tactic|
      simp only [NodeOk, RExpr.children, toTrees, optTree, compTrees, paramTrees, kwTrees, keyTrees, valueTrees, argTree,
        cE, cL, cO, cComps, cPs, cKws, cKeys, cVals, cLamArg, cLamArgO,
        allOffL_nil, allOffL_cons, allOff_leaf, allOff_lf, allOff_none, allOff_some, allOff_list, allOff_node_some,
        allOff_node_optR, endsOkL_nil, endsOkL_cons, endsOkL_append, endsOk_node, and_true, true_and,
        Option.map_none, Option.map_some, Option.toList_none, Option.toList_some, List.append_nil, List.nil_append] at *)

syntax "eo_e" ident "[" term,* "]" : tactic
macro_rules
  | `(tactic| eo_e $rg:ident [ $ts,* ]) => `(tactic|
      (intro h; have h : NodeOk _ $rg _ := h; $[have := $ts];*; eo_simp; grind))
syntax "eo_l" "[" term,* "]" : tactic
macro_rules
  | `(tactic| eo_l [ $ts,* ]) => `(tactic| (intro h; $[have := $ts];*; eo_simp; grind))

mutual
theorem eoE (ar : Bool) : ∀ e : RExpr, NodeOk P e.range e.children → AllOff P (cE ar e)
  | .name rg _ => by eo_e rg [trivial]
  | .const rg _ => by eo_e rg [trivial]
  | .boolOp rg _ vs => by eo_e rg [eoL ar vs]
  | .namedExpr rg t v => by eo_e rg [eoE ar t, eoE ar v]
  | .binOp rg l _ r => by eo_e rg [eoE ar l, eoE ar r]
  | .unaryOp rg _ e => by eo_e rg [eoE ar e]
  | .lambda rg argsRg po a va ko kw b => by
    eo_e rg [eoPs ar po, eoPs ar a, eoPs ar ko, eoE ar b, eoLamArgO va "vararg", eoLamArgO kw "kwarg"]
  | .ifExp rg t b o => by eo_e rg [eoE ar t, eoE ar b, eoE ar o]
  | .dict rg items => by eo_e rg [eoKeys ar items, eoVals ar items]
  | .set rg es => by eo_e rg [eoL ar es]
  | .listComp rg e gs => by eo_e rg [eoE ar e, eoComps ar gs]
  | .setComp rg e gs => by eo_e rg [eoE ar e, eoComps ar gs]
  | .dictComp rg k v gs => by eo_e rg [eoE ar k, eoE ar v, eoComps ar gs]
  | .genExp rg e gs => by eo_e rg [eoE ar e, eoComps ar gs]
  | .await rg e => by eo_e rg [eoE ar e]
  | .yield rg e => by eo_e rg [eoO ar e]
  | .yieldFrom rg e => by eo_e rg [eoE ar e]
  | .compare rg l _ cs => by eo_e rg [eoE ar l, eoL ar cs]
  | .call rg f as ks => by eo_e rg [eoE ar f, eoL ar as, eoKws ar ks]
  | .formattedValue rg v _ spec => by eo_e rg [eoE ar v, eoO ar spec]
  | .joinedStr rg vs => by eo_e rg [eoL ar vs]
  | .attribute rg e _ => by eo_e rg [eoE ar e]
  | .subscript rg e s => by eo_e rg [eoE ar e, eoE ar s]
  | .starred rg e => by eo_e rg [eoE ar e]
  | .list rg es => by eo_e rg [eoL ar es]
  | .tuple rg es => by eo_e rg [eoL ar es]
  | .slice rg a b c => by eo_e rg [eoO ar a, eoO ar b, eoO ar c]
theorem eoL (ar : Bool) : ∀ (es : List RExpr) (slot : String), EndsOkL P (toTrees slot es) → AllOffL P (cL ar es)
  | [], _ => by simp [cL]
  | e :: es, slot => by eo_l [eoE ar e, eoL ar es slot]
theorem eoO (ar : Bool) : ∀ (o : Option RExpr) (slot : String), EndsOkL P (optTree slot o) → AllOff P (cO ar o)
  | none, _ => by simp [cO]
  | some e, slot => by eo_l [eoE ar e]
theorem eoComps (ar : Bool) : ∀ gs : List RComp, EndsOkL P (compTrees gs) → AllOffL P (cComps ar gs)
  | [] => by simp [cComps]
  | .mk rg t i ifs _ :: gs => by eo_l [eoE ar t, eoE ar i, eoL ar ifs, eoComps ar gs]
theorem eoPs (ar : Bool) : ∀ (ps : List RParam) (slot : String), EndsOkL P (paramTrees slot ps) → AllOffL P (cPs ar ps)
  | [], _ => by simp [cPs]
  | .mk rg drg _ d :: ps, slot => by eo_l [eoO ar d, eoPs ar ps slot]
theorem eoKws (ar : Bool) : ∀ ks : List RKeyword, EndsOkL P (kwTrees ks) → AllOffL P (cKws ar ks)
  | [] => by simp [cKws]
  | .mk rg _ v :: ks => by eo_l [eoE ar v, eoKws ar ks]
theorem eoKeys (ar : Bool) : ∀ is : List RDictItem, EndsOkL P (keyTrees is) → AllOffL P (cKeys ar is)
  | [] => by simp [cKeys]
  | .mk none _ :: is => by eo_l [eoKeys ar is]
  | .mk (some k) _ :: is => by eo_l [eoE ar k, eoKeys ar is]
theorem eoVals (ar : Bool) : ∀ is : List RDictItem, EndsOkL P (valueTrees is) → AllOffL P (cVals ar is)
  | [] => by simp [cVals]
  | .mk _ v :: is => by eo_l [eoE ar v, eoVals ar is]
theorem eoLamArgO : ∀ (v : Option (Rg × Ident)) (slot : String), EndsOkL P (v.map (argTree slot)).toList → AllOff P (cLamArgO v)
  | none, _ => by simp [cLamArgO]
  | some v, _ => by eo_l [trivial]
end

/-! ### parameters, aliases, with-items, type parameters -/

syntax "eo_core" ident : tactic
macro_rules
  | `(tactic| eo_core $h:ident) => `(tactic|
      (try simp only [NodeOk] at *
       simp only [RExpr.toTree, allOffL_map, endsOkL_map,
        allOffL_nil, allOffL_cons, allOff_leaf, allOff_lf, allOff_none, allOff_some, allOff_list, allOff_node_some,
        allOff_node_optR, endsOkL_nil, endsOkL_cons, endsOkL_append, endsOk_node, and_true, true_and,
        List.append_nil, List.nil_append] at $h:ident ⊢))

theorem eoArg (ar : Bool) (a : RArg) (slot : String) (il : Bool) : EndsOk P (a.tree slot il) → AllOff P (cArg ar a) := by
  intro h; have := eoO (P := P) ar a.annotation "annotation"
  simp only [RArg.tree, cArg] at h ⊢; eo_core h; grind
theorem eoArgD (ar : Bool) (p : RArgD) (slot : String) : EndsOk P (p.tree slot) → AllOff P (cArgD ar p) := by
  intro h; have := eoArg (P := P) ar p.arg "def" false; have := eoO (P := P) ar p.default "default"
  simp only [RArgD.tree, cArgD] at h ⊢; eo_core h; grind
theorem eoArgO (ar : Bool) : ∀ (o : Option RArg) (slot : String), EndsOkL P (argOptTree slot o) → AllOff P (cArgO ar o)
  | none, _ => by simp [cArgO]
  | some a, slot => by
    intro h; have := eoArg (P := P) ar a slot false
    simp only [argOptTree, cArgO] at h ⊢; eo_core h; grind
theorem eoArgs (ar : Bool) (a : RArguments) : EndsOk P a.tree → AllOff P (cArgs ar a) := by
  intro h
  have := eoArgO (P := P) ar a.vararg "vararg"; have := eoArgO (P := P) ar a.kwarg "kwarg"
  have := fun x => eoArgD (P := P) ar x "posonlyargs"; have := fun x => eoArgD (P := P) ar x "args"
  have := fun x => eoArgD (P := P) ar x "kwonlyargs"
  simp only [RArguments.tree, RArguments.children, cArgs] at h ⊢; eo_core h; grind
theorem eoAlias (a : RAlias) : EndsOk P a.tree → AllOff P (cAlias a) := by
  intro h; simp only [RAlias.tree, cAlias] at h ⊢; eo_core h; grind
theorem eoWI (ar : Bool) (w : RWithItem) : EndsOk P w.tree → AllOff P (cWI ar w) := by
  intro h; have := eoE (P := P) ar w.contextExpr; have := eoO (P := P) ar w.optionalVars "optional_vars"
  simp only [RWithItem.tree, cWI] at h ⊢; eo_core h; grind
theorem eoTP (ar : Bool) : ∀ t : RTypeParam, EndsOk P t.tree → AllOff P (cTP ar t)
  | .typeVar rg _ b => by
    intro h; have h : EndsOk P (.node _ "type_params" true (some rg) (optTree "bound" b)) := h
    have := eoO (P := P) ar b "bound"; simp only [cTP] at h ⊢; eo_core h; grind
  | .paramSpec rg _ => by
    intro h; have h : EndsOk P (.node _ "type_params" true (some rg) []) := h
    simp only [cTP] at h ⊢; eo_core h; grind
  | .typeVarTuple rg _ => by
    intro h; have h : EndsOk P (.node _ "type_params" true (some rg) []) := h
    simp only [cTP] at h ⊢; eo_core h; grind

syntax "eo_p" ident "[" term,* "]" : tactic
macro_rules
  | `(tactic| eo_p $rg:ident [ $ts,* ]) => `(tactic|
      (intro h; have h : NodeOk _ $rg _ := h; $[have := $ts];*
       simp only [RPattern.children, patTrees, patOptTree, RStmt.children, stmtTrees, handlerTrees, caseTrees,
         cP, cPats, cPatO, cS, cSs, cHs, cCs] at h ⊢
       eo_core h
       grind))
syntax "eo_pl" "[" term,* "]" : tactic
macro_rules
  | `(tactic| eo_pl [ $ts,* ]) => `(tactic|
      (intro h; $[have := $ts];*
       simp only [RPattern.children, patTrees, patOptTree, RStmt.children, stmtTrees, handlerTrees, caseTrees,
         cP, cPats, cPatO, cS, cSs, cHs, cCs] at h ⊢
       eo_core h
       grind))

mutual
theorem eoP (ar : Bool) : ∀ p : RPattern, NodeOk P p.range p.children → AllOff P (cP ar p)
  | .matchValue rg v => by eo_p rg [eoE (P := P) ar v]
  | .matchSingleton rg _ => by eo_p rg [trivial]
  | .matchSequence rg ps => by eo_p rg [eoPats ar ps]
  | .matchMapping rg ks ps _ => by eo_p rg [eoL (P := P) ar ks, eoPats ar ps]
  | .matchClass rg c ps _ kps => by eo_p rg [eoE (P := P) ar c, eoPats ar ps, eoPats ar kps]
  | .matchStar rg _ => by eo_p rg [trivial]
  | .matchAs rg p _ => by eo_p rg [eoPatO ar p]
  | .matchOr rg ps => by eo_p rg [eoPats ar ps]
theorem eoPats (ar : Bool) : ∀ (ps : List RPattern) (slot : String), EndsOkL P (patTrees slot ps) → AllOffL P (cPats ar ps)
  | [], _ => by simp [cPats]
  | p :: ps, slot => by eo_pl [eoP ar p, eoPats ar ps slot]
theorem eoPatO (ar : Bool) : ∀ (o : Option RPattern) (slot : String), EndsOkL P (patOptTree slot o) → AllOff P (cPatO ar o)
  | none, _ => by simp [cPatO]
  | some p, _ => by eo_pl [eoP ar p]
end

mutual
theorem eoS (ar : Bool) : ∀ s : RStmt, NodeOk P s.range s.children → AllOff P (cS ar s)
  | .functionDef rg _ a b d r tp => by
    eo_p rg [eoArgs (P := P) ar a, eoSs ar b, eoL (P := P) ar d, eoO (P := P) ar r, eoTP (P := P) ar]
  | .asyncFunctionDef rg _ a b d r tp => by
    eo_p rg [eoArgs (P := P) ar a, eoSs ar b, eoL (P := P) ar d, eoO (P := P) ar r, eoTP (P := P) ar]
  | .classDef rg _ bs ks b d tp => by
    eo_p rg [eoL (P := P) ar bs, eoKws (P := P) ar ks, eoSs ar b, eoL (P := P) ar d, eoTP (P := P) ar]
  | .return rg v => by eo_p rg [eoO (P := P) ar v]
  | .delete rg ts => by eo_p rg [eoL (P := P) ar ts]
  | .assign rg ts v => by eo_p rg [eoL (P := P) ar ts, eoE (P := P) ar v]
  | .typeAlias rg n tp v => by eo_p rg [eoE (P := P) ar n, eoE (P := P) ar v, eoTP (P := P) ar]
  | .augAssign rg t _ v => by eo_p rg [eoE (P := P) ar t, eoE (P := P) ar v]
  | .annAssign rg t a v _ => by eo_p rg [eoE (P := P) ar t, eoE (P := P) ar a, eoO (P := P) ar v]
  | .for rg t i b o => by eo_p rg [eoE (P := P) ar t, eoE (P := P) ar i, eoSs ar b, eoSs ar o]
  | .asyncFor rg t i b o => by eo_p rg [eoE (P := P) ar t, eoE (P := P) ar i, eoSs ar b, eoSs ar o]
  | .while rg t b o => by eo_p rg [eoE (P := P) ar t, eoSs ar b, eoSs ar o]
  | .if rg t b o => by eo_p rg [eoE (P := P) ar t, eoSs ar b, eoSs ar o]
  | .with rg items b => by eo_p rg [eoWI (P := P) ar, eoSs ar b]
  | .asyncWith rg items b => by eo_p rg [eoWI (P := P) ar, eoSs ar b]
  | .match rg s cs => by eo_p rg [eoE (P := P) ar s, eoCs ar cs]
  | .raise rg e c => by eo_p rg [eoO (P := P) ar e, eoO (P := P) ar c]
  | .try rg b hs o f => by eo_p rg [eoSs ar b, eoHs ar hs, eoSs ar o, eoSs ar f]
  | .tryStar rg b hs o f => by eo_p rg [eoSs ar b, eoHs ar hs, eoSs ar o, eoSs ar f]
  | .assert rg t m => by eo_p rg [eoE (P := P) ar t, eoO (P := P) ar m]
  | .import rg ns => by eo_p rg [eoAlias (P := P)]
  | .importFrom rg _ ns _ => by eo_p rg [eoAlias (P := P)]
  | .global rg _ => by eo_p rg [trivial]
  | .nonlocal rg _ => by eo_p rg [trivial]
  | .expr rg e => by eo_p rg [eoE (P := P) ar e]
  | .pass rg => by eo_p rg [trivial]
  | .break rg => by eo_p rg [trivial]
  | .continue rg => by eo_p rg [trivial]
theorem eoSs (ar : Bool) : ∀ (ss : List RStmt) (slot : String), EndsOkL P (stmtTrees slot ss) → AllOffL P (cSs ar ss)
  | [], _ => by simp [cSs]
  | s :: ss, slot => by eo_pl [eoS ar s, eoSs ar ss slot]
theorem eoHs (ar : Bool) : ∀ hs : List RHandler, EndsOkL P (handlerTrees hs) → AllOffL P (cHs ar hs)
  | [] => by simp [cHs]
  | .mk rg ty _ b :: hs => by eo_pl [eoO (P := P) ar ty, eoSs ar b, eoHs ar hs]
theorem eoCs (ar : Bool) : ∀ cs : List RCase, EndsOkL P (caseTrees cs) → AllOffL P (cCs ar cs)
  | [] => by simp [cCs]
  | .mk rg p g b :: cs => by eo_pl [eoP (P := P) ar p, eoO (P := P) ar g, eoSs ar b, eoCs ar cs]
end

/-- **Every offset of the fold tree of a parse is a range end of a node of its generic ranged tree.** -/
theorem toTree_allOff (ar : Bool) : ∀ m : RMod, EndsOk P m.tree → AllOff P (toTree ar m)
  | .module rg b => by
    intro h; have := eoSs (P := P) ar b "body"
    simp only [RMod.tree, toTree] at h ⊢; eo_core h; grind
  | .interactive rg b => by
    intro h; have := eoSs (P := P) ar b "body"
    simp only [RMod.tree, toTree] at h ⊢; eo_core h; grind
  | .expression rg e => by
    intro h; have := eoE (P := P) ar e
    simp only [RMod.tree, toTree] at h ⊢; eo_core h; grind

end

/-! ### `rangesOk` puts every range end on a character boundary inside the text -/

mutual
theorem ok_endsOk (src : List Nat) : ∀ (par : Option (Nat × Nat)) (t : PV.C02.Tree), ok src par t = true →
    EndsOk (fun o => PV.C02.isBoundary src o = true ∧ o ≤ src.length) t
  | par, .node k s il r cs => by
    intro h
    rw [ok] at h
    simp only [Bool.and_eq_true] at h
    rw [EndsOk]
    refine ⟨?_, okList_endsOkL src _ cs h.2⟩
    rintro ⟨a, b⟩ rfl
    have := h.1.1.1
    simp only [ownOk, Bool.and_eq_true, decide_eq_true_eq] at this
    exact ⟨⟨this.1.2, by omega⟩, ⟨this.2, this.1.1.2⟩⟩
theorem okList_endsOkL (src : List Nat) : ∀ (par : Option (Nat × Nat)) (ts : List PV.C02.Tree), okList src par ts = true →
    EndsOkL (fun o => PV.C02.isBoundary src o = true ∧ o ≤ src.length) ts
  | _, [] => by simp
  | par, t :: ts => by
    intro h
    rw [okList] at h
    simp only [Bool.and_eq_true] at h
    exact (endsOkL_cons _ _).mpr ⟨ok_endsOk src par t h.1, okList_endsOkL src par ts h.2⟩
end

/-- the offsets of the fold tree of a parse whose generic tree passes `rangesOk` are character boundaries of the text
    (in the sense of C02) inside it -/
theorem rangesOk_allOff (ar : Bool) {src : List Nat} {m : RMod} (h : rangesOk src m.tree = true) :
    AllOff (fun o => PV.C02.isBoundary src o = true ∧ o ≤ src.length) (toTree ar m) :=
  toTree_allOff ar m (ok_endsOk src none _ h)

end PV.C13
