import PV.C13.Fold
import PV.C13.Linear
import PV.C13.Lemmas
import PV.C12.Lemmas
/-
  C13 — lemmas about the located fold (`PV/C13/Fold.lean`).

  `sim_fold`: for ANY locator `L` that satisfies `LocSpec` (a call at an in-domain offset not behind
  the cursor returns `g offset` and keeps an invariant `I cursor state`), any fold configuration that
  is `LocWF`, and any conforming tree: if `ordT` accepts the tree from cursor `c` and ends at `c'`, then
  `foldLoc` started in a state with `I c` returns the tree with every range mapped by `g`, in a state
  with `I c'`.  Instantiated in `Thm.lean` with the `LinearLocator` model (`I` = "the state is the one
  that belongs to the cursor"), the recorder (`I` = "the log is a forward history ending at the
  cursor") and the `RandomLocator` model (no state).
  `allDom_ord` / `ordGen_of_allDom`: an ordered tree has all its offsets in the domain, which is all
  the generated fold with a stateless locator needs.
-/
set_option linter.unusedVariables false
set_option linter.unusedSimpArgs false
namespace PV.C13
open PV.C15 PV.C13.Spec
open PV.C12 (Tree FoldProg FoldEntry Schema Conforms conf confZip confAll)

/-! ### basics -/
theorem locMapL_eq (g : Nat → Pos) (xs : List Tree) : locMapL g xs = xs.map (locMap g) := by
  induction xs with
  | nil => simp [locMapL]
  | cons t ts ih => simp [locMapL, ih]
theorem offsL_eq (xs : List Tree) : offsL xs = xs.flatMap offsT := by
  induction xs with
  | nil => simp [offsL]
  | cons t ts ih => simp [offsL, ih]
theorem depth_le_depthL {t : Tree} {ts : List Tree} (h : t ∈ ts) : depth t ≤ depthL ts := by
  induction ts with
  | nil => cases h
  | cons x xs ih =>
    simp only [depthL]
    cases h with
    | head => exact Nat.le_max_left _ _
    | tail _ h => exact Nat.le_trans (ih h) (Nat.le_max_right _ _)
theorem depth_get {fs : List Tree} {i : Nat} {t : Tree} (h : fs[i]? = some t) : depth t ≤ depthL fs :=
  depth_le_depthL (List.mem_of_getElem? h)
/-- typed by the schema at some shape (what `Conforms` gives for every subtree) -/
def Conf (sch : Schema) (t : Tree) : Prop := ∃ sh, conf sch sh t = true
theorem Conf.ofList {sch xs} (h : Conf sch (.list xs)) : ∀ x ∈ xs, Conf sch x := by
  obtain ⟨sh, h⟩ := h
  obtain ⟨s, _, h2⟩ := PV.C12.conf_list h
  exact fun x hx => ⟨s, h2 x hx⟩

theorem Conf.ofSome {sch t} (h : Conf sch (.some t)) : Conf sch t := by
  obtain ⟨sh, h⟩ := h
  obtain ⟨s, _, h2⟩ := PV.C12.conf_some h
  exact ⟨s, h2⟩
theorem Conf.ofNode {sch k r fs} (h : Conf sch (.node k r fs)) :
    ∃ ki, sch.kinds[k]? = some ki ∧ fs.length = ki.fields.length ∧ ∀ t ∈ fs, Conf sch t := by
  obtain ⟨sh, h⟩ := h
  obtain ⟨ki, hk, _, hz, _⟩ := PV.C12.conf_node h
  refine ⟨ki, hk, PV.C12.confZip_length hz, ?_⟩
  intro t ht
  obtain ⟨i, hi, rfl⟩ := List.getElem_of_mem ht
  have hlen := PV.C12.confZip_length hz
  have hi' : i < ki.fields.length := by omega
  exact ⟨ki.fields[i], PV.C12.confZip_get hz i _ _ (List.getElem?_eq_getElem hi') (List.getElem?_eq_getElem hi)⟩
mutual
theorem locMap_congr (g g' : Nat → Pos) : ∀ t : Tree, offsT t = [] → locMap g t = locMap g' t
  | .leaf _, _ => by simp [locMap]
  | .none, _ => by simp [locMap]
  | .some t, h => by simp [locMap, locMap_congr g g' t (by simpa [offsT] using h)]
  | .list xs, h => by simp [locMap, locMapL_congr g g' xs (by simpa [offsT] using h)]
  | .node k r fs, h => by
    cases r with
    | none => simp [locMap, locMapL_congr g g' fs (by simpa [offsT] using h)]
    | some x => obtain ⟨a, b⟩ := x; simp [offsT] at h
theorem locMapL_congr (g g' : Nat → Pos) : ∀ ts : List Tree, offsL ts = [] → locMapL g ts = locMapL g' ts
  | [], _ => by simp [locMapL]
  | t :: ts, h => by
    simp [offsL] at h
    simp [locMapL, locMap_congr g g' t h.1, locMapL_congr g g' ts h.2]
end
theorem bare_eq (g : Nat → Pos) {t : Tree} (h : offsT t = []) : bare t = locMap g t := locMap_congr _ _ t h
theorem map_bare_eq (g : Nat → Pos) {ts : List Tree} (h : offsL ts = []) : ts.map bare = locMapL g ts := by
  have : ts.map bare = locMapL (fun _ => (0, 0)) ts := by rw [locMapL_eq]; rfl
  rw [this]; exact locMapL_congr _ _ ts h

section Sim
variable {σ : Type} (L : Locator σ) (I : Nat → σ → Prop) (g : Nat → Pos) (le : Nat → Nat → Bool) (dom : Nat → Bool)

/-- what the traversal needs from a locator: a call at an offset that is in the domain and not
    behind the cursor returns `g o` and keeps the invariant, with the cursor moved (`locate`) or
    not (`locate_only`) -/
structure LocSpec : Prop where
  op : ∀ (m : Mode) (c : Nat) (s : σ) (o : Nat), I c s → le c o = true → dom o = true →
    ∃ s', L.step s (opFor m o) = some (g o, s') ∧ I (curAfter m c o) s'

/-- `ffold` run from a state with cursor `c` produces `out` and ends with the cursor where `ford` says -/
def Sim (ford : Nat → Option Nat) (ffold : σ → Option (LTree × σ)) (out : LTree) : Prop :=
  ∀ c c' s, I c s → ford c = some c' → ∃ s', ffold s = some (out, s') ∧ I c' s'

theorem sim_seq {fo : Nat → Tree → Option Nat} {ff : Tree → σ → Option (LTree × σ)} {gm : Tree → LTree} :
    ∀ (xs : List Tree), (∀ t ∈ xs, Sim I (fun c => fo c t) (ff t) (gm t)) →
    ∀ c c' s, I c s → ordSeq fo c xs = some c' → ∃ s', seqM ff xs s = some (xs.map gm, s') ∧ I c' s' := by
  intro xs
  induction xs with
  | nil =>
    intro _ c c' s hI ho
    simp only [ordSeq, Option.some.injEq] at ho; subst ho
    exact ⟨s, rfl, hI⟩
  | cons t ts ih =>
    intro h c c' s hI ho
    simp only [ordSeq] at ho
    cases h1 : fo c t with
    | none => simp [h1] at ho
    | some c1 =>
      simp only [h1] at ho
      obtain ⟨s1, hf, hI1⟩ := h t (by simp) c c1 s hI h1
      obtain ⟨s2, hf2, hI2⟩ := ih (fun x hx => h x (by simp [hx])) c1 c' s1 hI1 ho
      exact ⟨s2, by simp [seqM, hf, hf2], hI2⟩

theorem sim_zip {fo : Nat → Tree → Option Nat} {ff : Tree → σ → Option (LTree × σ)} {gm : Tree → LTree} :
    ∀ (xs ys : List Tree), xs.length = ys.length →
    (∀ t ∈ xs, Sim I (fun c => fo c t) (ff t) (gm t)) → (∀ t ∈ ys, Sim I (fun c => fo c t) (ff t) (gm t)) →
    ∀ c c' s, I c s → ordZip fo c xs ys = some c' →
      ∃ s', zipM ff xs ys s = some ((xs.map gm, ys.map gm), s') ∧ I c' s' := by
  intro xs
  induction xs with
  | nil =>
    intro ys hl _ _ c c' s hI ho
    cases ys with
    | nil =>
      simp only [ordZip, Option.some.injEq] at ho; subst ho
      exact ⟨s, rfl, hI⟩
    | cons _ _ => simp at hl
  | cons a as ih =>
    intro ys hl hx hy c c' s hI ho
    cases ys with
    | nil => simp at hl
    | cons b bs =>
      simp only [ordZip] at ho
      cases h1 : fo c a with
      | none => simp [h1] at ho
      | some c1 =>
        simp only [h1] at ho
        cases h2 : fo c1 b with
        | none => simp [h2] at ho
        | some c2 =>
          simp only [h2] at ho
          obtain ⟨s1, hf1, hI1⟩ := hx a (by simp) c c1 s hI h1
          obtain ⟨s2, hf2, hI2⟩ := hy b (by simp) c1 c2 s1 hI1 h2
          obtain ⟨s3, hf3, hI3⟩ := ih bs (by simpa using hl) (fun x h => hx x (by simp [h]))
            (fun x h => hy x (by simp [h])) c2 c' s2 hI2 ho
          exact ⟨s3, by simp [zipM, hf1, hf2, hf3], hI3⟩

/-! #### the environment of located fields -/

def EnvGood (fs : List Tree) (env : Env) : Prop :=
  env.length = fs.length ∧ ∀ (i : Nat) (x : LTree), env[i]? = some (some x) → ∃ t : Tree, fs[i]? = some t ∧ x = locMap g t

def Done (env : Env) (i : Nat) : Prop := ∃ x, env[i]? = some (some x)

theorem envGood_init (fs : List Tree) : EnvGood g fs (fs.map (fun _ => none)) := by
  refine ⟨by simp, ?_⟩
  intro i x h
  simp [List.getElem?_map] at h

theorem envGood_set {fs : List Tree} {env : Env} (he : EnvGood g fs env) {i : Nat} {t : Tree}
    (hi : fs[i]? = some t) : EnvGood g fs (env.set i (some (locMap g t))) := by
  refine ⟨by simp [he.1], ?_⟩
  intro j x hj
  rw [List.getElem?_set] at hj
  split at hj
  next hij =>
    subst hij
    split at hj
    · simp at hj; subst hj; exact ⟨t, hi, rfl⟩
    · simp at hj
  next => exact he.2 j x hj

theorem done_set_self {fs : List Tree} {env : Env} (he : env.length = fs.length) {i : Nat} {t : Tree} (hi : fs[i]? = some t)
    (x : LTree) : Done (env.set i (some x)) i := by
  have : i < env.length := by
    rw [he]; exact (List.getElem?_eq_some_iff.mp hi).1
  exact ⟨x, by simp [List.getElem?_set, this]⟩

theorem done_set_other {env : Env} {i j : Nat} (x : Option LTree) (h : Done env j) (hx : x.isSome = true) : Done (env.set i x) j := by
  obtain ⟨y, hy⟩ := h
  by_cases hij : i = j
  · subst hij
    have : i < env.length := (List.getElem?_eq_some_iff.mp hy).1
    cases x with
    | none => simp at hx
    | some z => exact ⟨z, by simp [List.getElem?_set, this]⟩
  · exact ⟨y, by simp [List.getElem?_set, hij, hy]⟩


/-! #### one statement / a statement list of a `fold_<kind>` body -/

variable {sch : Schema} {n : Nat}
  {recO : Mode → Nat → Tree → Option Nat} {recF : Mode → Tree → σ → Option (LTree × σ)}

theorem sim_step
    (hrec : ∀ m t, depth t < n → Conf sch t → Sim I (fun c => recO m c t) (recF m t) (locMap g t))
    {fs : List Tree} (hd : depthL fs < n) (hc : ∀ t ∈ fs, Conf sch t) (m : Mode) (st : Step)
    {env : Env} {c c' : Nat} {s : σ} (hI : I c s) (he : EnvGood g fs env)
    (ho : ordStep recO m fs c st = some c') :
    ∃ env' s', stepWith recF m fs st (env, s) = some (env', s') ∧ I c' s' ∧ EnvGood g fs env' ∧
      (∀ i, Done env i → Done env' i) ∧ (∀ i ∈ stepFields st, Done env' i) := by
  cases st with
  | fold i =>
    simp only [ordStep] at ho
    cases hi : fs[i]? with
    | none => simp [hi] at ho
    | some t =>
      simp only [hi] at ho
      have hdt : depth t < n := Nat.lt_of_le_of_lt (depth_get hi) hd
      obtain ⟨s', hf, hI'⟩ := hrec m t hdt (hc t (List.mem_of_getElem? hi)) c c' s hI ho
      refine ⟨env.set i (some (locMap g t)), s', by simp [stepWith, hi, hf], hI', envGood_set g he hi, ?_, ?_⟩
      · intro j hj; exact done_set_other _ hj rfl
      · intro j hj; simp [stepFields] at hj; subst hj; exact done_set_self he.1 hi _
  | look i =>
    simp only [ordStep] at ho
    cases hi : fs[i]? with
    | none => simp [hi] at ho
    | some t =>
      simp only [hi] at ho
      have hdt : depth t < n := Nat.lt_of_le_of_lt (depth_get hi) hd
      obtain ⟨s', hf, hI'⟩ := hrec .look t hdt (hc t (List.mem_of_getElem? hi)) c c' s hI ho
      refine ⟨env.set i (some (locMap g t)), s', by simp [stepWith, hi, hf], hI', envGood_set g he hi, ?_, ?_⟩
      · intro j hj; exact done_set_other _ hj rfl
      · intro j hj; simp [stepFields] at hj; subst hj; exact done_set_self he.1 hi _
  | zip i j strict =>
    simp only [ordStep] at ho
    cases hi : fs[i]? with
    | none => simp [hi] at ho
    | some ti =>
      cases hj : fs[j]? with
      | none => simp [hi, hj] at ho
      | some tj =>
        simp only [hi, hj] at ho
        split at ho
        next xs ys hxi hyj =>
          simp only [Option.some.injEq] at hxi hyj
          subst hxi; subst hyj
          split at ho
          next hlen =>
            have hlen' : xs.length = ys.length := by simpa using hlen
            have hdx : ∀ x ∈ xs, depth x < n := fun x hx => by
              have h1 := depth_le_depthL hx
              have h2 := depth_get hi
              simp only [depth] at h2
              omega
            have hdy : ∀ y ∈ ys, depth y < n := fun y hy => by
              have h1 := depth_le_depthL hy
              have h2 := depth_get hj
              simp only [depth] at h2
              omega
            have hcx := (hc _ (List.mem_of_getElem? hi)).ofList
            have hcy := (hc _ (List.mem_of_getElem? hj)).ofList
            obtain ⟨s', hf, hI'⟩ := sim_zip I (fo := recO m) (ff := recF m) (gm := locMap g) xs ys hlen'
              (fun t ht => hrec m t (hdx t ht) (hcx t ht)) (fun t ht => hrec m t (hdy t ht) (hcy t ht)) c c' s hI ho
            have e1 : LTree.list (xs.map (locMap g)) = locMap g (.list xs) := by simp [locMap, locMapL_eq]
            have e2 : LTree.list (ys.map (locMap g)) = locMap g (.list ys) := by simp [locMap, locMapL_eq]
            have hne : (strict && xs.length != ys.length) = false := by simp [hlen']
            refine ⟨(env.set i (some (locMap g (.list xs)))).set j (some (locMap g (.list ys))), s', ?_, hI',
              envGood_set g (envGood_set g he hi) hj, ?_, ?_⟩
            · simp only [stepWith, hi, hj, hne, hf, e1, e2]; rfl
            · intro k hk; exact done_set_other _ (done_set_other _ hk rfl) rfl
            · intro k hk
              simp [stepFields] at hk
              rcases hk with rfl | rfl
              · exact done_set_other _ (done_set_self he.1 hi _) rfl
              · exact done_set_self (by simp [he.1]) hj _
          next => simp at ho
        next => simp at ho

theorem sim_steps
    (hrec : ∀ m t, depth t < n → Conf sch t → Sim I (fun c => recO m c t) (recF m t) (locMap g t))
    {fs : List Tree} (hd : depthL fs < n) (hc : ∀ t ∈ fs, Conf sch t) (m : Mode) :
    ∀ (steps : List Step) {env : Env} {c c' : Nat} {s : σ}, I c s → EnvGood g fs env →
      ordSteps recO m fs c steps = some c' →
      ∃ env' s', stepsWith recF m fs steps (env, s) = some (env', s') ∧ I c' s' ∧ EnvGood g fs env' ∧
        (∀ i, Done env i → Done env' i) ∧ (∀ i ∈ steps.flatMap stepFields, Done env' i) := by
  intro steps
  induction steps with
  | nil =>
    intro env c c' s hI he ho
    simp only [ordSteps, Option.some.injEq] at ho; subst ho
    exact ⟨env, s, rfl, hI, he, fun _ h => h, by simp⟩
  | cons st rest ih =>
    intro env c c' s hI he ho
    simp only [ordSteps] at ho
    cases h1 : ordStep recO m fs c st with
    | none => simp [h1] at ho
    | some c1 =>
      simp only [h1] at ho
      obtain ⟨env1, s1, hf1, hI1, he1, hk1, hd1⟩ := sim_step I g hrec hd hc m st hI he h1
      obtain ⟨env2, s2, hf2, hI2, he2, hk2, hd2⟩ := ih hI1 he1 ho
      refine ⟨env2, s2, by simp [stepsWith, hf1, hf2], hI2, he2, fun i h => hk2 i (hk1 i h), ?_⟩
      intro i hi
      simp only [List.flatMap_cons, List.mem_append] at hi
      rcases hi with hi | hi
      · exact hk2 i (hd1 i hi)
      · exact hd2 i hi

theorem collect_of_done : ∀ (fs : List Tree) (env : Env), EnvGood g fs env → (∀ i, i < fs.length → Done env i) →
    Env.collect env = some (locMapL g fs)
  | [], env, he, _ => by
    have : env = [] := List.eq_nil_of_length_eq_zero (by simpa using he.1)
    subst this; rfl
  | t :: ts, env, he, hdone => by
    cases env with
    | nil => exact absurd he.1 (by simp)
    | cons e env' =>
      obtain ⟨x, hx⟩ := hdone 0 (by simp)
      simp at hx; subst hx
      obtain ⟨t0, ht0, hx0⟩ := he.2 0 x (by simp)
      simp at ht0; subst ht0
      have he' : EnvGood g ts env' := by
        refine ⟨by simpa using he.1, ?_⟩
        intro i y hy
        obtain ⟨t1, ht1, hy1⟩ := he.2 (i + 1) y (by simpa using hy)
        exact ⟨t1, by simpa using ht1, hy1⟩
      have hd' : ∀ i, i < ts.length → Done env' i := by
        intro i hi
        obtain ⟨y, hy⟩ := hdone (i + 1) (by simp; omega)
        exact ⟨y, by simpa using hy⟩
      simp [Env.collect, collect_of_done ts env' he' hd', locMapL, hx0]


theorem planOk_facts {nf : Nat} {p : Plan} (h : planOk nf p = true) :
    p.cb = true ∧ (∀ i, i < nf → i ∈ p.pre.flatMap stepFields ∨ i ∈ p.body.flatMap stepFields) ∧
    (∀ i ∈ p.fields, i < nf) := by
  simp only [planOk, Bool.and_eq_true, List.all_eq_true, decide_eq_true_eq] at h
  obtain ⟨⟨h1, h2⟩, h3⟩ := h
  refine ⟨h1, ?_, h3⟩
  intro i hi
  have := h2 i (List.mem_range.mpr hi)
  simp only [Plan.fields, List.contains_iff_mem, List.flatMap_append, List.mem_append] at this
  exact this

theorem sim_node (hL : LocSpec L I g le dom)
    (hrec : ∀ m t, depth t < n → Conf sch t → Sim I (fun c => recO m c t) (recF m t) (locMap g t))
    {fs : List Tree} (hd : depthL fs < n) (hc : ∀ t ∈ fs, Conf sch t) (m : Mode) (plan : Plan)
    (hp : planOk fs.length plan = true) (k : Nat) (r : Option TRange) :
    Sim I (fun c => ordNode le dom recO m plan r fs c) (nodeWith L recF m plan k r fs) (locMap g (.node k r fs)) := by
  intro c c' s hI ho
  obtain ⟨hcb, hcov, _⟩ := planOk_facts hp
  simp only [ordNode] at ho
  cases h1 : ordSteps recO m fs c plan.pre with
  | none => simp [h1] at ho
  | some c1 =>
    simp only [h1] at ho
    obtain ⟨env1, s1, hf1, hI1, he1, _, hd1⟩ := sim_steps I g hrec hd hc m plan.pre hI (envGood_init g fs) h1
    cases r with
    | none =>
      simp only at ho
      obtain ⟨env2, s3, hf2, hI2, he2, hk2, hd2⟩ := sim_steps I g hrec hd hc m plan.body hI1 he1 ho
      have hall : ∀ i, i < fs.length → Done env2 i := by
        intro i hi
        rcases hcov i hi with h | h
        · exact hk2 i (hd1 i h)
        · exact hd2 i h
      refine ⟨s3, ?_, hI2⟩
      simp [nodeWith, hf1, hf2, collect_of_done g fs env2 he2 hall, locMap]
    | some ab =>
      obtain ⟨a, b⟩ := ab
      simp only [hcb, Bool.true_and] at ho
      split at ho
      next hcond =>
        simp only [Bool.and_eq_true] at hcond
        obtain ⟨s2, hs2, hI2⟩ := hL.op m c1 s1 a hI1 hcond.1 hcond.2
        cases h2 : ordSteps recO m fs (curAfter m c1 a) plan.body with
        | none => simp [h2] at ho
        | some c2 =>
          simp only [h2] at ho
          split at ho
          next hcond2 =>
            simp only [Bool.and_eq_true] at hcond2
            simp only [Option.some.injEq] at ho; subst ho
            obtain ⟨env2, s3, hf2, hI3, he2, hk2, hd2⟩ := sim_steps I g hrec hd hc m plan.body hI2 he1 h2
            obtain ⟨s4, hs4, hI4⟩ := hL.op m c2 s3 b hI3 hcond2.1 hcond2.2
            have hall : ∀ i, i < fs.length → Done env2 i := by
              intro i hi
              rcases hcov i hi with h | h
              · exact hk2 i (hd1 i h)
              · exact hd2 i h
            refine ⟨s4, ?_, hI4⟩
            simp [nodeWith, hf1, hf2, hcb, hs2, hs4, collect_of_done g fs env2 he2 hall, locMap]
          next => simp at ho
      next => simp at ho


/-! #### f-strings -/

theorem sim_piece (cfg : LocCfg) {d : Nat}
    {linO : Nat → Tree → Option Nat} {linF : Tree → σ → Option (LTree × σ)}
    {jO : Nat → Tree → Option Nat} {jF : Tree → σ → Option (LTree × σ)}
    (hlin : ∀ t, depth t < d → Conf sch t → Sim I (fun c => linO c t) (linF t) (locMap g t))
    (hj : ∀ t, depth t < d → Conf sch t → Sim I (fun c => jO c t) (jF t) (locMap g t))
    (loc : TRange) (p : Tree) (hdp : depth p ≤ d) (hcp : Conf sch p) :
    Sim I (fun c => ordPiece cfg linO jO loc c p) (pieceWith cfg linF jF (g loc.1, g loc.2) p) (locMap g p) := by
  intro c c' s hI ho
  cases p with
  | node k r fs =>
    simp only [ordPiece] at ho
    split at ho
    next => simp at ho
    next hr =>
      have hr' : r = some loc := by simpa using hr
      subst hr'
      obtain ⟨ki, _, _, hcf⟩ := hcp.ofNode
      split at ho
      next hk =>
        split at ho
        next hempty =>
          simp only [Option.some.injEq] at ho; subst ho
          have he : offsL fs = [] := by simpa using hempty
          exact ⟨s, by simp [pieceWith, hk, locMap, map_bare_eq g he], hI⟩
        next => simp at ho
      next hk =>
        split at ho
        next hk2 =>
          rcases fs with _ | ⟨value, _ | ⟨conv, _ | ⟨spec, _ | ⟨x, rest⟩⟩⟩⟩
          · simp at ho
          · simp at ho
          · simp at ho
          · simp only at ho
            split at ho
            next => simp at ho
            next hconv =>
              have hce : offsT conv = [] := by simpa using hconv
              have hdv : depth value < d := by
                have := depth_le_depthL (t := value) (ts := [value, conv, spec]) (by simp)
                simp only [depth] at hdp; omega
              have hds : depth spec < d := by
                have := depth_le_depthL (t := spec) (ts := [value, conv, spec]) (by simp)
                simp only [depth] at hdp; omega
              cases h1 : linO c value with
              | none => simp [h1] at ho
              | some c1 =>
                simp only [h1] at ho
                obtain ⟨s1, hf1, hI1⟩ := hlin value hdv (hcf value (by simp)) c c1 s hI h1
                cases spec with
                | none =>
                  simp only [Option.some.injEq] at ho; subst ho
                  exact ⟨s1, by simp [pieceWith, hk, hk2, hf1, locMap, locMapL, bare_eq g hce], hI1⟩
                | some e =>
                  have hde : depth e < d := by simp only [depth] at hds; omega
                  have hce' : Conf sch e := (hcf (.some e) (by simp)).ofSome
                  simp only at ho
                  by_cases hjk : isKind cfg.joined e = true
                  · simp only [hjk, ↓reduceIte] at ho
                    obtain ⟨s2, hf2, hI2⟩ := hj e hde hce' c1 c' s1 hI1 ho
                    exact ⟨s2, by simp [pieceWith, hk, hk2, hf1, hjk, hf2, locMap, locMapL, bare_eq g hce], hI2⟩
                  · simp only [hjk] at ho
                    obtain ⟨s2, hf2, hI2⟩ := hlin e hde hce' c1 c' s1 hI1 ho
                    exact ⟨s2, by simp [pieceWith, hk, hk2, hf1, hjk, hf2, locMap, locMapL, bare_eq g hce], hI2⟩
                | leaf _ => simp at ho
                | list _ => simp at ho
                | node _ _ _ => simp at ho
          · simp at ho
        next => simp at ho
  | leaf _ => simp [ordPiece] at ho
  | none => simp [ordPiece] at ho
  | some _ => simp [ordPiece] at ho
  | list _ => simp [ordPiece] at ho

theorem sim_joined {d : Nat} {pO : Nat → Tree → Option Nat} {pF : Tree → σ → Option (LTree × σ)}
    (hp : ∀ p, depth p ≤ d → Conf sch p → Sim I (fun c => pO c p) (pF p) (locMap g p))
    (loc : TRange) (t : Tree) (hdt : depth t ≤ d + 2) (hct : Conf sch t) :
    Sim I (fun c => ordJoined pO loc c t) (joinedWith pF (g loc.1, g loc.2) t) (locMap g t) := by
  intro c c' s hI ho
  unfold ordJoined at ho
  split at ho
  next k r values =>
    split at ho
    next hr =>
      have hr' : r = some loc := by simpa using hr
      subst hr'
      obtain ⟨ki, _, _, hcf⟩ := hct.ofNode
      have hcv := (hcf (.list values) (by simp)).ofList
      have hdv : ∀ p ∈ values, depth p ≤ d := by
        intro p hp'
        have := depth_le_depthL hp'
        simp only [depth, depthL] at hdt
        omega
      obtain ⟨s', hf, hI'⟩ := sim_seq I (fo := pO) (ff := pF) (gm := locMap g) values
        (fun p hp' => hp p (hdv p hp') (hcv p hp')) c c' s hI ho
      exact ⟨s', by simp [joinedWith, hf, locMap, locMapL, locMapL_eq], hI'⟩
    next => simp at ho
  next => simp at ho


/-! #### the whole traversal -/

theorem lookup_mem {α : Type} : ∀ {l : List (Nat × α)} {k : Nat} {p : α}, l.lookup k = some p → (k, p) ∈ l
  | [], _, _, h => by simp [List.lookup] at h
  | (k', p') :: l, k, p, h => by
    simp only [List.lookup] at h
    split at h
    next heq =>
      have : k = k' := by simpa using heq
      simp at h; subst h; subst this; simp
    next => exact List.mem_cons_of_mem _ (lookup_mem h)

theorem planOf_ok {cfg : LocCfg} (hwf : LocWF cfg sch) {k : Nat} {ki : PV.C12.KindInfo}
    (hk : sch.kinds[k]? = some ki) {m : Mode} {plan : Plan} (hp : cfg.planOf m k = some plan) :
    planOk ki.fields.length plan = true := by
  have hgen : ∀ {pl}, (cfg.prog.entries[k]?).map genPlan = some pl → planOk ki.fields.length pl = true := by
    intro pl h
    obtain ⟨e, he, hpe⟩ := PV.C12.zipAll_get hwf.2.1 k ki hk
    simp [he] at h; subst h; exact hpe
  have hov : ∀ {pl}, cfg.ov.lookup k = some pl → planOk ki.fields.length pl = true := by
    intro pl h
    have := List.all_eq_true.mp hwf.2.2 _ (lookup_mem h)
    simpa [hk] using this
  unfold LocCfg.planOf at hp
  cases m with
  | lin =>
    simp only at hp
    cases hl : cfg.ov.lookup k with
    | some p => simp only [hl, Option.some.injEq] at hp; subst hp; exact hov hl
    | none => simp only [hl] at hp; exact hgen hp
  | look => exact hgen hp
  | gen => exact hgen hp

theorem sim_fold (hL : LocSpec L I g le dom) {cfg : LocCfg} (hwf : LocWF cfg sch) : ∀ n,
    (∀ m t, depth t < n → Conf sch t →
      Sim I (fun c => ordT le dom cfg n m c t) (foldLoc L cfg n m t) (locMap g t)) ∧
    (∀ loc t, depth t ≤ n → Conf sch t →
      Sim I (fun c => ordJ le dom cfg n loc c t) (joinedLoc L cfg n (g loc.1, g loc.2) t) (locMap g t)) := by
  intro n
  induction n with
  | zero =>
    refine ⟨?_, ?_⟩
    · intro m t hd
      exact absurd hd (Nat.not_lt_zero _)
    · intro loc t _ _ c c' s _ ho
      simp [ordJ] at ho
  | succ n ih =>
    obtain ⟨ihF, ihJ⟩ := ih
    refine ⟨?_, ?_⟩
    · intro m t hd hc c c' s hI ho
      cases t with
      | leaf a =>
        simp only [ordT, Option.some.injEq] at ho; subst ho
        exact ⟨s, by simp [foldLoc, locMap], hI⟩
      | none =>
        simp only [ordT, Option.some.injEq] at ho; subst ho
        exact ⟨s, by simp [foldLoc, locMap], hI⟩
      | some x =>
        simp only [ordT] at ho
        have hdx : depth x < n := by simp only [depth] at hd; omega
        obtain ⟨s', hf, hI'⟩ := ihF m x hdx hc.ofSome c c' s hI ho
        exact ⟨s', by simp [foldLoc, hf, locMap], hI'⟩
      | list xs =>
        simp only [ordT] at ho
        have hdx : ∀ x ∈ xs, depth x < n := fun x hx => by
          have := depth_le_depthL hx
          simp only [depth] at hd; omega
        obtain ⟨s', hf, hI'⟩ := sim_seq I (fo := ordT le dom cfg n m) (ff := foldLoc L cfg n m) (gm := locMap g) xs
          (fun x hx => ihF m x (hdx x hx) (hc.ofList x hx)) c c' s hI ho
        exact ⟨s', by simp [foldLoc, hf, locMap, locMapL_eq], hI'⟩
      | node k r fs =>
        obtain ⟨ki, hk, hlen, hcf⟩ := hc.ofNode
        have hdf : depthL fs < n := by simp only [depth] at hd; omega
        simp only [ordT] at ho
        by_cases hj : (m == Mode.lin && k == cfg.joined) = true
        · simp only [hj, ↓reduceIte] at ho
          have hm : m = .lin := by
            simp only [Bool.and_eq_true, beq_iff_eq] at hj; exact hj.1
          subst hm
          cases r with
          | none => simp at ho
          | some ab =>
            obtain ⟨a, b⟩ := ab
            simp only at ho
            split at ho
            next hcond =>
              simp only [Bool.and_eq_true] at hcond
              obtain ⟨⟨⟨h1, h2⟩, h3⟩, h4⟩ := hcond
              obtain ⟨s1, hs1, hI1⟩ := hL.op .lin c s a hI h1 h2
              obtain ⟨s2, hs2, hI2⟩ := hL.op .look a s1 b hI1 h3 h4
              simp only [opFor, curAfter] at hs1 hs2 hI1 hI2
              have hdn : depth (Tree.node k (some (a, b)) fs) ≤ n := by omega
              obtain ⟨s3, hf3, hI3⟩ := ihJ (a, b) _ hdn hc a c' s2 hI2 ho
              exact ⟨s3, by simp only [foldLoc, hj, ↓reduceIte, hs1, hs2]; exact hf3, hI3⟩
            next => simp at ho
        · simp only [hj] at ho
          cases hp : cfg.planOf m k with
          | none => simp [hp] at ho
          | some plan =>
            simp only [hp] at ho
            have hpo := planOf_ok hwf hk hp
            rw [← hlen] at hpo
            obtain ⟨s', hf, hI'⟩ := sim_node L I g le dom hL ihF hdf hcf m plan hpo k r c c' s hI ho
            exact ⟨s', by simp only [foldLoc, hj, hp]; exact hf, hI'⟩
    · intro loc t hd hc
      have hpiece : ∀ p, depth p ≤ n - 1 → Conf sch p →
          Sim I (fun c => ordPiece cfg (ordT le dom cfg n .lin) (ordJ le dom cfg n loc) loc c p)
            (pieceWith cfg (foldLoc L cfg n .lin) (joinedLoc L cfg n (g loc.1, g loc.2)) (g loc.1, g loc.2) p)
            (locMap g p) := by
        intro p hdp hcp
        exact sim_piece I g cfg (d := n - 1)
          (fun t ht hct => ihF .lin t (by omega) hct) (fun t ht hct => ihJ loc t (by omega) hct) loc p hdp hcp
      have := sim_joined I g (d := n - 1) hpiece loc t (by omega) hc
      intro c c' s hI ho
      simp only [ordJ] at ho
      obtain ⟨s', hf, hI'⟩ := this c c' s hI ho
      exact ⟨s', by simp only [joinedLoc]; exact hf, hI'⟩

end Sim

/-! ### every offset of an ordered tree is in the domain -/

section AllDom
variable (le : Nat → Nat → Bool) (dom : Nat → Bool) {sch : Schema}

def AllDom (t : Tree) : Prop := ∀ o ∈ offsT t, dom o = true

theorem ordSeq_mem {α : Type} {f : Nat → α → Option Nat} : ∀ {xs : List α} {c c' : Nat}, ordSeq f c xs = some c' →
    ∀ x ∈ xs, ∃ c1 c2, f c1 x = some c2
  | [], _, _, _, x, hx => by cases hx
  | t :: ts, c, c', h, x, hx => by
    simp only [ordSeq] at h
    cases h1 : f c t with
    | none => simp [h1] at h
    | some c1 =>
      simp only [h1] at h
      cases hx with
      | head => exact ⟨c, c1, h1⟩
      | tail _ hx => exact ordSeq_mem h x hx

theorem ordZip_mem {α : Type} {f : Nat → α → Option Nat} : ∀ {xs ys : List α} {c c' : Nat}, xs.length = ys.length →
    ordZip f c xs ys = some c' → ∀ x, x ∈ xs ∨ x ∈ ys → ∃ c1 c2, f c1 x = some c2
  | [], [], _, _, _, _, x, hx => by simp at hx
  | [], _ :: _, _, _, hl, _, _, _ => by simp at hl
  | _ :: _, [], _, _, hl, _, _, _ => by simp at hl
  | a :: as, b :: bs, c, c', hl, h, x, hx => by
    simp only [ordZip] at h
    cases h1 : f c a with
    | none => simp [h1] at h
    | some c1 =>
      simp only [h1] at h
      cases h2 : f c1 b with
      | none => simp [h2] at h
      | some c2 =>
        simp only [h2] at h
        simp only [List.mem_cons] at hx
        rcases hx with (rfl | hx) | (rfl | hx)
        · exact ⟨c, c1, h1⟩
        · exact ordZip_mem (by simpa using hl) h x (Or.inl hx)
        · exact ⟨c1, c2, h2⟩
        · exact ordZip_mem (by simpa using hl) h x (Or.inr hx)

theorem allDom_list {xs : List Tree} (h : ∀ x ∈ xs, AllDom dom x) : AllDom dom (.list xs) := by
  intro o ho
  simp only [offsT, offsL_eq, List.mem_flatMap] at ho
  obtain ⟨x, hx, hox⟩ := ho
  exact h x hx o hox

variable {n : Nat} {recO : Mode → Nat → Tree → Option Nat}

theorem allDom_steps
    (hrec : ∀ m t c c', depth t < n → Conf sch t → recO m c t = some c' → AllDom dom t)
    {fs : List Tree} (hd : depthL fs < n) (hc : ∀ t ∈ fs, Conf sch t) (m : Mode) :
    ∀ (steps : List Step) {c c' : Nat}, ordSteps recO m fs c steps = some c' →
      ∀ i ∈ steps.flatMap stepFields, ∀ t, fs[i]? = some t → AllDom dom t := by
  intro steps
  induction steps with
  | nil => intro c c' _ i hi; simp at hi
  | cons st rest ih =>
    intro c c' ho i hi t ht
    simp only [ordSteps] at ho
    cases h1 : ordStep recO m fs c st with
    | none => simp [h1] at ho
    | some c1 =>
      simp only [h1] at ho
      simp only [List.flatMap_cons, List.mem_append] at hi
      rcases hi with hi | hi
      · have hdt : depth t < n := Nat.lt_of_le_of_lt (depth_get ht) hd
        have hct := hc t (List.mem_of_getElem? ht)
        cases st with
        | fold j =>
          simp [stepFields] at hi; subst hi
          simp only [ordStep, ht] at h1
          exact hrec m t c c1 hdt hct h1
        | look j =>
          simp [stepFields] at hi; subst hi
          simp only [ordStep, ht] at h1
          exact hrec .look t c c1 hdt hct h1
        | zip j1 j2 strict =>
          simp only [ordStep] at h1
          cases hj1 : fs[j1]? with
          | none => simp [hj1] at h1
          | some t1 =>
            cases hj2 : fs[j2]? with
            | none => simp [hj1, hj2] at h1
            | some t2 =>
              simp only [hj1, hj2] at h1
              split at h1
              next xs ys e1 e2 =>
                simp only [Option.some.injEq] at e1 e2; subst e1; subst e2
                split at h1
                next hlen =>
                  have hlen' : xs.length = ys.length := by simpa using hlen
                  have hmem := ordZip_mem hlen' h1
                  have key : ∀ (zs : List Tree) (jj : Nat), fs[jj]? = some (.list zs) → (∀ z ∈ zs, z ∈ xs ∨ z ∈ ys) →
                      AllDom dom (.list zs) := by
                    intro zs jj hjj hsub
                    apply allDom_list
                    intro z hz
                    obtain ⟨ca, cb, hz'⟩ := hmem z (hsub z hz)
                    have hdz : depth z < n := by
                      have h1' := depth_le_depthL hz
                      have h2' := depth_get hjj
                      simp only [depth] at h2'
                      omega
                    exact hrec m z ca cb hdz ((hc _ (List.mem_of_getElem? hjj)).ofList z hz) hz'
                  simp [stepFields] at hi
                  rcases hi with rfl | rfl
                  · rw [hj1] at ht; simp at ht; subst ht
                    exact key xs i hj1 (fun z hz => Or.inl hz)
                  · rw [hj2] at ht; simp at ht; subst ht
                    exact key ys i hj2 (fun z hz => Or.inr hz)
                next => simp at h1
              next => simp at h1
      · exact ih ho i hi t ht

theorem allDom_fields {fs : List Tree} (h : ∀ i, i < fs.length → ∀ t, fs[i]? = some t → AllDom dom t) :
    ∀ o ∈ offsL fs, dom o = true := by
  intro o ho
  simp only [offsL_eq, List.mem_flatMap] at ho
  obtain ⟨t, ht, hot⟩ := ho
  obtain ⟨i, hi, rfl⟩ := List.getElem_of_mem ht
  exact h i hi _ (List.getElem?_eq_getElem hi) o hot

theorem allDom_ord {cfg : LocCfg} (hwf : LocWF cfg sch) : ∀ n,
    (∀ m t c c', depth t < n → Conf sch t → ordT le dom cfg n m c t = some c' → AllDom dom t) ∧
    (∀ loc t c c', depth t ≤ n → Conf sch t → ordJ le dom cfg n loc c t = some c' →
      dom loc.1 = true → dom loc.2 = true → AllDom dom t) := by
  intro n
  induction n with
  | zero =>
    exact ⟨fun m t c c' hd => absurd hd (Nat.not_lt_zero _), fun loc t c c' _ _ ho => by simp [ordJ] at ho⟩
  | succ n ih =>
    obtain ⟨ihF, ihJ⟩ := ih
    refine ⟨?_, ?_⟩
    · intro m t c c' hd hc ho
      cases t with
      | leaf a => intro o h; simp [offsT] at h
      | none => intro o h; simp [offsT] at h
      | some x =>
        simp only [ordT] at ho
        have hdx : depth x < n := by simp only [depth] at hd; omega
        have := ihF m x c c' hdx hc.ofSome ho
        intro o h; exact this o (by simpa [offsT] using h)
      | list xs =>
        simp only [ordT] at ho
        apply allDom_list
        intro x hx
        obtain ⟨c1, c2, h⟩ := ordSeq_mem ho x hx
        have hdx : depth x < n := by
          have := depth_le_depthL hx
          simp only [depth] at hd; omega
        exact ihF m x c1 c2 hdx (hc.ofList x hx) h
      | node k r fs =>
        obtain ⟨ki, hk, hlen, hcf⟩ := hc.ofNode
        have hdf : depthL fs < n := by simp only [depth] at hd; omega
        simp only [ordT] at ho
        by_cases hj : (m == Mode.lin && k == cfg.joined) = true
        · simp only [hj, ↓reduceIte] at ho
          cases r with
          | none => simp at ho
          | some ab =>
            obtain ⟨a, b⟩ := ab
            simp only at ho
            split at ho
            next hcond =>
              simp only [Bool.and_eq_true] at hcond
              exact ihJ (a, b) _ a c' (by omega) hc ho hcond.1.1.2 hcond.2
            next => simp at ho
        · simp only [hj, Bool.false_eq_true, ↓reduceIte] at ho
          cases hp : cfg.planOf m k with
          | none => simp [hp] at ho
          | some plan =>
            simp only [hp] at ho
            have hpo := planOf_ok hwf hk hp
            rw [← hlen] at hpo
            obtain ⟨hcb, hcov, _⟩ := planOk_facts hpo
            simp only [ordNode] at ho
            cases h1 : ordSteps (ordT le dom cfg n) m fs c plan.pre with
            | none => simp [h1] at ho
            | some c1 =>
              simp only [h1] at ho
              have hpre := allDom_steps dom ihF hdf hcf m plan.pre h1
              have fin : ∀ {c2 c3}, ordSteps (ordT le dom cfg n) m fs c2 plan.body = some c3 → ∀ o ∈ offsL fs, dom o = true := by
                intro c2 c3 h2
                have hbody := allDom_steps dom ihF hdf hcf m plan.body h2
                apply allDom_fields
                intro i hi t ht
                rcases hcov i hi with h | h
                · exact hpre i h t ht
                · exact hbody i h t ht
              cases r with
              | none =>
                intro o hoo
                simp only [offsT, List.nil_append] at hoo
                exact fin ho o hoo
              | some ab =>
                obtain ⟨a, b⟩ := ab
                simp only [hcb, Bool.true_and] at ho
                split at ho
                next hcond =>
                  try simp only [Bool.and_eq_true] at hcond
                  cases h2 : ordSteps (ordT le dom cfg n) m fs (curAfter m c1 a) plan.body with
                  | none => simp [h2] at ho
                  | some c2 =>
                    simp only [h2] at ho
                    split at ho
                    next hcond2 =>
                      try simp only [Bool.and_eq_true] at hcond2
                      intro o hoo
                      simp only [offsT, List.cons_append, List.nil_append, List.mem_cons] at hoo
                      rcases hoo with rfl | rfl | hoo
                      · exact hcond.2
                      · exact hcond2.2
                      · exact fin h2 o hoo
                    next => simp at ho
                next => simp at ho
    · intro loc t c c' hd hc ho hl1 hl2
      simp only [ordJ] at ho
      unfold ordJoined at ho
      split at ho
      next k r values =>
        split at ho
        next hr =>
          have hr' : r = some loc := by simpa using hr
          subst hr'
          obtain ⟨ki, _, _, hcf⟩ := hc.ofNode
          have hcv := (hcf (.list values) (by simp)).ofList
          intro o hoo
          simp only [offsT, offsL, List.append_nil, List.cons_append, List.nil_append, List.mem_cons] at hoo
          rcases hoo with rfl | rfl | hoo
          · exact hl1
          · exact hl2
          · rw [offsL_eq, List.mem_flatMap] at hoo
            obtain ⟨p, hp, hop⟩ := hoo
            obtain ⟨c1, c2, hpc⟩ := ordSeq_mem ho p hp
            have hdp : depth p + 2 ≤ n + 1 := by
              have := depth_le_depthL hp
              simp only [depth, depthL] at hd
              omega
            have hcp := hcv p hp
            -- one piece
            cases p with
            | node k' r' fs' =>
              simp only [ordPiece] at hpc
              split at hpc
              next => simp at hpc
              next hr2 =>
                have hr2' : r' = some loc := by simpa using hr2
                subst hr2'
                obtain ⟨_, _, _, hcf'⟩ := hcp.ofNode
                simp only [offsT, List.cons_append, List.nil_append, List.mem_cons] at hop
                rcases hop with rfl | rfl | hop
                · exact hl1
                · exact hl2
                · split at hpc
                  next =>
                    split at hpc
                    next hempty =>
                      have : offsL fs' = [] := by simpa using hempty
                      rw [this] at hop; cases hop
                    next => simp at hpc
                  next =>
                    split at hpc
                    next =>
                      rcases fs' with _ | ⟨value, _ | ⟨conv, _ | ⟨spec, _ | ⟨x, rest⟩⟩⟩⟩
                      · simp at hpc
                      · simp at hpc
                      · simp at hpc
                      · simp only at hpc
                        split at hpc
                        next => simp at hpc
                        next hconv =>
                          have hce : offsT conv = [] := by simpa using hconv
                          have hdv : depth value < n := by
                            have := depth_le_depthL (t := value) (ts := [value, conv, spec]) (by simp)
                            simp only [depth] at hdp; omega
                          have hds : depth spec < n := by
                            have := depth_le_depthL (t := spec) (ts := [value, conv, spec]) (by simp)
                            simp only [depth] at hdp; omega
                          cases h1 : ordT le dom cfg n .lin c1 value with
                          | none => simp [h1] at hpc
                          | some c3 =>
                            simp only [h1] at hpc
                            have hv := ihF .lin value c1 c3 hdv (hcf' value (by simp)) h1
                            simp only [offsL, hce, List.append_nil, List.nil_append, List.mem_append] at hop
                            rcases hop with hop | hop
                            · exact hv o hop
                            · cases spec with
                              | none => simp [offsT] at hop
                              | some e =>
                                have hde : depth e < n := by simp only [depth] at hds; omega
                                have hce' : Conf sch e := (hcf' (.some e) (by simp)).ofSome
                                simp only [offsT] at hop
                                simp only at hpc
                                by_cases hjk : isKind cfg.joined e = true
                                · simp only [hjk, ↓reduceIte] at hpc
                                  exact ihJ loc e c3 c2 (by omega) hce' hpc hl1 hl2 o hop
                                · simp only [hjk] at hpc
                                  exact ihF .lin e c3 c2 hde hce' hpc o hop
                              | leaf _ => simp at hpc
                              | list _ => simp at hpc
                              | node _ _ _ => simp at hpc
                      · simp at hpc
                    next => simp at hpc
            | leaf _ => simp [ordPiece] at hpc
            | none => simp [ordPiece] at hpc
            | some _ => simp [ordPiece] at hpc
            | list _ => simp [ordPiece] at hpc
        next => simp at ho
      next => simp at ho


/-! ### the generated fold with a stateless locator only needs every offset in the domain -/

theorem ordGen_steps {recO : Mode → Nat → Tree → Option Nat} {n : Nat}
    (hrec : ∀ t c, depth t < n → Conf sch t → AllDom dom t → ∃ c', recO .gen c t = some c')
    {fs : List Tree} (hd : depthL fs < n) (hc : ∀ t ∈ fs, Conf sch t) (hdom : ∀ t ∈ fs, AllDom dom t) :
    ∀ (steps : List Step), (∀ st ∈ steps, ∃ i, st = .fold i ∧ i < fs.length) → ∀ c,
      ∃ c', ordSteps recO .gen fs c steps = some c' := by
  intro steps
  induction steps with
  | nil => intro _ c; exact ⟨c, rfl⟩
  | cons st rest ih =>
    intro h c
    obtain ⟨i, rfl, hi⟩ := h st (by simp)
    have hget : fs[i]? = some fs[i] := List.getElem?_eq_getElem hi
    have hmem : fs[i] ∈ fs := List.getElem_mem hi
    obtain ⟨c1, h1⟩ := hrec fs[i] c (Nat.lt_of_le_of_lt (depth_le_depthL hmem) hd) (hc _ hmem) (hdom _ hmem)
    obtain ⟨c2, h2⟩ := ih (fun st hst => h st (by simp [hst])) c1
    exact ⟨c2, by simp [ordSteps, ordStep, hget, h1, h2]⟩

theorem ordGen_of_allDom {cfg : LocCfg} (hwf : LocWF cfg sch) : ∀ n t c, depth t < n → Conf sch t → AllDom dom t →
    ∃ c', ordT (fun _ _ => true) dom cfg n .gen c t = some c' := by
  intro n
  induction n with
  | zero => intro t c hd; exact absurd hd (Nat.not_lt_zero _)
  | succ n ih =>
    intro t c hd hc hdom
    cases t with
    | leaf a => exact ⟨c, by simp [ordT]⟩
    | none => exact ⟨c, by simp [ordT]⟩
    | some x =>
      have hdx : depth x < n := by simp only [depth] at hd; omega
      obtain ⟨c', h⟩ := ih x c hdx hc.ofSome (fun o ho => hdom o (by simpa [offsT] using ho))
      exact ⟨c', by simp [ordT, h]⟩
    | list xs =>
      have key : ∀ (ys : List Tree), (∀ y ∈ ys, y ∈ xs) → ∀ c, ∃ c', ordSeq (ordT (fun _ _ => true) dom cfg n .gen) c ys = some c' := by
        intro ys
        induction ys with
        | nil => intro _ c; exact ⟨c, rfl⟩
        | cons y ys ihy =>
          intro hsub c
          have hy := hsub y (by simp)
          have hdy : depth y < n := by
            have := depth_le_depthL hy
            simp only [depth] at hd; omega
          obtain ⟨c1, h1⟩ := ih y c hdy (hc.ofList y hy) (fun o ho => hdom o (by
            simp only [offsT, offsL_eq, List.mem_flatMap]; exact ⟨y, hy, ho⟩))
          obtain ⟨c2, h2⟩ := ihy (fun z hz => hsub z (by simp [hz])) c1
          exact ⟨c2, by simp [ordSeq, h1, h2]⟩
      obtain ⟨c', h⟩ := key xs (fun _ h => h) c
      exact ⟨c', by simp [ordT, h]⟩
    | node k r fs =>
      obtain ⟨ki, hk, hlen, hcf⟩ := hc.ofNode
      have hdf : depthL fs < n := by simp only [depth] at hd; omega
      obtain ⟨e, he, hpe⟩ := PV.C12.zipAll_get hwf.2.1 k ki hk
      rw [← hlen] at hpe
      obtain ⟨hcb, _, hbound⟩ := planOk_facts hpe
      have hplan : cfg.planOf .gen k = some (genPlan e) := by simp [LocCfg.planOf, he]
      have hdomf : ∀ t ∈ fs, AllDom dom t := by
        intro t ht o ho
        apply hdom o
        simp only [offsT, List.mem_append, offsL_eq, List.mem_flatMap]
        exact Or.inr ⟨t, ht, ho⟩
      have hsteps : ∀ st ∈ (genPlan e).body, ∃ i, st = Step.fold i ∧ i < fs.length := by
        intro st hst
        simp only [genPlan, List.mem_map] at hst
        obtain ⟨cc, hcc, rfl⟩ := hst
        refine ⟨cc.2, rfl, hbound cc.2 ?_⟩
        simp only [Plan.fields, genPlan, List.nil_append, List.mem_flatMap, List.mem_map]
        exact ⟨.fold cc.2, ⟨cc, hcc, rfl⟩, by simp [stepFields]⟩
      have hpre : (genPlan e).pre = [] := rfl
      have hmode : (Mode.gen == Mode.lin) = false := rfl
      cases r with
      | none =>
        obtain ⟨c2, h2⟩ := ordGen_steps dom ih hdf hcf hdomf _ hsteps c
        exact ⟨c2, by simp [ordT, hmode, hplan, ordNode, hpre, ordSteps, h2]⟩
      | some ab =>
        obtain ⟨a, b⟩ := ab
        have ha : dom a = true := hdom a (by simp [offsT])
        have hb : dom b = true := hdom b (by simp [offsT])
        obtain ⟨c2, h2⟩ := ordGen_steps dom ih hdf hcf hdomf _ hsteps (curAfter .gen c a)
        exact ⟨curAfter .gen c2 b, by simp [ordT, hmode, hplan, ordNode, hpre, ordSteps, h2, hcb, ha, hb]⟩

end AllDom

/-! ### the three locators satisfy `LocSpec` -/

/-- where the cursor is after a call history -/
def endCur : Nat → List Op → Nat
  | c, [] => c
  | _, .locate o :: rest => endCur o rest
  | c, .locateOnly _ :: rest => endCur c rest

theorem endCur_append : ∀ (xs ys : List Op) (c : Nat), endCur c (xs ++ ys) = endCur (endCur c xs) ys
  | [], _, _ => rfl
  | .locate o :: xs, ys, c => by simp [endCur, endCur_append xs ys o]
  | .locateOnly o :: xs, ys, c => by simp [endCur, endCur_append xs ys c]

theorem forward_append {src : List Nat} : ∀ (xs ys : List Op) (c : Nat),
    Forward src c (xs ++ ys) ↔ Forward src c xs ∧ Forward src (endCur c xs) ys
  | [], ys, c => by simp [Forward, endCur]
  | .locate o :: xs, ys, c => by
    simp only [List.cons_append, Forward, endCur, forward_append xs ys o]
    constructor
    · rintro ⟨a, b, c, d⟩; exact ⟨⟨a, b, c⟩, d⟩
    · rintro ⟨⟨a, b, c⟩, d⟩; exact ⟨a, b, c, d⟩
  | .locateOnly o :: xs, ys, c => by
    simp only [List.cons_append, Forward, endCur, forward_append xs ys c]
    constructor
    · rintro ⟨a, b, c, d⟩; exact ⟨⟨a, b, c⟩, d⟩
    · rintro ⟨⟨a, b, c⟩, d⟩; exact ⟨a, b, c, d⟩

/-- the recorder: its log (most recent call first) is a forward history that ends at the cursor -/
theorem rec_spec (src : List Nat) (c0 : Nat) :
    LocSpec recL (fun c log => Forward src c0 log.reverse ∧ endCur c0 log.reverse = c) (fun _ => (0, 0)) leB
      (fun o => decide (InDomain src o)) := by
  constructor
  intro m c log o ⟨hf, he⟩ hle hdom
  have hle' : c ≤ o := by simpa [leB] using hle
  have hd : InDomain src o := by simpa using hdom
  refine ⟨opFor m o :: log, rfl, ?_⟩
  simp only [List.reverse_cons]
  rw [forward_append, endCur_append, he]
  cases m <;> simp [opFor, Forward, endCur, curAfter, hf, hle', hd]

/-- the `LinearLocator` model: the state is the one that belongs to the cursor -/
theorem linear_spec {src : List Nat} (hs : LineStartsOk src) (dbg : Bool) :
    LocSpec (linearL dbg src) (fun c st => st = stateAt src c ∧ CurOk src c) (rowCol src) leB
      (fun o => decide (InDomain src o)) := by
  constructor
  intro m c st o ⟨hst, hc⟩ hle hdom
  have hle' : c ≤ o := by simpa [leB] using hle
  have hd : InDomain src o := by simpa using hdom
  subst hst
  have hcur : CurOk src o := ⟨hd, fun h => Nat.le_trans (hc.bom h) hle'⟩
  cases m with
  | lin =>
    have := step_eq hs hc dbg (.locate o) hle' hd
    exact ⟨_, by simp only [linearL, opFor, this, Op.off]; rfl, rfl, hcur⟩
  | look =>
    have := step_eq hs hc dbg (.locateOnly o) hle' hd
    exact ⟨_, by simp only [linearL, opFor, this, Op.off]; rfl, rfl, hc⟩
  | gen =>
    have := step_eq hs hc dbg (.locate o) hle' hd
    exact ⟨_, by simp only [linearL, opFor, this, Op.off]; rfl, rfl, hcur⟩

/-- the `RandomLocator` model: no state, no order -/
theorem random_spec {src : List Nat} (hs : LineStartsOk src) :
    LocSpec (randomL src) (fun _ _ => True) (rowCol src) (fun _ _ => true) (isBoundary src) := by
  constructor
  intro m c st o _ _ hdom
  have hoff : (opFor m o).off = o := by cases m <;> rfl
  refine ⟨(), ?_, trivial⟩
  simp only [randomL, hoff, randomLocate_eq_rowCol hs hdom]

theorem conf_of_conforms {sch : Schema} {t : Tree} (h : Conforms sch t) : Conf sch t := by
  cases t with
  | node k r fs => exact ⟨.kind k, h⟩
  | leaf _ => exact absurd h (by simp [Conforms])
  | none => exact absurd h (by simp [Conforms])
  | some _ => exact absurd h (by simp [Conforms])
  | list _ => exact absurd h (by simp [Conforms])

theorem srcOrdered_iff {cfg : LocCfg} {src : List Nat} {t : Tree} :
    SrcOrdered cfg src t ↔
      ∃ c', ordT leB (fun o => decide (InDomain src o)) cfg (depth t + 1) .lin (initCursor src) t = some c' := by
  unfold SrcOrdered
  rw [Option.isSome_iff_exists]


end PV.C13
