import PV.C13.FPOrd
import PV.C13.FStrLook
/-
  C13 — `PV.C13.F.srcOrdered_of_ordM`: the typed bridge of ParsedBridge.lean for `PV.C13.F.ordM` (f-strings one level
  deep admitted).  GENERATED from ParsedBridge.lean: the same text in the namespace `PV.C13.F` (so `ordE`, `ordS`, `ordM`,
  `brE` … are the `F` versions), with ONE case changed — `.joinedStr rg vs`, closed by `nw_joined` (FStrLook.lean).
-/
set_option linter.unusedVariables false
set_option linter.unusedSimpArgs false
namespace PV.C13.F
open PV.C13
open PV.Expr PV.C11 PV.Prog
open PV.C02 hiding Tree
open PV.C12 (Tree)

variable {dom : Nat → Bool}

/-- the standard plans: every field folded, in struct order -/
abbrev P0 : Plan := ⟨[], [], true⟩
abbrev P1 : Plan := ⟨[], [.fold 0], true⟩
abbrev P2 : Plan := ⟨[], [.fold 0, .fold 1], true⟩
abbrev P3 : Plan := ⟨[], [.fold 0, .fold 1, .fold 2], true⟩
abbrev P4 : Plan := ⟨[], [.fold 0, .fold 1, .fold 2, .fold 3], true⟩
abbrev P5 : Plan := ⟨[], [.fold 0, .fold 1, .fold 2, .fold 3, .fold 4], true⟩
abbrev P6 : Plan := ⟨[], [.fold 0, .fold 1, .fold 2, .fold 3, .fold 4, .fold 5], true⟩
abbrev P7 : Plan := ⟨[], [.fold 0, .fold 1, .fold 2, .fold 3, .fold 4, .fold 5, .fold 6], true⟩

theorem chain_nil_iff {a b : Nat} : chain a [] b = true ↔ a ≤ b := by simp [chain]

theorem optRg_some (e : RExpr) : optRg (some e) = [e.range] := rfl
theorem optRg_none : optRg none = [] := rfl

/-- `*args` / `**kwargs` of a lambda: an `Arg` with a name only -/
theorem brLamArgO : ∀ (v : Option (Rg × Ident)), ordArgO v = true → AllDom dom (cLamArgO v) →
    FW dom (argOSeg v) (cLamArgO v)
  | none, _, _ => fw_none
  | some v, h, hd => by
    simp only [ordArgO, decide_eq_true_eq] at h
    obtain ⟨da, db, _⟩ := allDom_node_some (a := v.1.1) (b := v.1.2) (allDom_some' (by simpa [cLamArgO, cLamArg] using hd))
    exact fw_some (fw_of_nw (rg := v.1) (nw_of_fields (fun _ => []) _ (Or.inl ⟨rfl, da, db⟩) rfl rfl rfl
      rfl rfl rfl rfl (by gs) (by gs)
      (fun ix hx => match ix, hx with
        | 0, _ => fw_leaf _
        | 1, _ => fw_none
        | 2, _ => fw_none
        | nx + 3, hx => absurd hx (by simp))
      (by simpa [genPlan, stepFields, chain] using h)))

theorem lenKV (ar : Bool) : ∀ is : List RDictItem, (cKeys ar is).length = (cVals ar is).length
  | [] => rfl
  | .mk _ _ :: is => by simp [cKeys, cVals, lenKV ar is]

/-! ### expressions -/

mutual
theorem brE (ar : Bool) : ∀ (e : RExpr), ordE e = true → AllDom dom (cE ar e) → NW dom e.range (cE ar e)
  | .name rg _, h, hd => by
    simp only [ordE] at h
    obtain ⟨da, db, hf⟩ := allDom_node_some (a := rg.1) (b := rg.2) hd
    exact nw_of_fields (fun _ => []) _ (Or.inl ⟨rfl, da, db⟩) rfl rfl rfl rfl rfl rfl rfl (by gs) (by gs)
      (fun ix hx => match ix, hx with
        | 0, _ => fw_leaf _
        | 1, _ => fw_leaf _
        | nx + 2, hx => absurd hx (by simp))
      (by simpa [genPlan, stepFields] using h)
  | .const rg _, h, hd => by
    simp only [ordE] at h
    obtain ⟨da, db, hf⟩ := allDom_node_some (a := rg.1) (b := rg.2) hd
    exact nw_of_fields (fun _ => []) _ (Or.inl ⟨rfl, da, db⟩) rfl rfl rfl rfl rfl rfl rfl (by gs) (by gs)
      (fun ix hx => match ix, hx with
        | 0, _ => fw_leaf _
        | 1, _ => fw_none
        | nx + 2, hx => absurd hx (by simp))
      (by simpa [genPlan, stepFields] using h)
  | .boolOp rg _ vs, h, hd => by
    simp only [ordE, Bool.and_eq_true] at h
    obtain ⟨da, db, hf⟩ := allDom_node_some (a := rg.1) (b := rg.2) hd
    have wl := brL ar vs h.2 (allDom_list' (hf _ (by simp)))
    exact nw_of_fields (fun ix => match ix with | 1 => vs.map RExpr.range | _ => []) _ (Or.inl ⟨rfl, da, db⟩) rfl rfl rfl rfl rfl rfl rfl
      (by gs) (by gs)
      (fun ix hx => match ix, hx with
        | 0, _ => fw_leaf _
        | 1, _ => fw_of_fwl wl
        | nx + 2, hx => absurd hx (by simp))
      (by simpa [genPlan, stepFields] using h.1)
  | .namedExpr rg t v, h, hd => by
    simp only [ordE, Bool.and_eq_true] at h
    obtain ⟨⟨hc, ht⟩, hv⟩ := h
    obtain ⟨da, db, hf⟩ := allDom_node_some (a := rg.1) (b := rg.2) hd
    have wt := brE ar t ht (hf _ (by simp))
    have wv := brE ar v hv (hf _ (by simp))
    exact nw_of_fields (fun ix => match ix with | 0 => [t.range] | 1 => [v.range] | _ => []) _ (Or.inl ⟨rfl, da, db⟩) rfl rfl rfl rfl rfl rfl rfl
      (by gs) (by gs)
      (fun ix hx => match ix, hx with
        | 0, _ => fw_of_nw wt
        | 1, _ => fw_of_nw wv
        | nx + 2, hx => absurd hx (by simp))
      (by simpa [genPlan, stepFields] using hc)
  | .binOp rg l _ r, h, hd => by
    simp only [ordE, Bool.and_eq_true] at h
    obtain ⟨⟨hc, hl⟩, hr⟩ := h
    obtain ⟨da, db, hf⟩ := allDom_node_some (a := rg.1) (b := rg.2) hd
    have wl := brE ar l hl (hf _ (by simp))
    have wr := brE ar r hr (hf _ (by simp))
    exact nw_of_fields (fun ix => match ix with | 0 => [l.range] | 2 => [r.range] | _ => []) _ (Or.inl ⟨rfl, da, db⟩) rfl rfl rfl rfl rfl rfl rfl
      (by gs) (by gs)
      (fun ix hx => match ix, hx with
        | 0, _ => fw_of_nw wl
        | 1, _ => fw_leaf _
        | 2, _ => fw_of_nw wr
        | nx + 3, hx => absurd hx (by simp))
      (by simpa [genPlan, stepFields] using hc)
  | .unaryOp rg _ e, h, hd => by
    simp only [ordE, Bool.and_eq_true] at h
    obtain ⟨da, db, hf⟩ := allDom_node_some (a := rg.1) (b := rg.2) hd
    have we := brE ar e h.2 (hf _ (by simp))
    exact nw_of_fields (fun ix => match ix with | 1 => [e.range] | _ => []) _ (Or.inl ⟨rfl, da, db⟩) rfl rfl rfl rfl rfl rfl rfl
      (by gs) (by gs)
      (fun ix hx => match ix, hx with
        | 0, _ => fw_leaf _
        | 1, _ => fw_of_nw we
        | nx + 2, hx => absurd hx (by simp))
      (by simpa [genPlan, stepFields] using h.1)
  | .lambda rg argsRg po a va ko kw b, h, hd => by
    simp only [ordE, Bool.and_eq_true] at h
    obtain ⟨⟨⟨⟨⟨⟨⟨hc, hca⟩, hpo⟩, ha⟩, hva⟩, hko⟩, hkw⟩, hb⟩ := h
    obtain ⟨da, db, hf⟩ := allDom_node_some (a := rg.1) (b := rg.2) hd
    have wb := brE ar b hb (hf _ (by simp))
    obtain ⟨hra, hfa⟩ := allDom_optR (a := argsRg.1) (b := argsRg.2) (hf _ (List.mem_cons_self ..))
    have wpo := brPs ar po hpo (allDom_list' (hfa _ (by simp)))
    have wa := brPs ar a ha (allDom_list' (hfa _ (by simp)))
    have wko := brPs ar ko hko (allDom_list' (hfa _ (by simp)))
    have wva := brLamArgO (dom := dom) va hva (hfa _ (by simp))
    have wkw := brLamArgO (dom := dom) kw hkw (hfa _ (by simp))
    have wargs : NW dom argsRg (.node 78 (optR ar argsRg) [.list (cPs ar po), .list (cPs ar a), cLamArgO va,
        .list (cPs ar ko), cLamArgO kw]) :=
      nw_of_fields (fun ix => match ix with | 0 => po.map paramRg | 1 => a.map paramRg | 2 => argOSeg va | 3 => ko.map paramRg | 4 => argOSeg kw | _ => []) _ hra
        rfl rfl rfl rfl rfl rfl rfl (by gs) (by gs)
      (fun ix hx => match ix, hx with
        | 0, _ => fw_of_fwl wpo
        | 1, _ => fw_of_fwl wa
        | 2, _ => wva
        | 3, _ => fw_of_fwl wko
        | 4, _ => wkw
        | nx + 5, hx => absurd hx (by simp))
      (by simpa [genPlan, stepFields, lamSegs] using hca)
    exact nw_of_fields (fun ix => match ix with | 0 => [argsRg] | 1 => [b.range] | _ => []) _ (Or.inl ⟨rfl, da, db⟩) rfl rfl rfl rfl rfl rfl rfl
      (by gs) (by gs)
      (fun ix hx => match ix, hx with
        | 0, _ => fw_of_nw wargs
        | 1, _ => fw_of_nw wb
        | nx + 2, hx => absurd hx (by simp))
      (by simpa [genPlan, stepFields] using hc)
  | .ifExp rg t b o, h, hd => by
    simp only [ordE, Bool.and_eq_true] at h
    obtain ⟨⟨⟨hc, ht⟩, hb⟩, ho⟩ := h
    obtain ⟨da, db, hf⟩ := allDom_node_some (a := rg.1) (b := rg.2) hd
    have wt := brE ar t ht (hf _ (by simp))
    have wb := brE ar b hb (hf _ (by simp))
    have wo := brE ar o ho (hf _ (by simp))
    exact nw_of_chain (plan := planIfExp) (plan' := P3) [[b.range], [t.range], [o.range]] _ (Or.inl ⟨rfl, da, db⟩) rfl rfl rfl
      rfl rfl rfl rfl (by cov)
      (by simp only [planIfExp, FSteps]; exact ⟨⟨_, rfl, fw_of_nw wb⟩, ⟨_, rfl, fw_of_nw wt⟩, ⟨_, rfl, fw_of_nw wo⟩, trivial⟩) hc
  | .dict rg items, h, hd => by
    simp only [ordE, Bool.and_eq_true] at h
    obtain ⟨da, db, hf⟩ := allDom_node_some (a := rg.1) (b := rg.2) hd
    have wi := brItems ar items h.2 (allDom_list' (hf _ (by simp))) (allDom_list' (hf _ (by simp)))
    exact nw_of_chain (plan := planDict) (plan' := P2) [itemSegs items] _ (Or.inl ⟨rfl, da, db⟩) rfl rfl rfl rfl rfl rfl rfl
      (by cov) (by simp only [planDict, FSteps]; exact ⟨⟨_, _, rfl, rfl, lenKV ar items, wi⟩, trivial⟩) (by simpa using h.1)
  | .set rg es, h, hd => by
    simp only [ordE, Bool.and_eq_true] at h
    obtain ⟨da, db, hf⟩ := allDom_node_some (a := rg.1) (b := rg.2) hd
    have wl := brL ar es h.2 (allDom_list' (hf _ (by simp)))
    exact nw_of_fields (fun ix => match ix with | 0 => es.map RExpr.range | _ => []) _ (Or.inl ⟨rfl, da, db⟩) rfl rfl rfl rfl rfl rfl rfl
      (by gs) (by gs)
      (fun ix hx => match ix, hx with
        | 0, _ => fw_of_fwl wl
        | nx + 1, hx => absurd hx (by simp))
      (by simpa [genPlan, stepFields] using h.1)
  | .listComp rg e gs, h, hd => by
    simp only [ordE, Bool.and_eq_true] at h
    obtain ⟨da, db, hf⟩ := allDom_node_some (a := rg.1) (b := rg.2) hd
    have we := brE ar e h.1.2 (hf _ (by simp))
    have wg := brComps ar gs h.2 (allDom_list' (hf _ (by simp)))
    exact nw_of_fields (fun ix => match ix with | 0 => [e.range] | 1 => gs.map compRg | _ => []) _ (Or.inl ⟨rfl, da, db⟩) rfl rfl rfl rfl rfl rfl rfl
      (by gs) (by gs)
      (fun ix hx => match ix, hx with
        | 0, _ => fw_of_nw we
        | 1, _ => fw_of_fwl wg
        | nx + 2, hx => absurd hx (by simp))
      (by simpa [genPlan, stepFields] using h.1.1)
  | .setComp rg e gs, h, hd => by
    simp only [ordE, Bool.and_eq_true] at h
    obtain ⟨da, db, hf⟩ := allDom_node_some (a := rg.1) (b := rg.2) hd
    have we := brE ar e h.1.2 (hf _ (by simp))
    have wg := brComps ar gs h.2 (allDom_list' (hf _ (by simp)))
    exact nw_of_fields (fun ix => match ix with | 0 => [e.range] | 1 => gs.map compRg | _ => []) _ (Or.inl ⟨rfl, da, db⟩) rfl rfl rfl rfl rfl rfl rfl
      (by gs) (by gs)
      (fun ix hx => match ix, hx with
        | 0, _ => fw_of_nw we
        | 1, _ => fw_of_fwl wg
        | nx + 2, hx => absurd hx (by simp))
      (by simpa [genPlan, stepFields] using h.1.1)
  | .dictComp rg k v gs, h, hd => by
    simp only [ordE, Bool.and_eq_true] at h
    obtain ⟨da, db, hf⟩ := allDom_node_some (a := rg.1) (b := rg.2) hd
    have wk := brE ar k h.1.1.2 (hf _ (by simp))
    have wv := brE ar v h.1.2 (hf _ (by simp))
    have wg := brComps ar gs h.2 (allDom_list' (hf _ (by simp)))
    exact nw_of_fields (fun ix => match ix with | 0 => [k.range] | 1 => [v.range] | 2 => gs.map compRg | _ => []) _ (Or.inl ⟨rfl, da, db⟩) rfl rfl rfl rfl
      rfl rfl rfl (by gs) (by gs)
      (fun ix hx => match ix, hx with
        | 0, _ => fw_of_nw wk
        | 1, _ => fw_of_nw wv
        | 2, _ => fw_of_fwl wg
        | nx + 3, hx => absurd hx (by simp))
      (by simpa [genPlan, stepFields] using h.1.1.1)
  | .genExp rg e gs, h, hd => by
    simp only [ordE, Bool.and_eq_true] at h
    obtain ⟨da, db, hf⟩ := allDom_node_some (a := rg.1) (b := rg.2) hd
    have we := brE ar e h.1.2 (hf _ (by simp))
    have wg := brComps ar gs h.2 (allDom_list' (hf _ (by simp)))
    exact nw_of_fields (fun ix => match ix with | 0 => [e.range] | 1 => gs.map compRg | _ => []) _ (Or.inl ⟨rfl, da, db⟩) rfl rfl rfl rfl rfl rfl rfl
      (by gs) (by gs)
      (fun ix hx => match ix, hx with
        | 0, _ => fw_of_nw we
        | 1, _ => fw_of_fwl wg
        | nx + 2, hx => absurd hx (by simp))
      (by simpa [genPlan, stepFields] using h.1.1)
  | .await rg e, h, hd => by
    simp only [ordE, Bool.and_eq_true] at h
    obtain ⟨da, db, hf⟩ := allDom_node_some (a := rg.1) (b := rg.2) hd
    have we := brE ar e h.2 (hf _ (by simp))
    exact nw_of_fields (fun ix => match ix with | 0 => [e.range] | _ => []) _ (Or.inl ⟨rfl, da, db⟩) rfl rfl rfl rfl rfl rfl rfl
      (by gs) (by gs)
      (fun ix hx => match ix, hx with
        | 0, _ => fw_of_nw we
        | nx + 1, hx => absurd hx (by simp))
      (by simpa [genPlan, stepFields] using h.1)
  | .yield rg e, h, hd => by
    simp only [ordE, Bool.and_eq_true] at h
    obtain ⟨da, db, hf⟩ := allDom_node_some (a := rg.1) (b := rg.2) hd
    have we := brO ar e h.2 (hf _ (by simp))
    exact nw_of_fields (fun ix => match ix with | 0 => optRg e | _ => []) _ (Or.inl ⟨rfl, da, db⟩) rfl rfl rfl rfl rfl rfl rfl
      (by gs) (by gs)
      (fun ix hx => match ix, hx with
        | 0, _ => we
        | nx + 1, hx => absurd hx (by simp))
      (by simpa [genPlan, stepFields] using h.1)
  | .yieldFrom rg e, h, hd => by
    simp only [ordE, Bool.and_eq_true] at h
    obtain ⟨da, db, hf⟩ := allDom_node_some (a := rg.1) (b := rg.2) hd
    have we := brE ar e h.2 (hf _ (by simp))
    exact nw_of_fields (fun ix => match ix with | 0 => [e.range] | _ => []) _ (Or.inl ⟨rfl, da, db⟩) rfl rfl rfl rfl rfl rfl rfl
      (by gs) (by gs)
      (fun ix hx => match ix, hx with
        | 0, _ => fw_of_nw we
        | nx + 1, hx => absurd hx (by simp))
      (by simpa [genPlan, stepFields] using h.1)
  | .compare rg l _ cs, h, hd => by
    simp only [ordE, Bool.and_eq_true] at h
    obtain ⟨da, db, hf⟩ := allDom_node_some (a := rg.1) (b := rg.2) hd
    have wl := brE ar l h.1.2 (hf _ (by simp))
    have wc := brL ar cs h.2 (allDom_list' (hf _ (by simp)))
    exact nw_of_fields (fun ix => match ix with | 0 => [l.range] | 2 => cs.map RExpr.range | _ => []) _ (Or.inl ⟨rfl, da, db⟩) rfl rfl rfl rfl
      rfl rfl rfl (by gs) (by gs)
      (fun ix hx => match ix, hx with
        | 0, _ => fw_of_nw wl
        | 1, _ => fw_nil
        | 2, _ => fw_of_fwl wc
        | nx + 3, hx => absurd hx (by simp))
      (by simpa [genPlan, stepFields] using h.1.1)
  | .call rg f as ks, h, hd => by
    simp only [ordE, Bool.and_eq_true] at h
    obtain ⟨⟨⟨hc, hf'⟩, has⟩, hks⟩ := h
    obtain ⟨da, db, hf⟩ := allDom_node_some (a := rg.1) (b := rg.2) hd
    have wf := brE ar f hf' (hf _ (by simp))
    have wa := brL ar as has (allDom_list' (hf _ (by simp)))
    have wk := brKws ar f.range.2 ks hks (allDom_list' (hf _ (by simp)))
    exact nw_of_chain (plan := planCall) (plan' := P3) [[f.range], [], as.map RExpr.range] _ (Or.inl ⟨rfl, da, db⟩) rfl rfl rfl
      rfl rfl rfl rfl (by cov)
      (by simp only [planCall, FSteps]
          exact ⟨⟨_, rfl, fw_of_nw wf⟩, trivial, ⟨_, rfl, lk_list wk⟩, ⟨_, rfl, fw_of_fwl wa⟩, trivial⟩)
      (by simpa using hc)
  | .formattedValue _ _ _ _, h, _ => by simp [ordE] at h
  | .joinedStr rg vs, h, hd => by
    simp only [ordE, Bool.and_eq_true, decide_eq_true_eq] at h
    exact nw_joined ar rg vs h.1 h.2 hd
  | .attribute rg e _, h, hd => by
    simp only [ordE, Bool.and_eq_true] at h
    obtain ⟨da, db, hf⟩ := allDom_node_some (a := rg.1) (b := rg.2) hd
    have we := brE ar e h.2 (hf _ (by simp))
    exact nw_of_fields (fun ix => match ix with | 0 => [e.range] | _ => []) _ (Or.inl ⟨rfl, da, db⟩) rfl rfl rfl rfl rfl rfl rfl
      (by gs) (by gs)
      (fun ix hx => match ix, hx with
        | 0, _ => fw_of_nw we
        | 1, _ => fw_leaf _
        | 2, _ => fw_leaf _
        | nx + 3, hx => absurd hx (by simp))
      (by simpa [genPlan, stepFields] using h.1)
  | .subscript rg e s, h, hd => by
    simp only [ordE, Bool.and_eq_true] at h
    obtain ⟨da, db, hf⟩ := allDom_node_some (a := rg.1) (b := rg.2) hd
    have we := brE ar e h.1.2 (hf _ (by simp))
    have ws := brE ar s h.2 (hf _ (by simp))
    exact nw_of_fields (fun ix => match ix with | 0 => [e.range] | 1 => [s.range] | _ => []) _ (Or.inl ⟨rfl, da, db⟩) rfl rfl rfl rfl rfl rfl rfl
      (by gs) (by gs)
      (fun ix hx => match ix, hx with
        | 0, _ => fw_of_nw we
        | 1, _ => fw_of_nw ws
        | 2, _ => fw_leaf _
        | nx + 3, hx => absurd hx (by simp))
      (by simpa [genPlan, stepFields] using h.1.1)
  | .starred rg e, h, hd => by
    simp only [ordE, Bool.and_eq_true] at h
    obtain ⟨da, db, hf⟩ := allDom_node_some (a := rg.1) (b := rg.2) hd
    have we := brE ar e h.2 (hf _ (by simp))
    exact nw_of_fields (fun ix => match ix with | 0 => [e.range] | _ => []) _ (Or.inl ⟨rfl, da, db⟩) rfl rfl rfl rfl rfl rfl rfl
      (by gs) (by gs)
      (fun ix hx => match ix, hx with
        | 0, _ => fw_of_nw we
        | 1, _ => fw_leaf _
        | nx + 2, hx => absurd hx (by simp))
      (by simpa [genPlan, stepFields] using h.1)
  | .list rg es, h, hd => by
    simp only [ordE, Bool.and_eq_true] at h
    obtain ⟨da, db, hf⟩ := allDom_node_some (a := rg.1) (b := rg.2) hd
    have wl := brL ar es h.2 (allDom_list' (hf _ (by simp)))
    exact nw_of_fields (fun ix => match ix with | 0 => es.map RExpr.range | _ => []) _ (Or.inl ⟨rfl, da, db⟩) rfl rfl rfl rfl rfl rfl rfl
      (by gs) (by gs)
      (fun ix hx => match ix, hx with
        | 0, _ => fw_of_fwl wl
        | 1, _ => fw_leaf _
        | nx + 2, hx => absurd hx (by simp))
      (by simpa [genPlan, stepFields] using h.1)
  | .tuple rg es, h, hd => by
    simp only [ordE, Bool.and_eq_true] at h
    obtain ⟨da, db, hf⟩ := allDom_node_some (a := rg.1) (b := rg.2) hd
    have wl := brL ar es h.2 (allDom_list' (hf _ (by simp)))
    exact nw_of_fields (fun ix => match ix with | 0 => es.map RExpr.range | _ => []) _ (Or.inl ⟨rfl, da, db⟩) rfl rfl rfl rfl rfl rfl rfl
      (by gs) (by gs)
      (fun ix hx => match ix, hx with
        | 0, _ => fw_of_fwl wl
        | 1, _ => fw_leaf _
        | nx + 2, hx => absurd hx (by simp))
      (by simpa [genPlan, stepFields] using h.1)
  | .slice rg a b c, h, hd => by
    simp only [ordE, Bool.and_eq_true] at h
    obtain ⟨da, db, hf⟩ := allDom_node_some (a := rg.1) (b := rg.2) hd
    have wa := brO ar a h.1.1.2 (hf _ (by simp))
    have wb := brO ar b h.1.2 (hf _ (by simp))
    have wc := brO ar c h.2 (hf _ (by simp))
    exact nw_of_fields (fun ix => match ix with | 0 => optRg a | 1 => optRg b | 2 => optRg c | _ => []) _ (Or.inl ⟨rfl, da, db⟩) rfl rfl rfl rfl rfl rfl rfl
      (by gs) (by gs)
      (fun ix hx => match ix, hx with
        | 0, _ => wa
        | 1, _ => wb
        | 2, _ => wc
        | nx + 3, hx => absurd hx (by simp))
      (by simpa [genPlan, stepFields] using h.1.1.1)
theorem brL (ar : Bool) : ∀ (es : List RExpr), ordL es = true → (∀ t ∈ cL ar es, AllDom dom t) →
    FWL dom (es.map RExpr.range) (cL ar es)
  | [], _, _ => fwl_nil
  | e :: es, h, hd => by
    simp only [ordL, Bool.and_eq_true] at h
    exact fwl_cons (brE ar e h.1 (hd _ (by simp [cL]))) (brL ar es h.2 (fun t ht => hd t (by simp [cL, ht])))
theorem brO (ar : Bool) : ∀ (o : Option RExpr), ordO o = true → AllDom dom (cO ar o) → FW dom (optRg o) (cO ar o)
  | none, _, _ => fw_none
  | some e, h, hd => fw_some (fw_of_nw (brE ar e (by simpa [ordO] using h) (allDom_some' (by simpa [cO] using hd))))
theorem brComps (ar : Bool) : ∀ (gs : List RComp), ordComps gs = true → (∀ t ∈ cComps ar gs, AllDom dom t) →
    FWL dom (gs.map compRg) (cComps ar gs)
  | [], _, _ => fwl_nil
  | .mk rg t i ifs _ :: gs, h, hd => by
    simp only [ordComps, Bool.and_eq_true] at h
    obtain ⟨⟨⟨⟨hc, ht⟩, hi⟩, hifs⟩, hgs⟩ := h
    simp only [cComps, List.forall_mem_cons] at hd
    obtain ⟨hd0, hdr⟩ := hd
    obtain ⟨hr, hf⟩ := allDom_optR (a := rg.1) (b := rg.2) hd0
    have wt := brE ar t ht (hf _ (by simp))
    have wi := brE ar i hi (hf _ (by simp))
    have wifs := brL ar ifs hifs (allDom_list' (hf _ (by simp)))
    refine fwl_cons (rg := rg) ?_ (brComps ar gs hgs hdr)
    exact nw_of_fields (fun ix => match ix with | 0 => [t.range] | 1 => [i.range] | 2 => ifs.map RExpr.range | _ => []) _ hr rfl rfl rfl rfl rfl rfl rfl
      (by gs) (by gs)
      (fun ix hx => match ix, hx with
        | 0, _ => fw_of_nw wt
        | 1, _ => fw_of_nw wi
        | 2, _ => fw_of_fwl wifs
        | 3, _ => fw_leaf _
        | nx + 4, hx => absurd hx (by simp))
      (by simpa [genPlan, stepFields] using hc)
theorem brPs (ar : Bool) : ∀ (ps : List RParam), ordPs ps = true → (∀ t ∈ cPs ar ps, AllDom dom t) →
    FWL dom (ps.map paramRg) (cPs ar ps)
  | [], _, _ => fwl_nil
  | .mk rg drg _ d :: ps, h, hd => by
    simp only [ordPs, Bool.and_eq_true, decide_eq_true_eq] at h
    obtain ⟨⟨⟨hc, hdr⟩, hdo⟩, hps⟩ := h
    simp only [cPs, List.forall_mem_cons] at hd
    obtain ⟨hd0, hdr'⟩ := hd
    obtain ⟨hr, hf⟩ := allDom_optR (a := rg.1) (b := rg.2) hd0
    obtain ⟨dda, ddb, _⟩ := allDom_node_some (a := drg.1) (b := drg.2) (hf _ (List.mem_cons_self ..))
    have wd := brO ar d hdo (hf _ (by simp))
    have warg : NW dom drg (.node 61 (some drg) [lf, .none, .none]) :=
      nw_of_fields (fun _ => []) _ (Or.inl ⟨rfl, dda, ddb⟩) rfl rfl rfl rfl rfl rfl rfl (by gs) (by gs)
      (fun ix hx => match ix, hx with
        | 0, _ => fw_leaf _
        | 1, _ => fw_none
        | 2, _ => fw_none
        | nx + 3, hx => absurd hx (by simp))
      (by simpa [genPlan, stepFields, chain] using hdr)
    refine fwl_cons (rg := rg) ?_ (brPs ar ps hps hdr')
    exact nw_of_fields (fun ix => match ix with | 0 => [drg] | 1 => optRg d | _ => []) _ hr rfl rfl rfl rfl rfl rfl rfl (by gs) (by gs)
      (fun ix hx => match ix, hx with
        | 0, _ => fw_of_nw warg
        | 1, _ => wd
        | nx + 2, hx => absurd hx (by simp))
      (by simpa [genPlan, stepFields] using hc)
theorem brKws (ar : Bool) (lo : Nat) : ∀ (ks : List RKeyword), ordKws lo ks = true → (∀ t ∈ cKws ar ks, AllDom dom t) →
    ∀ t ∈ cKws ar ks, LK dom lo t
  | [], _, _ => by simp [cKws]
  | .mk rg _ v :: ks, h, hd => by
    simp only [ordKws, Bool.and_eq_true, decide_eq_true_eq] at h
    obtain ⟨⟨⟨hlo, hc⟩, hv⟩, hks⟩ := h
    simp only [cKws, List.forall_mem_cons] at hd
    obtain ⟨hd0, hdr⟩ := hd
    obtain ⟨da, db, hf⟩ := allDom_node_some (a := rg.1) (b := rg.2) hd0
    have wv := brE ar v hv (hf _ (by simp))
    have wk : NW dom rg (.node 62 (some rg) [.none, cE ar v]) :=
      nw_of_fields (fun ix => match ix with | 1 => [v.range] | _ => []) _ (Or.inl ⟨rfl, da, db⟩) rfl rfl rfl rfl rfl rfl rfl (by gs) (by gs)
      (fun ix hx => match ix, hx with
        | 0, _ => fw_none
        | 1, _ => fw_of_nw wv
        | nx + 2, hx => absurd hx (by simp))
      (by simpa [genPlan, stepFields] using hc)
    intro t ht
    simp only [cKws, List.mem_cons] at ht
    rcases ht with rfl | ht
    · exact wk.2.mono hlo
    · exact brKws ar lo ks hks hdr t ht
theorem brItems (ar : Bool) : ∀ (is : List RDictItem), ordItems is = true → (∀ t ∈ cKeys ar is, AllDom dom t) →
    (∀ t ∈ cVals ar is, AllDom dom t) → ZW dom (itemSegs is) (cKeys ar is) (cVals ar is)
  | [], _, _, _ => fun lo hi h => ⟨by simpa [ZipOW, chain, cKeys, itemSegs] using h, by simp [cKeys], by simp [cVals]⟩
  | .mk k v :: is, h, hk, hv => by
    simp only [ordItems, Bool.and_eq_true] at h
    obtain ⟨⟨hko, hvo⟩, his⟩ := h
    have wv := brE ar v hvo (hv _ (by simp [cVals]))
    have wk := brO ar k hko (hk _ (by simp [cKeys]))
    have wis := brItems ar is his (fun x hx => hk x (by simp [cKeys, hx])) (fun x hx => hv x (by simp [cVals, hx]))
    intro lo hi hc
    simp only [itemSegs] at hc
    obtain ⟨c1, c2⟩ := chain_split (optRg k) (v.range :: itemSegs is) lo hi hc
    simp only [chain, Bool.and_eq_true, decide_eq_true_eq] at c2
    obtain ⟨k1, k2⟩ := wk lo _ c1
    obtain ⟨z1, z2, z3⟩ := wis _ hi c2.2
    have hm : lo ≤ chainEnd lo (optRg k) := k1.1
    have hvle := wv.1.1
    refine ⟨⟨_, v.range.2, k1, wv.1.mono c2.1 (Nat.le_refl _), z1⟩, ?_, ?_⟩
    · intro t ht
      simp only [cKeys, List.mem_cons] at ht
      rcases ht with rfl | ht
      · exact k2
      · exact (z2 t ht).mono (by omega)
    · intro t ht
      simp only [cVals, List.mem_cons] at ht
      rcases ht with rfl | ht
      · exact wv.2.mono (by omega)
      · exact (z3 t ht).mono (by omega)
end


/-! ### parameters of a `def`, aliases, with-items, type parameters -/

theorem allDom_map {α : Type} {conv : α → Tree} {xs : List α} (h : AllDom dom (.list (xs.map conv))) :
    ∀ x ∈ xs, AllDom dom (conv x) := fun x hx => allDom_list' h _ (List.mem_map_of_mem hx)

theorem brArg (ar : Bool) (a : RArg) (h : ordArg a = true) (hd : AllDom dom (cArg ar a)) : NW dom a.rg (cArg ar a) := by
  simp only [ordArg, Bool.and_eq_true] at h
  obtain ⟨da, db, hf⟩ := allDom_node_some (a := a.rg.1) (b := a.rg.2) hd
  have wa := brO ar a.annotation h.2 (hf _ (by simp))
  exact nw_of_fields (fun ix => match ix with | 1 => optRg a.annotation | _ => []) _ (Or.inl ⟨rfl, da, db⟩) rfl rfl rfl rfl rfl rfl rfl
    (by gs) (by gs)
      (fun ix hx => match ix, hx with
        | 0, _ => fw_leaf _
        | 1, _ => wa
        | 2, _ => fw_none
        | nx + 3, hx => absurd hx (by simp))
      (by simpa [genPlan, stepFields] using h.1)

theorem brArgD (ar : Bool) (p : RArgD) (h : ordArgD p = true) (hd : AllDom dom (cArgD ar p)) : NW dom p.rg (cArgD ar p) := by
  simp only [ordArgD, Bool.and_eq_true] at h
  obtain ⟨hr, hf⟩ := allDom_optR (a := p.rg.1) (b := p.rg.2) hd
  have wa := brArg ar p.arg h.1.2 (hf _ (by simp))
  have wd := brO ar p.default h.2 (hf _ (by simp))
  exact nw_of_fields (fun ix => match ix with | 0 => [p.arg.rg] | 1 => optRg p.default | _ => []) _ hr rfl rfl rfl rfl rfl rfl rfl
    (by gs) (by gs)
      (fun ix hx => match ix, hx with
        | 0, _ => fw_of_nw wa
        | 1, _ => wd
        | nx + 2, hx => absurd hx (by simp))
      (by simpa [genPlan, stepFields] using h.1.1)

theorem brArgO (ar : Bool) : ∀ (o : Option RArg), ordArgOpt o = true → AllDom dom (cArgO ar o) →
    FW dom (argOptSeg o) (cArgO ar o)
  | none, _, _ => fw_none
  | some a, h, hd => fw_some (fw_of_nw (brArg ar a (by simpa [ordArgOpt] using h) (allDom_some' (by simpa [cArgO] using hd))))

theorem brArgDs (ar : Bool) (xs : List RArgD) (h : xs.all ordArgD = true) (hd : AllDom dom (.list (xs.map (cArgD ar)))) :
    FW dom (xs.map (·.rg)) (.list (xs.map (cArgD ar))) :=
  fw_of_fwl (fwl_map (·.rg) (cArgD ar) xs fun x hx => brArgD ar x (List.all_eq_true.mp h x hx) (allDom_map hd x hx))

theorem brArgs (ar : Bool) (a : RArguments) (h : ordArgs a = true) (hd : AllDom dom (cArgs ar a)) : NW dom a.rg (cArgs ar a) := by
  simp only [ordArgs, Bool.and_eq_true] at h
  obtain ⟨⟨⟨⟨⟨hc, h1⟩, h2⟩, h3⟩, h4⟩, h5⟩ := h
  obtain ⟨hr, hf⟩ := allDom_optR (a := a.rg.1) (b := a.rg.2) hd
  have w1 := brArgDs ar a.posonly h1 (hf _ (by simp))
  have w2 := brArgDs ar a.args h2 (hf _ (by simp))
  have w3 := brArgO ar a.vararg h3 (hf _ (by simp))
  have w4 := brArgDs ar a.kwonly h4 (hf _ (by simp))
  have w5 := brArgO ar a.kwarg h5 (hf _ (by simp))
  exact nw_of_fields (fun ix => match ix with | 0 => a.posonly.map (·.rg) | 1 => a.args.map (·.rg) | 2 => argOptSeg a.vararg | 3 => a.kwonly.map (·.rg) | 4 => argOptSeg a.kwarg | _ => []) _ hr
    rfl rfl rfl rfl rfl rfl rfl (by gs) (by gs)
      (fun ix hx => match ix, hx with
        | 0, _ => w1
        | 1, _ => w2
        | 2, _ => w3
        | 3, _ => w4
        | 4, _ => w5
        | nx + 5, hx => absurd hx (by simp))
      (by simpa [genPlan, stepFields, argsSegs] using hc)

theorem brAlias (a : RAlias) (h : ordAlias a = true) (hd : AllDom dom (cAlias a)) : NW dom a.rg (cAlias a) := by
  simp only [ordAlias, decide_eq_true_eq] at h
  obtain ⟨da, db, hf⟩ := allDom_node_some (a := a.rg.1) (b := a.rg.2) hd
  exact nw_of_fields (fun _ => []) _ (Or.inl ⟨rfl, da, db⟩) rfl rfl rfl rfl rfl rfl rfl
    (by gs) (by gs)
      (fun ix hx => match ix, hx with
        | 0, _ => fw_leaf _
        | 1, _ => fw_none
        | nx + 2, hx => absurd hx (by simp))
      (by simpa [genPlan, stepFields, chain] using h)

theorem brWI (ar : Bool) (w : RWithItem) (h : ordWI w = true) (hd : AllDom dom (cWI ar w)) : NW dom w.rg (cWI ar w) := by
  simp only [ordWI, Bool.and_eq_true] at h
  obtain ⟨hr, hf⟩ := allDom_optR (a := w.rg.1) (b := w.rg.2) hd
  have we := brE ar w.contextExpr h.1.2 (hf _ (by simp))
  have wo := brO ar w.optionalVars h.2 (hf _ (by simp))
  exact nw_of_fields (fun ix => match ix with | 0 => [w.contextExpr.range] | 1 => optRg w.optionalVars | _ => []) _ hr rfl rfl rfl rfl rfl rfl rfl
    (by gs) (by gs)
      (fun ix hx => match ix, hx with
        | 0, _ => fw_of_nw we
        | 1, _ => wo
        | nx + 2, hx => absurd hx (by simp))
      (by simpa [genPlan, stepFields] using h.1.1)

theorem brTP (ar : Bool) : ∀ (t : RTypeParam), ordTP t = true → AllDom dom (cTP ar t) → NW dom t.range (cTP ar t)
  | .typeVar rg _ b, h, hd => by
    simp only [ordTP, Bool.and_eq_true] at h
    obtain ⟨da, db, hf⟩ := allDom_node_some (a := rg.1) (b := rg.2) hd
    have wb := brO ar b h.2 (hf _ (by simp))
    exact nw_of_fields (fun ix => match ix with | 1 => optRg b | _ => []) _ (Or.inl ⟨rfl, da, db⟩) rfl rfl rfl rfl rfl rfl rfl
      (by gs) (by gs)
      (fun ix hx => match ix, hx with
        | 0, _ => fw_leaf _
        | 1, _ => wb
        | nx + 2, hx => absurd hx (by simp))
      (by simpa [genPlan, stepFields] using h.1)
  | .paramSpec rg _, h, hd => by
    simp only [ordTP, decide_eq_true_eq] at h
    obtain ⟨da, db, hf⟩ := allDom_node_some (a := rg.1) (b := rg.2) hd
    exact nw_of_fields (fun _ => []) _ (Or.inl ⟨rfl, da, db⟩) rfl rfl rfl rfl rfl rfl rfl
      (by gs) (by gs)
      (fun ix hx => match ix, hx with
        | 0, _ => fw_leaf _
        | nx + 1, hx => absurd hx (by simp))
      (by simpa [genPlan, stepFields, chain] using h)
  | .typeVarTuple rg _, h, hd => by
    simp only [ordTP, decide_eq_true_eq] at h
    obtain ⟨da, db, hf⟩ := allDom_node_some (a := rg.1) (b := rg.2) hd
    exact nw_of_fields (fun _ => []) _ (Or.inl ⟨rfl, da, db⟩) rfl rfl rfl rfl rfl rfl rfl
      (by gs) (by gs)
      (fun ix hx => match ix, hx with
        | 0, _ => fw_leaf _
        | nx + 1, hx => absurd hx (by simp))
      (by simpa [genPlan, stepFields, chain] using h)

theorem brTPs (ar : Bool) (xs : List RTypeParam) (h : xs.all ordTP = true) (hd : AllDom dom (.list (xs.map (cTP ar)))) :
    FW dom (xs.map RTypeParam.range) (.list (xs.map (cTP ar))) :=
  fw_of_fwl (fwl_map RTypeParam.range (cTP ar) xs fun x hx => brTP ar x (List.all_eq_true.mp h x hx) (allDom_map hd x hx))

/-! ### patterns -/

theorem cL_len (ar : Bool) : ∀ es : List RExpr, (cL ar es).length = es.length
  | [] => rfl
  | e :: es => by simp [cL, cL_len ar es]
theorem cPats_len (ar : Bool) : ∀ ps : List RPattern, (cPats ar ps).length = ps.length
  | [] => rfl
  | p :: ps => by simp [cPats, cPats_len ar ps]


mutual
theorem brP (ar : Bool) : ∀ (p : RPattern), ordP p = true → AllDom dom (cP ar p) → NW dom p.range (cP ar p)
  | .matchValue rg v, h, hd => by
    simp only [ordP, Bool.and_eq_true] at h
    obtain ⟨da, db, hf⟩ := allDom_node_some (a := rg.1) (b := rg.2) hd
    have wv := brE ar v h.2 (hf _ (by simp))
    exact nw_of_fields (fun ix => match ix with | 0 => [v.range] | _ => []) _ (Or.inl ⟨rfl, da, db⟩) rfl rfl rfl rfl rfl rfl rfl
      (by gs) (by gs)
      (fun ix hx => match ix, hx with
        | 0, _ => fw_of_nw wv
        | nx + 1, hx => absurd hx (by simp))
      (by simpa [genPlan, stepFields] using h.1)
  | .matchSingleton rg _, h, hd => by
    simp only [ordP] at h
    obtain ⟨da, db, hf⟩ := allDom_node_some (a := rg.1) (b := rg.2) hd
    exact nw_of_fields (fun _ => []) _ (Or.inl ⟨rfl, da, db⟩) rfl rfl rfl rfl rfl rfl rfl
      (by gs) (by gs)
      (fun ix hx => match ix, hx with
        | 0, _ => fw_leaf _
        | nx + 1, hx => absurd hx (by simp))
      (by simpa [genPlan, stepFields] using h)
  | .matchSequence rg ps, h, hd => by
    simp only [ordP, Bool.and_eq_true] at h
    obtain ⟨da, db, hf⟩ := allDom_node_some (a := rg.1) (b := rg.2) hd
    have wp := brPats ar ps h.2 (allDom_list' (hf _ (by simp)))
    exact nw_of_fields (fun ix => match ix with | 0 => ps.map RPattern.range | _ => []) _ (Or.inl ⟨rfl, da, db⟩) rfl rfl rfl rfl rfl rfl rfl
      (by gs) (by gs)
      (fun ix hx => match ix, hx with
        | 0, _ => fw_of_fwl wp
        | nx + 1, hx => absurd hx (by simp))
      (by simpa [genPlan, stepFields] using h.1)
  | .matchMapping rg ks ps _, h, hd => by
    simp only [ordP, Bool.and_eq_true, decide_eq_true_eq] at h
    obtain ⟨⟨⟨hlen, hc⟩, hks⟩, hps⟩ := h
    obtain ⟨da, db, hf⟩ := allDom_node_some (a := rg.1) (b := rg.2) hd
    have wz := brZipKP ar ks ps hlen hks hps (allDom_list' (hf _ (by simp))) (allDom_list' (hf _ (by simp)))
    exact nw_of_chain (plan := planMatchMapping) (plan' := P3) [zipSegs ks ps, []] _ (Or.inl ⟨rfl, da, db⟩) rfl rfl rfl rfl rfl
      rfl rfl (by cov)
      (by simp only [planMatchMapping, FSteps]
          exact ⟨⟨_, _, rfl, rfl, by rw [cL_len, cPats_len]; exact hlen, wz⟩, ⟨_, rfl, fw_none⟩, trivial⟩)
      (by simpa using hc)
  | .matchClass rg c ps _ kps, h, hd => by
    simp only [ordP, Bool.and_eq_true] at h
    obtain ⟨⟨⟨hc, hcl⟩, hps⟩, hkps⟩ := h
    obtain ⟨da, db, hf⟩ := allDom_node_some (a := rg.1) (b := rg.2) hd
    have wc := brE ar c hcl (hf _ (by simp))
    have wp := brPats ar ps hps (allDom_list' (hf _ (by simp)))
    have wk := brPats ar kps hkps (allDom_list' (hf _ (by simp)))
    exact nw_of_fields (fun ix => match ix with | 0 => [c.range] | 1 => ps.map RPattern.range | 3 => kps.map RPattern.range | _ => []) _
      (Or.inl ⟨rfl, da, db⟩) rfl rfl rfl rfl rfl rfl rfl (by gs) (by gs)
      (fun ix hx => match ix, hx with
        | 0, _ => fw_of_nw wc
        | 1, _ => fw_of_fwl wp
        | 2, _ => fw_nil
        | 3, _ => fw_of_fwl wk
        | nx + 4, hx => absurd hx (by simp))
      (by simpa [genPlan, stepFields] using hc)
  | .matchStar rg _, h, hd => by
    simp only [ordP] at h
    obtain ⟨da, db, hf⟩ := allDom_node_some (a := rg.1) (b := rg.2) hd
    exact nw_of_fields (fun _ => []) _ (Or.inl ⟨rfl, da, db⟩) rfl rfl rfl rfl rfl rfl rfl
      (by gs) (by gs)
      (fun ix hx => match ix, hx with
        | 0, _ => fw_none
        | nx + 1, hx => absurd hx (by simp))
      (by simpa [genPlan, stepFields] using h)
  | .matchAs rg p _, h, hd => by
    simp only [ordP, Bool.and_eq_true] at h
    obtain ⟨da, db, hf⟩ := allDom_node_some (a := rg.1) (b := rg.2) hd
    have wp := brPatO ar p h.2 (hf _ (by simp))
    exact nw_of_fields (fun ix => match ix with | 0 => patOptSeg p | _ => []) _ (Or.inl ⟨rfl, da, db⟩) rfl rfl rfl rfl rfl rfl rfl
      (by gs) (by gs)
      (fun ix hx => match ix, hx with
        | 0, _ => wp
        | 1, _ => fw_none
        | nx + 2, hx => absurd hx (by simp))
      (by simpa [genPlan, stepFields] using h.1)
  | .matchOr rg ps, h, hd => by
    simp only [ordP, Bool.and_eq_true] at h
    obtain ⟨da, db, hf⟩ := allDom_node_some (a := rg.1) (b := rg.2) hd
    have wp := brPats ar ps h.2 (allDom_list' (hf _ (by simp)))
    exact nw_of_fields (fun ix => match ix with | 0 => ps.map RPattern.range | _ => []) _ (Or.inl ⟨rfl, da, db⟩) rfl rfl rfl rfl rfl rfl rfl
      (by gs) (by gs)
      (fun ix hx => match ix, hx with
        | 0, _ => fw_of_fwl wp
        | nx + 1, hx => absurd hx (by simp))
      (by simpa [genPlan, stepFields] using h.1)
theorem brPats (ar : Bool) : ∀ (ps : List RPattern), ordPats ps = true → (∀ t ∈ cPats ar ps, AllDom dom t) →
    FWL dom (ps.map RPattern.range) (cPats ar ps)
  | [], _, _ => fwl_nil
  | p :: ps, h, hd => by
    simp only [ordPats, Bool.and_eq_true] at h
    simp only [cPats, List.forall_mem_cons] at hd
    exact fwl_cons (brP ar p h.1 hd.1) (brPats ar ps h.2 hd.2)
theorem brPatO (ar : Bool) : ∀ (o : Option RPattern), ordPatO o = true → AllDom dom (cPatO ar o) →
    FW dom (patOptSeg o) (cPatO ar o)
  | none, _, _ => fw_none
  | some p, h, hd => fw_some (fw_of_nw (brP ar p (by simpa [ordPatO] using h) (allDom_some' (by simpa [cPatO] using hd))))
theorem brZipKP (ar : Bool) : ∀ (ks : List RExpr) (ps : List RPattern), ks.length = ps.length → ordL ks = true →
    ordPats ps = true → (∀ t ∈ cL ar ks, AllDom dom t) → (∀ t ∈ cPats ar ps, AllDom dom t) →
    ZW dom (zipSegs ks ps) (cL ar ks) (cPats ar ps)
  | [], [], _, _, _, _, _ => fun lo hi h => ⟨by simpa [ZipOW, chain, cL, zipSegs] using h, by simp [cL], by simp [cPats]⟩
  | [], _ :: _, hl, _, _, _, _ => by simp at hl
  | _ :: _, [], hl, _, _, _, _ => by simp at hl
  | k :: ks, p :: ps, hl, hk, hp, hdk, hdp => by
    simp only [ordL, Bool.and_eq_true] at hk
    simp only [ordPats, Bool.and_eq_true] at hp
    simp only [cL, List.forall_mem_cons] at hdk
    simp only [cPats, List.forall_mem_cons] at hdp
    have wk := brE (dom := dom) ar k hk.1 hdk.1
    have wp := brP ar p hp.1 hdp.1
    have wz := brZipKP ar ks ps (by simpa using hl) hk.2 hp.2 hdk.2 hdp.2
    intro lo hi hc
    simp only [zipSegs, chain, Bool.and_eq_true, decide_eq_true_eq] at hc
    obtain ⟨c1, c2, c3⟩ := hc
    obtain ⟨z1, z2, z3⟩ := wz _ hi c3
    have := wk.1.1
    have := wp.1.1
    refine ⟨⟨k.range.2, p.range.2, wk.1.mono c1 (Nat.le_refl _), wp.1.mono c2 (Nat.le_refl _), z1⟩, ?_, ?_⟩
    · intro t ht
      simp only [cL, List.mem_cons] at ht
      rcases ht with rfl | ht
      · exact wk.2.mono c1
      · exact (z2 t ht).mono (by omega)
    · intro t ht
      simp only [cPats, List.mem_cons] at ht
      rcases ht with rfl | ht
      · exact wp.2.mono (by omega)
      · exact (z3 t ht).mono (by omega)
end


/-! ### statements -/

/-- where the decorators of a definition that starts at `b` begin -/
def decoStart : List RExpr → Nat → Nat
  | [], b => b
  | d :: _, _ => d.range.1

theorem deco_chain : ∀ (d : List RExpr) (b : Nat), decoChain d b = true → ordL d = true →
    chain (decoStart d b) (d.map RExpr.range) b = true
  | [], b, _, _ => by simp [chain, decoStart]
  | d :: ds, b, h, _ => by
    simp only [decoChain] at h
    simp [chain, decoStart, h]

theorem kwLo_eq (rg : Rg) (tp : List RTypeParam) : chainEnd rg.1 (tp.map RTypeParam.range) = kwLo rg tp := by
  simp only [chainEnd, kwLo, List.getLast?_map]
  cases tp.getLast? <;> rfl

theorem brAliases (xs : List RAlias) (h : xs.all ordAlias = true) (hd : AllDom dom (.list (xs.map cAlias))) :
    FW dom (xs.map (·.rg)) (.list (xs.map cAlias)) :=
  fw_of_fwl (fwl_map (·.rg) cAlias xs fun x hx => brAlias x (List.all_eq_true.mp h x hx) (allDom_map hd x hx))

theorem brWIs (ar : Bool) (xs : List RWithItem) (h : xs.all ordWI = true) (hd : AllDom dom (.list (xs.map (cWI ar)))) :
    FW dom (xs.map (·.rg)) (.list (xs.map (cWI ar))) :=
  fw_of_fwl (fwl_map (·.rg) (cWI ar) xs fun x hx => brWI ar x (List.all_eq_true.mp h x hx) (allDom_map hd x hx))

mutual
theorem brS (ar : Bool) : ∀ (s : RStmt), ordS s = true → AllDom dom (cS ar s) → NW dom (stmtSeg s) (cS ar s)
  | .functionDef rg _ a b d r tp, h, hd => by
    simp only [ordS, Bool.and_eq_true] at h
    obtain ⟨⟨⟨⟨⟨⟨hdc, hc⟩, hdo⟩, htp⟩, ha⟩, hr⟩, hb⟩ := h
    obtain ⟨da, db, hf⟩ := allDom_node_some (a := rg.1) (b := rg.2) hd
    have wd := brL ar d hdo (allDom_list' (hf _ (by simp)))
    have wtp := brTPs ar tp htp (hf _ (by simp))
    have wa := brArgs ar a ha (hf _ (by simp))
    have wr := brO ar r hr (hf _ (by simp))
    have wb := brSs ar b hb (allDom_list' (hf _ (by simp)))
    have wdd := fw_of_fwl wd _ _ (deco_chain d rg.1 hdc hdo)
    have : stmtSeg (.functionDef rg ‹_› a b d r tp) = (decoStart d rg.1, rg.2) := by cases d <;> rfl
    rw [this]
    exact nw_of_chain_pre (plan := planFunctionDef) (plan' := P7) (i := 3)
      [[], tp.map RTypeParam.range, [a.rg], optRg r, b.map stmtSeg, []] rfl rfl rfl rfl rfl rfl rfl (by cov) rfl wdd.1 wdd.2
      (by simp only [planFunctionDef, FSteps]
          exact ⟨⟨_, rfl, fw_leaf _⟩, ⟨_, rfl, wtp⟩, ⟨_, rfl, fw_of_nw wa⟩, ⟨_, rfl, wr⟩, ⟨_, rfl, fw_of_fwl wb⟩, ⟨_, rfl, fw_none⟩, trivial⟩)
      (by simpa using hc) da db
  | .asyncFunctionDef rg _ a b d r tp, h, hd => by
    simp only [ordS, Bool.and_eq_true] at h
    obtain ⟨⟨⟨⟨⟨⟨hdc, hc⟩, hdo⟩, htp⟩, ha⟩, hr⟩, hb⟩ := h
    obtain ⟨da, db, hf⟩ := allDom_node_some (a := rg.1) (b := rg.2) hd
    have wd := brL ar d hdo (allDom_list' (hf _ (by simp)))
    have wtp := brTPs ar tp htp (hf _ (by simp))
    have wa := brArgs ar a ha (hf _ (by simp))
    have wr := brO ar r hr (hf _ (by simp))
    have wb := brSs ar b hb (allDom_list' (hf _ (by simp)))
    have wdd := fw_of_fwl wd _ _ (deco_chain d rg.1 hdc hdo)
    have : stmtSeg (.asyncFunctionDef rg ‹_› a b d r tp) = (decoStart d rg.1, rg.2) := by cases d <;> rfl
    rw [this]
    exact nw_of_chain_pre (plan := planFunctionDef) (plan' := P7) (i := 3)
      [[], tp.map RTypeParam.range, [a.rg], optRg r, b.map stmtSeg, []] rfl rfl rfl rfl rfl rfl rfl (by cov) rfl wdd.1 wdd.2
      (by simp only [planFunctionDef, FSteps]
          exact ⟨⟨_, rfl, fw_leaf _⟩, ⟨_, rfl, wtp⟩, ⟨_, rfl, fw_of_nw wa⟩, ⟨_, rfl, wr⟩, ⟨_, rfl, fw_of_fwl wb⟩, ⟨_, rfl, fw_none⟩, trivial⟩)
      (by simpa using hc) da db
  | .classDef rg _ bs ks b d tp, h, hd => by
    simp only [ordS, Bool.and_eq_true] at h
    obtain ⟨⟨⟨⟨⟨⟨hdc, hc⟩, hdo⟩, htp⟩, hbs⟩, hks⟩, hb⟩ := h
    obtain ⟨da, db, hf⟩ := allDom_node_some (a := rg.1) (b := rg.2) hd
    have wd := brL ar d hdo (allDom_list' (hf _ (by simp)))
    have wtp := brTPs ar tp htp (hf _ (by simp))
    have wbs := brL ar bs hbs (allDom_list' (hf _ (by simp)))
    rw [← kwLo_eq] at hks
    have wk := brKws ar _ ks hks (allDom_list' (hf _ (by simp)))
    have wb := brSs ar b hb (allDom_list' (hf _ (by simp)))
    have wdd := fw_of_fwl wd _ _ (deco_chain d rg.1 hdc hdo)
    have : stmtSeg (.classDef rg ‹_› bs ks b d tp) = (decoStart d rg.1, rg.2) := by cases d <;> rfl
    rw [this]
    exact nw_of_chain_pre (plan := planClassDef) (plan' := P6) (i := 4)
      [[], tp.map RTypeParam.range, [], bs.map RExpr.range, b.map stmtSeg] rfl rfl rfl rfl rfl rfl rfl (by cov) rfl wdd.1 wdd.2
      (by simp only [planClassDef, FSteps]
          exact ⟨⟨_, rfl, fw_leaf _⟩, ⟨_, rfl, wtp⟩, trivial, ⟨_, rfl, lk_list wk⟩, ⟨_, rfl, fw_of_fwl wbs⟩, ⟨_, rfl, fw_of_fwl wb⟩, trivial⟩)
      (by simpa using hc) da db
  | .return rg v, h, hd => by
    simp only [ordS, Bool.and_eq_true] at h
    obtain ⟨da, db, hf⟩ := allDom_node_some (a := rg.1) (b := rg.2) hd
    have wv := brO ar v h.2 (hf _ (by simp))
    show NW dom (rg.1, rg.2) _
    exact nw_of_fields (fun ix => match ix with | 0 => optRg v | _ => []) _ (Or.inl ⟨rfl, da, db⟩) rfl rfl rfl rfl rfl rfl rfl
      (by gs) (by gs)
      (fun ix hx => match ix, hx with
        | 0, _ => wv
        | nx + 1, hx => absurd hx (by simp))
      (by simpa [genPlan, stepFields] using h.1)
  | .delete rg ts, h, hd => by
    simp only [ordS, Bool.and_eq_true] at h
    obtain ⟨da, db, hf⟩ := allDom_node_some (a := rg.1) (b := rg.2) hd
    have wl := brL ar ts h.2 (allDom_list' (hf _ (by simp)))
    show NW dom (rg.1, rg.2) _
    exact nw_of_fields (fun ix => match ix with | 0 => ts.map RExpr.range | _ => []) _ (Or.inl ⟨rfl, da, db⟩) rfl rfl rfl rfl rfl rfl rfl
      (by gs) (by gs)
      (fun ix hx => match ix, hx with
        | 0, _ => fw_of_fwl wl
        | nx + 1, hx => absurd hx (by simp))
      (by simpa [genPlan, stepFields] using h.1)
  | .assign rg ts v, h, hd => by
    simp only [ordS, Bool.and_eq_true] at h
    obtain ⟨da, db, hf⟩ := allDom_node_some (a := rg.1) (b := rg.2) hd
    have wl := brL ar ts h.1.2 (allDom_list' (hf _ (by simp)))
    have wv := brE ar v h.2 (hf _ (by simp))
    show NW dom (rg.1, rg.2) _
    exact nw_of_fields (fun ix => match ix with | 0 => ts.map RExpr.range | 1 => [v.range] | _ => []) _ (Or.inl ⟨rfl, da, db⟩) rfl rfl rfl rfl rfl
      rfl rfl (by gs) (by gs)
      (fun ix hx => match ix, hx with
        | 0, _ => fw_of_fwl wl
        | 1, _ => fw_of_nw wv
        | 2, _ => fw_none
        | nx + 3, hx => absurd hx (by simp))
      (by simpa [genPlan, stepFields] using h.1.1)
  | .typeAlias rg n tp v, h, hd => by
    simp only [ordS, Bool.and_eq_true] at h
    obtain ⟨⟨⟨hc, hn⟩, htp⟩, hv⟩ := h
    obtain ⟨da, db, hf⟩ := allDom_node_some (a := rg.1) (b := rg.2) hd
    have wn := brE ar n hn (hf _ (by simp))
    have wtp := brTPs ar tp htp (hf _ (by simp))
    have wv := brE ar v hv (hf _ (by simp))
    show NW dom (rg.1, rg.2) _
    exact nw_of_fields (fun ix => match ix with | 0 => [n.range] | 1 => tp.map RTypeParam.range | 2 => [v.range] | _ => []) _ (Or.inl ⟨rfl, da, db⟩) rfl rfl
      rfl rfl rfl rfl rfl (by gs) (by gs)
      (fun ix hx => match ix, hx with
        | 0, _ => fw_of_nw wn
        | 1, _ => wtp
        | 2, _ => fw_of_nw wv
        | nx + 3, hx => absurd hx (by simp))
      (by simpa [genPlan, stepFields] using hc)
  | .augAssign rg t _ v, h, hd => by
    simp only [ordS, Bool.and_eq_true] at h
    obtain ⟨da, db, hf⟩ := allDom_node_some (a := rg.1) (b := rg.2) hd
    have wt := brE ar t h.1.2 (hf _ (by simp))
    have wv := brE ar v h.2 (hf _ (by simp))
    show NW dom (rg.1, rg.2) _
    exact nw_of_fields (fun ix => match ix with | 0 => [t.range] | 2 => [v.range] | _ => []) _ (Or.inl ⟨rfl, da, db⟩) rfl rfl rfl rfl rfl rfl rfl
      (by gs) (by gs)
      (fun ix hx => match ix, hx with
        | 0, _ => fw_of_nw wt
        | 1, _ => fw_leaf _
        | 2, _ => fw_of_nw wv
        | nx + 3, hx => absurd hx (by simp))
      (by simpa [genPlan, stepFields] using h.1.1)
  | .annAssign rg t a v _, h, hd => by
    simp only [ordS, Bool.and_eq_true] at h
    obtain ⟨⟨⟨hc, ht⟩, ha⟩, hv⟩ := h
    obtain ⟨da, db, hf⟩ := allDom_node_some (a := rg.1) (b := rg.2) hd
    have wt := brE ar t ht (hf _ (by simp))
    have wa := brE ar a ha (hf _ (by simp))
    have wv := brO ar v hv (hf _ (by simp))
    show NW dom (rg.1, rg.2) _
    exact nw_of_fields (fun ix => match ix with | 0 => [t.range] | 1 => [a.range] | 2 => optRg v | _ => []) _ (Or.inl ⟨rfl, da, db⟩) rfl rfl rfl rfl rfl
      rfl rfl (by gs) (by gs)
      (fun ix hx => match ix, hx with
        | 0, _ => fw_of_nw wt
        | 1, _ => fw_of_nw wa
        | 2, _ => wv
        | 3, _ => fw_leaf _
        | nx + 4, hx => absurd hx (by simp))
      (by simpa [genPlan, stepFields] using hc)
  | .for rg t i b o, h, hd => by
    simp only [ordS, Bool.and_eq_true] at h
    obtain ⟨⟨⟨⟨hc, ht⟩, hi⟩, hb⟩, ho⟩ := h
    obtain ⟨da, db, hf⟩ := allDom_node_some (a := rg.1) (b := rg.2) hd
    have wt := brE ar t ht (hf _ (by simp))
    have wi := brE ar i hi (hf _ (by simp))
    have wb := brSs ar b hb (allDom_list' (hf _ (by simp)))
    have wo := brSs ar o ho (allDom_list' (hf _ (by simp)))
    show NW dom (rg.1, rg.2) _
    exact nw_of_fields (fun ix => match ix with | 0 => [t.range] | 1 => [i.range] | 2 => b.map stmtSeg | 3 => o.map stmtSeg | _ => []) _
      (Or.inl ⟨rfl, da, db⟩) rfl rfl rfl rfl rfl rfl rfl (by gs) (by gs)
      (fun ix hx => match ix, hx with
        | 0, _ => fw_of_nw wt
        | 1, _ => fw_of_nw wi
        | 2, _ => fw_of_fwl wb
        | 3, _ => fw_of_fwl wo
        | 4, _ => fw_none
        | nx + 5, hx => absurd hx (by simp))
      (by simpa [genPlan, stepFields] using hc)
  | .asyncFor rg t i b o, h, hd => by
    simp only [ordS, Bool.and_eq_true] at h
    obtain ⟨⟨⟨⟨hc, ht⟩, hi⟩, hb⟩, ho⟩ := h
    obtain ⟨da, db, hf⟩ := allDom_node_some (a := rg.1) (b := rg.2) hd
    have wt := brE ar t ht (hf _ (by simp))
    have wi := brE ar i hi (hf _ (by simp))
    have wb := brSs ar b hb (allDom_list' (hf _ (by simp)))
    have wo := brSs ar o ho (allDom_list' (hf _ (by simp)))
    show NW dom (rg.1, rg.2) _
    exact nw_of_fields (fun ix => match ix with | 0 => [t.range] | 1 => [i.range] | 2 => b.map stmtSeg | 3 => o.map stmtSeg | _ => []) _
      (Or.inl ⟨rfl, da, db⟩) rfl rfl rfl rfl rfl rfl rfl (by gs) (by gs)
      (fun ix hx => match ix, hx with
        | 0, _ => fw_of_nw wt
        | 1, _ => fw_of_nw wi
        | 2, _ => fw_of_fwl wb
        | 3, _ => fw_of_fwl wo
        | 4, _ => fw_none
        | nx + 5, hx => absurd hx (by simp))
      (by simpa [genPlan, stepFields] using hc)
  | .while rg t b o, h, hd => by
    simp only [ordS, Bool.and_eq_true] at h
    obtain ⟨⟨⟨hc, ht⟩, hb⟩, ho⟩ := h
    obtain ⟨da, db, hf⟩ := allDom_node_some (a := rg.1) (b := rg.2) hd
    have wt := brE ar t ht (hf _ (by simp))
    have wb := brSs ar b hb (allDom_list' (hf _ (by simp)))
    have wo := brSs ar o ho (allDom_list' (hf _ (by simp)))
    show NW dom (rg.1, rg.2) _
    exact nw_of_fields (fun ix => match ix with | 0 => [t.range] | 1 => b.map stmtSeg | 2 => o.map stmtSeg | _ => []) _
      (Or.inl ⟨rfl, da, db⟩) rfl rfl rfl rfl rfl rfl rfl (by gs) (by gs)
      (fun ix hx => match ix, hx with
        | 0, _ => fw_of_nw wt
        | 1, _ => fw_of_fwl wb
        | 2, _ => fw_of_fwl wo
        | nx + 3, hx => absurd hx (by simp))
      (by simpa [genPlan, stepFields] using hc)
  | .if rg t b o, h, hd => by
    simp only [ordS, Bool.and_eq_true] at h
    obtain ⟨⟨⟨hc, ht⟩, hb⟩, ho⟩ := h
    obtain ⟨da, db, hf⟩ := allDom_node_some (a := rg.1) (b := rg.2) hd
    have wt := brE ar t ht (hf _ (by simp))
    have wb := brSs ar b hb (allDom_list' (hf _ (by simp)))
    have wo := brSs ar o ho (allDom_list' (hf _ (by simp)))
    show NW dom (rg.1, rg.2) _
    exact nw_of_fields (fun ix => match ix with | 0 => [t.range] | 1 => b.map stmtSeg | 2 => o.map stmtSeg | _ => []) _
      (Or.inl ⟨rfl, da, db⟩) rfl rfl rfl rfl rfl rfl rfl (by gs) (by gs)
      (fun ix hx => match ix, hx with
        | 0, _ => fw_of_nw wt
        | 1, _ => fw_of_fwl wb
        | 2, _ => fw_of_fwl wo
        | nx + 3, hx => absurd hx (by simp))
      (by simpa [genPlan, stepFields] using hc)
  | .with rg items b, h, hd => by
    simp only [ordS, Bool.and_eq_true] at h
    obtain ⟨da, db, hf⟩ := allDom_node_some (a := rg.1) (b := rg.2) hd
    have wi := brWIs ar items h.1.2 (hf _ (by simp))
    have wb := brSs ar b h.2 (allDom_list' (hf _ (by simp)))
    show NW dom (rg.1, rg.2) _
    exact nw_of_fields (fun ix => match ix with | 0 => items.map (·.rg) | 1 => b.map stmtSeg | _ => []) _
      (Or.inl ⟨rfl, da, db⟩) rfl rfl rfl rfl rfl rfl rfl (by gs) (by gs)
      (fun ix hx => match ix, hx with
        | 0, _ => wi
        | 1, _ => fw_of_fwl wb
        | 2, _ => fw_none
        | nx + 3, hx => absurd hx (by simp))
      (by simpa [genPlan, stepFields] using h.1.1)
  | .asyncWith rg items b, h, hd => by
    simp only [ordS, Bool.and_eq_true] at h
    obtain ⟨da, db, hf⟩ := allDom_node_some (a := rg.1) (b := rg.2) hd
    have wi := brWIs ar items h.1.2 (hf _ (by simp))
    have wb := brSs ar b h.2 (allDom_list' (hf _ (by simp)))
    show NW dom (rg.1, rg.2) _
    exact nw_of_fields (fun ix => match ix with | 0 => items.map (·.rg) | 1 => b.map stmtSeg | _ => []) _
      (Or.inl ⟨rfl, da, db⟩) rfl rfl rfl rfl rfl rfl rfl (by gs) (by gs)
      (fun ix hx => match ix, hx with
        | 0, _ => wi
        | 1, _ => fw_of_fwl wb
        | 2, _ => fw_none
        | nx + 3, hx => absurd hx (by simp))
      (by simpa [genPlan, stepFields] using h.1.1)
  | .match rg s cs, h, hd => by
    simp only [ordS, Bool.and_eq_true] at h
    obtain ⟨da, db, hf⟩ := allDom_node_some (a := rg.1) (b := rg.2) hd
    have ws := brE ar s h.1.2 (hf _ (by simp))
    have wc := brCs ar cs h.2 (allDom_list' (hf _ (by simp)))
    show NW dom (rg.1, rg.2) _
    exact nw_of_fields (fun ix => match ix with | 0 => [s.range] | 1 => cs.map RCase.range | _ => []) _
      (Or.inl ⟨rfl, da, db⟩) rfl rfl rfl rfl rfl rfl rfl (by gs) (by gs)
      (fun ix hx => match ix, hx with
        | 0, _ => fw_of_nw ws
        | 1, _ => fw_of_fwl wc
        | nx + 2, hx => absurd hx (by simp))
      (by simpa [genPlan, stepFields] using h.1.1)
  | .raise rg e c, h, hd => by
    simp only [ordS, Bool.and_eq_true] at h
    obtain ⟨da, db, hf⟩ := allDom_node_some (a := rg.1) (b := rg.2) hd
    have we := brO ar e h.1.2 (hf _ (by simp))
    have wc := brO ar c h.2 (hf _ (by simp))
    show NW dom (rg.1, rg.2) _
    exact nw_of_fields (fun ix => match ix with | 0 => optRg e | 1 => optRg c | _ => []) _
      (Or.inl ⟨rfl, da, db⟩) rfl rfl rfl rfl rfl rfl rfl (by gs) (by gs)
      (fun ix hx => match ix, hx with
        | 0, _ => we
        | 1, _ => wc
        | nx + 2, hx => absurd hx (by simp))
      (by simpa [genPlan, stepFields] using h.1.1)
  | .try rg b hs o f, h, hd => by
    simp only [ordS, Bool.and_eq_true] at h
    obtain ⟨⟨⟨⟨hc, hb⟩, hh⟩, ho⟩, hfi⟩ := h
    obtain ⟨da, db, hf⟩ := allDom_node_some (a := rg.1) (b := rg.2) hd
    have wb := brSs ar b hb (allDom_list' (hf _ (by simp)))
    have wh := brHs ar hs hh (allDom_list' (hf _ (by simp)))
    have wo := brSs ar o ho (allDom_list' (hf _ (by simp)))
    have wf := brSs ar f hfi (allDom_list' (hf _ (by simp)))
    show NW dom (rg.1, rg.2) _
    exact nw_of_fields (fun ix => match ix with | 0 => b.map stmtSeg | 1 => hs.map RHandler.range | 2 => o.map stmtSeg | 3 => f.map stmtSeg | _ => []) _
      (Or.inl ⟨rfl, da, db⟩) rfl rfl rfl rfl rfl rfl rfl (by gs) (by gs)
      (fun ix hx => match ix, hx with
        | 0, _ => fw_of_fwl wb
        | 1, _ => fw_of_fwl wh
        | 2, _ => fw_of_fwl wo
        | 3, _ => fw_of_fwl wf
        | nx + 4, hx => absurd hx (by simp))
      (by simpa [genPlan, stepFields] using hc)
  | .tryStar rg b hs o f, h, hd => by
    simp only [ordS, Bool.and_eq_true] at h
    obtain ⟨⟨⟨⟨hc, hb⟩, hh⟩, ho⟩, hfi⟩ := h
    obtain ⟨da, db, hf⟩ := allDom_node_some (a := rg.1) (b := rg.2) hd
    have wb := brSs ar b hb (allDom_list' (hf _ (by simp)))
    have wh := brHs ar hs hh (allDom_list' (hf _ (by simp)))
    have wo := brSs ar o ho (allDom_list' (hf _ (by simp)))
    have wf := brSs ar f hfi (allDom_list' (hf _ (by simp)))
    show NW dom (rg.1, rg.2) _
    exact nw_of_fields (fun ix => match ix with | 0 => b.map stmtSeg | 1 => hs.map RHandler.range | 2 => o.map stmtSeg | 3 => f.map stmtSeg | _ => []) _
      (Or.inl ⟨rfl, da, db⟩) rfl rfl rfl rfl rfl rfl rfl (by gs) (by gs)
      (fun ix hx => match ix, hx with
        | 0, _ => fw_of_fwl wb
        | 1, _ => fw_of_fwl wh
        | 2, _ => fw_of_fwl wo
        | 3, _ => fw_of_fwl wf
        | nx + 4, hx => absurd hx (by simp))
      (by simpa [genPlan, stepFields] using hc)
  | .assert rg t m, h, hd => by
    simp only [ordS, Bool.and_eq_true] at h
    obtain ⟨da, db, hf⟩ := allDom_node_some (a := rg.1) (b := rg.2) hd
    have wt := brE ar t h.1.2 (hf _ (by simp))
    have wm := brO ar m h.2 (hf _ (by simp))
    show NW dom (rg.1, rg.2) _
    exact nw_of_fields (fun ix => match ix with | 0 => [t.range] | 1 => optRg m | _ => []) _
      (Or.inl ⟨rfl, da, db⟩) rfl rfl rfl rfl rfl rfl rfl (by gs) (by gs)
      (fun ix hx => match ix, hx with
        | 0, _ => fw_of_nw wt
        | 1, _ => wm
        | nx + 2, hx => absurd hx (by simp))
      (by simpa [genPlan, stepFields] using h.1.1)
  | .import rg ns, h, hd => by
    simp only [ordS, Bool.and_eq_true] at h
    obtain ⟨da, db, hf⟩ := allDom_node_some (a := rg.1) (b := rg.2) hd
    have wn := brAliases ns h.2 (hf _ (by simp))
    show NW dom (rg.1, rg.2) _
    exact nw_of_fields (fun ix => match ix with | 0 => ns.map (·.rg) | _ => []) _
      (Or.inl ⟨rfl, da, db⟩) rfl rfl rfl rfl rfl rfl rfl (by gs) (by gs)
      (fun ix hx => match ix, hx with
        | 0, _ => wn
        | nx + 1, hx => absurd hx (by simp))
      (by simpa [genPlan, stepFields] using h.1)
  | .importFrom rg _ ns _, h, hd => by
    simp only [ordS, Bool.and_eq_true] at h
    obtain ⟨da, db, hf⟩ := allDom_node_some (a := rg.1) (b := rg.2) hd
    have wn := brAliases ns h.2 (hf _ (by simp))
    show NW dom (rg.1, rg.2) _
    exact nw_of_fields (fun ix => match ix with | 1 => ns.map (·.rg) | _ => []) _
      (Or.inl ⟨rfl, da, db⟩) rfl rfl rfl rfl rfl rfl rfl (by gs) (by gs)
      (fun ix hx => match ix, hx with
        | 0, _ => fw_none
        | 1, _ => wn
        | 2, _ => fw_none
        | nx + 3, hx => absurd hx (by simp))
      (by simpa [genPlan, stepFields] using h.1)
  | .global rg _, h, hd => by
    simp only [ordS] at h
    obtain ⟨da, db, hf⟩ := allDom_node_some (a := rg.1) (b := rg.2) hd
    show NW dom (rg.1, rg.2) _
    exact nw_of_fields (fun _ => []) _ (Or.inl ⟨rfl, da, db⟩) rfl rfl rfl rfl rfl rfl rfl
      (by gs) (by gs)
      (fun ix hx => match ix, hx with
        | 0, _ => fw_nil
        | nx + 1, hx => absurd hx (by simp))
      (by simpa [genPlan, stepFields] using h)
  | .nonlocal rg _, h, hd => by
    simp only [ordS] at h
    obtain ⟨da, db, hf⟩ := allDom_node_some (a := rg.1) (b := rg.2) hd
    show NW dom (rg.1, rg.2) _
    exact nw_of_fields (fun _ => []) _ (Or.inl ⟨rfl, da, db⟩) rfl rfl rfl rfl rfl rfl rfl
      (by gs) (by gs)
      (fun ix hx => match ix, hx with
        | 0, _ => fw_nil
        | nx + 1, hx => absurd hx (by simp))
      (by simpa [genPlan, stepFields] using h)
  | .expr rg e, h, hd => by
    simp only [ordS, Bool.and_eq_true] at h
    obtain ⟨da, db, hf⟩ := allDom_node_some (a := rg.1) (b := rg.2) hd
    have we := brE ar e h.2 (hf _ (by simp))
    show NW dom (rg.1, rg.2) _
    exact nw_of_fields (fun ix => match ix with | 0 => [e.range] | _ => []) _ (Or.inl ⟨rfl, da, db⟩) rfl rfl rfl rfl rfl rfl rfl
      (by gs) (by gs)
      (fun ix hx => match ix, hx with
        | 0, _ => fw_of_nw we
        | nx + 1, hx => absurd hx (by simp))
      (by simpa [genPlan, stepFields] using h.1)
  | .pass rg, h, hd => by
    simp only [ordS] at h
    obtain ⟨da, db, hf⟩ := allDom_node_some (a := rg.1) (b := rg.2) hd
    show NW dom (rg.1, rg.2) _
    exact nw_of_fields (fun _ => []) _ (Or.inl ⟨rfl, da, db⟩) rfl rfl rfl rfl rfl rfl rfl
      (by gs) (by gs)
      (fun ix hx => match ix, hx with
        | nx + 0, hx => absurd hx (by simp))
      (by simpa [genPlan, stepFields] using h)
  | .break rg, h, hd => by
    simp only [ordS] at h
    obtain ⟨da, db, hf⟩ := allDom_node_some (a := rg.1) (b := rg.2) hd
    show NW dom (rg.1, rg.2) _
    exact nw_of_fields (fun _ => []) _ (Or.inl ⟨rfl, da, db⟩) rfl rfl rfl rfl rfl rfl rfl
      (by gs) (by gs)
      (fun ix hx => match ix, hx with
        | nx + 0, hx => absurd hx (by simp))
      (by simpa [genPlan, stepFields] using h)
  | .continue rg, h, hd => by
    simp only [ordS] at h
    obtain ⟨da, db, hf⟩ := allDom_node_some (a := rg.1) (b := rg.2) hd
    show NW dom (rg.1, rg.2) _
    exact nw_of_fields (fun _ => []) _ (Or.inl ⟨rfl, da, db⟩) rfl rfl rfl rfl rfl rfl rfl
      (by gs) (by gs)
      (fun ix hx => match ix, hx with
        | nx + 0, hx => absurd hx (by simp))
      (by simpa [genPlan, stepFields] using h)
theorem brSs (ar : Bool) : ∀ (ss : List RStmt), ordSs ss = true → (∀ t ∈ cSs ar ss, AllDom dom t) →
    FWL dom (ss.map stmtSeg) (cSs ar ss)
  | [], _, _ => fwl_nil
  | s :: ss, h, hd => by
    simp only [ordSs, Bool.and_eq_true] at h
    simp only [cSs, List.forall_mem_cons] at hd
    exact fwl_cons (brS ar s h.1 hd.1) (brSs ar ss h.2 hd.2)
theorem brHs (ar : Bool) : ∀ (hs : List RHandler), ordHs hs = true → (∀ t ∈ cHs ar hs, AllDom dom t) →
    FWL dom (hs.map RHandler.range) (cHs ar hs)
  | [], _, _ => fwl_nil
  | .mk rg ty _ b :: hs, h, hd => by
    simp only [ordHs, Bool.and_eq_true] at h
    obtain ⟨⟨⟨hc, hty⟩, hb⟩, hhs⟩ := h
    simp only [cHs, List.forall_mem_cons] at hd
    obtain ⟨da, db, hf⟩ := allDom_node_some (a := rg.1) (b := rg.2) hd.1
    have wt := brO ar ty hty (hf _ (by simp))
    have wb := brSs ar b hb (allDom_list' (hf _ (by simp)))
    refine fwl_cons (rg := rg) ?_ (brHs ar hs hhs hd.2)
    exact nw_of_fields (fun ix => match ix with | 0 => optRg ty | 2 => b.map stmtSeg | _ => []) _ (Or.inl ⟨rfl, da, db⟩) rfl rfl rfl rfl rfl rfl rfl
      (by gs) (by gs)
      (fun ix hx => match ix, hx with
        | 0, _ => wt
        | 1, _ => fw_none
        | 2, _ => fw_of_fwl wb
        | nx + 3, hx => absurd hx (by simp))
      (by simpa [genPlan, stepFields] using hc)
theorem brCs (ar : Bool) : ∀ (cs : List RCase), ordCs cs = true → (∀ t ∈ cCs ar cs, AllDom dom t) →
    FWL dom (cs.map RCase.range) (cCs ar cs)
  | [], _, _ => fwl_nil
  | .mk rg p g b :: cs, h, hd => by
    simp only [ordCs, Bool.and_eq_true] at h
    obtain ⟨⟨⟨⟨hc, hp⟩, hg⟩, hb⟩, hcs⟩ := h
    simp only [cCs, List.forall_mem_cons] at hd
    obtain ⟨hr, hf⟩ := allDom_optR (a := rg.1) (b := rg.2) hd.1
    have wp := brP ar p hp (hf _ (by simp))
    have wg := brO ar g hg (hf _ (by simp))
    have wb := brSs ar b hb (allDom_list' (hf _ (by simp)))
    refine fwl_cons (rg := rg) ?_ (brCs ar cs hcs hd.2)
    exact nw_of_fields (fun ix => match ix with | 0 => [p.range] | 1 => optRg g | 2 => b.map stmtSeg | _ => []) _ hr rfl rfl rfl rfl rfl rfl rfl
      (by gs) (by gs)
      (fun ix hx => match ix, hx with
        | 0, _ => fw_of_nw wp
        | 1, _ => wg
        | 2, _ => fw_of_fwl wb
        | nx + 3, hx => absurd hx (by simp))
      (by simpa [genPlan, stepFields] using hc)
end


/-! ### the whole parse -/

theorem range1_mem (ar : Bool) (e : RExpr) : e.range.1 ∈ offsT (cE ar e) := by
  cases e <;> simp [cE, offsT, RExpr.range]

theorem stmtLo_mem (ar : Bool) (s : RStmt) : stmtLo s ∈ offsT (cS ar s) := by
  cases s with
  | functionDef rg n a b d r tp =>
    cases d with
    | nil => simp [stmtLo, stmtDecos, cS, offsT, RStmt.range]
    | cons x xs =>
      have := range1_mem ar x
      simp [stmtLo, stmtDecos, cS, offsT, offsL, cL, this]
  | asyncFunctionDef rg n a b d r tp =>
    cases d with
    | nil => simp [stmtLo, stmtDecos, cS, offsT, RStmt.range]
    | cons x xs =>
      have := range1_mem ar x
      simp [stmtLo, stmtDecos, cS, offsT, offsL, cL, this]
  | classDef rg n bs ks b d tp =>
    cases d with
    | nil => simp [stmtLo, stmtDecos, cS, offsT, RStmt.range]
    | cons x xs =>
      have := range1_mem ar x
      simp [stmtLo, stmtDecos, cS, offsT, offsL, cL, this]
  | _ => simp [stmtLo, stmtDecos, cS, offsT, RStmt.range]

theorem srcOrdered_of_ow {src : List Nat} {t : Tree} {a b : Nat}
    (h : OW (fun o => decide (InDomain src o)) a b t) (hc : initCursor src ≤ a) : SrcOrdered realCfg src t := by
  obtain ⟨c', e, _⟩ := h.2 (depth t + 1) (Nat.lt_succ_self _) (initCursor src) hc
  simp [SrcOrdered, e]

/-- a chain can be restarted at any point at or before its first segment -/
theorem chain_restart {a b c : Nat} : ∀ {segs : List Rg}, chain a segs b = true → (∀ s, segs.head? = some s → c ≤ s.1) →
    ∃ b', chain c segs b' = true
  | [], _, _ => ⟨c, by simp [chain]⟩
  | s :: ss, h, hc => by
    simp only [chain, Bool.and_eq_true, decide_eq_true_eq] at h
    exact ⟨b, by simp [chain, h.2, hc s rfl]⟩

theorem head_stmtSeg (ar : Bool) {src : List Nat} : ∀ (b : List RStmt), (∀ t ∈ cSs ar b, OffsOk src t) →
    ∀ s, (b.map stmtSeg).head? = some s → initCursor src ≤ s.1
  | [], _, s, h => by simp at h
  | x :: xs, hk, s, h => by
    simp only [List.map_cons, List.head?_cons, Option.some.injEq] at h
    subst h
    exact (hk (cS ar x) (by simp [cSs]) _ (stmtLo_mem ar x)).2

/-- **The bridge.**  A ranged parse whose nodes are laid out in fold order (`ordM`) and whose offsets the locator
    accepts is `SrcOrdered` — in the default build (`ar = false`) and with `all-nodes-with-ranges` (`ar = true`). -/
theorem srcOrdered_of_ordM (ar : Bool) {src : List Nat} {m : RMod} (ho : ordM m = true) (hk : OffsOk src (toTree ar m)) :
    SrcOrdered realCfg src (toTree ar m) := by
  have hd : AllDom (fun o => decide (InDomain src o)) (toTree ar m) := fun o h => by simpa using (hk o h).1
  have body : ∀ (k : Nat) (rg : Rg) (b : List RStmt) (rest : List Tree) (plan plan' : Plan) (sgs : List (List Rg)),
      chain rg.1 (b.map stmtSeg) rg.2 = true → ordSs b = true →
      OffsOk src (.node k (optR ar rg) (.list (cSs ar b) :: rest)) →
      (k == realCfg.joined) = false → realCfg.planOf .lin k = some plan → plan.pre = [] → plan.cb = true →
      realCfg.planOf .look k = some plan' → plan'.pre = [] → plan'.cb = true →
      (∀ st ∈ plan'.body, ∃ i, st = .fold i ∧ i ∈ plan.body.flatMap stepFields) →
      (∀ a, FW (fun o => decide (InDomain src o)) (b.map stmtSeg) (.list (cSs ar b)) →
        FSteps (fun o => decide (InDomain src o)) (.list (cSs ar b) :: rest) plan.body sgs a) →
      sgs.flatten = b.map stmtSeg →
      SrcOrdered realCfg src (.node k (optR ar rg) (.list (cSs ar b) :: rest)) := by
    intro k rg b rest plan plan' sgs hc hb hk' h1 h2 h3 h4 h5 h6 h7 h8 hfs hflat
    have hd' : AllDom (fun o => decide (InDomain src o)) (.node k (optR ar rg) (.list (cSs ar b) :: rest)) :=
      fun o h => by simpa using (hk' o h).1
    obtain ⟨hr, hf⟩ := allDom_optR (a := rg.1) (b := rg.2) hd'
    have wb := fw_of_fwl (brSs ar b hb (allDom_list' (hf _ (by simp))))
    cases ar with
    | true =>
      have hr' : optR true rg = some (rg.1, rg.2) := rfl
      have hra : initCursor src ≤ rg.1 := (hk' rg.1 (by simp [optR, offsT])).2
      rcases hr with hr | hr
      · have nw := nw_of_chain sgs _ (Or.inl hr) h1 h2 h3 h4 h5 h6 h7 h8 (hfs _ wb) (by rw [hflat]; exact hc)
        exact srcOrdered_of_ow nw.1 hra
      · simp [optR] at hr
    | false =>
      have hko : ∀ t ∈ cSs false b, OffsOk src t := by
        intro t ht o ho
        apply hk' o
        simp only [optR, offsT, offsL, List.nil_append, List.mem_append, offsL_eq, List.mem_flatMap, Bool.false_eq_true, ↓reduceIte]
        exact Or.inl ⟨t, ht, ho⟩
      obtain ⟨b', hc'⟩ := chain_restart (c := initCursor src) hc (head_stmtSeg false b hko)
      have nw := nw_of_chain (a := initCursor src) (b := b') sgs (optR false rg) (Or.inr rfl) h1 h2 h3 h4 h5 h6 h7 h8
        (hfs _ wb) (by rw [hflat]; exact hc')
      exact srcOrdered_of_ow nw.1 (Nat.le_refl _)
  cases m with
  | module rg b =>
    simp only [ordM, Bool.and_eq_true] at ho
    exact body 0 rg b [.list []] P2 P2 [b.map stmtSeg, []] ho.1 ho.2 hk rfl rfl rfl rfl rfl rfl rfl (by cov)
      (fun a w => by simp only [FSteps]; exact ⟨⟨_, rfl, w⟩, ⟨_, rfl, fw_nil⟩, trivial⟩) (by simp)
  | interactive rg b =>
    simp only [ordM, Bool.and_eq_true] at ho
    exact body 1 rg b [] P1 P1 [b.map stmtSeg] ho.1 ho.2 hk rfl rfl rfl rfl rfl rfl rfl (by cov)
      (fun a w => by simp only [FSteps]; exact ⟨⟨_, rfl, w⟩, trivial⟩) (by simp)
  | expression rg e =>
    simp only [ordM, Bool.and_eq_true] at ho
    obtain ⟨hr, hf⟩ := allDom_optR (a := rg.1) (b := rg.2) hd
    have we := fw_of_nw (brE ar e ho.2 (hf _ (by simp [toTree])))
    cases ar with
    | true =>
      have hra : initCursor src ≤ rg.1 := (hk rg.1 (by simp [toTree, optR, offsT])).2
      rcases hr with hr | hr
      · have nw : NW (fun o => decide (InDomain src o)) (rg.1, rg.2) (toTree true (.expression rg e)) :=
          nw_of_chain (plan := P1) (plan' := P1) [[e.range]] _ (Or.inl hr) rfl rfl rfl rfl rfl rfl rfl (by cov)
            (by simp only [FSteps]; exact ⟨⟨_, rfl, we⟩, trivial⟩) (by simpa using ho.1)
        exact srcOrdered_of_ow nw.1 hra
      · simp [optR] at hr
    | false =>
      have he : initCursor src ≤ e.range.1 := (hk e.range.1 (by
        simp only [toTree, optR, offsT, offsL, List.nil_append, List.append_nil, Bool.false_eq_true, ↓reduceIte]
        exact range1_mem false e)).2
      have hc : chain (initCursor src) [e.range] e.range.2 = true := by simp [chain, he]
      have nw : NW (fun o => decide (InDomain src o)) (initCursor src, e.range.2) (toTree false (.expression rg e)) :=
        nw_of_chain (a := initCursor src) (b := e.range.2) (plan := P1) (plan' := P1) [[e.range]] (optR false rg)
          (Or.inr rfl) rfl rfl rfl rfl rfl rfl rfl (by cov) (by simp only [FSteps]; exact ⟨⟨_, rfl, we⟩, trivial⟩) hc
      exact srcOrdered_of_ow nw.1 (Nat.le_refl _)

end PV.C13.F
