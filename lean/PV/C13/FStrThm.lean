import PV.C13.FParsedBridge
import PV.C13.FStrRun
import PV.C13.WPOrd
import PV.C13.ParsedConf
import PV.C13.ParsedThm
import PV.C02.FProgThm
/-
  C13 — f-strings one level deep: what this round proves, and the statement that is left.

  PROVED
  * `fstr_pieces_ordered` (FStrOrd.lean): the pieces the f-string parser model returns for ONE literal tied to the source are
    laid out in the order `LinearLocator::fold_expr_joined_str` visits them (`jOrd`);
  * `strings_single_fstr_jOrd` (FStrTok.lean): … hence the `JoinedStr` the string production builds for ONE f-string token
    that is not part of an implicit concatenation;
  * `single_fstr_token_walkable` (FStrWalk.lean): … and the `LinearLocator` fold model walks that tree;
  * `strings_fstr_weak` (FStrRun.lean): for EVERY run of string tokens (concatenations too) the pieces have the accepted
    shape with `ordE` field expressions and the field expressions of all literals chain through the `JoinedStr` — all of
    `jOrd` except "every piece carries the range of the whole", which is exactly what the listed finding violates;
  * `nw_joined` (FStrLook.lean), `F.srcOrdered_of_ordM` (FParsedBridge.lean): the tree half of the capstone with f-strings
    admitted — `F.ordM m → OffsOk src (toTree ar m) → SrcOrdered realCfg src (toTree ar m)` for EVERY ranged tree, and from
    it the two sentences of the property (`fordM_locations_eq_spec`, `fordM_linear_eq_random` below).
  STATED, NOT PROVED (`parsed_ordM_fstr_full`): `F.ordM` for every parse in the domain `fplainOrd` — f-strings one level deep,
  no f-string token inside an implicit concatenation of two or more literals.  What is missing is the re-run of the two
  parser inductions (`ordAt`, `parseRProgram_ordM`) over C02's tied induction `PV.C02.F.soundAt` / `F.compSAt`, with
  `strings_single_fstr_jOrd` as the f-string step; the statement is evaluated per input instead (examples below).
  KEPT: the listed finding `linear-fstring-concat-piece-range` (`fstr_concat_not_fordM`): outside `fplainOrd`, `F.ordM` false.
-/
set_option linter.unusedVariables false
namespace PV.C13
open PV.C15 PV.C13.Spec
open PV.C02 hiding Tree isBoundary
open PV.C12 (Tree Conforms)

/-! ### every ranged tree laid out in fold order, f-strings one level deep included -/

/-- `F.ordM` trees are `SrcOrdered` (both builds) -/
theorem fordM_srcOrdered (ar : Bool) {src : List Nat} {m : RMod} (ho : F.ordM m = true) (hk : OffsOk src (toTree ar m)) :
    SrcOrdered realCfg src (toTree ar m) := F.srcOrdered_of_ordM ar ho hk

/-- first sentence of the property for `F.ordM` trees: no panic, reference row / column in every node — including every
    piece of every f-string (each stamped with the location of the whole `JoinedStr`, whose range it carries) and every node
    of every replacement-field expression -/
theorem fordM_locations_eq_spec (ar dbg : Bool) {src : List Nat} (hs : LineStartsOk src) {m : RMod} (ho : F.ordM m = true)
    (hk : OffsOk src (toTree ar m)) :
    foldLocated realCfg (.linear dbg) src (toTree ar m) = some (locMap (rowCol src) (toTree ar m)) :=
  fold_locations_eq_spec_gen dbg hs (toTree_conforms ar m) (F.srcOrdered_of_ordM ar ho hk)

/-- second sentence -/
theorem fordM_linear_eq_random (ar dbg : Bool) {src : List Nat} (hs : LineStartsOk src) {m : RMod} (ho : F.ordM m = true)
    (hk : OffsOk src (toTree ar m)) :
    foldLocated realCfg (.linear dbg) src (toTree ar m) = foldLocated realCfg .random src (toTree ar m) :=
  fold_linear_eq_random_gen dbg hs (toTree_conforms ar m) (F.srcOrdered_of_ordM ar ho hk)

/-! ### the domain of the statement that is left -/

/-- no f-string token stands in a run of two or more string tokens (an implicit concatenation that contains an f-string:
    there the pieces carry the range of their own literal — listed finding `linear-fstring-concat-piece-range`) -/
def noFConcat : List PV.Expr.Tok → Bool
  | [] => true
  | t :: r =>
    (if PV.C11.isStringTok t then
      let run := t :: r.takeWhile PV.C11.isStringTok
      decide (run.length ≤ 1) || !(run.any isFstrTok)
     else true) && noFConcat r

/-- **the admissible domain**: f-string literals anywhere in the program with f-string-free replacement fields
    (`fplainM1`, C02), none of them inside an implicit concatenation (decidable) -/
def fplainOrd (toks : List RPTok) (m : RMod) : Bool :=
  noFConcat (toks.map fun t => t.tok.toTok) && fplainM1 m

/-- what remains to be proved: the parser model's trees in that domain are `F.ordM` (then `fordM_srcOrdered`,
    `fordM_locations_eq_spec`, `fordM_linear_eq_random` apply).  `FTiedP`: the token VALUES are the source text of their
    spans (C02's tie; it fails — and so does the conclusion — after a CR LF inside an f-string literal: listed finding
    `linear-offset-inside-crlf`, `fstr_crlf_not_tied`). -/
def parsed_ordM_fstr_full : Prop :=
  ∀ (src : List Nat) (toks : List RPTok) (mode : PV.Prog.Mode) (m : RMod), TiledP src toks → FTiedP src toks = true →
    parseRProgram mode toks = some m → fplainOrd toks m = true → F.ordM m = true

/-- the same statement with the weak clause and WITHOUT the exclusion of concatenations (what `strings_fstr_weak` makes
    provable by a plain re-run of the two parser inductions over C02's tied induction): stated, not proved; evaluated.
    `F.ordM` then follows for the trees in which every piece carries the range of its `JoinedStr` (a property of the tree). -/
def parsed_wordM_fstr_full : Prop :=
  ∀ (src : List Nat) (toks : List RPTok) (mode : PV.Prog.Mode) (m : RMod), TiledP src toks → FTiedP src toks = true →
    parseRProgram mode toks = some m → fplainM1 m = true → W.ordM m = true

/-! ### non-vacuity: `x = g(k=f'{z}', *a)` LF `y = f'{x!r:>{w}} {y}'` LF

  an f-string as a call keyword (located by look-ahead, in front of a starred argument) and one with a conversion, a nested
  format spec and a second field; real tokens and spans (`pvh_c01 rtoks`). -/

def fstrExToks : List RPTok :=
  [⟨.e (.name [120]), 0, 1⟩,
   ⟨.e (.op .assign), 2, 3⟩,
   ⟨.e (.name [103]), 4, 5⟩,
   ⟨.e (.op .lpar), 5, 6⟩,
   ⟨.e (.name [107]), 6, 7⟩,
   ⟨.e (.op .assign), 7, 8⟩,
   ⟨.e (.fstr 39 false false [123, 122, 125]), 8, 14⟩,
   ⟨.e (.op .comma), 14, 15⟩,
   ⟨.e (.op .star), 16, 17⟩,
   ⟨.e (.name [97]), 17, 18⟩,
   ⟨.e (.op .rpar), 18, 19⟩,
   ⟨.newline, 19, 20⟩,
   ⟨.e (.name [121]), 20, 21⟩,
   ⟨.e (.op .assign), 22, 23⟩,
   ⟨.e (.fstr 39 false false [123, 120, 33, 114, 58, 62, 123, 119, 125, 125, 32, 123, 121, 125]), 24, 41⟩,
   ⟨.newline, 41, 42⟩]
def fstrExSrc : List Nat :=
  [120, 32, 61, 32, 103, 40, 107, 61, 102, 39, 123, 122, 125, 39, 44, 32, 42, 97, 41, 10, 121, 32, 61, 32, 102, 39, 123, 120, 33, 114, 58, 62, 123, 119, 125, 125, 32, 123, 121, 125, 39, 10]

def fstrExMod : Option RMod := parseRProgram .module fstrExToks

example : TiledP fstrExSrc fstrExToks ∧ FTiedP fstrExSrc fstrExToks = true := by decide +kernel
/-- in the domain, not plain, `F.ordM` (evaluated — the statement `parsed_ordM_fstr_full` on this input), offsets fine -/
example : fstrExMod.map (fun m => (fplainOrd fstrExToks m, plainM m, ordM m, F.ordM m,
    decide (OffsOk fstrExSrc (toTree false m)), decide (OffsOk fstrExSrc (toTree true m)))) =
    some (true, false, false, true, true, true) := by decide +kernel
/-- the theorems (not evaluation) give both sentences for it, in both builds -/
example : ∀ m, fstrExMod = some m →
    foldLocated realCfg (.linear true) fstrExSrc (toTree false m) = some (locMap (rowCol fstrExSrc) (toTree false m)) ∧
    foldLocated realCfg (.linear false) fstrExSrc (toTree true m) = foldLocated realCfg .random fstrExSrc (toTree true m) := by
  intro m hm
  have h1 : fstrExMod.map F.ordM = some true := by decide +kernel
  have h2 : fstrExMod.map (fun m => decide (OffsOk fstrExSrc (toTree false m))) = some true := by decide +kernel
  have h3 : fstrExMod.map (fun m => decide (OffsOk fstrExSrc (toTree true m))) = some true := by decide +kernel
  simp only [hm, Option.map_some, Option.some.injEq, decide_eq_true_eq] at h1 h2 h3
  have hs : LineStartsOk fstrExSrc := validUtf8_lineStartsOk (by decide)
  exact ⟨fordM_locations_eq_spec false true hs h1 h2, fordM_linear_eq_random true false hs h1 h3⟩

/-! ### the two listed f-string findings, against the new predicates -/

/-- `f'{x}' f'{y}'` (`fconcatToks`, ParsedThm.lean): tiled, TIED, one level deep — but an implicit concatenation with an
    f-string: outside `fplainOrd`; the pieces carry the ranges of their own literals, the weak layout `W.ordM` holds, `F.ordM` is false, and the tree is not
    `SrcOrdered` (listed finding `linear-fstring-concat-piece-range`) -/
theorem fstr_concat_not_fordM :
    (TiledP fconcatText fconcatToks ∧ FTiedP fconcatText fconcatToks = true) ∧
    (parseRProgram .module fconcatToks).map (fun m => (fplainM1 m, fplainOrd fconcatToks m, W.ordM m, F.ordM m,
      decide (SrcOrdered realCfg fconcatText (toTree false m)))) = some (true, false, true, false, false) := by
  refine ⟨by decide +kernel, by decide +kernel⟩

/-- CR LF inside a triple-quoted f-string (`fcrlfToks`): the token value (line ends folded to LF by the lexer) is NOT the
    source text of its span — `FTiedP` fails, which is how the hypotheses of `parsed_ordM_fstr_full` exclude the listed
    finding `linear-offset-inside-crlf` (the tree is not `OffsOk`, `fstring_findings_reproduced`) -/
theorem fstr_crlf_not_tied :
    TiledP fcrlfSrc fcrlfToks ∧ FTiedP fcrlfSrc fcrlfToks = false ∧
    (parseRProgram .module fcrlfToks).map (fun m => (fplainOrd fcrlfToks m, decide (OffsOk fcrlfSrc (toTree false m)))) =
      some (true, false) := by
  refine ⟨by decide +kernel, by decide +kernel, by decide +kernel⟩

end PV.C13
