import PV.C13.FStrTok
import PV.C13.ParsedLemmas
/-
  C13 — the f-string half of the bridge `ordM → SrcOrdered`: a `JoinedStr` node whose pieces are laid out as `jOrd` says
  is walkable by the `LinearLocator` (`ow_joined`): `LinearLocator::fold_expr_joined_str` locates the start, looks ahead
  at the end, and `linear_locate_expr_joined_str` then visits only the replacement-field expressions, piece after piece
  (`ordJ` / `ordPiece` of Fold.lean), stamping the location of the whole on every piece — which therefore has to carry the
  range of the whole (`jPieces`).
  This is the case that `brE` of ParsedBridge.lean closes with `ordE (.joinedStr ..) = false`; with it, the typed induction
  of ParsedBridge.lean extends to f-strings one level deep once `ordE` is extended by `jOrd` (not done in this round:
  the two parser inductions `ordAt` / `parseRProgram_ordM` have to be re-run over C02's tied induction `F.soundAt`).
-/
set_option linter.unusedVariables false
set_option linter.unusedSimpArgs false
namespace PV.C13
open PV.Expr PV.C11
open PV.C02 hiding Tree
open PV.C12 (Tree)

mutual
/-- the shape `linear_locate_expr_joined_str` accepts (anything else is `unreachable!`), every piece ranged `lit` -/
def jPiece (lit : Rg) : RExpr → Bool
  | .const rg _ => rg == lit
  | .formattedValue rg _ _ none => rg == lit
  | .formattedValue rg _ _ (some (.joinedStr rg' ws)) => rg == lit && rg' == lit && jPieces lit ws
  | _ => false
def jPieces (lit : Rg) : List RExpr → Bool
  | [] => true
  | p :: ps => jPiece lit p && jPieces lit ps
end

mutual
/-- the replacement-field expressions of a piece, in visiting order -/
def pieceVals : RExpr → List RExpr
  | .formattedValue _ v _ none => [v]
  | .formattedValue _ v _ (some (.joinedStr _ ws)) => v :: piecesVals ws
  | _ => []
def piecesVals : List RExpr → List RExpr
  | [] => []
  | p :: ps => pieceVals p ++ piecesVals ps
end

mutual
theorem jPiece_of_ok (lit : Rg) : ∀ p, pieceOk lit p = true → jPiece lit p = true
  | .const _ _, h => by simpa [pieceOk, jPiece] using h
  | .formattedValue _ _ _ none, h => by
    simp only [pieceOk, Bool.and_eq_true] at h; simp [jPiece, h.1]
  | .formattedValue _ _ _ (some (.joinedStr _ ws)), h => by
    simp only [pieceOk, Bool.and_eq_true] at h
    simp [jPiece, h.1.1, h.2.1, jPieces_of_ok lit ws h.2.2]
  | .name _ _, h | .boolOp _ _ _, h | .namedExpr _ _ _, h | .binOp _ _ _ _, h | .unaryOp _ _ _, h
  | .lambda _ _ _ _ _ _ _ _, h | .ifExp _ _ _ _, h | .dict _ _, h | .set _ _, h | .listComp _ _ _, h | .setComp _ _ _, h
  | .dictComp _ _ _ _, h | .genExp _ _ _, h | .await _ _, h | .yield _ _, h | .yieldFrom _ _, h | .compare _ _ _ _, h
  | .call _ _ _ _, h | .joinedStr _ _, h | .attribute _ _ _, h | .subscript _ _ _, h | .starred _ _, h | .list _ _, h
  | .tuple _ _, h | .slice _ _ _ _, h => by simp [pieceOk] at h
  | .formattedValue _ _ _ (some (.name _ _)), h | .formattedValue _ _ _ (some (.const _ _)), h
  | .formattedValue _ _ _ (some (.boolOp _ _ _)), h | .formattedValue _ _ _ (some (.namedExpr _ _ _)), h
  | .formattedValue _ _ _ (some (.binOp _ _ _ _)), h | .formattedValue _ _ _ (some (.unaryOp _ _ _)), h
  | .formattedValue _ _ _ (some (.lambda _ _ _ _ _ _ _ _)), h | .formattedValue _ _ _ (some (.ifExp _ _ _ _)), h
  | .formattedValue _ _ _ (some (.dict _ _)), h | .formattedValue _ _ _ (some (.set _ _)), h
  | .formattedValue _ _ _ (some (.listComp _ _ _)), h | .formattedValue _ _ _ (some (.setComp _ _ _)), h
  | .formattedValue _ _ _ (some (.dictComp _ _ _ _)), h | .formattedValue _ _ _ (some (.genExp _ _ _)), h
  | .formattedValue _ _ _ (some (.await _ _)), h | .formattedValue _ _ _ (some (.yield _ _)), h
  | .formattedValue _ _ _ (some (.yieldFrom _ _)), h | .formattedValue _ _ _ (some (.compare _ _ _ _)), h
  | .formattedValue _ _ _ (some (.call _ _ _ _)), h | .formattedValue _ _ _ (some (.formattedValue _ _ _ _)), h
  | .formattedValue _ _ _ (some (.attribute _ _ _)), h | .formattedValue _ _ _ (some (.subscript _ _ _)), h
  | .formattedValue _ _ _ (some (.starred _ _)), h | .formattedValue _ _ _ (some (.list _ _)), h
  | .formattedValue _ _ _ (some (.tuple _ _)), h | .formattedValue _ _ _ (some (.slice _ _ _ _)), h => by
    simp [pieceOk] at h
theorem jPieces_of_ok (lit : Rg) : ∀ ps, piecesOk lit ps = true → jPieces lit ps = true
  | [], _ => rfl
  | p :: ps, h => by
    simp only [piecesOk, Bool.and_eq_true] at h
    simp [jPieces, jPiece_of_ok lit p h.1, jPieces_of_ok lit ps h.2]
end

variable {dom : Nat → Bool}

theorem beq_rg {a b : Rg} (h : (a == b) = true) : a = b := by simpa using h
theorem cfg_constant : realCfg.constant = 51 := rfl
theorem cfg_formatted : realCfg.formatted = 49 := rfl
theorem cfg_joined : realCfg.joined = 50 := rfl

mutual
theorem pieceJ (ar : Bool) (lit : Rg) : ∀ (p : RExpr), jPiece lit p = true →
    (∀ v ∈ pieceVals p, NW dom v.range (cE ar v)) → ∀ n, depth (cE ar p) ≤ n → ∀ c0 hi, chain c0 (pieceSegs p) hi = true →
    ∀ c, c ≤ c0 → ∃ c', ordPiece realCfg (ordT leB dom realCfg n .lin) (ordJ leB dom realCfg n lit) lit c (cE ar p) = some c'
      ∧ c' ≤ hi
  | .const rg _, hj, _, n, _, c0, hi, hc, c, hcc => by
    have := beq_rg (by simpa [jPiece] using hj)
    subst this
    refine ⟨c, ?_, by simp only [pieceSegs, chain, decide_eq_true_eq] at hc; omega⟩
    simp [cE, ordPiece, cfg_constant, offsL, offsT, lf]
  | .formattedValue rg v _ none, hj, hv, n, hd, c0, hi, hc, c, hcc => by
    have := beq_rg (by simpa [jPiece] using hj)
    subst this
    simp only [pieceSegs, specSegs, chain, Bool.and_eq_true, decide_eq_true_eq] at hc
    have wv := (hv v (by simp [pieceVals])).1
    have hdv : depth (cE ar v) < n := by
      simp only [cE, cO, depth, depthL] at hd
      omega
    obtain ⟨c1, e1, hc1⟩ := wv.2 n hdv c (by omega)
    refine ⟨c1, ?_, by omega⟩
    simp [cE, cO, ordPiece, cfg_constant, cfg_formatted, offsT, lf, e1]
  | .formattedValue rg v _ (some (.joinedStr rg' ws)), hj, hv, n, hd, c0, hi, hc, c, hcc => by
    simp only [jPiece, Bool.and_eq_true] at hj
    have h1 := beq_rg hj.1.1
    have h2 := beq_rg hj.1.2
    subst h1; subst h2
    simp only [pieceSegs, specSegs, chain, Bool.and_eq_true, decide_eq_true_eq] at hc
    have wv := (hv v (by simp [pieceVals])).1
    simp only [cE, cO, depth, depthL] at hd
    have hdv : depth (cE ar v) < n := by omega
    obtain ⟨c1, e1, hc1⟩ := wv.2 n hdv c (by omega)
    cases n with
    | zero => omega
    | succ m =>
      have hdw : ∀ x ∈ cL ar ws, depth x ≤ m := fun x hx => by
        have := depth_le_depthL hx
        omega
      obtain ⟨c2, e2, hc2⟩ := piecesJ ar _ ws hj.2 (fun x hx => hv x (by simp [pieceVals, hx])) m hdw _ hi hc.2 c1 hc1
      refine ⟨c2, ?_, hc2⟩
      simp [cE, cO, ordPiece, cfg_constant, cfg_formatted, cfg_joined, offsT, lf, e1, isKind, ordJ, ordJoined, e2]
  | .name _ _, hj, _, _, _, _, _, _, _, _ => by simp [jPiece] at hj
  | .boolOp _ _ _, hj, _, _, _, _, _, _, _, _ => by simp [jPiece] at hj
  | .namedExpr _ _ _, hj, _, _, _, _, _, _, _, _ => by simp [jPiece] at hj
  | .binOp _ _ _ _, hj, _, _, _, _, _, _, _, _ => by simp [jPiece] at hj
  | .unaryOp _ _ _, hj, _, _, _, _, _, _, _, _ => by simp [jPiece] at hj
  | .lambda _ _ _ _ _ _ _ _, hj, _, _, _, _, _, _, _, _ => by simp [jPiece] at hj
  | .ifExp _ _ _ _, hj, _, _, _, _, _, _, _, _ => by simp [jPiece] at hj
  | .dict _ _, hj, _, _, _, _, _, _, _, _ => by simp [jPiece] at hj
  | .set _ _, hj, _, _, _, _, _, _, _, _ => by simp [jPiece] at hj
  | .listComp _ _ _, hj, _, _, _, _, _, _, _, _ => by simp [jPiece] at hj
  | .setComp _ _ _, hj, _, _, _, _, _, _, _, _ => by simp [jPiece] at hj
  | .dictComp _ _ _ _, hj, _, _, _, _, _, _, _, _ => by simp [jPiece] at hj
  | .genExp _ _ _, hj, _, _, _, _, _, _, _, _ => by simp [jPiece] at hj
  | .await _ _, hj, _, _, _, _, _, _, _, _ => by simp [jPiece] at hj
  | .yield _ _, hj, _, _, _, _, _, _, _, _ => by simp [jPiece] at hj
  | .yieldFrom _ _, hj, _, _, _, _, _, _, _, _ => by simp [jPiece] at hj
  | .compare _ _ _ _, hj, _, _, _, _, _, _, _, _ => by simp [jPiece] at hj
  | .call _ _ _ _, hj, _, _, _, _, _, _, _, _ => by simp [jPiece] at hj
  | .joinedStr _ _, hj, _, _, _, _, _, _, _, _ => by simp [jPiece] at hj
  | .attribute _ _ _, hj, _, _, _, _, _, _, _, _ => by simp [jPiece] at hj
  | .subscript _ _ _, hj, _, _, _, _, _, _, _, _ => by simp [jPiece] at hj
  | .starred _ _, hj, _, _, _, _, _, _, _, _ => by simp [jPiece] at hj
  | .list _ _, hj, _, _, _, _, _, _, _, _ => by simp [jPiece] at hj
  | .tuple _ _, hj, _, _, _, _, _, _, _, _ => by simp [jPiece] at hj
  | .slice _ _ _ _, hj, _, _, _, _, _, _, _, _ => by simp [jPiece] at hj
  | .formattedValue _ _ _ (some (.name _ _)), hj, _, _, _, _, _, _, _, _ => by simp [jPiece] at hj
  | .formattedValue _ _ _ (some (.const _ _)), hj, _, _, _, _, _, _, _, _ => by simp [jPiece] at hj
  | .formattedValue _ _ _ (some (.boolOp _ _ _)), hj, _, _, _, _, _, _, _, _ => by simp [jPiece] at hj
  | .formattedValue _ _ _ (some (.namedExpr _ _ _)), hj, _, _, _, _, _, _, _, _ => by simp [jPiece] at hj
  | .formattedValue _ _ _ (some (.binOp _ _ _ _)), hj, _, _, _, _, _, _, _, _ => by simp [jPiece] at hj
  | .formattedValue _ _ _ (some (.unaryOp _ _ _)), hj, _, _, _, _, _, _, _, _ => by simp [jPiece] at hj
  | .formattedValue _ _ _ (some (.lambda _ _ _ _ _ _ _ _)), hj, _, _, _, _, _, _, _, _ => by simp [jPiece] at hj
  | .formattedValue _ _ _ (some (.ifExp _ _ _ _)), hj, _, _, _, _, _, _, _, _ => by simp [jPiece] at hj
  | .formattedValue _ _ _ (some (.dict _ _)), hj, _, _, _, _, _, _, _, _ => by simp [jPiece] at hj
  | .formattedValue _ _ _ (some (.set _ _)), hj, _, _, _, _, _, _, _, _ => by simp [jPiece] at hj
  | .formattedValue _ _ _ (some (.listComp _ _ _)), hj, _, _, _, _, _, _, _, _ => by simp [jPiece] at hj
  | .formattedValue _ _ _ (some (.setComp _ _ _)), hj, _, _, _, _, _, _, _, _ => by simp [jPiece] at hj
  | .formattedValue _ _ _ (some (.dictComp _ _ _ _)), hj, _, _, _, _, _, _, _, _ => by simp [jPiece] at hj
  | .formattedValue _ _ _ (some (.genExp _ _ _)), hj, _, _, _, _, _, _, _, _ => by simp [jPiece] at hj
  | .formattedValue _ _ _ (some (.await _ _)), hj, _, _, _, _, _, _, _, _ => by simp [jPiece] at hj
  | .formattedValue _ _ _ (some (.yield _ _)), hj, _, _, _, _, _, _, _, _ => by simp [jPiece] at hj
  | .formattedValue _ _ _ (some (.yieldFrom _ _)), hj, _, _, _, _, _, _, _, _ => by simp [jPiece] at hj
  | .formattedValue _ _ _ (some (.compare _ _ _ _)), hj, _, _, _, _, _, _, _, _ => by simp [jPiece] at hj
  | .formattedValue _ _ _ (some (.call _ _ _ _)), hj, _, _, _, _, _, _, _, _ => by simp [jPiece] at hj
  | .formattedValue _ _ _ (some (.formattedValue _ _ _ _)), hj, _, _, _, _, _, _, _, _ => by simp [jPiece] at hj
  | .formattedValue _ _ _ (some (.attribute _ _ _)), hj, _, _, _, _, _, _, _, _ => by simp [jPiece] at hj
  | .formattedValue _ _ _ (some (.subscript _ _ _)), hj, _, _, _, _, _, _, _, _ => by simp [jPiece] at hj
  | .formattedValue _ _ _ (some (.starred _ _)), hj, _, _, _, _, _, _, _, _ => by simp [jPiece] at hj
  | .formattedValue _ _ _ (some (.list _ _)), hj, _, _, _, _, _, _, _, _ => by simp [jPiece] at hj
  | .formattedValue _ _ _ (some (.tuple _ _)), hj, _, _, _, _, _, _, _, _ => by simp [jPiece] at hj
  | .formattedValue _ _ _ (some (.slice _ _ _ _)), hj, _, _, _, _, _, _, _, _ => by simp [jPiece] at hj
theorem piecesJ (ar : Bool) (lit : Rg) : ∀ (vs : List RExpr), jPieces lit vs = true →
    (∀ v ∈ piecesVals vs, NW dom v.range (cE ar v)) → ∀ n, (∀ x ∈ cL ar vs, depth x ≤ n) → ∀ c0 hi,
    chain c0 (piecesSegs vs) hi = true → ∀ c, c ≤ c0 →
    ∃ c', ordSeq (ordPiece realCfg (ordT leB dom realCfg n .lin) (ordJ leB dom realCfg n lit) lit) c (cL ar vs) = some c'
      ∧ c' ≤ hi
  | [], _, _, _, _, c0, hi, hc, c, hcc =>
    ⟨c, rfl, by simp only [piecesSegs, chain, decide_eq_true_eq] at hc; omega⟩
  | p :: ps, hj, hv, n, hd, c0, hi, hc, c, hcc => by
    simp only [jPieces, Bool.and_eq_true] at hj
    simp only [piecesSegs] at hc
    obtain ⟨h1, h2⟩ := chain_split (pieceSegs p) (piecesSegs ps) c0 hi hc
    simp only [cL, List.forall_mem_cons] at hd
    obtain ⟨c1, e1, hc1⟩ := pieceJ ar lit p hj.1 (fun v hx => hv v (by simp [piecesVals, hx])) n hd.1 c0 _ h1 c hcc
    obtain ⟨c2, e2, hc2⟩ := piecesJ ar lit ps hj.2 (fun v hx => hv v (by simp [piecesVals, hx])) n hd.2 _ hi h2 c1 hc1
    exact ⟨c2, by simp [cL, ordSeq, e1, e2], hc2⟩
end

/-- **A `JoinedStr` whose pieces carry its range and whose replacement-field expressions, in visiting order, are
    walkable and chained between its start and its end is walkable by the `LinearLocator`**: what
    `LinearLocator::fold_expr_joined_str` does on the tree of one f-string token (`strings_single_fstr_jOrd`). -/
theorem ow_joined (ar : Bool) (rg : Rg) (vs : List RExpr) (hj : jPieces rg vs = true)
    (hv : ∀ v ∈ piecesVals vs, NW dom v.range (cE ar v)) (hc : chain rg.1 (piecesSegs vs) rg.2 = true)
    (hab : rg.1 ≤ rg.2) (da : dom rg.1 = true) (db : dom rg.2 = true) :
    OW dom rg.1 rg.2 (cE ar (.joinedStr rg vs)) := by
  refine ⟨hab, fun n hn c hcc => ?_⟩
  simp only [cE, depth, depthL] at hn
  cases n with
  | zero => omega
  | succ n =>
    cases n with
    | zero => omega
    | succ m =>
      have hdw : ∀ x ∈ cL ar vs, depth x ≤ m := fun x hx => by
        have := depth_le_depthL hx
        omega
      obtain ⟨c', e, hc'⟩ := piecesJ ar rg vs hj hv m hdw rg.1 rg.2 hc rg.1 (Nat.le_refl _)
      refine ⟨c', ?_, hc'⟩
      have l1 : leB c rg.1 = true := by simp [leB]; omega
      have l2 : leB rg.1 rg.2 = true := by simp [leB]; omega
      simp [cE, ordT, cfg_joined, l1, l2, da, db, ordJ, ordJoined, e]

end PV.C13
