import PV.C13.Model
import PV.C13.Spec
import PV.C13.Domain
import PV.C13.Lemmas
import PV.C13.Linear
import PV.C13.Fold
import PV.C13.Overrides
import PV.C13.FoldLemmas
import PV.C12.Thm
import PV.Common.Proto
/-
  C13 — property theorems.  Helper lemmas live in `PV/C13/Lemmas.lean` (line breaks, the indexed
  locator) and `PV/C13/Linear.lean` (the incremental locator); this file holds the statements a
  reader should compare with the property text.

  `src` is the UTF-8 byte list of the source.  `LineStartsOk src` is the one consequence of UTF-8
  validity that is used ("the byte after a line break, and after a leading BOM, starts a character");
  `validUtf8_lineStartsOk` derives it from a structural validity check.
  `dbg` selects a build with / without debug assertions and overflow checks; every theorem holds
  for both.

  Part 1 (call histories): the two locators on their own.
  Part 2 (trees): the located fold `foldLocated` of `PV/C13/Fold.lean` — the generated fold program
  regenerated from ast/src/gen/fold.rs plus the `LinearLocator` overrides of ast/src/source_locator.rs —
  on every tree that is `SrcOrdered`; generic in the fold configuration (`LocWF`), then instantiated
  on the regenerated program by `decide`.
-/
namespace PV.C13
open PV.C15 PV.C13.Spec

/-! ### the reference counts characters -/

/-- Counting first bytes counts characters: for every list of scalar values, the UTF-8 encoding
    has exactly one non-continuation byte per character. -/
theorem codePoints_utf8Encode (cs : List Nat) : codePoints (PV.utf8Encode cs) = cs.length := by
  unfold PV.utf8Encode codePoints
  induction cs with
  | nil => simp
  | cons c cs ih =>
    simp only [List.flatMap_cons, List.countP_append, ih, List.length_cons]
    have : List.countP isLead (PV.utf8EncodeNat c) = 1 := by
      unfold PV.utf8EncodeNat
      split
      next h => simp [isLead, h]
      · split
        next h =>
          have a : ¬ (128 + c % 64 < 128) := by omega
          have b : ¬ (192 ≤ 128 + c % 64) := by omega
          simp [isLead, a, b] <;> omega
        · split
          next h =>
            have a1 : ¬ (128 + c / 64 % 64 < 128) := by omega
            have b1 : ¬ (192 ≤ 128 + c / 64 % 64) := by omega
            have a2 : ¬ (128 + c % 64 < 128) := by omega
            have b2 : ¬ (192 ≤ 128 + c % 64) := by omega
            simp [isLead, List.countP_cons, a1, b1, a2, b2] <;> omega
          next h =>
            have a0 : ¬ (128 + c / 4096 % 64 < 128) := by omega
            have b0 : ¬ (192 ≤ 128 + c / 4096 % 64) := by omega
            have a1 : ¬ (128 + c / 64 % 64 < 128) := by omega
            have b1 : ¬ (192 ≤ 128 + c / 64 % 64) := by omega
            have a2 : ¬ (128 + c % 64 < 128) := by omega
            have b2 : ¬ (192 ≤ 128 + c % 64) := by omega
            simp [isLead, List.countP_cons, a0, b0, a1, b1, a2, b2] <;> omega
    omega

example : codePoints (PV.utf8Encode [0x61, 0xE9, 0x1F600, 0xFEFF]) = 4 := by decide

/-! ### the hypothesis on the text -/

/-- Valid UTF-8 puts every line start, and the offset after a leading BOM, on a character boundary. -/
theorem validUtf8_lineStartsOk {src : List Nat} (h : validUtf8 src = true) : LineStartsOk src := by
  have hafter := validUtf8_after_ascii h
  constructor
  · intro q hq
    have hb := breakEnds_bounds hq
    have hprev := breakEnds_prev hq
    simp only [Nat.sub_zero] at hprev
    unfold isBoundary
    split
    · rfl
    · split
      · rfl
      · split
        next c hc =>
          have e : q - 1 + 1 = q := by omega
          rcases hprev with hp | hp
          · have := hafter (q - 1) 10 c hp (by omega) (by rw [e]; exact hc); simp [this]
          · have := hafter (q - 1) 13 c hp (by omega) (by rw [e]; exact hc); simp [this]
        next hn =>
          have : q < src.length := by omega
          simp [List.getElem?_eq_getElem this] at hn
  · intro hb
    unfold startsWithBom at hb
    split at hb
    next tail =>
      have hv : validUtf8 tail = true := by
        simp [validUtf8] at h; exact h.2
      cases tail with
      | nil => simp [isBoundary]
      | cons t ts => simp [isBoundary, validUtf8_head hv]
    · simp at hb

example : LineStartsOk [0xEF, 0xBB, 0xBF, 0xC3, 0xA9, 13, 10, 0xF0, 0x9F, 0x98, 0x80, 10] :=
  validUtf8_lineStartsOk (by decide)

/-! ### the indexed locator -/

/-- `RandomLocator::locate` (`LineIndex::source_location`) returns the reference row and column on
    every character-boundary offset. -/
theorem random_eq_spec {src : List Nat} (hs : LineStartsOk src) {off : Nat}
    (hb : isBoundary src off = true) : randomLocate src off = some (rowCol src off) :=
  randomLocate_eq_rowCol hs hb

example : randomLocate [0xEF, 0xBB, 0xBF, 0xC3, 0xA9, 13, 10, 0xF0, 0x9F, 0x98, 0x80, 10] 11 = some (2, 2) := by decide

/-! ### the incremental locator -/

/-- Every forward history of `locate` / `locate_only` / `locate_error` calls on a `LinearLocator`
    returns, call by call, the reference row and column (and never panics). -/
theorem linear_eq_spec (dbg : Bool) {src : List Nat} (hs : LineStartsOk src) (ops : List Op)
    (h : Forward src (initCursor src) ops) :
    run dbg src ops = ops.map (fun op => some (rowCol src op.off)) := by
  unfold run
  rw [init_eq_stateAt]
  exact runFrom_eq hs dbg ops _ (curOk_init hs) h

/-- The same for a text given as valid UTF-8. -/
theorem linear_eq_spec_utf8 (dbg : Bool) {src : List Nat} (hv : validUtf8 src = true) (ops : List Op)
    (h : Forward src (initCursor src) ops) :
    run dbg src ops = ops.map (fun op => some (rowCol src op.off)) :=
  linear_eq_spec dbg (validUtf8_lineStartsOk hv) ops h

/-- The form with a plain list of offsets: non-decreasing, in the domain, not inside a leading BOM. -/
theorem linear_eq_spec_monotone (dbg : Bool) {src : List Nat} (hs : LineStartsOk src) (offs : List Nat)
    (hmono : offs.Pairwise (· ≤ ·)) (hdom : ∀ o ∈ offs, InDomain src o)
    (hfirst : ∀ o ∈ offs, initCursor src ≤ o) :
    run dbg src (offs.map Op.locate) = offs.map (fun o => some (rowCol src o)) := by
  have hf : ∀ (offs : List Nat) (c : Nat), offs.Pairwise (· ≤ ·) → (∀ o ∈ offs, InDomain src o) →
      (∀ o ∈ offs, c ≤ o) → Forward src c (offs.map Op.locate) := by
    intro offs
    induction offs with
    | nil => intros; trivial
    | cons o rest ih =>
      intro c hp hd hc
      rw [List.pairwise_cons] at hp
      exact ⟨hc o (by simp), hd o (by simp),
        ih o hp.2 (fun x hx => hd x (by simp [hx])) (fun x hx => hp.1 x hx)⟩
  have := linear_eq_spec dbg hs (offs.map Op.locate) (hf offs _ hmono hdom hfirst)
  simpa [List.map_map, Function.comp_def, Op.off] using this

/-- The two locators agree on every forward history. -/
theorem linear_eq_random (dbg : Bool) {src : List Nat} (hs : LineStartsOk src) (ops : List Op)
    (h : Forward src (initCursor src) ops) (hb : ∀ op ∈ ops, isBoundary src op.off = true) :
    run dbg src ops = ops.map (fun op => randomLocate src op.off) := by
  rw [linear_eq_spec dbg hs ops h]
  apply List.map_congr_left
  intro op hop
  rw [random_eq_spec hs (hb op hop)]

/-- `locate_only` never changes the locator's state (whatever it returns). -/
theorem locateOnly_pure (dbg : Bool) (src : List Nat) (st : St) (off : Nat) :
    (step dbg src st (.locateOnly off)).2 = st := rfl

/-- a forward history on a text with a BOM, CRLF, a lone CR and multi-byte characters:
    `é`, CR LF, emoji, CR, `a` -/
example : Forward [0xEF, 0xBB, 0xBF, 0xC3, 0xA9, 13, 10, 0xF0, 0x9F, 0x98, 0x80, 13, 0x61]
    (initCursor [0xEF, 0xBB, 0xBF, 0xC3, 0xA9, 13, 10, 0xF0, 0x9F, 0x98, 0x80, 13, 0x61])
    [.locate 3, .locateOnly 12, .locate 5, .locate 7, .locate 11, .locate 13] := by decide

example : run true [0xEF, 0xBB, 0xBF, 0xC3, 0xA9, 13, 10, 0xF0, 0x9F, 0x98, 0x80, 13, 0x61]
    [.locate 3, .locateOnly 12, .locate 5, .locate 7, .locate 11, .locate 13]
    = [some (1, 1), some (3, 1), some (1, 2), some (2, 1), some (2, 2), some (3, 2)] := by decide

/-! ### what the incremental locator needs, and what happens without it -/

/-- The property asks for more: the right answer for the nodes of every tree *whatever order they
    appear in*, i.e. for every history of boundary offsets. -/
def linear_any_order_full : Prop :=
  ∀ (dbg : Bool) (src : List Nat) (ops : List Op), LineStartsOk src →
    (∀ op ∈ ops, InDomain src op.off) →
    run dbg src ops = ops.map (fun op => some (rowCol src op.off))

/-- `"a\nb"`: locating offset 2 and then offset 0. A debug build panics on the second call; a
    release build answers row 2, column 2^32 - 1 where the text says row 1, column 1. -/
theorem linear_requires_order :
    run true [0x61, 10, 0x62] [.locate 2, .locate 0] = [some (2, 1), none] ∧
    run false [0x61, 10, 0x62] [.locate 2, .locate 0] = [some (2, 1), some (2, 4294967295)] ∧
    rowCol [0x61, 10, 0x62] 0 = (1, 1) := by decide

/-- `class A(x=1, *b): pass\n` -/
def classdefText : List Nat :=
  [99, 108, 97, 115, 115, 32, 65, 40, 120, 61, 49, 44, 32, 42, 98, 41, 58, 32, 112, 97, 115, 115, 10]

/-- The call sequence the real `LinearLocator` performs on `class A(x=1, *b): pass\n` (recorded through
    the hook; since /repo 505c970 the class keywords are located by look-ahead before the bases): it
    is a forward history, so `linear_eq_spec` applies, and every call returns the reference position. -/
theorem classdef_keyword_before_starred_base_forward :
    Forward classdefText (initCursor classdefText)
      [.locate 0, .locateOnly 8, .locateOnly 10, .locateOnly 11, .locateOnly 11, .locate 13, .locate 14,
       .locate 15, .locate 15, .locate 18, .locate 22, .locate 22] ∧
    run true classdefText
      [.locate 0, .locateOnly 8, .locateOnly 10, .locateOnly 11, .locateOnly 11, .locate 13, .locate 14,
       .locate 15, .locate 15, .locate 18, .locate 22, .locate 22]
    = [some (1, 1), some (1, 9), some (1, 11), some (1, 12), some (1, 12), some (1, 14), some (1, 15),
       some (1, 16), some (1, 16), some (1, 19), some (1, 23), some (1, 23)] := by decide

/-- About the model only (no longer a history the code produces): the sequence the fold performed on
    the same text *before* /repo 505c970 (bases folded before keywords) goes back from offset 15 to
    offset 8 and ends in a panic. -/
example :
    run true classdefText [.locate 0, .locate 13, .locate 14, .locate 15, .locate 15, .locate 8]
    = [some (1, 1), some (1, 14), some (1, 15), some (1, 16), some (1, 16), none] := by decide

theorem linear_any_order_fails : ¬ linear_any_order_full := by
  intro h
  have := h true [0x61, 10, 0x62] [.locate 2, .locate 0] (validUtf8_lineStartsOk (by decide)) (by decide)
  rw [linear_requires_order.1] at this
  simp at this


/-! ## Part 2 — trees: the located fold

  `cfg : LocCfg` = the generated fold program + the overrides of `LinearLocator`; `LocWF cfg sch` = every
  `fold_<kind>` calls both range callbacks and folds every field of its kind; `Conforms sch t` = the tree
  is typed by the schema (checked by the driver on every real tree).
  `SrcOrdered cfg src t` (`PV/C13/Fold.lean`, decidable): walking `t` the way `LinearLocator::fold` does,
  with a cursor that starts after a leading BOM — every node starts at or after the cursor (for the
  children folded before `will_map_user`, e.g. decorators: after them), its children, in fold order,
  each start at or after the end of the previous one, the node ends at or after its last child; nodes
  located by look-ahead (call / class keywords, the end of an f-string) lie at or after the cursor and
  do not move it; f-string pieces carry the range of the whole `JoinedStr`; every offset is `InDomain`. -/

open PV.C12 (Tree Schema Conforms)

/-- The calls `LinearLocator::fold` makes on a `SrcOrdered` tree form a forward history. -/
theorem locHistory_forward {cfg : LocCfg} {sch : Schema} (hwf : LocWF cfg sch) {src : List Nat} {t : Tree}
    (hc : Conforms sch t) (ho : SrcOrdered cfg src t) :
    ∃ h, locHistory cfg t = some h ∧ Forward src (initCursor src) h := by
  obtain ⟨c', hc'⟩ := srcOrdered_iff.mp ho
  obtain ⟨log, hf, hI, _⟩ := (sim_fold recL _ _ leB _ (rec_spec src (initCursor src)) hwf (depth t + 1)).1 .lin t
    (Nat.lt_succ_self _) (conf_of_conforms hc) (initCursor src) c' [] ⟨by simp [Forward], by simp [endCur]⟩ hc'
  exact ⟨log.reverse, by simp [locHistory, hf], hI⟩

/-- … hence every one of those calls returns the reference row and column (`linear_eq_spec`). -/
theorem locHistory_results {cfg : LocCfg} {sch : Schema} (hwf : LocWF cfg sch) (dbg : Bool) {src : List Nat}
    (hs : LineStartsOk src) {t : Tree} (hc : Conforms sch t) (ho : SrcOrdered cfg src t) :
    ∃ h, locHistory cfg t = some h ∧ run dbg src h = h.map (fun op => some (rowCol src op.off)) := by
  obtain ⟨h, h1, h2⟩ := locHistory_forward hwf hc ho
  exact ⟨h, h1, linear_eq_spec dbg hs h h2⟩

/-- **First sentence of the property, at tree level.**  Folding a `SrcOrdered` tree with the
    `LinearLocator` (either build flavour) does not panic and stores in every node the reference
    (row, column) of its start and of its end. -/
theorem fold_locations_eq_spec {cfg : LocCfg} {sch : Schema} (hwf : LocWF cfg sch) (dbg : Bool) {src : List Nat}
    (hs : LineStartsOk src) {t : Tree} (hc : Conforms sch t) (ho : SrcOrdered cfg src t) :
    foldLocated cfg (.linear dbg) src t = some (locMap (rowCol src) t) := by
  obtain ⟨c', hc'⟩ := srcOrdered_iff.mp ho
  obtain ⟨st, hf, _⟩ := (sim_fold (linearL dbg src) _ _ leB _ (linear_spec hs dbg) hwf (depth t + 1)).1 .lin t
    (Nat.lt_succ_self _) (conf_of_conforms hc) (initCursor src) c' (St.init src)
    ⟨init_eq_stateAt src, curOk_init hs⟩ hc'
  simp [foldLocated, hf]

/-- The `RandomLocator` stores the reference positions in every node of ANY tree whose offsets are
    character boundaries, whatever their order. -/
theorem fold_random_eq_spec {cfg : LocCfg} {sch : Schema} (hwf : LocWF cfg sch) {src : List Nat}
    (hs : LineStartsOk src) {t : Tree} (hc : Conforms sch t) (hb : ∀ o ∈ offsT t, isBoundary src o = true) :
    foldLocated cfg .random src t = some (locMap (rowCol src) t) := by
  obtain ⟨c', hc'⟩ := ordGen_of_allDom (isBoundary src) hwf (depth t + 1) t 0 (Nat.lt_succ_self _) (conf_of_conforms hc) hb
  obtain ⟨st, hf, _⟩ := (sim_fold (randomL src) _ _ _ _ (random_spec hs) hwf (depth t + 1)).1 .gen t
    (Nat.lt_succ_self _) (conf_of_conforms hc) 0 c' () trivial hc'
  simp [foldLocated, hf]

/-- every offset of a `SrcOrdered` tree is in the domain (the fold visits every node) -/
theorem srcOrdered_inDomain {cfg : LocCfg} {sch : Schema} (hwf : LocWF cfg sch) {src : List Nat} {t : Tree}
    (hc : Conforms sch t) (ho : SrcOrdered cfg src t) : ∀ o ∈ offsT t, InDomain src o := by
  obtain ⟨c', hc'⟩ := srcOrdered_iff.mp ho
  intro o hoo
  have := (allDom_ord leB (fun o => decide (InDomain src o)) hwf (depth t + 1)).1 .lin t _ _
    (Nat.lt_succ_self _) (conf_of_conforms hc) hc' o hoo
  simpa using this

/-- **Second sentence of the property, at tree level.**  On a `SrcOrdered` tree the incremental and the
    indexed locator produce the same located tree. -/
theorem fold_linear_eq_random {cfg : LocCfg} {sch : Schema} (hwf : LocWF cfg sch) (dbg : Bool) {src : List Nat}
    (hs : LineStartsOk src) {t : Tree} (hc : Conforms sch t) (ho : SrcOrdered cfg src t) :
    foldLocated cfg (.linear dbg) src t = foldLocated cfg .random src t := by
  rw [fold_locations_eq_spec hwf dbg hs hc ho,
    fold_random_eq_spec hwf hs hc (fun o hoo => (srcOrdered_inDomain hwf hc ho o hoo).1)]

/-! ### the regenerated fold program -/

/-- Regenerated obligation: the fold program read from ast/src/gen/fold.rs on this run, with the
    overrides of `LinearLocator`, is well-formed. -/
theorem locWF_gen : LocWF realCfg PV.C12.Gen.schema := by decide +kernel

theorem locHistory_forward_gen {src : List Nat} {t : Tree} (hc : Conforms PV.C12.Gen.schema t)
    (ho : SrcOrdered realCfg src t) : ∃ h, locHistory realCfg t = some h ∧ Forward src (initCursor src) h :=
  locHistory_forward locWF_gen hc ho

/-- the property for the real node kinds and the real fold order -/
theorem fold_locations_eq_spec_gen (dbg : Bool) {src : List Nat} (hs : LineStartsOk src) {t : Tree}
    (hc : Conforms PV.C12.Gen.schema t) (ho : SrcOrdered realCfg src t) :
    foldLocated realCfg (.linear dbg) src t = some (locMap (rowCol src) t) :=
  fold_locations_eq_spec locWF_gen dbg hs hc ho

theorem fold_linear_eq_random_gen (dbg : Bool) {src : List Nat} (hs : LineStartsOk src) {t : Tree}
    (hc : Conforms PV.C12.Gen.schema t) (ho : SrcOrdered realCfg src t) :
    foldLocated realCfg (.linear dbg) src t = foldLocated realCfg .random src t :=
  fold_linear_eq_random locWF_gen dbg hs hc ho

/-! ### non-vacuity: real trees (leaf texts shortened to one character) -/

/-- a `Name` node -/
def nm (a b : Nat) : Tree := .node 55 (some (a, b)) [.leaf [], .leaf []]
/-- an integer `Constant` node -/
def num (a b : Nat) : Tree := .node 51 (some (a, b)) [.leaf [49], .none]

/-- the tree the parser builds for `class A(x=1, *b): pass\n` -/
def classdefTree : Tree :=
  .node 0 none [.list [.node 6 (some (0, 22)) [.leaf [65],
    .list [.node 54 (some (13, 15)) [nm 14 15, .leaf []]],
    .list [.node 62 (some (8, 11)) [.some (.leaf [120]), num 10 11]],
    .list [.node 29 (some (18, 22)) []], .list [], .list []]], .list []]

/-- BOM `é = f(k=1, *b)` CR LF `x = {**c, 1: d if e else g}` CR `class A(m=M, *b): pass` LF -/
def richText : List Nat :=
  [239, 187, 191, 195, 169, 32, 61, 32, 102, 40, 107, 61, 49, 44, 32, 42, 98, 41, 13, 10, 120, 32, 61, 32, 123, 42,
   42, 99, 44, 32, 49, 58, 32, 100, 32, 105, 102, 32, 101, 32, 101, 108, 115, 101, 32, 103, 125, 13, 99, 108, 97,
   115, 115, 32, 65, 40, 109, 61, 77, 44, 32, 42, 98, 41, 58, 32, 112, 97, 115, 115, 10]

/-- the tree the parser builds for `richText`: a call with a keyword before a starred argument, a dict
    with unpacking, a conditional expression, a class with a keyword before a starred base — all of
    them in tree order ≠ source order -/
def richTree : Tree :=
  .node 0 none [.list [
    .node 9 (some (3, 18)) [.list [nm 3 5],
      .node 48 (some (8, 18)) [nm 8 9, .list [.node 54 (some (15, 17)) [nm 16 17, .leaf []]],
        .list [.node 62 (some (10, 13)) [.some (.leaf [107]), num 12 13]]], .none],
    .node 9 (some (20, 47)) [.list [nm 20 21],
      .node 38 (some (24, 47)) [.list [.none, .some (num 30 31)],
        .list [nm 27 28, .node 37 (some (33, 46)) [nm 38 39, nm 33 34, nm 45 46]]], .none],
    .node 6 (some (48, 70)) [.leaf [65], .list [.node 54 (some (61, 63)) [nm 62 63, .leaf []]],
      .list [.node 62 (some (56, 59)) [.some (.leaf [109]), nm 58 59]],
      .list [.node 29 (some (66, 70)) []], .list [], .list []]], .list []]

example : LineStartsOk richText := validUtf8_lineStartsOk (by decide)
example : Conforms PV.C12.Gen.schema richTree := by decide
example : SrcOrdered realCfg richText richTree := by decide
/-- tree (pre-)order is not source order here: the offsets in `derive(Debug)` order go back and forth -/
example : ¬ (offsT richTree).Pairwise (· ≤ ·) := by decide
example : (foldLocated realCfg (.linear true) richText richTree).map LTree.ranges =
    some [((1, 1), (1, 15)), ((1, 1), (1, 2)), ((1, 5), (1, 15)), ((1, 5), (1, 6)), ((1, 12), (1, 14)), ((1, 13), (1, 14)),
      ((1, 7), (1, 10)), ((1, 9), (1, 10)), ((2, 1), (2, 28)), ((2, 1), (2, 2)), ((2, 5), (2, 28)), ((2, 11), (2, 12)),
      ((2, 8), (2, 9)), ((2, 14), (2, 27)), ((2, 19), (2, 20)), ((2, 14), (2, 15)), ((2, 26), (2, 27)), ((3, 1), (3, 23)),
      ((3, 14), (3, 16)), ((3, 15), (3, 16)), ((3, 9), (3, 12)), ((3, 11), (3, 12)), ((3, 19), (3, 23))] := by decide
example : foldLocated realCfg (.linear false) richText richTree = foldLocated realCfg .random richText richTree :=
  fold_linear_eq_random_gen false (validUtf8_lineStartsOk (by decide)) (by decide) (by decide)

/-- the history of the model on `class A(x=1, *b): pass\n` is the one recorded from the real fold
    (`classdef_keyword_before_starred_base_forward`) -/
example : locHistory realCfg classdefTree =
    some [.locate 0, .locateOnly 8, .locateOnly 10, .locateOnly 11, .locateOnly 11, .locate 13, .locate 14,
       .locate 15, .locate 15, .locate 18, .locate 22, .locate 22] := by decide
example : SrcOrdered realCfg classdefText classdefTree := by decide

/-! ### what happens on trees that are not `SrcOrdered` -/

/-- `fold_stmt_class_def` as it was before /repo 505c970: bases, then keywords, both by `locate` -/
def oldClassCfg : LocCfg :=
  { realCfg with ov := realCfg.ov.map fun kp =>
      if kp.1 == 6 then (6, ⟨[.fold 4], [.fold 0, .fold 5, .fold 1, .fold 2, .fold 3], true⟩) else kp }

/-- `class A(\n  metaclass=M,\n  *bases): pass\n` -/
def classdef2Text : List Nat :=
  [99, 108, 97, 115, 115, 32, 65, 40, 10, 32, 32, 109, 101, 116, 97, 99, 108, 97, 115, 115, 61, 77, 44, 10, 32, 32,
   42, 98, 97, 115, 101, 115, 41, 58, 32, 112, 97, 115, 115, 10]

def classdef2Tree : Tree :=
  .node 0 none [.list [.node 6 (some (0, 39)) [.leaf [65],
    .list [.node 54 (some (26, 32)) [nm 27 32, .leaf []]],
    .list [.node 62 (some (11, 22)) [.some (.leaf [109]), nm 21 22]],
    .list [.node 29 (some (35, 39)) []], .list [], .list []]], .list []]

/-- The old fold order is still a well-formed fold program (every field folded, callbacks called) — it
    is the TREES that matter: with it, the class-keyword trees are not `SrcOrdered`; a debug build panics
    in the fold, a release build stores row 3, column 2^32 - 12 for a keyword that is at row 2, column 3,
    while the `RandomLocator` is right.  With the real fold order the same trees are `SrcOrdered`. -/
theorem fold_requires_order :
    LocWF oldClassCfg PV.C12.Gen.schema ∧
    ¬ SrcOrdered oldClassCfg classdefText classdefTree ∧
    foldLocated oldClassCfg (.linear true) classdefText classdefTree = none ∧
    ¬ SrcOrdered oldClassCfg classdef2Text classdef2Tree ∧
    (foldLocated oldClassCfg (.linear false) classdef2Text classdef2Tree).map LTree.ranges =
      some [((1, 1), (3, 16)), ((3, 3), (3, 9)), ((3, 4), (3, 9)), ((3, 4294967284), (3, 4294967295)),
        ((3, 4294967294), (3, 4294967295)), ((3, 12), (3, 16))] ∧
    (foldLocated oldClassCfg .random classdef2Text classdef2Tree).map LTree.ranges =
      some [((1, 1), (3, 16)), ((3, 3), (3, 9)), ((3, 4), (3, 9)), ((2, 3), (2, 14)), ((2, 13), (2, 14)), ((3, 12), (3, 16))] ∧
    SrcOrdered realCfg classdefText classdefTree ∧ SrcOrdered realCfg classdef2Text classdef2Tree := by
  refine ⟨by decide +kernel, by decide, by decide, by decide, by decide, by decide, by decide, by decide⟩

/-- What the property literally asks for: both locators agree on EVERY conforming tree whose offsets are
    in the domain, "whatever order the tree's nodes appear in the source". -/
def fold_any_order_full : Prop :=
  ∀ (dbg : Bool) (src : List Nat) (t : Tree), LineStartsOk src → Conforms PV.C12.Gen.schema t →
    (∀ o ∈ offsT t, InDomain src o ∧ initCursor src ≤ o) →
    foldLocated realCfg (.linear dbg) src t = foldLocated realCfg .random src t

/-- `a + b` with the operands exchanged in the tree (left operand ranged 4..5, right operand 0..1): every range is
    sane and enclosed in its parent's, but the fold visits the left operand first. -/
def swappedBinop : Tree :=
  .node 0 none [.list [.node 28 (some (0, 5)) [.node 34 (some (0, 5)) [nm 4 5, .leaf [], nm 0 1]]], .list []]

/-- It does not hold: the `LinearLocator` needs the tree in fold order. -/
theorem fold_any_order_fails : ¬ fold_any_order_full := by
  intro h
  have := h true [97, 32, 43, 32, 98] swappedBinop (validUtf8_lineStartsOk (by decide)) (by decide) (by decide)
  have e1 : foldLocated realCfg (.linear true) [97, 32, 43, 32, 98] swappedBinop = none := by decide
  have e2 : (foldLocated realCfg .random [97, 32, 43, 32, 98] swappedBinop).isSome = true := by decide
  rw [← this, e1] at e2
  simp at e2

/-- `SrcOrdered` is not a consequence of C02-style facts (every range sane, inside its parent's range, list
    elements in order): `swappedBinop` has all of them.  What it adds is "the fields, in FOLD order, are in
    source order", per node kind. -/
def enclosedB : Option (Nat × Nat) → Tree → Bool
  | par, .node _ r fs =>
    let own := match r with
      | some (a, b) => decide (a ≤ b) && (match par with | some (pa, pb) => decide (pa ≤ a) && decide (b ≤ pb) | none => true)
      | none => true
    own && (offsL fs).all fun o => match r.orElse (fun _ => par) with | some (pa, pb) => decide (pa ≤ o) && decide (o ≤ pb) | none => true
  | _, _ => true

example : enclosedB none swappedBinop = true ∧ ¬ SrcOrdered realCfg [97, 32, 43, 32, 98] swappedBinop := by decide


/-! ### the listed finding `linear-fstring-concat-piece-range`, at model level -/

/-- `f'{x}' f'{y}'\n` -/
def fconcatText : List Nat := [102, 39, 123, 120, 125, 39, 32, 102, 39, 123, 121, 125, 39, 10]

/-- the tree the parser builds for it: the two `FormattedValue` pieces carry the ranges of their own
    literals (0..6, 7..13), not the range of the `JoinedStr` (0..13) -/
def fconcatTree : Tree :=
  .node 0 none [.list [.node 28 (some (0, 13)) [.node 50 (some (0, 13)) [.list [
    .node 49 (some (0, 6)) [nm 3 4, .leaf [], .none],
    .node 49 (some (7, 13)) [nm 10 11, .leaf [], .none]]]]], .list []]

/-- The fold is forward, nothing panics — but `linear_locate_expr_joined_str` stores the location of the
    whole f-string (1,1-1,14) in both pieces, where the `RandomLocator` stores 1,1-1,7 and 1,8-1,14: the
    tree is not `SrcOrdered` (a piece does not carry the range whose location it receives), and the two
    locators disagree. -/
theorem fstring_concat_pieces :
    ¬ SrcOrdered realCfg fconcatText fconcatTree ∧
    (∃ h, locHistory realCfg fconcatTree = some h ∧ Forward fconcatText (initCursor fconcatText) h) ∧
    (foldLocated realCfg (.linear true) fconcatText fconcatTree).map LTree.ranges =
      some [((1, 1), (1, 14)), ((1, 1), (1, 14)), ((1, 1), (1, 14)), ((1, 4), (1, 5)), ((1, 1), (1, 14)), ((1, 11), (1, 12))] ∧
    (foldLocated realCfg .random fconcatText fconcatTree).map LTree.ranges =
      some [((1, 1), (1, 14)), ((1, 1), (1, 14)), ((1, 1), (1, 7)), ((1, 4), (1, 5)), ((1, 8), (1, 14)), ((1, 11), (1, 12))] := by
  refine ⟨by decide, ⟨[.locate 0, .locate 0, .locateOnly 13, .locate 3, .locate 4, .locate 10, .locate 11, .locate 13],
    by decide, by decide⟩, by decide, by decide⟩

/-- How `SrcOrdered` reads node by node (the link with C02's `rangesOk`, which states "start ≤ end, inside the
    parent, list elements in order"): for a range-carrying node that is not located by look-ahead and whose
    `fold_<kind>` folds nothing before `will_map_user`, being ordered from a cursor `c` splits into
    "the node starts at or after `c`" (the previous sibling IN FOLD ORDER ended before it) and "the node is
    ordered from its own start" (its children, in fold order, lie between its start and its end). -/
theorem ordT_node_split (le : Nat → Nat → Bool) (dom : Nat → Bool) (cfg : LocCfg) (hrefl : ∀ a, le a a = true)
    (n : Nat) (m : Mode) (hm : m ≠ .look) (k a b : Nat) (fs : List Tree) (c : Nat)
    (hpre : ∀ plan, cfg.planOf m k = some plan → plan.pre = []) :
    ordT le dom cfg (n + 1) m c (.node k (some (a, b)) fs) =
      if le c a then ordT le dom cfg (n + 1) m a (.node k (some (a, b)) fs) else none := by
  have hcur : ∀ x, curAfter m x a = a := by intro x; cases m <;> simp_all [curAfter]
  simp only [ordT]
  by_cases hj : (m == Mode.lin && k == cfg.joined) = true
  · simp only [hj, ↓reduceIte, hrefl]
    cases le c a <;> simp
  · simp only [hj, Bool.false_eq_true, ↓reduceIte]
    cases hp : cfg.planOf m k with
    | none => simp
    | some plan =>
      simp only [ordNode, hpre plan hp, ordSteps, hcur, hrefl]
      cases le c a <;> simp

/-- e.g. a `BinOp` (generated fold, no override): nothing is folded before `will_map_user` -/
example (c a b : Nat) (fs : List Tree) (n : Nat) :
    ordT leB (fun _ => true) realCfg (n + 1) .lin c (.node 34 (some (a, b)) fs) =
      if leB c a then ordT leB (fun _ => true) realCfg (n + 1) .lin a (.node 34 (some (a, b)) fs) else none :=
  ordT_node_split leB _ realCfg (by simp [leB]) n .lin (by decide) 34 a b fs c (by intro plan h; cases h; rfl)

end PV.C13
