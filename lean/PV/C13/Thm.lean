import PV.C13.Model
import PV.C13.Spec
namespace PV.C13
end PV.C13
