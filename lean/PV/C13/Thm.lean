import PV.C13.Model
import PV.C13.Spec
import PV.C13.Domain
import PV.C13.Lemmas
import PV.C13.Linear
import PV.Common.Proto
/-
  C13 — property theorems.  Helper lemmas live in `PV/C13/Lemmas.lean` (line breaks, the indexed
  locator) and `PV/C13/Linear.lean` (the incremental locator); this file holds the statements a
  reader should compare with the property text.

  `src` is the UTF-8 byte list of the source.  `LineStartsOk src` is the one consequence of UTF-8
  validity that is used ("the byte after a line break, and after a leading BOM, starts a character");
  `validUtf8_lineStartsOk` derives it from a structural validity check.
  `dbg` selects a build with / without debug assertions and overflow checks; every theorem holds
  for both.
-/
namespace PV.C13
open PV.C15 PV.C13.Spec

/-! ### the reference counts characters -/

/-- Counting first bytes counts characters: for every list of scalar values, the UTF-8 encoding
    has exactly one non-continuation byte per character. -/
theorem codePoints_utf8Encode (cs : List Nat) : codePoints (PV.utf8Encode cs) = cs.length := by
  unfold PV.utf8Encode codePoints
  induction cs with
  | nil => simp
  | cons c cs ih =>
    simp only [List.flatMap_cons, List.countP_append, ih, List.length_cons]
    have : List.countP isLead (PV.utf8EncodeNat c) = 1 := by
      unfold PV.utf8EncodeNat
      split
      next h => simp [isLead, h]
      · split
        next h =>
          have a : ¬ (128 + c % 64 < 128) := by omega
          have b : ¬ (192 ≤ 128 + c % 64) := by omega
          simp [isLead, a, b] <;> omega
        · split
          next h =>
            have a1 : ¬ (128 + c / 64 % 64 < 128) := by omega
            have b1 : ¬ (192 ≤ 128 + c / 64 % 64) := by omega
            have a2 : ¬ (128 + c % 64 < 128) := by omega
            have b2 : ¬ (192 ≤ 128 + c % 64) := by omega
            simp [isLead, List.countP_cons, a1, b1, a2, b2] <;> omega
          next h =>
            have a0 : ¬ (128 + c / 4096 % 64 < 128) := by omega
            have b0 : ¬ (192 ≤ 128 + c / 4096 % 64) := by omega
            have a1 : ¬ (128 + c / 64 % 64 < 128) := by omega
            have b1 : ¬ (192 ≤ 128 + c / 64 % 64) := by omega
            have a2 : ¬ (128 + c % 64 < 128) := by omega
            have b2 : ¬ (192 ≤ 128 + c % 64) := by omega
            simp [isLead, List.countP_cons, a0, b0, a1, b1, a2, b2] <;> omega
    omega

example : codePoints (PV.utf8Encode [0x61, 0xE9, 0x1F600, 0xFEFF]) = 4 := by decide

/-! ### the hypothesis on the text -/

/-- Valid UTF-8 puts every line start, and the offset after a leading BOM, on a character boundary. -/
theorem validUtf8_lineStartsOk {src : List Nat} (h : validUtf8 src = true) : LineStartsOk src := by
  have hafter := validUtf8_after_ascii h
  constructor
  · intro q hq
    have hb := breakEnds_bounds hq
    have hprev := breakEnds_prev hq
    simp only [Nat.sub_zero] at hprev
    unfold isBoundary
    split
    · rfl
    · split
      · rfl
      · split
        next c hc =>
          have e : q - 1 + 1 = q := by omega
          rcases hprev with hp | hp
          · have := hafter (q - 1) 10 c hp (by omega) (by rw [e]; exact hc); simp [this]
          · have := hafter (q - 1) 13 c hp (by omega) (by rw [e]; exact hc); simp [this]
        next hn =>
          have : q < src.length := by omega
          simp [List.getElem?_eq_getElem this] at hn
  · intro hb
    unfold startsWithBom at hb
    split at hb
    next tail =>
      have hv : validUtf8 tail = true := by
        simp [validUtf8] at h; exact h.2
      cases tail with
      | nil => simp [isBoundary]
      | cons t ts => simp [isBoundary, validUtf8_head hv]
    · simp at hb

example : LineStartsOk [0xEF, 0xBB, 0xBF, 0xC3, 0xA9, 13, 10, 0xF0, 0x9F, 0x98, 0x80, 10] :=
  validUtf8_lineStartsOk (by decide)

/-! ### the indexed locator -/

/-- `RandomLocator::locate` (`LineIndex::source_location`) returns the reference row and column on
    every character-boundary offset. -/
theorem random_eq_spec {src : List Nat} (hs : LineStartsOk src) {off : Nat}
    (hb : isBoundary src off = true) : randomLocate src off = some (rowCol src off) :=
  randomLocate_eq_rowCol hs hb

example : randomLocate [0xEF, 0xBB, 0xBF, 0xC3, 0xA9, 13, 10, 0xF0, 0x9F, 0x98, 0x80, 10] 11 = some (2, 2) := by decide

/-! ### the incremental locator -/

/-- Every forward history of `locate` / `locate_only` / `locate_error` calls on a `LinearLocator`
    returns, call by call, the reference row and column (and never panics). -/
theorem linear_eq_spec (dbg : Bool) {src : List Nat} (hs : LineStartsOk src) (ops : List Op)
    (h : Forward src (initCursor src) ops) :
    run dbg src ops = ops.map (fun op => some (rowCol src op.off)) := by
  unfold run
  rw [init_eq_stateAt]
  exact runFrom_eq hs dbg ops _ (curOk_init hs) h

/-- The same for a text given as valid UTF-8. -/
theorem linear_eq_spec_utf8 (dbg : Bool) {src : List Nat} (hv : validUtf8 src = true) (ops : List Op)
    (h : Forward src (initCursor src) ops) :
    run dbg src ops = ops.map (fun op => some (rowCol src op.off)) :=
  linear_eq_spec dbg (validUtf8_lineStartsOk hv) ops h

/-- The form with a plain list of offsets: non-decreasing, in the domain, not inside a leading BOM. -/
theorem linear_eq_spec_monotone (dbg : Bool) {src : List Nat} (hs : LineStartsOk src) (offs : List Nat)
    (hmono : offs.Pairwise (· ≤ ·)) (hdom : ∀ o ∈ offs, InDomain src o)
    (hfirst : ∀ o ∈ offs, initCursor src ≤ o) :
    run dbg src (offs.map Op.locate) = offs.map (fun o => some (rowCol src o)) := by
  have hf : ∀ (offs : List Nat) (c : Nat), offs.Pairwise (· ≤ ·) → (∀ o ∈ offs, InDomain src o) →
      (∀ o ∈ offs, c ≤ o) → Forward src c (offs.map Op.locate) := by
    intro offs
    induction offs with
    | nil => intros; trivial
    | cons o rest ih =>
      intro c hp hd hc
      rw [List.pairwise_cons] at hp
      exact ⟨hc o (by simp), hd o (by simp),
        ih o hp.2 (fun x hx => hd x (by simp [hx])) (fun x hx => hp.1 x hx)⟩
  have := linear_eq_spec dbg hs (offs.map Op.locate) (hf offs _ hmono hdom hfirst)
  simpa [List.map_map, Function.comp_def, Op.off] using this

/-- The two locators agree on every forward history. -/
theorem linear_eq_random (dbg : Bool) {src : List Nat} (hs : LineStartsOk src) (ops : List Op)
    (h : Forward src (initCursor src) ops) (hb : ∀ op ∈ ops, isBoundary src op.off = true) :
    run dbg src ops = ops.map (fun op => randomLocate src op.off) := by
  rw [linear_eq_spec dbg hs ops h]
  apply List.map_congr_left
  intro op hop
  rw [random_eq_spec hs (hb op hop)]

/-- `locate_only` never changes the locator's state (whatever it returns). -/
theorem locateOnly_pure (dbg : Bool) (src : List Nat) (st : St) (off : Nat) :
    (step dbg src st (.locateOnly off)).2 = st := rfl

/-- a forward history on a text with a BOM, CRLF, a lone CR and multi-byte characters:
    `é`, CR LF, emoji, CR, `a` -/
example : Forward [0xEF, 0xBB, 0xBF, 0xC3, 0xA9, 13, 10, 0xF0, 0x9F, 0x98, 0x80, 13, 0x61]
    (initCursor [0xEF, 0xBB, 0xBF, 0xC3, 0xA9, 13, 10, 0xF0, 0x9F, 0x98, 0x80, 13, 0x61])
    [.locate 3, .locateOnly 12, .locate 5, .locate 7, .locate 11, .locate 13] := by decide

example : run true [0xEF, 0xBB, 0xBF, 0xC3, 0xA9, 13, 10, 0xF0, 0x9F, 0x98, 0x80, 13, 0x61]
    [.locate 3, .locateOnly 12, .locate 5, .locate 7, .locate 11, .locate 13]
    = [some (1, 1), some (3, 1), some (1, 2), some (2, 1), some (2, 2), some (3, 2)] := by decide

/-! ### what the incremental locator needs, and what happens without it -/

/-- The property asks for more: the right answer for the nodes of every tree *whatever order they
    appear in*, i.e. for every history of boundary offsets. -/
def linear_any_order_full : Prop :=
  ∀ (dbg : Bool) (src : List Nat) (ops : List Op), LineStartsOk src →
    (∀ op ∈ ops, InDomain src op.off) →
    run dbg src ops = ops.map (fun op => some (rowCol src op.off))

/-- `"a\nb"`: locating offset 2 and then offset 0. A debug build panics on the second call; a
    release build answers row 2, column 2^32 - 1 where the text says row 1, column 1. -/
theorem linear_requires_order :
    run true [0x61, 10, 0x62] [.locate 2, .locate 0] = [some (2, 1), none] ∧
    run false [0x61, 10, 0x62] [.locate 2, .locate 0] = [some (2, 1), some (2, 4294967295)] ∧
    rowCol [0x61, 10, 0x62] 0 = (1, 1) := by decide

/-- `class A(x=1, *b): pass\n` -/
def classdefText : List Nat :=
  [99, 108, 97, 115, 115, 32, 65, 40, 120, 61, 49, 44, 32, 42, 98, 41, 58, 32, 112, 97, 115, 115, 10]

/-- The call sequence the real `LinearLocator` performs on `class A(x=1, *b): pass\n` (recorded through
    the hook; since /repo 505c970 the class keywords are located by look-ahead before the bases): it
    is a forward history, so `linear_eq_spec` applies, and every call returns the reference position. -/
theorem classdef_keyword_before_starred_base_forward :
    Forward classdefText (initCursor classdefText)
      [.locate 0, .locateOnly 8, .locateOnly 10, .locateOnly 11, .locateOnly 11, .locate 13, .locate 14,
       .locate 15, .locate 15, .locate 18, .locate 22, .locate 22] ∧
    run true classdefText
      [.locate 0, .locateOnly 8, .locateOnly 10, .locateOnly 11, .locateOnly 11, .locate 13, .locate 14,
       .locate 15, .locate 15, .locate 18, .locate 22, .locate 22]
    = [some (1, 1), some (1, 9), some (1, 11), some (1, 12), some (1, 12), some (1, 14), some (1, 15),
       some (1, 16), some (1, 16), some (1, 19), some (1, 23), some (1, 23)] := by decide

/-- About the model only (no longer a history the code produces): the sequence the fold performed on
    the same text *before* /repo 505c970 (bases folded before keywords) goes back from offset 15 to
    offset 8 and ends in a panic. -/
example :
    run true classdefText [.locate 0, .locate 13, .locate 14, .locate 15, .locate 15, .locate 8]
    = [some (1, 1), some (1, 14), some (1, 15), some (1, 16), some (1, 16), none] := by decide

theorem linear_any_order_fails : ¬ linear_any_order_full := by
  intro h
  have := h true [0x61, 10, 0x62] [.locate 2, .locate 0] (validUtf8_lineStartsOk (by decide)) (by decide)
  rw [linear_requires_order.1] at this
  simp at this

end PV.C13
