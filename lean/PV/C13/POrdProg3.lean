import PV.C13.POrdProg2
/-
  C13 — `ordM` for the ranged program parser, part 3: patterns (twin of `PV.C02.RProgSound2`).
-/
set_option linter.unusedSimpArgs false
set_option linter.unusedVariables false
set_option linter.unusedSectionVars false
namespace PV.C13
open PV.Expr PV.C11 PV.Prog
open PV.C02

variable {src : List Nat} {σ : SpanTab} {N : Nat}

/-! ### the accumulators of class and mapping patterns -/

/-- positional and keyword sub-patterns of a class pattern collected so far: chained between the tokens `jl … k` -/
structure CInv (σ : SpanTab) (jl k : Nat) (ps kp : List RPattern) : Prop where
  h : plainPs ps = true → plainPs kp = true → (ps ≠ [] ∨ kp ≠ []) →
    chain (S σ jl) (ps.map RPattern.range ++ kp.map RPattern.range) (E σ k) = true

/-- keys and patterns of a mapping pattern collected so far: equally many, interleaved between the tokens `j0 … k` -/
structure MInv (σ : SpanTab) (j0 k : Nat) (ks : List RExpr) (ps : List RPattern) : Prop where
  len : ks.length = ps.length
  h : plainL ks = true → plainPs ps = true → ks ≠ [] → chain (S σ j0) (zipSegs ks ps) (E σ k) = true

theorem cinv_nil {jl k : Nat} : CInv σ jl k [] [] := ⟨fun _ _ h => by simp at h⟩
theorem minv_nil {j0 k : Nat} : MInv σ j0 k [] [] := ⟨rfl, fun _ _ h => absurd rfl h⟩

theorem zipSegs_snoc : ∀ (ks : List RExpr) (ps : List RPattern) (k : RExpr) (p : RPattern), ks.length = ps.length →
    zipSegs (ks ++ [k]) (ps ++ [p]) = zipSegs ks ps ++ [k.range, p.range]
  | [], [], _, _, _ => rfl
  | [], _ :: _, _, _, h => by simp at h
  | _ :: _, [], _, _, h => by simp at h
  | a :: ks, b :: ps, k, p, h => by
    simp only [List.cons_append, zipSegs]
    rw [zipSegs_snoc ks ps k p (by simpa using h)]

section inv
variable (T : TiledTab src σ N)
include T

theorem cinv_mono {jl k k' : Nat} {ps kp : List RPattern} (h : CInv σ jl k ps kp) (hk : k' ≤ k) (h1 : 1 ≤ k')
    (h2 : k ≤ N) : CInv σ jl k' ps kp :=
  ⟨fun a b c => chain_mono (h.h a b c) (Nat.le_refl _) (tEE T h1 hk h2)⟩

theorem cinv_pos {jl m j2 k2 k : Nat} {ps : List RPattern} {p : RPattern} (h : CInv σ jl m ps []) (hp : WP src σ j2 k2 p)
    (c1 : 1 ≤ j2) (c2 : j2 < m) (c3 : m ≤ N) (c4 : j2 ≤ jl) (c5 : jl ≤ N) (c6 : 1 ≤ k) (c7 : k ≤ k2) (c8 : k2 ≤ N) :
    CInv σ jl k (ps ++ [p]) [] := ⟨fun a _ _ => by
  rw [plainPs_append] at a
  simp only [plainPs, Bool.and_true, Bool.and_eq_true] at a
  have w := wp_rg hp a.2
  have e1 := tES T c1 c2 c3
  have e2 := tSS T c1 c4 c5
  have e3 := tEE T c6 c7 c8
  simp only [List.map_append, List.map_cons, List.map_nil, List.append_nil]
  cases ps with
  | nil => simp only [List.map_nil, List.nil_append]; exact chain_one (by omega) (by omega)
  | cons q qs =>
    have := h.h a.1 rfl (Or.inl (by simp))
    simp only [List.map_nil, List.append_nil] at this
    exact chain_snoc this (by omega) (by omega)⟩

theorem cinv_kw {jl m j2 k2 k : Nat} {ps kp : List RPattern} {p : RPattern} (h : CInv σ jl m ps kp)
    (hp : WP src σ j2 k2 p) (c1 : 1 ≤ j2) (c2 : j2 < m) (c3 : m ≤ N) (c4 : j2 ≤ jl) (c5 : jl ≤ N) (c6 : 1 ≤ k) (c7 : k ≤ k2)
    (c8 : k2 ≤ N) : CInv σ jl k ps (kp ++ [p]) := ⟨fun a b _ => by
  rw [plainPs_append] at b
  simp only [plainPs, Bool.and_true, Bool.and_eq_true] at b
  have w := wp_rg hp b.2
  have e1 := tES T c1 c2 c3
  have e2 := tSS T c1 c4 c5
  have e3 := tEE T c6 c7 c8
  simp only [List.map_append, List.map_cons, List.map_nil]
  rw [← List.append_assoc]
  by_cases he : ps = [] ∧ kp = []
  · obtain ⟨rfl, rfl⟩ := he
    simp only [List.map_nil, List.nil_append]; exact chain_one (by omega) (by omega)
  · have := h.h a b.1 (by
      by_cases h1 : ps = []
      · exact Or.inr (fun h2 => he ⟨h1, h2⟩)
      · exact Or.inl h1)
    exact chain_snoc this (by omega) (by omega)⟩

theorem minv_mono {j0 k k' : Nat} {ks : List RExpr} {ps : List RPattern} (h : MInv σ j0 k ks ps) (hk : k' ≤ k)
    (h1 : 1 ≤ k') (h2 : k ≤ N) : MInv σ j0 k' ks ps :=
  ⟨h.len, fun a b c => chain_mono (h.h a b c) (Nat.le_refl _) (tEE T h1 hk h2)⟩

theorem minv_snoc {j0 m jk kk jp kp k : Nat} {ks : List RExpr} {ps : List RPattern} {key : RExpr} {p : RPattern}
    (h : MInv σ j0 m ks ps) (hk : Win src σ jk kk key) (hp : WP src σ jp kp p) (c1 : 1 ≤ jk) (c2 : jk < m) (c3 : m ≤ N)
    (c4 : jk ≤ j0) (c5 : j0 ≤ N) (d1 : 1 ≤ jp) (d2 : jp < kk) (d3 : kk ≤ N) (c6 : 1 ≤ k) (c7 : k ≤ kp) (c8 : kp ≤ N) :
    MInv σ j0 k (ks ++ [key]) (ps ++ [p]) := ⟨by simp [h.len], fun a b _ => by
  rw [plainL_append] at a
  rw [plainPs_append] at b
  simp only [plainL, plainPs, Bool.and_true, Bool.and_eq_true] at a b
  have wk := win_rg hk a.2
  have wp := wp_rg hp b.2
  have e1 := tES T c1 c2 c3
  have e2 := tSS T c1 c4 c5
  have e3 := tEE T c6 c7 c8
  have e4 := tES T d1 d2 d3
  rw [zipSegs_snoc _ _ _ _ h.len]
  cases ks with
  | nil =>
    have : ps = [] := by have := h.len; cases ps <;> simp_all
    subst this
    simp only [zipSegs, List.nil_append]
    repeat chain_step
  | cons q qs =>
    have := h.h a.1 b.1 (by simp)
    refine chain_append this ?_
    repeat chain_step⟩

/-- a class pattern with arguments: the class, then the positional, then the keyword sub-patterns -/
theorem op_matchClass' {j k jc kc jl kl : Nat} {c : RExpr} {ps qs : List RPattern} {ka} (h1 : 1 ≤ k) (h3 : k ≤ j)
    (h5 : j ≤ N) (hc : Win src σ jc kc c) (oc : OE c) (c1 : k ≤ kc) (c2 : jc ≤ j) (c3 : 1 ≤ jc) (c4 : kc ≤ N)
    (ci : CInv σ jl kl ps qs) (ops : OPs ps) (oqs : OPs qs) (l1 : k ≤ kl) (l2 : 1 ≤ jl) (l3 : kl ≤ N) (l4 : jl < kc) :
    OP (.matchClass (S σ j, E σ k) c ps ka qs) := by
  constructor
  intro hp
  simp only [plainP, Bool.and_eq_true] at hp
  obtain ⟨⟨pc, pps⟩, pqs⟩ := hp
  have wc := win_rg hc pc
  have e1 := tSS T c3 c2 h5
  have e2 := tEE T h1 c1 c4
  have e3 := tES T l2 l4 c4
  have e4 := tEE T h1 l1 l3
  simp only [ordP, Bool.and_eq_true]
  refine ⟨⟨⟨?_, oc.h pc⟩, ops.h pps⟩, oqs.h pqs⟩
  by_cases he : ps = [] ∧ qs = []
  · obtain ⟨rfl, rfl⟩ := he
    simp only [List.map_nil, List.append_nil]
    repeat chain_step
  · have b := ci.h pps pqs (by
      by_cases h1 : ps = []
      · exact Or.inr (fun h2 => he ⟨h1, h2⟩)
      · exact Or.inl h1)
    repeat chain_step

/-- a mapping pattern: keys and patterns interleaved -/
theorem op_matchMapping' {j k jl kl : Nat} {ks : List RExpr} {ps : List RPattern} {r} (h1 : 1 ≤ k) (h3 : k ≤ j)
    (h5 : j ≤ N) (mi : MInv σ jl kl ks ps) (oks : OL ks) (ops : OPs ps)
    (c : ks = [] ∨ (k ≤ kl ∧ jl ≤ j ∧ 1 ≤ jl ∧ kl ≤ N)) : OP (.matchMapping (S σ j, E σ k) ks ps r) := by
  constructor
  intro hp
  simp only [plainP, Bool.and_eq_true] at hp
  simp only [ordP, Bool.and_eq_true, decide_eq_true_eq]
  refine ⟨⟨⟨mi.len, ?_⟩, oks.h hp.1⟩, ops.h hp.2⟩
  cases ks with
  | nil =>
    have : ps = [] := by have := mi.len; cases ps <;> simp_all
    subst this
    have := tSE T h1 h3 h5
    simp only [zipSegs, chain, decide_eq_true_eq]; exact this
  | cons q qs =>
    obtain ⟨c1, c2, c3, c4⟩ := c.resolve_left (by simp)
    exact chain_mono (mi.h hp.1 hp.2 (by simp)) (tSS T c3 c2 h5) (tEE T h1 c1 c4)

/-- the last entry of a mapping pattern and the node around it -/
theorem op_matchMapping_snoc {j k j0 m jk kk jp kp : Nat} {ks : List RExpr} {ps : List RPattern} {key : RExpr}
    {p : RPattern} {r} (h1 : 1 ≤ k) (h3 : k ≤ j) (h5 : j ≤ N) (mi : MInv σ j0 m ks ps) (oks : OL ks) (ops : OPs ps)
    (hk : Win src σ jk kk key) (ok : OE key) (hp : WP src σ jp kp p) (op : OP p) (c1 : 1 ≤ jk) (c2 : jk < m) (c3 : m ≤ N)
    (c4 : jk ≤ j0) (c5 : j0 ≤ j) (d1 : 1 ≤ jp) (d2 : jp < kk) (d3 : kk ≤ N) (c7 : k ≤ kp) (c8 : kp ≤ N) :
    OP (.matchMapping (S σ j, E σ k) (ks ++ [key]) (ps ++ [p]) r) :=
  op_matchMapping' T h1 h3 h5 (minv_snoc T mi hk hp c1 c2 c3 c4 (by omega) d1 d2 d3 h1 c7 c8) (ol_snoc oks ok)
    (ops_snoc ops op) (Or.inr ⟨Nat.le_refl _, c5, by omega, by omega⟩)

end inv

theorem op_of_single {p : RPattern} (h : OPs [p]) : OP p := ⟨fun hp => by
  have := h.h (by simpa [plainPs] using hp)
  simpa [ordPats] using this⟩
grind_pattern op_of_single => OPs [p]

theorem snoc_ne_nil {α : Type} (xs : List α) (x : α) : xs ++ [x] ≠ [] := by simp
grind_pattern snoc_ne_nil => xs ++ [x]

grind_pattern cinv_nil => CInv σ jl k [] []
grind_pattern minv_nil => MInv σ j0 k [] []
grind_pattern cinv_mono => TiledTab src σ N, CInv σ jl k ps kp, CInv σ jl k' ps kp
grind_pattern minv_mono => TiledTab src σ N, MInv σ j0 k ks ps, MInv σ j0 k' ks ps
grind_pattern cinv_pos => TiledTab src σ N, CInv σ jl m ps [], WP src σ j2 k2 p, CInv σ jl k (ps ++ [p]) []
grind_pattern cinv_kw => TiledTab src σ N, CInv σ jl m ps kp, WP src σ j2 k2 p, CInv σ jl k ps (kp ++ [p])
grind_pattern minv_snoc => TiledTab src σ N, MInv σ j0 m ks ps, Win src σ jk kk key, WP src σ jp kp p,
  MInv σ j0 k (ks ++ [key]) (ps ++ [p])
grind_pattern op_matchClass' => TiledTab src σ N, Win src σ jc kc c, CInv σ jl kl ps qs,
  OP (RPattern.matchClass (S σ j, E σ k) c ps ka qs)
grind_pattern ol_snoc => OL es, OE e, es ++ [e]
grind_pattern op_matchMapping_snoc => TiledTab src σ N, MInv σ j0 m ks ps, Win src σ jk kk key, WP src σ jp kp p,
  OP (RPattern.matchMapping (S σ j, E σ k) (ks ++ [key]) (ps ++ [p]) r)
grind_pattern op_matchMapping' => TiledTab src σ N, MInv σ jl kl ks ps, OP (RPattern.matchMapping (S σ j, E σ k) ks ps r)

/-! ### constant expressions, attribute chains, mapping keys -/

section
variable (T : TiledTab src σ N) (OA : ∀ f, OrdAt src σ N f)
include T OA

omit OA in
theorem oconstAtomR : ∀ k t c, 1 ≤ k → k ≤ N → constAtomR σ k t = some c → OE c := by
  intro k t c h1 h2
  fun_cases constAtomR σ k t
  pstep σ [True.intro]

omit OA in
theorem oaddTailR : ∀ st j0 left ts e rest, st = S σ j0 → ts.length < j0 → j0 ≤ N →
    Win src σ j0 (ts.length + 1) left → OE left → addTailR σ st left ts = some (e, rest) → OE e := by
  intro st j0 left ts e rest h0 h1 h2 h3 h4
  fun_cases addTailR σ st left ts
  pstep σ [constAtomR_sound T, oconstAtomR T]

omit OA in
theorem oconstExpr : ∀ ts e rest, ts.length ≤ N → parseRConstExpr σ ts = some (e, rest) → OE e := by
  intro ts e rest hN
  fun_cases parseRConstExpr σ ts
  pstep σ [constAtomR_sound T, addTailR_sound T, oconstAtomR T, oaddTailR T]

omit OA in
theorem oattrChainR : ∀ st j0 acc d ts e d' rest, st = S σ j0 → ts.length < j0 → j0 ≤ N →
    Win src σ j0 (ts.length + 1) acc → OE acc → attrChainR σ st acc d ts = some (e, d', rest) → OE e := by
  intro st j0 acc d ts
  fun_induction attrChainR σ st acc d ts <;> intro e d' rest h0 h1 h2 h3 h4
  · rename_i acc d n r ih
    intro h
    simp only [List.length_cons] at h1 h3
    have hw : Win src σ j0 (r.length + 1) (.attribute (S σ j0, E σ (r.length + 1)) acc n) :=
      own_attribute T (by omega) (by omega) h2 h3 (by omega) (by omega) (by omega) (by omega)
    have ho : OE (.attribute (S σ j0, E σ (r.length + 1)) acc n) :=
      oe_attribute T (by omega) (by omega) h2 h3 h4 (by omega) (by omega) (by omega) (by omega)
    subst h0
    exact ih e d' rest rfl (by omega) h2 hw ho h
  · intro h; cases h
  · intro h
    simp only [Option.some.injEq, Prod.mk.injEq] at h
    obtain ⟨rfl, rfl, rfl⟩ := h
    exact h4

theorem omapKey (f : Nat) : ∀ ts e rest, ts.length ≤ N → parseRMapKey σ f ts = some (e, rest) → OE e := by
  intro ts e rest hN
  fun_cases parseRMapKey σ f ts
  pstep σ [(soundAt T _).strings, constExpr_sound T, attrChainR_sound T, oa_strings OA _, oconstExpr T, oattrChainR T]

/-! ### the mutual block of the pattern functions -/

structure OPatAt (src : List Nat) (σ : SpanTab) (N : Nat) (f : Nat) : Prop where
  pattern : ∀ ts p rest, ts.length ≤ N → parseRPattern σ f ts = some (p, rest) → OP p
  orPattern : ∀ ts p rest, ts.length ≤ N → parseROrPattern σ f ts = some (p, rest) → OP p
  orPatRest : ∀ ts ps rest, ts.length ≤ N → parseROrPatRest σ f ts = some (ps, rest) → OPs ps
  closed : ∀ ts p rest, ts.length ≤ N → parseRClosed σ f ts = some (p, rest) → OP p
  patternList : ∀ ts ps tc rest, ts.length ≤ N → parseRPatternList σ f ts = some ((ps, tc), rest) → OPs ps
  classArgs : ∀ st j0 cls ts p rest, st = S σ j0 → ts.length + 1 < j0 → j0 ≤ N → Win src σ j0 (ts.length + 2) cls →
    OE cls → parseRClassArgs σ f st cls ts = some (p, rest) → OP p
  classItems : ∀ ts ps ka kp ps' ka' kp' rest jl, SeqPt src σ jl (ts.length + 1) ps → SeqPt src σ jl (ts.length + 1) kp →
    ts.length + 1 ≤ jl → jl ≤ N → OPs ps → OPs kp → CInv σ jl (ts.length + 1) ps kp → (ka = [] → kp = []) →
    parseRClassItems σ f ts ps ka kp = some ((ps', ka', kp'), rest) →
    OPs ps' ∧ OPs kp' ∧ CInv σ jl (rest.length + 2) ps' kp'
  mapItems : ∀ st j0 ts ks ps p rest, st = S σ j0 → ts.length < j0 → j0 ≤ N → SeqI src σ j0 (ts.length + 1) ks →
    SeqPt src σ j0 (ts.length + 1) ps → OL ks → OPs ps → MInv σ j0 (ts.length + 1) ks ps →
    parseRMapItems σ f st ts ks ps = some (p, rest) → OP p

def BelowOPat (src : List Nat) (σ : SpanTab) (N : Nat) (n : Nat) : Prop := ∀ f, n = f + 1 → OPatAt src σ N f

omit OA in
theorem opat_pattern {n} (ih : BelowOPat src σ N n) :
    ∀ ts p rest, ts.length ≤ N → parseRPattern σ n ts = some (p, rest) → OP p := by
  intro ts p rest hN
  fun_cases parseRPattern σ n ts
  pstep σ [(patSAt T _).orPattern, (ih _ rfl).orPattern]

omit OA in
theorem opat_orPattern {n} (ih : BelowOPat src σ N n) :
    ∀ ts p rest, ts.length ≤ N → parseROrPattern σ n ts = some (p, rest) → OP p := by
  intro ts p rest hN
  fun_cases parseROrPattern σ n ts
  pstep σ [(patSAt T _).closed, (patSAt T _).orPatRest, (ih _ rfl).closed, (ih _ rfl).orPatRest]

omit OA in
theorem opat_orPatRest {n} (ih : BelowOPat src σ N n) :
    ∀ ts ps rest, ts.length ≤ N → parseROrPatRest σ n ts = some (ps, rest) → OPs ps := by
  intro ts ps rest hN
  fun_cases parseROrPatRest σ n ts
  pstep σ [(patSAt T _).closed, (patSAt T _).orPatRest, (ih _ rfl).closed, (ih _ rfl).orPatRest]

omit OA in
theorem opat_patternList {n} (ih : BelowOPat src σ N n) :
    ∀ ts ps tc rest, ts.length ≤ N → parseRPatternList σ n ts = some ((ps, tc), rest) → OPs ps := by
  intro ts ps tc rest hN
  fun_cases parseRPatternList σ n ts
  pstep σ [(patSAt T _).pattern, (patSAt T _).patternList, (ih _ rfl).pattern, (ih _ rfl).patternList]

omit OA in
theorem opat_classArgs {n} (ih : BelowOPat src σ N n) :
    ∀ st j0 cls ts p rest, st = S σ j0 → ts.length + 1 < j0 → j0 ≤ N → Win src σ j0 (ts.length + 2) cls →
    OE cls → parseRClassArgs σ n st cls ts = some (p, rest) → OP p := by
  intro st j0 cls ts p rest h0 h1 h2 h3 h4
  have e1 := seqPt_nil0 T (ts.length + 1) (ts.length + 1)
  fun_cases parseRClassArgs σ n st cls ts
  pstep σ [(patSAt T _).classItems, (ih _ rfl).classItems]

omit OA in
theorem opat_classItems {n} (ih : BelowOPat src σ N n) :
    ∀ ts ps ka kp ps' ka' kp' rest jl, SeqPt src σ jl (ts.length + 1) ps → SeqPt src σ jl (ts.length + 1) kp →
    ts.length + 1 ≤ jl → jl ≤ N → OPs ps → OPs kp → CInv σ jl (ts.length + 1) ps kp → (ka = [] → kp = []) →
    parseRClassItems σ n ts ps ka kp = some ((ps', ka', kp'), rest) →
    OPs ps' ∧ OPs kp' ∧ CInv σ jl (rest.length + 2) ps' kp' := by
  intro ts ps ka kp ps' ka' kp' rest jl h1 h2 h3 h4 h5 h6 h7 h8
  fun_cases parseRClassItems σ n ts ps ka kp
  pstep σ [(patSAt T _).pattern, (patSAt T _).classItems, (ih _ rfl).pattern, (ih _ rfl).classItems]

theorem opat_mapItems {n} (ih : BelowOPat src σ N n) :
    ∀ st j0 ts ks ps p rest, st = S σ j0 → ts.length < j0 → j0 ≤ N → SeqI src σ j0 (ts.length + 1) ks →
    SeqPt src σ j0 (ts.length + 1) ps → OL ks → OPs ps → MInv σ j0 (ts.length + 1) ks ps →
    parseRMapItems σ n st ts ks ps = some (p, rest) → OP p := by
  intro st j0 ts ks ps p rest h0 h1 h2 h3 h4 h5 h6 h7
  fun_cases parseRMapItems σ n st ts ks ps
  pstep σ [mapKey_sound T _, (patSAt T _).pattern, (patSAt T _).mapItems, omapKey T OA _, (ih _ rfl).pattern,
    (ih _ rfl).mapItems]

theorem opat_closed {n} (ih : BelowOPat src σ N n) :
    ∀ ts p rest, ts.length ≤ N → parseRClosed σ n ts = some (p, rest) → OP p := by
  intro ts p rest hN
  have e1 := seqPt_nil0 T ts.length ts.length
  have e2 : SeqI src σ ts.length ts.length [] := seqI_nil
  have e3 : MInv σ ts.length ts.length [] [] := minv_nil
  fun_cases parseRClosed σ n ts
  pstep σ [(soundAt T _).strings, attrChainR_sound T, constExpr_sound T, (patSAt T _).classArgs,
    (patSAt T _).patternList, (patSAt T _).mapItems, oa_strings OA _, oattrChainR T, oconstExpr T, (ih _ rfl).classArgs,
    (ih _ rfl).patternList, (ih _ rfl).mapItems]

theorem opatAt_of_below {n : Nat} (b : BelowOPat src σ N n) : OPatAt src σ N n :=
  ⟨opat_pattern T b, opat_orPattern T b, opat_orPatRest T b, opat_closed T OA b, opat_patternList T b, opat_classArgs T b,
    opat_classItems T b, opat_mapItems T OA b⟩

/-- every pattern function of the ranged parser returns ordered patterns -/
theorem opatAt : ∀ n, OPatAt src σ N n
  | 0 => opatAt_of_below T OA (fun f h => absurd h (by omega))
  | n + 1 => opatAt_of_below T OA (fun f h => by cases h; exact opatAt n)

theorem opatterns (f : Nat) : ∀ ts p rest, ts.length ≤ N → parseRPatterns σ f ts = some (p, rest) → OP p := by
  intro ts p rest hN h
  unfold parseRPatterns at h
  split at h
  · rename_i p' r hl
    simp only [Option.some.injEq, Prod.mk.injEq] at h
    obtain ⟨rfl, rfl⟩ := h
    exact op_of_single ((opatAt T OA f).patternList _ _ _ _ hN hl)
  · rename_i ps tc r hne hl
    simp only [Option.some.injEq, Prod.mk.injEq] at h
    obtain ⟨rfl, rfl⟩ := h
    obtain ⟨g1, _, g3, _⟩ := (patSAt T f).patternList _ _ _ _ hN hl
    exact op_matchSequence T (by omega) (by omega) hN g3 ((opatAt T OA f).patternList _ _ _ _ hN hl)
      (Or.inr ⟨Nat.le_refl _, Nat.le_refl _, by omega, by omega⟩)
  · cases h

end

end PV.C13
