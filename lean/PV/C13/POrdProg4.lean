import PV.C13.POrdProg3
/-
  C13 — `ordM` for the ranged program parser, part 4 (twin of `PV.C02.RProgSound3`): annotations and defaults,
  decorators, parameter lists (`ordArgs`), with-items, `except` headers.
-/
set_option linter.unusedSimpArgs false
set_option linter.unusedVariables false
set_option linter.unusedSectionVars false
namespace PV.C13
open PV.Expr PV.C11 PV.Prog
open PV.C02

variable {src : List Nat} {σ : SpanTab} {N : Nat}

section
variable (T : TiledTab src σ N) (OA : ∀ f, OrdAt src σ N f)
include T OA

/-! ### annotations, defaults, decorators, `except` headers -/

theorem oannOpt (f : Nat) : ∀ star ts an rest, ts.length ≤ N → parseRAnnOpt σ star f ts = some (an, rest) → OO an := by
  intro star ts an rest hN
  cases star <;> fun_cases parseRAnnOpt σ _ f ts
  all_goals try simp only [Bool.false_eq_true, ↓reduceIte] at *
  pstep σ [(soundAt T _).test, (soundAt T _).testOrStar, oa_test OA _, oa_testOrStar OA _]

theorem odefaultOpt (f : Nat) : ∀ ts d rest, ts.length ≤ N → parseRDefaultOpt σ f ts = some (d, rest) → OO d := by
  intro ts d rest hN
  fun_cases parseRDefaultOpt σ f ts
  pstep σ [(soundAt T _).test, oa_test OA _]

theorem odecorators : ∀ f ts ds rest, ts.length ≤ N → parseRDecorators σ f ts = some (ds, rest) → OL ds := by
  refine below_rec (fun n ih => ?_)
  intro ts ds rest hN
  fun_cases parseRDecorators σ n ts
  pstep σ [(soundAt T _).namedTest, oa_namedTest OA _, ih _ rfl]

theorem oexceptHeader (f : Nat) : ∀ star ts ty nm rest, ts.length ≤ N →
    parseRExceptHeader σ f star ts = some ((ty, nm), rest) → OO ty := by
  intro star ts ty nm rest hN
  fun_cases parseRExceptHeader σ f star ts
  pstep σ [(soundAt T _).test, oa_test OA _]

theorem oasPartR (f : Nat) : ∀ ts v rest, ts.length ≤ N → asPartR σ f ts = some (v, rest) → OO v := by
  intro ts v rest hN
  fun_cases asPartR σ f ts
  pstep σ [(soundAt T _).bin, oa_bin OA _]

theorem oguardOfR (f : Nat) : ∀ ts g rest, ts.length ≤ N → guardOfR σ f ts = some (g, rest) → OO g := by
  intro ts g rest hN
  fun_cases guardOfR σ f ts
  pstep σ [(soundAt T _).namedTest, oa_namedTest OA _]

theorem oretOfR (f : Nat) : ∀ ts g rest, ts.length ≤ N → retOfR σ f ts = some (g, rest) → OO g := by
  intro ts g rest hN
  fun_cases retOfR σ f ts
  pstep σ [(soundAt T _).test, oa_test OA _]

theorem oclassArgsOfR (f : Nat) : ∀ ts bs ks rest, ts.length ≤ N → classArgsOfR σ f ts = some ((bs, ks), rest) →
    OL bs ∧ OKs ks := by
  intro ts bs ks rest hN
  fun_cases classArgsOfR σ f ts
  pstep σ [(soundAt T _).args0, oa_args0 OA _]

/-! ### parameter lists -/

/-- an `ArgWithDefault` / `Arg` is ordered (if plain) -/
def OD (p : RArgD) : Prop := p.plain = true → ordArgD p = true
def OAr (v : RArg) : Prop := v.plain = true → ordArg v = true

/-- what `parseRTypedParams` maintains for `ordArgs`: every parameter collected so far is ordered -/
structure OAInv (a : RArguments) : Prop where
  po : ∀ p ∈ a.posonly, OD p
  ar : ∀ p ∈ a.args, OD p
  va : ∀ v, a.vararg = some v → OAr v
  ko : ∀ p ∈ a.kwonly, OD p
  kw : ∀ v, a.kwarg = some v → OAr v

omit T OA in
theorem oainv_empty (rg : Rg) : OAInv { rg := rg } :=
  ⟨fun _ h => (by cases h), fun _ h => (by cases h), fun _ h => (by cases h), fun _ h => (by cases h), fun _ h => (by cases h)⟩

omit T OA in
theorem oe_of_some {e : RExpr} (h : OO (some e)) : OE e := ⟨fun hp => h.h hp⟩

omit OA in
theorem oar_mk {j k ja ka : Nat} {n} {an : Option RExpr} (h1 : 1 ≤ k) (h3 : k ≤ j) (h5 : j ≤ N) (han : WO src σ ja ka an)
    (oan : OO an) (an0 : an = none ∨ (k ≤ ka ∧ ja ≤ j ∧ 1 ≤ ja ∧ ka ≤ N)) : OAr ⟨(S σ j, E σ k), n, an⟩ := by
  intro hp
  simp only [RArg.plain] at hp
  simp only [ordArg, Bool.and_eq_true]
  refine ⟨?_, oan.h hp⟩
  cases an with
  | none =>
    have := tSE T h1 h3 h5
    simp only [optRg]
    repeat chain_step
  | some e =>
    obtain ⟨c1, c2, c3, c4⟩ := an0.resolve_left (by simp)
    have w := win_rg (han e rfl) hp
    have s1 := tSS T c3 c2 h5
    have s2 := tEE T h1 c1 c4
    simp only [optRg]
    repeat chain_step

omit T OA in
theorem od_none {rg : Rg} {n} {an : Option RExpr} (h : OAr ⟨rg, n, an⟩) : OD (argDR rg n an none) := by
  intro hp
  simp only [argDR, RArgD.plain, plainO, Bool.and_true] at hp
  simp only [argDR, ordArgD, optRg, ordO, Bool.and_true, Bool.and_eq_true]
  exact ⟨chain_one (Nat.le_refl _) (Nat.le_refl _), h hp⟩

omit OA in
theorem od_some {j k jd kd : Nat} {n} {an : Option RExpr} {d : RExpr} (h : OAr ⟨(S σ j, E σ k), n, an⟩)
    (hd : Win src σ jd kd d) (od : OE d) (c1 : 1 ≤ jd) (c2 : jd < k) (c3 : k ≤ N) :
    OD (argDR (S σ j, E σ k) n an (some d)) := by
  intro hp
  simp only [argDR, RArgD.plain, plainO, Bool.and_eq_true] at hp
  have w := win_rg hd hp.2
  have e1 := tES T c1 c2 c3
  simp only [argDR, ordArgD, optRg, ordO, Bool.and_eq_true]
  refine ⟨⟨?_, h hp.1⟩, od.h hp.2⟩
  refine chain_cons'' (Nat.le_refl _) (chain_one ?_ (Nat.le_refl _))
  show E σ k ≤ d.range.1
  omega

theorem otypedItemR {f ts ps ph ps' ph' r} (hN : ts.length + 1 ≤ N) (hP : OAInv ps)
    (h : typedItemR σ f ts ps ph = some (ps', ph', r)) : OAInv ps' := by
  unfold typedItemR at h
  split at h
  · -- a named parameter
    rename_i n r0
    simp only [List.length_cons] at hN
    split at h
    · split at h
      · rename_i an r1 han
        obtain ⟨a1, a2, a3⟩ := annOpt_sound T f _ _ _ _ (by omega) han
        have oan := oannOpt T OA f _ _ _ _ (by omega) han
        split at h
        · rename_i d r2 hd
          obtain ⟨d1, d2, d3⟩ := defaultOpt_sound T f _ _ _ (by omega) hd
          have odf := odefaultOpt T OA f _ _ _ (by omega) hd
          have an0 : an = none ∨ (r1.length + 1 ≤ r1.length + 1 ∧ r0.length ≤ r0.length + 1 ∧ 1 ≤ r0.length ∧ r1.length + 1 ≤ N) := by
            rcases a3 with ⟨g, _⟩ | ⟨g, _⟩
            · exact Or.inl g
            · exact Or.inr ⟨Nat.le_refl _, by omega, by omega, by omega⟩
          have harg : OAr ⟨(S σ (r0.length + 1), E σ (r1.length + 1)), n, an⟩ :=
            oar_mk T (by omega) (by omega) (by omega) a2 oan an0
          have hitem : OD (argDR (L σ (.name n :: r0), R σ r1) n an d) := by
            simp only [L, R, List.length_cons]
            cases d with
            | none => exact od_none harg
            | some dv =>
              rcases d3 with ⟨g, _⟩ | ⟨g, _⟩
              · cases g
              · exact od_some T harg (d2 dv rfl) (oe_of_some odf) (by omega) (by omega) (by omega)
          split at h <;> simp only [Option.some.injEq, Prod.mk.injEq] at h <;> obtain ⟨rfl, rfl, rfl⟩ := h
          · refine ⟨hP.po, hP.ar, hP.va, fun p hp => ?_, hP.kw⟩
            rcases List.mem_append.mp hp with hp | hp
            · exact hP.ko p hp
            · simp only [List.mem_singleton] at hp; subst hp; exact hitem
          · refine ⟨hP.po, fun p hp => ?_, hP.va, hP.ko, hP.kw⟩
            rcases List.mem_append.mp hp with hp | hp
            · exact hP.ar p hp
            · simp only [List.mem_singleton] at hp; subst hp; exact hitem
        · cases h
      · cases h
    · cases h
  · -- "/"
    split at h
    · simp only [Option.some.injEq, Prod.mk.injEq] at h; obtain ⟨rfl, rfl, rfl⟩ := h
      exact ⟨hP.ar, fun _ hp => (by cases hp), hP.va, hP.ko, hP.kw⟩
    · cases h
  · -- "*" name
    rename_i n r0
    simp only [List.length_cons] at hN
    split at h
    · split at h
      · rename_i an r1 han
        obtain ⟨a1, a2, a3⟩ := annOpt_sound T f _ _ _ _ (by omega) han
        have oan := oannOpt T OA f _ _ _ _ (by omega) han
        simp only [Option.some.injEq, Prod.mk.injEq] at h; obtain ⟨rfl, rfl, rfl⟩ := h
        have an0 : an = none ∨ (r1.length + 1 ≤ r1.length + 1 ∧ r0.length ≤ r0.length + 1 ∧ 1 ≤ r0.length ∧ r1.length + 1 ≤ N) := by
          rcases a3 with ⟨g, _⟩ | ⟨g, _⟩
          · exact Or.inl g
          · exact Or.inr ⟨Nat.le_refl _, by omega, by omega, by omega⟩
        have harg : OAr ⟨(S σ (r0.length + 1), E σ (r1.length + 1)), n, an⟩ :=
          oar_mk T (by omega) (by omega) (by omega) a2 oan an0
        refine ⟨hP.po, hP.ar, fun v hv => ?_, hP.ko, hP.kw⟩
        simp only [Option.some.injEq] at hv; subst hv; exact harg
      · cases h
    · cases h
  · -- bare "*"
    split at h
    · simp only [Option.some.injEq, Prod.mk.injEq] at h; obtain ⟨rfl, rfl, rfl⟩ := h; exact hP
    · cases h
  · -- "**" name
    rename_i n r0
    simp only [List.length_cons] at hN
    split at h
    · split at h
      · rename_i an r1 han
        obtain ⟨a1, a2, a3⟩ := annOpt_sound T f _ _ _ _ (by omega) han
        have oan := oannOpt T OA f _ _ _ _ (by omega) han
        simp only [Option.some.injEq, Prod.mk.injEq] at h; obtain ⟨rfl, rfl, rfl⟩ := h
        have an0 : an = none ∨ (r1.length + 1 ≤ r1.length + 1 ∧ r0.length ≤ r0.length + 1 ∧ 1 ≤ r0.length ∧ r1.length + 1 ≤ N) := by
          rcases a3 with ⟨g, _⟩ | ⟨g, _⟩
          · exact Or.inl g
          · exact Or.inr ⟨Nat.le_refl _, by omega, by omega, by omega⟩
        have harg : OAr ⟨(S σ (r0.length + 1), E σ (r1.length + 1)), n, an⟩ :=
          oar_mk T (by omega) (by omega) (by omega) a2 oan an0
        refine ⟨hP.po, hP.ar, hP.va, hP.ko, fun v hv => ?_⟩
        simp only [Option.some.injEq] at hv; subst hv; exact harg
      · cases h
    · cases h
  · -- bare "**"
    split at h
    · simp only [Option.some.injEq, Prod.mk.injEq] at h; obtain ⟨rfl, rfl, rfl⟩ := h; exact hP
    · cases h
  · cases h

theorem otypedParams : ∀ f ts ps ph ps' rest j0, AInv src σ j0 (ts.length + 1) ph ps → ts.length ≤ j0 → j0 + 1 ≤ N →
    OAInv ps → parseRTypedParams σ f ts ps ph = some (ps', rest) → OAInv ps' := by
  refine below_rec (fun n ih => ?_)
  intro ts ps ph ps' rest j0 hP hj hN hO h
  cases n with
  | zero => simp [parseRTypedParams] at h
  | succ f =>
    have ih := ih _ rfl
    rw [parseRTypedParams] at h
    cases hi : typedItemR σ f ts ps ph with
    | none => simp [hi] at h
    | some p =>
      obtain ⟨ps1, ph1, r⟩ := p
      obtain ⟨hl, hP1⟩ := typedItemR_sound T hP hj hN hi
      have hO1 := otypedItemR T OA (by omega) hO hi
      rw [hi] at h
      simp only at h
      split at h
      · split at h
        · simp only [Option.some.injEq, Prod.mk.injEq] at h; obtain ⟨rfl, rfl⟩ := h
          exact hO1
        · cases h
      · rename_i r2 hne
        simp only [List.length_cons] at hl hP1
        exact ih _ _ _ _ _ j0 (ainv_mono T hP1 (by omega) (by omega) (by omega)) (by omega) hN hO1 h
      · split at h
        · simp only [Option.some.injEq, Prod.mk.injEq] at h; obtain ⟨rfl, rfl⟩ := h
          exact hO1
        · cases h
      · cases h

omit T OA in
theorem children_trg (a : RArguments) : a.children.map trg = argsSegs a := by
  have e1 : ∀ s, trg ∘ RArgD.tree s = fun p => p.rg := fun s => funext fun p => rfl
  have e2 : ∀ s (v : Option RArg), (argOptTree s v).map trg = argOptSeg v := by
    intro s v; cases v <;> rfl
  simp only [RArguments.children, argsSegs, List.map_append, List.map_map, e1, e2]

omit T OA in
theorem ordArgs_of {a : RArguments} (h : OAInv a) (hp : a.plain = true)
    (hc : chain a.rg.1 (argsSegs a) a.rg.2 = true) : ordArgs a = true := by
  simp only [RArguments.plain, Bool.and_eq_true] at hp
  obtain ⟨⟨⟨⟨p1, p2⟩, p3⟩, p4⟩, p5⟩ := hp
  simp only [ordArgs, Bool.and_eq_true]
  refine ⟨⟨⟨⟨⟨hc, ?_⟩, ?_⟩, ?_⟩, ?_⟩, ?_⟩
  · exact List.all_eq_true.mpr fun p hm => h.po p hm (List.all_eq_true.mp p1 p hm)
  · exact List.all_eq_true.mpr fun p hm => h.ar p hm (List.all_eq_true.mp p2 p hm)
  · cases hv : a.vararg with
    | none => rfl
    | some v => rw [hv] at p3; exact h.va v hv p3
  · exact List.all_eq_true.mpr fun p hm => h.ko p hm (List.all_eq_true.mp p4 p hm)
  · cases hv : a.kwarg with
    | none => rfl
    | some v => rw [hv] at p5; exact h.kw v hv p5

/-- `Parameters` after `(`: the `Arguments` node is ordered -/
theorem oparameters (f : Nat) : ∀ ts a rest, ts.length + 1 ≤ N → parseRParameters σ f ts = some (a, rest) → OArgs a := by
  intro ts a rest hN h
  cases f with
  | zero => simp [parseRParameters] at h
  | succ f =>
    rw [parseRParameters.eq_def] at h
    split at h
    · cases h
    · -- `()`
      rename_i f' r heq
      simp only [Option.some.injEq, Prod.mk.injEq] at h
      obtain ⟨ha, hr⟩ := h
      subst hr
      subst ha
      simp only [List.length_cons] at hN
      refine ⟨fun hp => ordArgs_of (oainv_empty _) hp ?_⟩
      have := tSE T (j := r.length + 1 + 1) (k := r.length + 1) (by omega) (by omega) hN
      simp only [argsSegs, List.map_nil, argOptSeg, List.append_nil, chain, decide_eq_true_eq]
      exact this
    · rename_i ts0 _ _ f' heq hne
      simp only [Nat.succ.injEq] at heq
      subst heq
      split at h
      · rename_i a0 r hp
        split at h
        · simp only [Option.some.injEq, Prod.mk.injEq] at h
          obtain ⟨ha, hr⟩ := h
          subst hr
          subst ha
          obtain ⟨g1, ph', g2⟩ := typedParams_sound T f _ _ _ _ _ ts0.length (ainv_empty src σ _ _ _) (Nat.le_refl _) hN hp
          have hO := otypedParams T OA f _ _ _ _ _ ts0.length (ainv_empty src σ _ _ _) (Nat.le_refl _) hN
            (oainv_empty _) hp
          refine ⟨fun hpl => ?_⟩
          have hpl0 : a0.plain = true := hpl
          have hO' : OAInv { a0 with rg := (L σ ts0, (σ (r.length + 2)).2) } := ⟨hO.po, hO.ar, hO.va, hO.ko, hO.kw⟩
          refine ordArgs_of hO' hpl ?_
          have hc := chain_seqTF (g2.1 hpl0) (a := S σ ts0.length) (b := E σ (r.length + 2)) (Nat.le_refl _) (Nat.le_refl _)
            (fun _ => tSE T (by omega) (by omega) (by omega))
          rw [children_trg] at hc
          exact hc
        · cases h
      · cases h

/-! ### with-items -/

theorem owithItem (f : Nat) : ∀ ts it rest, ts.length ≤ N → parseRWithItem σ f ts = some (it, rest) → OWI it := by
  intro ts it rest hN
  fun_cases parseRWithItem σ f ts
  pstep σ [(soundAt T _).test, (soundAt T _).bin, oa_test OA _, oa_bin OA _]

theorem owithPlain : ∀ f ts items rest, ts.length ≤ N → parseRWithPlain σ f ts = some (items, rest) → OWIs items := by
  refine below_rec (fun n ih => ?_)
  intro ts items rest hN
  fun_cases parseRWithPlain σ n ts
  pstep σ [withItem_sound T _, owithItem T OA _, ih _ rfl]

/-- an element between the parentheses after `with (`: expression and `as` target ordered, the target behind the
    expression -/
structure OEl (el : RWElem) : Prop where
  e : OE el.e
  v : OO el.v
  ev : ∀ v', el.v = some v' → plain el.e = true → plain v' = true → el.e.range.2 ≤ v'.range.1
structure OEls (els : List RWElem) : Prop where
  h : ∀ el ∈ els, OEl el

omit OA in
theorem oel_mk {je ke jv kv : Nat} {e : RExpr} {sp} {v : Option RExpr} {ext : Rg} (he : Win src σ je ke e) (oe : OE e)
    (hv : WO src σ jv kv v) (ov : OO v) (c : v = none ∨ (1 ≤ jv ∧ jv < ke ∧ ke ≤ N)) : OEl ⟨e, sp, v, ext⟩ := by
  refine ⟨oe, ov, fun v' hv' pe pv => ?_⟩
  simp only at hv' pe ⊢
  subst hv'
  obtain ⟨c1, c2, c3⟩ := c.resolve_left (by simp)
  have w1 := win_rg he pe
  have w2 := win_rg (hv v' rfl) pv
  have := tES T c1 c2 c3
  omega

omit T OA in
theorem oels_single {el : RWElem} (h : OEl el) : OEls [el] := ⟨fun x hx => by
  simp only [List.mem_singleton] at hx; subst hx; exact h⟩
omit T OA in
theorem oels_cons {el : RWElem} {els : List RWElem} (h : OEl el) (hs : OEls els) : OEls (el :: els) := ⟨fun x hx => by
  rcases List.mem_cons.mp hx with rfl | hx
  · exact h
  · exact hs.h x hx⟩

grind_pattern oel_mk => TiledTab src σ N, Win src σ je ke e, WO src σ jv kv v, OEl (RWElem.mk e sp v ext)
grind_pattern oels_single => OEls [el]
grind_pattern oels_cons => OEls (el :: els)

theorem owithParenElems : ∀ f ts els tc rest, ts.length ≤ N → parseRWithParenElems σ f ts = some ((els, tc), rest) →
    OEls els := by
  refine below_rec (fun n ih => ?_)
  intro ts els tc rest hN
  fun_cases parseRWithParenElems σ n ts
  pstep σ [(soundAt T _).starOrNamed, asPartR_sound T _, oa_starOrNamed OA _, oasPartR T OA _, ih _ rfl]

omit OA in
/-- an item ranged by the tokens of its element -/
theorem owi_ext {j ke : Nat} {e : RExpr} {sp} {v : Option RExpr} {ext : Rg} (h : OEl ⟨e, sp, v, ext⟩)
    (he : Win src σ j ke e) (hv : WO src σ j ke v) : OWI ⟨(S σ j, E σ ke), e, v⟩ := by
  constructor
  intro hp
  simp only [RWithItem.plain, Bool.and_eq_true] at hp
  have w := win_rg he hp.1
  simp only [ordWI, Bool.and_eq_true]
  refine ⟨⟨?_, h.e.h hp.1⟩, h.v.h hp.2⟩
  cases v with
  | none => simp only [optRg]; repeat chain_step
  | some v' =>
    have w2 := win_rg (hv v' rfl) hp.2
    have := h.ev v' rfl hp.1 hp.2
    simp only at this
    simp only [optRg]
    repeat chain_step

omit T OA in
/-- an item ranged like its expression node -/
theorem owi_node {e : RExpr} (h : OE e) : OWI ⟨e.range, e, none⟩ := by
  constructor
  intro hp
  simp only [RWithItem.plain, plainO, Bool.and_true] at hp
  simp only [ordWI, optRg, ordO, Bool.and_true, Bool.and_eq_true]
  exact ⟨chain_one (Nat.le_refl _) (Nat.le_refl _), h.h hp⟩

omit OA in
theorem oasItems : ∀ (els : List RWElem) (j k : Nat) (seen : Bool), ElemsOK src σ j k els → OEls els →
    OWIs (asItemsR seen els)
  | [], _, _, _, _, _ => owis_nil
  | el :: els, j, k, seen, ⟨ke, g1, g2, g3, g4, g5, g6⟩, ho => by
    have hel := ho.h el (by simp)
    have hrest : OEls els := ⟨fun x hx => ho.h x (by simp [hx])⟩
    obtain ⟨e, sp, v, ext⟩ := el
    simp only at g3 g4 g5
    subst g3
    have hitem : OWI ⟨if (seen || v.isSome) = true then (S σ j, E σ ke) else e.range, e, v⟩ := by
      split
      · exact owi_ext T hel g4 g5
      · rename_i hs
        have : v = none := by
          cases v with
          | none => rfl
          | some x => simp at hs
        subst this
        exact owi_node hel.e
    simp only [asItemsR]
    refine owis_cons hitem ?_
    rcases g6 with rfl | ⟨j', _, _, q3⟩
    · exact owis_nil
    · exact oasItems els j' k _ q3 hrest

omit T OA in
theorem onodeItems : ∀ (els : List RWElem), OEls els → OWIs (els.map fun el => ⟨el.e.range, el.e, none⟩)
  | [], _ => owis_nil
  | el :: els, ho => by
    simp only [List.map_cons]
    exact owis_cons (owi_node (ho.h el (by simp)).e) (onodeItems els ⟨fun x hx => ho.h x (by simp [hx])⟩)

omit T OA in
theorem oelems_ol : ∀ (els : List RWElem), OEls els → OL (els.map fun el => el.e)
  | [], _ => ol_nil
  | el :: els, ho => by
    simp only [List.map_cons]
    exact ol_cons (ho.h el (by simp)).e (oelems_ol els ⟨fun x hx => ho.h x (by simp [hx])⟩)

omit OA in
/-- the items of a parenthesised element list are ordered -/
theorem owithParenItemsR {J K : Nat} {els : List RWElem} {tc : Bool} {items : List RWithItem}
    (hel : ElemsOK src σ (J - 1) (K + 1) els) (oel : OEls els) (hne : els ≠ []) (h1 : 1 ≤ K) (h2 : K + 2 ≤ J) (h3 : J ≤ N)
    (h : withParenItemsR (S σ J, E σ K) els tc = some items) : OWIs items := by
  unfold withParenItemsR at h
  split at h
  · split at h
    · cases h
    · simp only [Option.some.injEq] at h; subst h
      exact oasItems T els _ _ false hel oel
  · split at h
    · simp only [Option.some.injEq] at h; subst h
      exact onodeItems els oel
    · split at h
      · rename_i el _ _
        split at h
        · cases h
        · simp only [Option.some.injEq] at h; subst h
          have ho := oel.h el (by simp)
          obtain ⟨ke, g1, g2, g3, g4, g5, g6⟩ := hel
          exact owis_single (owi_mk T h1 (by omega) h3 g4 ho.e (by omega) (by omega) (by omega) (by omega)
            (wo_none (j := 0) (k := 0)) oo_none (Or.inl rfl))
      · simp only [Option.some.injEq] at h; subst h
        have hs := elems_seqI T els _ _ hel (by omega) (by omega)
        have hb := elemsOK_bounds hel hne
        have htup : Win src σ J K (.tuple (S σ J, E σ K) (els.map fun el => el.e)) :=
          own_tuple T h1 (by omega) h3 hs (by omega) (by omega) (by omega) (by omega)
        have otup : OE (.tuple (S σ J, E σ K) (els.map fun el => el.e)) :=
          oe_tuple T h1 (by omega) h3 hs (oelems_ol els oel) (Or.inr ⟨by omega, by omega, by omega, by omega⟩)
        exact owis_single (owi_mk T h1 (by omega) h3 htup otup (Nat.le_refl _) (Nat.le_refl _) (by omega) (by omega)
          (wo_none (j := 0) (k := 0)) oo_none (Or.inl rfl))

omit OA in
theorem owithParenItemsR_fact {j K : Nat} {els : List RWElem} {tc : Bool} {items : List RWithItem}
    (h : withParenItemsR (S σ (j + 1), E σ K) els tc = some items) (hel : ElemsOK src σ j (K + 1) els) (oel : OEls els)
    (hne : els ≠ []) (h1 : 1 ≤ K) (h2 : K + 1 ≤ j) (h3 : j + 1 ≤ N) : OWIs items :=
  owithParenItemsR T (J := j + 1) (by simpa using hel) oel hne h1 (by omega) h3 h

omit T OA in
/-- comprehensions in consecutive windows: the chain of their ranges -/
theorem chain_seqComps : ∀ {gs : List RComp} {lo hi a b : Nat}, SeqG (RSC src) lo hi gs → plainComps gs = true → a ≤ lo →
    hi ≤ b → lo ≤ hi → chain a (gs.map compRg) b = true
  | [], lo, hi, a, b, _, _, h1, h2, h3 => by simp [chain]; omega
  | .mk rg t i ifs x :: gs, lo, hi, a, b, ⟨m, g1, g2, g3⟩, hp, h1, h2, h3 => by
    simp only [plainComps, Bool.and_eq_true] at hp
    obtain ⟨r1, r2, r3, _⟩ := g1.2 (by simp only [Bool.and_eq_true]; exact ⟨⟨hp.1.1.1, hp.1.1.2⟩, hp.1.2⟩)
    have hle := rgOk_le (show rgOk src (rg.1, rg.2) from r1)
    simp only [List.map_cons, compRg, chain, Bool.and_eq_true, decide_eq_true_eq]
    exact ⟨by omega, chain_seqComps g3 hp.2 r3 h2 g2⟩

structure OCo (gs : List RComp) : Prop where
  h : plainComps gs = true → ordComps gs = true

omit T in
theorem oa_compFor' (f : Nat) : ∀ ts gs rest, ts.length ≤ N → parseRCompFor σ f ts = some (gs, rest) → OCo gs :=
  fun ts gs rest h1 h2 => ⟨oa_compFor OA f ts gs rest h1 h2⟩

omit OA in
theorem oe_genExp {j k jc kc jl kl : Nat} {e : RExpr} {gs : List RComp} (h1 : 1 ≤ k) (h3 : k ≤ j) (h5 : j ≤ N)
    (he : Win src σ jc kc e) (oe : OE e) (c1 : k ≤ kc) (c2 : jc ≤ j) (c3 : 1 ≤ jc) (c4 : kc ≤ N)
    (hs : SeqC src σ jl kl gs) (og : OCo gs) (l1 : k ≤ kl) (l2 : jl ≤ j) (l3 : 1 ≤ jl) (l4 : kl ≤ N) (l5 : kl ≤ jl)
    (c : jl < kc) : OE (.genExp (S σ j, E σ k) e gs) := by
  constructor
  intro hp
  simp only [plain, Bool.and_eq_true] at hp
  have w := win_rg he hp.1
  have s1 := tSS T c3 c2 h5
  have s2 := tEE T h1 l1 l4
  have s3 := tES T l3 c c4
  have b := chain_seqComps hs hp.2 (Nat.le_refl _) (Nat.le_refl _) (tSE T (by omega) l5 (by omega))
  simp only [ordE, Bool.and_eq_true]
  refine ⟨⟨?_, oe.h hp.1⟩, og.h hp.2⟩
  have b' : chain (S σ jl) (gs.map compRg) (E σ kl) = true := b
  repeat chain_step

grind_pattern oe_genExp => TiledTab src σ N, Win src σ jc kc e, SeqC src σ jl kl gs, OE (RExpr.genExp (S σ j, E σ k) e gs)

grind_pattern owis_single => OWIs [w]
grind_pattern owis_cons => OWIs (w :: ws)

/-- after `with (` when the matching `)` is followed by `:` -/
theorem owithParen (f : Nat) : ∀ ts items rest, ts.length + 1 ≤ N → parseRWithParen σ f ts = some (items, rest) →
    OWIs items := by
  intro ts items rest hN
  fun_cases parseRWithParen σ f ts
  all_goals first
    | pstep1 σ [(soundAt T _).yieldAtom, (soundAt T _).starOrNamed, (soundAt T _).compFor, oa_yieldAtom OA _,
        oa_starOrNamed OA _, oa_compFor' OA _]
    | (intro h
       rename_i hel hit
       simp only [Option.some.injEq, Prod.mk.injEq] at h
       obtain ⟨rfl, rfl⟩ := h
       obtain ⟨g1, g2, g3⟩ := withParenElems_sound T _ _ _ _ _ (by omega) hel
       have g4 := owithParenElems T OA _ _ _ _ _ (by omega) hel
       simp only [P, R] at hit
       exact owithParenItemsR_fact T hit (by simpa using g3) g4 g2 (by omega) (by omega) hN)

theorem owithItems (f : Nat) : ∀ ts items rest, ts.length ≤ N → parseRWithItems σ f ts = some (items, rest) →
    OWIs items := by
  intro ts items rest hN
  fun_cases parseRWithItems σ f ts
  pstep σ [owithParen T OA _, owithPlain T OA _]

end
end PV.C13
