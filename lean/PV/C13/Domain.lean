import PV.C13.Model
import PV.C13.Spec
/-
  C13 — the quantifier domain of the property, as predicates on texts, offsets and call histories.
-/
namespace PV.C13
open PV.C15 PV.C13.Spec

/-- What valid UTF-8 guarantees about line starts: the offset just after a line break, and the
    offset just after a leading BOM, are character boundaries (`validUtf8_lineStartsOk`). -/
def LineStartsOk (src : List Nat) : Prop :=
  (∀ q ∈ breakEnds 0 src, isBoundary src q = true) ∧ (startsWithBom src = true → isBoundary src 3 = true)

/-- `off` lies between the CR and the LF of a CR LF pair. -/
def insideCrlf (src : List Nat) (off : Nat) : Bool :=
  0 < off && src[off - 1]? == some 13 && src[off]? == some 10

/-- Offsets that the start or end of a located node can have: on a character boundary and not
    between a CR and its LF. -/
def InDomain (src : List Nat) (off : Nat) : Prop :=
  isBoundary src off = true ∧ insideCrlf src off = false

/-- Where `LinearLocatorState::init` puts the cursor: after a leading BOM. -/
def initCursor (src : List Nat) : Nat := if startsWithBom src = true then 3 else 0

/-- A forward call history starting with the cursor at `c`: `locate` never goes back behind the
    cursor (and moves it), `locate_only` looks ahead of the cursor (and leaves it). -/
def Forward (src : List Nat) : Nat → List Op → Prop
  | _, [] => True
  | c, .locate o :: rest => c ≤ o ∧ InDomain src o ∧ Forward src o rest
  | c, .locateOnly o :: rest => c ≤ o ∧ InDomain src o ∧ Forward src c rest

instance (src : List Nat) (off : Nat) : Decidable (InDomain src off) := by
  unfold InDomain; exact inferInstance

instance decForward (src : List Nat) : ∀ (c : Nat) (ops : List Op), Decidable (Forward src c ops)
  | _, [] => isTrue trivial
  | c, .locate o :: rest =>
    have := decForward src o rest
    by unfold Forward; exact inferInstance
  | c, .locateOnly o :: rest =>
    have := decForward src c rest
    by unfold Forward; exact inferInstance

/-- Structural well-formedness of UTF-8: every lead byte is followed by the right number of
    continuation bytes (over-long forms and surrogates are not excluded: a weaker hypothesis). -/
def validUtf8 : List Nat → Bool
  | [] => true
  | b :: rest =>
    if b < 128 then validUtf8 rest
    else if 192 ≤ b ∧ b < 224 then
      match rest with
      | c1 :: r => isCont c1 && validUtf8 r
      | _ => false
    else if 224 ≤ b ∧ b < 240 then
      match rest with
      | c1 :: c2 :: r => isCont c1 && isCont c2 && validUtf8 r
      | _ => false
    else if 240 ≤ b ∧ b < 248 then
      match rest with
      | c1 :: c2 :: c3 :: r => isCont c1 && isCont c2 && isCont c3 && validUtf8 r
      | _ => false
    else false

end PV.C13
