import PV.C13.POrdExprNodes
/-
  C13 — the induction over the ranged EXPRESSION parser (`PV.C02.RParse`): every `plain` node a parser function
  returns is laid out in fold order (`ordE`).  The twin of `PV.C02.SoundSteps`: one step lemma per function
  (`ostep_*`: case analysis by `fun_cases`, C02's window facts `c02_*` and the induction hypotheses instantiated at
  the calls that were made by `fwd`, the node lemmas of `POrdExprNodes` applied by `grind`), the three functions whose
  definitions bind intermediate results with `let` (`parseRStrings`, `parseRParams`, `parseRSliceRest`) and
  `parseRLambda` by hand, assembled by induction on the fuel (`ordAt`).
-/
set_option linter.unusedSimpArgs false
set_option linter.unusedVariables false
namespace PV.C13
open PV.Expr PV.C11
open PV.C02

variable {src : List Nat} {σ : SpanTab} {N : Nat}

theorem ostep_test (T : TiledTab src σ N) {n} (ih : BelowO src σ N n) :
    ∀ ts e rest, ts.length ≤ N → parseRTest σ n ts = some (e, rest) → plain e = true → ordE e = true := by
  intro ts e rest hN
  fun_cases parseRTest σ n ts
  ostp T σ ih [orTest, test, lambda] [orTest, test, lambda]

theorem ostep_namedTest (T : TiledTab src σ N) {n} (ih : BelowO src σ N n) :
    ∀ ts e rest, ts.length ≤ N → parseRNamedTest σ n ts = some (e, rest) → plain e = true → ordE e = true := by
  intro ts e rest hN
  fun_cases parseRNamedTest σ n ts
  ostp T σ ih [test] [test]

theorem ostep_starOrNamed (T : TiledTab src σ N) {n} (ih : BelowO src σ N n) :
    ∀ ts e rest, ts.length ≤ N → parseRStarOrNamed σ n ts = some (e, rest) → plain e = true → ordE e = true := by
  intro ts e rest hN
  fun_cases parseRStarOrNamed σ n ts
  ostp T σ ih [bin, namedTest] [bin, namedTest]

theorem ostep_testOrStar (T : TiledTab src σ N) {n} (ih : BelowO src σ N n) :
    ∀ ts e rest, ts.length ≤ N → parseRTestOrStar σ n ts = some (e, rest) → plain e = true → ordE e = true := by
  intro ts e rest hN
  fun_cases parseRTestOrStar σ n ts
  ostp T σ ih [bin, test] [bin, test]

theorem ostep_orTest (T : TiledTab src σ N) {n} (ih : BelowO src σ N n) :
    ∀ ts e rest, ts.length ≤ N → parseROrTest σ n ts = some (e, rest) → plain e = true → ordE e = true := by
  intro ts e rest hN
  fun_cases parseROrTest σ n ts
  ostp T σ ih [andTest, orRest] [andTest, orRest]

theorem ostep_orRest (T : TiledTab src σ N) {n} (ih : BelowO src σ N n) :
    ∀ ts es rest, ts.length ≤ N → parseROrRest σ n ts = some (es, rest) → plainL es = true → ordL es = true := by
  intro ts es rest hN
  fun_cases parseROrRest σ n ts
  ostp T σ ih [andTest, orRest] [andTest, orRest]

theorem ostep_andTest (T : TiledTab src σ N) {n} (ih : BelowO src σ N n) :
    ∀ ts e rest, ts.length ≤ N → parseRAndTest σ n ts = some (e, rest) → plain e = true → ordE e = true := by
  intro ts e rest hN
  fun_cases parseRAndTest σ n ts
  ostp T σ ih [notTest, andRest] [notTest, andRest]

theorem ostep_andRest (T : TiledTab src σ N) {n} (ih : BelowO src σ N n) :
    ∀ ts es rest, ts.length ≤ N → parseRAndRest σ n ts = some (es, rest) → plainL es = true → ordL es = true := by
  intro ts es rest hN
  fun_cases parseRAndRest σ n ts
  ostp T σ ih [notTest, andRest] [notTest, andRest]

theorem ostep_notTest (T : TiledTab src σ N) {n} (ih : BelowO src σ N n) :
    ∀ ts e rest, ts.length ≤ N → parseRNotTest σ n ts = some (e, rest) → plain e = true → ordE e = true := by
  intro ts e rest hN
  fun_cases parseRNotTest σ n ts
  ostp T σ ih [notTest, cmp] [notTest, cmp]

theorem ostep_cmp (T : TiledTab src σ N) {n} (ih : BelowO src σ N n) :
    ∀ ts e rest, ts.length ≤ N → parseRCmp σ n ts = some (e, rest) → plain e = true → ordE e = true := by
  intro ts e rest hN
  fun_cases parseRCmp σ n ts
  ostp T σ ih [bin, cmpRest] [bin, cmpRest]

theorem ostep_cmpRest (T : TiledTab src σ N) {n} (ih : BelowO src σ N n) :
    ∀ ts ops cs rest, ts.length ≤ N → parseRCmpRest σ n ts = some ((ops, cs), rest) →
    plainL cs = true → ordL cs = true := by
  intro ts ops cs rest hN
  fun_cases parseRCmpRest σ n ts
  ostp T σ ih [bin, cmpRest] [bin, cmpRest]

theorem ostep_bin (T : TiledTab src σ N) {n} (ih : BelowO src σ N n) :
    ∀ lvl ts e rest, ts.length ≤ N → parseRBin σ lvl n ts = some (e, rest) → plain e = true → ordE e = true := by
  intro lvl ts e rest hN
  by_cases hl : lvl ≥ 5 <;> fun_cases parseRBin σ lvl n ts
  all_goals try simp only [hl, ↓reduceIte] at *
  ostp T σ ih [factor, bin, binLoop] [factor, bin, binLoop]

theorem ostep_binLoop (T : TiledTab src σ N) {n} (ih : BelowO src σ N n) :
    ∀ lvl st j0 acc ts e rest, st = S σ j0 → ts.length < j0 → j0 ≤ N → Win src σ j0 (ts.length + 1) acc →
    (plain acc = true → ordE acc = true) → parseRBinLoop σ lvl n st acc ts = some (e, rest) →
    plain e = true → ordE e = true := by
  intro lvl st j0 acc ts e rest h0 h1 h2 h3 h4
  by_cases hl : lvl ≥ 5 <;> fun_cases parseRBinLoop σ lvl n st acc ts
  all_goals try simp only [hl, ↓reduceIte] at *
  ostp T σ ih [factor, bin, binLoop] [factor, bin, binLoop]

theorem ostep_factor (T : TiledTab src σ N) {n} (ih : BelowO src σ N n) :
    ∀ ts e rest, ts.length ≤ N → parseRFactor σ n ts = some (e, rest) → plain e = true → ordE e = true := by
  intro ts e rest hN
  fun_cases parseRFactor σ n ts
  ostp T σ ih [factor, power] [factor, power]

theorem ostep_power (T : TiledTab src σ N) {n} (ih : BelowO src σ N n) :
    ∀ ts e rest, ts.length ≤ N → parseRPower σ n ts = some (e, rest) → plain e = true → ordE e = true := by
  intro ts e rest hN
  fun_cases parseRPower σ n ts
  ostp T σ ih [factor, atomExpr] [factor, atomExpr]

theorem ostep_atomExpr (T : TiledTab src σ N) {n} (ih : BelowO src σ N n) :
    ∀ ts e rest, ts.length ≤ N → parseRAtomExpr σ n ts = some (e, rest) → plain e = true → ordE e = true := by
  intro ts e rest hN
  fun_cases parseRAtomExpr σ n ts
  ostp T σ ih [atomExpr2] [atomExpr2]

theorem ostep_atomExpr2 (T : TiledTab src σ N) {n} (ih : BelowO src σ N n) :
    ∀ ts e rest, ts.length ≤ N → parseRAtomExpr2 σ n ts = some (e, rest) → plain e = true → ordE e = true := by
  intro ts e rest hN
  fun_cases parseRAtomExpr2 σ n ts
  ostp T σ ih [atom, trailers] [atom, trailers]

theorem ostep_trailers (T : TiledTab src σ N) {n} (ih : BelowO src σ N n) :
    ∀ st j0 acc ts e rest, st = S σ j0 → ts.length < j0 → j0 ≤ N → Win src σ j0 (ts.length + 1) acc →
    (plain acc = true → ordE acc = true) → parseRTrailers σ n st acc ts = some (e, rest) →
    plain e = true → ordE e = true := by
  intro st j0 acc ts e rest h0 h1 h2 h3 h4
  fun_cases parseRTrailers σ n st acc ts
  ostp T σ ih [args0, subscriptList, trailers] [args0, subscriptList, trailers]

theorem ostep_args (T : TiledTab src σ N) {n} (ih : BelowO src σ N n) :
    ∀ ts as ks d as' ks' rest jl, SeqI src σ jl (ts.length + 1) as → SeqK src σ jl (ts.length + 1) ks →
    ts.length + 1 ≤ jl → jl ≤ N → parseRArgs σ n ts as ks d = some ((as', ks'), rest) →
    (plainL as = true → ordL as = true) → (plainKws ks = true → ordKws 0 ks = true) →
    (plainL as' = true → ordL as' = true) ∧ (plainKws ks' = true → ordKws 0 ks' = true) := by
  intro ts as ks d as' ks' rest jl hs hk hj hN
  fun_cases parseRArgs σ n ts as ks d
  ostp T σ ih [arg, args] [arg, args]

theorem ostep_arg (T : TiledTab src σ N) {n} (ih : BelowO src σ N n) :
    ∀ ts as ks d as' ks' d' rest jl, SeqI src σ jl (ts.length + 1) as → SeqK src σ jl (ts.length + 1) ks →
    ts.length + 1 ≤ jl → jl ≤ N → parseRArg σ n ts as ks d = some (as', ks', d', rest) →
    (plainL as = true → ordL as = true) → (plainKws ks = true → ordKws 0 ks = true) →
    (plainL as' = true → ordL as' = true) ∧ (plainKws ks' = true → ordKws 0 ks' = true) := by
  intro ts as ks d as' ks' d' rest jl hs hk hj hN
  fun_cases parseRArg σ n ts as ks d
  ostp T σ ih [test, namedTest, compFor] [test, namedTest, compFor]

theorem ostep_args0 (T : TiledTab src σ N) {n} (ih : BelowO src σ N n) :
    ∀ ts as' ks' rest, ts.length + 1 ≤ N → parseRArgs σ n ts [] [] false = some ((as', ks'), rest) →
    (plainL as' = true → ordL as' = true) ∧ (plainKws ks' = true → ordKws 0 ks' = true) :=
  fun ts as' ks' rest hN h =>
    ostep_args T ih ts [] [] false as' ks' rest (ts.length + 1) seqI_nil seqK_nil (Nat.le_refl _) hN h
      (fun _ => rfl) (fun _ => rfl)
theorem ostep_subscriptList (T : TiledTab src σ N) {n} (ih : BelowO src σ N n) :
    ∀ ts e rest, ts.length ≤ N → parseRSubscriptList σ n ts = some (e, rest) → plain e = true → ordE e = true := by
  intro ts e rest hN
  fun_cases parseRSubscriptList σ n ts
  ostp T σ ih [subscript, subscripts] [subscript, subscripts]

theorem ostep_subscripts (T : TiledTab src σ N) {n} (ih : BelowO src σ N n) :
    ∀ ts es rest, ts.length ≤ N → parseRSubscripts σ n ts = some (es, rest) → plainL es = true → ordL es = true := by
  intro ts es rest hN
  fun_cases parseRSubscripts σ n ts
  ostp T σ ih [subscript, subscripts] [subscript, subscripts]

theorem ostep_subscript (T : TiledTab src σ N) {n} (ih : BelowO src σ N n) :
    ∀ ts e rest, ts.length ≤ N → parseRSubscript σ n ts = some (e, rest) → plain e = true → ordE e = true := by
  intro ts e rest hN
  fun_cases parseRSubscript σ n ts
  ostp_pre T σ ih [sliceRest, starOrNamed, namedTest, test] [sliceRest, starOrNamed, namedTest, test]
  all_goals try simp only [reduceCtorEq, false_imp_iff, implies_true, true_imp_iff, Nat.le_refl, Option.some.injEq,
    forall_eq'] at *
  all_goals grind [RExpr.range]

theorem ostep_atom (T : TiledTab src σ N) {n} (ih : BelowO src σ N n) :
    ∀ ts e rest, ts.length ≤ N → parseRAtom σ n ts = some (e, rest) → plain e = true → ordE e = true := by
  intro ts e rest hN
  fun_cases parseRAtom σ n ts
  ostp T σ ih [strings, listAtom, parenAtom, braceAtom] [strings, listAtom, parenAtom, braceAtom]

theorem ostep_listAtom (T : TiledTab src σ N) {n} (ih : BelowO src σ N n) :
    ∀ ts e rest, ts.length + 1 ≤ N → parseRListAtom σ n ts = some (e, rest) → plain e = true → ordE e = true := by
  intro ts e rest hN
  fun_cases parseRListAtom σ n ts
  ostp T σ ih [starOrNamed, compFor, elems] [starOrNamed, compFor, elems]

theorem ostep_parenAtom (T : TiledTab src σ N) {n} (ih : BelowO src σ N n) :
    ∀ ts e rest, ts.length + 1 ≤ N → parseRParenAtom σ n ts = some (e, rest) → plain e = true → ordE e = true := by
  intro ts e rest hN
  fun_cases parseRParenAtom σ n ts
  ostp T σ ih [starOrNamed, compFor, elems, yieldAtom] [starOrNamed, compFor, elems, yieldAtom]

theorem ostep_yieldAtom (T : TiledTab src σ N) {n} (ih : BelowO src σ N n) :
    ∀ ts e rest, ts.length + 2 ≤ N → parseRYieldAtom σ n ts = some (e, rest) → plain e = true → ordE e = true := by
  intro ts e rest hN
  fun_cases parseRYieldAtom σ n ts
  ostp T σ ih [test, testList] [test, testList]

theorem ostep_braceAtom (T : TiledTab src σ N) {n} (ih : BelowO src σ N n) :
    ∀ ts e rest, ts.length + 1 ≤ N → parseRBraceAtom σ n ts = some (e, rest) → plain e = true → ordE e = true := by
  intro ts e rest hN
  fun_cases parseRBraceAtom σ n ts
  ostp T σ ih [bin, dictRest, braceFirst, test, compFor, elems] [bin, dictRest, braceFirst, test, compFor, elems]

theorem ostep_braceFirst (T : TiledTab src σ N) {n} (ih : BelowO src σ N n) :
    ∀ ts e b rest, ts.length ≤ N → parseRBraceFirst σ n ts = some (e, b, rest) → plain e = true → ordE e = true := by
  intro ts e b rest hN
  fun_cases parseRBraceFirst σ n ts
  ostp T σ ih [starOrNamed, namedTest, test] [starOrNamed, namedTest, test]

theorem ostep_elems (T : TiledTab src σ N) {n} (ih : BelowO src σ N n) :
    ∀ close ts es tc rest, ts.length + 1 ≤ N → parseRElems σ n close ts = some ((es, tc), rest) →
    plainL es = true → ordL es = true := by
  intro close ts es tc rest hN
  fun_cases parseRElems σ n close ts
  ostp T σ ih [starOrNamed, elems] [starOrNamed, elems]

theorem ostep_dictRest (T : TiledTab src σ N) {n} (ih : BelowO src σ N n) :
    ∀ ts is rest, ts.length + 1 ≤ N → parseRDictRest σ n ts = some (is, rest) →
    plainItems is = true → ordItems is = true := by
  intro ts is rest hN
  fun_cases parseRDictRest σ n ts
  ostp T σ ih [bin, dictRest, test] [bin, dictRest, test]

theorem ostep_compFor (T : TiledTab src σ N) {n} (ih : BelowO src σ N n) :
    ∀ ts gs rest, ts.length ≤ N → parseRCompFor σ n ts = some (gs, rest) →
    plainComps gs = true → ordComps gs = true := by
  intro ts gs rest hN
  fun_cases parseRCompFor σ n ts
  ostp T σ ih [targetList, orTest, compIfs, compFor] [targetList, orTest, compIfs, compFor]

theorem ostep_compIfs (T : TiledTab src σ N) {n} (ih : BelowO src σ N n) :
    ∀ ts es rest, ts.length ≤ N → parseRCompIfs σ n ts = some (es, rest) → plainL es = true → ordL es = true := by
  intro ts es rest hN
  fun_cases parseRCompIfs σ n ts
  ostp T σ ih [orTest, compIfs] [orTest, compIfs]

theorem ostep_exprOrStar (T : TiledTab src σ N) {n} (ih : BelowO src σ N n) :
    ∀ ts e rest, ts.length ≤ N → parseRExprOrStar σ n ts = some (e, rest) → plain e = true → ordE e = true := by
  intro ts e rest hN
  fun_cases parseRExprOrStar σ n ts
  ostp T σ ih [bin] [bin]

theorem ostep_targetList (T : TiledTab src σ N) {n} (ih : BelowO src σ N n) :
    ∀ ts e rest, ts.length ≤ N → parseRTargetList σ n ts = some (e, rest) → plain e = true → ordE e = true := by
  intro ts e rest hN
  fun_cases parseRTargetList σ n ts
  ostp T σ ih [exprOrStar, targetRest] [exprOrStar, targetRest]

theorem ostep_targetRest (T : TiledTab src σ N) {n} (ih : BelowO src σ N n) :
    ∀ ts es rest, ts.length ≤ N → parseRTargetRest σ n ts = some (es, rest) → plainL es = true → ordL es = true := by
  intro ts es rest hN
  fun_cases parseRTargetRest σ n ts
  ostp T σ ih [exprOrStar, targetRest] [exprOrStar, targetRest]

theorem ostep_testList (T : TiledTab src σ N) {n} (ih : BelowO src σ N n) :
    ∀ ts e rest, ts.length ≤ N → parseRTestList σ n ts = some (e, rest) → plain e = true → ordE e = true := by
  intro ts e rest hN
  fun_cases parseRTestList σ n ts
  ostp T σ ih [testOrStar, testListRest] [testOrStar, testListRest]

theorem ostep_testListRest (T : TiledTab src σ N) {n} (ih : BelowO src σ N n) :
    ∀ ts es rest, ts.length ≤ N → parseRTestListRest σ n ts = some (es, rest) → plainL es = true → ordL es = true := by
  intro ts es rest hN
  fun_cases parseRTestListRest σ n ts
  ostp T σ ih [testOrStar, testListRest] [testOrStar, testListRest]

/-! ### `parseRStrings`: a constant, or an f-string (not `plain`) -/

theorem ostep_strings (T : TiledTab src σ N) {n} (_ih : BelowO src σ N n) :
    ∀ t r e rest, (t :: r).length ≤ N → isStringTok t = true →
    parseRStrings σ n (t :: r) = some (e, rest) → plain e = true → ordE e = true := by
  intro t r e rest hN ht h hp
  cases n with
  | zero => simp [parseRStrings] at h
  | succ f =>
    rw [parseRStrings.eq_def] at h
    simp only [List.dropWhile, ht, List.takeWhile] at h
    have hd := dropWhile_len isStringTok r
    simp only [List.length_cons] at hN
    have hc : ∀ c, ordE (.const (L σ (t :: r), R σ (List.dropWhile isStringTok r)) c) = true := fun c =>
      ord_const (σ := σ) T (j := r.length + 1) (k := (List.dropWhile isStringTok r).length + 1) (by omega) (by omega)
        (by omega)
    split at h
    · split at h
      · cases h
      · simp only [Option.some.injEq, Prod.mk.injEq] at h
        obtain ⟨rfl, rfl⟩ := h
        exact hc _
    · split at h
      · simp only [Option.some.injEq, Prod.mk.injEq] at h
        obtain ⟨rfl, rfl⟩ := h
        exact hc _
      · split at h
        · simp only [Option.some.injEq, Prod.mk.injEq] at h
          obtain ⟨rfl, rfl⟩ := h
          simp [plain] at hp
        · cases h

/-! ### `parseRParams` / `parseRLambda` -/

theorem ord_param (T : TiledTab src σ N) {m : Nat} {n : Ident} (h1 : 1 ≤ m) (h2 : m ≤ N) :
    ordPs [.mk (σ m) (σ m) n none] = true := by
  have := T.SE h1 h2
  simp only [ordPs, optRg, chain, ordO, Bool.and_eq_true, decide_eq_true_eq, and_true]
  omega

theorem ord_param_default (T : TiledTab src σ N) {m jc kc : Nat} {n : Ident} {d : RExpr} (hd : Win src σ jc kc d)
    (pd : plain d = true) (od : ordE d = true) (h1 : 1 ≤ jc) (h2 : jc < m) (h3 : m ≤ N) :
    ordPs [.mk ((σ m).1, d.range.2) (σ m) n (some d)] = true := by
  obtain ⟨d1, d2, d3⟩ := win_rg hd pd
  have e1 := T.SE (k := m) (by omega) h3
  have e2 := T.ES h1 h2 h3
  simp only [ordPs, optRg, chain, ordO, od, Bool.and_eq_true, decide_eq_true_eq, and_true]
  simp only [S, E] at *
  omega

theorem ordPs_snoc {ps : List RParam} {a : RParam} (h : plainParams ps = true → ordPs ps = true)
    (ha : plainParams [a] = true → ordPs [a] = true) : plainParams (ps ++ [a]) = true → ordPs (ps ++ [a]) = true := by
  intro hp
  rw [plainParams_append, Bool.and_eq_true] at hp
  rw [ordPs_append, Bool.and_eq_true]
  exact ⟨h hp.1, ha hp.2⟩

/-- one item of a parameter list keeps the parameters ordered -/
theorem itemR_ord (T : TiledTab src σ N) {f} (ihf : OrdAt src σ N f) {ts ps ph ps' ph' r j0}
    (hj : ts.length ≤ j0) (hN : j0 + 1 ≤ N) (h : itemR σ f ts ps ph = some (ps', ph', r)) (ho : ordParams ps) :
    ordParams ps' := by
  obtain ⟨o1, o2, o3, o4, o5⟩ := ho
  unfold itemR at h
  split at h
  · -- name = default
    rename_i n r0
    simp only [List.length_cons] at hj h
    split at h
    · split at h
      · rename_i d r' hd
        obtain ⟨g1, g2, _⟩ := c02_test T f _ _ _ (by omega) hd
        have od := ihf.test _ _ _ (by omega) hd
        have hitem : plainParams [.mk ((σ (r0.length + 1 + 1)).1, d.range.2) (σ (r0.length + 1 + 1)) n (some d)] = true →
            ordPs [.mk ((σ (r0.length + 1 + 1)).1, d.range.2) (σ (r0.length + 1 + 1)) n (some d)] = true := by
          intro hp
          simp only [plainParams, plainO, Bool.and_true] at hp
          exact ord_param_default T g2 hp (od hp) (by omega) (by omega) (by omega)
        split at h <;> simp only [Option.some.injEq, Prod.mk.injEq] at h <;> obtain ⟨rfl, rfl, rfl⟩ := h
        · exact ⟨o1, o2, o3, ordPs_snoc o4 hitem, o5⟩
        · exact ⟨o1, ordPs_snoc o2 hitem, o3, o4, o5⟩
      · cases h
    · cases h
  · -- bare name
    rename_i n r0 hne
    simp only [List.length_cons] at hj h
    have hitem : plainParams [.mk (σ (r0.length + 1)) (σ (r0.length + 1)) n none] = true →
        ordPs [.mk (σ (r0.length + 1)) (σ (r0.length + 1)) n none] = true :=
      fun _ => ord_param T (by omega) (by omega)
    split at h
    · simp only [Option.some.injEq, Prod.mk.injEq] at h; obtain ⟨rfl, rfl, rfl⟩ := h
      exact ⟨o1, o2, o3, ordPs_snoc o4 hitem, o5⟩
    · split at h
      · simp only [Option.some.injEq, Prod.mk.injEq] at h; obtain ⟨rfl, rfl, rfl⟩ := h
        exact ⟨o1, ordPs_snoc o2 hitem, o3, o4, o5⟩
      · cases h
  · -- "/"
    split at h
    · simp only [Option.some.injEq, Prod.mk.injEq] at h; obtain ⟨rfl, rfl, rfl⟩ := h
      exact ⟨o2, fun _ => rfl, o3, o4, o5⟩
    · cases h
  · -- "*" name
    rename_i n r0
    simp only [List.length_cons] at hj
    split at h
    · simp only [Option.some.injEq, Prod.mk.injEq] at h; obtain ⟨rfl, rfl, rfl⟩ := h
      refine ⟨o1, o2, ?_, o4, o5⟩
      simp only [ordArgO, decide_eq_true_eq]
      exact T.SE (by omega) (by omega)
    · cases h
  · -- bare "*"
    split at h
    · simp only [Option.some.injEq, Prod.mk.injEq] at h; obtain ⟨rfl, rfl, rfl⟩ := h
      exact ⟨o1, o2, o3, o4, o5⟩
    · cases h
  · -- "**" name
    rename_i n r0
    simp only [List.length_cons] at hj
    split at h
    · simp only [Option.some.injEq, Prod.mk.injEq] at h; obtain ⟨rfl, rfl, rfl⟩ := h
      refine ⟨o1, o2, o3, o4, ?_⟩
      simp only [ordArgO, decide_eq_true_eq]
      exact T.SE (by omega) (by omega)
    · cases h
  · -- bare "**"
    split at h
    · simp only [Option.some.injEq, Prod.mk.injEq] at h; obtain ⟨rfl, rfl, rfl⟩ := h
      exact ⟨o1, o2, o3, o4, o5⟩
    · cases h
  · cases h

theorem ostep_params (T : TiledTab src σ N) {n} (ih : BelowO src σ N n) :
    ∀ ts ps ph ps' rest j0, PInv src σ j0 (ts.length + 1) ph ps → ts.length ≤ j0 → j0 + 1 ≤ N →
    parseRParams σ n ts ps ph = some (ps', rest) → ordParams ps → ordParams ps' := by
  intro ts ps ph ps' rest j0 hP hj hN h ho
  cases n with
  | zero => simp [parseRParams] at h
  | succ f =>
    have ihf := ih _ rfl
    by_cases hc : ∃ r, ts = .op .colon :: r
    · obtain ⟨r, rfl⟩ := hc
      simp only [parseRParams, Option.some.injEq, Prod.mk.injEq] at h
      obtain ⟨rfl, rfl⟩ := h
      exact ho
    · have hc' : ∀ r, ts = .op .colon :: r → False := fun r h => hc ⟨r, h⟩
      rw [paramsR_unfold σ f ts ps ph hc'] at h
      cases hi : itemR σ f ts ps ph with
      | none => simp [hi, tailR] at h
      | some p =>
        obtain ⟨ps1, ph1, r⟩ := p
        obtain ⟨hl, hP1⟩ := itemR_spec T (soundAt T f) hP hj hN hi
        have ho1 := itemR_ord T ihf hj hN hi ho
        rw [hi] at h
        simp only [tailR] at h
        split at h
        · split at h
          · simp only [Option.some.injEq, Prod.mk.injEq] at h; obtain ⟨rfl, rfl⟩ := h
            exact ho1
          · cases h
        · rename_i r2 hne
          simp only [List.length_cons] at hl hP1
          exact ihf.params _ _ _ _ _ j0 (pinv_mono T hP1 (by omega) (by omega) (by omega)) (by omega) hN h ho1
        · split at h
          · simp only [Option.some.injEq, Prod.mk.injEq] at h; obtain ⟨rfl, rfl⟩ := h
            exact ho1
          · cases h
        · cases h

/-- `Lambda`: the `Arguments` node `(a1, a2)` behind the keyword and in front of the body, the parameter items inside -/
theorem ord_lambda_gen (T : TiledTab src σ N) {j k jb kb l h a1 a2 : Nat} {po ar va ko kw} {bd : RExpr}
    (hb : Win src σ jb kb bd) (pb : plain bd = true) (ob : ordE bd = true)
    (hs : SeqG (RSI src) l h (argItems po ar va ko kw)) (hpl : ∀ x ∈ argItems po ar va ko kw, x.plain = true)
    (o1 : ordPs po = true) (o2 : ordPs ar = true) (o3 : ordArgO va = true) (o4 : ordPs ko = true)
    (o5 : ordArgO kw = true)
    (c1 : S σ j ≤ a1) (c2 : a1 ≤ l) (c3 : h ≤ a2) (c4 : a1 ≤ a2) (c5 : a2 ≤ S σ jb) (c6 : k ≤ kb) (c7 : 1 ≤ k)
    (c8 : kb ≤ N) : ordE (.lambda (S σ j, E σ k) (a1, a2) po ar va ko kw bd) = true := by
  obtain ⟨b1, b2, b3⟩ := win_rg hb pb
  have e1 := T.EE c7 c6 c8
  simp only [ordE, chain, lamSegs_eq, o1, o2, o3, o4, o5, ob, Bool.and_eq_true, decide_eq_true_eq, and_true]
  refine ⟨?_, chain_seqP hs hpl c2 c3 c4⟩
  simp only [S, E] at *
  omega

theorem ostep_lambda (T : TiledTab src σ N) {n} (ih : BelowO src σ N n) :
    ∀ ts e rest, ts.length + 1 ≤ N → parseRLambda σ n ts = some (e, rest) → plain e = true → ordE e = true := by
  intro ts e rest hN h hp
  have hP := pinv_empty src σ ts.length (ts.length + 1)
  cases n with
  | zero => simp [parseRLambda] at h
  | succ f =>
    have ihf := ih _ rfl
    rw [parseRLambda.eq_def] at h
    simp only [] at h
    split at h
    · rename_i ps r hps
      obtain ⟨q1, q2, q3, ph', q4, _⟩ := c02_params T f _ _ _ _ _ _ hP (Nat.le_refl _) hN hps
      have ho : ordParams ps := ihf.params _ _ _ _ _ _ hP (Nat.le_refl _) hN hps
        ⟨fun _ => rfl, fun _ => rfl, rfl, fun _ => rfl, rfl⟩
      obtain ⟨o1, o2, o3, o4, o5⟩ := ho
      split at h
      · split at h
        · rename_i body r' hb
          simp only [Option.some.injEq, Prod.mk.injEq] at h
          obtain ⟨rfl, rfl⟩ := h
          simp only [List.length_cons] at q1 q2 q4
          obtain ⟨g1, g2, _⟩ := c02_test T f _ _ _ (by omega) hb
          have ob := ihf.test _ _ _ (by omega) hb
          simp only [plain, Bool.and_eq_true] at hp
          obtain ⟨⟨⟨p1, p2⟩, p3⟩, pb⟩ := hp
          by_cases hc : ∃ tl, ts = .op .colon :: tl
          · obtain ⟨tl, rfl⟩ := hc
            have hps' : ps = {} := q3 ⟨tl, rfl⟩
            subst hps'
            simp only [List.length_cons] at hN q1 g2 ⊢
            have e1 := T.SE (k := tl.length + 1 + 1) (by omega) (by omega)
            have e2 := T.ES (j := tl.length + 1 + 1) (k := r.length) (by omega) (by omega) (by omega)
            simp only [P, R, L, List.length_cons]
            exact ord_lambda_gen (σ := σ) T (j := tl.length + 1 + 1) (k := r'.length + 1)
              (l := E σ (tl.length + 1 + 1)) (h := E σ (tl.length + 1 + 1)) g2 pb (ob pb) trivial
              (plain_argItems p1 p2 p3) rfl rfl rfl rfl rfl e1 (Nat.le_refl _) (Nat.le_refl _) (Nat.le_refl _) e2
              (Nat.le_refl _) (by omega) (by omega)
          · have hc' : ∀ tl, ts ≠ .op .colon :: tl := fun tl h => hc ⟨tl, h⟩
            have q2' := q2 hc'
            split
            · exact absurd rfl (hc' _)
            have e1 := T.SS (j := ts.length + 1) (k := ts.length) (by omega) (by omega) (by omega)
            have e2 := T.ES (j := r.length + 2) (k := r.length) (by omega) (by omega) (by omega)
            have e3 := T.SE' (j := ts.length) (k := r.length + 2) (by omega) (by omega) (by omega)
            simp only [P, R, L, List.length_cons]
            exact ord_lambda_gen (σ := σ) T (j := ts.length + 1) (k := r'.length + 1) g2 pb (ob pb) q4
              (plain_argItems p1 p2 p3) (o1 p1) (o2 p2) o3 (o4 p3) o5 e1 (Nat.le_refl _) (Nat.le_refl _) e3 e2
              (Nat.le_refl _) (by omega) (by omega)
        · cases h
      · cases h
    · cases h

/-! ### `parseRSliceRest` -/

/-- an optional child between two positions -/
def insideO (x : Option RExpr) (lo hi : Nat) : Prop :=
  ∀ e, x = some e → lo ≤ e.range.1 ∧ e.range.1 ≤ e.range.2 ∧ e.range.2 ≤ hi

theorem chain_opt3 {x y z : Option RExpr} {a p1 p2 b : Nat} (h0 : a ≤ p1) (h1 : p1 ≤ p2) (h2 : p2 ≤ b)
    (hx : insideO x a p1) (hy : insideO y p1 p2) (hz : insideO z p2 b) :
    chain a (optRg x ++ (optRg y ++ optRg z)) b = true := by
  rcases x with _ | x <;> rcases y with _ | y <;> rcases z with _ | z <;>
    simp only [optRg, List.nil_append, List.cons_append, chain, Bool.and_eq_true, decide_eq_true_eq] <;>
    (try have qx := hx _ rfl) <;> (try have qy := hy _ rfl) <;> (try have qz := hz _ rfl) <;> omega

theorem ostep_sliceRest (T : TiledTab src σ N) {n} (ih : BelowO src σ N n) :
    ∀ st j0 lower ts e rest, st = S σ j0 → ts.length ≤ j0 → j0 ≤ N → (lower = none → j0 = ts.length) →
    (∀ l, lower = some l → ts.length < j0 ∧ Win src σ j0 (ts.length + 1) l) →
    (∀ l, lower = some l → plain l = true → ordE l = true) →
    parseRSliceRest σ n st lower ts = some (e, rest) → plain e = true → ordE e = true := by
  intro st j0 lower ts e rest h0 h1 h2 h3 h4 h5 h hp
  cases n with
  | zero => simp [parseRSliceRest] at h
  | succ f =>
    have ihf := ih _ rfl
    have c02 := c02_test T f
    by_cases hc : ∃ r, ts = .op .colon :: r
    · obtain ⟨r, rfl⟩ := hc
      rw [sliceRest_unfold] at h
      simp only [List.length_cons] at h1 h3 h4
      subst h0
      cases hu : sliceUp σ f r with
      | none => simp [hu, sliceTail] at h
      | some p =>
        obtain ⟨upper, r2⟩ := p
        rw [hu] at h
        -- what the upper bound is
        have hup : r2.length ≤ r.length ∧ (∀ u, upper = some u →
            Win src σ r.length (r2.length + 1) u ∧ r2.length < r.length ∧ (plain u = true → ordE u = true)) := by
          rcases sliceUp_spec hu with ⟨rfl, rfl⟩ | ⟨u, rfl, hu'⟩
          · exact ⟨Nat.le_refl _, fun u hu => by cases hu⟩
          · obtain ⟨g1, g2, _⟩ := c02 _ _ _ (by omega) hu'
            exact ⟨by omega, fun u' hu'' => by cases hu''; exact ⟨g2, g1, ihf.test _ _ _ (by omega) hu'⟩⟩
        -- the node for a result cursor `r3` not before `r2`
        have build : ∀ (step : Option RExpr) (r3 : List Tok), r3.length ≤ r2.length →
            (∀ s, step = some s → Win src σ (r2.length - 1) (r3.length + 1) s ∧ 2 ≤ r2.length ∧
              (plain s = true → ordE s = true)) →
            plain (.slice (S σ j0, E σ (r3.length + 1)) lower upper step) = true →
            ordE (.slice (S σ j0, E σ (r3.length + 1)) lower upper step) = true := by
          intro step r3 hr3 hs hpl
          simp only [plain, Bool.and_eq_true] at hpl
          obtain ⟨⟨pl, pu⟩, ps⟩ := hpl
          have ol : ordO lower = true := by
            cases lower with
            | none => rfl
            | some l => exact h5 l rfl pl
          have ou : ordO upper = true := by
            cases upper with
            | none => rfl
            | some u => exact (hup.2 u rfl).2.2 pu
          have os : ordO step = true := by
            cases step with
            | none => rfl
            | some s => exact (hs s rfl).2.2 ps
          simp only [ordE, ol, ou, os, Bool.and_true]
          have a0 := T.SS (j := j0) (k := r.length + 1) (by omega) h1 h2
          have a1 := T.SE' (j := r.length + 1) (k := r2.length + 1) (by omega) (by omega) (by omega)
          have a2 := T.EE (j := r2.length + 1) (k := r3.length + 1) (by omega) (by omega) (by omega)
          refine chain_opt3 (p1 := S σ (r.length + 1)) (p2 := E σ (r2.length + 1)) a0 a1 a2 ?_ ?_ ?_
          · intro l hl
            subst hl
            obtain ⟨g0, g⟩ := h4 l rfl
            obtain ⟨l1, l2, l3⟩ := win_rg g pl
            have := T.ES (j := r.length + 1 + 1) (k := r.length + 1) (by omega) (by omega) (by omega)
            simp only [S, E] at *
            omega
          · intro u hu
            subst hu
            obtain ⟨g, g', _⟩ := hup.2 u rfl
            obtain ⟨u1, u2, u3⟩ := win_rg g pu
            have := T.ES (j := r.length + 1) (k := r.length) (by omega) (by omega) (by omega)
            have := T.SE (k := r.length + 1) (by omega) (by omega)
            simp only [S, E] at *
            omega
          · intro s hs'
            subst hs'
            obtain ⟨g, g', _⟩ := hs s rfl
            obtain ⟨s1, s2, s3⟩ := win_rg g ps
            have := T.ES (j := r2.length + 1) (k := r2.length - 1) (by omega) (by omega) (by omega)
            simp only [S, E] at *
            omega
        simp only [sliceTail] at h
        split at h
        · cases h
        · rename_i heq
          simp only [Option.some.injEq, Prod.mk.injEq] at heq
          obtain ⟨rfl, rfl⟩ := heq
          simp only [List.length_cons] at hup build
          split at h
          · simp only [Option.some.injEq, Prod.mk.injEq] at h; obtain ⟨rfl, rfl⟩ := h
            exact build none _ (by omega) (fun s hs => by cases hs) hp
          · simp only [Option.some.injEq, Prod.mk.injEq] at h; obtain ⟨rfl, rfl⟩ := h
            exact build none _ (by omega) (fun s hs => by cases hs) hp
          · split at h
            · rename_i stp r3 hst
              simp only [Option.some.injEq, Prod.mk.injEq] at h; obtain ⟨rfl, rfl⟩ := h
              obtain ⟨g1, g2, _⟩ := c02 _ _ _ (by omega) hst
              refine build (some stp) _ (by omega) (fun s hs => ?_) hp
              cases hs
              exact ⟨by simpa using g2, by omega, ihf.test _ _ _ (by omega) hst⟩
            · cases h
        · rename_i heq
          simp only [Option.some.injEq, Prod.mk.injEq] at heq
          obtain ⟨rfl, rfl⟩ := heq
          simp only [Option.some.injEq, Prod.mk.injEq] at h; obtain ⟨rfl, rfl⟩ := h
          exact build none _ (Nat.le_refl _) (fun s hs => by cases hs) hp
    · have hc' : ∀ r, ts = .op .colon :: r → False := fun r h => hc ⟨r, h⟩
      rw [parseRSliceRest.eq_def] at h
      split at h
      · cases h
      · exact absurd rfl (fun hh => hc' _ hh)
      · cases h

/-! ### assembly -/

theorem ordAt_of_below (T : TiledTab src σ N) {n : Nat} (b : BelowO src σ N n) : OrdAt src σ N n :=
  ⟨ostep_test T b, ostep_lambda T b, ostep_params T b, ostep_namedTest T b, ostep_starOrNamed T b, ostep_testOrStar T b,
   ostep_orTest T b, ostep_orRest T b, ostep_andTest T b, ostep_andRest T b, ostep_notTest T b, ostep_cmp T b,
   ostep_cmpRest T b, ostep_bin T b, ostep_binLoop T b, ostep_factor T b, ostep_power T b, ostep_atomExpr T b,
   ostep_atomExpr2 T b, ostep_trailers T b, ostep_args T b, ostep_arg T b, ostep_args0 T b, ostep_subscriptList T b,
   ostep_subscripts T b, ostep_subscript T b, ostep_sliceRest T b, ostep_atom T b, ostep_listAtom T b,
   ostep_parenAtom T b, ostep_yieldAtom T b, ostep_braceAtom T b, ostep_braceFirst T b, ostep_elems T b,
   ostep_dictRest T b, ostep_compFor T b, ostep_compIfs T b, ostep_exprOrStar T b, ostep_targetList T b,
   ostep_targetRest T b, ostep_testList T b, ostep_testListRest T b, ostep_strings T b⟩

/-- every function of the ranged expression parser returns (for `plain` results) nodes whose fields, taken in fold
    order, are in source order — at every fuel, for every tiled span table -/
theorem ordAt (T : TiledTab src σ N) : ∀ f, OrdAt src σ N f
  | 0 => ordAt_of_below T (fun f h => absurd h (by omega))
  | n + 1 => ordAt_of_below T (fun f h => by cases h; exact ordAt T n)

end PV.C13
