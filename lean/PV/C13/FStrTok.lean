import PV.C13.FStrOrd
/-
  C13 — one f-string TOKEN that is not part of an implicit concatenation: the `JoinedStr` the string production
  `parseRStrings` builds for it is laid out in fold order (`jOrd`): `strings_single_fstr_jOrd`.

  `dedupRPieces` (the merging of adjacent plain pieces in `parse_strings`) keeps `jOrd` when the range of the
  concatenation IS the range of the literal — i.e. for a single literal (`dedup_jOrd`); in a concatenation of two or
  more literals the pieces of an f-string keep the range of their own literal while the `JoinedStr` (and the merged
  constants) are ranged like the whole concatenation: `piecesOk` fails (`fstr_concat_not_jOrd`, the listed finding
  `linear-fstring-concat-piece-range` on the tree `fconcatTree` of Thm.lean).
-/
set_option linter.unusedVariables false
set_option linter.unusedSimpArgs false
namespace PV.C13
open PV.Expr PV.C11
open PV.C02

variable {src : List Nat}

/-- `parse_strings` de-duplication keeps the layout when the concatenation is ranged like the literal -/
theorem dedup_jOrd (lit : Rg) (u : Bool) : ∀ (vs : List RExpr) (cur : Option (List Nat)), piecesOk lit vs = true →
    piecesOk lit (dedupRPieces lit u (vs.map rexprToPiece) cur) = true ∧
    piecesSegs (dedupRPieces lit u (vs.map rexprToPiece) cur) = piecesSegs vs
  | [], none, _ => by simp [dedupRPieces, piecesOk, piecesSegs]
  | [], some cur, _ => by simp [dedupRPieces, piecesOk, pieceOk, piecesSegs, pieceSegs]
  | p :: ps, cur, h => by
    simp only [piecesOk, Bool.and_eq_true] at h
    obtain ⟨hp, hps⟩ := h
    have key : ∀ c, piecesOk lit (dedupRPieces lit u (ps.map rexprToPiece) c) = true ∧
        piecesSegs (dedupRPieces lit u (ps.map rexprToPiece) c) = piecesSegs ps := fun c => dedup_jOrd lit u ps c hps
    have inr : rexprToPiece p = .inr p →
        piecesOk lit (dedupRPieces lit u ((p :: ps).map rexprToPiece) cur) = true ∧
        piecesSegs (dedupRPieces lit u ((p :: ps).map rexprToPiece) cur) = piecesSegs (p :: ps) := by
      intro hr
      simp only [List.map_cons, hr]
      cases cur with
      | none => simp [dedupRPieces, piecesOk, piecesSegs, hp, key none]
      | some c => simp [dedupRPieces, piecesOk, pieceOk, piecesSegs, pieceSegs, hp, key none]
    cases p with
    | const rg c =>
      cases c with
      | str s b =>
        simp only [List.map_cons, rexprToPiece]
        cases cur with
        | none =>
          by_cases hs : s.isEmpty = true
          · simp [dedupRPieces, hs, piecesSegs, pieceSegs, key none]
          · simp [dedupRPieces, hs, piecesSegs, pieceSegs, key (some s)]
        | some c' => simp [dedupRPieces, piecesSegs, pieceSegs, key (some (c' ++ s))]
      | _ => exact inr rfl
    | _ => first | exact inr rfl | simp [pieceOk] at hp

theorem fpieceL_of_dedup (lit : Rg) (u : Bool) : ∀ (vs : List RExpr) (cur : Option (List Nat)),
    fpieceL (dedupRPieces lit u (vs.map rexprToPiece) cur) = true → fpieceL vs = true
  | [], _, _ => rfl
  | p :: ps, cur, h => by
    have inr : rexprToPiece p = .inr p → fpieceL (p :: ps) = true := by
      intro hr
      simp only [List.map_cons, hr] at h
      cases cur with
      | none =>
        simp only [dedupRPieces, fpieceL, Bool.and_eq_true] at h ⊢
        exact ⟨h.1, fpieceL_of_dedup lit u ps none h.2⟩
      | some c =>
        simp only [dedupRPieces, fpieceL, fpiece, Bool.true_and, Bool.and_eq_true] at h ⊢
        exact ⟨h.1, fpieceL_of_dedup lit u ps none h.2⟩
    cases p with
    | const rg c =>
      cases c with
      | str s b =>
        simp only [List.map_cons, rexprToPiece] at h
        simp only [fpieceL, fpiece, Bool.true_and]
        cases cur with
        | none =>
          by_cases hs : s.isEmpty = true
          · simp only [dedupRPieces, hs, ↓reduceIte] at h; exact fpieceL_of_dedup lit u ps none h
          · simp only [dedupRPieces, hs] at h; exact fpieceL_of_dedup lit u ps _ h
        | some c' => simp only [dedupRPieces] at h; exact fpieceL_of_dedup lit u ps _ h
      | _ => exact inr rfl
    | _ => exact inr rfl

/-- **One f-string token, no concatenation.**  Tiled span table, the token's value tied to the source (`FTie`), the next
    token no string: the `JoinedStr` returned by the string production is ranged like the token and laid out in fold
    order, whenever its replacement fields contain no further f-string (`fpieceL`). -/
theorem strings_single_fstr_jOrd {σ : SpanTab} {N : Nat} (T : TiledTab src σ N) {f : Nat} {q : Nat} {triple raw : Bool}
    {body : List Nat} {r : List Tok} {rg : Rg} {vs : List RExpr} {rest : List Tok}
    (hN : (Tok.fstr q triple raw body :: r).length ≤ N) (hT : FTie src σ (Tok.fstr q triple raw body :: r))
    (hnext : r.takeWhile isStringTok = [])
    (h : parseRStrings σ f (Tok.fstr q triple raw body :: r) = some (.joinedStr rg vs, rest)) (hp : fpieceL vs = true) :
    rest = r ∧ rg = σ (r.length + 1) ∧ jOrd rg vs = true := by
  have hdrop : r.dropWhile isStringTok = r := by
    have := List.takeWhile_append_dropWhile (p := isStringTok) (l := r)
    rw [hnext] at this; simpa using this
  cases f with
  | zero => simp [parseRStrings] at h
  | succ f =>
    rw [parseRStrings.eq_def] at h
    have hst : isStringTok (Tok.fstr q triple raw body) = true := rfl
    simp only [List.dropWhile, hst, List.takeWhile, hnext, hdrop] at h
    simp only [List.filter, isBytesTok, List.length_nil, Nat.lt_irrefl, ↓reduceIte, List.any, isFstrTok, Bool.or_false,
      Bool.not_true, Bool.false_eq_true] at h
    split at h
    · rename_i pieces hps
      simp only [Option.some.injEq, Prod.mk.injEq, RExpr.joinedStr.injEq] at h
      obtain ⟨⟨hrg, hvs⟩, hrest⟩ := h
      cases f with
      | zero => simp [parseRStringPieces] at hps
      | succ f =>
        rw [parseRStringPieces] at hps
        simp only [List.length_nil, Nat.zero_add] at hps
        split at hps
        · rename_i ws hb
          cases f with
          | zero => simp [parseRStringPieces] at hps
          | succ f' =>
            simp only [parseRStringPieces, Option.map_some, List.append_nil, Option.some.injEq] at hps
            subst hps
            have hlit : rg = σ (r.length + 1) := by
              rw [← hrg]; simp only [L, R, List.length_cons]
            have htie : fstrTied src (σ (r.length + 1)) triple raw body = true := hT.1
            obtain ⟨hal, hend⟩ := aligned_of_tied htie
            simp only [List.length_cons] at hN
            have hown := T.own (r.length + 1) (by omega) (by omega)
            have C : FCtx src (σ (r.length + 1))
                ((σ (r.length + 1)).1 + (if raw then 2 else 1) + (if triple then 3 else 1)) body :=
              ⟨hal, hown, by omega, hend⟩
            -- the pieces before de-duplication: covered by `fpieceL` because the result is
            have hlen : r.length + 1 = 0 + 1 + r.length := by omega
            rw [show (0 + 1 + r.length) = r.length + 1 by omega] at hb
            refine ⟨hrest.symm, hlit, ?_⟩
            subst hlit
            -- `fpieceL` of the de-duplicated list gives `fpieceL` of the original pieces
            have hfw : fpieceL ws = true := fpieceL_of_dedup _ _ ws none (by rw [hvs]; exact hp)
            have hj := fstr_pieces_ordered (raw := raw) C hb hfw
            simp only [jOrd, Bool.and_eq_true] at hj ⊢
            obtain ⟨d1, d2⟩ := dedup_jOrd (σ (r.length + 1)) (initialUOf [Tok.fstr q triple raw body]) ws none hj.1
            rw [← hvs, ← hrg]
            simp only [L, R, List.length_cons]
            exact ⟨d1, by rw [d2]; exact hj.2⟩
        · cases hps
    · cases h

end PV.C13
