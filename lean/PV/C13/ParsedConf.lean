import PV.C13.Parsed
import PV.C12.Lemmas
/-
  C13 — the tree `toTree ar m` of a ranged parse is typed by the regenerated schema (`Conforms PV.C12.Gen.schema`):
  the kind ids, the number and the shapes of the fields used in `Parsed.lean` are those of `ast/src/gen/generic.rs`
  as translated on this run (every `rfl` below looks a kind up in `PV.C12.Gen.schema`).
-/
set_option linter.unusedVariables false
set_option linter.unusedSimpArgs false
namespace PV.C13
open PV.Expr PV.C11 PV.Prog
open PV.C02 hiding Tree
open PV.C12 (Tree Shape conf confZip confAll Conforms Schema KindInfo rangeOk)
open PV.C12.Gen (schema)

theorem conf_node {sh : Shape} {k : Nat} {r : Option (Nat × Nat)} {fs : List Tree} {ki : KindInfo}
    (hk : schema.kinds[k]? = some ki)
    (hsh : (match sh with
      | .kind k' => k == k'
      | .sum s => schema.sumOf k == some s
      | _ => false) = true)
    (hr : rangeOk ki.rangeMode r = true) (hz : confZip schema ki.fields fs = true) :
    conf schema sh (.node k r fs) = true := by
  simp only [conf, hk, hr, hz, Bool.and_true]
  exact hsh

theorem rangeOk_optR (ar : Bool) (rg : Rg) : rangeOk 2 (optR ar rg) = true := rfl


mutual
theorem confE (ar : Bool) : ∀ e : RExpr, conf schema (.sum 2) (cE ar e) = true
  | .name rg _ => conf_node rfl rfl rfl (by simp [confZip, conf, confAll, lf])
  | .const rg _ => conf_node rfl rfl rfl (by simp [confZip, conf, confAll, lf])
  | .boolOp rg _ vs => conf_node rfl rfl rfl (by simp [confZip, conf, confAll, lf, confL ar vs])
  | .namedExpr rg t v => conf_node rfl rfl rfl (by simp [confZip, conf, confAll, confE ar t, confE ar v])
  | .binOp rg l _ r => conf_node rfl rfl rfl (by simp [confZip, conf, confAll, lf, confE ar l, confE ar r])
  | .unaryOp rg _ e => conf_node rfl rfl rfl (by simp [confZip, conf, confAll, lf, confE ar e])
  | .lambda rg argsRg po a va ko kw b =>
    conf_node rfl rfl rfl (by
      have h : conf schema (.kind 78) (.node 78 (optR ar argsRg) [.list (cPs ar po), .list (cPs ar a), cLamArgO va,
          .list (cPs ar ko), cLamArgO kw]) = true :=
        conf_node rfl rfl (rangeOk_optR ar argsRg) (by simp [confZip, conf, confAll, confPs ar po, confPs ar a, confPs ar ko, confLamArgO va, confLamArgO kw])
      simp only [confZip, h, confE ar b, Bool.and_self])
  | .ifExp rg t b o => conf_node rfl rfl rfl (by simp [confZip, conf, confAll, confE ar t, confE ar b, confE ar o])
  | .dict rg items => conf_node rfl rfl rfl (by simp [confZip, conf, confAll, confKeys ar items, confVals ar items])
  | .set rg es => conf_node rfl rfl rfl (by simp [confZip, conf, confAll, confL ar es])
  | .listComp rg e gs => conf_node rfl rfl rfl (by simp [confZip, conf, confAll, confE ar e, confComps ar gs])
  | .setComp rg e gs => conf_node rfl rfl rfl (by simp [confZip, conf, confAll, confE ar e, confComps ar gs])
  | .dictComp rg k v gs => conf_node rfl rfl rfl (by simp [confZip, conf, confAll, confE ar k, confE ar v, confComps ar gs])
  | .genExp rg e gs => conf_node rfl rfl rfl (by simp [confZip, conf, confAll, confE ar e, confComps ar gs])
  | .await rg e => conf_node rfl rfl rfl (by simp [confZip, conf, confAll, confE ar e])
  | .yield rg e => conf_node rfl rfl rfl (by simp [confZip, conf, confAll, confO ar e])
  | .yieldFrom rg e => conf_node rfl rfl rfl (by simp [confZip, conf, confAll, confE ar e])
  | .compare rg l _ cs => conf_node rfl rfl rfl (by simp [confZip, conf, confAll, confE ar l, confL ar cs])
  | .call rg f as ks => conf_node rfl rfl rfl (by simp [confZip, conf, confAll, confE ar f, confL ar as, confKws ar ks])
  | .formattedValue rg v _ spec => conf_node rfl rfl rfl (by simp [confZip, conf, confAll, lf, confE ar v, confO ar spec])
  | .joinedStr rg vs => conf_node rfl rfl rfl (by simp [confZip, conf, confAll, confL ar vs])
  | .attribute rg e _ => conf_node rfl rfl rfl (by simp [confZip, conf, confAll, lf, confE ar e])
  | .subscript rg e s => conf_node rfl rfl rfl (by simp [confZip, conf, confAll, lf, confE ar e, confE ar s])
  | .starred rg e => conf_node rfl rfl rfl (by simp [confZip, conf, confAll, lf, confE ar e])
  | .list rg es => conf_node rfl rfl rfl (by simp [confZip, conf, confAll, lf, confL ar es])
  | .tuple rg es => conf_node rfl rfl rfl (by simp [confZip, conf, confAll, lf, confL ar es])
  | .slice rg a b c => conf_node rfl rfl rfl (by simp [confZip, conf, confAll, confO ar a, confO ar b, confO ar c])
theorem confL (ar : Bool) : ∀ es : List RExpr, confAll schema (.sum 2) (cL ar es) = true
  | [] => rfl
  | e :: es => by simp [cL, confAll, confE ar e, confL ar es]
theorem confO (ar : Bool) : ∀ o : Option RExpr, conf schema (.opt (.sum 2)) (cO ar o) = true
  | none => rfl
  | some e => by simp [cO, conf, confE ar e]
theorem confComps (ar : Bool) : ∀ gs : List RComp, confAll schema (.kind 59) (cComps ar gs) = true
  | [] => rfl
  | .mk rg t i ifs _ :: gs => by
    have h : conf schema (.kind 59) (.node 59 (optR ar rg) [cE ar t, cE ar i, .list (cL ar ifs), lf]) = true :=
      conf_node rfl rfl (rangeOk_optR ar rg) (by simp [confZip, conf, confAll, lf, confE ar t, confE ar i, confL ar ifs])
    simp [cComps, confAll, h, confComps ar gs]
theorem confPs (ar : Bool) : ∀ ps : List RParam, confAll schema (.kind 79) (cPs ar ps) = true
  | [] => rfl
  | .mk rg drg _ d :: ps => by
    have h0 : conf schema (.kind 61) (.node 61 (some drg) [lf, .none, .none]) = true := conf_node rfl rfl rfl (by simp [confZip, conf, confAll, lf])
    have h : conf schema (.kind 79) (.node 79 (optR ar rg) [.node 61 (some drg) [lf, .none, .none], cO ar d]) = true :=
      conf_node rfl rfl (rangeOk_optR ar rg) (by simp only [confZip, h0, confO ar d, Bool.and_self])
    simp [cPs, confAll, h, confPs ar ps]
theorem confKws (ar : Bool) : ∀ ks : List RKeyword, confAll schema (.kind 62) (cKws ar ks) = true
  | [] => rfl
  | .mk rg _ v :: ks => by
    have h : conf schema (.kind 62) (.node 62 (some rg) [.none, cE ar v]) = true :=
      conf_node rfl rfl rfl (by simp [confZip, conf, confAll, confE ar v])
    simp [cKws, confAll, h, confKws ar ks]
theorem confKeys (ar : Bool) : ∀ is : List RDictItem, confAll schema (.opt (.sum 2)) (cKeys ar is) = true
  | [] => rfl
  | .mk k _ :: is => by simp [cKeys, confAll, confO ar k, confKeys ar is]
theorem confVals (ar : Bool) : ∀ is : List RDictItem, confAll schema (.sum 2) (cVals ar is) = true
  | [] => rfl
  | .mk _ v :: is => by simp [cVals, confAll, confE ar v, confVals ar is]
theorem confLamArgO : ∀ v : Option (Rg × Ident), conf schema (.opt (.kind 61)) (cLamArgO v) = true
  | none => rfl
  | some v => by
    have h : conf schema (.kind 61) (cLamArg v) = true := conf_node rfl rfl rfl (by simp [confZip, conf, confAll, lf])
    simp [cLamArgO, conf, h]
end


theorem confAll_map {α : Type} (sh : Shape) (conv : α → Tree) : ∀ xs : List α, (∀ x ∈ xs, conf schema sh (conv x) = true) →
    confAll schema sh (xs.map conv) = true
  | [], _ => rfl
  | x :: xs, h => by
    simp [confAll, h x (by simp), confAll_map sh conv xs (fun y hy => h y (by simp [hy]))]

theorem confArg (ar : Bool) (a : RArg) : conf schema (.kind 61) (cArg ar a) = true :=
  conf_node rfl rfl rfl (by simp [confZip, conf, confAll, lf, confO ar a.annotation])
theorem confArgD (ar : Bool) (p : RArgD) : conf schema (.kind 79) (cArgD ar p) = true :=
  conf_node rfl rfl (rangeOk_optR ar p.rg) (by simp only [confZip, confArg ar p.arg, confO ar p.default, Bool.and_self])
theorem confArgO (ar : Bool) : ∀ o : Option RArg, conf schema (.opt (.kind 61)) (cArgO ar o) = true
  | none => rfl
  | some a => by simp [cArgO, conf, confArg ar a]
theorem confArgs (ar : Bool) (a : RArguments) : conf schema (.kind 78) (cArgs ar a) = true :=
  conf_node rfl rfl (rangeOk_optR ar a.rg) (by
    simp only [confZip, conf, confAll_map _ _ _ (fun x _ => confArgD ar x), confArgO ar a.vararg, confArgO ar a.kwarg,
      Bool.and_self])
theorem confAlias (a : RAlias) : conf schema (.kind 63) (cAlias a) = true :=
  conf_node rfl rfl rfl (by simp [confZip, conf, confAll, lf])
theorem confWI (ar : Bool) (w : RWithItem) : conf schema (.kind 64) (cWI ar w) = true :=
  conf_node rfl rfl (rangeOk_optR ar w.rg) (by simp only [confZip, confE ar w.contextExpr, confO ar w.optionalVars, Bool.and_self])
theorem confTP (ar : Bool) : ∀ t : RTypeParam, conf schema (.sum 6) (cTP ar t) = true
  | .typeVar rg _ b => conf_node rfl rfl rfl (by simp [confZip, conf, confAll, lf, confO ar b])
  | .paramSpec rg _ => conf_node rfl rfl rfl (by simp [confZip, conf, confAll, lf])
  | .typeVarTuple rg _ => conf_node rfl rfl rfl (by simp [confZip, conf, confAll, lf])
theorem confTPs (ar : Bool) (tp : List RTypeParam) : conf schema (.list (.sum 6)) (.list (tp.map (cTP ar))) = true := by
  simp only [conf, confAll_map _ _ _ (fun x _ => confTP ar x)]

mutual
theorem confP (ar : Bool) : ∀ p : RPattern, conf schema (.sum 4) (cP ar p) = true
  | .matchValue rg v => conf_node rfl rfl rfl (by simp [confZip, conf, confAll, confE ar v])
  | .matchSingleton rg _ => conf_node rfl rfl rfl (by simp [confZip, conf, confAll, lf])
  | .matchSequence rg ps => conf_node rfl rfl rfl (by simp [confZip, conf, confAll, confPats ar ps])
  | .matchMapping rg ks ps _ => conf_node rfl rfl rfl (by simp [confZip, conf, confAll, confL ar ks, confPats ar ps])
  | .matchClass rg c ps _ kps =>
    conf_node rfl rfl rfl (by simp [confZip, conf, confAll, confE ar c, confPats ar ps, confPats ar kps])
  | .matchStar rg _ => conf_node rfl rfl rfl (by simp [confZip, conf, confAll])
  | .matchAs rg p _ => conf_node rfl rfl rfl (by simp [confZip, conf, confAll, confPatO ar p])
  | .matchOr rg ps => conf_node rfl rfl rfl (by simp [confZip, conf, confAll, confPats ar ps])
theorem confPats (ar : Bool) : ∀ ps : List RPattern, confAll schema (.sum 4) (cPats ar ps) = true
  | [] => rfl
  | p :: ps => by simp [cPats, confAll, confP ar p, confPats ar ps]
theorem confPatO (ar : Bool) : ∀ o : Option RPattern, conf schema (.opt (.sum 4)) (cPatO ar o) = true
  | none => rfl
  | some p => by simp [cPatO, conf, confP ar p]
end

mutual
theorem confS (ar : Bool) : ∀ s : RStmt, conf schema (.sum 1) (cS ar s) = true
  | .functionDef rg _ a b d r tp =>
    conf_node rfl rfl rfl (by
      simp only [confZip, conf, lf, confArgs ar a, confSs ar b, confL ar d, confO ar r, confAll_map _ _ _ (fun x _ => confTP ar x), Bool.and_self,
        beq_self_eq_true])
  | .asyncFunctionDef rg _ a b d r tp =>
    conf_node rfl rfl rfl (by
      simp only [confZip, conf, lf, confArgs ar a, confSs ar b, confL ar d, confO ar r, confAll_map _ _ _ (fun x _ => confTP ar x), Bool.and_self,
        beq_self_eq_true])
  | .classDef rg _ bs ks b d tp =>
    conf_node rfl rfl rfl (by
      simp only [confZip, conf, lf, confL ar bs, confKws ar ks, confSs ar b, confL ar d, confAll_map _ _ _ (fun x _ => confTP ar x), Bool.and_self,
        beq_self_eq_true])
  | .return rg v => conf_node rfl rfl rfl (by simp [confZip, conf, confAll, confO ar v])
  | .delete rg ts => conf_node rfl rfl rfl (by simp [confZip, conf, confAll, confL ar ts])
  | .assign rg ts v => conf_node rfl rfl rfl (by simp [confZip, conf, confAll, confL ar ts, confE ar v])
  | .typeAlias rg n tp v =>
    conf_node rfl rfl rfl (by simp only [confZip, confE ar n, confTPs ar tp, confE ar v, Bool.and_self])
  | .augAssign rg t _ v => conf_node rfl rfl rfl (by simp [confZip, conf, confAll, lf, confE ar t, confE ar v])
  | .annAssign rg t a v _ => conf_node rfl rfl rfl (by simp [confZip, conf, confAll, lf, confE ar t, confE ar a, confO ar v])
  | .for rg t i b o => conf_node rfl rfl rfl (by simp [confZip, conf, confAll, confE ar t, confE ar i, confSs ar b, confSs ar o])
  | .asyncFor rg t i b o =>
    conf_node rfl rfl rfl (by simp [confZip, conf, confAll, confE ar t, confE ar i, confSs ar b, confSs ar o])
  | .while rg t b o => conf_node rfl rfl rfl (by simp [confZip, conf, confAll, confE ar t, confSs ar b, confSs ar o])
  | .if rg t b o => conf_node rfl rfl rfl (by simp [confZip, conf, confAll, confE ar t, confSs ar b, confSs ar o])
  | .with rg items b =>
    conf_node rfl rfl rfl (by
      simp only [confZip, conf, confAll_map _ _ _ (fun x _ => confWI ar x), confSs ar b, Bool.and_self])
  | .asyncWith rg items b =>
    conf_node rfl rfl rfl (by
      simp only [confZip, conf, confAll_map _ _ _ (fun x _ => confWI ar x), confSs ar b, Bool.and_self])
  | .match rg s cs => conf_node rfl rfl rfl (by simp [confZip, conf, confAll, confE ar s, confCs ar cs])
  | .raise rg e c => conf_node rfl rfl rfl (by simp [confZip, conf, confAll, confO ar e, confO ar c])
  | .try rg b hs o f =>
    conf_node rfl rfl rfl (by simp [confZip, conf, confAll, confSs ar b, confHs ar hs, confSs ar o, confSs ar f])
  | .tryStar rg b hs o f =>
    conf_node rfl rfl rfl (by simp [confZip, conf, confAll, confSs ar b, confHs ar hs, confSs ar o, confSs ar f])
  | .assert rg t m => conf_node rfl rfl rfl (by simp [confZip, conf, confAll, confE ar t, confO ar m])
  | .import rg ns => conf_node rfl rfl rfl (by simp only [confZip, conf, confAll_map _ _ _ (fun x _ => confAlias x), Bool.and_self])
  | .importFrom rg _ ns _ =>
    conf_node rfl rfl rfl (by simp only [confZip, conf, confAll_map _ _ _ (fun x _ => confAlias x), Bool.and_self])
  | .global rg _ => conf_node rfl rfl rfl (by simp [confZip, conf, confAll])
  | .nonlocal rg _ => conf_node rfl rfl rfl (by simp [confZip, conf, confAll])
  | .expr rg e => conf_node rfl rfl rfl (by simp [confZip, conf, confAll, confE ar e])
  | .pass rg => conf_node rfl rfl rfl (by simp [confZip])
  | .break rg => conf_node rfl rfl rfl (by simp [confZip])
  | .continue rg => conf_node rfl rfl rfl (by simp [confZip])
theorem confSs (ar : Bool) : ∀ ss : List RStmt, confAll schema (.sum 1) (cSs ar ss) = true
  | [] => rfl
  | s :: ss => by simp [cSs, confAll, confS ar s, confSs ar ss]
theorem confHs (ar : Bool) : ∀ hs : List RHandler, confAll schema (.sum 3) (cHs ar hs) = true
  | [] => rfl
  | .mk rg ty _ b :: hs => by
    have h : conf schema (.sum 3) (.node 60 (some rg) [cO ar ty, .none, .list (cSs ar b)]) = true :=
      conf_node rfl rfl rfl (by simp [confZip, conf, confAll, confO ar ty, confSs ar b])
    simp [cHs, confAll, h, confHs ar hs]
theorem confCs (ar : Bool) : ∀ cs : List RCase, confAll schema (.kind 65) (cCs ar cs) = true
  | [] => rfl
  | .mk rg p g b :: cs => by
    have h : conf schema (.kind 65) (.node 65 (optR ar rg) [cP ar p, cO ar g, .list (cSs ar b)]) = true :=
      conf_node rfl rfl (rangeOk_optR ar rg) (by simp only [confZip, conf, confP ar p, confO ar g, confSs ar b, Bool.and_self])
    simp [cCs, confAll, h, confCs ar cs]
end

/-- **The tree of every ranged parse is typed by the regenerated schema.** -/
theorem toTree_conforms (ar : Bool) : ∀ m : RMod, Conforms schema (toTree ar m)
  | .module rg b => conf_node (sh := .kind 0) rfl rfl (rangeOk_optR ar rg) (by simp [confZip, conf, confAll, confSs ar b])
  | .interactive rg b => conf_node (sh := .kind 1) rfl rfl (rangeOk_optR ar rg) (by simp [confZip, conf, confAll, confSs ar b])
  | .expression rg e => conf_node (sh := .kind 2) rfl rfl (rangeOk_optR ar rg) (by simp [confZip, conf, confAll, confE ar e])

end PV.C13
