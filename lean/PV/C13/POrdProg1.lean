import PV.C13.POrdBase
import PV.C02.RProgThm
/-
  C13 — base of the induction over the ranged PROGRAM parser (`PV.C02.RProg`) that establishes `ordM`
  (`POrdProg.lean`): chains of segments, what C02's typed windows (`WS` / `SeqS` / `SeqH` / …) say in numbers, the
  ord-facts as structures (so that `fwd` and `grind` treat them as atoms): `OE` / `OL` / `OO` (expressions, from
  the hypothesis `OrdAt`), `OSL` (a statement: ordered, and it starts — decorators included — at or after a
  token), `OSeqL` (a statement list: ordered, its segments chained from a token to its derived end `lastEnd`).
-/
set_option linter.unusedSimpArgs false
set_option linter.unusedVariables false
set_option linter.unusedSectionVars false
namespace PV.C13
open PV.Expr PV.C11 PV.Prog
open PV.C02

variable {src : List Nat} {σ : SpanTab} {N : Nat}

/-! ### chains -/

theorem chain_mono : ∀ {xs : List Rg} {a a' b b' : Nat}, chain a xs b = true → a' ≤ a → b ≤ b' → chain a' xs b' = true
  | [], a, a', b, b', h, h1, h2 => by simp only [chain, decide_eq_true_eq] at *; omega
  | s :: ss, a, a', b, b', h, h1, h2 => by
    simp only [chain, Bool.and_eq_true, decide_eq_true_eq] at *
    exact ⟨by omega, chain_mono h.2 (Nat.le_refl _) h2⟩

theorem chain_append : ∀ {xs ys : List Rg} {a m b : Nat}, chain a xs m = true → chain m ys b = true →
    chain a (xs ++ ys) b = true
  | [], ys, a, m, b, h1, h2 => by
    simp only [chain, decide_eq_true_eq] at h1
    exact chain_mono h2 h1 (Nat.le_refl _)
  | s :: ss, ys, a, m, b, h1, h2 => by
    simp only [List.cons_append, chain, Bool.and_eq_true, decide_eq_true_eq] at *
    exact ⟨h1.1, chain_append h1.2 h2⟩

theorem chain_app {xs ys : List Rg} {a m m' b : Nat} (h1 : chain a xs m = true) (hm : m ≤ m')
    (h2 : chain m' ys b = true) : chain a (xs ++ ys) b = true :=
  chain_append h1 (chain_mono h2 hm (Nat.le_refl _))

theorem chain_one {a b : Nat} {s : Rg} (h1 : a ≤ s.1) (h2 : s.2 ≤ b) : chain a [s] b = true := by
  simp only [chain, Bool.and_eq_true, decide_eq_true_eq]; exact ⟨h1, h2⟩

theorem chain_snoc {xs : List Rg} {a m b : Nat} {s : Rg} (h1 : chain a xs m = true) (hm : m ≤ s.1) (h2 : s.2 ≤ b) :
    chain a (xs ++ [s]) b = true := chain_append h1 (chain_one hm h2)

theorem chain_cons' {xs : List Rg} {a m b : Nat} {s : Rg} (h1 : a ≤ s.1) (hm : s.2 ≤ m) (h2 : chain m xs b = true) :
    chain a (s :: xs) b = true := by
  simp only [chain, Bool.and_eq_true, decide_eq_true_eq]
  exact ⟨h1, chain_mono h2 hm (Nat.le_refl _)⟩

/-! ### what C02's windows say in numbers -/

/-- the range a tree carries -/
def trg (t : Tree) : Rg := t.range.getD (0, 0)

theorem tf_rg {lo hi : Nat} {t : Tree} (h : TF src lo hi t) : lo ≤ (trg t).1 ∧ (trg t).1 ≤ (trg t).2 ∧ (trg t).2 ≤ hi := by
  obtain ⟨a, b, g1, g2, g3, g4, _⟩ := h
  have := rgOk_le g2
  simp only [trg, g1, Option.getD_some]
  omega

/-- trees in consecutive windows: the chain of their ranges -/
theorem chain_seqTF : ∀ {ts : List Tree} {lo hi a b : Nat}, SeqG (TF src) lo hi ts → a ≤ lo → hi ≤ b →
    (ts = [] → a ≤ b) → chain a (ts.map trg) b = true
  | [], lo, hi, a, b, _, h1, h2, h3 => by simp only [List.map_nil, chain, decide_eq_true_eq]; exact h3 rfl
  | t :: ts, lo, hi, a, b, ⟨m, g1, g2, g3⟩, h1, h2, h3 => by
    obtain ⟨r1, r2, r3⟩ := tf_rg g1
    simp only [List.map_cons, chain, Bool.and_eq_true, decide_eq_true_eq]
    refine ⟨by omega, chain_seqTF g3 r3 h2 (fun _ => by omega)⟩

/-- …every one of them has start ≤ end -/
theorem le_seqTF : ∀ {ts : List Tree} {lo hi : Nat}, SeqG (TF src) lo hi ts → ∀ t ∈ ts, (trg t).1 ≤ (trg t).2
  | [], _, _, _, t, ht => by cases ht
  | x :: xs, lo, hi, ⟨m, g1, g2, g3⟩, t, ht => by
    rcases List.mem_cons.mp ht with rfl | ht
    · exact (tf_rg g1).2.1
    · exact le_seqTF g3 t ht

theorem ws_rg {j k : Nat} {s : RStmt} (h : WS src σ j k s) (hp : plainS s = true) :
    S σ j ≤ s.range.1 ∧ s.range.1 ≤ s.range.2 ∧ s.range.2 ≤ E σ k := tf_rg (h hp)

theorem wp_rg {j k : Nat} {p : RPattern} (h : WP src σ j k p) (hp : plainP p = true) :
    S σ j ≤ p.range.1 ∧ p.range.1 ≤ p.range.2 ∧ p.range.2 ≤ E σ k := tf_rg (h hp)

theorem wargs_rg {j k : Nat} {a : RArguments} (h : WArgs src σ j k a) (hp : a.plain = true) :
    S σ j ≤ a.rg.1 ∧ a.rg.1 ≤ a.rg.2 ∧ a.rg.2 ≤ E σ k := tf_rg (h hp)

theorem wo_rg {j k : Nat} {x : Option RExpr} {e : RExpr} (h : WO src σ j k x) (he : x = some e) (hp : plain e = true) :
    S σ j ≤ e.range.1 ∧ e.range.1 ≤ e.range.2 ∧ e.range.2 ≤ E σ k := win_rg (h e he) hp

/-- the chain of a typed sequence (`SeqX`) in a window -/
theorem chain_seqX {α : Type} {tree : α → Tree} {pl : α → Bool} {rg : α → Rg} (hrg : ∀ x, trg (tree x) = rg x)
    {xs : List α} {j k a b : Nat} (h : SeqX tree pl src σ j k xs) (hp : xs.all pl = true) (h1 : a ≤ S σ j)
    (h2 : E σ k ≤ b) (h3 : xs = [] → a ≤ b) : chain a (xs.map rg) b = true := by
  have := chain_seqTF (h hp) h1 h2 (fun he => h3 (List.map_eq_nil_iff.mp he))
  rw [List.map_map] at this
  have e : trg ∘ tree = rg := funext hrg
  rwa [e] at this

theorem le_seqX {α : Type} {tree : α → Tree} {pl : α → Bool} {rg : α → Rg} (hrg : ∀ x, trg (tree x) = rg x)
    {xs : List α} {j k : Nat} (h : SeqX tree pl src σ j k xs) (hp : xs.all pl = true) :
    ∀ x ∈ xs, (rg x).1 ≤ (rg x).2 := by
  intro x hx
  have := le_seqTF (h hp) (tree x) (List.mem_map.mpr ⟨x, hx, rfl⟩)
  rwa [hrg] at this

/-- expressions in consecutive windows (not empty): the chain of their ranges -/
theorem chain_seqI {es : List RExpr} {j k a b : Nat} (h : SeqI src σ j k es) (hp : plainL es = true) (h1 : a ≤ S σ j)
    (h2 : E σ k ≤ b) (h3 : es = [] → a ≤ b) : chain a (es.map RExpr.range) b = true := by
  cases es with
  | nil => simp only [List.map_nil, chain, decide_eq_true_eq]; exact h3 rfl
  | cons e es =>
    obtain ⟨m, g1, g2, g3⟩ := h
    simp only [plainL, Bool.and_eq_true] at hp
    obtain ⟨r1, r2, r3, _⟩ := g1.2 hp.1
    have hle := rgOk_le (show rgOk src (e.range.1, e.range.2) from r1)
    simp only [List.map_cons, chain, Bool.and_eq_true, decide_eq_true_eq]
    exact ⟨by simp only [S] at h1; omega, chain_seq g3 hp.2 r3 (by simp only [E] at h2; omega) g2⟩


theorem seqTF_last_le : ∀ {ts : List Tree} {lo hi : Nat}, SeqG (TF src) lo hi ts → ∀ t, ts.getLast? = some t →
    (trg t).2 ≤ hi
  | [], _, _, _, t, h => by simp at h
  | [x], lo, hi, ⟨m, g1, g2, _⟩, t, h => by
    simp only [List.getLast?_singleton, Option.some.injEq] at h
    subst h
    have := (tf_rg g1).2.2
    omega
  | x :: y :: xs, lo, hi, ⟨m, g1, g2, g3⟩, t, h => by
    have h' : (y :: xs).getLast? = some t := by simpa [List.getLast?_cons_cons] using h
    exact seqTF_last_le g3 t h'

/-- a statement sequence ends inside its window -/
theorem seqS_lastEnd_le {j k : Nat} {ss : List RStmt} (h : SeqS src σ j k ss) (hp : plainSs ss = true) (hne : ss ≠ []) :
    lastEnd ss ≤ E σ k := by
  have hs := h (by rw [← plainSs_eq]; exact hp)
  unfold lastEnd
  cases hl : ss.getLast? with
  | none => exact absurd (List.getLast?_eq_none_iff.mp hl) hne
  | some s =>
    have : (ss.map RStmt.treeB).getLast? = some (RStmt.treeB s) := by rw [List.getLast?_map, hl]; rfl
    exact seqTF_last_le hs _ this

/-! ### ord-facts as atoms (structures, so that neither `fwd` nor `grind` looks inside) -/

structure OE (e : RExpr) : Prop where
  h : plain e = true → ordE e = true
structure OL (es : List RExpr) : Prop where
  h : plainL es = true → ordL es = true
structure OO (x : Option RExpr) : Prop where
  h : plainO x = true → ordO x = true
structure OKs (ks : List RKeyword) : Prop where
  h : plainKws ks = true → ordKws 0 ks = true

theorem oo_none : OO none := ⟨fun _ => rfl⟩
theorem oo_some {e : RExpr} (h : OE e) : OO (some e) := ⟨fun hp => h.h hp⟩
theorem ol_nil : OL [] := ⟨fun _ => rfl⟩
theorem ol_cons {e : RExpr} {es : List RExpr} (h : OE e) (hs : OL es) : OL (e :: es) := ⟨fun hp => by
  simp only [plainL, Bool.and_eq_true] at hp
  simp only [ordL, Bool.and_eq_true]
  exact ⟨h.h hp.1, hs.h hp.2⟩⟩
theorem ol_single {e : RExpr} (h : OE e) : OL [e] := ol_cons h ol_nil
theorem oks_nil : OKs [] := ⟨fun _ => rfl⟩

theorem ordL_append : ∀ (xs ys : List RExpr), ordL (xs ++ ys) = (ordL xs && ordL ys)
  | [], _ => by simp [ordL]
  | x :: xs, ys => by simp [ordL, ordL_append xs ys, Bool.and_assoc]

theorem plainL_append : ∀ (xs ys : List RExpr), plainL (xs ++ ys) = (plainL xs && plainL ys)
  | [], _ => by simp [plainL]
  | x :: xs, ys => by simp [plainL, plainL_append xs ys, Bool.and_assoc]

theorem ol_snoc {e : RExpr} {es : List RExpr} (hs : OL es) (h : OE e) : OL (es ++ [e]) := ⟨fun hp => by
  rw [plainL_append] at hp
  simp only [plainL, Bool.and_true, Bool.and_eq_true] at hp
  rw [ordL_append]
  simp only [ordL, Bool.and_true, Bool.and_eq_true]
  exact ⟨hs.h hp.1, h.h hp.2⟩⟩

/-! ### the hypothesis `OrdAt`, field by field, with atomic conclusions -/

section oa
variable (OA : ∀ f, OrdAt src σ N f)
include OA

theorem oa_test (f : Nat) : ∀ ts e rest, ts.length ≤ N → parseRTest σ f ts = some (e, rest) → OE e :=
  fun ts e rest h1 h2 => ⟨(OA f).test ts e rest h1 h2⟩
theorem oa_namedTest (f : Nat) : ∀ ts e rest, ts.length ≤ N → parseRNamedTest σ f ts = some (e, rest) → OE e :=
  fun ts e rest h1 h2 => ⟨(OA f).namedTest ts e rest h1 h2⟩
theorem oa_starOrNamed (f : Nat) : ∀ ts e rest, ts.length ≤ N → parseRStarOrNamed σ f ts = some (e, rest) → OE e :=
  fun ts e rest h1 h2 => ⟨(OA f).starOrNamed ts e rest h1 h2⟩
theorem oa_testOrStar (f : Nat) : ∀ ts e rest, ts.length ≤ N → parseRTestOrStar σ f ts = some (e, rest) → OE e :=
  fun ts e rest h1 h2 => ⟨(OA f).testOrStar ts e rest h1 h2⟩
theorem oa_exprOrStar (f : Nat) : ∀ ts e rest, ts.length ≤ N → parseRExprOrStar σ f ts = some (e, rest) → OE e :=
  fun ts e rest h1 h2 => ⟨(OA f).exprOrStar ts e rest h1 h2⟩
theorem oa_targetList (f : Nat) : ∀ ts e rest, ts.length ≤ N → parseRTargetList σ f ts = some (e, rest) → OE e :=
  fun ts e rest h1 h2 => ⟨(OA f).targetList ts e rest h1 h2⟩
theorem oa_bin (f : Nat) : ∀ lvl ts e rest, ts.length ≤ N → parseRBin σ lvl f ts = some (e, rest) → OE e :=
  fun lvl ts e rest h1 h2 => ⟨(OA f).bin lvl ts e rest h1 h2⟩
theorem oa_yieldAtom (f : Nat) : ∀ ts e rest, ts.length + 2 ≤ N → parseRYieldAtom σ f ts = some (e, rest) → OE e :=
  fun ts e rest h1 h2 => ⟨(OA f).yieldAtom ts e rest h1 h2⟩
theorem oa_strings (f : Nat) : ∀ t r e rest, (t :: r).length ≤ N → isStringTok t = true →
    parseRStrings σ f (t :: r) = some (e, rest) → OE e :=
  fun t r e rest h1 h2 h3 => ⟨(OA f).strings t r e rest h1 h2 h3⟩
theorem oa_args0 (f : Nat) : ∀ ts as' ks' rest, ts.length + 1 ≤ N →
    parseRArgs σ f ts [] [] false = some ((as', ks'), rest) → OL as' ∧ OKs ks' :=
  fun ts as' ks' rest h1 h2 => ⟨⟨((OA f).args0 ts as' ks' rest h1 h2).1⟩, ⟨((OA f).args0 ts as' ks' rest h1 h2).2⟩⟩
theorem oa_compFor (f : Nat) : ∀ ts gs rest, ts.length ≤ N → parseRCompFor σ f ts = some (gs, rest) →
    plainComps gs = true → ordComps gs = true :=
  fun ts gs rest h1 h2 => (OA f).compFor ts gs rest h1 h2

end oa

/-! ### statements -/

/-- a statement: its fields are ordered, and it starts (decorators included) at or after token `J` -/
structure OSL (σ : SpanTab) (J : Nat) (s : RStmt) : Prop where
  h : plainS s = true → ordS s = true ∧ S σ J ≤ stmtLo s

/-- a statement list: ordered, its segments chained from token `J` to its derived end -/
structure OSeqL (σ : SpanTab) (J : Nat) (ss : List RStmt) : Prop where
  h : plainSs ss = true → ordSs ss = true ∧ chain (S σ J) (ss.map stmtSeg) (lastEnd ss) = true

theorem ordSs_append : ∀ (xs ys : List RStmt), ordSs (xs ++ ys) = (ordSs xs && ordSs ys)
  | [], _ => by simp [ordSs]
  | x :: xs, ys => by simp [ordSs, ordSs_append xs ys, Bool.and_assoc]

theorem oseqL_single {J : Nat} {s : RStmt} (h : OSL σ J s) : OSeqL σ J [s] := ⟨fun hp => by
  simp only [plainSs, Bool.and_true] at hp
  obtain ⟨h1, h2⟩ := h.h hp
  simp only [ordSs, h1, Bool.and_true, List.map_cons, List.map_nil, lastEnd_single, true_and]
  exact chain_one h2 (Nat.le_refl _)⟩

section lists
variable (T : TiledTab src σ N)
include T

theorem oseqL_cons {J j1 k1 j2 : Nat} {s : RStmt} {ss : List RStmt} (hw : WS src σ j1 k1 s) (h : OSL σ J s)
    (hs : OSeqL σ j2 ss) (hne : ss ≠ []) (c1 : 1 ≤ j2) (c2 : j2 < k1) (c3 : k1 ≤ N) : OSeqL σ J (s :: ss) := ⟨fun hp => by
  simp only [plainSs, Bool.and_eq_true] at hp
  obtain ⟨h1, h2⟩ := h.h hp.1
  obtain ⟨g1, g2⟩ := hs.h hp.2
  obtain ⟨_, _, w3⟩ := ws_rg hw hp.1
  have e1 := T.ES c1 c2 c3
  simp only [ordSs, h1, g1, Bool.and_true, List.map_cons, lastEnd_cons s hne, true_and]
  refine chain_cons' h2 (m := S σ j2) ?_ g2
  show s.range.2 ≤ S σ j2
  simp only [S, E] at *
  omega⟩

theorem oseqL_append {J j m j2 : Nat} {xs ys : List RStmt} (hx : SeqS src σ j m xs) (ox : OSeqL σ J xs)
    (ex : lastEnd xs = E σ m) (oy : OSeqL σ j2 ys) (hne : ys ≠ []) (c1 : 1 ≤ j2) (c2 : j2 < m) (c3 : m ≤ N) :
    OSeqL σ J (xs ++ ys) := ⟨fun hp => by
  rw [plainSs_append] at hp
  simp only [Bool.and_eq_true] at hp
  obtain ⟨h1, h2⟩ := ox.h hp.1
  obtain ⟨g1, g2⟩ := oy.h hp.2
  have e1 := T.ES c1 c2 c3
  rw [ordSs_append, h1, g1, List.map_append, lastEnd_append xs hne]
  refine ⟨rfl, chain_app h2 ?_ g2⟩
  rw [ex]; exact e1⟩

end lists

/-! ### decorators -/

/-- where a definition with the decorators `ds` first touches the source (`d0` = its own start) -/
def decoLo (ds : List RExpr) (d0 : Nat) : Nat :=
  match ds with
  | [] => d0
  | d :: _ => d.range.1

theorem stmtLo_eq (s : RStmt) : stmtLo s = decoLo (stmtDecos s) s.range.1 := by
  unfold stmtLo decoLo
  cases stmtDecos s <;> rfl

theorem decoChain_seqI {jd kd b : Nat} {ds : List RExpr} (h : SeqI src σ jd kd ds) (hp : plainL ds = true)
    (hb : E σ kd ≤ b) : decoChain ds b = true := by
  cases ds with
  | nil => rfl
  | cons d ds =>
    obtain ⟨m, g1, g2, g3⟩ := h
    simp only [plainL, Bool.and_eq_true] at hp
    obtain ⟨r1, r2, r3, _⟩ := g1.2 hp.1
    simp only [decoChain]
    exact chain_seq g3 hp.2 r3 (by simp only [E] at hb; omega) g2

theorem decoLo_ge {jd kd c d0 : Nat} {ds : List RExpr} (h : SeqI src σ jd kd ds) (hp : plainL ds = true)
    (h1 : ds = [] ∨ c ≤ S σ jd) (h2 : c ≤ d0) : c ≤ decoLo ds d0 := by
  cases ds with
  | nil => exact h2
  | cons d ds =>
    obtain ⟨m, g1, g2, g3⟩ := h
    simp only [plainL, Bool.and_eq_true] at hp
    obtain ⟨r1, r2, r3, _⟩ := g1.2 hp.1
    rcases h1 with h1 | h1
    · cases h1
    · simp only [decoLo]; simp only [S] at h1; omega

/-- keywords in a window start at or after anything in front of the window -/
theorem ordKws_lo : ∀ {ks : List RKeyword} {lo hi c : Nat}, SeqG (RSK src) lo hi ks → plainKws ks = true →
    ordKws 0 ks = true → c ≤ lo → ordKws c ks = true
  | [], _, _, _, _, _, _, _ => rfl
  | .mk rg n v :: ks, lo, hi, c, ⟨m, g1, g2, g3⟩, hp, ho, hc => by
    simp only [plainKws, Bool.and_eq_true] at hp
    simp only [ordKws, Bool.and_eq_true, decide_eq_true_eq] at ho ⊢
    obtain ⟨q1, q2, q3, q4⟩ := g1.2 hp.1
    have := rgOk_le (show rgOk src (rg.1, rg.2) from q1)
    exact ⟨⟨⟨by omega, ho.1.1.2⟩, ho.1.2⟩, ordKws_lo g3 hp.2 ho.2 (by omega)⟩


/-! ### token order, in terms of `S` / `E` -/

section tok
variable (T : TiledTab src σ N)
include T
theorem tSS {j k : Nat} (h1 : 1 ≤ k) (h2 : k ≤ j) (h3 : j ≤ N) : S σ j ≤ S σ k := T.SS h1 h2 h3
theorem tES {j k : Nat} (h1 : 1 ≤ k) (h2 : k < j) (h3 : j ≤ N) : E σ j ≤ S σ k := T.ES h1 h2 h3
theorem tEE {j k : Nat} (h1 : 1 ≤ k) (h2 : k ≤ j) (h3 : j ≤ N) : E σ j ≤ E σ k := T.EE h1 h2 h3
theorem tSE {j k : Nat} (h1 : 1 ≤ k) (h2 : k ≤ j) (h3 : j ≤ N) : S σ j ≤ E σ k := T.SE' h1 h2 h3
end tok

theorem chain_app' {xs ys : List Rg} {a lo hi b : Nat} (h1 : chain lo xs hi = true) (ha : a ≤ lo)
    (h2 : chain hi ys b = true) : chain a (xs ++ ys) b = true :=
  chain_append (chain_mono h1 ha (Nat.le_refl _)) h2

theorem chain_cons'' {ys : List Rg} {a b : Nat} {s : Rg} (ha : a ≤ s.1) (h2 : chain s.2 ys b = true) :
    chain a (s :: ys) b = true := by
  simp only [chain, Bool.and_eq_true, decide_eq_true_eq]; exact ⟨ha, h2⟩

/-! ### the other node classes -/

structure OTPs (ts : List RTypeParam) : Prop where
  h : ts.all RTypeParam.plain = true → ts.all ordTP = true
structure OWIs (ws : List RWithItem) : Prop where
  h : ws.all RWithItem.plain = true → ws.all ordWI = true
structure OHs (hs : List RHandler) : Prop where
  h : plainHs hs = true → ordHs hs = true
structure OCs (cs : List RCase) : Prop where
  h : plainCs cs = true → ordCs cs = true
structure OArgs (a : RArguments) : Prop where
  h : a.plain = true → ordArgs a = true
structure OP (p : RPattern) : Prop where
  h : plainP p = true → ordP p = true
structure OPO (p : Option RPattern) : Prop where
  h : plainPO p = true → ordPatO p = true
structure OPs (ps : List RPattern) : Prop where
  h : plainPs ps = true → ordPats ps = true

structure OTP (t : RTypeParam) : Prop where
  h : t.plain = true → ordTP t = true
structure OWI (w : RWithItem) : Prop where
  h : w.plain = true → ordWI w = true

theorem otps_nil : OTPs [] := ⟨fun _ => rfl⟩
theorem otps_cons {t : RTypeParam} {ts : List RTypeParam} (h : OTP t) (hs : OTPs ts) :
    OTPs (t :: ts) := ⟨fun hp => by
  simp only [List.all_cons, Bool.and_eq_true] at hp ⊢
  exact ⟨h.h hp.1, hs.h hp.2⟩⟩
theorem otps_single {t : RTypeParam} (h : OTP t) : OTPs [t] := otps_cons h otps_nil
theorem owis_nil : OWIs [] := ⟨fun _ => rfl⟩
theorem owis_cons {w : RWithItem} {ws : List RWithItem} (h : OWI w) (hs : OWIs ws) :
    OWIs (w :: ws) := ⟨fun hp => by
  simp only [List.all_cons, Bool.and_eq_true] at hp ⊢
  exact ⟨h.h hp.1, hs.h hp.2⟩⟩
theorem owis_single {w : RWithItem} (h : OWI w) : OWIs [w] := owis_cons h owis_nil
theorem ohs_nil : OHs [] := ⟨fun _ => rfl⟩
theorem ops_nil : OPs [] := ⟨fun _ => rfl⟩
theorem ops_cons {p : RPattern} {ps : List RPattern} (h : OP p) (hs : OPs ps) : OPs (p :: ps) := ⟨fun hp => by
  simp only [plainPs, Bool.and_eq_true] at hp
  simp only [ordPats, Bool.and_eq_true]
  exact ⟨h.h hp.1, hs.h hp.2⟩⟩
theorem ops_single {p : RPattern} (h : OP p) : OPs [p] := ops_cons h ops_nil
theorem opo_none : OPO none := ⟨fun _ => rfl⟩
theorem opo_some {p : RPattern} (h : OP p) : OPO (some p) := ⟨fun hp => h.h hp⟩

theorem ordPats_append : ∀ (xs ys : List RPattern), ordPats (xs ++ ys) = (ordPats xs && ordPats ys)
  | [], _ => by simp [ordPats]
  | x :: xs, ys => by simp [ordPats, ordPats_append xs ys, Bool.and_assoc]

theorem ops_snoc {p : RPattern} {ps : List RPattern} (hs : OPs ps) (h : OP p) : OPs (ps ++ [p]) := ⟨fun hp => by
  rw [plainPs_append] at hp
  simp only [plainPs, Bool.and_true, Bool.and_eq_true] at hp
  rw [ordPats_append]
  simp only [ordPats, Bool.and_true, Bool.and_eq_true]
  exact ⟨hs.h hp.1, h.h hp.2⟩⟩

/-- the ranges the trees of the typed sequences carry -/
theorem trg_stmt (s : RStmt) : trg (RStmt.treeB s) = s.range := rfl
theorem trg_pat (p : RPattern) : trg (RPattern.treeB p) = p.range := rfl
theorem trg_handler (h : RHandler) : trg (RHandler.tree h) = h.range := by cases h; rfl
theorem trg_case (c : RCase) : trg (RCase.tree c) = c.range := by cases c; rfl
theorem trg_alias (a : RAlias) : trg (RAlias.tree a) = a.rg := rfl
theorem trg_item (w : RWithItem) : trg (RWithItem.tree w) = w.rg := rfl
theorem trg_tparam (t : RTypeParam) : trg (RTypeParam.tree t) = t.range := rfl



/-- behind the last type parameter -/
theorem kwLo_le {rg : Rg} {tp : List RTypeParam} {j k : Nat} (hs : SeqTP src σ j k tp)
    (hp : tp.all RTypeParam.plain = true) (hne : tp ≠ []) : kwLo rg tp ≤ E σ k := by
  unfold kwLo
  cases hl : tp.getLast? with
  | none => exact absurd (List.getLast?_eq_none_iff.mp hl) hne
  | some t =>
    have : (tp.map RTypeParam.tree).getLast? = some (RTypeParam.tree t) := by rw [List.getLast?_map, hl]; rfl
    exact seqTF_last_le (hs hp) _ this

/-- one step of assembling a chain from the chains of its blocks (found among the hypotheses) and linear arithmetic -/
macro "chain_step" : tactic => `(tactic| first
  | exact chain_mono (by assumption) (by omega) (by omega)
  | refine chain_app' (by assumption) (by omega) ?_
  | refine chain_cons'' (by omega) ?_
  | (simp only [chain, decide_eq_true_eq]; omega))

end PV.C13

